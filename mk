#!/bin/bash
# developer helper: refresh _CoqProject/Makefile and build the given targets (relative to coq/)
cd /verif && /venv/bin/python -c "
import sys; sys.path.insert(0,'/verif')
from harness import common; common.coq_makefile()" && cd coq && timeout ${MK_TIMEOUT:-900} make -j${MK_J:-8} "$@" 2>&1 | grep -v "^COQC\|^COQDEP\|^make\[" 

(** C16 -- the lemmas Props/C16.v closes its theorems with, in the exact form
    of the statements there (assembled from ParseProofs / ParseDict /
    ParseSlurm / ParseLsf). *)
From Coq Require Export List ZArith Bool.
From Coq Require Import Arith NArith Lia.
From MWF Require Import Base.Str Gen.SchedTables Sched.Manuals Sched.Parse Sched.ParseProofs
     Sched.ParseDict Sched.ParseSlurm Sched.ParseLsf.
Import ListNotations.

Definition terminal_states : list State := [FINISHED; FAILED; TIMEDOUT; HWFAILURE; CANCELLED; UNKNOWN].

Lemma not_terminal_list : forall x, terminal x = false -> ~ In x terminal_states.
Proof.
  intros x H X. apply terminal_spec in X. congruence.
Qed.

(* ------------------------------------------------------------------------ *)
(** * Tables *)

Lemma only_success_all :
  (forall c, slurm_state c = FINISHED -> In c slurm_success) /\
  (forall c, lsf_state c = FINISHED -> In c lsf_success) /\
  (forall c, flux_state c = FINISHED -> In c flux_success) /\
  (forall v t d c, In (v, (t, d)) flux_tables -> lookup_state t d c = FINISHED -> In c flux_success).
Proof.
  repeat split.
  - exact slurm_only_success.
  - exact lsf_only_success.
  - exact flux_only_success.
  - exact flux_all_only_success.
Qed.

Lemma alive_not_terminal_all :
  (forall c, In c slurm_alive -> ~ In (slurm_state c) terminal_states) /\
  (forall c, In c lsf_alive -> ~ In (lsf_state c) terminal_states) /\
  (forall c, In c flux_alive -> ~ In (flux_state c) terminal_states) /\
  (forall v t d c, In (v, (t, d)) flux_tables -> In c flux_alive ->
                   ~ In (lookup_state t d c) terminal_states).
Proof.
  repeat split; intros.
  - apply not_terminal_list. apply slurm_alive_not_terminal. assumption.
  - apply not_terminal_list. apply lsf_alive_not_terminal. assumption.
  - apply not_terminal_list. apply flux_alive_not_terminal. assumption.
  - apply not_terminal_list. eapply flux_all_alive_not_terminal; eassumption.
Qed.

Lemma flux_monitor_table : forall t d code,
  only_success_b t d flux_success = true ->
  alive_ok_b (lookup_state t d) flux_alive = true ->
  C16_ok_flux code (lookup_state t d code) = true.
Proof.
  intros t d code HS HA. unfold C16_ok_flux. apply andb_true_iff. split.
  - destruct (memb code flux_alive) eqn:M; [|reflexivity]. apply memb_In in M.
    rewrite (alive_ok_sound _ _ HA _ M). reflexivity.
  - destruct (State_eqb (lookup_state t d code) FINISHED) eqn:E; [|reflexivity].
    apply State_eqb_eq in E. apply memb_In. exact (only_success_sound _ _ _ HS _ E).
Qed.

Lemma flux_monitor : forall code, C16_ok_flux code (flux_state code) = true.
Proof. intro code. apply flux_monitor_table; vm_compute; reflexivity. Qed.

Lemma flux_monitor_all : forall v t d code,
  In (v, (t, d)) flux_tables -> C16_ok_flux code (lookup_state t d code) = true.
Proof.
  intros v t d code Hin.
  assert (H : forallb (fun e => only_success_b (fst (snd e)) (snd (snd e)) flux_success
                                && alive_ok_b (lookup_state (fst (snd e)) (snd (snd e))) flux_alive)
                      flux_tables = true) by (vm_compute; reflexivity).
  rewrite forallb_forall in H. specialize (H _ Hin). simpl in H.
  apply andb_true_iff in H. destruct H as [H1 H2]. apply flux_monitor_table; assumption.
Qed.

(* ------------------------------------------------------------------------ *)
(** * Return codes *)

Lemma code_ok_zero : forall m d rc,
  rc_map_ok_b m d = true -> code_of m d rc = JS_OK -> rc = 0%Z.
Proof.
  intros m d rc H C. destruct (Z.eq_dec rc 0) as [E|E]; [exact E|].
  destruct (rc_nonzero_not_ok m d rc H E) as [_ X]. contradiction.
Qed.

Lemma rc_slurm : forall jl sq_out sq_rc sa_out sa_rc code st,
  slurm_check_jobs jl sq_out sq_rc sa_out sa_rc = Ret code st ->
  (code = JS_OK -> sq_rc = 0%Z \/ sa_rc = 0%Z) /\
  (code <> JS_OK -> forall j v, In (j, v) st -> v = None) /\
  exists cs,
    (cs = [code_of sq_rc_map sq_rc_default sq_rc] \/
     cs = [code_of sq_rc_map sq_rc_default sq_rc; code_of sa_rc_map sa_rc_default sa_rc]) /\
    (code = JS_OK <-> In JS_OK cs) /\
    (code = JS_NOJOBS <-> ~ In JS_OK cs /\ forall c, In c cs -> c = JS_NOJOBS) /\
    (code = JS_ERROR <-> ~ In JS_OK cs /\ exists c, In c cs /\ c <> JS_NOJOBS).
Proof.
  intros jl sq_out sq_rc sa_out sa_rc code st H.
  destruct (slurm_codes_any_text _ _ _ _ _ _ _ H) as [cs [Hc [Hcs Hn]]].
  pose proof (combine_codes_spec cs) as [S1 [S2 S3]]. rewrite <- Hc in S1, S2, S3.
  split; [|split; [exact Hn|]].
  - intro X. apply S1 in X. destruct Hcs as [E|E]; subst cs; simpl in X.
    + destruct X as [X|[]]. left. exact (code_ok_zero _ _ _ sq_rc_map_ok X).
    + destruct X as [X|[X|[]]].
      * left. exact (code_ok_zero _ _ _ sq_rc_map_ok X).
      * right. exact (code_ok_zero _ _ _ sa_rc_map_ok X).
  - exists cs. split; [exact Hcs|]. split; [exact S1|]. split; [exact S2 | exact S3].
Qed.

Lemma rc_queries :
  (forall st out rc, rc <> 0%Z -> exists c, squeue_query st out rc = Some (c, st) /\ c <> JS_OK) /\
  (forall st out rc, rc <> 0%Z -> exists c, sacct_query st out rc = Some (c, st) /\ c <> JS_OK) /\
  (forall jl out rc code st, lsf_check_jobs jl out rc = Ret code st ->
     (rc <> 0%Z -> code <> JS_OK /\ st = init_status jl) /\
     (code <> JS_OK -> forall j v, In (j, v) st -> v = None)).
Proof.
  split; [exact squeue_query_fail | split; [exact sacct_query_fail | exact lsf_codes_any_text]].
Qed.

(* ------------------------------------------------------------------------ *)
(** * Round trips *)

Lemma spec_answer_in : forall f ps jl j,
  In j jl -> spec_answer f ps jl j = Some (option_map f (last_state ps j)).
Proof. intros f ps jl j H. unfold spec_answer. apply memb_In in H. rewrite H. reflexivity. Qed.

Lemma spec_answer_out : forall f ps jl j, ~ In j jl -> spec_answer f ps jl j = None.
Proof.
  intros f ps jl j H. unfold spec_answer. destruct (memb j jl) eqn:M; [|reflexivity].
  apply memb_In in M. contradiction.
Qed.

Lemma closed_answers : forall f ps jl,
  (forall j, In j jl -> get (apply_pairs f ps (init_status jl)) j
                        = Some (option_map f (last_state ps j))) /\
  (forall j, ~ In j jl -> get (apply_pairs f ps (init_status jl)) j = None).
Proof.
  intros f ps jl. split; intros j H; rewrite get_apply_init;
    [apply spec_answer_in | apply spec_answer_out]; exact H.
Qed.

Lemma roundtrip_squeue : forall jl t,
  wf_joblist jl = true -> wf_squeue t = true ->
  exists st,
    squeue_query (init_status jl) (print_squeue t) 0 = Some (JS_OK, st) /\
    (forall j, In j jl -> get st j = Some (option_map slurm_state (last_state (sq_pairs t) j))) /\
    (forall j, ~ In j jl -> get st j = None).
Proof.
  intros jl t Hj Ht. exists (apply_pairs slurm_state (sq_pairs t) (init_status jl)).
  split; [|apply closed_answers].
  rewrite (squeue_query_ok _ _ _ Ht (init_no_empty_key _ Hj)). reflexivity.
Qed.

Lemma roundtrip_sacct : forall jl t,
  wf_joblist jl = true -> wf_sacct t = true ->
  exists st,
    sacct_query (init_status jl) (print_sacct t) 0 = Some (JS_OK, st) /\
    (forall j, In j jl -> get st j = Some (option_map slurm_state (last_state (sa_pairs t) j))) /\
    (forall j, ~ In j jl -> get st j = None).
Proof.
  intros jl t Hj Ht. exists (apply_pairs slurm_state (sa_pairs t) (init_status jl)).
  split; [|apply closed_answers].
  rewrite (sacct_query_ok _ _ _ Ht (init_no_empty_key _ Hj)). reflexivity.
Qed.

Lemma roundtrip_slurm : forall jl sq sq_rc sa sa_rc,
  wf_joblist jl = true -> wf_squeue sq = true -> wf_sacct sa = true ->
  exists code st,
    slurm_run jl (print_squeue sq) sq_rc (print_sacct sa) sa_rc
      = (Ret code st, if slurm_missing jl sq sq_rc then 2 else 1) /\
    (forall j, In j jl ->
       get st j = Some (option_map slurm_state (last_state (slurm_seen jl sq sq_rc sa sa_rc) j))) /\
    (forall j, ~ In j jl -> get st j = None).
Proof.
  intros jl sq sq_rc sa sa_rc Hj Hq Ha.
  eexists. eexists. split; [apply slurm_run_closed; assumption | apply closed_answers].
Qed.

(** what [slurm_missing] / [slurm_seen] mean when both commands exit 0 *)
Lemma slurm_seen_zero : forall jl sq sa,
  slurm_missing jl sq 0 = existsb (fun j => is_none (last_state (sq_pairs sq) j)) jl /\
  slurm_seen jl sq 0 sa 0 = sq_pairs sq ++ (if slurm_missing jl sq 0 then sa_pairs sa else []).
Proof.
  intros. split; [reflexivity|]. unfold slurm_seen.
  change (parses sq_rc_map sq_rc_default 0) with true.
  change (parses sa_rc_map sa_rc_default 0) with true.
  rewrite andb_true_r. reflexivity.
Qed.

Lemma roundtrip_bjobs : forall jl t,
  wf_joblist jl = true -> wf_bjobs t = true -> lsf_nojob (print_bjobs t) = false ->
  exists st,
    lsf_check_jobs jl (print_bjobs t) 0 = Ret JS_OK st /\
    (forall j, In j jl -> get st j = Some (option_map lsf_state (last_state (bj_pairs t) j))) /\
    (forall j, ~ In j jl -> get st j = None).
Proof.
  intros jl t Hj Ht Hn. exists (apply_pairs lsf_state (bj_pairs t) (init_status jl)).
  split; [|apply closed_answers].
  rewrite (lsf_closed _ _ _ Hj Ht), Hn. reflexivity.
Qed.

Lemma bjobs_nojob : forall jl t,
  wf_joblist jl = true -> wf_bjobs t = true -> lsf_nojob (print_bjobs t) = true ->
  lsf_check_jobs jl (print_bjobs t) 0 = Ret JS_NOJOBS [].
Proof.
  intros jl t Hj Ht Hn. rewrite (lsf_closed _ _ _ Hj Ht), Hn. reflexivity.
Qed.

(** the state code a bjobs row stands for *)
Lemma bj_pair_row : forall r,
  bj_pair (BjRow r) = [(lf_text (b_id r), lsf_row_code (lf_text (b_stat r)) (lf_text (b_reason r)))].
Proof. reflexivity. Qed.

Lemma lsf_row_code_spec : forall stat reason,
  (* the implementation's refinement rule is the manual's *)
  lsf_effective stat reason = lsf_row_code stat reason /\
  (stat <> s "EXIT" -> lsf_row_code stat reason = stat) /\
  lsf_state (lsf_row_code (s "EXIT") reason) =
    (if contains lsf_term_runlimit reason then TIMEDOUT
     else if contains lsf_term_owner reason then CANCELLED
     else FAILED).
Proof.
  intros stat reason.
  split; [apply lsf_effective_row_code | split; [apply lsf_row_code_other | apply lsf_exit_refinement]].
Qed.

(* ------------------------------------------------------------------------ *)
(** * The monitors, as used by the correspondence run (harness/props/c16.py
      evaluates [slurm_mon_ok] / [lsf_mon_ok] / [flux_mon_ok] on what the
      IMPLEMENTATION returned) *)

Lemma slurm_mon_model : forall jl sq sq_rc k1 sa sa_rc k2,
  slurm_mon_ok (jl, (sq, sq_rc, k1), (sa, sa_rc, k2),
                slurm_run jl (print_squeue sq) sq_rc (print_sacct sa) sa_rc) = true.
Proof.
  intros. unfold slurm_mon_ok.
  destruct (slurm_run jl (print_squeue sq) sq_rc (print_sacct sa) sa_rc) as [obs calls] eqn:R.
  destruct (wf_joblist jl && wf_squeue sq && wf_sacct sa) eqn:W; [|reflexivity].
  apply andb_true_iff in W. destruct W as [W Ha]. apply andb_true_iff in W. destruct W as [Hj Hq].
  pose proof (slurm_monitor jl sq sq_rc sa sa_rc Hj Hq Ha) as M.
  unfold slurm_check_jobs in M. rewrite R in M. exact M.
Qed.

Lemma lsf_mon_model : forall jl t rc k,
  lsf_mon_ok (jl, (t, rc, k), lsf_check_jobs jl (print_bjobs t) rc) = true.
Proof.
  intros. unfold lsf_mon_ok. destruct (wf_joblist jl && wf_bjobs t) eqn:W; [|reflexivity].
  apply andb_true_iff in W. destruct W as [Hj Ht]. apply lsf_monitor; assumption.
Qed.

Lemma flux_mon_model : forall ver code, flux_mon_ok (ver, code, flux_state code) = true.
Proof. intros. unfold flux_mon_ok. apply flux_monitor. Qed.

(* ------------------------------------------------------------------------ *)
(** * Non-vacuity: a concrete table with ids that are prefixes of one another,
      another user's job, a job-step row, a blank line *)

Definition ex_jl : list str := [s "12"; s "123"; s "9"].
Definition ex_sq : sqtable :=
  SqT (s "             JOBID     NAME     USER ST")
      [ q_ (sp 15) (tp (s "123") (sp 4)) (tp (s "stepA") (sp 2)) (tp (s "alice") (sp 1)) (tp (s "R") e_) [];
        q_ (sp 14) (tp (s "1234") (sp 4)) (tp (s "other") (sp 4)) (tp (s "bob") (sp 1)) (tp (s "CD") e_) [];
        qb (sp 2);
        q_ e_ (tp (s "123") (sp 1)) (tp (s "stepA") (sp 1)) (tp (s "alice") (sp 1)) (tp (s "CG") (sp 3)) [];
        qb e_ ].
Definition ex_sa : satable :=
  SaT (s "       JobID    JobName      State ExitCode ")
      (s "------------ ---------- ---------- -------- ")
      [ a_ (tp (s "12") (sp 11)) (tp (s "stepB") (sp 6)) (tp (s "CANCELLED+") (sp 1)) [tp (s "0:0") (sp 1)];
        a_ (tp (s "12.batch") (sp 5)) (tp (s "batch") (sp 6)) (tp (s "COMPLETED") (sp 2)) [tp (s "0:0") (sp 1)];
        ab e_ ].
Definition ex_bj : bjtable :=
  BjT (s "JOBID  |STAT |EXIT_CODE |EXIT_REASON")
      [ b_ (lf e_ (s "123") (sp 4)) (lf e_ (s "EXIT") (sp 1)) (lf e_ (s "140") (sp 7))
           (lf e_ (s "TERM_RUNLIMIT: job killed after reaching LSF run time limit") e_) [];
        b_ (lf e_ (s "12") (sp 5)) (lf e_ (s "SSUSP") e_) (lf e_ (s "-") (sp 9)) (lf e_ (s "-") (sp 3)) [];
        b_ (lf e_ (s "1234") (sp 3)) (lf e_ (s "DONE") (sp 1)) (lf e_ (s "-") (sp 9)) (lf e_ (s "-") (sp 3)) [];
        bs [lf e_ e_ e_] ].

Lemma ex_wf :
  wf_joblist ex_jl && wf_squeue ex_sq && wf_sacct ex_sa && wf_bjobs ex_bj
  && negb (lsf_nojob (print_bjobs ex_bj)) = true.
Proof. vm_compute. reflexivity. Qed.

Lemma ex_slurm :
  slurm_run ex_jl (print_squeue ex_sq) 0 (print_sacct ex_sa) 0
  = (Ret JS_OK [kv (s "12") CANCELLED; kv (s "123") FINISHING; kn (s "9")], 2).
Proof. vm_compute. reflexivity. Qed.

Lemma ex_lsf :
  lsf_check_jobs ex_jl (print_bjobs ex_bj) 0
  = Ret JS_OK [kv (s "12") RUNNING; kv (s "123") TIMEDOUT; kn (s "9")].
Proof. vm_compute. reflexivity. Qed.

(** C16 -- printer/parser round trip of SlurmScriptAdapter.check_jobs
    (squeue, then sacct while some id is still None), for ALL well-formed
    tables, by induction over the rows.  Proofs only (model: Sched/Parse.v). *)
From Coq Require Import List Arith NArith ZArith Bool Lia.
From MWF Require Import Base.Str Gen.SchedTables Sched.Manuals Sched.Parse Sched.ParseProofs
     Sched.ParseDict.
Import ListNotations.

(* ------------------------------------------------------------------------ *)
(** * Lines *)

Lemma wf_toks_inv : forall t p r,
  wf_toks ((t, p) :: r) = true -> tokb t = true /\ padb p = true /\ wf_toks r = true.
Proof.
  intros t p r H. destruct r as [|[t2 p2] r'].
  - simpl in H. apply andb_true_iff in H. destruct H as [Ht Hp]. repeat split; assumption.
  - change (wf_toks ((t, p) :: (t2, p2) :: r')) with
        (tokb t && (pad1b p && wf_toks ((t2, p2) :: r'))) in H.
    apply andb_true_iff in H. destruct H as [Ht H].
    apply andb_true_iff in H. destruct H as [Hp Hr].
    unfold pad1b in Hp. apply andb_true_iff in Hp. destruct Hp as [_ Hp].
    repeat split; assumption.
Qed.

Lemma wf_toks_nonl : forall fs, wf_toks fs = true -> nonlb (toks_text fs) = true.
Proof.
  induction fs as [|[t p] r IH]; intro H; [reflexivity|].
  apply wf_toks_inv in H. destruct H as [Ht [Hp Hr]].
  rewrite toks_text_cons, !nonlb_app.
  rewrite (nospace_nonl _ (tokb_nospace _ Ht)), (padb_nonl _ Hp), (IH Hr). reflexivity.
Qed.

Lemma split_lines : forall h ls,
  nonlb h = true -> forallb nonlb ls = true -> split_on nl (join nl (h :: ls)) = h :: ls.
Proof.
  intros h ls Hh Hls. apply split_join; [discriminate|].
  simpl. change (nodelim nl h) with (nonlb h). rewrite Hh. exact Hls.
Qed.

Lemma forallb_map_impl : forall {A B} (f : A -> bool) (g : B -> bool) (h : A -> B) l,
  (forall x, f x = true -> g (h x) = true) -> forallb f l = true -> forallb g (map h l) = true.
Proof.
  intros A B f g h l H. induction l as [|a l IH]; simpl; intro Hl; [reflexivity|].
  apply andb_true_iff in Hl. destruct Hl as [Ha Hl]. rewrite (H _ Ha), (IH Hl). reflexivity.
Qed.

Lemma print_toks_eq : forall lead fs, print_toks lead fs = lead ++ toks_text fs.
Proof. reflexivity. Qed.

Lemma print_sqline_nonl : forall l, wf_sqline l = true -> nonlb (print_sqline l) = true.
Proof.
  intros [r|ws] H.
  - change (padb (q_lead r) && wf_toks (sq_toks r) = true) in H.
    apply andb_true_iff in H. destruct H as [Hl Ht].
    change (nonlb (print_toks (q_lead r) (sq_toks r)) = true).
    rewrite print_toks_eq, nonlb_app, (padb_nonl _ Hl), (wf_toks_nonl _ Ht). reflexivity.
  - apply padb_nonl. exact H.
Qed.

Lemma print_saline_nonl : forall l, wf_saline l = true -> nonlb (print_saline l) = true.
Proof.
  intros [r|ws] H.
  - change (wf_toks (sa_toks r) = true) in H.
    change (nonlb (print_toks [] (sa_toks r)) = true).
    rewrite print_toks_eq. apply wf_toks_nonl. exact H.
  - apply padb_nonl. exact H.
Qed.

(** a blank line splits into [""] or ["", ""] *)
Lemma resplit_blank : forall ws, padb ws = true -> resplit ws = [[]] \/ resplit ws = [[]; []].
Proof.
  intros ws H. destruct ws as [|c ws']; [left; reflexivity|]. right.
  rewrite <- (app_nil_r (c :: ws')).
  rewrite resplit_pad; [reflexivity | discriminate | apply padb_allspace; exact H | reflexivity].
Qed.

Lemma tok_not_nil : forall t, tokb t = true -> is_nil t = false.
Proof. intros t H. apply tokb_nonnil in H. destruct t; [contradiction | reflexivity]. Qed.

(** the fields of a printed row, after the optional removal of the blank head *)
Lemma resplit_row : forall lead fs,
  fs <> [] -> padb lead = true -> wf_toks fs = true ->
  resplit (lead ++ toks_text fs) =
  (if is_nil lead then [] else [[]]) ++ map fst fs ++ toks_tail fs.
Proof.
  intros lead fs Hne Hl Hf. destruct lead as [|c lead'].
  - simpl. apply resplit_toks; assumption.
  - rewrite resplit_pad.
    + rewrite resplit_toks by assumption. reflexivity.
    + discriminate.
    + apply padb_allspace. exact Hl.
    + destruct fs as [|[t p] r]; [contradiction|]. rewrite toks_text_cons.
      apply tokb_starts_nonspace. apply wf_toks_inv in Hf. tauto.
Qed.

(* ------------------------------------------------------------------------ *)
(** * squeue *)

Lemma squeue_row_ok : forall st l,
  wf_sqline l = true -> has_key [] st = false ->
  slurm_row sq_drop_blank_head sq_jobid_index sq_state_index st (print_sqline l)
  = Some (apply_pairs slurm_state (sq_pair l) st).
Proof.
  intros st [r|ws] Hwf Hk.
  - destruct r as [lead [i pi] [n pn] [u pu] [c pc] more].
    change (padb lead && wf_toks ((i, pi) :: (n, pn) :: (u, pu) :: (c, pc) :: more) = true) in Hwf.
    apply andb_true_iff in Hwf. destruct Hwf as [Hl Ht].
    pose proof (wf_toks_inv _ _ _ Ht) as [Hi _].
    unfold print_sqline, sq_toks. simpl q_lead. simpl q_id. simpl q_name. simpl q_user.
    simpl q_state. simpl q_more.
    rewrite print_toks_eq.
    unfold slurm_row. rewrite resplit_row by (try discriminate; assumption).
    change sq_drop_blank_head with true. change sq_jobid_index with 0. change sq_state_index with 3.
    cbv iota.
    assert (D : forall tl, drop_blank_head ((if is_nil lead then [] else [[]]) ++ i :: tl) = i :: tl).
    { intro tl. destruct lead; simpl; [rewrite (tok_not_nil _ Hi)|]; reflexivity. }
    simpl map. simpl app.
    rewrite D. simpl nth_error. unfold sq_pair. simpl q_id. simpl q_state. simpl fst.
    unfold apply_pairs, apply_pair. simpl fold_left. simpl fst. simpl snd.
    destruct (has_key i st); reflexivity.
  - simpl in Hwf. unfold print_sqline, slurm_row.
    change sq_drop_blank_head with true. change sq_jobid_index with 0. cbv iota.
    destruct (resplit_blank _ Hwf) as [E|E]; rewrite E; simpl.
    + reflexivity.
    + rewrite Hk. reflexivity.
Qed.

Lemma squeue_query_ok : forall st t rc,
  wf_squeue t = true -> has_key [] st = false ->
  squeue_query st (print_squeue t) rc =
  Some (code_of sq_rc_map sq_rc_default rc,
        if parses sq_rc_map sq_rc_default rc then apply_pairs slurm_state (sq_pairs t) st else st).
Proof.
  intros st t rc Hwf Hk. unfold squeue_query, run_query, parses, code_of.
  destruct (fst (rc_lookup sq_rc_map sq_rc_default rc)); [|reflexivity].
  destruct t as [hdr ls|raw]; [|discriminate].
  simpl in Hwf. apply andb_true_iff in Hwf. destruct Hwf as [Hh Hls].
  unfold print_squeue. change sq_row_sep with nl.
  rewrite split_lines; [| exact Hh | apply (forallb_map_impl wf_sqline); [apply print_sqline_nonl | exact Hls]].
  change sq_data_row_offset with 1. simpl skipn.
  rewrite (fold_rows_lines _ print_sqline sq_pair slurm_state wf_sqline);
    [reflexivity | apply squeue_row_ok | exact Hls | exact Hk].
Qed.

(* ------------------------------------------------------------------------ *)
(** * sacct *)

Lemma sacct_row_ok : forall st l,
  wf_saline l = true -> has_key [] st = false ->
  slurm_row sa_drop_blank_head sa_jobid_index sa_state_index st (print_saline l)
  = Some (apply_pairs slurm_state (sa_pair l) st).
Proof.
  intros st [r|ws] Hwf Hk.
  - destruct r as [[i pi] [n pn] [c pc] more].
    change (wf_toks ((i, pi) :: (n, pn) :: (c, pc) :: more) = true) in Hwf.
    unfold print_saline, sa_toks. simpl a_id. simpl a_name. simpl a_state. simpl a_more.
    rewrite print_toks_eq, app_nil_l.
    unfold slurm_row. rewrite resplit_toks by (try discriminate; assumption).
    change sa_drop_blank_head with false. change sa_jobid_index with 0. change sa_state_index with 2.
    cbv iota. simpl map. simpl app. simpl nth_error.
    unfold sa_pair. simpl a_id. simpl a_state. simpl fst.
    unfold apply_pairs, apply_pair. simpl fold_left. simpl fst. simpl snd.
    destruct (has_key i st); reflexivity.
  - simpl in Hwf. unfold print_saline, slurm_row.
    change sa_drop_blank_head with false. change sa_jobid_index with 0. cbv iota.
    destruct (resplit_blank _ Hwf) as [E|E]; rewrite E; simpl; rewrite Hk; reflexivity.
Qed.

Lemma sacct_query_ok : forall st t rc,
  wf_sacct t = true -> has_key [] st = false ->
  sacct_query st (print_sacct t) rc =
  Some (code_of sa_rc_map sa_rc_default rc,
        if parses sa_rc_map sa_rc_default rc then apply_pairs slurm_state (sa_pairs t) st else st).
Proof.
  intros st t rc Hwf Hk. unfold sacct_query, run_query, parses, code_of.
  destruct (fst (rc_lookup sa_rc_map sa_rc_default rc)); [|reflexivity].
  destruct t as [h1 h2 ls|raw]; [|discriminate].
  simpl in Hwf. apply andb_true_iff in Hwf. destruct Hwf as [Hh Hls].
  apply andb_true_iff in Hh. destruct Hh as [Hh1 Hh2].
  unfold print_sacct. change sa_row_sep with nl.
  rewrite split_lines;
    [| exact Hh1
     | simpl; rewrite Hh2; apply (forallb_map_impl wf_saline); [apply print_saline_nonl | exact Hls]].
  change sa_data_row_offset with 2. simpl skipn.
  rewrite (fold_rows_lines _ print_saline sa_pair slurm_state wf_saline);
    [reflexivity | apply sacct_row_ok | exact Hls | exact Hk].
Qed.

(* ------------------------------------------------------------------------ *)
(** * check_jobs *)

Lemma parses_zero : forall m d rc,
  rc_map_ok_b m d = true -> parses m d rc = true -> rc = 0%Z.
Proof.
  intros m d rc H P. destruct (Z.eq_dec rc 0) as [E|E]; [exact E|].
  destruct (rc_nonzero_not_ok m d rc H E) as [X _]. congruence.
Qed.

Lemma is_OK_combine : forall cs, is_OK (combine_codes cs) = existsb is_OK cs.
Proof.
  intro cs. unfold combine_codes. destruct (existsb is_OK cs); [reflexivity|].
  destruct (forallb is_NOJOBS cs); reflexivity.
Qed.

Lemma is_OK_eq : forall c, is_OK c = true <-> c = JS_OK.
Proof. intro c. unfold is_OK. apply JS_eqb_eq. Qed.

(** the closed form of what check_jobs returns, and how many commands it ran *)
Lemma slurm_run_closed : forall jl sq sq_rc sa sa_rc,
  wf_joblist jl = true -> wf_squeue sq = true -> wf_sacct sa = true ->
  slurm_run jl (print_squeue sq) sq_rc (print_sacct sa) sa_rc =
  (Ret (combine_codes (code_of sq_rc_map sq_rc_default sq_rc ::
                       if slurm_missing jl sq sq_rc then [code_of sa_rc_map sa_rc_default sa_rc] else []))
       (apply_pairs slurm_state (slurm_seen jl sq sq_rc sa sa_rc) (init_status jl)),
   if slurm_missing jl sq sq_rc then 2 else 1).
Proof.
  intros jl sq sq_rc sa sa_rc Hj Hq Ha. unfold slurm_run.
  pose proof (init_no_empty_key _ Hj) as Hk.
  rewrite (squeue_query_ok _ _ _ Hq Hk).
  set (ps1 := if parses sq_rc_map sq_rc_default sq_rc then sq_pairs sq else []).
  assert (E1 : (if parses sq_rc_map sq_rc_default sq_rc
                then apply_pairs slurm_state (sq_pairs sq) (init_status jl) else init_status jl)
               = apply_pairs slurm_state ps1 (init_status jl)).
  { unfold ps1. destruct (parses sq_rc_map sq_rc_default sq_rc); reflexivity. }
  rewrite E1. rewrite any_none_apply_init.
  change (existsb (fun j => is_none (last_state ps1 j)) jl) with (slurm_missing jl sq sq_rc).
  unfold slurm_seen. fold ps1.
  destruct (slurm_missing jl sq sq_rc).
  - rewrite (sacct_query_ok _ _ _ Ha) by (rewrite has_key_apply_pairs; exact Hk).
    simpl andb. destruct (parses sa_rc_map sa_rc_default sa_rc).
    + rewrite apply_pairs_app. reflexivity.
    + rewrite app_nil_r. reflexivity.
  - simpl andb. rewrite app_nil_r. reflexivity.
Qed.

(** the monitor holds of the model, for every well-formed input *)
Lemma slurm_monitor : forall jl sq sq_rc sa sa_rc,
  wf_joblist jl = true -> wf_squeue sq = true -> wf_sacct sa = true ->
  C16_ok_slurm jl sq sq_rc sa sa_rc
    (slurm_check_jobs jl (print_squeue sq) sq_rc (print_sacct sa) sa_rc) = true.
Proof.
  intros jl sq sq_rc sa sa_rc Hj Hq Ha. unfold slurm_check_jobs.
  rewrite slurm_run_closed by assumption. simpl fst. unfold C16_ok_slurm.
  rewrite JS_eqb_refl, andb_true_r.
  rewrite (answers_ok_apply slurm_state slurm_alive slurm_success _ jl
             slurm_alive_not_terminal slurm_only_success), andb_true_r.
  rewrite is_OK_combine.
  assert (X : existsb is_OK (code_of sq_rc_map sq_rc_default sq_rc ::
                (if slurm_missing jl sq sq_rc then [code_of sa_rc_map sa_rc_default sa_rc] else []))
              = parses sq_rc_map sq_rc_default sq_rc
                || slurm_missing jl sq sq_rc && parses sa_rc_map sa_rc_default sa_rc).
  { rewrite (rc_parses_iff_ok _ _ sq_rc sq_rc_map_ok), (rc_parses_iff_ok _ _ sa_rc sa_rc_map_ok).
    destruct (slurm_missing jl sq sq_rc); simpl; [rewrite orb_false_r | rewrite orb_false_r]; reflexivity. }
  rewrite X. clear X. unfold slurm_seen.
  destruct (parses sq_rc_map sq_rc_default sq_rc) eqn:P1.
  - simpl. rewrite (parses_zero _ _ _ sq_rc_map_ok P1). reflexivity.
  - simpl orb. destruct (slurm_missing jl sq sq_rc && parses sa_rc_map sa_rc_default sa_rc) eqn:P2.
    + apply andb_true_iff in P2. destruct P2 as [M P2]. rewrite M.
      rewrite (parses_zero _ _ _ sa_rc_map_ok P2). simpl. apply orb_true_r.
    + simpl. apply init_all_none.
Qed.

(** a failing squeue / sacct never contributes OK and leaves the dictionary alone *)
Lemma squeue_query_fail : forall st out rc,
  rc <> 0%Z -> exists c, squeue_query st out rc = Some (c, st) /\ c <> JS_OK.
Proof.
  intros st out rc H. destruct (rc_nonzero_not_ok _ _ rc sq_rc_map_ok H) as [P C].
  exists (code_of sq_rc_map sq_rc_default rc). split; [|exact C].
  unfold squeue_query, run_query. unfold parses in P. rewrite P. reflexivity.
Qed.

Lemma sacct_query_fail : forall st out rc,
  rc <> 0%Z -> exists c, sacct_query st out rc = Some (c, st) /\ c <> JS_OK.
Proof.
  intros st out rc H. destruct (rc_nonzero_not_ok _ _ rc sa_rc_map_ok H) as [P C].
  exists (code_of sa_rc_map sa_rc_default rc). split; [|exact C].
  unfold sacct_query, run_query. unfold parses in P. rewrite P. reflexivity.
Qed.

Lemma query_not_ok_unchanged : forall m d rowf off sep st out rc c st',
  rc_map_ok_b m d = true ->
  run_query m d rowf off sep st out rc = Some (c, st') -> c <> JS_OK -> st' = st.
Proof.
  intros m d rowf off sep st out rc c st' Hm H Hc. unfold run_query in H.
  pose proof (rc_parses_iff_ok m d rc Hm) as PI. unfold parses, code_of in PI.
  destruct (fst (rc_lookup m d rc)) eqn:P.
  - destruct (fold_rows rowf st (skipn off (split_on sep out))); [|discriminate].
    inversion H; subst. exfalso. apply Hc. apply is_OK_eq. symmetry. exact PI.
  - inversion H; subst. reflexivity.
Qed.

(** ANY output texts (well-formed or not): the combined code rule, and on a
    non-OK code no entry of the returned dictionary is a state *)
Lemma slurm_codes_any_text : forall jl sq_out sq_rc sa_out sa_rc code st,
  slurm_check_jobs jl sq_out sq_rc sa_out sa_rc = Ret code st ->
  exists cs,
    code = combine_codes cs /\
    (cs = [code_of sq_rc_map sq_rc_default sq_rc] \/
     cs = [code_of sq_rc_map sq_rc_default sq_rc; code_of sa_rc_map sa_rc_default sa_rc]) /\
    (code <> JS_OK -> forall j v, In (j, v) st -> v = None).
Proof.
  intros jl sq_out sq_rc sa_out sa_rc code st H.
  unfold slurm_check_jobs, slurm_run in H.
  destruct (squeue_query (init_status jl) sq_out sq_rc) as [[c1 st1]|] eqn:Q1; [|discriminate].
  assert (C1 : c1 = code_of sq_rc_map sq_rc_default sq_rc).
  { unfold squeue_query, run_query in Q1. unfold code_of.
    destruct (fst (rc_lookup sq_rc_map sq_rc_default sq_rc)).
    - destruct (fold_rows _ _ _); [|discriminate]. inversion Q1; reflexivity.
    - inversion Q1; reflexivity. }
  destruct (any_none st1).
  - destruct (sacct_query st1 sa_out sa_rc) as [[c2 st2]|] eqn:Q2; [|discriminate].
    assert (C2 : c2 = code_of sa_rc_map sa_rc_default sa_rc).
    { unfold sacct_query, run_query in Q2. unfold code_of.
      destruct (fst (rc_lookup sa_rc_map sa_rc_default sa_rc)).
      - destruct (fold_rows _ _ _); [|discriminate]. inversion Q2; reflexivity.
      - inversion Q2; reflexivity. }
    simpl in H. inversion H; subst code st. clear H.
    exists [c1; c2]. split; [reflexivity|]. split; [right; rewrite C1, C2; reflexivity|].
    intro Hne.
    assert (N1 : c1 <> JS_OK).
    { intro X. apply Hne. apply (proj1 (combine_codes_spec [c1; c2])). left. exact X. }
    assert (N2 : c2 <> JS_OK).
    { intro X. apply Hne. apply (proj1 (combine_codes_spec [c1; c2])). right. left. exact X. }
    unfold sacct_query in Q2. apply query_not_ok_unchanged in Q2; [|exact sa_rc_map_ok|exact N2].
    unfold squeue_query in Q1. apply query_not_ok_unchanged in Q1; [|exact sq_rc_map_ok|exact N1].
    subst. apply all_none_spec. apply init_all_none.
  - simpl in H. inversion H; subst code st. clear H.
    exists [c1]. split; [reflexivity|]. split; [left; rewrite C1; reflexivity|].
    intro Hne.
    assert (N1 : c1 <> JS_OK).
    { intro X. apply Hne. apply (proj1 (combine_codes_spec [c1])). left. exact X. }
    unfold squeue_query in Q1. apply query_not_ok_unchanged in Q1; [|exact sq_rc_map_ok|exact N1].
    subst. apply all_none_spec. apply init_all_none.
Qed.

(** C16 -- the status dictionary of check_jobs: what a sequence of
    "if id in status: status[id] = state" updates leaves behind, and the
    specification [last_state].  Proofs only (model: Sched/Parse.v). *)
From Coq Require Import List Arith NArith ZArith Bool Lia.
From MWF Require Import Base.Str Gen.SchedTables Sched.Manuals Sched.Parse Sched.ParseProofs.
Import ListNotations.

(* ------------------------------------------------------------------------ *)
(** * The specification function, characterised *)

Lemma last_state_app : forall a b j,
  last_state (a ++ b) j = match last_state b j with Some x => Some x | None => last_state a j end.
Proof.
  induction a as [|[i c] a IH]; intros b j; simpl.
  - destruct (last_state b j); reflexivity.
  - rewrite IH. destruct (last_state b j); reflexivity.
Qed.

Lemma last_state_none : forall ps j,
  last_state ps j = None <-> (forall p, In p ps -> fst p <> j).
Proof.
  induction ps as [|[i c] r IH]; intro j; simpl.
  - split; [intros _ p [] | reflexivity].
  - destruct (last_state r j) eqn:E.
    + split; [discriminate|]. intro H.
      assert (X : last_state r j = None) by (apply IH; intros p Hp; apply H; right; exact Hp).
      congruence.
    + destruct (str_eqb i j) eqn:E2.
      * split; [discriminate|]. intro H. apply str_eqb_eq in E2.
        exfalso. apply (H (i, c)); [left; reflexivity | exact E2].
      * split; [|reflexivity]. intros _ p [Hp|Hp].
        -- subst p. simpl. apply str_eqb_neq. exact E2.
        -- apply (proj1 (IH j) E). exact Hp.
Qed.

(** [last_state ps j = Some c]: the table is [a ++ (j, c) :: b] and no row of
    [b] has id [j] *)
Lemma last_state_some : forall ps j c,
  last_state ps j = Some c <->
  exists a b, ps = a ++ (j, c) :: b /\ forall p, In p b -> fst p <> j.
Proof.
  induction ps as [|[i c0] r IH]; intros j c; simpl.
  - split; [discriminate|]. intros [a [b [H _]]]. destruct a; discriminate.
  - destruct (last_state r j) eqn:E.
    + split.
      * intro H. inversion H; subst. destruct (proj1 (IH j c) E) as [a [b [Hr Hb]]].
        exists ((i, c0) :: a), b. split; [rewrite Hr; reflexivity | exact Hb].
      * intros [a [b [Hr Hb]]]. destruct a as [|p a].
        -- simpl in Hr. inversion Hr; subst.
           apply last_state_none in Hb. congruence.
        -- simpl in Hr. inversion Hr; subst.
           assert (X : last_state (a ++ (j, c) :: b) j = Some c)
             by (apply IH; exists a, b; split; [reflexivity | exact Hb]).
           congruence.
    + destruct (str_eqb i j) eqn:E2.
      * apply str_eqb_eq in E2. subst i. split.
        -- intro H. inversion H; subst. exists [], r. split; [reflexivity|].
           apply last_state_none. exact E.
        -- intros [a [b [Hr Hb]]]. destruct a as [|p a].
           ++ simpl in Hr. inversion Hr; subst. reflexivity.
           ++ simpl in Hr. inversion Hr; subst.
              pose proof (proj1 (last_state_none _ _) E (j, c)) as X.
              exfalso. apply X; [apply in_or_app; right; left; reflexivity | reflexivity].
      * split; [discriminate|]. intros [a [b [Hr Hb]]]. destruct a as [|p a].
        -- simpl in Hr. inversion Hr; subst. rewrite str_eqb_refl in E2. discriminate.
        -- simpl in Hr. inversion Hr; subst.
           pose proof (proj1 (last_state_none _ _) E (j, c)) as X.
           exfalso. apply X; [apply in_or_app; right; left; reflexivity | reflexivity].
Qed.

(** rows of other ids never influence the answer for [j] *)
Lemma last_state_filter : forall ps j,
  last_state ps j = last_state (filter (fun p => str_eqb (fst p) j) ps) j.
Proof.
  induction ps as [|[i c] r IH]; intro j; simpl; [reflexivity|].
  destruct (str_eqb i j) eqn:E; simpl.
  - rewrite <- IH. rewrite E. reflexivity.
  - rewrite <- IH. destruct (last_state r j); reflexivity.
Qed.

Lemma last_state_other_row : forall a b i c j,
  i <> j -> last_state (a ++ (i, c) :: b) j = last_state (a ++ b) j.
Proof.
  intros a b i c j H. rewrite !last_state_app. simpl.
  apply str_eqb_neq in H. rewrite H. destruct (last_state b j); reflexivity.
Qed.

(* ------------------------------------------------------------------------ *)
(** * Dictionary operations *)

Lemma has_key_memb : forall k st, has_key k st = memb k (map fst st).
Proof.
  intros k st. unfold memb. induction st as [|[k' v] r IH]; simpl; [reflexivity|].
  rewrite IH. reflexivity.
Qed.

Lemma keys_set_key : forall k v st, map fst (set_key k v st) = map fst st.
Proof.
  intros. unfold set_key. rewrite map_map. apply map_ext. intros [a b]. simpl.
  destruct (str_eqb a k); reflexivity.
Qed.

Lemma has_key_set_key : forall j k v st, has_key j (set_key k v st) = has_key j st.
Proof. intros. rewrite !has_key_memb, keys_set_key. reflexivity. Qed.

Lemma get_set_key : forall k v st j,
  get (set_key k v st) j =
  if str_eqb j k then (if has_key k st then Some v else None) else get st j.
Proof.
  intros k v st j. induction st as [|[k' v'] r IH].
  - simpl. destruct (str_eqb j k); reflexivity.
  - change (set_key k v ((k', v') :: r))
      with ((if str_eqb k' k then (k', v) else (k', v')) :: set_key k v r).
    destruct (str_eqb k' k) eqn:E1.
    + apply str_eqb_eq in E1. subst k'. simpl. rewrite str_eqb_refl. simpl.
      destruct (str_eqb j k) eqn:E2; [reflexivity | exact IH].
    + simpl. rewrite (str_eqb_sym k k'), E1. simpl.
      destruct (str_eqb j k') eqn:E3.
      * apply str_eqb_eq in E3. subst j. rewrite E1. reflexivity.
      * exact IH.
Qed.

Lemma get_has_key : forall st j, has_key j st = false -> get st j = None.
Proof.
  induction st as [|[k v] r IH]; intros j H; simpl in *; [reflexivity|].
  apply orb_false_iff in H. destruct H as [H1 H2]. rewrite H1. apply IH. exact H2.
Qed.

Lemma get_In : forall st j v, get st j = Some v -> In (j, v) st.
Proof.
  induction st as [|[k v'] r IH]; intros j v H; simpl in *; [discriminate|].
  destruct (str_eqb j k) eqn:E.
  - apply str_eqb_eq in E. inversion H; subst. left. reflexivity.
  - right. apply IH. exact H.
Qed.

Lemma In_get : forall st j v, NoDup (map fst st) -> In (j, v) st -> get st j = Some v.
Proof.
  induction st as [|[k v'] r IH]; intros j v Hnd H; simpl in *; [contradiction|].
  inversion Hnd as [|? ? Hnot Hnd']; subst.
  destruct H as [H|H].
  - inversion H; subst. rewrite str_eqb_refl. reflexivity.
  - assert (Hne : str_eqb j k = false).
    { apply str_eqb_neq. intro X. subst. apply Hnot. apply in_map_iff. exists (k, v). split; [reflexivity|exact H]. }
    rewrite Hne. apply IH; assumption.
Qed.

Lemma In_has_key : forall st j v, In (j, v) st -> has_key j st = true.
Proof.
  intros st j v H. rewrite has_key_memb. apply memb_In. apply in_map_iff.
  exists (j, v). split; [reflexivity | exact H].
Qed.

(** ** [status = {}; for j in joblist: status[j] = None] *)

Lemma has_key_app : forall j a b, has_key j (a ++ b) = has_key j a || has_key j b.
Proof.
  intros j a b. induction a as [|[k v] r IH]; simpl; [reflexivity|].
  rewrite IH. rewrite orb_assoc. reflexivity.
Qed.

Lemma get_app : forall j a b,
  get (a ++ b) j = if has_key j a then get a j else get b j.
Proof.
  intros j a b. induction a as [|[k v] r IH]; simpl; [reflexivity|].
  destruct (str_eqb j k); simpl; [reflexivity | exact IH].
Qed.

Lemma init_from_has_key : forall jl st j,
  has_key j (init_status_from st jl) = has_key j st || memb j jl.
Proof.
  unfold memb. induction jl as [|k r IH]; intros st j; simpl.
  - rewrite orb_false_r. reflexivity.
  - rewrite IH. destruct (has_key k st) eqn:E.
    + destruct (str_eqb j k) eqn:E2; simpl; [|reflexivity].
      apply str_eqb_eq in E2. subst. rewrite E. reflexivity.
    + rewrite has_key_app. simpl. rewrite orb_false_r, orb_assoc. reflexivity.
Qed.

Lemma init_from_get : forall jl st j,
  get (init_status_from st jl) j =
  if has_key j st then get st j else if memb j jl then Some None else None.
Proof.
  unfold memb. induction jl as [|k r IH]; intros st j; simpl.
  - destruct (has_key j st) eqn:E; [reflexivity|]. apply get_has_key. exact E.
  - rewrite IH. destruct (has_key k st) eqn:E.
    + destruct (has_key j st) eqn:E1; [reflexivity|].
      destruct (str_eqb j k) eqn:E2; simpl; [|reflexivity].
      apply str_eqb_eq in E2. subst. congruence.
    + rewrite has_key_app, get_app. simpl. rewrite orb_false_r.
      destruct (has_key j st) eqn:E1; simpl; [reflexivity|].
      destruct (str_eqb j k) eqn:E2; simpl; reflexivity.
Qed.

Lemma NoDup_snoc_str : forall {A} (x : A) l, NoDup l -> ~ In x l -> NoDup (l ++ [x]).
Proof.
  induction l as [|a l IH]; simpl; intros H Hn.
  - constructor; [intros [] | constructor].
  - inversion H; subst. constructor.
    + rewrite in_app_iff. simpl. intuition.
    + apply IH; intuition.
Qed.

Lemma init_from_nodup : forall jl st,
  NoDup (map fst st) -> NoDup (map fst (init_status_from st jl)).
Proof.
  induction jl as [|k r IH]; intros st H; simpl; [exact H|].
  apply IH. destruct (has_key k st) eqn:E; [exact H|].
  rewrite map_app. simpl. apply NoDup_snoc_str; [exact H|].
  intro X. apply memb_In in X. rewrite <- has_key_memb in X. congruence.
Qed.

Lemma all_none_app : forall a b, all_none (a ++ b) = all_none a && all_none b.
Proof. intros. unfold all_none. apply forallb_app. Qed.

Lemma init_from_all_none : forall jl st,
  all_none st = true -> all_none (init_status_from st jl) = true.
Proof.
  induction jl as [|k r IH]; intros st H; simpl; [exact H|].
  apply IH. destruct (has_key k st); [exact H|].
  rewrite all_none_app, H. reflexivity.
Qed.

Lemma init_has_key : forall jl j, has_key j (init_status jl) = memb j jl.
Proof. intros. unfold init_status. rewrite init_from_has_key. reflexivity. Qed.
Lemma init_get : forall jl j, get (init_status jl) j = if memb j jl then Some None else None.
Proof. intros. unfold init_status. rewrite init_from_get. reflexivity. Qed.
Lemma init_nodup : forall jl, NoDup (map fst (init_status jl)).
Proof. intros. apply init_from_nodup. constructor. Qed.
Lemma init_all_none : forall jl, all_none (init_status jl) = true.
Proof. intros. apply init_from_all_none. reflexivity. Qed.

Lemma all_none_spec : forall st,
  all_none st = true <-> forall j v, In (j, v) st -> v = None.
Proof.
  intro st. unfold all_none. rewrite forallb_forall. split.
  - intros H j v Hin. specialize (H _ Hin). simpl in H. destruct v; [discriminate | reflexivity].
  - intros H [j v] Hin. simpl. rewrite (H _ _ Hin). reflexivity.
Qed.

(** no queried id is the empty string *)
Lemma init_no_empty_key : forall jl, wf_joblist jl = true -> has_key [] (init_status jl) = false.
Proof.
  intros jl H. rewrite init_has_key. destruct (memb [] jl) eqn:E; [|reflexivity].
  apply memb_In in E. unfold wf_joblist in H. rewrite forallb_forall in H.
  specialize (H _ E). discriminate.
Qed.

(* ------------------------------------------------------------------------ *)
(** * A run of updates: [if id in status: status[id] = f code] per row *)

Definition apply_pair (f : str -> State) (st : status) (p : str * str) : status :=
  if has_key (fst p) st then set_key (fst p) (Some (f (snd p))) st else st.
Definition apply_pairs (f : str -> State) (ps : list (str * str)) (st : status) : status :=
  fold_left (apply_pair f) ps st.

Lemma apply_pairs_app : forall f a b st,
  apply_pairs f (a ++ b) st = apply_pairs f b (apply_pairs f a st).
Proof. intros. unfold apply_pairs. apply fold_left_app. Qed.

Lemma keys_apply_pair : forall f st p, map fst (apply_pair f st p) = map fst st.
Proof.
  intros. unfold apply_pair. destruct (has_key (fst p) st); [apply keys_set_key | reflexivity].
Qed.

Lemma keys_apply_pairs : forall f ps st, map fst (apply_pairs f ps st) = map fst st.
Proof.
  intros f ps. unfold apply_pairs. induction ps as [|p r IH]; intro st; simpl; [reflexivity|].
  rewrite IH. apply keys_apply_pair.
Qed.

Lemma has_key_apply_pairs : forall f ps st j, has_key j (apply_pairs f ps st) = has_key j st.
Proof. intros. rewrite !has_key_memb, keys_apply_pairs. reflexivity. Qed.

Lemma get_apply_pair : forall f st p j,
  get (apply_pair f st p) j =
  if str_eqb j (fst p) && has_key j st then Some (Some (f (snd p))) else get st j.
Proof.
  intros f st [i c] j. unfold apply_pair. simpl.
  destruct (has_key i st) eqn:E.
  - rewrite get_set_key, E. destruct (str_eqb j i) eqn:E2; simpl; [|reflexivity].
    apply str_eqb_eq in E2. subst. rewrite E. reflexivity.
  - destruct (str_eqb j i) eqn:E2; simpl; [|reflexivity].
    apply str_eqb_eq in E2. subst. rewrite E. reflexivity.
Qed.

(** the closed form of the dictionary after all rows *)
Lemma get_apply_pairs : forall f ps st j,
  get (apply_pairs f ps st) j =
  if has_key j st
  then match last_state ps j with
       | Some c => Some (Some (f c))
       | None => get st j
       end
  else None.
Proof.
  intros f ps. unfold apply_pairs.
  induction ps as [|[i c] r IH]; intros st j.
  - simpl. destruct (has_key j st) eqn:E; [reflexivity | apply get_has_key; exact E].
  - simpl fold_left. rewrite IH.
    assert (HK : has_key j (apply_pair f st (i, c)) = has_key j st).
    { rewrite !has_key_memb, keys_apply_pair. reflexivity. }
    rewrite HK. destruct (has_key j st) eqn:E; [|reflexivity].
    simpl last_state. destruct (last_state r j); [reflexivity|].
    rewrite get_apply_pair. simpl. rewrite E, andb_true_r.
    rewrite (str_eqb_sym i j). destruct (str_eqb j i); reflexivity.
Qed.

Lemma get_apply_init : forall f ps jl j,
  get (apply_pairs f ps (init_status jl)) j = spec_answer f ps jl j.
Proof.
  intros. rewrite get_apply_pairs, init_has_key, init_get. unfold spec_answer.
  destruct (memb j jl); [|reflexivity]. destruct (last_state ps j); reflexivity.
Qed.

Lemma apply_init_nodup : forall f ps jl, NoDup (map fst (apply_pairs f ps (init_status jl))).
Proof. intros. rewrite keys_apply_pairs. apply init_nodup. Qed.

(** "some id is still None" after the rows = some queried id has no row *)
Lemma any_none_apply_init : forall f ps jl,
  any_none (apply_pairs f ps (init_status jl)) = existsb (fun j => is_none (last_state ps j)) jl.
Proof.
  intros f ps jl. apply eq_iff_eq_true. unfold any_none. rewrite !existsb_exists. split.
  - intros [[j v] [Hin Hv]]. simpl in Hv. destruct v; [discriminate|].
    pose proof (In_get _ _ _ (apply_init_nodup f ps jl) Hin) as G.
    rewrite get_apply_init in G. unfold spec_answer in G.
    destruct (memb j jl) eqn:M; [|discriminate].
    exists j. split; [apply memb_In; exact M|].
    destruct (last_state ps j); [discriminate | reflexivity].
  - intros [j [Hj Hn]]. exists (j, None). split; [|reflexivity].
    apply get_In. rewrite get_apply_init. unfold spec_answer.
    apply memb_In in Hj. rewrite Hj. destruct (last_state ps j); [discriminate | reflexivity].
Qed.

Lemma opt_state_eqb_refl : forall a, opt_state_eqb a a = true.
Proof. intros [x|]; simpl; [apply State_eqb_refl | reflexivity]. Qed.
Lemma answer_eqb_refl : forall a, answer_eqb a a = true.
Proof. intros [x|]; simpl; [apply opt_state_eqb_refl | reflexivity]. Qed.

Lemma opt_state_eqb_eq : forall a b, opt_state_eqb a b = true <-> a = b.
Proof.
  intros [x|] [y|]; simpl; split; intro H; try discriminate; try reflexivity.
  - apply State_eqb_eq in H. subst. reflexivity.
  - inversion H. apply State_eqb_refl.
Qed.
Lemma answer_eqb_eq : forall a b, answer_eqb a b = true <-> a = b.
Proof.
  intros [x|] [y|]; simpl; split; intro H; try discriminate; try reflexivity.
  - apply opt_state_eqb_eq in H. subst. reflexivity.
  - inversion H. apply opt_state_eqb_refl.
Qed.

(** the four clauses of the monitor hold of the closed form, for any table
    whose alive codes are non-terminal and whose FINISHED codes are success codes *)
Lemma answers_ok_apply : forall f alive success ps jl,
  (forall c, In c alive -> terminal (f c) = false) ->
  (forall c, f c = FINISHED -> In c success) ->
  answers_ok f alive success ps jl (apply_pairs f ps (init_status jl)) = true.
Proof.
  intros f alive success ps jl HA HS. unfold answers_ok.
  repeat (apply andb_true_iff; split).
  - apply forallb_forall. intros j _. rewrite get_apply_init. apply answer_eqb_refl.
  - apply forallb_forall. intros [j v] Hin. simpl.
    apply In_has_key in Hin. rewrite has_key_apply_pairs, init_has_key in Hin. exact Hin.
  - apply forallb_forall. intros j Hj. destruct (last_state ps j) as [c|] eqn:L; [|reflexivity].
    destruct (memb c alive) eqn:M; [|reflexivity].
    rewrite get_apply_init. unfold spec_answer. apply memb_In in Hj. rewrite Hj, L. simpl.
    apply memb_In in M. rewrite (HA _ M). reflexivity.
  - apply forallb_forall. intros [j v] Hin. simpl. destruct v as [x|]; [|reflexivity].
    destruct (State_eqb x FINISHED) eqn:E; [|reflexivity]. apply State_eqb_eq in E. subst x.
    pose proof (In_get _ _ _ (apply_init_nodup f ps jl) Hin) as G.
    rewrite get_apply_init in G. unfold spec_answer in G.
    destruct (memb j jl); [|discriminate]. destruct (last_state ps j) as [c|]; [|discriminate].
    simpl in G. inversion G as [G1]. apply memb_In. apply HS. exact G1.
Qed.

Lemma assoc_state_In : forall tbl c x, assoc_state tbl c = Some x -> In (c, x) tbl.
Proof.
  induction tbl as [|[k v] r IH]; intros c x H; simpl in *; [discriminate|].
  destruct (str_eqb c k) eqn:E.
  - apply str_eqb_eq in E. inversion H; subst. left. reflexivity.
  - right. apply IH. exact H.
Qed.

Definition assoc_ok_b (f : str -> State) (tbl : list (str * State)) : bool :=
  forallb (fun e => State_eqb (f (fst e)) (snd e)) tbl.

Lemma assoc_ok_sound : forall f tbl,
  assoc_ok_b f tbl = true -> forall c x, assoc_state tbl c = Some x -> f c = x.
Proof.
  intros f tbl H c x A. apply assoc_state_In in A. unfold assoc_ok_b in H.
  rewrite forallb_forall in H. specialize (H _ A). apply State_eqb_eq in H. exact H.
Qed.

Lemma expected_ok_apply : forall f tbl ps jl,
  (forall c x, assoc_state tbl c = Some x -> f c = x) ->
  expected_ok tbl ps jl (apply_pairs f ps (init_status jl)) = true.
Proof.
  intros f tbl ps jl H. unfold expected_ok. apply forallb_forall. intros j Hj.
  destruct (last_state ps j) as [c|] eqn:L; [|reflexivity].
  destruct (assoc_state tbl c) as [x|] eqn:A; [|reflexivity].
  rewrite get_apply_init. unfold spec_answer. apply memb_In in Hj. rewrite Hj, L. simpl.
  rewrite (H _ _ A). apply State_eqb_refl.
Qed.

(** folding the row function over the printed lines of a table *)
Lemma fold_rows_lines : forall {L} (rowf : status -> str -> option status) (pr : L -> str)
    (pairs : L -> list (str * str)) (f : str -> State) (wf : L -> bool),
  (forall st l, wf l = true -> has_key [] st = false ->
                rowf st (pr l) = Some (apply_pairs f (pairs l) st)) ->
  forall ls st, forallb wf ls = true -> has_key [] st = false ->
  fold_rows rowf st (map pr ls) = Some (apply_pairs f (flat_map pairs ls) st).
Proof.
  intros L rowf pr pairs f wf H. induction ls as [|l r IH]; intros st Hwf Hk; simpl; [reflexivity|].
  simpl in Hwf. apply andb_true_iff in Hwf. destruct Hwf as [Hl Hr].
  rewrite (H st l Hl Hk). rewrite apply_pairs_app. apply IH; [exact Hr|].
  rewrite has_key_apply_pairs. exact Hk.
Qed.

(** C15 proofs, part 5: the Slurm header.  What [header_lines_slurm] prints,
    line by line, and what the sbatch directive reader reads back. *)
From Coq Require Import List Arith NArith ZArith Bool Lia.
From MWF Require Import Base.Str Gen.HeaderData Sched.Header Sched.Launcher Sched.Readers
  Sched.StrFacts Sched.SegProofs Sched.LauncherProofs Sched.ReadProofs Sched.SlurmLaunch.
Import ListNotations.
Local Open Scope N_scope.
Local Open Scope list_scope.

(** * dictionaries *)
Definition decl (d : dict) (name : str) : option val :=
  match lookup name d with Some v => if truthy v then Some v else None | None => None end.

Lemma declared_decl : forall d k,
  declared d k = match decl d (key_name k) with
                 | Some v => Some (match k with RExclusive => [] | _ => render v end)
                 | None => None
                 end.
Proof. intros. unfold declared, decl. destruct (lookup (key_name k) d); auto. destruct (truthy v); auto. Qed.

Lemma lookup_map_keys : forall (f : str -> val) k keys,
  lookup k (map (fun k => (k, f k)) keys) = if mem_str k keys then Some (f k) else None.
Proof.
  induction keys as [|k' r]; simpl. auto.
  destruct (str_eqb k k') eqn:E. apply str_eqb_eq in E. subst. auto. auto.
Qed.

Lemma lookup_filter_key : forall (P : str -> bool) k (d : dict),
  lookup k (filter (fun kv => P (fst kv)) d) = if P k then lookup k d else None.
Proof.
  induction d as [|[k' v] d]; simpl. destruct (P k); auto.
  destruct (P k') eqn:Pk; simpl.
  - destruct (str_eqb k k') eqn:E. apply str_eqb_eq in E. subst. rewrite Pk. auto. auto.
  - destruct (str_eqb k k') eqn:E. apply str_eqb_eq in E. subst. rewrite Pk in *. auto. auto.
Qed.

Lemma has_filter : forall (f : str * val -> bool) k d, has k (filter f d) = true -> has k d = true.
Proof.
  unfold has. induction d as [|[k' v] d]; simpl; intros. auto.
  destruct (f (k', v)); simpl in H.
  - destruct (str_eqb k k'); auto.
  - destruct (str_eqb k k'); auto.
Qed.

Lemma nodup_keys_filter : forall (f : str * val -> bool) d, nodup_keys d = true -> nodup_keys (filter f d) = true.
Proof.
  induction d as [|[k v] d]; simpl; intros. auto.
  apply andb_true_iff in H. destruct H as [H1 H2]. destruct (f (k, v)); simpl; auto.
  rewrite IHd by auto. rewrite andb_true_r. apply negb_true_iff. apply negb_true_iff in H1.
  destruct (has k (filter f d)) eqn:E; auto. apply has_filter in E. congruence.
Qed.

Lemma lookup_filter_nodup : forall (f : val -> bool) k d, nodup_keys d = true ->
  lookup k (filter (fun kv => f (snd kv)) d) =
  match lookup k d with Some v => if f v then Some v else None | None => None end.
Proof.
  induction d as [|[k' v] d]; simpl; intros. auto.
  apply andb_true_iff in H. destruct H as [H1 H2]. apply negb_true_iff in H1.
  destruct (f v) eqn:F; simpl.
  - destruct (str_eqb k k'). rewrite F. auto. auto.
  - destruct (str_eqb k k') eqn:E.
    + apply str_eqb_eq in E. subst. rewrite F. rewrite IHd by auto.
      rewrite (has_false_lookup _ _ H1). auto.
    + auto.
Qed.

Definition not_cmd (name : str) : Prop := str_eqb name (s "cmd") = false /\ str_eqb name (s "restart") = false.

Lemma lookup_declared_run : forall st name, not_cmd name -> lookup name (declared_run st) = lookup name (st_res st).
Proof. intros st name [A B]. unfold declared_run. cbn [lookup]. rewrite A, B. auto. Qed.

Lemma nodup_default_items : forall (f : str -> val), nodup_keys (map (fun k => (k, f k)) step_run_default_keys) = true.
Proof. intros. reflexivity. Qed.

Lemma lookup_run_items : forall st name, not_cmd name ->
  lookup name (run_items st) =
  if mem_str name step_run_default_keys then Some (run_val st name) else lookup name (st_res st).
Proof.
  intros st name NC. unfold run_items. rewrite lookup_app.
  rewrite (lookup_map_keys (fun k => match lookup k (declared_run st) with Some v => v | None => VStr [] end)).
  destruct (mem_str name step_run_default_keys) eqn:M.
  - unfold run_val. rewrite lookup_declared_run by auto. auto.
  - rewrite (lookup_filter_key (fun k => negb (mem_str k step_run_default_keys))). rewrite M. auto.
Qed.

Lemma lookup_truthy_run : forall st name, not_cmd name -> nodup_keys (st_res st) = true ->
  lookup name (truthy_items (run_items st)) = decl (st_res st) name.
Proof.
  intros st name NC ND. unfold truthy_items, run_items. rewrite filter_app. rewrite lookup_app.
  rewrite (lookup_filter_nodup truthy) by apply nodup_default_items.
  rewrite (lookup_map_keys (fun k => match lookup k (declared_run st) with Some v => v | None => VStr [] end)).
  rewrite (lookup_filter_nodup truthy) by (apply nodup_keys_filter; auto).
  rewrite (lookup_filter_key (fun k => negb (mem_str k step_run_default_keys))).
  unfold decl. destruct (mem_str name step_run_default_keys) eqn:M.
  - rewrite lookup_declared_run by auto. simpl negb. cbv iota.
    destruct (lookup name (st_res st)) as [v|]; simpl; auto. destruct (truthy v); auto.
  - simpl negb. cbv iota. auto.
Qed.

Lemma run_get_val : forall st name, not_cmd name -> mem_str name step_run_default_keys = true ->
  run_get st name = Some (run_val st name).
Proof. intros. unfold run_get. rewrite lookup_run_items by auto. rewrite H0. auto. Qed.

(** * [str.format] on the three template shapes *)
Lemma format_1 : forall a k env v, lookup k env = Some v -> format [Lit a; Fld k] env = Ok (a ++ render v).
Proof. intros. simpl. rewrite H. simpl. rewrite app_nil_r. auto. Qed.
Lemma format_q : forall a k z env v, lookup k env = Some v ->
  format [Lit a; Fld k; Lit z] env = Ok (a ++ render v ++ z).
Proof. intros. simpl. rewrite H. simpl. rewrite app_nil_r. auto. Qed.
Lemma format_3 : forall a b c d k env v, lookup k env = Some v ->
  format [Lit a; Fld k; Lit b; Fld k; Lit c; Fld k; Lit d] env =
  Ok (a ++ render v ++ b ++ render v ++ c ++ render v ++ d).
Proof. intros. simpl. rewrite H. simpl. rewrite app_nil_r. auto. Qed.

Definition tl_ (env : dict) (k : str) : option val := decl env k.

Lemma header_entry_1 : forall env k a,
  header_entry env (k, [Lit a; Fld k]) = Ok (match tl_ env k with Some v => [a ++ render v] | None => [] end).
Proof.
  intros. unfold header_entry, lookup_truthy, tl_, decl. destruct (lookup k env) as [v|] eqn:L; auto.
  destruct (truthy v); auto. rewrite (format_1 _ _ _ _ L). auto.
Qed.
Lemma header_entry_q : forall env k a z,
  header_entry env (k, [Lit a; Fld k; Lit z]) =
  Ok (match tl_ env k with Some v => [a ++ render v ++ z] | None => [] end).
Proof.
  intros. unfold header_entry, lookup_truthy, tl_, decl. destruct (lookup k env) as [v|] eqn:L; auto.
  destruct (truthy v); auto. rewrite (format_q _ _ _ _ _ L). auto.
Qed.
Lemma header_entry_3 : forall env k a b c d,
  header_entry env (k, [Lit a; Fld k; Lit b; Fld k; Lit c; Fld k; Lit d]) =
  Ok (match tl_ env k with
      | Some v => [a ++ render v ++ b ++ render v ++ c ++ render v ++ d]
      | None => []
      end).
Proof.
  intros. unfold header_entry, lookup_truthy, tl_, decl. destruct (lookup k env) as [v|] eqn:L; auto.
  destruct (truthy v); auto. rewrite (format_3 _ _ _ _ _ _ _ L). auto.
Qed.

(** * the batch dictionary of the Slurm adapter *)
Definition slurm_bd (b : batch) (vh vb vq : val) : dict :=
  cond_param (s "procs") (b_kw b) ++
  [(s "nodes", get_default (b_kw b) (s "nodes") (VStr []));
   (s "host", vh); (s "bank", vb); (s "queue", vq);
   (s "reservation", get_default (b_kw b) (s "reservation") (VStr []));
   (s "qos", get_default (b_kw b) (s "qos") VNone)].

Ltac norm_s :=
  repeat match goal with
         | |- context [s ?x] => let y := eval vm_compute in (s x) in change (s x) with y
         | H : context [s ?x] |- _ => let y := eval vm_compute in (s x) in change (s x) with y in H
         end.

Lemma batch_slurm_eq : forall b vh vb vq,
  lookup (s "host") (b_kw b) = Some vh -> lookup (s "bank") (b_kw b) = Some vb ->
  lookup (s "queue") (b_kw b) = Some vq ->
  batch_slurm b = Ok (slurm_bd b vh vb vq).
Proof.
  intros b vh vb vq Hh Hb Hq. unfold batch_slurm, slurm_bd, slurm_batch_params, get_default.
  norm_s. cbn [build_batch]. rewrite Hh, Hb, Hq.
  repeat match goal with |- context [lookup ?k (b_kw b)] => destruct (lookup k (b_kw b)) end; reflexivity.
Qed.

(** * single-key templates, generically *)
Definition fmt (tpl : template) (v : val) : str :=
  flat_map (fun sg => match sg with Lit a => a | Fld _ => render v end) tpl.
Definition single_key (k : str) (tpl : template) : bool :=
  forallb (fun sg => match sg with Fld k' => str_eqb k' k | Lit _ => true end) tpl.

Lemma format_single : forall k tpl env v, single_key k tpl = true -> lookup k env = Some v ->
  format tpl env = Ok (fmt tpl v).
Proof.
  induction tpl as [|sg tpl]; intros env v S L. reflexivity.
  simpl in S. apply andb_true_iff in S. destruct S as [S1 S2].
  destruct sg as [a|k']; simpl.
  - rewrite (IHtpl env v) by auto. auto.
  - apply str_eqb_eq in S1. subst k'. rewrite L. rewrite (IHtpl env v) by auto. auto.
Qed.

Definition entry_lines (env : dict) (e : str * template) : list str :=
  match tl_ env (fst e) with Some v => [fmt (snd e) v] | None => [] end.

Lemma header_entry_single : forall env e, single_key (fst e) (snd e) = true ->
  header_entry env e = Ok (entry_lines env e).
Proof.
  intros env [k tpl] S. unfold header_entry, entry_lines, lookup_truthy, tl_, decl. simpl fst in *. simpl snd in *.
  destruct (lookup k env) as [v|] eqn:L; auto. destruct (truthy v); auto.
  rewrite (format_single k tpl env v) by auto. auto.
Qed.

Lemma map_res_entries : forall env es, forallb (fun e => single_key (fst e) (snd e)) es = true ->
  map_res (header_entry env) es = Ok (map (entry_lines env) es).
Proof.
  induction es as [|e es]; intros H. reflexivity.
  simpl in H. apply andb_true_iff in H. destruct H as [H1 H2].
  simpl. rewrite header_entry_single by auto. simpl. rewrite IHes by auto. auto.
Qed.

Lemma slurm_header_single : forallb (fun e => single_key (fst e) (snd e)) slurm_header = true.
Proof. reflexivity. Qed.

(** * the resources dictionary of [get_header] *)
Section Resources.
  Variables (b : batch) (st : step) (vh vb vq : val).
  Hypothesis Hq : lookup (s "queue") (b_kw b) = Some vq.
  Hypothesis Hb : lookup (s "bank") (b_kw b) = Some vb.
  Hypothesis ND : nodup_keys (st_res st) = true.
  Let bd := slurm_bd b vh vb vq.
  Let resources := slurm_resources bd st.

  Definition special (name : str) : bool :=
    str_eqb name (s "cmd") || str_eqb name (s "restart") || str_eqb name (s "job-name") || str_eqb name (s "comment").

  Lemma res_lookup : forall name, special name = false ->
    lookup name resources = match decl (st_res st) name with Some v => Some v | None => lookup name bd end.
  Proof.
    intros name S. unfold special in S. repeat (apply orb_false_iff in S; destruct S as [S ?]).
    unfold resources, slurm_resources. cbn [lookup]. rewrite H0, H. rewrite lookup_app.
    rewrite lookup_truthy_run; auto. split; auto.
  Qed.

  Lemma tl_res : forall name, special name = false ->
    tl_ resources name = match decl (st_res st) name with Some v => Some v | None => decl bd name end.
  Proof.
    intros. unfold tl_. unfold decl at 1. rewrite res_lookup by auto.
    destruct (decl (st_res st) name) as [v|] eqn:D; auto.
    unfold decl in D. destruct (lookup name (st_res st)); try discriminate.
    destruct (truthy v0) eqn:T; inversion D; subst. rewrite T. auto.
  Qed.

  Lemma cond_param_other : forall name kw, str_eqb name (s "procs") = false ->
    lookup name (cond_param (s "procs") kw) = None.
  Proof.
    intros. unfold cond_param. destruct (lookup (s "procs") kw); auto. destruct (truthy v); auto.
    cbn [lookup]. rewrite H. auto.
  Qed.

  Definition bd_kind (name : str) : Prop := decl bd name = decl (b_kw b) name.

  Lemma bd_nodes : bd_kind (s "nodes").
  Proof.
    unfold bd_kind, decl, bd, slurm_bd. rewrite lookup_app. rewrite cond_param_other by reflexivity.
    unfold get_default. norm_s. cbn [lookup str_eqb N.eqb Pos.eqb andb].
    match goal with |- context [lookup ?k (b_kw b)] => destruct (lookup k (b_kw b)) end; auto.
  Qed.
  Lemma bd_reservation : bd_kind (s "reservation").
  Proof.
    unfold bd_kind, decl, bd, slurm_bd. rewrite lookup_app. rewrite cond_param_other by reflexivity.
    unfold get_default. norm_s. cbn [lookup str_eqb N.eqb Pos.eqb andb].
    match goal with |- context [lookup ?k (b_kw b)] => destruct (lookup k (b_kw b)) end; auto.
  Qed.
  Lemma bd_qos : bd_kind (s "qos").
  Proof.
    unfold bd_kind, decl, bd, slurm_bd. rewrite lookup_app. rewrite cond_param_other by reflexivity.
    unfold get_default. norm_s. cbn [lookup str_eqb N.eqb Pos.eqb andb].
    match goal with |- context [lookup ?k (b_kw b)] => destruct (lookup k (b_kw b)) end; auto.
  Qed.
  Lemma bd_queue : bd_kind (s "queue").
  Proof.
    unfold bd_kind, decl, bd, slurm_bd. rewrite lookup_app. rewrite cond_param_other by reflexivity.
    norm_s. cbn [lookup str_eqb N.eqb Pos.eqb andb]. rewrite Hq. auto.
  Qed.
  Lemma bd_bank : bd_kind (s "bank").
  Proof.
    unfold bd_kind, decl, bd, slurm_bd. rewrite lookup_app. rewrite cond_param_other by reflexivity.
    norm_s. cbn [lookup str_eqb N.eqb Pos.eqb andb]. rewrite Hb. auto.
  Qed.
  Lemma bd_procs : bd_kind (s "procs").
  Proof.
    unfold bd_kind, decl, bd, slurm_bd. rewrite lookup_app. unfold cond_param.
    destruct (lookup (s "procs") (b_kw b)) as [v|]; [destruct (truthy v) eqn:T|]; norm_s;
      cbn [lookup str_eqb N.eqb Pos.eqb andb]; rewrite ?T; auto.
  Qed.
  Lemma bd_none : forall name,
    str_eqb name (s "procs") = false -> str_eqb name (s "nodes") = false -> str_eqb name (s "host") = false ->
    str_eqb name (s "bank") = false -> str_eqb name (s "queue") = false ->
    str_eqb name (s "reservation") = false -> str_eqb name (s "qos") = false ->
    decl bd name = None.
  Proof.
    intros. unfold decl, bd, slurm_bd. rewrite lookup_app. rewrite cond_param_other by auto.
    cbn [lookup]. rewrite H0, H1, H2, H3, H4, H5. auto.
  Qed.
End Resources.

(** * what [header_lines_slurm] prints *)
Definition is_some {A} (o : option A) : bool := match o with Some _ => true | None => false end.

Lemma lookup_truthy_tl : forall env k, lookup_truthy k env = is_some (tl_ env k).
Proof. intros. unfold lookup_truthy, tl_, decl. destruct (lookup k env); auto. destruct (truthy v); auto. Qed.

Definition slurm_shebang_line (b : batch) : str := s "#!" ++ render (slurm_exec b).

Section HeaderLines.
  Variables (b : batch) (st : step) (vh vb vq : val).
  Hypothesis Hh : lookup (s "host") (b_kw b) = Some vh.
  Hypothesis Hb : lookup (s "bank") (b_kw b) = Some vb.
  Hypothesis Hq : lookup (s "queue") (b_kw b) = Some vq.
  Hypothesis ND : nodup_keys (st_res st) = true.
  Let bd := slurm_bd b vh vb vq.
  Let resources := slurm_resources bd st.
  Let tl := tl_ resources.

  Definition nt_lines : list str :=
    if is_some (decl (b_kw b) (s "procs")) || negb (is_some (tl (s "nodes")))
    then match tl (s "procs") with Some v => [fmt slurm_ntask_header v] | None => [] end
    else [].
  Definition ex_lines : list str :=
    if is_some (tl (s "exclusive")) then [fmt slurm_exclusive VNone] else [].
  Definition qos_lines : list str :=
    match tl (s "qos") with Some q => [fmt slurm_qos q] | None => [] end.
  Definition slurm_lines : list str :=
    slurm_shebang_line b :: flat_map (entry_lines resources) slurm_header ++ nt_lines ++ ex_lines ++ qos_lines.

  Lemma has_procs_bd : has (s "procs") bd = is_some (decl (b_kw b) (s "procs")).
  Proof.
    unfold has, bd, slurm_bd, decl. rewrite lookup_app. unfold cond_param.
    destruct (lookup (s "procs") (b_kw b)) as [v|]; [destruct (truthy v) eqn:T|]; norm_s;
      cbn [lookup str_eqb N.eqb Pos.eqb andb]; auto.
  Qed.

  Lemma tl_procs_eq : tl (s "procs") =
    match decl (st_res st) (s "procs") with Some v => Some v | None => decl (b_kw b) (s "procs") end.
  Proof. unfold tl, resources, bd. rewrite tl_res by (auto; reflexivity). rewrite bd_procs. auto. Qed.

  Lemma lookup_of_tl : forall k v, tl k = Some v -> lookup k resources = Some v.
  Proof.
    unfold tl, tl_, decl. intros k v H. destruct (lookup k resources) as [v'|]; try discriminate.
    destruct (truthy v'); inversion H; auto.
  Qed.

  Lemma header_lines_slurm_eq :
    is_some (tl (s "procs")) || is_some (tl (s "nodes")) = true ->
    header_lines_slurm b st = Ok slurm_lines.
  Proof.
    intros PN. unfold header_lines_slurm. rewrite (batch_slurm_eq b vh vb vq) by auto.
    cbn [bind]. fold bd. fold resources.
    rewrite !lookup_truthy_tl. fold tl.
    assert (G : negb (is_some (tl (s "procs"))) && negb (is_some (tl (s "nodes"))) = false).
    { destruct (is_some (tl (s "procs"))), (is_some (tl (s "nodes"))); auto; discriminate PN. }
    rewrite G.
    change (format slurm_shebang [(s "0", slurm_exec b)]) with (Ok (s "#!" ++ (render (slurm_exec b) ++ [])) : res str).
    rewrite app_nil_r. cbn [bind].
    rewrite map_res_entries by apply slurm_header_single. cbn [bind].
    rewrite has_procs_bd.
    assert (NT : (if is_some (decl (b_kw b) (s "procs")) || negb (is_some (tl (s "nodes")))
                  then l <- format slurm_ntask_header resources;; Ok [l] else Ok []) = Ok nt_lines).
    { unfold nt_lines.
      destruct (is_some (decl (b_kw b) (s "procs")) || negb (is_some (tl (s "nodes")))) eqn:C; auto.
      assert (P : exists v, tl (s "procs") = Some v).
      { apply orb_true_iff in C. destruct C as [C|C].
        - rewrite tl_procs_eq. destruct (decl (st_res st) (s "procs")); eauto.
          destruct (decl (b_kw b) (s "procs")); eauto. discriminate C.
        - destruct (tl (s "procs")); eauto. apply negb_true_iff in C. rewrite C in PN. discriminate PN. }
      destruct P as [v P]. rewrite P.
      rewrite (format_single (s "procs") slurm_ntask_header resources v); auto using lookup_of_tl. }
    rewrite NT. cbn [bind].
    assert (EX : (if is_some (tl (s "exclusive")) then l <- format slurm_exclusive resources;; Ok [l] else Ok [])
                 = Ok ex_lines).
    { unfold ex_lines. destruct (is_some (tl (s "exclusive"))); auto. }
    rewrite EX. cbn [bind].
    assert (QO : match lookup (s "qos") resources with
                 | Some q => if truthy q then l <- format slurm_qos [(s "qos", q)];; Ok [l] else Ok []
                 | None => Ok []
                 end = Ok qos_lines).
    { unfold qos_lines, tl, tl_, decl. destruct (lookup (s "qos") resources) as [q|]; auto.
      destruct (truthy q); auto. }
    rewrite QO. cbn [bind]. unfold slurm_lines, slurm_shebang_line.
    rewrite flat_map_concat_map. auto.
  Qed.
End HeaderLines.

(** * reading the lines back *)
Definition M : str := s "#SBATCH".
Definition RL (ls : list str) : list (rkey * str) :=
  flat_map (read_line M sbatch_table) (flat_map (split_on nl) ls).
Definition CL (ls : list str) : bool := forallb comment_line (flat_map (split_on nl) ls).

Lemma RL_app : forall a b, RL (a ++ b) = RL a ++ RL b.
Proof. intros. unfold RL. rewrite !flat_map_app. auto. Qed.
Lemma CL_app : forall a b, CL (a ++ b) = CL a && CL b.
Proof. intros. unfold CL. rewrite flat_map_app, forallb_app. auto. Qed.
Lemma RL_nil : RL [] = []. Proof. reflexivity. Qed.
Lemma CL_nil : CL [] = true. Proof. reflexivity. Qed.
Lemma RL_one : forall l, ~ In nl l -> RL [l] = read_line M sbatch_table l.
Proof. intros. unfold RL. simpl. rewrite split_on_notin by auto. simpl. rewrite app_nil_r. auto. Qed.
Lemma CL_one : forall l, ~ In nl l -> CL [l] = comment_line l.
Proof. intros. unfold CL. simpl. rewrite split_on_notin by auto. simpl. rewrite andb_true_r. auto. Qed.

Lemma comment_line_M : forall x, comment_line (M ++ x) = true.
Proof. intros. reflexivity. Qed.

Lemma plain_app : forall a b, plain a = true -> plain b = true -> plain (a ++ b) = true.
Proof. intros. unfold plain in *. rewrite forallb_app, H, H0. auto. Qed.

Lemma notin_app : forall (c : N) a b, ~ In c a -> ~ In c b -> ~ In c (a ++ b).
Proof. intros c a b H1 H2 I. apply in_app_or in I. tauto. Qed.

Ltac norm_app := repeat (rewrite <- app_assoc || rewrite <- app_comm_cons || rewrite app_nil_l).

(** "#SBATCH --name=<pre><value>" *)
Lemma line_eq : forall lit nm K pre w,
  lit = M ++ 32 :: nm ++ 61 :: pre -> is_long nm = true -> memN 61 nm = false -> plain nm = true ->
  plain pre = true -> memN nl lit = false ->
  lookup nm sbatch_table = Some (true, K) -> safe_word w ->
  RL [lit ++ w] = [(K, pre ++ w)] /\ CL [lit ++ w] = true.
Proof.
  intros lit nm K pre w EL LG NE PN PP NL LK SW. destruct SW.
  assert (NI : ~ In nl (lit ++ w)) by (apply notin_app; auto using memN_false).
  rewrite RL_one, CL_one by auto. subst lit. norm_app. split.
  - unfold read_line. rewrite directive_marker.
    rewrite words_of_plain.
    + rewrite parse_long_eq with (k := K); auto using memN_false.
    + apply plain_app; auto. simpl. apply plain_app; auto.
    + destruct nm; discriminate.
  - apply comment_line_M.
Qed.

(** "#SBATCH --name=\"<value>\"<post>" with a plain <post> *)
Lemma line_q : forall lit post nm K w,
  lit = M ++ 32 :: nm ++ [61; 34] -> is_long nm = true -> memN 61 nm = false -> plain nm = true ->
  plain post = true -> memN nl lit = false -> memN nl post = false ->
  lookup nm sbatch_table = Some (true, K) -> noquote w = true -> ~ In nl w ->
  RL [lit ++ w ++ post ++ [34]] = [(K, w ++ post)] /\ CL [lit ++ w ++ post ++ [34]] = true.
Proof.
  intros lit post nm K w EL LG NE PN PP NL NLP LK NQ NLW.
  assert (NI : ~ In nl (lit ++ w ++ post ++ [34])).
  { repeat apply notin_app; auto using memN_false; simpl; intros [X|[]]; discriminate X. }
  rewrite RL_one, CL_one by auto. subst lit. norm_app. split.
  - unfold read_line. rewrite directive_marker.
    unfold words_of.
    replace (nm ++ 61 :: 34 :: w ++ post ++ [34]) with ((nm ++ [61]) ++ quote :: (w ++ post) ++ quote :: [])
      by (rewrite <- !app_assoc; reflexivity).
    rewrite (words_plain_step (nm ++ [61])) by (apply plain_app; auto).
    rewrite words_open_quote.
    rewrite (words_quoted_step (w ++ post)) by (apply noquote_app; auto using plain_noquote).
    rewrite words_end.
    assert (E : cur_app (match cur_app None (nm ++ [61]) with Some x => Some x | None => Some [] end) (w ++ post)
                = Some (nm ++ 61 :: (w ++ post))).
    { destruct nm as [|c nm]. discriminate LG. simpl. destruct (w ++ post) eqn:WP.
      - reflexivity.
      - simpl. rewrite <- app_assoc. reflexivity. }
    rewrite E. rewrite parse_long_eq with (k := K); auto using memN_false.
  - apply comment_line_M.
Qed.

(** "#SBATCH --name \"<value>\"" *)
Lemma line_sepq : forall lit nm K w,
  lit = M ++ 32 :: nm ++ [32; 34] -> memN 61 nm = false -> plain nm = true -> nm <> [] ->
  memN nl lit = false ->
  lookup nm sbatch_table = Some (true, K) -> noquote w = true -> ~ In nl w ->
  RL [lit ++ w ++ [34]] = [(K, w)] /\ CL [lit ++ w ++ [34]] = true.
Proof.
  intros lit nm K w EL NE PN NN NL LK NQ NLW.
  assert (NI : ~ In nl (lit ++ w ++ [34])).
  { repeat apply notin_app; auto using memN_false; simpl; intros [X|[]]; discriminate X. }
  rewrite RL_one, CL_one by auto. subst lit. norm_app. split.
  - unfold read_line. rewrite directive_marker.
    unfold words_of.
    replace (nm ++ 32 :: 34 :: w ++ [34]) with (nm ++ 32 :: quote :: w ++ quote :: []) by reflexivity.
    rewrite (words_plain_step nm) by auto. rewrite words_blank.
    destruct nm as [|c nm]. congruence. simpl cur_app. cbv iota.
    rewrite words_open_quote. rewrite (words_quoted_step w) by auto. rewrite words_end.
    assert (E : cur_app (Some []) w = Some w) by (destruct w; reflexivity).
    rewrite E. rewrite parse_sep with (k := K); auto using memN_false.
  - apply comment_line_M.
Qed.

(** "#SBATCH --flag" *)
Lemma line_flag : forall lit nm K,
  lit = M ++ 32 :: nm -> memN 61 nm = false -> plain nm = true -> nm <> [] -> memN nl lit = false ->
  lookup nm sbatch_table = Some (false, K) ->
  RL [lit] = [(K, [])] /\ CL [lit] = true.
Proof.
  intros lit nm K EL NE PN NN NL LK.
  rewrite RL_one, CL_one by auto using memN_false. subst lit. split.
  - unfold read_line. rewrite directive_marker. rewrite words_of_plain by auto.
    rewrite parse_flag with (k := K); auto using memN_false.
  - apply comment_line_M.
Qed.

Lemma RL_split : forall x y, RL [x ++ nl :: y] = RL [x] ++ RL [y].
Proof. intros. unfold RL. simpl. rewrite !app_nil_r. rewrite split_on_app. rewrite flat_map_app. auto. Qed.
Lemma CL_split : forall x y, CL [x ++ nl :: y] = CL [x] && CL [y].
Proof. intros. unfold CL. simpl. rewrite !app_nil_r. rewrite split_on_app. rewrite forallb_app. auto. Qed.

(** * the entries of the [_header] table, read back *)
Section Entries.
  Variable res : dict.

  Lemma entry_eq_read : forall k lit nm K pre,
    lit = M ++ 32 :: nm ++ 61 :: pre -> is_long nm = true -> memN 61 nm = false -> plain nm = true ->
    plain pre = true -> memN nl lit = false -> lookup nm sbatch_table = Some (true, K) ->
    (forall v, tl_ res k = Some v -> safe_word (render v)) ->
    RL (entry_lines res (k, [Lit lit; Fld k])) = opt_pair K (option_map (fun v => pre ++ render v) (tl_ res k))
    /\ CL (entry_lines res (k, [Lit lit; Fld k])) = true.
  Proof.
    intros. unfold entry_lines. cbn [fst snd]. destruct (tl_ res k) as [v|] eqn:T.
    - unfold fmt. cbn [flat_map]. rewrite app_nil_r. simpl opt_pair. eapply line_eq; eauto.
    - split; reflexivity.
  Qed.

  Lemma entry_q_read : forall k lit nm K,
    lit = M ++ 32 :: nm ++ [61; 34] -> is_long nm = true -> memN 61 nm = false -> plain nm = true ->
    memN nl lit = false -> lookup nm sbatch_table = Some (true, K) ->
    (forall v, tl_ res k = Some v -> noquote (render v) = true /\ ~ In nl (render v)) ->
    RL (entry_lines res (k, [Lit lit; Fld k; Lit [34]])) = opt_pair K (option_map render (tl_ res k))
    /\ CL (entry_lines res (k, [Lit lit; Fld k; Lit [34]])) = true.
  Proof.
    intros. unfold entry_lines. cbn [fst snd]. destruct (tl_ res k) as [v|] eqn:T.
    - unfold fmt. cbn [flat_map]. rewrite app_nil_r. simpl opt_pair.
      destruct (H5 v eq_refl) as [Q NLv].
      pose proof (line_q lit [] nm K (render v) H H0 H1 H2 eq_refl H3 eq_refl H4 Q NLv) as L.
      rewrite app_nil_r in L. simpl app in L. exact L.
    - split; reflexivity.
  Qed.

  Lemma entry_sepq_read : forall k lit nm K,
    lit = M ++ 32 :: nm ++ [32; 34] -> memN 61 nm = false -> plain nm = true -> nm <> [] ->
    memN nl lit = false -> lookup nm sbatch_table = Some (true, K) ->
    (forall v, tl_ res k = Some v -> noquote (render v) = true /\ ~ In nl (render v)) ->
    RL (entry_lines res (k, [Lit lit; Fld k; Lit [34]])) = opt_pair K (option_map render (tl_ res k))
    /\ CL (entry_lines res (k, [Lit lit; Fld k; Lit [34]])) = true.
  Proof.
    intros. unfold entry_lines. cbn [fst snd]. destruct (tl_ res k) as [v|] eqn:T.
    - unfold fmt. cbn [flat_map]. rewrite app_nil_r. simpl opt_pair.
      destruct (H5 v eq_refl) as [Q NLv]. eapply line_sepq; eauto.
    - split; reflexivity.
  Qed.
End Entries.

Section JobName.
  Variable res : dict.
  Definition jn_a : str := M ++ 32 :: s "--job-name" ++ [61; 34].
  Definition jn_o : str := M ++ 32 :: s "--output" ++ [61; 34].
  Definition jn_e : str := M ++ 32 :: s "--error" ++ [61; 34].

  Lemma entry_jn_read : forall k a b c d,
    a = jn_a -> b = 34 :: nl :: jn_o -> c = s ".out" ++ 34 :: nl :: jn_e -> d = s ".err" ++ [34] ->
    (forall v, tl_ res k = Some v -> noquote (render v) = true /\ ~ In nl (render v)) ->
    RL (entry_lines res (k, [Lit a; Fld k; Lit b; Fld k; Lit c; Fld k; Lit d])) =
      match tl_ res k with
      | Some v => [(RJobName, render v); (ROutput, render v ++ s ".out"); (RError, render v ++ s ".err")]
      | None => []
      end
    /\ CL (entry_lines res (k, [Lit a; Fld k; Lit b; Fld k; Lit c; Fld k; Lit d])) = true.
  Proof.
    intros k a b c d Ea Eb Ec Ed SV. unfold entry_lines. cbn [fst snd].
    destruct (tl_ res k) as [v|] eqn:T; [|split; reflexivity].
    destruct (SV v eq_refl) as [Q NLv]. set (r := render v) in *.
    unfold fmt. cbn [flat_map]. fold r. subst a b c d.
    replace (jn_a ++ r ++ (34 :: nl :: jn_o) ++ r ++ (s ".out" ++ 34 :: nl :: jn_e) ++ r ++ (s ".err" ++ [34]) ++ [])
      with ((jn_a ++ r ++ [] ++ [34]) ++ nl :: ((jn_o ++ r ++ s ".out" ++ [34]) ++ nl :: (jn_e ++ r ++ s ".err" ++ [34])))
      by (norm_app; rewrite ?app_nil_r; reflexivity).
    rewrite !RL_split, !CL_split.
    destruct (line_q jn_a [] (s "--job-name") RJobName r) as [R1 C1]; try reflexivity; auto.
    destruct (line_q jn_o (s ".out") (s "--output") ROutput r) as [R2 C2]; try reflexivity; auto.
    destruct (line_q jn_e (s ".err") (s "--error") RError r) as [R3 C3]; try reflexivity; auto.
    rewrite R1, R2, R3, C1, C2, C3. rewrite app_nil_r. split; reflexivity.
  Qed.
End JobName.

Definition word_keys : list str :=
  [s "nodes"; s "queue"; s "bank"; s "walltime"; s "reservation"; s "gpus"; s "procs"; s "qos"].
Definition quoted_keys : list str := [s "job-name"; s "comment"].
Record hdr_safe (tl : str -> option val) : Prop := {
  hs_word : forall k v, In k word_keys -> tl k = Some v -> safe_word (render v);
  hs_quot : forall k v, In k quoted_keys -> tl k = Some v -> noquote (render v) = true /\ ~ In nl (render v) }.

Definition rv (tl : str -> option val) (k : str) : option str := option_map render (tl k).
Definition jn_pairs (tl : str -> option val) : list (rkey * str) :=
  match tl (s "job-name") with
  | Some v => [(RJobName, render v); (ROutput, render v ++ s ".out"); (RError, render v ++ s ".err")]
  | None => []
  end.
Definition table_pairs (tl : str -> option val) : list (rkey * str) :=
  opt_pair RNodes (rv tl (s "nodes")) ++ opt_pair RQueue (rv tl (s "queue")) ++ opt_pair RBank (rv tl (s "bank"))
  ++ opt_pair RWalltime (rv tl (s "walltime")) ++ jn_pairs tl ++ opt_pair RComment (rv tl (s "comment"))
  ++ opt_pair RReservation (rv tl (s "reservation"))
  ++ opt_pair RGpus (option_map (fun v => s "gpu:" ++ render v) (tl (s "gpus"))).

Lemma in_word_keys : forall k, mem_str k word_keys = true -> In k word_keys.
Proof. intros. apply mem_str_true. auto. Qed.

Lemma slurm_table_read : forall res, hdr_safe (tl_ res) ->
  RL (flat_map (entry_lines res) slurm_header) = table_pairs (tl_ res)
  /\ CL (flat_map (entry_lines res) slurm_header) = true.
Proof.
  intros res [HW HQ]. unfold slurm_header. cbn [flat_map]. rewrite app_nil_r.
  rewrite !RL_app, !CL_app. unfold table_pairs, rv, jn_pairs.
  let k := eval vm_compute in (s "nodes") in
  let l := eval vm_compute in (M ++ 32 :: s "--nodes" ++ [61]) in
  destruct (entry_eq_read res k l (s "--nodes") RNodes [] eq_refl eq_refl eq_refl eq_refl eq_refl eq_refl eq_refl) as [R1 C1].
  { intros v T. apply (HW (s "nodes")); auto. apply in_word_keys. reflexivity. }
  let k := eval vm_compute in (s "queue") in
  let l := eval vm_compute in (M ++ 32 :: s "--partition" ++ [61]) in
  destruct (entry_eq_read res k l (s "--partition") RQueue [] eq_refl eq_refl eq_refl eq_refl eq_refl eq_refl eq_refl) as [R2 C2].
  { intros v T. apply (HW (s "queue")); auto. apply in_word_keys. reflexivity. }
  let k := eval vm_compute in (s "bank") in
  let l := eval vm_compute in (M ++ 32 :: s "--account" ++ [61]) in
  destruct (entry_eq_read res k l (s "--account") RBank [] eq_refl eq_refl eq_refl eq_refl eq_refl eq_refl eq_refl) as [R3 C3].
  { intros v T. apply (HW (s "bank")); auto. apply in_word_keys. reflexivity. }
  let k := eval vm_compute in (s "walltime") in
  let l := eval vm_compute in (M ++ 32 :: s "--time" ++ [61]) in
  destruct (entry_eq_read res k l (s "--time") RWalltime [] eq_refl eq_refl eq_refl eq_refl eq_refl eq_refl eq_refl) as [R4 C4].
  { intros v T. apply (HW (s "walltime")); auto. apply in_word_keys. reflexivity. }
  let k := eval vm_compute in (s "job-name") in
  let a := eval vm_compute in jn_a in
  let b := eval vm_compute in (34 :: nl :: jn_o) in
  let c := eval vm_compute in (s ".out" ++ 34 :: nl :: jn_e) in
  let d := eval vm_compute in (s ".err" ++ [34]) in
  destruct (entry_jn_read res k a b c d eq_refl eq_refl eq_refl eq_refl) as [R5 C5].
  { intros v T. apply (HQ (s "job-name")); auto. left. reflexivity. }
  let k := eval vm_compute in (s "comment") in
  let l := eval vm_compute in (M ++ 32 :: s "--comment" ++ [32; 34]) in
  destruct (entry_sepq_read res k l (s "--comment") RComment eq_refl eq_refl eq_refl) as [R6 C6];
    try reflexivity; try discriminate.
  { intros v T. apply (HQ (s "comment")); auto. right. left. reflexivity. }
  let k := eval vm_compute in (s "reservation") in
  let l := eval vm_compute in (M ++ 32 :: s "--reservation" ++ [61; 34]) in
  destruct (entry_q_read res k l (s "--reservation") RReservation eq_refl eq_refl eq_refl eq_refl eq_refl eq_refl) as [R7 C7].
  { intros v T. destruct (HW (s "reservation") v) as [P1 P2 P3 P4 P5]; auto. apply in_word_keys. reflexivity. }
  let k := eval vm_compute in (s "gpus") in
  let l := eval vm_compute in (M ++ 32 :: s "--gres" ++ 61 :: s "gpu:") in
  destruct (entry_eq_read res k l (s "--gres") RGpus (s "gpu:") eq_refl eq_refl eq_refl eq_refl eq_refl eq_refl eq_refl) as [R8 C8].
  { intros v T. apply (HW (s "gpus")); auto. apply in_word_keys. reflexivity. }
  rewrite R1, R2, R3, R4, R5, R6, R7, R8, C1, C2, C3, C4, C5, C6, C7, C8.
  split; reflexivity.
Qed.

(** * the whole header *)
Section WholeHeader.
  Variables (b : batch) (st : step) (vh vb vq : val).
  Let bd := slurm_bd b vh vb vq.
  Let resources := slurm_resources bd st.
  Let tl := tl_ resources.
  Hypothesis SAFE : hdr_safe tl.
  Hypothesis SHELL : ~ In nl (render (slurm_exec b)).

  Definition nt_opt : option str :=
    if is_some (decl (b_kw b) (s "procs")) || negb (is_some (tl (s "nodes"))) then rv tl (s "procs") else None.
  Definition ex_opt : option str := if is_some (tl (s "exclusive")) then Some [] else None.
  Definition raw_pairs : list (rkey * str) :=
    table_pairs tl ++ opt_pair RTasks nt_opt ++ opt_pair RExclusive ex_opt ++ opt_pair RQos (rv tl (s "qos")).

  Lemma shebang_read : RL [slurm_shebang_line b] = [] /\ CL [slurm_shebang_line b] = true.
  Proof.
    assert (NI : ~ In nl (slurm_shebang_line b)).
    { unfold slurm_shebang_line. apply notin_app; auto. simpl. intros [X|[X|[]]]; discriminate X. }
    rewrite RL_one, CL_one by auto. split; reflexivity.
  Qed.

  Lemma nt_read : RL (nt_lines b st vh vb vq) = opt_pair RTasks nt_opt /\ CL (nt_lines b st vh vb vq) = true.
  Proof.
    unfold nt_lines, nt_opt. fold bd. fold resources. fold tl.
    destruct (is_some (decl (b_kw b) (s "procs")) || negb (is_some (tl (s "nodes")))); [|split; reflexivity].
    unfold rv. destruct (tl (s "procs")) as [v|] eqn:T; [|split; reflexivity].
    unfold slurm_ntask_header, fmt. cbn [flat_map]. rewrite app_nil_r. simpl opt_pair.
    let l := eval vm_compute in (M ++ 32 :: s "--ntasks" ++ [61]) in
    destruct (line_eq l (s "--ntasks") RTasks [] (render v)) as [R C]; try reflexivity.
    { destruct SAFE as [HW _]. apply (HW (s "procs")); auto. apply in_word_keys. reflexivity. }
    split; [exact R | exact C].
  Qed.

  Lemma ex_read : RL (ex_lines b st vh vb vq) = opt_pair RExclusive ex_opt /\ CL (ex_lines b st vh vb vq) = true.
  Proof.
    unfold ex_lines, ex_opt. fold bd. fold resources. fold tl.
    destruct (is_some (tl (s "exclusive"))); [|split; reflexivity].
    unfold slurm_exclusive, fmt. cbn [flat_map]. rewrite app_nil_r. simpl opt_pair.
    let l := eval vm_compute in (M ++ 32 :: s "--exclusive") in
    destruct (line_flag l (s "--exclusive") RExclusive) as [R C]; try reflexivity; try discriminate.
    split; [exact R | exact C].
  Qed.

  Lemma qos_read : RL (qos_lines b st vh vb vq) = opt_pair RQos (rv tl (s "qos")) /\ CL (qos_lines b st vh vb vq) = true.
  Proof.
    unfold qos_lines. fold bd. fold resources. fold tl. unfold rv.
    destruct (tl (s "qos")) as [v|] eqn:T; [|split; reflexivity].
    unfold slurm_qos, fmt. cbn [flat_map]. rewrite app_nil_r. simpl opt_pair.
    let l := eval vm_compute in (M ++ 32 :: s "--qos" ++ [61]) in
    destruct (line_eq l (s "--qos") RQos [] (render v)) as [R C]; try reflexivity.
    { destruct SAFE as [HW _]. apply (HW (s "qos")); auto. apply in_word_keys. reflexivity. }
    split; [exact R | exact C].
  Qed.

  Lemma slurm_lines_read :
    RL (slurm_lines b st vh vb vq) = raw_pairs /\ CL (slurm_lines b st vh vb vq) = true.
  Proof.
    unfold slurm_lines. fold bd. fold resources.
    change (slurm_shebang_line b :: flat_map (entry_lines resources) slurm_header ++
            nt_lines b st vh vb vq ++ ex_lines b st vh vb vq ++ qos_lines b st vh vb vq)
      with ([slurm_shebang_line b] ++ flat_map (entry_lines resources) slurm_header ++
            nt_lines b st vh vb vq ++ ex_lines b st vh vb vq ++ qos_lines b st vh vb vq).
    rewrite !RL_app, !CL_app.
    destruct shebang_read as [R0 C0]. destruct (slurm_table_read resources SAFE) as [R1 C1].
    destruct nt_read as [R2 C2]. destruct ex_read as [R3 C3]. destruct qos_read as [R4 C4].
    rewrite R0, R1, R2, R3, R4, C0, C1, C2, C3, C4. split; reflexivity.
  Qed.
End WholeHeader.

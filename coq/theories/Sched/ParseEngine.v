(** C16 -- the engine's layer (ExecutionGraph.check_study_status) on top of the
    adapters' answers: re-keying the table by step name neither invents nor
    loses a state; a step whose job the table does not mention gets none.
    Proofs only (model and monitor: Sched/Parse.v). *)
From Coq Require Import List Arith NArith ZArith Bool Lia.
From MWF Require Import Base.Str Gen.SchedTables Sched.Manuals Sched.Parse Sched.ParseProofs
     Sched.ParseDict Sched.ParseSlurm Sched.ParseLsf Sched.ParseC16.
Import ListNotations.

Lemma assoc_step_In : forall jm j step, assoc_step jm j = Some step -> In (j, step) jm.
Proof.
  induction jm as [|[k s0] r IH]; intros j step H; simpl in *; [discriminate|].
  destruct (str_eqb j k) eqn:E.
  - apply str_eqb_eq in E. inversion H; subst. left. reflexivity.
  - right. apply IH. exact H.
Qed.

Lemma nodup_strb_NoDup : forall l, nodup_strb l = true -> NoDup l.
Proof.
  induction l as [|x r IH]; intro H; [constructor|].
  simpl in H. apply andb_true_iff in H. destruct H as [Hx Hr]. constructor; [|apply IH; exact Hr].
  intro X. apply memb_In in X. rewrite X in Hx. discriminate.
Qed.

Lemma NoDup_snd_inj : forall (jm : list (str * str)) a b s0,
  NoDup (map snd jm) -> In (a, s0) jm -> In (b, s0) jm -> a = b.
Proof.
  induction jm as [|[k s1] r IH]; intros a b s0 Hnd Ha Hb; [contradiction|].
  simpl in Hnd. inversion Hnd as [|? ? Hnot Hnd']; subst.
  destruct Ha as [Ha|Ha]; destruct Hb as [Hb|Hb].
  - inversion Ha; inversion Hb; subst. reflexivity.
  - inversion Ha; subst. exfalso. apply Hnot. apply in_map_iff. exists (b, s0). split; [reflexivity|exact Hb].
  - inversion Hb; subst. exfalso. apply Hnot. apply in_map_iff. exists (a, s0). split; [reflexivity|exact Ha].
  - exact (IH a b s0 Hnd' Ha Hb).
Qed.

(** no two jobs belong to the same step *)
Definition jobmap_inj (jm : list (str * str)) : Prop :=
  forall j1 j2 step, assoc_step jm j1 = Some step -> assoc_step jm j2 = Some step -> j1 = j2.

Lemma wf_jobmap_inj : forall jm, wf_jobmap jm = true -> jobmap_inj jm.
Proof.
  intros jm H j1 j2 step H1 H2. unfold wf_jobmap in H. apply andb_true_iff in H. destruct H as [_ H].
  apply nodup_strb_NoDup in H.
  exact (NoDup_snd_inj jm j1 j2 step H (assoc_step_In _ _ _ H1) (assoc_step_In _ _ _ H2)).
Qed.

(** the step's entry in the re-keyed table is its job's entry in the adapter's *)
Lemma step_table_get : forall jm st tbl j step,
  jobmap_inj jm -> step_table jm st = Some tbl -> assoc_step jm j = Some step ->
  get tbl step = get st j.
Proof.
  intros jm st. induction st as [|[k v] r IH]; intros tbl j step Hinj H A; simpl in H.
  - inversion H; subst. reflexivity.
  - destruct (assoc_step jm k) as [sk|] eqn:Ak; [|discriminate].
    destruct (step_table jm r) as [l|] eqn:Hr; [|discriminate].
    inversion H; subst tbl. simpl.
    assert (E : str_eqb step sk = str_eqb j k).
    { destruct (str_eqb j k) eqn:E1.
      - apply str_eqb_eq in E1. subst k. rewrite A in Ak. inversion Ak; subst. apply str_eqb_refl.
      - apply str_eqb_neq. intro X. subst sk. apply str_eqb_neq in E1. apply E1.
        exact (Hinj j k step A Ak). }
    rewrite E. destruct (str_eqb j k); [reflexivity|]. exact (IH l j step Hinj eq_refl A).
Qed.

Lemma step_table_keys : forall jm st tbl e,
  step_table jm st = Some tbl -> In e tbl -> exists j, In (j, fst e) jm.
Proof.
  intros jm st. induction st as [|[k v] r IH]; intros tbl e H Hin; simpl in H.
  - inversion H; subst. contradiction.
  - destruct (assoc_step jm k) as [sk|] eqn:Ak; [|discriminate].
    destruct (step_table jm r) as [l|] eqn:Hr; [|discriminate].
    inversion H; subst tbl. destruct Hin as [Hin|Hin].
    + subst e. exists k. apply assoc_step_In. exact Ak.
    + exact (IH l e eq_refl Hin).
Qed.

Lemma step_table_total : forall jm st,
  wf_answer jm st = true -> exists tbl, step_table jm st = Some tbl.
Proof.
  intros jm st. induction st as [|[k v] r IH]; intro H; simpl; [eexists; reflexivity|].
  simpl in H. apply andb_true_iff in H. destruct H as [Hk Hr].
  destruct (IH Hr) as [l Hl]. rewrite Hl.
  assert (A : exists s0, assoc_step jm k = Some s0).
  { clear -Hk. apply memb_In in Hk. induction jm as [|[k' s1] jm IH]; [contradiction|].
    simpl. destruct (str_eqb k k') eqn:E; [eexists; reflexivity|].
    destruct Hk as [Hk|Hk]; [|exact (IH Hk)].
    simpl in Hk. apply str_eqb_neq in E. symmetry in Hk. contradiction. }
  destruct A as [s0 A]. rewrite A. eexists. reflexivity.
Qed.

Lemma assoc_step_self : forall jm e, In e jm -> exists step, assoc_step jm (fst e) = Some step.
Proof.
  induction jm as [|[k s1] r IH]; intros e H; [contradiction|]. simpl.
  destruct H as [H|H].
  - subst e. simpl. rewrite str_eqb_refl. eexists. reflexivity.
  - destruct (str_eqb (fst e) k); [eexists; reflexivity | exact (IH e H)].
Qed.

(** the monitor holds of the model *)
Lemma engine_monitor : forall jm code st tbl,
  jobmap_inj jm -> step_table jm st = Some tbl ->
  C16_ok_engine jm code st (Ret code tbl) = true.
Proof.
  intros jm code st tbl Hinj H. unfold C16_ok_engine. rewrite JS_eqb_refl. simpl.
  apply andb_true_iff. split.
  - apply forallb_forall. intros e He. destruct (assoc_step_self jm e He) as [step A]. rewrite A.
    rewrite (step_table_get jm st tbl (fst e) step Hinj H A). apply opt_state_eqb_refl.
  - apply forallb_forall. intros e He. destruct (step_table_keys jm st tbl e H He) as [j Hj].
    apply existsb_exists. exists (j, fst e). split; [exact Hj | apply str_eqb_refl].
Qed.

Lemma engine_mon_model : forall jm code st,
  engine_mon_ok (jm, (code, st), engine_run jm code st) = true.
Proof.
  intros jm code st. unfold engine_mon_ok, engine_run.
  destruct (wf_jobmap jm && wf_answer jm st) eqn:W; [|reflexivity].
  apply andb_true_iff in W. destruct W as [Wj Wa].
  destruct (step_table_total jm st Wa) as [tbl Ht]. rewrite Ht.
  apply engine_monitor; [apply wf_jobmap_inj; exact Wj | exact Ht].
Qed.

(** a step whose job the adapter's table does not mention (no key, or None)
    comes back without a state *)
Lemma engine_absent : forall jm st tbl j step,
  jobmap_inj jm -> step_table jm st = Some tbl -> assoc_step jm j = Some step ->
  (get st j = None \/ get st j = Some None) ->
  get tbl step = None \/ get tbl step = Some None.
Proof.
  intros jm st tbl j step Hinj H A Hn. rewrite (step_table_get jm st tbl j step Hinj H A). exact Hn.
Qed.

(** ... and one it does mention comes back with exactly that state *)
Lemma engine_present : forall jm st tbl j step x,
  jobmap_inj jm -> step_table jm st = Some tbl -> assoc_step jm j = Some step ->
  get st j = Some (Some x) -> get tbl step = Some (Some x).
Proof.
  intros jm st tbl j step x Hinj H A Hx. rewrite (step_table_get jm st tbl j step Hinj H A). exact Hx.
Qed.

(** composed with Slurm's check_jobs: a queried job without a row in what
    squeue / sacct printed leaves its step without a state *)
Lemma engine_slurm_absent : forall jm sq sq_rc sa sa_rc code st tbl j step,
  jobmap_inj jm -> wf_joblist (map fst jm) = true -> wf_squeue sq = true -> wf_sacct sa = true ->
  slurm_check_jobs (map fst jm) (print_squeue sq) sq_rc (print_sacct sa) sa_rc = Ret code st ->
  step_table jm st = Some tbl -> assoc_step jm j = Some step ->
  last_state (slurm_seen (map fst jm) sq sq_rc sa sa_rc) j = None ->
  get tbl step = Some None.
Proof.
  intros jm sq sq_rc sa sa_rc code st tbl j step Hinj Hj Hq Ha Hrun Ht A Hl.
  rewrite (step_table_get jm st tbl j step Hinj Ht A).
  unfold slurm_check_jobs in Hrun. rewrite slurm_run_closed in Hrun by assumption.
  simpl in Hrun. inversion Hrun; subst st.
  assert (Hin : In j (map fst jm)).
  { apply assoc_step_In in A. apply in_map_iff. exists (j, step). split; [reflexivity | exact A]. }
  rewrite (proj1 (closed_answers slurm_state _ (map fst jm)) j Hin), Hl. reflexivity.
Qed.

Definition ex_jobmap : list (str * str) := [(s "12", s "sim"); (s "123", s "post"); (s "9", s "late")].
Lemma ex_engine :
  wf_jobmap ex_jobmap = true /\
  engine_run ex_jobmap JS_OK [kv (s "12") CANCELLED; kv (s "123") FINISHING; kn (s "9")]
  = Ret JS_OK [kv (s "sim") CANCELLED; kv (s "post") FINISHING; kn (s "late")] /\
  engine_run ex_jobmap JS_OK [kv (s "123") FINISHING]
  = Ret JS_OK [kv (s "post") FINISHING].
Proof. vm_compute. repeat split. Qed.

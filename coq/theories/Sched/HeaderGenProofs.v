(** Tie between the hand-written model of script generation (Sched/Header.v,
    Sched/Launcher.v), which every theorem of Props/C15.v is about, and the text
    GENERATED from the current source of the adapters (Sched/HeaderGen.v, by
    translate/tcode_header.py): each generated function is EQUAL to the model's.
    An edit of the source that changes what a method does changes HeaderGen.v
    and breaks one of these obligations. *)
From Coq Require Import List Arith NArith ZArith Bool Lia.
From MWF Require Import Base.Str Gen.HeaderData Sched.Header Sched.Launcher Sched.HeaderOps Sched.HeaderGen
  Sched.StrFacts.
Import ListNotations.
Local Open Scope N_scope.
Local Open Scope list_scope.

(** * loops *)
Lemma for_res_ext {A S} : forall (l : list A) (b1 b2 : A -> S -> res S) s,
  (forall a s, b1 a s = b2 a s) -> for_res l b1 s = for_res l b2 s.
Proof.
  induction l; intros; simpl. auto. rewrite H. destruct (b2 a s); simpl; auto.
Qed.

(** * dictionaries that answer every lookup alike *)
Definition deq (d1 d2 : dict) : Prop := forall k, lookup k d1 = lookup k d2.

Lemma format_deq : forall t d1 d2, deq d1 d2 -> format t d1 = format t d2.
Proof.
  induction t as [|sg t]; intros d1 d2 H. reflexivity.
  destruct sg; simpl.
  - rewrite (IHt d1 d2 H). auto.
  - rewrite (H k). destruct (lookup k d2); auto. rewrite (IHt d1 d2 H). auto.
Qed.
Lemma lookup_truthy_deq : forall k d1 d2, deq d1 d2 -> lookup_truthy k d1 = lookup_truthy k d2.
Proof. intros. unfold lookup_truthy. rewrite (H k). auto. Qed.

Lemma truthy_d_get : forall k d, truthy (d_get k d) = lookup_truthy k d.
Proof. intros. unfold d_get, lookup_truthy. destruct (lookup k d); auto. Qed.
Lemma truthy_d_get_default_false : forall k d, truthy (d_get_default k (VBool false) d) = lookup_truthy k d.
Proof. intros. unfold d_get_default, lookup_truthy. destruct (lookup k d); auto. Qed.

(** * SlurmScriptAdapter.get_parallelize_command *)
Definition slurm_extra_of (kv : str * val) : list str :=
  let (k, v) := kv in
  if mem_str k slurm_unsupported then []
  else match lookup k slurm_cmd_flags with
       | Some f => if truthy v then [f; render v] else []
       | None => []
       end.

Theorem slurm_par_is_generated : forall addl procs nodes,
  slurm_par_gen addl procs nodes = par_slurm addl procs nodes.
Proof.
  intros. unfold slurm_par_gen, par_slurm.
  change (flag slurm_cmd_flags (s "cmd")) with (Ok (s "srun") : res str).
  change (flag slurm_cmd_flags (s "ntasks")) with (Ok (s "-n") : res str).
  change (flag slurm_cmd_flags (s "nodes")) with (Ok (s "-N") : res str).
  cbn [bind]. fold slurm_extra_of.
  (* the loop over the remaining keyword arguments, whatever its text *)
  match goal with
  | |- context [for_res (items_minus addl slurm_unsupported) ?body _] =>
    assert (L : forall d args, for_res (items_minus d slurm_unsupported) body args
                               = Ok (args ++ flat_map slurm_extra_of d))
  end.
  { induction d as [|[k v] d]; intros args.
    - simpl. rewrite app_nil_r. auto.
    - unfold items_minus. cbn [filter fst flat_map slurm_extra_of].
      destruct (mem_str k slurm_unsupported) eqn:U; cbn [negb].
      + fold (items_minus d slurm_unsupported). rewrite IHd. auto.
      + cbn [for_res]. fold (items_minus d slurm_unsupported).
        unfold d_has, has, flag. destruct (lookup k slurm_cmd_flags) as [f|]; cbn [negb bind].
        * destruct (truthy v); cbn [bind]; rewrite IHd; rewrite <- ?app_assoc; auto.
        * rewrite IHd. auto. }
  destruct (truthy procs); destruct (truthy nodes); cbn [bind app]; rewrite L; reflexivity.
Qed.

(** * SlurmScriptAdapter.get_header *)
Lemma deq_slurm_resources : forall bd st,
  deq (d_set (s "comment") (VStr (replace [10] (s " ") (st_desc st)))
        (d_set (s "job-name") (VStr (subst_ws (st_name st)))
           (d_update (d_update d_empty bd) (truthy_items (run_items st)))))
      (slurm_resources bd st).
Proof.
  intros bd st k. unfold d_set, d_update, d_empty, slurm_resources, slurm_job_name, oneline. rewrite app_nil_r.
  cbn [lookup]. destruct (str_eqb k (s "comment")) eqn:C; destruct (str_eqb k (s "job-name")) eqn:J; auto.
  apply str_eqb_eq in C. apply str_eqb_eq in J. subst. discriminate J.
Qed.

Theorem slurm_get_header_is_generated : forall b st bd, batch_slurm b = Ok bd ->
  slurm_get_header_gen bd (slurm_exec b) st = header_slurm b st.
Proof.
  intros b st bd HB. unfold slurm_get_header_gen, header_slurm, header_lines_slurm. rewrite HB. cbn [bind].
  pose proof (deq_slurm_resources bd st) as DE.
  set (R := d_set (s "comment") _ _) in *. set (R' := slurm_resources bd st) in *.
  assert (PB : d_has (s "procs") (d_update d_empty bd) = has (s "procs") bd).
  { unfold d_has, d_update, d_empty. rewrite app_nil_r. auto. }
  assert (PN : d_get (s "procs") (d_update (d_update d_empty bd) (truthy_items (run_items st)))
               = d_get (s "procs") R
            /\ d_get (s "nodes") (d_update (d_update d_empty bd) (truthy_items (run_items st)))
               = d_get (s "nodes") R).
  { unfold R, d_get, d_set. cbn [lookup].
    change (str_eqb (s "procs") (s "comment")) with false. change (str_eqb (s "procs") (s "job-name")) with false.
    change (str_eqb (s "nodes") (s "comment")) with false. change (str_eqb (s "nodes") (s "job-name")) with false.
    auto. }
  destruct PN as [P1 P2]. rewrite P1, P2, PB. rewrite !truthy_d_get.
  rewrite !(lookup_truthy_deq _ R R' DE).
  destruct (negb (lookup_truthy (s "procs") R') && negb (lookup_truthy (s "nodes") R')); [reflexivity|].
  change (format [Lit (s "#!"); Fld (s "0")] [(s "0", slurm_exec b)]) with (format slurm_shebang [(s "0", slurm_exec b)]).
  destruct (format slurm_shebang [(s "0", slurm_exec b)]) as [sheb|e]; [|reflexivity]. cbn [bind].
  (* the loop over the header table, whatever its text *)
  match goal with
  | |- context [for_res slurm_header ?body _] =>
    assert (L : forall es acc, for_res es body acc = (hs <- map_res (header_entry R') es ;; Ok (acc ++ List.concat hs)))
  end.
  { induction es as [|[k tpl] es]; intros acc.
    - simpl. rewrite app_nil_r. auto.
    - cbn [for_res map_res header_entry]. unfold d_has, has, d_index, lookup_truthy. rewrite (DE k).
      destruct (lookup k R') as [v|]; cbn [negb bind].
      + destruct (truthy v); cbn [bind].
        * rewrite (format_deq tpl R R' DE). destruct (format tpl R') as [l|e]; [|reflexivity]. cbn [bind].
          rewrite IHes. destruct (map_res (header_entry R') es); cbn [bind List.concat]; auto.
          rewrite <- app_assoc. auto.
        * rewrite IHes. destruct (map_res (header_entry R') es); cbn [bind List.concat]; auto.
      + rewrite IHes. destruct (map_res (header_entry R') es); cbn [bind List.concat]; auto. }
  rewrite L. destruct (map_res (header_entry R') slurm_header) as [hs|e]; [|reflexivity]. cbn [bind].
  rewrite (format_deq slurm_ntask_header R R' DE).
  rewrite truthy_d_get_default_false. rewrite !(lookup_truthy_deq _ R R' DE).
  assert (QE : d_get (s "qos") R = match lookup (s "qos") R' with Some q => q | None => VNone end).
  { unfold d_get. rewrite (DE (s "qos")). auto. }
  rewrite QE. change (tpl_raw slurm_exclusive) with (format slurm_exclusive R').
  destruct (lookup (s "qos") R') as [q|] eqn:LQ;
    [ assert (TQ : lookup_truthy (s "qos") R' = truthy q) by (unfold lookup_truthy; rewrite LQ; auto)
    | assert (TQ : lookup_truthy (s "qos") R' = false) by (unfold lookup_truthy; rewrite LQ; auto) ];
    rewrite TQ; clear TQ;
    destruct (has (s "procs") bd || negb (lookup_truthy (s "nodes") R'));
    destruct (format slurm_ntask_header R'); cbn [bind]; try reflexivity;
    destruct (lookup_truthy (s "exclusive") R'); destruct (format slurm_exclusive R'); cbn [bind]; try reflexivity;
    try (destruct (truthy q); [destruct (format slurm_qos [(s "qos", q)])|]); cbn [bind];
    rewrite <- ?app_assoc; rewrite ?app_nil_r; reflexivity.
Qed.

(** * SchedulerScriptAdapter._substitute_parallel_command *)
Definition not_np (kv : str * val) : bool :=
  negb (str_eqb (fst kv) (s "nodes")) && negb (str_eqb (fst kv) (s "procs")).

Lemma has_filter_keep : forall (f : str * val -> bool) k d,
  (forall v, f (k, v) = true) -> has k (filter f d) = has k d.
Proof.
  intros f k d H. unfold has. induction d as [|[k' v] d]; simpl. auto.
  destruct (str_eqb k k') eqn:E.
  - apply str_eqb_eq in E. subst k'. rewrite H. simpl. rewrite str_eqb_refl. auto.
  - destruct (f (k', v)); simpl; rewrite ?E; auto.
Qed.

Lemma filter_twice : forall d,
  filter (fun kv : str * val => negb (str_eqb (fst kv) (s "procs")))
    (filter (fun kv : str * val => negb (str_eqb (fst kv) (s "nodes"))) d) = filter not_np d.
Proof.
  induction d as [|[k v] d]. reflexivity. cbn [filter]. unfold not_np at 1. cbn [fst].
  destruct (str_eqb k (s "nodes")); cbn [negb andb filter fst]; [auto|].
  destruct (str_eqb k (s "procs")); cbn [negb]; rewrite IHd; auto.
Qed.

Lemma pops : forall kw, has (s "nodes") kw = true -> has (s "procs") kw = true ->
  (a <- d_pop (s "nodes") kw ;; d_pop (s "procs") a) = Ok (filter not_np kw).
Proof.
  intros kw Hn Hp. unfold d_pop. rewrite Hn. cbn [bind].
  rewrite has_filter_keep by (intros; reflexivity). rewrite Hp. rewrite filter_twice. auto.
Qed.

Lemma max_of_v_or : forall v, int_of (v_or v (VInt 0)) = max_of v.
Proof. intros. unfold v_or, max_of. destruct (truthy v); auto. Qed.

Theorem substitute_is_generated : forall par kw cmd,
  has (s "nodes") kw = true -> has (s "procs") kw = true ->
  substitute_gen par cmd kw =
  substitute (par (filter not_np kw)) (d_get (s "nodes") kw) (d_get (s "procs") kw) cmd.
Proof.
  intros par kw cmd Hn Hp. unfold substitute_gen, substitute, replace_bare.
  pose proof (pops kw Hn Hp) as PP. unfold bind at 1 in PP.
  destruct (d_pop (s "nodes") kw) as [a1|]; [|discriminate PP]. cbn [bind]. rewrite PP. cbn [bind].
  set (addl := filter not_np kw). set (nodes := d_get (s "nodes") kw). set (procs := d_get (s "procs") kw).
  unfold re_finditer_launcher. rewrite !max_of_v_or.
  destruct (scan_tokens 0 cmd) as [|t0 toks] eqn:SC.
  - cbn [nilb negb]. destruct (containsb launcher_var cmd); auto;
      destruct (par addl procs nodes); reflexivity.
  - cbn [nilb negb]. rewrite <- SC. clear SC t0 toks.
    destruct (max_of nodes) as [mn|]; [|reflexivity]. cbn [bind].
    destruct (max_of procs) as [mp|]; [|reflexivity]. cbn [bind].
    (* the loop over the matches, whatever its text *)
    match goal with
    | |- context [for_res (scan_tokens 0 cmd) ?body _] =>
      assert (L : forall toks tn tp c, for_res toks body (tn, tp, c) = subst_loop (par addl) mn mp toks tn tp c)
    end.
    { induction toks as [|a toks IH]; intros tn tp c. reflexivity.
      cbn [for_res subst_loop]. unfold match_group_alloc, match_group_all, re_search_legacy, re_search_nodes,
        re_search_procs, group_val, parse_alloc, check_one, z_truthy.
      change (str_split (s ",") a) with (split_on 44 a).
      change (str_count (s "p") a) with (count_char 112 a). change (str_count (s "n") a) with (count_char 110 a).
      assert (STEP : forall nv pv : val, True) by auto. clear STEP.
      destruct (search_legacy a).
      - destruct (split_on 44 a) as [|n [|p r]]; cbn [idx nth_str nth_error bind]; try reflexivity.
        cbn [fst snd].
        repeat (match goal with
                | |- context [truthy ?v] => destruct (truthy v)
                | |- context [int_of ?v] => destruct (int_of v)
                | |- context [negb (?x =? 0)%Z && (?x <? ?y)%Z] => destruct (negb (x =? 0)%Z && (x <? y)%Z)
                | |- context [par addl ?pv ?nv] => destruct (par addl pv nv)
                end; cbn [bind fst snd app nilb negb orb]); try reflexivity; rewrite ?Z.add_0_r; apply IH.
      - destruct ((1 <? count_char 112 a)%nat || (1 <? count_char 110 a)%nat); [reflexivity|].
        destruct (count_char 112 a <? 1)%nat; [reflexivity|]. cbn [bind fst snd].
        repeat (match goal with
                | |- context [truthy ?v] => destruct (truthy v)
                | |- context [int_of ?v] => destruct (int_of v)
                | |- context [negb (?x =? 0)%Z && (?x <? ?y)%Z] => destruct (negb (x =? 0)%Z && (x <? y)%Z)
                | |- context [par addl ?pv ?nv] => destruct (par addl pv nv)
                end; cbn [bind fst snd app nilb negb orb]); try reflexivity; rewrite ?Z.add_0_r; apply IH. }
    rewrite L. destruct (subst_loop (par addl) mn mp (scan_tokens 0 cmd) 0%Z 0%Z cmd) as [[[tn tp] c']|]; [|reflexivity].
    cbn [bind]. unfold z_truthy.
    destruct (negb (mp =? 0)%Z && (mp <? tp)%Z); [reflexivity|].
    destruct (negb (mn =? 0)%Z && (mn <? tn)%Z); [reflexivity|].
    destruct (containsb launcher_var c'); auto; destruct (par addl procs nodes); reflexivity.
Qed.

(** * SchedulerScriptAdapter.get_scheduler_command *)
Lemma run_items_has : forall st, has (s "nodes") (run_items st) = true /\ has (s "procs") (run_items st) = true
  /\ nilb (run_items st) = false.
Proof. intros. repeat split; reflexivity. Qed.

Lemma addl_args_filter : forall st, addl_args st = filter not_np (run_items st).
Proof. reflexivity. Qed.

Theorem scheduler_command_is_generated : forall par st,
  scheduler_command_gen par st = scheduler_command (par (addl_args st)) st.
Proof.
  intros par st. unfold scheduler_command_gen, scheduler_command.
  destruct (run_items_has st) as [Hn [Hp NN]]. rewrite NN. cbn [negb].
  unfold run_get, d_get_default.
  assert (EN : forall dflt, match lookup (s "nodes") (run_items st) with Some v => v | None => dflt end
                            = d_get (s "nodes") (run_items st)).
  { intros. unfold d_get. unfold has in Hn. destruct (lookup (s "nodes") (run_items st)); auto. discriminate. }
  assert (EP : forall dflt, match lookup (s "procs") (run_items st) with Some v => v | None => dflt end
                            = d_get (s "procs") (run_items st)).
  { intros. unfold d_get. unfold has in Hp. destruct (lookup (s "procs") (run_items st)); auto. discriminate. }
  rewrite !EN, !EP. rewrite !substitute_is_generated by auto. rewrite <- addl_args_filter.
  destruct (truthy (d_get (s "nodes") (run_items st)) || truthy (d_get (s "procs") (run_items st))); cbn [bind]; auto.
  destruct (substitute (par (addl_args st)) _ _ (st_cmd st)) as [c|]; cbn [bind]; auto.
  destruct (st_restart st) as [|r0 r1]; cbn [nilb negb bind]; auto.
  destruct (substitute (par (addl_args st)) _ _ (r0 :: r1)); cbn [bind]; auto.
Qed.

(** * _write_script *)
Lemma scheduler_command_ext : forall (p1 p2 : val -> val -> res str) st, (forall a b, p1 a b = p2 a b) ->
  scheduler_command p1 st = scheduler_command p2 st.
Proof.
  intros p1 p2 st E.
  assert (SL : forall toks mn mp tn tp cmd, subst_loop p1 mn mp toks tn tp cmd = subst_loop p2 mn mp toks tn tp cmd).
  { induction toks as [|a r]; intros. reflexivity. cbn [subst_loop].
    destruct (parse_alloc a) as [[n p]|]; cbn [bind]; auto.
    destruct (check_one mn (fst (n, p))) as [[zn bn]|]; cbn [bind]; auto.
    destruct (check_one mp (snd (n, p))) as [[zp bp]|]; cbn [bind]; auto.
    destruct (snd (zn, bn) || snd (zp, bp)); auto. rewrite E.
    destruct (p2 (snd (n, p)) (fst (n, p))); cbn [bind]; auto. }
  assert (SU : forall nodes procs cmd, substitute p1 nodes procs cmd = substitute p2 nodes procs cmd).
  { intros. unfold substitute, replace_bare. destruct (scan_tokens 0 cmd) as [|a r].
    - rewrite E. auto.
    - destruct (max_of nodes) as [mn|]; cbn [bind]; auto. destruct (max_of procs) as [mp|]; cbn [bind]; auto.
      rewrite SL. destruct (subst_loop p2 mn mp (a :: r) 0%Z 0%Z cmd) as [[[tn tp] c']|]; cbn [bind]; auto.
      rewrite E. auto. }
  unfold scheduler_command. destruct (st_restart st); rewrite !SU; reflexivity.
Qed.

Lemma str_eqb_app_l : forall x a b, str_eqb (x ++ a) (x ++ b) = str_eqb a b.
Proof. induction x; simpl; intros; auto. rewrite N.eqb_refl. simpl. auto. Qed.

Lemma read_back : forall sched p q t1 t2, str_eqb p q = false ->
  mk_script sched p (Some q) (file_write q t2 (file_write p t1 [])) =
  {| sc_sched := sched; sc_name := p; sc_text := t1; sc_restart := Some (q, t2) |}.
Proof.
  intros. unfold mk_script, file_text, file_write. cbn [lookup]. rewrite H. rewrite !str_eqb_refl. reflexivity.
Qed.
Lemma read_back1 : forall sched p t1,
  mk_script sched p None (file_write p t1 []) =
  {| sc_sched := sched; sc_name := p; sc_text := t1; sc_restart := None |}.
Proof. intros. unfold mk_script, file_text, file_write. cbn [lookup]. rewrite str_eqb_refl. reflexivity. Qed.

Theorem slurm_write_script_is_generated : forall b st,
  write_slurm b st = (bd <- batch_slurm b ;; slurm_write_script_gen bd (slurm_exec b) st).
Proof.
  intros b st. unfold write_slurm, slurm_write_script_gen.
  destruct (batch_slurm b) as [bd|] eqn:HB; [|reflexivity]. cbn [bind].
  rewrite scheduler_command_is_generated.
  rewrite (scheduler_command_ext (slurm_par_gen (addl_args st)) (par_slurm (addl_args st)))
    by (intros; apply slurm_par_is_generated).
  destruct (scheduler_command (par_slurm (addl_args st)) st) as [[[sched cmd] restart]|]; [|reflexivity].
  cbn [bind]. cbv beta iota.
  change (format [Fld (s "0"); Lit (s ".slurm.sh")] [(s "0", VStr (st_name st))])
    with (Ok (st_name st ++ s ".slurm.sh") : res str).
  change (format slurm_script_name (pos1 (st_name st))) with (Ok (st_name st ++ s ".slurm.sh") : res str).
  cbn [bind].
  change (format [Lit (s "#!"); Fld (s "0")] [(s "0", slurm_exec b)])
    with (format slurm_local_header [(s "0", slurm_exec b)]).
  assert (HE : (if sched then x_3 <- slurm_get_header_gen bd (slurm_exec b) st ;; Ok x_3
                else x_4 <- format slurm_local_header [(s "0", slurm_exec b)] ;; Ok x_4)
               = (if sched then header_slurm b st else format slurm_local_header [(s "0", slurm_exec b)])).
  { destruct sched.
    - rewrite (slurm_get_header_is_generated b st bd HB). destruct (header_slurm b st); reflexivity.
    - destruct (format slurm_local_header [(s "0", slurm_exec b)]); reflexivity. }
  rewrite HE. clear HE.
  destruct (if sched then header_slurm b st else format slurm_local_header [(s "0", slurm_exec b)]) as [header|];
    [|reflexivity]. cbn [bind].
  change (format [Fld (s "0"); Lit ([10] ++ [10]); Fld (s "1"); Lit [10]] [(s "0", VStr header); (s "1", VStr cmd)])
    with (format slurm_form_cmd (pos2 header cmd)).
  destruct (format slurm_form_cmd (pos2 header cmd)) as [text|]; [|reflexivity]. cbn [bind].
  unfold restart_part. destruct restart as [|r0 r1]; cbn [nilb negb bind].
  - rewrite read_back1. reflexivity.
  - change (format [Fld (s "0"); Lit (s ".restart.slurm.sh")] [(s "0", VStr (st_name st))])
      with (Ok (st_name st ++ s ".restart.slurm.sh") : res str).
    change (format slurm_restart_name (pos1 (st_name st))) with (Ok (st_name st ++ s ".restart.slurm.sh") : res str).
    cbn [bind].
    change (format [Fld (s "0"); Lit ([10] ++ [10]); Fld (s "1"); Lit [10]] [(s "0", VStr header); (s "1", VStr (r0 :: r1))])
      with (format slurm_form_cmd (pos2 header (r0 :: r1))).
    destruct (format slurm_form_cmd (pos2 header (r0 :: r1))) as [rtext|]; [|reflexivity]. cbn [bind].
    rewrite read_back by (rewrite str_eqb_app_l; reflexivity). reflexivity.
Qed.

Theorem local_write_script_is_generated : forall b st,
  write_local b st = local_write_script_gen (shell_of (b_kw b)) st.
Proof.
  intros b st. unfold write_local, local_write_script_gen.
  change (format local_script_name (pos1 (st_name st))) with (Ok (st_name st ++ s ".sh") : res str).
  change (format [Fld (s "0"); Lit (s ".sh")] [(s "0", VStr (st_name st))]) with (Ok (st_name st ++ s ".sh") : res str).
  cbn [bind].
  assert (F : forall c, format [Lit (s "#!"); Fld (s "0"); Lit ([10] ++ [10]); Fld (s "1"); Lit [10]]
                          [(s "0", shell_of (b_kw b)); (s "1", VStr c)]
                        = format local_script (pos2 (render (shell_of (b_kw b))) c)).
  { intros. reflexivity. }
  rewrite !F. destruct (format local_script (pos2 (render (shell_of (b_kw b))) (st_cmd st))) as [text|]; [|reflexivity].
  cbn [bind]. unfold restart_part. destruct (st_restart st) as [|r0 r1]; cbn [nilb negb bind].
  - rewrite read_back1. reflexivity.
  - change (format local_restart_name (pos1 (st_name st))) with (Ok (st_name st ++ s ".restart.sh") : res str).
    change (format [Fld (s "0"); Lit (s ".restart.sh")] [(s "0", VStr (st_name st))])
      with (Ok (st_name st ++ s ".restart.sh") : res str).
    cbn [bind].
    destruct (format local_script (pos2 (render (shell_of (b_kw b))) (r0 :: r1))) as [rtext|]; [|reflexivity].
    cbn [bind]. rewrite read_back by (rewrite str_eqb_app_l; reflexivity). reflexivity.
Qed.

(** * LSF *)
Theorem lsf_par_is_generated : forall addl procs nodes,
  lsf_par_gen addl procs nodes = par_lsf addl procs nodes.
Proof.
  intros. unfold lsf_par_gen, par_lsf, d_get_default, get_default.
  repeat match goal with |- context [flag lsf_cmd_flags ?k] =>
    let v := eval vm_compute in (flag lsf_cmd_flags k) in
    change (flag lsf_cmd_flags k) with v end.
  cbn [bind].
  set (rs := match lookup (s "rs per node") addl with Some v => v | None => VInt 1 end).
  set (ta := match lookup (s "tasks per rs") addl with Some v => v | None => VInt 1 end).
  set (gp := match lookup (s "gpus") addl with Some v => v | None => VInt 0 end).
  set (bg := match lookup (s "bind gpus") addl with Some v => v | None => VNone end).
  set (cp := match lookup (s "cpus per rs") addl with Some v => v | None => VInt 1 end).
  destruct (truthy nodes); cbn [bind];
    destruct (int_of procs) as [p|]; cbn [bind]; auto;
    destruct (int_of rs) as [r|]; cbn [bind]; auto;
    try (destruct (int_of nodes) as [n|]; cbn [bind]; auto);
    destruct (int_of ta) as [t|]; cbn [bind]; auto;
    repeat match goal with |- context [if ?c then _ else _] =>
      match c with context [Z.ltb] => destruct c | context [z_truthy] => destruct c end; cbn [bind] end;
    destruct (truthy gp) eqn:Gp; cbn [bind negb]; rewrite ?Gp;
    change (truthy (VInt 0)) with false; cbn [bind];
    destruct (truthy bg); cbn [bind];
    destruct (truthy cp); cbn [bind negb app]; reflexivity.
Qed.

Lemma deq_lsf_header : forall X bd n j o e,
  deq (X ++ (s "error", e) :: (s "output", o) :: (s "job-name", j) :: (s "nodes", n) :: bd)
      (X ++ [(s "nodes", n); (s "job-name", j); (s "output", o); (s "error", e)] ++ bd).
Proof.
  intros X bd n j o e k. rewrite !lookup_app. destruct (lookup k X); auto.
  cbn [lookup app].
  destruct (str_eqb k (s "error")) eqn:E1; destruct (str_eqb k (s "output")) eqn:E2;
    destruct (str_eqb k (s "job-name")) eqn:E3; destruct (str_eqb k (s "nodes")) eqn:E4; auto;
    repeat match goal with H : str_eqb _ _ = true |- _ => apply str_eqb_eq in H end; subst; discriminate.
Qed.

Theorem lsf_get_header_is_generated : forall b st bd, batch_lsf b = Ok bd ->
  lsf_get_header_gen bd (lsf_exec b) st = header_lsf b st.
Proof.
  intros b st bd HB. unfold lsf_get_header_gen, header_lsf, header_lines_lsf. rewrite HB. cbn [bind].
  unfold d_index at 1. destruct (lookup (s "nodes") bd) as [bn|]; [|reflexivity]. cbn [bind].
  unfold d_set at 1 2. unfold d_index at 1. cbn [lookup].
  change (str_eqb (s "job-name") (s "job-name")) with true. cbv iota. cbn [bind].
  unfold under. set (jn := replace (s " ") (s "_") (st_name st)).
  change (format [Fld (s "0"); Lit (s ".%J.out")] [(s "0", VStr jn)]) with (format lsf_output_name (pos1 jn)).
  destruct (format lsf_output_name (pos1 jn)) as [out|]; [|reflexivity]. cbn [bind].
  unfold d_index at 1. unfold d_set at 1 2. cbn [lookup].
  change (str_eqb (s "job-name") (s "output")) with false.
  change (str_eqb (s "job-name") (s "job-name")) with true. cbv iota. cbn [bind].
  change (format [Fld (s "0"); Lit (s ".%J.err")] [(s "0", VStr jn)]) with (format lsf_error_name (pos1 jn)).
  destruct (format lsf_error_name (pos1 jn)) as [err|]; [|reflexivity]. cbn [bind].
  (* nodes and walltime of the step *)
  assert (ND : v_or (d_get (s "nodes") (run_items st)) bn
               = match run_get st (s "nodes") with Some v => if truthy v then v else bn | None => bn end).
  { unfold v_or, d_get, run_get. destruct (lookup (s "nodes") (run_items st)); auto. }
  rewrite ND. clear ND. set (nodes := match run_get st (s "nodes") with Some v => _ | None => _ end).
  assert (W0 : render (v_or (d_get (s "walltime") (run_items st)) (VStr []))
               = match run_get st (s "walltime") with Some v => if truthy v then render v else [] | None => [] end).
  { unfold v_or, d_get, run_get. destruct (lookup (s "walltime") (run_items st)) as [v|]; auto.
    destruct (truthy v); auto. }
  rewrite W0. clear W0. set (w0 := match run_get st (s "walltime") with Some v => _ | None => _ end).
  (* the walltime conversion, whatever its text *)
  match goal with
  | |- context [bind (if Nat.eqb (List.length (str_split (s ":") w0)) 3 then ?A else ?B)] =>
    assert (WT : (if Nat.eqb (List.length (str_split (s ":") w0)) 3 then A else B) = lsf_walltime w0)
  end.
  { unfold lsf_walltime. change (str_split (s ":") w0) with (split_on 58 w0).
    destruct (split_on 58 w0) as [|h [|m [|sec [|x y]]]]; try reflexivity.
    cbn [List.length Nat.eqb idx nth_str nth_error bind int_of]. unfold float_int, z_ceil_div.
    destruct (py_int sec); cbn [bind]; [|reflexivity].
    destruct (py_int m); cbn [bind]; [|reflexivity].
    destruct (py_int h); cbn [bind]; reflexivity. }
  rewrite WT. clear WT. destruct (lsf_walltime w0) as [w|]; [|reflexivity]. cbn [bind].
  set (WL := match w with [] => [] | _ :: _ => [(s "walltime", VStr w)] end).
  set (BH' := WL ++ truthy_items (run_items st)
              ++ [(s "nodes", nodes); (s "job-name", VStr jn); (s "output", VStr out); (s "error", VStr err)] ++ bd).
  match goal with |- context [bind (if negb (nilb w) then Ok ?A else Ok ?B)] =>
    assert (BE : exists BH, (if negb (nilb w) then Ok A else Ok B) = (Ok BH : res dict) /\ deq BH BH') end.
  { unfold BH', WL, d_set, d_update. destruct w as [|c w]; cbn [nilb negb app]; eexists; split; try reflexivity.
    - apply (deq_lsf_header (truthy_items (run_items st))).
    - apply (deq_lsf_header ((s "walltime", VStr (c :: w)) :: truthy_items (run_items st))). }
  destruct BE as (BH & BE & DE). rewrite BE. clear BE. cbn [bind].
  change (format [Lit (s "#!"); Fld (s "0")] [(s "0", lsf_exec b)]) with (format lsf_shebang [(s "0", lsf_exec b)]).
  destruct (format lsf_shebang [(s "0", lsf_exec b)]) as [sheb|]; [|reflexivity]. cbn [bind].
  match goal with
  | |- context [for_res lsf_header ?body _] =>
    match goal with |- context [map_res ?f lsf_header] =>
    assert (L : forall es acc, for_res es body acc = (hs <- map_res f es ;; Ok (acc ++ List.concat hs))) end
  end.
  { induction es as [|[k tpl] es]; intros acc.
    - simpl. rewrite app_nil_r. auto.
    - cbn [for_res map_res]. unfold d_has, has. rewrite (DE k).
      destruct (lookup k BH') as [v|]; cbn [bind].
      + rewrite (format_deq tpl BH BH' DE). destruct (format tpl BH') as [l|]; [|reflexivity]. cbn [bind].
        rewrite IHes. destruct (map_res _ es); cbn [bind List.concat]; auto.
        rewrite <- app_assoc. auto.
      + rewrite IHes. destruct (map_res _ es); cbn [bind List.concat]; auto. }
  rewrite L. destruct (map_res _ lsf_header) as [hs|]; reflexivity.
Qed.

(** * LSF / Flux _write_script: a script is opened, then written piecewise *)
Lemma read_back_app1 : forall sched p t1 t2,
  mk_script sched p None (file_append p t2 (file_append p t1 (file_open p []))) =
  {| sc_sched := sched; sc_name := p; sc_text := t1 ++ t2; sc_restart := None |}.
Proof.
  intros. unfold mk_script, file_text, file_append, file_open, file_text. cbn [lookup].
  rewrite !str_eqb_refl. reflexivity.
Qed.
Lemma read_back_app : forall sched p q t1 t2 r1 r2, str_eqb p q = false ->
  mk_script sched p (Some q)
    (file_append q r2 (file_append q r1 (file_open q
       (file_append p t2 (file_append p t1 (file_open p [])))))) =
  {| sc_sched := sched; sc_name := p; sc_text := t1 ++ t2; sc_restart := Some (q, r1 ++ r2) |}.
Proof.
  intros. unfold mk_script, file_text, file_append, file_open, file_text. cbn [lookup].
  rewrite !H. rewrite !str_eqb_refl. reflexivity.
Qed.

Theorem lsf_write_script_is_generated : forall b st,
  write_lsf b st = (bd <- batch_lsf b ;; lsf_write_script_gen bd (lsf_exec b) st).
Proof.
  intros b st. unfold write_lsf, lsf_write_script_gen.
  destruct (batch_lsf b) as [bd|] eqn:HB; [|reflexivity]. cbn [bind].
  rewrite scheduler_command_is_generated.
  rewrite (scheduler_command_ext (lsf_par_gen (addl_args st)) (par_lsf (addl_args st)))
    by (intros; apply lsf_par_is_generated).
  destruct (scheduler_command (par_lsf (addl_args st)) st) as [[[sched cmd] restart]|]; [|reflexivity].
  cbn [bind]. cbv beta iota.
  change (format [Fld (s "0"); Lit (s "."); Fld (s "1")] [(s "0", VStr (st_name st)); (s "1", VStr lsf_extension)])
    with (Ok (st_name st ++ s ".lsf.sh") : res str).
  change (format lsf_script_name (pos2 (st_name st) lsf_extension)) with (Ok (st_name st ++ s ".lsf.sh") : res str).
  cbn [bind]. rewrite !(lsf_get_header_is_generated b st bd HB).
  change (format [Lit (s "#!"); Fld (s "0")] [(s "0", lsf_exec b)])
    with (format lsf_local_header [(s "0", lsf_exec b)]).
  assert (F : forall c, format [Lit ([10] ++ [10]); Fld (s "0"); Lit [10]] [(s "0", VStr c)] = format lsf_body (pos1 c))
    by reflexivity.
  rewrite !F.
  destruct sched.
  - destruct (header_lsf b st) as [header|]; [|reflexivity]. cbn [bind].
    destruct (format lsf_body (pos1 cmd)) as [body|]; [|reflexivity]. cbn [bind].
    unfold restart_part. destruct restart as [|r0 r1]; cbn [nilb negb bind].
    + rewrite read_back_app1. reflexivity.
    + change (format [Fld (s "0"); Lit (s ".restart."); Fld (s "1")] [(s "0", VStr (st_name st)); (s "1", VStr lsf_extension)])
        with (Ok (st_name st ++ s ".restart.lsf.sh") : res str).
      change (format lsf_restart_name (pos2 (st_name st) lsf_extension)) with (Ok (st_name st ++ s ".restart.lsf.sh") : res str).
      cbn [bind]. destruct (format lsf_body (pos1 (r0 :: r1))) as [rb|]; [|reflexivity]. cbn [bind].
      rewrite read_back_app by (rewrite str_eqb_app_l; reflexivity). reflexivity.
  - destruct (format lsf_local_header [(s "0", lsf_exec b)]) as [header|]; [|reflexivity]. cbn [bind].
    destruct (format lsf_body (pos1 cmd)) as [body|]; [|reflexivity]. cbn [bind].
    unfold restart_part. destruct restart as [|r0 r1]; cbn [nilb negb bind].
    + rewrite read_back_app1. reflexivity.
    + change (format [Fld (s "0"); Lit (s ".restart."); Fld (s "1")] [(s "0", VStr (st_name st)); (s "1", VStr lsf_extension)])
        with (Ok (st_name st ++ s ".restart.lsf.sh") : res str).
      change (format lsf_restart_name (pos2 (st_name st) lsf_extension)) with (Ok (st_name st ++ s ".restart.lsf.sh") : res str).
      cbn [bind]. destruct (format lsf_body (pos1 (r0 :: r1))) as [rb|]; [|reflexivity]. cbn [bind].
      rewrite read_back_app by (rewrite str_eqb_app_l; reflexivity). reflexivity.
Qed.

Theorem flux_write_script_is_generated : forall b broker st,
  write_flux b broker st =
  (bd <- batch_flux b ;;
   flux_write_script_gen (header_flux b broker) (par_flux bd (b_args b)) (flux_exec b) st).
Proof.
  intros b broker st. unfold write_flux, flux_write_script_gen.
  destruct (batch_flux b) as [bd|] eqn:HB; [|reflexivity]. cbn [bind].
  rewrite scheduler_command_is_generated.
  destruct (scheduler_command (par_flux bd (b_args b) (addl_args st)) st) as [[[sched cmd] restart]|]; [|reflexivity].
  cbn [bind]. cbv beta iota.
  change (format [Fld (s "0"); Lit (s "."); Fld (s "1")] [(s "0", VStr (st_name st)); (s "1", VStr flux_extension)])
    with (Ok (st_name st ++ s ".flux.sh") : res str).
  change (format flux_script_name (pos2 (st_name st) flux_extension)) with (Ok (st_name st ++ s ".flux.sh") : res str).
  cbn [bind].
  change (format [Lit (s "#!"); Fld (s "0")] [(s "0", flux_exec b)])
    with (format flux_local_header [(s "0", flux_exec b)]).
  assert (F : forall c, format [Lit ([10] ++ [10]); Fld (s "0"); Lit [10]] [(s "0", VStr c)] = format flux_body (pos1 c))
    by reflexivity.
  rewrite !F.
  destruct (header_flux b broker st) as [header|]; [|reflexivity]. cbn [bind].
  destruct (format flux_body (pos1 cmd)) as [body|]; [|reflexivity]. cbn [bind].
  unfold restart_part. destruct restart as [|r0 r1]; cbn [nilb negb bind].
  - rewrite read_back_app1. reflexivity.
  - change (format [Fld (s "0"); Lit (s ".restart."); Fld (s "1")] [(s "0", VStr (st_name st)); (s "1", VStr flux_extension)])
      with (Ok (st_name st ++ s ".restart.flux.sh") : res str).
    change (format flux_restart_name (pos2 (st_name st) flux_extension)) with (Ok (st_name st ++ s ".restart.flux.sh") : res str).
    cbn [bind].
    assert (LH : exists lh, format flux_local_header [(s "0", flux_exec b)] = Ok lh) by (eexists; reflexivity).
    destruct LH as [lh LH]. rewrite LH.
    destruct (format flux_body (pos1 (r0 :: r1))) as [rb|]; destruct sched; cbn [bind]; try reflexivity;
      rewrite read_back_app by (rewrite str_eqb_app_l; reflexivity); reflexivity.
Qed.

(** * FluxScriptAdapter._convert_walltime_to_seconds *)
Lemma Z_dec_N : forall n, Z_dec (Z.of_N n) = N_dec n.
Proof. intros. unfold Z_dec. destruct n; simpl; auto. Qed.

Lemma minutes_str : forall n, num_str (NumI (Z.of_N n * 60)) = N_dec (n * 60).
Proof. intros. unfold num_str. change 60%Z with (Z.of_N 60). rewrite <- N2Z.inj_mul. apply Z_dec_N. Qed.

(** the loop over the reversed colon-separated parts, whatever its text *)
Lemma walltime_loop : forall (body : nat * str -> Z -> res Z),
  (forall i value acc, body (i, value) acc =
     (x <- float_int value ;; Ok (acc + x * Z.pow 60 (Z.of_nat i))%Z)) ->
  forall l k acc,
  for_res (combine (seq k (List.length l)) l) body acc =
  match sum_parts l (Z.pow 60 (Z.of_nat k)) with Some z => Ok (acc + z)%Z | None => Err Diag end.
Proof.
  intros body HB. induction l as [|p r IH]; intros k acc.
  - simpl. rewrite Z.add_0_r. reflexivity.
  - cbn [List.length seq combine for_res sum_parts]. rewrite HB. unfold float_int.
    assert (P : (Z.pow 60 (Z.of_nat k) * 60 = Z.pow 60 (Z.of_nat (S k)))%Z).
    { rewrite Nat2Z.inj_succ. rewrite Z.pow_succ_r by lia. lia. }
    rewrite P. destruct (py_int p) as [z|]; cbn [bind].
    + rewrite IH. destruct (sum_parts r (Z.pow 60 (Z.of_nat (S k)))); [f_equal; lia | reflexivity].
    + destruct (sum_parts r (Z.pow 60 (Z.of_nat (S k)))); reflexivity.
Qed.

Theorem flux_convert_walltime_is_generated : forall v,
  (n <- flux_convert_walltime_gen v ;; Ok (num_str n)) = flux_walltime v.
Proof.
  intros v. unfold flux_convert_walltime_gen, flux_walltime.
  destruct v as [n|t|b| |n]; cbn [v_is_int v_is_float v_is_str orb andb v_float bind v_isnumeric v_contains truthy negb].
  - rewrite minutes_str. reflexivity.
  - destruct (all_digits t) eqn:AD.
    + unfold float_int. rewrite (py_int_digits t AD), (py_nat_digits t AD). cbn [bind]. rewrite minutes_str. reflexivity.
    + cbn [bind]. change (s ":") with [58]. destruct (containsb [58] t) eqn:CC.
      * cbn [v_split bind]. change (str_split [58] t) with (split_on 58 t). unfold enum.
        match goal with |- context [for_res _ ?body _] =>
          rewrite (walltime_loop body) by (intros; reflexivity) end.
        change (Z.pow 60 (Z.of_nat 0)) with 1%Z.
        destruct (sum_parts (rev (split_on 58 t)) 1%Z); reflexivity.
      * destruct t as [|c t]; [reflexivity|]. cbn [negb orb v_eq_str].
        destruct (str_eqb (c :: t) (s "inf")); reflexivity.
  - destruct b; reflexivity.
  - reflexivity.
  - rewrite minutes_str. reflexivity.
Qed.

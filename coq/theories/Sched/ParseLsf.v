(** C16 -- printer/parser round trip of LSFScriptAdapter.check_jobs (bjobs with
    '|' delimited, padded fields; EXIT refined by the termination reason), for
    ALL well-formed tables, by induction over the rows.  Proofs only. *)
From Coq Require Import List Arith NArith ZArith Bool Lia.
From MWF Require Import Base.Str Gen.SchedTables Sched.Manuals Sched.Parse Sched.ParseProofs
     Sched.ParseDict Sched.ParseSlurm.
Import ListNotations.

(* ------------------------------------------------------------------------ *)
(** * str.strip() on a padded field *)

Lemma lstrip_allspace_app : forall p x, allspace p = true -> lstrip (p ++ x) = lstrip x.
Proof.
  induction p as [|c p IH]; intros x H; [reflexivity|].
  simpl in H. apply andb_true_iff in H. destruct H as [Hc Hp].
  simpl. rewrite Hc. apply IH. exact Hp.
Qed.

Lemma lstrip_starts : forall x, starts_nonspace x = true -> lstrip x = x.
Proof.
  intros [|c r] H; [reflexivity|]. simpl in *. apply negb_true_iff in H. rewrite H. reflexivity.
Qed.

Lemma lstrip_allspace : forall p, allspace p = true -> lstrip p = [].
Proof.
  intros p H. rewrite <- (app_nil_r p). rewrite lstrip_allspace_app by exact H. reflexivity.
Qed.

Lemma allspace_rev : forall p, allspace p = true -> allspace (rev p) = true.
Proof.
  intros p H. unfold allspace in *. rewrite forallb_forall in *.
  intros c Hc. apply H. apply in_rev. exact Hc.
Qed.

Lemma strip_field : forall lp t rp,
  padb lp = true -> coreb t = true -> padb rp = true -> strip (lp ++ t ++ rp) = t.
Proof.
  intros lp t rp Hl Ht Hr. unfold coreb in Ht.
  apply andb_true_iff in Ht. destruct Ht as [Ht Hend].
  apply andb_true_iff in Ht. destruct Ht as [_ Hstart].
  apply padb_allspace in Hl. apply padb_allspace in Hr.
  unfold strip, rstrip. rewrite lstrip_allspace_app by exact Hl.
  destruct t as [|c t'].
  - simpl. rewrite (lstrip_allspace _ Hr). reflexivity.
  - rewrite (lstrip_starts ((c :: t') ++ rp)) by exact Hstart.
    rewrite rev_app_distr. rewrite lstrip_allspace_app by (apply allspace_rev; exact Hr).
    rewrite (lstrip_starts (rev (c :: t'))) by exact Hend. apply rev_involutive.
Qed.

(* ------------------------------------------------------------------------ *)
(** * Fields and lines *)

Lemma space_not_bar : forall c, is_space c = true -> N.eqb c bar = false.
Proof.
  intros c H. destruct (N.eqb c bar) eqn:E; [|reflexivity].
  apply N.eqb_eq in E. subst c. vm_compute in H. discriminate.
Qed.

Lemma padb_nobar : forall p, padb p = true -> nodelim bar p = true.
Proof.
  intros p H. unfold padb in H. unfold nodelim. rewrite forallb_forall in *.
  intros c Hc. specialize (H c Hc). apply andb_true_iff in H. destruct H as [H _].
  rewrite (space_not_bar _ H). reflexivity.
Qed.

Lemma coreb_nobar : forall t, coreb t = true -> nodelim bar t = true /\ nonlb t = true.
Proof.
  intros t H. unfold coreb in H. apply andb_true_iff in H. destruct H as [H _].
  apply andb_true_iff in H. destruct H as [H _].
  unfold nodelim, nonlb. rewrite forallb_forall in H. split; apply forallb_forall; intros c Hc;
    specialize (H c Hc); apply andb_true_iff in H; tauto.
Qed.

Lemma nodelim_app : forall d a b, nodelim d (a ++ b) = nodelim d a && nodelim d b.
Proof. intros. unfold nodelim. apply forallb_app. Qed.

Lemma wf_lfield_inv : forall f,
  wf_lfield f = true ->
  padb (fst (fst f)) = true /\ coreb (lf_text f) = true /\ padb (snd f) = true.
Proof.
  intros f H. unfold wf_lfield in H. apply andb_true_iff in H. destruct H as [H H3].
  apply andb_true_iff in H. tauto.
Qed.

Lemma print_lfield_nobar : forall f, wf_lfield f = true -> nodelim bar (print_lfield f) = true.
Proof.
  intros f H. apply wf_lfield_inv in H. destruct H as [H1 [H2 H3]].
  unfold print_lfield. rewrite !nodelim_app.
  rewrite (padb_nobar _ H1), (proj1 (coreb_nobar _ H2)), (padb_nobar _ H3). reflexivity.
Qed.

Lemma print_lfield_nonl : forall f, wf_lfield f = true -> nonlb (print_lfield f) = true.
Proof.
  intros f H. apply wf_lfield_inv in H. destruct H as [H1 [H2 H3]].
  unfold print_lfield. rewrite !nonlb_app.
  rewrite (padb_nonl _ H1), (proj2 (coreb_nobar _ H2)), (padb_nonl _ H3). reflexivity.
Qed.

Lemma strip_lfield : forall f, wf_lfield f = true -> strip (print_lfield f) = lf_text f.
Proof.
  intros f H. apply wf_lfield_inv in H. destruct H as [H1 [H2 H3]].
  unfold print_lfield. apply strip_field; assumption.
Qed.

Lemma nonlb_join_bar : forall ls, forallb nonlb ls = true -> nonlb (join bar ls) = true.
Proof.
  induction ls as [|x r IH]; intro H; [reflexivity|].
  simpl in H. apply andb_true_iff in H. destruct H as [Hx Hr].
  destruct r as [|y r']; [exact Hx|].
  change (join bar (x :: y :: r')) with (x ++ bar :: join bar (y :: r')).
  rewrite nonlb_app, Hx. simpl. apply IH. exact Hr.
Qed.

(** the stripped fields of a printed line are the field texts *)
Lemma fields_of_line : forall fs,
  fs <> [] -> forallb wf_lfield fs = true ->
  map strip (split_on bj_delim (join bar (map print_lfield fs))) = map lf_text fs.
Proof.
  intros fs Hne H. change bj_delim with bar.
  rewrite split_join.
  - rewrite map_map. apply map_ext_in. intros f Hf. apply strip_lfield.
    rewrite forallb_forall in H. apply H. exact Hf.
  - destruct fs; [contradiction | discriminate].
  - apply (forallb_map_impl wf_lfield); [apply print_lfield_nobar | exact H].
Qed.

Lemma print_bjline_nonl : forall l, wf_bjline l = true -> nonlb (print_bjline l) = true.
Proof.
  intros [r|fs] H.
  - change (forallb wf_lfield (bj_fields r) && negb (is_nil (lf_text (b_id r))) = true) in H.
    apply andb_true_iff in H. destruct H as [H _].
    change (nonlb (join bar (map print_lfield (bj_fields r))) = true).
    apply nonlb_join_bar. apply (forallb_map_impl wf_lfield); [apply print_lfield_nonl | exact H].
  - change (forallb wf_lfield fs && (List.length fs <? 4) = true) in H.
    apply andb_true_iff in H. destruct H as [H _].
    change (nonlb (join bar (map print_lfield fs)) = true).
    apply nonlb_join_bar. apply (forallb_map_impl wf_lfield); [apply print_lfield_nonl | exact H].
Qed.

(* ------------------------------------------------------------------------ *)
(** * bjobs rows *)

Lemma lsf_row_ok : forall st l,
  wf_bjline l = true -> has_key [] st = false ->
  lsf_row st (print_bjline l) = Some (apply_pairs lsf_state (bj_pair l) st).
Proof.
  intros st [r|fs] Hwf Hk.
  - destruct r as [fi fs_ fc fr more].
    change (forallb wf_lfield (fi :: fs_ :: fc :: fr :: more) && negb (is_nil (lf_text fi)) = true) in Hwf.
    apply andb_true_iff in Hwf. destruct Hwf as [Hf Hid]. apply negb_true_iff in Hid.
    change (print_bjline (BjRow (BjR fi fs_ fc fr more)))
      with (join bar (map print_lfield (fi :: fs_ :: fc :: fr :: more))).
    unfold lsf_row. rewrite fields_of_line by (try discriminate; exact Hf).
    simpl map. simpl List.length.
    assert (L : (S (S (S (S (List.length (map lf_text more))))) <? bj_min_fields) = false).
    { change bj_min_fields with 4. apply Nat.ltb_ge. lia. }
    rewrite L. simpl drop_blank_heads. rewrite Hid.
    change bj_jobid_index with 0. change bj_state_index with 1. change bj_term_reason with 3.
    simpl nth_error.
    unfold bj_pair. simpl b_id. simpl b_stat. simpl b_reason.
    unfold apply_pairs, apply_pair. simpl fold_left. simpl fst. simpl snd.
    destruct (has_key (lf_text fi) st); [|reflexivity].
    rewrite <- (lsf_effective_row_code (lf_text fs_) (lf_text fr)). unfold lsf_effective.
    destruct (str_eqb (lf_text fs_) lsf_exit_trigger) eqn:E; [|reflexivity].
    destruct lsf_exit_rules; reflexivity.
  - change (forallb wf_lfield fs && (List.length fs <? 4) = true) in Hwf.
    apply andb_true_iff in Hwf. destruct Hwf as [Hf Hlen].
    change (print_bjline (BjShort fs)) with (join bar (map print_lfield fs)).
    unfold lsf_row. destruct fs as [|f fs'].
    + reflexivity.
    + rewrite fields_of_line by (try discriminate; exact Hf).
      rewrite map_length. change bj_min_fields with 4. rewrite Hlen. reflexivity.
Qed.

(** the closed form of what LSF's check_jobs returns *)
Lemma lsf_closed : forall jl t rc,
  wf_joblist jl = true -> wf_bjobs t = true ->
  lsf_check_jobs jl (print_bjobs t) rc =
  if parses bj_rc_map bj_rc_default rc
  then if lsf_nojob (print_bjobs t)
       then Ret bj_nojob_code (if bj_nojob_empty_dict then [] else init_status jl)
       else Ret (code_of bj_rc_map bj_rc_default rc)
                (apply_pairs lsf_state (bj_pairs t) (init_status jl))
  else Ret (code_of bj_rc_map bj_rc_default rc) (init_status jl).
Proof.
  intros jl t rc Hj Hwf. unfold lsf_check_jobs, parses, code_of.
  destruct (fst (rc_lookup bj_rc_map bj_rc_default rc)); [|reflexivity].
  destruct (lsf_nojob (print_bjobs t)); [reflexivity|].
  destruct t as [hdr ls|raw]; [|discriminate].
  simpl in Hwf. apply andb_true_iff in Hwf. destruct Hwf as [Hh Hls].
  unfold print_bjobs. change bj_row_sep with nl.
  rewrite split_lines; [| exact Hh | apply (forallb_map_impl wf_bjline); [apply print_bjline_nonl | exact Hls]].
  change bj_data_row_offset with 1. simpl skipn.
  rewrite (fold_rows_lines _ print_bjline bj_pair lsf_state wf_bjline);
    [reflexivity | apply lsf_row_ok | exact Hls | apply init_no_empty_key; exact Hj].
Qed.

Lemma lsf_monitor : forall jl t rc,
  wf_joblist jl = true -> wf_bjobs t = true ->
  C16_ok_lsf jl t rc (lsf_check_jobs jl (print_bjobs t) rc) = true.
Proof.
  intros jl t rc Hj Hwf. rewrite lsf_closed by assumption. unfold C16_ok_lsf.
  pose proof (rc_parses_iff_ok _ _ rc bj_rc_map_ok) as PI.
  assert (NJ : is_OK bj_nojob_code = false) by (vm_compute; reflexivity).
  destruct (parses bj_rc_map bj_rc_default rc) eqn:P.
  - destruct (lsf_nojob (print_bjobs t)).
    + rewrite NJ. simpl negb.
      assert (A : all_none (if bj_nojob_empty_dict then [] else init_status jl) = true).
      { destruct bj_nojob_empty_dict; [reflexivity | apply init_all_none]. }
      rewrite A. reflexivity.
    + rewrite <- PI. rewrite (parses_zero _ _ _ bj_rc_map_ok P). simpl.
      rewrite (answers_ok_apply lsf_state lsf_alive lsf_success _ jl
                 lsf_alive_not_terminal lsf_only_success).
      apply expected_ok_apply. apply assoc_ok_sound. vm_compute. reflexivity.
  - rewrite <- PI. rewrite JS_eqb_refl, init_all_none. simpl.
    apply (answers_ok_apply lsf_state lsf_alive lsf_success [] jl
             lsf_alive_not_terminal lsf_only_success).
Qed.

(** ANY output text: a failing bjobs never yields OK and reports nothing; on a
    non-OK code no entry of the returned dictionary is a state *)
Lemma lsf_codes_any_text : forall jl out rc code st,
  lsf_check_jobs jl out rc = Ret code st ->
  (rc <> 0%Z -> code <> JS_OK /\ st = init_status jl) /\
  (code <> JS_OK -> forall j v, In (j, v) st -> v = None).
Proof.
  intros jl out rc code st H. unfold lsf_check_jobs in H.
  pose proof (rc_parses_iff_ok _ _ rc bj_rc_map_ok) as PI. unfold parses, code_of in PI.
  destruct (fst (rc_lookup bj_rc_map bj_rc_default rc)) eqn:P.
  - assert (Z0 : rc = 0%Z) by (apply (parses_zero _ _ _ bj_rc_map_ok); exact P).
    split; [intro X; contradiction|].
    destruct (lsf_nojob out).
    + assert (A : all_none (if bj_nojob_empty_dict then [] else init_status jl) = true)
        by (destruct bj_nojob_empty_dict; [reflexivity | apply init_all_none]).
      inversion H; subst code st. intros _. apply all_none_spec. exact A.
    + destruct (fold_rows lsf_row (init_status jl) (skipn bj_data_row_offset (split_on bj_row_sep out)));
        [|discriminate].
      inversion H; subst code st. intro X. exfalso. apply X. apply is_OK_eq. symmetry. exact PI.
  - inversion H; subst code st.
    assert (N : snd (rc_lookup bj_rc_map bj_rc_default rc) <> JS_OK).
    { intro X. rewrite X in PI. discriminate. }
    split.
    + intros _. split; [exact N | reflexivity].
    + intros _. apply all_none_spec. apply init_all_none.
Qed.

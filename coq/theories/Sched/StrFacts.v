(** C15 proofs, part 0: facts about the string functions of [Sched.Header]
    ([prefixb], [containsb], [replace_from], [split_on], [join], [lstrip],
    [py_nat], dictionaries). *)
From Coq Require Import List Arith NArith ZArith Bool Lia.
From MWF Require Import Base.Str Gen.HeaderData Sched.Header.
Import ListNotations.
Local Open Scope N_scope.
Local Open Scope list_scope.

(** * [str_eqb] *)
Lemma str_eqb_refl : forall a, str_eqb a a = true.
Proof. induction a; simpl; auto. rewrite N.eqb_refl. auto. Qed.

Lemma str_eqb_eq : forall a b, str_eqb a b = true <-> a = b.
Proof.
  induction a; destruct b; simpl; split; intro H; try discriminate; auto.
  - apply andb_true_iff in H. destruct H as [H1 H2]. apply N.eqb_eq in H1. apply IHa in H2. congruence.
  - inversion H; subst. rewrite N.eqb_refl. simpl. apply IHa. auto.
Qed.

Lemma str_eqb_neq : forall a b, str_eqb a b = false <-> a <> b.
Proof.
  intros. split; intro H.
  - intro E. apply str_eqb_eq in E. congruence.
  - destruct (str_eqb a b) eqn:E; auto. apply str_eqb_eq in E. contradiction.
Qed.

Lemma str_eqb_sym : forall a b, str_eqb a b = str_eqb b a.
Proof.
  intros. destruct (str_eqb a b) eqn:E.
  - apply str_eqb_eq in E. subst. symmetry. apply str_eqb_refl.
  - symmetry. apply str_eqb_neq. apply str_eqb_neq in E. congruence.
Qed.

(** * [prefixb] *)
Lemma prefixb_nil : forall t, prefixb [] t = true.
Proof. destruct t; auto. Qed.

Lemma prefixb_app : forall p w, prefixb p (p ++ w) = true.
Proof. induction p; intros. apply prefixb_nil. simpl. rewrite N.eqb_refl. simpl. auto. Qed.

Lemma prefixb_refl : forall p, prefixb p p = true.
Proof. intros. rewrite <- (app_nil_r p) at 2. apply prefixb_app. Qed.

Lemma prefixb_true : forall p t, prefixb p t = true -> exists w, t = p ++ w.
Proof.
  induction p; intros. exists t. auto.
  simpl in H. destruct t; try discriminate. apply andb_true_iff in H. destruct H as [H1 H2].
  apply N.eqb_eq in H1. subst. destruct (IHp _ H2) as [w E]. subst. exists w. auto.
Qed.

Lemma prefixb_app_l : forall x p t, prefixb (x ++ p) (x ++ t) = prefixb p t.
Proof. induction x; simpl; intros; auto. rewrite N.eqb_refl. simpl. auto. Qed.

Lemma prefixb_app_true : forall p q t, prefixb (p ++ q) t = true -> prefixb p t = true.
Proof.
  induction p; intros. apply prefixb_nil.
  simpl in *. destruct t; try discriminate. apply andb_true_iff in H. destruct H. rewrite H. simpl. eauto.
Qed.

(** [p] prefix of [a ++ b]: inside [a], or it runs over into [b] *)
Lemma prefixb_app_cases : forall p a b, prefixb p (a ++ b) = true ->
  prefixb p a = true \/ exists p2, p = a ++ p2 /\ p2 <> [] /\ prefixb p2 b = true.
Proof.
  induction p; intros. left. apply prefixb_nil.
  destruct a0; simpl in *.
  - right. exists (a :: p). split; auto. split. discriminate. auto.
  - apply andb_true_iff in H. destruct H as [H1 H2]. rewrite H1. simpl.
    destruct (IHp _ _ H2) as [L | [p2 [E [N P]]]]. auto.
    right. exists p2. apply N.eqb_eq in H1. subst. auto.
Qed.

Lemma prefixb_head_neq : forall c p d t, c <> d -> prefixb (c :: p) (d :: t) = false.
Proof. intros. simpl. apply N.eqb_neq in H. rewrite H. auto. Qed.

Lemma prefixb_longer : forall p t, (List.length t < List.length p)%nat -> prefixb p t = false.
Proof.
  induction p; simpl; intros. lia. destruct t; auto. simpl in H.
  rewrite IHp. apply andb_false_r. lia.
Qed.

(** * [containsb] *)
Lemma containsb_false_suffix : forall p u1 u2, containsb p (u1 ++ u2) = false -> prefixb p u2 = false.
Proof.
  induction u1; simpl; intros.
  - destruct u2; simpl in *.
    + rewrite orb_false_r in H. auto.
    + apply orb_false_iff in H. destruct H; auto.
  - apply orb_false_iff in H. destruct H. auto.
Qed.

Lemma containsb_false_all : forall p t, (forall u1 u2, t = u1 ++ u2 -> prefixb p u2 = false) -> containsb p t = false.
Proof.
  induction t; intros H.
  - simpl. rewrite (H [] []); auto.
  - simpl. rewrite (H [] (a :: t)); auto. simpl. apply IHt. intros. apply (H (a :: u1) u2). subst. auto.
Qed.

Lemma containsb_true_ex : forall p t, containsb p t = true -> exists u1 u2, t = u1 ++ u2 /\ prefixb p u2 = true.
Proof.
  induction t; simpl; intros.
  - rewrite orb_false_r in H. exists [], []. auto.
  - apply orb_true_iff in H. destruct H.
    + exists [], (a :: t). auto.
    + destruct (IHt H) as [u1 [u2 [E P]]]. exists (a :: u1), u2. subst. auto.
Qed.

(** * occurrences that would start inside [u] when [w] follows *)
Definition nocross (old u w : str) : Prop :=
  forall u1 u2, u = u1 ++ u2 -> u2 <> [] -> prefixb old (u2 ++ w) = false.

Lemma nocross_nil : forall old w, nocross old [] w.
Proof. intros old w u1 u2 E NE. destruct u1; destruct u2; try discriminate. congruence. Qed.

Lemma nocross_tail : forall old c u w, nocross old (c :: u) w -> nocross old u w.
Proof. intros old c u w H u1 u2 E NE. apply (H (c :: u1) u2); subst; auto. Qed.

Lemma nocross_app : forall old u v w, nocross old u (v ++ w) -> nocross old v w -> nocross old (u ++ v) w.
Proof.
  induction u; simpl; intros. auto.
  intros u1 u2 E NE. destruct u1.
  - simpl in E. subst u2. simpl. rewrite <- app_assoc.
    apply (H [] (a :: u)); auto. discriminate.
  - inversion E; subst. eapply IHu; eauto. eapply nocross_tail; eauto.
Qed.

Lemma containsb_nocross : forall old u w, nocross old u w -> containsb old (u ++ w) = containsb old w.
Proof.
  induction u; simpl; intros. auto.
  pose proof (H [] (a :: u) eq_refl) as P. simpl in P. rewrite P by discriminate.
  simpl. apply IHu. eapply nocross_tail; eauto.
Qed.

Lemma containsb_hit : forall old w, containsb old (old ++ w) = true.
Proof.
  intros. destruct (old ++ w) eqn:E.
  - destruct old; try discriminate. auto.
  - simpl. rewrite <- E. rewrite prefixb_app. auto.
Qed.

(** the first character of [old] does not occur again in [u]'s tail: only
    the whole of [u] can start an occurrence *)
Lemma nocross_head : forall d o' ru w,
  ~ In d ru -> prefixb (d :: o') ((d :: ru) ++ w) = false -> nocross (d :: o') (d :: ru) w.
Proof.
  intros d o' ru w NI P u1 u2 E NE. destruct u1.
  - simpl in E. subst. auto.
  - inversion E; subst. destruct u2 as [|x u2]; try congruence. simpl.
    match goal with |- (?a =? ?b) && _ = false => destruct (N.eqb_spec a b) as [Q|Q]; auto end.
    subst. exfalso. apply NI. apply in_or_app. right. left. auto.
Qed.

Lemma nocross_nohead : forall d o' u w, ~ In d u -> nocross (d :: o') u w.
Proof.
  intros d o' u w NI u1 u2 E NE. destruct u2 as [|x u2]; try congruence. simpl.
  destruct (N.eqb_spec d x) as [Q|Q]; auto.
  subst. exfalso. apply NI. apply in_or_app. right. left. auto.
Qed.

(** a text without [var] inside, followed by something whose first character
    cannot continue a partial [var] *)
Lemma nocross_text : forall var o2 t w,
  containsb var t = false ->
  match w with [] => True | c :: _ => ~ In c (tl var) end ->
  nocross (var ++ o2) t w.
Proof.
  intros var o2 t w C G u1 u2 E NE.
  destruct (prefixb (var ++ o2) (u2 ++ w)) eqn:P; auto. exfalso.
  apply prefixb_app_true in P.
  destruct (prefixb_app_cases _ _ _ P) as [L | [p2 [E2 [N2 P2]]]].
  - subst t. rewrite (containsb_false_suffix _ _ _ C) in L. discriminate.
  - destruct p2; try congruence. destruct w; simpl in P2; try discriminate.
    apply andb_true_iff in P2. destruct P2 as [Q _]. apply N.eqb_eq in Q. subst n0.
    apply G. subst var. destruct u2; try congruence. simpl. apply in_or_app. right. left. auto.
Qed.

(** * [replace_from] *)
Lemma replace_skip : forall old new x k w,
  replace_from old new (List.length x + k) (x ++ w) = replace_from old new k w.
Proof. induction x; simpl; intros; auto. Qed.

Lemma replace_hit : forall old new w, old <> [] ->
  replace_from old new 0 (old ++ w) = new ++ replace_from old new 0 w.
Proof.
  intros. destruct old as [|c o]; try congruence. simpl app.
  change (replace_from (c :: o) new 0 (c :: o ++ w))
    with (if prefixb (c :: o) (c :: o ++ w)
          then new ++ replace_from (c :: o) new (List.length (c :: o) - 1)%nat (o ++ w)
          else c :: replace_from (c :: o) new 0 (o ++ w)).
  change (c :: o ++ w) with ((c :: o) ++ w). rewrite prefixb_app.
  simpl List.length. replace (S (List.length o) - 1)%nat with (List.length o + 0)%nat by lia.
  rewrite replace_skip. auto.
Qed.

Lemma replace_nocross : forall old new u w, nocross old u w ->
  replace_from old new 0 (u ++ w) = u ++ replace_from old new 0 w.
Proof.
  induction u; simpl; intros. auto.
  pose proof (H [] (a :: u) eq_refl) as P. simpl in P. rewrite P by discriminate.
  f_equal. apply IHu. eapply nocross_tail; eauto.
Qed.

Lemma replace_from_nil : forall old new k, replace_from old new k [] = [].
Proof. auto. Qed.

(** * [split_on] / [join] *)
Lemma split_on_notin : forall c t, ~ In c t -> split_on c t = [t].
Proof.
  induction t; simpl; intros. auto.
  destruct (N.eqb a c) eqn:E. apply N.eqb_eq in E. subst. tauto.
  rewrite IHt; tauto.
Qed.

Lemma split_on_nonnil : forall c t, split_on c t <> [].
Proof.
  induction t; simpl. discriminate. destruct (N.eqb a c). discriminate.
  destruct (split_on c t); discriminate.
Qed.

Lemma split_on_app : forall c a b, split_on c (a ++ c :: b) = split_on c a ++ split_on c b.
Proof.
  induction a; simpl; intros.
  - rewrite N.eqb_refl. auto.
  - destruct (N.eqb a c) eqn:E.
    + rewrite IHa. auto.
    + rewrite IHa. destruct (split_on c a0) eqn:S. destruct (split_on_nonnil _ _ S). auto.
Qed.

(** appending text without the separator extends the last field *)
Lemma split_on_app_notin : forall c a b, ~ In c a ->
  split_on c (a ++ b) = match split_on c b with w :: ws => (a ++ w) :: ws | [] => [a] end.
Proof.
  induction a; simpl; intros.
  - destruct (split_on c b) eqn:S; auto. destruct (split_on_nonnil _ _ S).
  - destruct (N.eqb a c) eqn:E. apply N.eqb_eq in E. subst. tauto.
    rewrite IHa by tauto. destruct (split_on c b) eqn:S; auto.
Qed.

Lemma join_cons : forall sep a l, l <> [] -> join sep (a :: l) = a ++ sep ++ join sep l.
Proof. intros. destruct l; try congruence. auto. Qed.

Lemma join_app : forall sep l1 l2, l1 <> [] -> l2 <> [] ->
  join sep (l1 ++ l2) = join sep l1 ++ sep ++ join sep l2.
Proof.
  induction l1; intros. congruence.
  destruct l1.
  - simpl app. rewrite join_cons by auto. auto.
  - change ((a :: s :: l1) ++ l2) with (a :: ((s :: l1) ++ l2)).
    rewrite join_cons by (simpl; discriminate). rewrite IHl1 by (auto; discriminate).
    rewrite (join_cons sep a (s :: l1)) by discriminate. repeat rewrite <- app_assoc. auto.
Qed.

Lemma join_split : forall c t, join [c] (split_on c t) = t.
Proof.
  induction t; simpl. auto.
  destruct (N.eqb a c) eqn:E.
  - apply N.eqb_eq in E. subst. rewrite join_cons by apply split_on_nonnil. simpl. rewrite IHt. auto.
  - destruct (split_on c t) eqn:S. destruct (split_on_nonnil _ _ S).
    destruct l; simpl in *; rewrite <- IHt; auto.
Qed.

Lemma split_join : forall c l, l <> [] ->
  split_on c (join [c] l) = flat_map (split_on c) l.
Proof.
  induction l; intros. congruence. destruct l as [|s0 l].
  - simpl. rewrite app_nil_r. auto.
  - rewrite join_cons by discriminate.
    change ([c] ++ join [c] (s0 :: l)) with (c :: join [c] (s0 :: l)). rewrite split_on_app.
    rewrite IHl by discriminate. auto.
Qed.

(** * digits *)
Lemma is_digit_not_ws : forall c, is_digit c = true -> is_ws c = false.
Proof.
  intros c H. unfold is_digit in H. apply andb_true_iff in H. destruct H as [H1 H2].
  apply N.leb_le in H1. apply N.leb_le in H2. unfold is_ws.
  repeat (apply orb_false_iff; split); try (apply N.eqb_neq; lia);
    apply andb_false_iff; (left; apply N.leb_gt; lia) || (right; apply N.leb_gt; lia).
Qed.

Lemma lstrip_digit_head : forall c t, is_digit c = true -> lstrip (c :: t) = c :: t.
Proof. intros. simpl. rewrite is_digit_not_ws; auto. Qed.

Lemma forallb_app_iff {A} (f : A -> bool) a b : forallb f (a ++ b) = true <-> forallb f a = true /\ forallb f b = true.
Proof. rewrite forallb_app. apply andb_true_iff. Qed.

Lemma lstrip_noop : forall t, match t with c :: _ => is_ws c = false | [] => True end -> lstrip t = t.
Proof. destruct t; simpl; intros; auto. rewrite H. auto. Qed.

Lemma strip_digits : forall t, forallb is_digit t = true -> strip t = t.
Proof.
  intros. unfold strip. destruct t. auto.
  simpl in H. apply andb_true_iff in H. destruct H as [H1 H2].
  rewrite lstrip_digit_head by auto.
  assert (R : forallb is_digit (rev (n :: t)) = true).
  { apply forallb_forall. intros x I. apply in_rev in I. destruct I. subst; auto.
    rewrite forallb_forall in H2. auto. }
  destruct (rev (n :: t)) eqn:E.
  - simpl. apply (f_equal (@rev N)) in E. rewrite rev_involutive in E. auto.
  - simpl in R. apply andb_true_iff in R. destruct R as [R1 _].
    rewrite lstrip_digit_head by auto. rewrite <- E. apply rev_involutive.
Qed.

(** value of a digit string *)
Fixpoint dval (acc : N) (t : str) : N :=
  match t with [] => acc | c :: t' => dval (acc * 10 + (c - 48)) t' end.

Lemma digits_val_digits : forall t acc, forallb is_digit t = true -> digits_val acc t = Some (dval acc t).
Proof.
  induction t; simpl; intros. auto.
  apply andb_true_iff in H. destruct H as [H1 H2]. rewrite H1. auto.
Qed.

Lemma py_nat_digits : forall t, all_digits t = true -> py_nat t = Some (dval 0 t).
Proof.
  intros. unfold all_digits in H. destruct t; try discriminate.
  unfold py_nat. pose proof H as H'. simpl in H'. apply andb_true_iff in H'. destruct H' as [H1 _].
  rewrite H1. apply digits_val_digits. auto.
Qed.

Lemma all_digits_forall : forall t, all_digits t = true -> forallb is_digit t = true.
Proof. destruct t; simpl; auto. Qed.

Lemma all_digits_nonnil : forall t, all_digits t = true -> t <> [].
Proof. destruct t; simpl; intros; discriminate. Qed.

Lemma py_int_digits : forall t, all_digits t = true -> py_int t = Some (Z.of_N (dval 0 t)).
Proof.
  intros. unfold py_int. rewrite strip_digits by (apply all_digits_forall; auto).
  pose proof (py_nat_digits _ H) as P.
  destruct t; try discriminate. simpl in H. apply andb_true_iff in H. destruct H as [H1 _].
  unfold is_digit in H1. apply andb_true_iff in H1. destruct H1 as [A B].
  apply N.leb_le in A. apply N.leb_le in B.
  destruct (N.eq_dec n 45). lia. destruct (N.eq_dec n 43). lia.
  destruct n; try lia. destruct p; try lia; destruct p; try lia; destruct p; try lia;
    destruct p; try lia; destruct p; try lia; try (destruct p; try lia); rewrite P; auto.
Qed.

(** * dictionaries *)
Lemma lookup_app {A} : forall k (d1 d2 : list (str * A)),
  lookup k (d1 ++ d2) = match lookup k d1 with Some v => Some v | None => lookup k d2 end.
Proof.
  induction d1; simpl; intros. auto. destruct a as [k' v]. destruct (str_eqb k k'); auto.
Qed.

Lemma has_false_lookup {A} : forall k (d : list (str * A)), has k d = false -> lookup k d = None.
Proof. unfold has. intros. destruct (lookup k d); auto. discriminate. Qed.


(** C15 proofs, part 2: the documented launcher-token forms are parsed to the
    counts they spell, and [_substitute_parallel_command] (model
    [Launcher.substitute]) replaces every launcher piece of a well-formed
    command by a launcher invocation -- or rejects exactly the commands
    the allocation rule [Readers.alloc_rejected] rejects. *)
From Coq Require Import List Arith NArith ZArith Bool Lia.
From MWF Require Import Base.Str Gen.HeaderData Sched.Header Sched.Launcher Sched.Readers
  Sched.StrFacts Sched.SegProofs.
Import ListNotations.
Local Open Scope N_scope.
Local Open Scope list_scope.

(** * characters *)
Lemma digit_bounds : forall c, is_digit c = true -> 48 <= c /\ c <= 57.
Proof.
  intros c H. unfold is_digit in H. apply andb_true_iff in H. destruct H as [A B].
  apply N.leb_le in A. apply N.leb_le in B. auto.
Qed.
Lemma not_digit : forall c, (c < 48 \/ 57 < c) -> is_digit c = false.
Proof.
  intros c H. unfold is_digit. apply andb_false_iff.
  destruct H; [left|right]; apply N.leb_gt; auto.
Qed.
Ltac nd := apply not_digit; lia.

Lemma digits_alloc : forall d, forallb is_digit d = true -> alloc_ok d = true.
Proof.
  intros d H. unfold alloc_ok. apply forallb_forall. intros c I. rewrite forallb_forall in H.
  apply H in I. apply digit_bounds in I. unfold alloc_char, dollar, rbr, nl.
  repeat (apply andb_true_iff; split); apply negb_true_iff; apply N.eqb_neq; lia.
Qed.
Lemma blanks_alloc : forall k, alloc_ok (blanks k) = true.
Proof. induction k; simpl; auto. Qed.
Lemma alloc_ok_app : forall a b, alloc_ok a = true -> alloc_ok b = true -> alloc_ok (a ++ b) = true.
Proof. intros. unfold alloc_ok in *. rewrite forallb_app. rewrite H, H0. auto. Qed.

Lemma tok_wf_parts : forall f, tok_wf f = true ->
  all_digits (tok_procs f) = true /\ match tok_nodes f with Some n => all_digits n = true | None => True end.
Proof.
  intros f H. unfold tok_wf in H. apply andb_true_iff in H. destruct H as [H1 H2].
  split; auto. destruct (tok_nodes f); auto.
Qed.

Lemma alloc_text_ok : forall f, tok_wf f = true -> alloc_ok (alloc_text f) = true.
Proof.
  intros f H. destruct (tok_wf_parts f H) as [P Nn].
  destruct f; simpl in *; repeat apply alloc_ok_app;
    auto using digits_alloc, all_digits_forall, blanks_alloc.
Qed.

(** * [span_digits], [search_count], [search_legacy] *)
Lemma span_digits_stop : forall d c r, forallb is_digit d = true -> is_digit c = false ->
  span_digits (d ++ c :: r) = (d, c :: r).
Proof.
  induction d; simpl; intros. rewrite H0. auto.
  apply andb_true_iff in H. destruct H as [H1 H2]. rewrite H1. rewrite IHd; auto.
Qed.
Lemma span_digits_all : forall d, forallb is_digit d = true -> span_digits d = (d, []).
Proof.
  induction d; simpl; intros. auto.
  apply andb_true_iff in H. destruct H as [H1 H2]. rewrite H1. rewrite IHd; auto.
Qed.
Lemma span_digits_nondigit : forall c r, is_digit c = false -> span_digits (c :: r) = ([], c :: r).
Proof. intros. simpl. rewrite H. auto. Qed.

Lemma search_count_unfold : forall x c t',
  search_count x (c :: t') =
  match span_digits (c :: t') with
  | ((_ :: _) as d, y :: _) => if y =? x then Some d else search_count x t'
  | _ => search_count x t'
  end.
Proof. reflexivity. Qed.

Lemma search_count_skip_digits : forall x d c r, forallb is_digit d = true -> is_digit c = false -> c <> x ->
  search_count x (d ++ c :: r) = search_count x (c :: r).
Proof.
  induction d; intros. auto.
  change ((a :: d) ++ c :: r) with (a :: (d ++ c :: r)). rewrite search_count_unfold.
  change (a :: d ++ c :: r) with ((a :: d) ++ c :: r). rewrite span_digits_stop by auto.
  apply N.eqb_neq in H1. rewrite H1. simpl in H. apply andb_true_iff in H. destruct H.
  apply IHd; auto. apply N.eqb_neq. auto.
Qed.
Lemma search_count_skip_char : forall x c r, is_digit c = false -> search_count x (c :: r) = search_count x r.
Proof. intros. rewrite search_count_unfold. rewrite span_digits_nondigit by auto. auto. Qed.
Lemma search_count_skip_blanks : forall x k r, search_count x (blanks k ++ r) = search_count x r.
Proof.
  induction k; intros. auto. change (blanks (S k) ++ r) with (32 :: (blanks k ++ r)).
  rewrite search_count_skip_char by nd. auto.
Qed.
Lemma search_count_hit : forall x d r, all_digits d = true -> is_digit x = false ->
  search_count x (d ++ x :: r) = Some d.
Proof.
  intros. destruct d as [|a d]. discriminate.
  change ((a :: d) ++ x :: r) with (a :: (d ++ x :: r)). rewrite search_count_unfold.
  change (a :: d ++ x :: r) with ((a :: d) ++ x :: r). rewrite span_digits_stop; auto.
  rewrite N.eqb_refl. auto.
Qed.
Lemma search_count_nil : forall x, search_count x [] = None.
Proof. auto. Qed.

Lemma search_legacy_unfold : forall c t',
  search_legacy (c :: t') =
  match span_digits (c :: t') with
  | (_ :: _, 44 :: r) => match lstrip r with e :: _ => is_digit e | [] => false end
  | _ => false
  end || search_legacy t'.
Proof. reflexivity. Qed.

Ltac match_const :=
  intros; match goal with
  | |- context [?c =? ?k] =>
    destruct (N.eqb_spec c k) as [->|NE]; [reflexivity|];
    destruct c as [|p]; [reflexivity|];
    repeat (destruct p as [p|p|]; try reflexivity); exfalso; apply NE; reflexivity
  end.
Lemma match_44 : forall (c : N) (A : Type) (x y : A),
  match c with 44 => x | _ => y end = if c =? 44 then x else y.
Proof. match_const. Qed.

Lemma search_legacy_skip_digits : forall d c r, forallb is_digit d = true -> is_digit c = false -> c <> 44 ->
  search_legacy (d ++ c :: r) = search_legacy (c :: r).
Proof.
  induction d; intros. auto.
  change ((a :: d) ++ c :: r) with (a :: (d ++ c :: r)). rewrite search_legacy_unfold.
  change (a :: d ++ c :: r) with ((a :: d) ++ c :: r). rewrite span_digits_stop by auto.
  simpl in H. apply andb_true_iff in H. destruct H.
  rewrite IHd by auto. rewrite match_44. apply N.eqb_neq in H1. rewrite H1. auto.
Qed.
Lemma search_legacy_skip_char : forall c r, is_digit c = false -> search_legacy (c :: r) = search_legacy r.
Proof. intros. rewrite search_legacy_unfold. rewrite span_digits_nondigit by auto. auto. Qed.
Lemma search_legacy_skip_blanks : forall k r, search_legacy (blanks k ++ r) = search_legacy r.
Proof.
  induction k; intros. auto. change (blanks (S k) ++ r) with (32 :: (blanks k ++ r)).
  rewrite search_legacy_skip_char by nd. auto.
Qed.
Lemma search_legacy_digits_end : forall d, forallb is_digit d = true -> search_legacy d = false.
Proof.
  induction d; intros. auto. rewrite search_legacy_unfold. rewrite span_digits_all by auto.
  simpl in H. apply andb_true_iff in H. destruct H. rewrite IHd; auto.
Qed.

Lemma lstrip_blanks : forall k r, lstrip (blanks k ++ r) = lstrip r.
Proof. induction k; simpl; intros; auto. Qed.

Lemma search_legacy_hit : forall n k p r, all_digits n = true -> all_digits p = true ->
  search_legacy (n ++ 44 :: blanks k ++ p ++ r) = true.
Proof.
  intros. destruct n as [|a n]. discriminate.
  change ((a :: n) ++ 44 :: blanks k ++ p ++ r) with (a :: (n ++ 44 :: blanks k ++ p ++ r)).
  rewrite search_legacy_unfold.
  change (a :: n ++ 44 :: blanks k ++ p ++ r) with ((a :: n) ++ 44 :: blanks k ++ p ++ r).
  rewrite span_digits_stop; auto; try nd.
  rewrite lstrip_blanks. destruct p as [|e p]. discriminate.
  simpl in H0. apply andb_true_iff in H0. destruct H0 as [D _].
  simpl app. rewrite lstrip_digit_head by auto. rewrite D. auto.
Qed.

(** * [count_char] *)
Lemma count_char_app : forall c a b, count_char c (a ++ b) = (count_char c a + count_char c b)%nat.
Proof. intros. unfold count_char. rewrite filter_app, app_length. auto. Qed.
Lemma count_char_digits : forall c d, is_digit c = false -> forallb is_digit d = true -> count_char c d = 0%nat.
Proof.
  induction d; intros. auto. simpl in H0. apply andb_true_iff in H0. destruct H0 as [D1 D2].
  unfold count_char in *. simpl. destruct (N.eqb_spec c a). subst. congruence. apply IHd; auto.
Qed.
Lemma count_char_blanks : forall c k, c <> 32 -> count_char c (blanks k) = 0%nat.
Proof.
  induction k; intros. auto. unfold count_char in *. simpl.
  destruct (N.eqb_spec c 32). contradiction. apply IHk; auto.
Qed.

(** * the four documented forms *)
Definition tok_vals (f : tokform) : val * val :=
  match f with
  | TNP n p _ => (VStr n, VStr p)
  | TPN p n _ => (VStr n, VStr p)
  | TP p => (VNone, VStr p)
  | TLegacy n p sp => (VStr n, VStr (blanks sp ++ p))
  end.

Lemma is_digit_110 : is_digit 110 = false. Proof. reflexivity. Qed.
Lemma is_digit_112 : is_digit 112 = false. Proof. reflexivity. Qed.
Lemma is_digit_44 : is_digit 44 = false. Proof. reflexivity. Qed.

Lemma parse_alloc_form : forall f, tok_wf f = true -> parse_alloc (alloc_text f) = Ok (tok_vals f).
Proof.
  intros f H. destruct (tok_wf_parts f H) as [P Nn].
  destruct f as [n p sp | p n sp | p | n p sp]; simpl in P, Nn; unfold parse_alloc; simpl alloc_text.
  - (* [Nn, Pp] *)
    set (txt := n ++ 110 :: 44 :: blanks sp ++ p ++ [112]).
    assert (L : search_legacy txt = false).
    { unfold txt. rewrite search_legacy_skip_digits by (auto using all_digits_forall; try nd; discriminate).
      rewrite search_legacy_skip_char by nd. rewrite search_legacy_skip_char by nd.
      rewrite search_legacy_skip_blanks. rewrite search_legacy_skip_digits by (auto using all_digits_forall; try nd; discriminate).
      reflexivity. }
    rewrite L.
    assert (CP : count_char 112 txt = 1%nat).
    { unfold txt. change (n ++ 110 :: 44 :: blanks sp ++ p ++ [112]) with (n ++ [110; 44] ++ blanks sp ++ p ++ [112]).
      rewrite !count_char_app. rewrite (count_char_digits _ n), (count_char_digits _ p) by (auto using all_digits_forall).
      rewrite count_char_blanks by discriminate. reflexivity. }
    assert (CN : count_char 110 txt = 1%nat).
    { unfold txt. change (n ++ 110 :: 44 :: blanks sp ++ p ++ [112]) with (n ++ [110; 44] ++ blanks sp ++ p ++ [112]).
      rewrite !count_char_app. rewrite (count_char_digits _ n), (count_char_digits _ p) by (auto using all_digits_forall).
      rewrite count_char_blanks by discriminate. reflexivity. }
    rewrite CP, CN. simpl. unfold txt.
    rewrite search_count_hit by auto.
    rewrite search_count_skip_digits by (auto using all_digits_forall; discriminate).
    rewrite search_count_skip_char by nd. rewrite search_count_skip_char by nd.
    rewrite search_count_skip_blanks. rewrite search_count_hit by auto. reflexivity.
  - (* [Pp, Nn] *)
    set (txt := p ++ 112 :: 44 :: blanks sp ++ n ++ [110]).
    assert (L : search_legacy txt = false).
    { unfold txt. rewrite search_legacy_skip_digits by (auto using all_digits_forall; try nd; discriminate).
      rewrite search_legacy_skip_char by nd. rewrite search_legacy_skip_char by nd.
      rewrite search_legacy_skip_blanks. rewrite search_legacy_skip_digits by (auto using all_digits_forall; try nd; discriminate).
      reflexivity. }
    rewrite L.
    assert (CP : count_char 112 txt = 1%nat).
    { unfold txt. change (p ++ 112 :: 44 :: blanks sp ++ n ++ [110]) with (p ++ [112; 44] ++ blanks sp ++ n ++ [110]).
      rewrite !count_char_app. rewrite (count_char_digits _ n), (count_char_digits _ p) by (auto using all_digits_forall).
      rewrite count_char_blanks by discriminate. reflexivity. }
    assert (CN : count_char 110 txt = 1%nat).
    { unfold txt. change (p ++ 112 :: 44 :: blanks sp ++ n ++ [110]) with (p ++ [112; 44] ++ blanks sp ++ n ++ [110]).
      rewrite !count_char_app. rewrite (count_char_digits _ n), (count_char_digits _ p) by (auto using all_digits_forall).
      rewrite count_char_blanks by discriminate. reflexivity. }
    rewrite CP, CN. simpl. unfold txt.
    rewrite (search_count_hit 112) by auto.
    rewrite search_count_skip_digits by (auto using all_digits_forall; discriminate).
    rewrite search_count_skip_char by nd. rewrite search_count_skip_char by nd.
    rewrite search_count_skip_blanks. rewrite search_count_hit by auto. reflexivity.
  - (* [Pp] *)
    assert (L : search_legacy (p ++ [112]) = false).
    { rewrite search_legacy_skip_digits by (auto using all_digits_forall; try nd; discriminate). reflexivity. }
    rewrite L.
    assert (CP : count_char 112 (p ++ [112]) = 1%nat).
    { rewrite !count_char_app. rewrite (count_char_digits _ p) by (auto using all_digits_forall). reflexivity. }
    assert (CN : count_char 110 (p ++ [112]) = 0%nat).
    { rewrite !count_char_app. rewrite (count_char_digits _ p) by (auto using all_digits_forall). reflexivity. }
    rewrite CP, CN. simpl.
    rewrite search_count_skip_digits by (auto using all_digits_forall; discriminate).
    rewrite search_count_skip_char by nd. rewrite search_count_nil.
    rewrite search_count_hit by auto. reflexivity.
  - (* legacy [N, P] *)
    assert (L : search_legacy (n ++ 44 :: blanks sp ++ p) = true).
    { rewrite <- (app_nil_r p). apply search_legacy_hit; auto. }
    rewrite L. rewrite split_on_app.
    rewrite split_on_notin.
    2:{ intro I. apply all_digits_forall in Nn. rewrite forallb_forall in Nn. apply Nn in I. discriminate I. }
    rewrite split_on_notin.
    2:{ intro I. apply in_app_or in I. destruct I as [I|I].
        - clear - I. induction sp; simpl in I. auto. destruct I. discriminate. auto.
        - apply all_digits_forall in P. rewrite forallb_forall in P. apply P in I. discriminate I. }
    reflexivity.
Qed.

(** * what a token asks for, as numbers *)
Definition tok_n (f : tokform) : N := match tok_nodes f with Some n => dval 0 n | None => 0 end.
Definition tok_p (f : tokform) : N := dval 0 (tok_procs f).

Lemma dec_val_digits : forall t, all_digits t = true -> dec_val t = dval 0 t.
Proof. intros. unfold dec_val. rewrite py_nat_digits; auto. Qed.

Lemma truthy_digits : forall d, all_digits d = true -> truthy (VStr d) = true.
Proof. intros. destruct d; try discriminate. auto. Qed.

Lemma int_of_digits : forall d, all_digits d = true -> int_of (VStr d) = Ok (Z.of_N (dval 0 d)).
Proof. intros. simpl. rewrite py_int_digits; auto. Qed.

Lemma strip_blanks_digits : forall k d, all_digits d = true -> strip (blanks k ++ d) = d.
Proof.
  intros. unfold strip. rewrite lstrip_blanks. pose proof (strip_digits d (all_digits_forall _ H)) as S.
  unfold strip in S. auto.
Qed.

Lemma int_of_blanks_digits : forall k d, all_digits d = true ->
  int_of (VStr (blanks k ++ d)) = Ok (Z.of_N (dval 0 d)).
Proof.
  intros. rewrite <- int_of_digits by auto. simpl. unfold py_int.
  rewrite strip_blanks_digits by auto. rewrite strip_digits by (apply all_digits_forall; auto). auto.
Qed.

Lemma exceeds_Z : forall mx x,
  (negb (Z.of_N mx =? 0)%Z && (Z.of_N mx <? Z.of_N x)%Z) = exceeds mx x.
Proof.
  intros. unfold exceeds. f_equal.
  - f_equal. destruct (Z.eqb_spec (Z.of_N mx) 0); destruct (N.eqb_spec mx 0); auto; lia.
  - destruct (Z.ltb_spec (Z.of_N mx) (Z.of_N x)); destruct (N.ltb_spec mx x); auto; lia.
Qed.

Lemma exceeds_0 : forall mx, exceeds mx 0 = false.
Proof. intros. unfold exceeds. destruct mx; auto. Qed.

Definition tok_exceeds (nn pp : N) (f : tokform) : bool :=
  exceeds pp (tok_p f) || match tok_nodes f with Some n => exceeds nn (dval 0 n) | None => false end.

Lemma check_tok : forall nn pp f, tok_wf f = true ->
  check_one (Z.of_N nn) (fst (tok_vals f)) = Ok (Z.of_N (tok_n f), match tok_nodes f with Some n => exceeds nn (dval 0 n) | None => false end)
  /\ check_one (Z.of_N pp) (snd (tok_vals f)) = Ok (Z.of_N (tok_p f), exceeds pp (tok_p f)).
Proof.
  intros nn pp f H. destruct (tok_wf_parts f H) as [P Nn]. unfold check_one, tok_n, tok_p.
  destruct f as [n p sp | p n sp | p | n p sp]; simpl in P, Nn; simpl tok_vals; simpl fst; simpl snd;
    simpl tok_nodes; simpl tok_procs; cbv iota.
  - rewrite !truthy_digits by auto. rewrite !int_of_digits by auto. simpl. rewrite !exceeds_Z. auto.
  - rewrite !truthy_digits by auto. rewrite !int_of_digits by auto. simpl. rewrite !exceeds_Z. auto.
  - rewrite !truthy_digits by auto. rewrite !int_of_digits by auto. simpl. rewrite !exceeds_Z. auto.
  - rewrite !truthy_digits by auto. rewrite !int_of_digits by auto.
    assert (T : truthy (VStr (blanks sp ++ p)) = true).
    { destruct p. discriminate. destruct sp; auto. }
    rewrite T. rewrite int_of_blanks_digits by auto. simpl. rewrite !exceeds_Z. auto.
Qed.

(** * pieces as segments *)
Definition seg_of (p : piece) : seg :=
  match p with PText t => SText t | PBare => SVar | PTok f => STok (alloc_text f) end.

Lemma pieces_text_segs : forall ps, pieces_text ps = segs_text (map seg_of ps).
Proof.
  induction ps; simpl. auto. unfold pieces_text in *. simpl. rewrite IHps.
  destruct a; auto.
Qed.

Lemma match_lbr : forall (c : N) (A : Type) (x y : A),
  match c with 91 => x | _ => y end = if c =? lbr then x else y.
Proof. unfold lbr. match_const. Qed.

Lemma pieces_wf_segs_ok : forall ps, pieces_wf ps = true -> segs_ok (map seg_of ps) = true.
Proof.
  induction ps as [|p r]; intros H. auto.
  destruct p; simpl in H.
  - repeat (apply andb_true_iff in H; destruct H as [H ?]).
    simpl. rewrite H. rewrite IHr by auto.
    assert (E1 : is_nil t = false) by (destruct t; auto; discriminate). rewrite E1.
    assert (E2 : starts_text (map seg_of r) = false).
    { destruct r as [|q r]; auto. destruct q; auto; discriminate. }
    rewrite E2. auto.
  - apply andb_true_iff in H. destruct H as [H1 H2].
    change (map seg_of (PBare :: r)) with (SVar :: map seg_of r).
    change (segs_ok (SVar :: map seg_of r)) with
      (match map seg_of r with SText (c :: _) :: _ => negb (c =? lbr) | _ => true end && segs_ok (map seg_of r)).
    rewrite IHr by auto. rewrite andb_true_r.
    destruct r as [|q r]; auto. destruct q; auto. destruct t as [|c t]; auto. simpl.
    rewrite (match_lbr c bool false true) in H1. destruct (c =? lbr); auto.
  - apply andb_true_iff in H. destruct H as [H1 H2]. simpl. rewrite IHr by auto.
    rewrite alloc_text_ok; auto.
Qed.

Lemma toks_segs_of : forall ps, toks_segs (map seg_of ps) = map alloc_text (toks_of ps).
Proof.
  induction ps as [|p r]; simpl. auto. unfold toks_of in *. simpl. destruct p; simpl; rewrite <- IHr; auto.
Qed.

Lemma toks_of_wf : forall ps, pieces_wf ps = true -> forallb tok_wf (toks_of ps) = true.
Proof.
  induction ps as [|p r]; intros H. auto. unfold toks_of in *. destruct p; simpl in *.
  - repeat (apply andb_true_iff in H; destruct H as [H ?]). auto.
  - apply andb_true_iff in H. destruct H. auto.
  - apply andb_true_iff in H. destruct H. rewrite H. auto.
Qed.

(** * the substitution loop *)
Section Loop.
  Variable par : val -> val -> res str.  (* get_parallelize_command *)
  Variable tsub : tokform -> str.        (* what it returns for a token's counts *)
  Variable nn pp : N.                    (* the step's totals *)
  Hypothesis par_tok : forall f, tok_wf f = true ->
    par (snd (tok_vals f)) (fst (tok_vals f)) = Ok (tsub f).
  Hypothesis tsub_ok : forall f, tok_wf f = true -> sub_ok (tsub f) = true.

  Definition loop_step (l : list seg) (f : tokform) : list seg :=
    map (sub_tok (alloc_text f) (tsub f)) l.

  Definition sumZ (g : tokform -> N) (fs : list tokform) : Z :=
    fold_right (fun f z => (Z.of_N (g f) + z)%Z) 0%Z fs.

  Lemma segs_ok_fold : forall fs l, forallb tok_wf fs = true -> segs_ok l = true ->
    segs_ok (fold_left loop_step fs l) = true.
  Proof.
    induction fs; simpl; intros. auto. apply andb_true_iff in H. destruct H.
    apply IHfs; auto. apply segs_ok_sub_tok; auto.
  Qed.

  Lemma subst_loop_spec : forall fs l tn0 tp0, forallb tok_wf fs = true -> segs_ok l = true ->
    subst_loop par (Z.of_N nn) (Z.of_N pp) (map alloc_text fs) tn0 tp0 (segs_text l) =
    if existsb (tok_exceeds nn pp) fs then Err Diag
    else Ok ((tn0 + sumZ tok_n fs)%Z, (tp0 + sumZ tok_p fs)%Z, segs_text (fold_left loop_step fs l)).
  Proof.
    induction fs as [|f fs]; intros l tn0 tp0 W S.
    - simpl. rewrite !Z.add_0_r. auto.
    - simpl in W. apply andb_true_iff in W. destruct W as [W1 W2].
      simpl map. simpl subst_loop. rewrite parse_alloc_form by auto. simpl bind.
      destruct (check_tok nn pp f W1) as [CN CP]. rewrite CN, CP. simpl bind. cbv beta iota.
      simpl fst. simpl snd. simpl existsb. unfold tok_exceeds at 1.
      rewrite (orb_comm (exceeds pp (tok_p f))).
      destruct (match tok_nodes f with Some n => exceeds nn (dval 0 n) | None => false end
                || exceeds pp (tok_p f)) eqn:E.
      + auto.
      + rewrite par_tok by auto. simpl bind.
        rewrite replace_from_tok_segs by (auto using alloc_text_ok).
        change (map (sub_tok (alloc_text f) (tsub f)) l) with (loop_step l f).
        rewrite IHfs; auto.
        * simpl. destruct (existsb (tok_exceeds nn pp) fs); auto.
          f_equal. f_equal. f_equal; lia.
        * unfold loop_step. apply segs_ok_sub_tok; auto.
  Qed.

  (** the loop as a single map *)
  Definition sub_all (fs : list tokform) (x : seg) : seg :=
    match x with
    | STok a => match find (fun f => str_eqb (alloc_text f) a) fs with
                | Some f => SSub (tsub f)
                | None => x
                end
    | _ => x
    end.

  Lemma fold_sub_all : forall fs l, fold_left loop_step fs l = map (sub_all fs) l.
  Proof.
    induction fs as [|f fs]; intros l.
    - simpl. rewrite <- (map_id l) at 1. apply map_ext. intros x. destruct x; auto.
    - simpl. rewrite IHfs. unfold loop_step. rewrite map_map. apply map_ext.
      intros x. destruct x; simpl; auto.
      destruct (str_eqb (alloc_text f) a); auto.
  Qed.

  (** same text, same substitution *)
  Lemma tsub_text : forall f g, tok_wf f = true -> tok_wf g = true -> alloc_text f = alloc_text g ->
    tsub f = tsub g.
  Proof.
    intros f g Wf Wg E.
    pose proof (parse_alloc_form f Wf) as Pf. pose proof (parse_alloc_form g Wg) as Pg.
    rewrite E in Pf. rewrite Pf in Pg. inversion Pg as [V].
    pose proof (par_tok f Wf) as A. pose proof (par_tok g Wg) as B. rewrite V in A. rewrite A in B.
    inversion B. auto.
  Qed.

  Variable nodes procs : val.            (* what a bare variable gets *)
  Variable bsub : str.

  Definition final_seg (p : piece) : seg :=
    match p with
    | PText t => SText t
    | PBare => SSub bsub
    | PTok f => SSub (tsub f)
    end.
  Definition mid_seg (p : piece) : seg :=
    match p with PTok f => SSub (tsub f) | _ => seg_of p end.

  Lemma sub_all_pieces : forall ps, pieces_wf ps = true ->
    map (sub_all (toks_of ps)) (map seg_of ps) = map mid_seg ps.
  Proof.
    intros ps W. pose proof (toks_of_wf ps W) as TW.
    rewrite map_map. apply map_ext_in. intros p I. destruct p; simpl; auto.
    assert (If : In f (toks_of ps)).
    { unfold toks_of. apply in_flat_map. exists (PTok f). split; auto. simpl. auto. }
    destruct (find (fun f0 => str_eqb (alloc_text f0) (alloc_text f)) (toks_of ps)) eqn:F.
    - apply find_some in F. destruct F as [F1 F2]. apply str_eqb_eq in F2.
      rewrite forallb_forall in TW. f_equal. apply tsub_text; auto.
    - exfalso. pose proof (find_none _ _ F f If) as Q. simpl in Q. rewrite str_eqb_refl in Q. discriminate.
  Qed.

  Lemma mid_seg_ok : forall ps, pieces_wf ps = true -> segs_ok (map mid_seg ps) = true.
  Proof.
    intros. rewrite <- sub_all_pieces by auto. rewrite <- fold_sub_all.
    apply segs_ok_fold. apply toks_of_wf; auto. apply pieces_wf_segs_ok; auto.
  Qed.

  Lemma mid_no_tok : forall ps, existsb is_tok (map mid_seg ps) = false.
  Proof. induction ps as [|p r]; simpl; auto. destruct p; simpl; auto. Qed.

  Lemma final_of_mid : forall ps, map (sub_var bsub) (map mid_seg ps) = map final_seg ps.
  Proof. intros. rewrite map_map. apply map_ext. intros p. destruct p; auto. Qed.

  Lemma mid_has_var : forall ps,
    existsb (fun x => is_var x || is_tok x) (map mid_seg ps) = has_bare ps.
  Proof. unfold has_bare. induction ps as [|p r]; simpl; auto. destruct p; simpl; auto. Qed.

  Lemma final_no_bare : forall ps, has_bare ps = false -> map final_seg ps = map mid_seg ps.
  Proof.
    unfold has_bare. induction ps as [|p r]; simpl; intros; auto.
    destruct p; simpl in *; try discriminate; rewrite IHr; auto.
  Qed.

  Lemma final_seg_ok : forall ps, sub_ok bsub = true -> pieces_wf ps = true -> segs_ok (map final_seg ps) = true.
  Proof.
    intros ps BS W. pose proof (mid_seg_ok ps W) as M. clear W.
    induction ps as [|p r]. auto.
    pose proof (segs_ok_tail _ _ M) as Mr. specialize (IHr Mr).
    assert (ST : starts_text (map final_seg r) = starts_text (map mid_seg r)).
    { destruct r as [|q r]; auto. destruct q; auto. }
    destruct p; simpl map in *.
    - simpl in *. rewrite ST, IHr. repeat (apply andb_true_iff in M; destruct M as [M ?]).
      rewrite M, H0, H1. auto.
    - simpl. rewrite BS, IHr. auto.
    - simpl in *. rewrite IHr. apply andb_true_iff in M. destruct M as [M _]. rewrite M. auto.
  Qed.

  Hypothesis max_nodes : max_of nodes = Ok (Z.of_N nn).
  Hypothesis max_procs : max_of procs = Ok (Z.of_N pp).

  Definition rejects (ps : list piece) : bool :=
    existsb (tok_exceeds nn pp) (toks_of ps)
    || exceeds pp (sum_N (map tok_p (toks_of ps)))
    || exceeds nn (sum_N (map tok_n (toks_of ps))).

  Lemma sumZ_sum_N : forall g fs, sumZ g fs = Z.of_N (sum_N (map g fs)).
  Proof. induction fs; simpl. auto. rewrite IHfs. unfold sum_N. simpl. lia. Qed.

  (** _substitute_parallel_command on a well-formed command; the launcher
      invocation for the bare variable is only built when there is one *)
  Theorem substitute_spec : forall ps, pieces_wf ps = true ->
    (has_bare ps = true -> par procs nodes = Ok bsub) ->
    substitute par nodes procs (pieces_text ps) =
    if rejects ps then Err Diag else Ok (segs_text (map final_seg ps)).
  Proof.
    intros ps W HB. pose proof (pieces_wf_segs_ok ps W) as S. pose proof (toks_of_wf ps W) as TW.
    unfold substitute. rewrite pieces_text_segs. rewrite scan_segs by auto. rewrite toks_segs_of.
    destruct (toks_of ps) as [|f fs] eqn:T.
    - (* no bracketed token *)
      simpl map. unfold rejects. rewrite T. simpl existsb. simpl map. unfold sum_N. simpl fold_right.
      rewrite !exceeds_0. simpl orb. cbv iota.
      assert (M : map seg_of ps = map mid_seg ps).
      { apply map_ext_in. intros p I. destruct p; auto.
        assert (In f (toks_of ps)). { unfold toks_of. apply in_flat_map. exists (PTok f). simpl. auto. }
        rewrite T in H. destruct H. }
      rewrite M. rewrite contains_var_segs by (rewrite <- M; auto). rewrite mid_has_var.
      destruct (has_bare ps) eqn:B.
      + unfold replace_bare. rewrite (HB eq_refl). simpl bind.
        rewrite replace_from_var_segs; [ | rewrite <- M; auto | apply mid_no_tok ].
        rewrite final_of_mid. auto.
      + rewrite final_no_bare by auto. auto.
    - (* at least one bracketed token *)
      simpl map. cbv iota.
      change (alloc_text f :: map alloc_text fs) with (map alloc_text (f :: fs)).
      rewrite <- T in TW |- *. clear T f fs.
      rewrite max_nodes, max_procs. simpl bind.
      rewrite subst_loop_spec by auto. unfold rejects.
      destruct (existsb (tok_exceeds nn pp) (toks_of ps)) eqn:E. auto.
      rewrite !Z.add_0_l. unfold bind at 1. cbv beta iota. rewrite !sumZ_sum_N. rewrite !exceeds_Z.
      simpl orb.
      destruct (exceeds pp (sum_N (map tok_p (toks_of ps)))). auto.
      destruct (exceeds nn (sum_N (map tok_n (toks_of ps)))). auto.
      simpl. rewrite fold_sub_all. rewrite sub_all_pieces by auto.
      rewrite contains_var_segs by (apply mid_seg_ok; auto). rewrite mid_has_var.
      destruct (has_bare ps) eqn:B.
      + unfold replace_bare. rewrite (HB eq_refl). simpl bind.
        rewrite replace_from_var_segs by (auto using mid_no_tok, mid_seg_ok).
        rewrite final_of_mid. auto.
      + rewrite final_no_bare by auto. auto.
  Qed.
End Loop.

(** C16 -- proofs about Sched/Parse.v.  Finite facts about the regenerated
    tables are decided by [vm_compute] and lifted with [forallb_forall]; the
    parser round trips are by induction over the rows of the table. *)
From Coq Require Import List Arith NArith ZArith Bool Lia.
From MWF Require Import Base.Str Gen.SchedTables Sched.Manuals Sched.Parse.
Import ListNotations.

(* ------------------------------------------------------------------------ *)
(** * Basics *)

Lemma str_eqb_eq : forall a b, str_eqb a b = true <-> a = b.
Proof.
  induction a as [|x a IH]; destruct b as [|y b]; simpl; split; intro H;
    try reflexivity; try discriminate.
  - apply andb_true_iff in H. destruct H as [H1 H2].
    apply N.eqb_eq in H1. apply IH in H2. subst. reflexivity.
  - inversion H; subst. rewrite N.eqb_refl. simpl. apply IH. reflexivity.
Qed.

Lemma str_eqb_refl : forall a, str_eqb a a = true.
Proof. intro a. apply str_eqb_eq. reflexivity. Qed.

Lemma str_eqb_neq : forall a b, str_eqb a b = false <-> a <> b.
Proof.
  intros a b. split.
  - intros H E. apply str_eqb_eq in E. congruence.
  - intro H. destruct (str_eqb a b) eqn:E; auto. apply str_eqb_eq in E. contradiction.
Qed.

Lemma str_eqb_sym : forall a b, str_eqb a b = str_eqb b a.
Proof.
  intros a b. destruct (str_eqb a b) eqn:E.
  - apply str_eqb_eq in E. subst. symmetry. apply str_eqb_refl.
  - symmetry. apply str_eqb_neq. apply str_eqb_neq in E. congruence.
Qed.

Lemma memb_In : forall x l, memb x l = true <-> In x l.
Proof.
  intros x l. unfold memb. rewrite existsb_exists. split.
  - intros [y [Hy E]]. apply str_eqb_eq in E. subst. exact Hy.
  - intro H. exists x. split; [exact H | apply str_eqb_refl].
Qed.

Lemma State_eqb_eq : forall a b, State_eqb a b = true <-> a = b.
Proof.
  intros a b. unfold State_eqb. rewrite N.eqb_eq. split.
  - destruct a; destruct b; simpl; intro H; try reflexivity; discriminate H.
  - intro H. subst. reflexivity.
Qed.

Lemma State_eqb_refl : forall a, State_eqb a a = true.
Proof. intro a. apply State_eqb_eq. reflexivity. Qed.

Lemma JS_eqb_eq : forall a b, JS_eqb a b = true <-> a = b.
Proof.
  intros a b. unfold JS_eqb. rewrite N.eqb_eq. split.
  - destruct a; destruct b; simpl; intro H; try reflexivity; discriminate H.
  - intro H. subst. reflexivity.
Qed.

Lemma JS_eqb_refl : forall a, JS_eqb a a = true.
Proof. intro a. apply JS_eqb_eq. reflexivity. Qed.

(* ------------------------------------------------------------------------ *)
(** * Tables *)

Lemma lookup_state_In : forall tbl d c,
  lookup_state tbl d c = d \/ In (c, lookup_state tbl d c) tbl.
Proof.
  induction tbl as [|[k v] r IH]; intros d c; simpl.
  - left. reflexivity.
  - destruct (str_eqb c k) eqn:E.
    + right. left. apply str_eqb_eq in E. subst. reflexivity.
    + destruct (IH d c) as [H|H]; [left; exact H | right; right; exact H].
Qed.

(** a table maps to FINISHED only codes of the success list *)
Definition only_success_b (tbl : list (str * State)) (d : State) (success : list str) : bool :=
  negb (State_eqb d FINISHED)
  && forallb (fun e => if State_eqb (snd e) FINISHED then memb (fst e) success else true) tbl.

Lemma only_success_sound : forall tbl d success,
  only_success_b tbl d success = true ->
  forall c, lookup_state tbl d c = FINISHED -> In c success.
Proof.
  intros tbl d success H c Hc. unfold only_success_b in H.
  apply andb_true_iff in H. destruct H as [Hd Ht].
  destruct (lookup_state_In tbl d c) as [E|E].
  - rewrite Hc in E. subst d. rewrite State_eqb_refl in Hd. discriminate.
  - rewrite forallb_forall in Ht. specialize (Ht _ E). simpl in Ht.
    rewrite Hc in Ht. rewrite State_eqb_refl in Ht. apply memb_In. exact Ht.
Qed.

Definition alive_ok_b (f : str -> State) (alive : list str) : bool :=
  forallb (fun c => negb (terminal (f c))) alive.

Lemma alive_ok_sound : forall f alive,
  alive_ok_b f alive = true -> forall c, In c alive -> terminal (f c) = false.
Proof.
  intros f alive H c Hc. unfold alive_ok_b in H. rewrite forallb_forall in H.
  specialize (H c Hc). apply negb_true_iff in H. exact H.
Qed.

Lemma terminal_spec : forall x,
  terminal x = true <->
  In x [FINISHED; FAILED; TIMEDOUT; HWFAILURE; CANCELLED; UNKNOWN].
Proof.
  intro x. split.
  - destruct x; simpl; intro H; try discriminate; tauto.
  - simpl. intros [H|[H|[H|[H|[H|[H|[]]]]]]]; subst; reflexivity.
Qed.

(** the finite facts, re-decided on every build over the regenerated tables *)
Lemma slurm_only_success : forall c, slurm_state c = FINISHED -> In c slurm_success.
Proof. apply only_success_sound. vm_compute. reflexivity. Qed.
Lemma lsf_only_success : forall c, lsf_state c = FINISHED -> In c lsf_success.
Proof. apply only_success_sound. vm_compute. reflexivity. Qed.
Lemma flux_only_success : forall c, flux_state c = FINISHED -> In c flux_success.
Proof. apply only_success_sound. vm_compute. reflexivity. Qed.
Lemma flux_all_only_success : forall v t d c,
  In (v, (t, d)) flux_tables -> lookup_state t d c = FINISHED -> In c flux_success.
Proof.
  intros v t d c Hin. apply only_success_sound.
  assert (H : forallb (fun e => only_success_b (fst (snd e)) (snd (snd e)) flux_success) flux_tables = true)
    by (vm_compute; reflexivity).
  rewrite forallb_forall in H. exact (H _ Hin).
Qed.

Lemma slurm_alive_not_terminal : forall c, In c slurm_alive -> terminal (slurm_state c) = false.
Proof. apply alive_ok_sound. vm_compute. reflexivity. Qed.
Lemma lsf_alive_not_terminal : forall c, In c lsf_alive -> terminal (lsf_state c) = false.
Proof. apply alive_ok_sound. vm_compute. reflexivity. Qed.
Lemma flux_alive_not_terminal : forall c, In c flux_alive -> terminal (flux_state c) = false.
Proof. apply alive_ok_sound. vm_compute. reflexivity. Qed.
Lemma flux_all_alive_not_terminal : forall v t d c,
  In (v, (t, d)) flux_tables -> In c flux_alive -> terminal (lookup_state t d c) = false.
Proof.
  intros v t d c Hin. apply alive_ok_sound.
  assert (H : forallb (fun e => alive_ok_b (lookup_state (fst (snd e)) (snd (snd e))) flux_alive) flux_tables = true)
    by (vm_compute; reflexivity).
  rewrite forallb_forall in H. exact (H _ Hin).
Qed.

(** the success codes do map to FINISHED (the tables are not vacuous) *)
Lemma success_maps_finished :
  forallb (fun c => State_eqb (slurm_state c) FINISHED) slurm_success
  && forallb (fun c => State_eqb (lsf_state c) FINISHED) lsf_success
  && forallb (fun c => State_eqb (flux_state c) FINISHED) flux_success = true.
Proof. vm_compute. reflexivity. Qed.

(** LSF's refinement of EXIT by the termination reason: the implementation's
    rule (T-data: [lsf_exit_trigger], [lsf_exit_rules]) is the manual's
    ([lsf_row_code]: TERM_RUNLIMIT = run limit reached, TERM_OWNER = killed by
    owner) *)
Lemma lsf_effective_row_code : forall stat reason,
  lsf_effective stat reason = lsf_row_code stat reason.
Proof.
  intros stat reason. unfold lsf_effective, lsf_row_code.
  change lsf_exit_trigger with (s "EXIT").
  change lsf_exit_rules with [(lsf_term_runlimit, s "TIMEOUT"); (lsf_term_owner, s "CANCELLED")].
  destruct (str_eqb stat (s "EXIT")); [|reflexivity].
  simpl refine.
  destruct (contains lsf_term_runlimit reason); [reflexivity|].
  destruct (contains lsf_term_owner reason); reflexivity.
Qed.

Lemma lsf_exit_refinement : forall reason,
  lsf_state (lsf_row_code (s "EXIT") reason) =
  if contains lsf_term_runlimit reason then TIMEDOUT
  else if contains lsf_term_owner reason then CANCELLED
  else FAILED.
Proof.
  intro reason. unfold lsf_row_code.
  change (str_eqb (s "EXIT") (s "EXIT")) with true. cbv iota.
  destruct (contains lsf_term_runlimit reason); [vm_compute; reflexivity|].
  destruct (contains lsf_term_owner reason); vm_compute; reflexivity.
Qed.

Lemma lsf_row_code_other : forall stat reason,
  stat <> s "EXIT" -> lsf_row_code stat reason = stat.
Proof.
  intros stat reason H. unfold lsf_row_code.
  apply str_eqb_neq in H. rewrite H. reflexivity.
Qed.

(* ------------------------------------------------------------------------ *)
(** * Return codes *)

Definition rc_map_ok_b (m : list (Z * (bool * JobStatusCode))) (d : JobStatusCode) : bool :=
  negb (is_OK d)
  && forallb (fun e =>
       (* a non-zero exit code neither parses nor yields OK *)
       (Z.eqb (fst e) 0 || negb (fst (snd e)) && negb (is_OK (snd (snd e))))
       (* the parsing branch (and only it) returns OK *)
       && Bool.eqb (fst (snd e)) (is_OK (snd (snd e)))) m.

Lemma rc_lookup_cases : forall m d rc,
  rc_lookup m d rc = (false, d) \/ In (rc, rc_lookup m d rc) m.
Proof.
  intros m d rc. unfold rc_lookup.
  destruct (find (fun e => Z.eqb (fst e) rc) m) as [e|] eqn:F.
  - right. apply find_some in F. destruct F as [Hin He].
    apply Z.eqb_eq in He. destruct e as [k v]. simpl in *. subst. exact Hin.
  - left. reflexivity.
Qed.

Lemma rc_nonzero_not_ok : forall m d rc,
  rc_map_ok_b m d = true -> rc <> 0%Z ->
  parses m d rc = false /\ code_of m d rc <> JS_OK.
Proof.
  intros m d rc H Hrc. unfold rc_map_ok_b in H. apply andb_true_iff in H.
  destruct H as [Hd Hm]. unfold parses, code_of.
  destruct (rc_lookup_cases m d rc) as [E|E].
  - rewrite E. simpl. split; [reflexivity|].
    intro X. subst d. unfold is_OK in Hd. rewrite JS_eqb_refl in Hd. discriminate.
  - rewrite forallb_forall in Hm. specialize (Hm _ E). simpl in Hm.
    apply andb_true_iff in Hm. destruct Hm as [Hm _].
    apply orb_true_iff in Hm. destruct Hm as [Hm|Hm].
    + apply Z.eqb_eq in Hm. contradiction.
    + apply andb_true_iff in Hm. destruct Hm as [Hp Hc].
      apply negb_true_iff in Hp. apply negb_true_iff in Hc. split; [exact Hp|].
      intro X. unfold is_OK in Hc. rewrite X in Hc. rewrite JS_eqb_refl in Hc. discriminate.
Qed.

Lemma rc_parses_iff_ok : forall m d rc,
  rc_map_ok_b m d = true -> parses m d rc = is_OK (code_of m d rc).
Proof.
  intros m d rc H. unfold rc_map_ok_b in H. apply andb_true_iff in H.
  destruct H as [Hd Hm]. unfold parses, code_of.
  destruct (rc_lookup_cases m d rc) as [E|E].
  - rewrite E. simpl. apply negb_true_iff in Hd. symmetry. exact Hd.
  - rewrite forallb_forall in Hm. specialize (Hm _ E). simpl in Hm.
    apply andb_true_iff in Hm. destruct Hm as [_ Hm]. apply eqb_prop in Hm. exact Hm.
Qed.

Lemma sq_rc_map_ok : rc_map_ok_b sq_rc_map sq_rc_default = true.
Proof. vm_compute. reflexivity. Qed.
Lemma sa_rc_map_ok : rc_map_ok_b sa_rc_map sa_rc_default = true.
Proof. vm_compute. reflexivity. Qed.
Lemma bj_rc_map_ok : rc_map_ok_b bj_rc_map bj_rc_default = true.
Proof. vm_compute. reflexivity. Qed.
Lemma rc_zero_parses :
  parses sq_rc_map sq_rc_default 0 && parses sa_rc_map sa_rc_default 0
  && parses bj_rc_map bj_rc_default 0 = true.
Proof. vm_compute. reflexivity. Qed.

Lemma forallb_false_ex : forall {A} (f : A -> bool) l,
  forallb f l = false -> exists x, In x l /\ f x = false.
Proof.
  induction l as [|a l IH]; simpl; intro H; [discriminate|].
  apply andb_false_iff in H. destruct H as [H|H].
  - exists a. split; [left; reflexivity | exact H].
  - destruct (IH H) as [x [Hx Fx]]. exists x. split; [right; exact Hx | exact Fx].
Qed.

Lemma combine_codes_spec : forall cs,
  (combine_codes cs = JS_OK <-> In JS_OK cs)
  /\ (combine_codes cs = JS_NOJOBS <-> ~ In JS_OK cs /\ forall c, In c cs -> c = JS_NOJOBS)
  /\ (combine_codes cs = JS_ERROR <-> ~ In JS_OK cs /\ exists c, In c cs /\ c <> JS_NOJOBS).
Proof.
  intro cs. unfold combine_codes.
  assert (HO : existsb is_OK cs = true <-> In JS_OK cs).
  { rewrite existsb_exists. split.
    - intros [c [Hc E]]. apply JS_eqb_eq in E. subst. exact Hc.
    - intro H. exists JS_OK. split; [exact H | reflexivity]. }
  assert (HN : forallb is_NOJOBS cs = true <-> forall c, In c cs -> c = JS_NOJOBS).
  { rewrite forallb_forall. split; intros H c Hc; specialize (H c Hc).
    - apply JS_eqb_eq in H. exact H.
    - subst. reflexivity. }
  destruct (existsb is_OK cs) eqn:EO.
  - assert (HI : In JS_OK cs) by (apply HO; reflexivity).
    split; [|split]; split; intro X; try discriminate; try reflexivity; try exact HI;
      destruct X as [X _]; contradiction.
  - assert (HI : ~ In JS_OK cs) by (intro X; apply HO in X; discriminate).
    destruct (forallb is_NOJOBS cs) eqn:EN.
    + assert (HA : forall c, In c cs -> c = JS_NOJOBS) by (apply HN; reflexivity).
      split; [|split]; split; intro X; try discriminate; try reflexivity.
      * contradiction.
      * split; assumption.
      * destruct X as [_ [c [Hc Hne]]]. apply HA in Hc. contradiction.
    + split; [|split]; split; intro X; try discriminate; try reflexivity.
      * contradiction.
      * destruct X as [_ HA]. apply HN in HA. discriminate.
      * split; [exact HI|]. destruct (forallb_false_ex _ _ EN) as [c [Hc Fc]].
        exists c. split; [exact Hc|]. intro Y. subst. discriminate.
Qed.

(* ------------------------------------------------------------------------ *)
(** * Text primitives *)

Definition nospace (t : str) : bool := forallb (fun c => negb (is_space c)) t.
Definition allspace (t : str) : bool := forallb is_space t.
Definition nodelim (d : N) (t : str) : bool := forallb (fun c => negb (N.eqb c d)) t.

Lemma split_on_nonempty : forall d l, split_on d l <> [].
Proof.
  intros d l. destruct l as [|c r]; simpl; [discriminate|].
  destruct (N.eqb c d); [discriminate|]. destruct (split_on d r); discriminate.
Qed.

Lemma split_on_nodelim : forall d l, nodelim d l = true -> split_on d l = [l].
Proof.
  induction l as [|c r IH]; simpl; intro H; [reflexivity|].
  apply andb_true_iff in H. destruct H as [Hc Hr].
  apply negb_true_iff in Hc. rewrite Hc. rewrite (IH Hr). reflexivity.
Qed.

Lemma split_on_app : forall d a b,
  nodelim d a = true -> split_on d (a ++ d :: b) = a :: split_on d b.
Proof.
  induction a as [|c a IH]; simpl; intros b H.
  - rewrite N.eqb_refl. reflexivity.
  - apply andb_true_iff in H. destruct H as [Hc Ha].
    apply negb_true_iff in Hc. rewrite Hc. rewrite (IH b Ha). reflexivity.
Qed.

Lemma split_join : forall d ls,
  ls <> [] -> forallb (nodelim d) ls = true -> split_on d (join d ls) = ls.
Proof.
  induction ls as [|x r IH]; intros Hne H; [contradiction|].
  simpl in H. apply andb_true_iff in H. destruct H as [Hx Hr].
  destruct r as [|y r'].
  - simpl. apply split_on_nodelim. exact Hx.
  - change (join d (x :: y :: r')) with (x ++ d :: join d (y :: r')).
    rewrite split_on_app by exact Hx. rewrite IH; [reflexivity | discriminate | exact Hr].
Qed.

Lemma resplit_nonempty : forall l, resplit l <> [].
Proof.
  induction l as [|c r IH]; [discriminate|].
  simpl. destruct (is_space c).
  - destruct r as [|c' r']; [discriminate|]. destruct (is_space c'); [exact IH | discriminate].
  - destruct (resplit r); discriminate.
Qed.

Lemma resplit_cons_nonspace : forall c r,
  is_space c = false ->
  resplit (c :: r) = (c :: hd [] (resplit r)) :: tl (resplit r).
Proof.
  intros c r H. simpl. rewrite H.
  destruct (resplit r) eqn:E; [exfalso; exact (resplit_nonempty r E) | reflexivity].
Qed.

Lemma resplit_nospace_app : forall t rest,
  nospace t = true ->
  resplit (t ++ rest) = (t ++ hd [] (resplit rest)) :: tl (resplit rest).
Proof.
  induction t as [|c t IH]; intros rest H.
  - simpl. destruct (resplit rest) eqn:E; [exfalso; exact (resplit_nonempty rest E) | reflexivity].
  - simpl in H. apply andb_true_iff in H. destruct H as [Hc Ht].
    apply negb_true_iff in Hc.
    change ((c :: t) ++ rest) with (c :: (t ++ rest)).
    rewrite resplit_cons_nonspace by exact Hc. rewrite (IH rest Ht). reflexivity.
Qed.

Lemma resplit_space_space : forall c c2 r,
  is_space c = true -> is_space c2 = true -> resplit (c :: c2 :: r) = resplit (c2 :: r).
Proof. intros c c2 r H1 H2. simpl. rewrite H1, H2. reflexivity. Qed.

Lemma resplit_space_last : forall c rest,
  is_space c = true -> starts_nonspace rest = true -> resplit (c :: rest) = [] :: resplit rest.
Proof.
  intros c rest H1 H2. destruct rest as [|c' r'].
  - simpl. rewrite H1. reflexivity.
  - simpl in H2. apply negb_true_iff in H2.
    change (resplit (c :: c' :: r')) with
        (if is_space c then (if is_space c' then resplit (c' :: r') else [] :: resplit (c' :: r'))
         else match resplit (c' :: r') with f :: fs' => (c :: f) :: fs' | [] => [[c]] end).
    rewrite H1, H2. reflexivity.
Qed.

Lemma resplit_pad : forall p rest,
  p <> [] -> allspace p = true -> starts_nonspace rest = true ->
  resplit (p ++ rest) = [] :: resplit rest.
Proof.
  induction p as [|c p IH]; intros rest Hne Hp Hr; [contradiction|].
  simpl in Hp. apply andb_true_iff in Hp. destruct Hp as [Hc Hp].
  destruct p as [|c2 p'].
  - simpl. apply resplit_space_last; assumption.
  - assert (Hc2 : is_space c2 = true).
    { simpl in Hp. apply andb_true_iff in Hp. tauto. }
    change ((c :: c2 :: p') ++ rest) with (c :: c2 :: (p' ++ rest)).
    rewrite resplit_space_space by assumption.
    change (c2 :: (p' ++ rest)) with ((c2 :: p') ++ rest).
    apply IH; [discriminate | exact Hp | exact Hr].
Qed.

Lemma resplit_tok_pad : forall t p rest,
  nospace t = true -> p <> [] -> allspace p = true -> starts_nonspace rest = true ->
  resplit (t ++ p ++ rest) = t :: resplit rest.
Proof.
  intros t p rest Ht Hne Hp Hr.
  rewrite resplit_nospace_app by exact Ht.
  rewrite resplit_pad by assumption. simpl. rewrite app_nil_r. reflexivity.
Qed.

Lemma padb_allspace : forall p, padb p = true -> allspace p = true.
Proof.
  intros p H. unfold padb in H. unfold allspace.
  rewrite forallb_forall in *. intros c Hc. specialize (H c Hc).
  apply andb_true_iff in H. tauto.
Qed.

Lemma padb_nonl : forall p, padb p = true -> nonlb p = true.
Proof.
  intros p H. unfold padb in H. unfold nonlb.
  rewrite forallb_forall in *. intros c Hc. specialize (H c Hc).
  apply andb_true_iff in H. tauto.
Qed.

Lemma tokb_nospace : forall t, tokb t = true -> nospace t = true.
Proof. intros t H. unfold tokb in H. apply andb_true_iff in H. tauto. Qed.

Lemma tokb_nonnil : forall t, tokb t = true -> t <> [].
Proof.
  intros t H. unfold tokb in H. apply andb_true_iff in H. destruct H as [H _].
  destruct t; [discriminate | discriminate].
Qed.

Lemma nospace_nonl : forall t, nospace t = true -> nonlb t = true.
Proof.
  intros t H. unfold nospace in H. unfold nonlb.
  rewrite forallb_forall in *. intros c Hc. specialize (H c Hc).
  destruct (N.eqb c nl) eqn:E; [|reflexivity].
  apply N.eqb_eq in E. subst c. vm_compute in H. discriminate.
Qed.

Lemma tokb_starts_nonspace : forall t rest, tokb t = true -> starts_nonspace (t ++ rest) = true.
Proof.
  intros t rest H. pose proof (tokb_nonnil _ H) as Hn. apply tokb_nospace in H.
  destruct t as [|c t]; [contradiction|]. simpl in *.
  apply andb_true_iff in H. tauto.
Qed.

Lemma nonlb_app : forall a b, nonlb (a ++ b) = nonlb a && nonlb b.
Proof. intros a b. unfold nonlb. apply forallb_app. Qed.

(** tokens of a well-formed whitespace separated row *)
Definition toks_text (fs : list tokpad) : str := flat_map (fun tp => fst tp ++ snd tp) fs.
Definition toks_tail (fs : list tokpad) : list str :=
  if is_nil (snd (last fs ([], []))) then [] else [[]].

Lemma toks_text_cons : forall t p r, toks_text ((t, p) :: r) = t ++ p ++ toks_text r.
Proof. intros. unfold toks_text. simpl. rewrite app_assoc. reflexivity. Qed.

Lemma resplit_toks : forall fs,
  fs <> [] -> wf_toks fs = true ->
  resplit (toks_text fs) = map fst fs ++ toks_tail fs.
Proof.
  induction fs as [|[t p] r IH]; intros Hne H; [contradiction|].
  destruct r as [|[t2 p2] r'].
  - simpl in H. apply andb_true_iff in H. destruct H as [Ht Hp].
    rewrite toks_text_cons. unfold toks_tail. simpl.
    destruct p as [|c p'].
    + simpl. rewrite resplit_nospace_app by (apply tokb_nospace; exact Ht).
      simpl. rewrite app_nil_r. reflexivity.
    + simpl is_nil. cbv iota.
      rewrite resplit_tok_pad; [reflexivity | apply tokb_nospace; exact Ht | discriminate
                               | apply padb_allspace; exact Hp | reflexivity].
  - change (wf_toks ((t, p) :: (t2, p2) :: r')) with
        (tokb t && (pad1b p && wf_toks ((t2, p2) :: r'))) in H.
    apply andb_true_iff in H. destruct H as [Ht H].
    apply andb_true_iff in H. destruct H as [Hp Hr].
    unfold pad1b in Hp. apply andb_true_iff in Hp. destruct Hp as [Hpn Hp].
    rewrite toks_text_cons.
    rewrite resplit_tok_pad.
    + rewrite IH by (try discriminate; exact Hr).
      unfold toks_tail. reflexivity.
    + apply tokb_nospace; exact Ht.
    + destruct p; [discriminate | discriminate].
    + apply padb_allspace; exact Hp.
    + rewrite toks_text_cons.
      apply tokb_starts_nonspace.
      change (wf_toks ((t2, p2) :: r')) with (tokb t2 && match r' with [] => padb p2 | _ => pad1b p2 && wf_toks r' end) in Hr.
      apply andb_true_iff in Hr. tauto.
Qed.

(** C15 proofs, LSF part 2: the bsub header, the jsrun invocation, and the
    theorem about [write_lsf]. *)
From Coq Require Import List Arith NArith ZArith Bool Lia.
From MWF Require Import Base.Str Gen.HeaderData Sched.Header Sched.Launcher Sched.Readers
  Sched.StrFacts Sched.SegProofs Sched.LauncherProofs Sched.ReadProofs Sched.SlurmLaunch
  Sched.SlurmHeader Sched.ScriptProofs Sched.C15Proofs Sched.LsfWalltime.
Import ListNotations.
Local Open Scope N_scope.
Local Open Scope list_scope.

(** * directive lines "<marker> <option> <value>" for any marker / table *)
Section GenRead.
  Variables (mk : str) (tbl : opttable).
  Hypothesis mk_comment : forall x, comment_line (mk ++ x) = true.

  Definition RLg (ls : list str) : list (rkey * str) :=
    flat_map (read_line mk tbl) (flat_map (split_on nl) ls).
  Definition CLg (ls : list str) : bool := forallb comment_line (flat_map (split_on nl) ls).

  Lemma RLg_app : forall a b, RLg (a ++ b) = RLg a ++ RLg b.
  Proof. intros. unfold RLg. rewrite !flat_map_app. auto. Qed.
  Lemma CLg_app : forall a b, CLg (a ++ b) = CLg a && CLg b.
  Proof. intros. unfold CLg. rewrite flat_map_app, forallb_app. auto. Qed.
  Lemma RLg_one : forall l, ~ In nl l -> RLg [l] = read_line mk tbl l.
  Proof. intros. unfold RLg. simpl. rewrite split_on_notin by auto. simpl. rewrite app_nil_r. auto. Qed.
  Lemma CLg_one : forall l, ~ In nl l -> CLg [l] = comment_line l.
  Proof. intros. unfold CLg. simpl. rewrite split_on_notin by auto. simpl. rewrite andb_true_r. auto. Qed.

  Lemma line_sep_g : forall lit nm K w,
    lit = mk ++ 32 :: nm ++ [32] -> memN 61 nm = false -> plain nm = true -> nm <> [] ->
    memN nl lit = false -> lookup nm tbl = Some (true, K) -> safe_word w ->
    RLg [lit ++ w] = [(K, w)] /\ CLg [lit ++ w] = true.
  Proof.
    intros lit nm K w EL NE PN NN NL LK SW. destruct SW.
    assert (NI : ~ In nl (lit ++ w)) by (apply notin_app; auto using memN_false).
    rewrite RLg_one, CLg_one by auto. subst lit. norm_app. split.
    - unfold read_line. rewrite directive_marker. unfold words_of.
      rewrite (words_plain_step nm) by auto. rewrite words_blank.
      destruct nm as [|c nm]. congruence. simpl cur_app. cbv iota.
      fold (words_of w). rewrite words_of_plain by auto.
      rewrite parse_sep with (k := K); auto using memN_false.
    - apply mk_comment.
  Qed.
End GenRead.

(** * the batch dictionary of the LSF adapter *)
Definition lsf_bd (b : batch) (vh vb vq : val) : dict :=
  cond_param (s "reservation") (b_kw b) ++
  [(s "host", vh); (s "bank", vb); (s "queue", vq);
   (s "nodes", get_default (b_kw b) (s "nodes") (VStr (s "1")))].

Lemma batch_lsf_eq : forall b vh vb vq,
  lookup (s "host") (b_kw b) = Some vh -> lookup (s "bank") (b_kw b) = Some vb ->
  lookup (s "queue") (b_kw b) = Some vq ->
  batch_lsf b = Ok (lsf_bd b vh vb vq).
Proof.
  intros b vh vb vq Hh Hb Hq. unfold batch_lsf, lsf_bd, lsf_batch_params, get_default.
  norm_s. cbn [build_batch]. rewrite Hh, Hb, Hq.
  repeat match goal with |- context [lookup ?k (b_kw b)] => destruct (lookup k (b_kw b)) end; reflexivity.
Qed.

Lemma has_lookup {A} : forall k (d : list (str * A)), has k d = is_some (lookup k d).
Proof. intros. unfold has. destruct (lookup k d); auto. Qed.

Lemma render_truthy_nonnil : forall v, truthy v = true -> render v <> [].
Proof.
  intros v T. destruct v; simpl in *; try discriminate.
  - apply all_digits_nonnil. apply N_dec_digits. apply negb_true_iff in T. apply N.eqb_neq in T. auto.
  - destruct t; discriminate.
  - destruct b; discriminate.
  - intro E. apply app_eq_nil in E. destruct E as [_ E]. discriminate E.
Qed.

(** * what [header_lines_lsf] prints *)
Section LsfHeader.
  Variables (b : batch) (st : step) (vh vb vq : val).
  Hypothesis Hh : lookup (s "host") (b_kw b) = Some vh.
  Hypothesis Hb : lookup (s "bank") (b_kw b) = Some vb.
  Hypothesis Hq : lookup (s "queue") (b_kw b) = Some vq.
  Hypothesis ND : nodup_keys (st_res st) = true.
  Hypothesis NJ : has (s "job-name") (st_res st) = false.
  Hypothesis NO : has (s "output") (st_res st) = false.
  Hypothesis NE : has (s "error") (st_res st) = false.
  Let bd := lsf_bd b vh vb vq.
  Let bnodes := get_default (b_kw b) (s "nodes") (VStr (s "1")).
  Definition lsf_nodes : val :=
    match decl (st_res st) (s "nodes") with Some v => v | None => bnodes end.
  Let jn := under (st_name st).
  Definition lsf_w0 : str :=
    match decl (st_res st) (s "walltime") with Some v => render v | None => [] end.
  Variable w : str.
  Hypothesis Hw : lsf_walltime lsf_w0 = Ok w.
  Hypothesis Hw_nil : w = [] -> decl (st_res st) (s "walltime") = None.

  Definition lsf_bh : dict :=
    (match w with [] => [] | _ => [(s "walltime", VStr w)] end)
    ++ truthy_items (run_items st)
    ++ [(s "nodes", lsf_nodes); (s "job-name", VStr jn); (s "output", VStr (jn ++ s ".%J.out"));
        (s "error", VStr (jn ++ s ".%J.err"))]
    ++ bd.

  Lemma lookup_wpart : forall name, str_eqb name (s "walltime") = false ->
    lookup name (match w with [] => [] | _ => [(s "walltime", VStr w)] end) = None.
  Proof. intros. destruct w; auto. cbn [lookup]. rewrite H. auto. Qed.

  Lemma bh_lookup : forall name, special name = false -> str_eqb name (s "walltime") = false ->
    lookup name lsf_bh =
    match decl (st_res st) name with
    | Some v => Some v
    | None => lookup name ([(s "nodes", lsf_nodes); (s "job-name", VStr jn); (s "output", VStr (jn ++ s ".%J.out"));
                            (s "error", VStr (jn ++ s ".%J.err"))] ++ bd)
    end.
  Proof.
    intros name S W. unfold special in S. repeat (apply orb_false_iff in S; destruct S as [S ?]).
    unfold lsf_bh. rewrite lookup_app. rewrite lookup_wpart by auto. rewrite lookup_app.
    rewrite lookup_truthy_run; auto. split; auto.
  Qed.

  Lemma decl_absent : forall name, has name (st_res st) = false -> decl (st_res st) name = None.
  Proof. intros. unfold decl. rewrite (has_false_lookup _ _ H). auto. Qed.

  Lemma bh_nodes : lookup (s "nodes") lsf_bh = Some lsf_nodes.
  Proof.
    rewrite bh_lookup by reflexivity. unfold lsf_nodes.
    destruct (decl (st_res st) (s "nodes")); auto.
  Qed.
  Lemma bh_queue : lookup (s "queue") lsf_bh =
    Some (match decl (st_res st) (s "queue") with Some v => v | None => vq end).
  Proof.
    rewrite bh_lookup by reflexivity. destruct (decl (st_res st) (s "queue")); auto.
    unfold bd, lsf_bd. rewrite lookup_app. rewrite lookup_app.
    assert (C : lookup (s "queue") (cond_param (s "reservation") (b_kw b)) = None).
    { unfold cond_param. destruct (lookup (s "reservation") (b_kw b)); auto. destruct (truthy v); auto. }
    rewrite C. reflexivity.
  Qed.
  Lemma bh_bank : lookup (s "bank") lsf_bh =
    Some (match decl (st_res st) (s "bank") with Some v => v | None => vb end).
  Proof.
    rewrite bh_lookup by reflexivity. destruct (decl (st_res st) (s "bank")); auto.
    unfold bd, lsf_bd. rewrite lookup_app. rewrite lookup_app.
    assert (C : lookup (s "bank") (cond_param (s "reservation") (b_kw b)) = None).
    { unfold cond_param. destruct (lookup (s "reservation") (b_kw b)); auto. destruct (truthy v); auto. }
    rewrite C. reflexivity.
  Qed.
  Lemma bh_jobname : lookup (s "job-name") lsf_bh = Some (VStr jn).
  Proof.
    unfold lsf_bh. rewrite lookup_app. rewrite lookup_wpart by reflexivity. rewrite lookup_app.
    rewrite lookup_truthy_run; auto; [|split; reflexivity]. rewrite decl_absent by auto. reflexivity.
  Qed.
  Lemma bh_output : lookup (s "output") lsf_bh = Some (VStr (jn ++ s ".%J.out")).
  Proof.
    unfold lsf_bh. rewrite lookup_app. rewrite lookup_wpart by reflexivity. rewrite lookup_app.
    rewrite lookup_truthy_run; auto; [|split; reflexivity]. rewrite decl_absent by auto. reflexivity.
  Qed.
  Lemma bh_error : lookup (s "error") lsf_bh = Some (VStr (jn ++ s ".%J.err")).
  Proof.
    unfold lsf_bh. rewrite lookup_app. rewrite lookup_wpart by reflexivity. rewrite lookup_app.
    rewrite lookup_truthy_run; auto; [|split; reflexivity]. rewrite decl_absent by auto. reflexivity.
  Qed.
  Lemma bh_reservation : lookup (s "reservation") lsf_bh =
    match decl (st_res st) (s "reservation") with Some v => Some v | None => decl (b_kw b) (s "reservation") end.
  Proof.
    rewrite bh_lookup by reflexivity. destruct (decl (st_res st) (s "reservation")); auto.
    unfold bd, lsf_bd. rewrite lookup_app. rewrite lookup_app. unfold cond_param, decl.
    destruct (lookup (s "reservation") (b_kw b)) as [v|]; [destruct (truthy v) eqn:T|]; norm_s;
      cbn [lookup str_eqb N.eqb Pos.eqb andb]; rewrite ?T; auto.
  Qed.
  Lemma bh_walltime : lookup (s "walltime") lsf_bh = match w with [] => None | _ => Some (VStr w) end.
  Proof.
    unfold lsf_bh. destruct w eqn:W.
    - rewrite app_nil_l. rewrite lookup_app. rewrite lookup_truthy_run; auto; [|split; reflexivity].
      rewrite Hw_nil by auto.
      unfold bd, lsf_bd. rewrite lookup_app. rewrite lookup_app.
      assert (C : lookup (s "walltime") (cond_param (s "reservation") (b_kw b)) = None).
      { unfold cond_param. destruct (lookup (s "reservation") (b_kw b)); auto. destruct (truthy v); auto. }
      rewrite C. reflexivity.
    - reflexivity.
  Qed.
End LsfHeader.

Definition lsf_entry (bh : dict) (e : str * template) : list str :=
  match lookup (fst e) bh with Some v => [fmt (snd e) v] | None => [] end.

Lemma map_res_has : forall bh es, forallb (fun e => single_key (fst e) (snd e)) es = true ->
  map_res (fun e : str * template =>
             let (key, tpl) := e in if has key bh then l <- format tpl bh ;; Ok [l] else Ok []) es
  = Ok (map (lsf_entry bh) es).
Proof.
  induction es as [|[k tpl] es]; intros H. reflexivity.
  simpl in H. apply andb_true_iff in H. destruct H as [H1 H2].
  cbn [map_res map]. rewrite has_lookup.
  assert (E : lsf_entry bh (k, tpl) = match lookup k bh with Some v => [fmt tpl v] | None => [] end) by reflexivity.
  rewrite E. clear E.
  destruct (lookup k bh) as [v|] eqn:L; cbn [is_some bind].
  - rewrite (format_single k tpl bh v) by auto. cbn [bind]. rewrite IHes by auto. reflexivity.
  - rewrite IHes by auto. reflexivity.
Qed.

Lemma lsf_header_single : forallb (fun e => single_key (fst e) (snd e)) lsf_header = true.
Proof. reflexivity. Qed.

Definition lsf_shebang_line (b : batch) : str := s "#!" ++ render (lsf_exec b).

Section LsfLines.
  Variables (b : batch) (st : step) (vh vb vq : val).
  Hypothesis Hh : lookup (s "host") (b_kw b) = Some vh.
  Hypothesis Hb : lookup (s "bank") (b_kw b) = Some vb.
  Hypothesis Hq : lookup (s "queue") (b_kw b) = Some vq.
  Variable w : str.
  Hypothesis Hw : lsf_walltime (lsf_w0 st) = Ok w.

  Definition lsf_lines : list str :=
    lsf_shebang_line b :: flat_map (lsf_entry (lsf_bh b st vh vb vq w)) lsf_header.

  Lemma run_get_truthy : forall name, not_cmd name -> mem_str name step_run_default_keys = true ->
    match run_get st name with Some v => if truthy v then Some v else None | None => None end
    = decl (st_res st) name.
  Proof.
    intros. rewrite run_get_val by auto. unfold run_val, decl.
    destruct (lookup name (st_res st)); auto.
  Qed.

  Lemma header_lines_lsf_eq : header_lines_lsf b st = Ok lsf_lines.
  Proof.
    unfold header_lines_lsf. rewrite (batch_lsf_eq b vh vb vq) by auto. cbn [bind].
    assert (BN : lookup (s "nodes") (lsf_bd b vh vb vq) = Some (get_default (b_kw b) (s "nodes") (VStr (s "1")))).
    { unfold lsf_bd. rewrite lookup_app.
      assert (C : lookup (s "nodes") (cond_param (s "reservation") (b_kw b)) = None).
      { unfold cond_param. destruct (lookup (s "reservation") (b_kw b)); auto. destruct (truthy v); auto. }
      rewrite C. reflexivity. }
    rewrite BN. cbn [bind].
    assert (NV : match run_get st (s "nodes") with
                 | Some v => if truthy v then v else get_default (b_kw b) (s "nodes") (VStr (s "1"))
                 | None => get_default (b_kw b) (s "nodes") (VStr (s "1"))
                 end = lsf_nodes b st).
    { unfold lsf_nodes. rewrite <- (run_get_truthy (s "nodes")) by (try split; reflexivity).
      destruct (run_get st (s "nodes")); auto. destruct (truthy v); auto. }
    rewrite NV.
    change (format lsf_output_name (pos1 (under (st_name st)))) with
      (Ok (under (st_name st) ++ (s ".%J.out" ++ [])) : res str).
    change (format lsf_error_name (pos1 (under (st_name st)))) with
      (Ok (under (st_name st) ++ (s ".%J.err" ++ [])) : res str).
    cbn [bind].
    assert (WV : match run_get st (s "walltime") with
                 | Some v => if truthy v then render v else []
                 | None => []
                 end = lsf_w0 st).
    { unfold lsf_w0. rewrite <- (run_get_truthy (s "walltime")) by (try split; reflexivity).
      destruct (run_get st (s "walltime")); auto. destruct (truthy v); auto. }
    rewrite WV. rewrite Hw. cbn [bind].
    change (format lsf_shebang [(s "0", lsf_exec b)]) with (Ok (s "#!" ++ (render (lsf_exec b) ++ [])) : res str).
    rewrite app_nil_r. cbn [bind].
    change (s ".%J.out" ++ []) with (s ".%J.out"). change (s ".%J.err" ++ []) with (s ".%J.err").
    fold (lsf_bh b st vh vb vq w).
    rewrite map_res_has by apply lsf_header_single. cbn [bind].
    unfold lsf_lines, lsf_shebang_line. rewrite flat_map_concat_map. reflexivity.
  Qed.
End LsfLines.

(** * reading the bsub lines back *)
Definition Mb : str := s "#BSUB".
Lemma Mb_comment : forall x, comment_line (Mb ++ x) = true.
Proof. intros. reflexivity. Qed.
Definition RLb := RLg Mb bsub_table.
Definition CLb := CLg.

Lemma under_nonnil : forall t, t <> [] -> under t <> [].
Proof.
  intros t H. destruct t as [|c t]. congruence. unfold under, replace.
  change (replace_from (s " ") (s "_") 0 (c :: t)) with
    (if prefixb (s " ") (c :: t) then s "_" ++ replace_from (s " ") (s "_") (List.length (s " ") - 1)%nat t
     else c :: replace_from (s " ") (s "_") 0 t).
  destruct (prefixb (s " ") (c :: t)); discriminate.
Qed.

Lemma safe_word_app : forall a b, safe_word a -> safe_word b -> safe_word (a ++ b).
Proof.
  intros a b [A1 A2 A3 A4 A5] [B1 B2 B3 B4 B5]. constructor.
  - apply plain_app; auto.
  - destruct a; try congruence. discriminate.
  - apply notin_app; auto.
  - rewrite memN_app, A4, B4. auto.
  - apply noquote_app; auto.
Qed.

Section LsfRead.
  Variables (b : batch) (st : step) (vh vb vq : val) (w : str).
  Let bh := lsf_bh b st vh vb vq w.
  Let jn := under (st_name st).
  Variables nv qv bv : val.
  Variable rv_ : option val.
  Hypothesis L_nodes : lookup (s "nodes") bh = Some nv.
  Hypothesis L_queue : lookup (s "queue") bh = Some qv.
  Hypothesis L_bank : lookup (s "bank") bh = Some bv.
  Hypothesis L_wall : lookup (s "walltime") bh = match w with [] => None | _ => Some (VStr w) end.
  Hypothesis L_jn : lookup (s "job-name") bh = Some (VStr jn).
  Hypothesis L_out : lookup (s "output") bh = Some (VStr (jn ++ s ".%J.out")).
  Hypothesis L_err : lookup (s "error") bh = Some (VStr (jn ++ s ".%J.err")).
  Hypothesis L_resv : lookup (s "reservation") bh = rv_.
  Hypothesis S_nodes : safe_word (render nv).
  Hypothesis S_queue : safe_word (render qv).
  Hypothesis S_bank : safe_word (render bv).
  Hypothesis S_wall : w <> [] -> safe_word w.
  Hypothesis S_jn : safe_word jn.
  Hypothesis S_resv : forall v, rv_ = Some v -> safe_word (render v).
  Hypothesis S_shell : ~ In nl (render (lsf_exec b)).

  Definition lsf_pairs : list (rkey * str) :=
    [(RNodes, render nv); (RQueue, render qv); (RBank, render bv)]
    ++ opt_pair RWalltime (match w with [] => None | _ => Some w end)
    ++ [(RJobName, jn); (ROutput, jn ++ s ".%J.out")]
    ++ opt_pair RReservation (option_map render rv_)
    ++ [(RError, jn ++ s ".%J.err")].

  Lemma entry_b : forall k lit nm K v, lookup k bh = Some v ->
    lit = Mb ++ 32 :: nm ++ [32] -> memN 61 nm = false -> plain nm = true -> nm <> [] ->
    memN nl lit = false -> lookup nm bsub_table = Some (true, K) -> safe_word (render v) ->
    RLb (lsf_entry bh (k, [Lit lit; Fld k])) = [(K, render v)] /\ CLb (lsf_entry bh (k, [Lit lit; Fld k])) = true.
  Proof.
    intros. unfold lsf_entry. cbn [fst snd]. rewrite H. unfold fmt. cbn [flat_map]. rewrite app_nil_r.
    apply (line_sep_g Mb bsub_table Mb_comment lit nm K (render v)); auto.
  Qed.

  Lemma lsf_lines_read : RLb (lsf_lines b st vh vb vq w) = lsf_pairs /\ CLb (lsf_lines b st vh vb vq w) = true.
  Proof.
    unfold lsf_lines. fold bh.
    change (lsf_shebang_line b :: flat_map (lsf_entry bh) lsf_header)
      with ([lsf_shebang_line b] ++ flat_map (lsf_entry bh) lsf_header).
    unfold RLb, CLb. rewrite RLg_app, CLg_app.
    assert (SH : RLg Mb bsub_table [lsf_shebang_line b] = [] /\ CLg [lsf_shebang_line b] = true).
    { assert (NI : ~ In nl (lsf_shebang_line b)).
      { unfold lsf_shebang_line. apply notin_app; auto. simpl. intros [X|[X|[]]]; discriminate X. }
      rewrite RLg_one, CLg_one by auto. split; reflexivity. }
    destruct SH as [R0 C0]. rewrite R0, C0.
    unfold lsf_header. cbn [flat_map]. rewrite app_nil_r. rewrite !RLg_app, !CLg_app.
    fold RLb. fold CLb.
    let k := eval vm_compute in (s "nodes") in
    let l := eval vm_compute in (Mb ++ 32 :: s "-nnodes" ++ [32]) in
    destruct (entry_b k l (s "-nnodes") RNodes nv L_nodes eq_refl eq_refl eq_refl) as [R1 C1];
      try reflexivity; try discriminate; auto.
    let k := eval vm_compute in (s "queue") in
    let l := eval vm_compute in (Mb ++ 32 :: s "-q" ++ [32]) in
    destruct (entry_b k l (s "-q") RQueue qv L_queue eq_refl eq_refl eq_refl) as [R2 C2];
      try reflexivity; try discriminate; auto.
    let k := eval vm_compute in (s "bank") in
    let l := eval vm_compute in (Mb ++ 32 :: s "-G" ++ [32]) in
    destruct (entry_b k l (s "-G") RBank bv L_bank eq_refl eq_refl eq_refl) as [R3 C3];
      try reflexivity; try discriminate; auto.
    let k := eval vm_compute in (s "job-name") in
    let l := eval vm_compute in (Mb ++ 32 :: s "-J" ++ [32]) in
    destruct (entry_b k l (s "-J") RJobName (VStr jn) L_jn eq_refl eq_refl eq_refl) as [R5 C5];
      try reflexivity; try discriminate; auto.
    let k := eval vm_compute in (s "output") in
    let l := eval vm_compute in (Mb ++ 32 :: s "-o" ++ [32]) in
    destruct (entry_b k l (s "-o") ROutput (VStr (jn ++ s ".%J.out")) L_out eq_refl eq_refl eq_refl) as [R6 C6];
      try reflexivity; try discriminate; auto.
    { simpl render. apply safe_word_app; auto. apply forallb_safe_word. discriminate. reflexivity. }
    let k := eval vm_compute in (s "error") in
    let l := eval vm_compute in (Mb ++ 32 :: s "-e" ++ [32]) in
    destruct (entry_b k l (s "-e") RError (VStr (jn ++ s ".%J.err")) L_err eq_refl eq_refl eq_refl) as [R8 C8];
      try reflexivity; try discriminate; auto.
    { simpl render. apply safe_word_app; auto. apply forallb_safe_word. discriminate. reflexivity. }
    rewrite R1, R2, R3, R5, R6, R8, C1, C2, C3, C5, C6, C8.
    (* the two optional entries *)
    assert (W : RLb (lsf_entry bh (s "walltime", [Lit (Mb ++ 32 :: s "-W" ++ [32]); Fld (s "walltime")]))
                = opt_pair RWalltime (match w with [] => None | _ => Some w end)
                /\ CLb (lsf_entry bh (s "walltime", [Lit (Mb ++ 32 :: s "-W" ++ [32]); Fld (s "walltime")])) = true).
    { assert (WD : w = [] \/ w <> []) by (destruct w; [left|right]; congruence).
      destruct WD as [EW|EW].
      - unfold lsf_entry. cbn [fst snd]. rewrite L_wall. rewrite EW. split; reflexivity.
      - assert (LW : lookup (s "walltime") bh = Some (VStr w)) by (rewrite L_wall; destruct w; congruence).
        assert (OW : match w with [] => None | _ => Some w end = Some w) by (destruct w; congruence).
        destruct (entry_b (s "walltime") (Mb ++ 32 :: s "-W" ++ [32]) (s "-W") RWalltime (VStr w)) as [R C];
          try reflexivity; try discriminate; auto.
        simpl render in R. rewrite R, C, OW. split; reflexivity. }
    destruct W as [R4 C4].
    assert (U : RLb (lsf_entry bh (s "reservation", [Lit (Mb ++ 32 :: s "-U" ++ [32]); Fld (s "reservation")]))
                = opt_pair RReservation (option_map render rv_)
                /\ CLb (lsf_entry bh (s "reservation", [Lit (Mb ++ 32 :: s "-U" ++ [32]); Fld (s "reservation")])) = true).
    { destruct rv_ as [v|] eqn:ER.
      - destruct (entry_b (s "reservation") (Mb ++ 32 :: s "-U" ++ [32]) (s "-U") RReservation v) as [R C];
          try reflexivity; try discriminate; auto.
      - unfold lsf_entry. cbn [fst snd]. rewrite L_resv. split; reflexivity. }
    destruct U as [R7 C7].
    change (RLb (lsf_entry bh ([119; 97; 108; 108; 116; 105; 109; 101],
                               [Lit [35; 66; 83; 85; 66; 32; 45; 87; 32]; Fld [119; 97; 108; 108; 116; 105; 109; 101]])))
      with (RLb (lsf_entry bh (s "walltime", [Lit (Mb ++ 32 :: s "-W" ++ [32]); Fld (s "walltime")]))).
    change (CLb (lsf_entry bh ([119; 97; 108; 108; 116; 105; 109; 101],
                               [Lit [35; 66; 83; 85; 66; 32; 45; 87; 32]; Fld [119; 97; 108; 108; 116; 105; 109; 101]])))
      with (CLb (lsf_entry bh (s "walltime", [Lit (Mb ++ 32 :: s "-W" ++ [32]); Fld (s "walltime")]))).
    change (RLb (lsf_entry bh ([114; 101; 115; 101; 114; 118; 97; 116; 105; 111; 110],
                               [Lit [35; 66; 83; 85; 66; 32; 45; 85; 32]; Fld [114; 101; 115; 101; 114; 118; 97; 116; 105; 111; 110]])))
      with (RLb (lsf_entry bh (s "reservation", [Lit (Mb ++ 32 :: s "-U" ++ [32]); Fld (s "reservation")]))).
    change (CLb (lsf_entry bh ([114; 101; 115; 101; 114; 118; 97; 116; 105; 111; 110],
                               [Lit [35; 66; 83; 85; 66; 32; 45; 85; 32]; Fld [114; 101; 115; 101; 114; 118; 97; 116; 105; 111; 110]])))
      with (CLb (lsf_entry bh (s "reservation", [Lit (Mb ++ 32 :: s "-U" ++ [32]); Fld (s "reservation")]))).
    rewrite R4, R7, C4, C7. unfold lsf_pairs. split; reflexivity.
  Qed.
End LsfRead.

(** * jsrun *)
Definition jsrun_text (p bind : str) (g bg : option str) (a r c : str) : str :=
  join (s " ") ([s "jsrun"; s "--nrs"; p; s "-b"; bind] ++ optw (s "-g") g ++ optw (s "-B") bg
                ++ [s "-a"; a; s "-r"; r; s "-c"; c]).

Definition intable (v : val) : Prop := exists z, int_of v = Ok z.

Definition lsf_cpus (addl : dict) : val :=
  let c0 := get_default addl (s "cpus per rs") (VInt 1) in if truthy c0 then c0 else VInt 1.

Lemma par_lsf_eq : forall addl procs nodes,
  intable procs -> (truthy nodes = true -> intable nodes) ->
  intable (get_default addl (s "rs per node") (VInt 1)) ->
  intable (get_default addl (s "tasks per rs") (VInt 1)) ->
  par_lsf addl procs nodes =
  Ok (jsrun_text (render procs) (render (get_default addl (s "bind") (VStr (s "rs"))))
                 (tval (get_default addl (s "gpus") (VInt 0)))
                 (tval (get_default addl (s "bind gpus") VNone))
                 (render (get_default addl (s "tasks per rs") (VInt 1)))
                 (render (get_default addl (s "rs per node") (VInt 1)))
                 (render (lsf_cpus addl))).
Proof.
  intros addl procs nodes [zp Ip] In_ [zr Ir] [zt It]. unfold par_lsf.
  change (flag lsf_cmd_flags (s "cmd")) with (Ok (s "jsrun") : res str). cbn [bind].
  rewrite Ip, Ir, It.
  destruct (truthy nodes) eqn:T; [destruct (In_ eq_refl) as [zn I]; rewrite I|]; cbn [bind];
  change (flag lsf_cmd_flags (s "ntasks")) with (Ok (s "--nrs") : res str);
  change (flag lsf_cmd_flags (s "bind")) with (Ok (s "-b") : res str); cbn [bind];
  unfold jsrun_text, tval, lsf_cpus;
  destruct (truthy (get_default addl (s "gpus") (VInt 0)));
    destruct (truthy (get_default addl (s "bind gpus") VNone));
    change (flag lsf_cmd_flags (s "gpus")) with (Ok (s "-g") : res str);
    change (flag lsf_cmd_flags (s "bind gpus")) with (Ok (s "-B") : res str);
    change (flag lsf_cmd_flags (s "tasks per rs")) with (Ok (s "-a") : res str);
    change (flag lsf_cmd_flags (s "rs per node")) with (Ok (s "-r") : res str);
    change (flag lsf_cmd_flags (s "cpus per rs")) with (Ok (s "-c") : res str); reflexivity.
Qed.

Definition jsrun_raw (p bind : str * str) (g bg : option (str * str)) (a r c : str * str) : str :=
  jsrun_text (fst p) (fst bind) (oraw g) (oraw bg) (fst a) (fst r) (fst c).

Lemma read_jsrun_text : forall p bind g bg a r c,
  printed (fst p) (snd p) -> printed (fst bind) (snd bind) -> oprinted g -> oprinted bg ->
  printed (fst a) (snd a) -> printed (fst r) (snd r) -> printed (fst c) (snd c) ->
  read_jsrun (jsrun_raw p bind g bg a r c) =
  Some ([(RTasks, snd p); (RBind, snd bind)] ++ opt_pair RGpus (ow g) ++ opt_pair RBindGpus (ow bg)
        ++ [(RTasksPerRs, snd a); (RRsPerNode, snd r); (RCpusPerTask, snd c)])
  /\ sub_ok (jsrun_raw p bind g bg a r c) = true.
Proof.
  intros [pr pw] [br bw] g bg [ar aw] [rr rw] [cr cw] Pp Pb Pg Pbg Pa Pr Pc. simpl fst in *. simpl snd in *.
  destruct Pp as [Wp Qp Dp], Pb as [Wb Qb Db], Pa as [Wa Qa Da], Pr as [Wr Qr Dr], Pc as [Wc Qc Dc].
  split.
  - unfold read_jsrun, read_launch, jsrun_raw, jsrun_text. simpl fst.
    rewrite words_join.
    2:{ rewrite !forallb_app. simpl forallb. rewrite Qp, Qb, Qa, Qr, Qc. rewrite !noquote_optw; auto. }
    rewrite !flat_map_app. simpl flat_map. rewrite !words_optw by auto.
    rewrite Wp, Wb, Wa, Wr, Wc.
    change (words_of (s "jsrun")) with [s "jsrun"]. change (words_of (s "--nrs")) with [s "--nrs"].
    change (words_of (s "-b")) with [s "-b"]. change (words_of (s "-a")) with [s "-a"].
    change (words_of (s "-r")) with [s "-r"]. change (words_of (s "-c")) with [s "-c"].
    simpl app.
    change (strip_words [s "jsrun"] (s "jsrun" :: s "--nrs" :: pw :: s "-b" :: bw ::
              optw (s "-g") (ow g) ++ optw (s "-B") (ow bg) ++ [s "-a"; aw; s "-r"; rw; s "-c"; cw]))
      with (Some (s "--nrs" :: pw :: s "-b" :: bw ::
              optw (s "-g") (ow g) ++ optw (s "-B") (ow bg) ++ [s "-a"; aw; s "-r"; rw; s "-c"; cw])).
    destruct g as [[gr gw]|]; destruct bg as [[bgr bgw]|]; simpl ow; simpl optw; simpl app;
      repeat (first [ rewrite all_opts_sep with (k := RTasks) by (reflexivity || (vm_compute; intuition discriminate))
                    | rewrite all_opts_sep with (k := RBind) by (reflexivity || (vm_compute; intuition discriminate))
                    | rewrite all_opts_sep with (k := RGpus) by (reflexivity || (vm_compute; intuition discriminate))
                    | rewrite all_opts_sep with (k := RBindGpus) by (reflexivity || (vm_compute; intuition discriminate))
                    | rewrite all_opts_sep with (k := RTasksPerRs) by (reflexivity || (vm_compute; intuition discriminate))
                    | rewrite all_opts_sep with (k := RRsPerNode) by (reflexivity || (vm_compute; intuition discriminate))
                    | rewrite all_opts_sep with (k := RCpusPerTask) by (reflexivity || (vm_compute; intuition discriminate)) ]);
      simpl all_opts; cbv iota;
      repeat (first [ rewrite parse_sep with (k := RTasks) by (reflexivity || (vm_compute; intuition discriminate))
                    | rewrite parse_sep with (k := RBind) by (reflexivity || (vm_compute; intuition discriminate))
                    | rewrite parse_sep with (k := RGpus) by (reflexivity || (vm_compute; intuition discriminate))
                    | rewrite parse_sep with (k := RBindGpus) by (reflexivity || (vm_compute; intuition discriminate))
                    | rewrite parse_sep with (k := RTasksPerRs) by (reflexivity || (vm_compute; intuition discriminate))
                    | rewrite parse_sep with (k := RRsPerNode) by (reflexivity || (vm_compute; intuition discriminate))
                    | rewrite parse_sep with (k := RCpusPerTask) by (reflexivity || (vm_compute; intuition discriminate)) ]);
      reflexivity.
  - unfold sub_ok. apply andb_true_iff. split.
    + apply negb_true_iff. unfold jsrun_raw, jsrun_text. simpl fst. apply memN_join. reflexivity.
      rewrite !forallb_app. simpl forallb. rewrite Dp, Db, Da, Dr, Dc. rewrite !memN_join_optw; auto.
    + unfold jsrun_raw, jsrun_text. cbn [app]. rewrite join_cons by discriminate. reflexivity.
Qed.

Lemma jsrun_sub_ok : forall p bind g bg a r c,
  memN dollar p = false -> memN dollar bind = false ->
  (forall x, g = Some x -> memN dollar x = false) -> (forall x, bg = Some x -> memN dollar x = false) ->
  memN dollar a = false -> memN dollar r = false -> memN dollar c = false ->
  sub_ok (jsrun_text p bind g bg a r c) = true.
Proof.
  intros p bind g bg a r c Dp Db Dg Dbg Da Dr Dc. unfold sub_ok. apply andb_true_iff. split.
  - apply negb_true_iff. unfold jsrun_text. apply memN_join. reflexivity.
    rewrite !forallb_app.
    assert (G : forallb (fun w => negb (memN dollar w)) (optw (s "-g") g) = true).
    { destruct g as [x|]; simpl; auto. rewrite (Dg x eq_refl). reflexivity. }
    assert (BG : forallb (fun w => negb (memN dollar w)) (optw (s "-B") bg) = true).
    { destruct bg as [x|]; simpl; auto. rewrite (Dbg x eq_refl). reflexivity. }
    apply andb_true_iff; split; [|apply andb_true_iff; split; [exact G|apply andb_true_iff; split; [exact BG|]]];
      simpl forallb; rewrite ?Dp, ?Db, ?Da, ?Dr, ?Dc; reflexivity.
  - unfold jsrun_text. cbn [app]. rewrite join_cons by discriminate. reflexivity.
Qed.

(** * [get_scheduler_command], for any launcher function *)
Section SchedCmdGen.
  Variable c : case.
  Hypothesis HP : H15_parts c.
  Let st := c_step c.
  Let nodes := run_val st (s "nodes").
  Let procs := run_val st (s "procs").
  Variable par : val -> val -> res str.
  Variable tsub : tokform -> str.
  Variable bsub : str.
  Hypothesis par_tok : forall f, tok_wf f = true -> par (snd (tok_vals f)) (fst (tok_vals f)) = Ok (tsub f).
  Hypothesis tsub_ok : forall f, tok_wf f = true -> sub_ok (tsub f) = true.
  Hypothesis par_bare : schedulable st = true -> has_bare (c_cmd c) || has_bare (c_restart c) = true ->
    par procs nodes = Ok bsub.

  Lemma substitute_gen : forall ps, pieces_wf ps = true -> (has_bare ps = true -> par procs nodes = Ok bsub) ->
    substitute par nodes procs (pieces_text ps) =
    if alloc_rejected st ps then Err Diag else Ok (segs_text (map (final_seg tsub bsub) ps)).
  Proof.
    intros ps W HB.
    destruct (total_run_val st RNodes ltac:(discriminate) (hp_nodes c HP)) as [M1 _].
    destruct (total_run_val st RTasks ltac:(discriminate) (hp_procs c HP)) as [M2 _].
    rewrite (substitute_spec par tsub (total_of st RNodes) (total_of st RTasks) par_tok tsub_ok nodes procs bsub M1 M2 ps W HB).
    rewrite rejects_alloc by auto. reflexivity.
  Qed.

  Lemma sched_cmd_gen :
    scheduler_command par st =
    if schedulable st then
      if alloc_rejected st (c_cmd c) then Err Diag
      else if alloc_rejected st (c_restart c) then Err Diag
      else Ok (true, segs_text (map (final_seg tsub bsub) (c_cmd c)),
               segs_text (map (final_seg tsub bsub) (c_restart c)))
    else Ok (false, st_cmd st, st_restart st).
  Proof.
    unfold scheduler_command. unfold st. rewrite (run_get_nodes c), (run_get_procs c).
    rewrite (schedulable_truthy c HP). fold st.
    destruct (schedulable st) eqn:SC; auto. specialize (par_bare eq_refl).
    pose proof (hp_cmd c HP) as E1. pose proof (hp_restart c HP) as E2.
    pose proof (hp_cmd_wf c HP) as W1. pose proof (hp_restart_wf c HP) as W2.
    fold st in E1, E2. rewrite <- E1.
    fold nodes procs. rewrite substitute_gen; auto.
    2:{ intro B. apply par_bare. rewrite B. reflexivity. }
    destruct (alloc_rejected st (c_cmd c)); auto. cbn [bind].
    destruct (st_restart st) as [|r0 rr] eqn:R.
    - apply pieces_text_nil in E2; auto. rewrite E2. rewrite alloc_rejected_nil. reflexivity.
    - rewrite <- E2. rewrite substitute_gen; auto.
      2:{ intro B. apply par_bare. rewrite B. apply orb_true_r. }
      destruct (alloc_rejected st (c_restart c)); auto.
  Qed.
End SchedCmdGen.

(** * the LSF domain, unpacked *)
Record lsf_parts (c : case) : Prop := {
  lp_rpn : present_count (st_res (c_step c)) RRsPerNode = true;
  lp_tprs : present_count (st_res (c_step c)) RTasksPerRs = true;
  lp_cpus : match lookup (s "cpus per rs") (st_res (c_step c)) with
            | Some v => if truthy v then safe_tok (render v) else true
            | None => true
            end = true;
  lp_wall : match declared (st_res (c_step c)) RWalltime with
            | Some w => if is_hms w then forallb all_digits (split_on 58 w) else true
            | None => true
            end = true;
  lp_bnodes : match lookup (s "nodes") (b_kw (c_batch c)) with Some v => truthy v | None => true end = true;
  lp_bind : match lookup (s "bind") (st_res (c_step c)) with Some v => truthy v | None => true end = true;
  lp_nojn : has (s "job-name") (st_res (c_step c)) = false;
  lp_noout : has (s "output") (st_res (c_step c)) = false;
  lp_noerr : has (s "error") (st_res (c_step c)) = false }.

Lemma lsf_unpack : forall c, lsf_dom c = true -> lsf_parts c.
Proof.
  intros c H. unfold lsf_dom in H. cbv zeta in H.
  repeat (apply andb_true_iff in H; destruct H as [H ?]).
  constructor; auto; apply negb_true_iff; auto.
Qed.

Lemma lookup_addl : forall st name, str_eqb name (s "nodes") = false -> str_eqb name (s "procs") = false ->
  lookup name (addl_args st) = lookup name (run_items st).
Proof.
  intros. unfold addl_args.
  rewrite (lookup_filter_key (fun k => negb (str_eqb k (s "nodes")) && negb (str_eqb k (s "procs")))).
  rewrite H, H0. reflexivity.
Qed.

Lemma lookup_addl_extra : forall st name, str_eqb name (s "nodes") = false -> str_eqb name (s "procs") = false ->
  not_cmd name -> mem_str name step_run_default_keys = false ->
  lookup name (addl_args st) = lookup name (st_res st).
Proof. intros. rewrite lookup_addl by auto. rewrite lookup_run_items by auto. rewrite H2. auto. Qed.

Lemma one_word : safe_word (s "1").
Proof. apply forallb_safe_word. discriminate. reflexivity. Qed.
Lemma rs_word : safe_word (s "rs").
Proof. apply forallb_safe_word. discriminate. reflexivity. Qed.

Lemma count_intable : forall v n, count_of v = Some n -> intable v /\ safe_word (render v) /\ truthy v = true.
Proof.
  intros v n C. destruct (count_render_digits _ _ C) as [D T]. split; [|split; auto using digits_word].
  destruct v; simpl in C; try discriminate.
  - exists (Z.of_N n0). reflexivity.
  - destruct (all_digits t) eqn:A; try discriminate. exists (Z.of_N (dval 0 t)). simpl. rewrite py_int_digits; auto.
Qed.

Section LsfStep.
  Variable c : case.
  Hypothesis HP : H15_parts c.
  Hypothesis LP : lsf_parts c.
  Let st := c_step c.
  Let addl := addl_args st.

  Definition v_rpn : val := get_default addl (s "rs per node") (VInt 1).
  Definition v_tprs : val := get_default addl (s "tasks per rs") (VInt 1).
  Definition v_bind : val := get_default addl (s "bind") (VStr (s "rs")).
  Definition v_gpus : val := get_default addl (s "gpus") (VInt 0).
  Definition v_bg : val := get_default addl (s "bind gpus") VNone.

  Lemma count_key_facts : forall K name, key_name K = name -> K <> RExclusive ->
    str_eqb name (s "nodes") = false -> str_eqb name (s "procs") = false ->
    not_cmd name -> mem_str name step_run_default_keys = false ->
    present_count (st_res st) K = true ->
    let v := get_default addl name (VInt 1) in
    intable v /\ safe_word (render v) /\ Some (render v) = or_default (declared (st_res st) K) (s "1").
  Proof.
    intros K name EK NX N1 N2 NC ND PC v. unfold v, get_default, addl.
    rewrite lookup_addl_extra by auto. unfold present_count in PC. unfold declared. rewrite EK in *.
    destruct (lookup name (st_res st)) as [x|].
    - destruct (count_of x) as [n|] eqn:C; try discriminate.
      destruct (count_intable _ _ C) as [I [S T]]. rewrite T. split; [auto|split; [auto|]].
      simpl. destruct K; auto. congruence.
    - split; [|split]. exists 1%Z. reflexivity. apply one_word. reflexivity.
  Qed.

  Lemma rpn_facts : intable v_rpn /\ safe_word (render v_rpn)
    /\ Some (render v_rpn) = or_default (declared (st_res st) RRsPerNode) (s "1").
  Proof.
    apply (count_key_facts RRsPerNode (s "rs per node")); try reflexivity; try discriminate.
    split; reflexivity. apply (lp_rpn c LP).
  Qed.
  Lemma tprs_facts : intable v_tprs /\ safe_word (render v_tprs)
    /\ Some (render v_tprs) = or_default (declared (st_res st) RTasksPerRs) (s "1").
  Proof.
    apply (count_key_facts RTasksPerRs (s "tasks per rs")); try reflexivity; try discriminate.
    split; reflexivity. apply (lp_tprs c LP).
  Qed.

  Lemma bind_facts : safe_word (render v_bind)
    /\ Some (render v_bind) = or_default (declared (st_res st) RBind) (s "rs").
  Proof.
    unfold v_bind, get_default, addl. rewrite lookup_addl_extra; try reflexivity; [|split; reflexivity].
    pose proof (lp_bind c LP) as B. fold st in B. unfold declared. change (key_name RBind) with (s "bind").
    destruct (lookup (s "bind") (st_res st)) as [x|] eqn:L.
    - rewrite B. split; auto. apply (decl_safe_word (st_res st) RBind).
      + pose proof (hp_vals c HP) as V. rewrite forallb_forall in V. apply V. simpl. tauto.
      + unfold decl. change (key_name RBind) with (s "bind"). rewrite L, B. auto.
    - split. apply rs_word. reflexivity.
  Qed.

  Lemma opt_facts : forall K v, K <> RExclusive -> In K res_keys_str -> truthy v = false ->
    let x := match lookup (key_name K) (st_res st) with Some y => y | None => v end in
    tval x = declared (st_res st) K /\ (forall w, tval x = Some w -> safe_word w).
  Proof.
    intros K v NX IK TV x. unfold x, tval, declared.
    destruct (lookup (key_name K) (st_res st)) as [y|] eqn:L.
    - destruct (truthy y) eqn:T.
      + split. destruct K; auto; congruence. intros w E. inversion E; subst.
        apply (decl_safe_word (st_res st) K).
        * pose proof (hp_vals c HP) as V. rewrite forallb_forall in V. apply V. auto.
        * unfold decl. rewrite L, T. auto.
      + split; auto. intros w E. discriminate E.
    - rewrite TV. split; auto. intros w E. discriminate E.
  Qed.

  Lemma gpus_facts : tval v_gpus = declared (st_res st) RGpus /\ (forall w, tval v_gpus = Some w -> safe_word w).
  Proof.
    assert (E : v_gpus = match lookup (key_name RGpus) (st_res st) with Some y => y | None => VStr [] end).
    { unfold v_gpus, get_default, addl. rewrite lookup_addl by reflexivity.
      rewrite lookup_run_items by (split; reflexivity).
      change (mem_str (s "gpus") step_run_default_keys) with true. cbv iota. unfold run_val. reflexivity. }
    rewrite E. apply (opt_facts RGpus (VStr [])); try discriminate; auto. simpl. tauto.
  Qed.
  Lemma bg_facts : tval v_bg = declared (st_res st) RBindGpus /\ (forall w, tval v_bg = Some w -> safe_word w).
  Proof.
    assert (E : v_bg = match lookup (key_name RBindGpus) (st_res st) with Some y => y | None => VNone end).
    { unfold v_bg, get_default, addl. rewrite lookup_addl_extra; try reflexivity. split; reflexivity. }
    rewrite E. apply (opt_facts RBindGpus VNone); try discriminate; auto. simpl. tauto.
  Qed.

  Definition cpus_decl : option str :=
    match lookup (s "cpus per rs") (st_res st) with
    | Some v => if truthy v then Some (render v) else None
    | None => None
    end.
  Lemma cpus_facts : safe_word (render (lsf_cpus addl))
    /\ Some (render (lsf_cpus addl)) = or_default cpus_decl (s "1").
  Proof.
    unfold lsf_cpus, get_default, addl, cpus_decl.
    rewrite lookup_addl_extra; try reflexivity; [|split; reflexivity].
    pose proof (lp_cpus c LP) as C. fold st in C.
    destruct (lookup (s "cpus per rs") (st_res st)) as [x|].
    - destruct (truthy x) eqn:T.
      + split; auto. apply safe_tok_word. auto.
      + split. apply one_word. reflexivity.
    - split. apply one_word. reflexivity.
  Qed.

  (** the launcher text for a given task count *)
  Definition jt (pv : val) : str :=
    jsrun_text (render pv) (render v_bind) (tval v_gpus) (tval v_bg) (render v_tprs) (render v_rpn)
               (render (lsf_cpus addl)).

  Lemma par_lsf_jt : forall pv nv, intable pv -> (truthy nv = true -> intable nv) ->
    par_lsf addl pv nv = Ok (jt pv).
  Proof.
    intros. unfold jt. apply par_lsf_eq; auto. apply rpn_facts. apply tprs_facts.
  Qed.

  Definition opair (o : option str) : option (str * str) := option_map (fun w => (w, w)) o.
  Lemma opair_raw : forall o, oraw (opair o) = o. Proof. destruct o; auto. Qed.
  Lemma opair_ow : forall o, ow (opair o) = o. Proof. destruct o; auto. Qed.
  Lemma opair_printed : forall o, (forall w, o = Some w -> safe_word w) -> oprinted (opair o).
  Proof. destruct o; simpl; auto. intros. apply printed_word. auto. Qed.

  Lemma jt_read : forall pv raw w, render pv = raw -> printed raw w ->
    read_jsrun (jt pv) =
    Some ([(RTasks, w); (RBind, render v_bind)] ++ opt_pair RGpus (declared (st_res st) RGpus)
          ++ opt_pair RBindGpus (declared (st_res st) RBindGpus)
          ++ [(RTasksPerRs, render v_tprs); (RRsPerNode, render v_rpn); (RCpusPerTask, render (lsf_cpus addl))])
    /\ sub_ok (jt pv) = true.
  Proof.
    intros pv raw w ER PR.
    destruct rpn_facts as [_ [Sr _]]. destruct tprs_facts as [_ [St _]]. destruct bind_facts as [Sb _].
    destruct gpus_facts as [Eg Sg]. destruct bg_facts as [Ebg Sbg]. destruct cpus_facts as [Sc _].
    pose proof (read_jsrun_text (raw, w) (render v_bind, render v_bind) (opair (tval v_gpus)) (opair (tval v_bg))
                  (render v_tprs, render v_tprs) (render v_rpn, render v_rpn)
                  (render (lsf_cpus addl), render (lsf_cpus addl))) as R.
    unfold jsrun_raw in R. simpl fst in R. simpl snd in R. rewrite !opair_raw, !opair_ow in R.
    rewrite <- Eg, <- Ebg. unfold jt. rewrite ER.
    apply R; auto using printed_word, opair_printed.
  Qed.
  Lemma jt_sub_ok : forall pv, memN dollar (render pv) = false -> sub_ok (jt pv) = true.
  Proof.
    intros pv D. unfold jt.
    destruct rpn_facts as [_ [[_ _ _ Sr _] _]]. destruct tprs_facts as [_ [[_ _ _ St _] _]].
    destruct bind_facts as [[_ _ _ Sb _] _]. destruct gpus_facts as [_ Sg]. destruct bg_facts as [_ Sbg].
    destruct cpus_facts as [[_ _ _ Sc _] _].
    apply jsrun_sub_ok; auto.
    - intros x E. destruct (Sg x E). auto.
    - intros x E. destruct (Sbg x E). auto.
  Qed.
End LsfStep.

(** * the LSF script of a scheduled step *)
Lemma script_ok_sched_lsf : forall c sched_ok n text rs,
  schedulable (c_step c) = true -> c_be c = Lsf -> rejected c = false ->
  sched_ok (c_cmd c) text = true ->
  match st_restart (c_step c), rs with
  | [], None => True
  | _ :: _, Some (_, rt) => sched_ok (c_restart c) rt = true
  | _, _ => False
  end ->
  script_ok c sched_ok {| sc_sched := true; sc_name := n; sc_text := text; sc_restart := rs |} = true.
Proof.
  intros c sched_ok n text rs SC BE RJ G1 G2. unfold script_ok. cbv zeta. rewrite SC, BE.
  cbn [negb orb backend_eqb Bool.eqb sc_sched sc_text sc_restart]. rewrite RJ, G1. cbn [negb andb].
  destruct (st_restart (c_step c)); destruct rs as [[rn rt]|]; try contradiction; auto.
Qed.

Lemma reads_as_jsrun : forall wp wb g bg a r cc,
  reads_as ([(RTasks, wp); (RBind, wb)] ++ opt_pair RGpus g ++ opt_pair RBindGpus bg
            ++ [(RTasksPerRs, a); (RRsPerNode, r); (RCpusPerTask, cc)])
           [(RTasks, Some wp); (RGpus, g); (RBind, Some wb); (RBindGpus, bg);
            (RTasksPerRs, Some a); (RRsPerNode, Some r); (RCpusPerTask, Some cc)] jsrun_keys = true.
Proof.
  intros. unfold reads_as, jsrun_keys. destruct g, bg; simpl; rewrite ?str_eqb_refl; reflexivity.
Qed.

Section LsfCase.
  Variable c : case.
  Hypothesis HP : H15_parts c.
  Hypothesis LP : lsf_parts c.
  Hypothesis BE : c_be c = Lsf.
  Hypothesis NK6b : K6_lsf_header c = false.
  Hypothesis NK6c : K6_lsf_nodes_only c = false.
  Let st := c_step c.
  Let b := c_batch c.
  Let addl := addl_args st.
  Let nodes := run_val st (s "nodes").
  Let procs := run_val st (s "procs").

  Definition tsub_lsf (f : tokform) : str := jt c (snd (tok_vals f)).
  Definition bsub_lsf : str := jt c procs.

  Lemma tok_procs_printed : forall f, tok_wf f = true ->
    intable (snd (tok_vals f)) /\ printed (render (snd (tok_vals f))) (tok_procs f)
    /\ (truthy (fst (tok_vals f)) = true -> intable (fst (tok_vals f))).
  Proof.
    intros f W. destruct (tok_wf_parts f W) as [P Nn].
    destruct f as [n p sp | p n sp | p | n p sp]; simpl in *.
    - split; [|split]. exists (Z.of_N (dval 0 p)). apply int_of_digits; auto.
      apply printed_word. apply digits_word; auto.
      intros _. exists (Z.of_N (dval 0 n)). apply int_of_digits; auto.
    - split; [|split]. exists (Z.of_N (dval 0 p)). apply int_of_digits; auto.
      apply printed_word. apply digits_word; auto.
      intros _. exists (Z.of_N (dval 0 n)). apply int_of_digits; auto.
    - split; [|split]. exists (Z.of_N (dval 0 p)). apply int_of_digits; auto.
      apply printed_word. apply digits_word; auto.
      intros X. discriminate X.
    - split; [|split]. exists (Z.of_N (dval 0 p)). apply int_of_blanks_digits; auto.
      apply printed_blanks. apply digits_word; auto.
      intros _. exists (Z.of_N (dval 0 n)). apply int_of_digits; auto.
  Qed.

  Lemma par_tok_lsf : forall f, tok_wf f = true ->
    par_lsf addl (snd (tok_vals f)) (fst (tok_vals f)) = Ok (tsub_lsf f).
  Proof.
    intros f W. destruct (tok_procs_printed f W) as [I [_ In_]]. apply (par_lsf_jt c LP); auto.
  Qed.
  Lemma tsub_lsf_ok : forall f, tok_wf f = true -> sub_ok (tsub_lsf f) = true.
  Proof.
    intros f W. destruct (tok_procs_printed f W) as [_ [P _]].
    destruct (jt_read c HP LP (snd (tok_vals f)) _ _ eq_refl P) as [_ S]. exact S.
  Qed.

  (** a bare variable in a scheduled step: the step declares procs *)
  Lemma bare_procs : schedulable st = true -> has_bare (c_cmd c) || has_bare (c_restart c) = true ->
    total_of st RTasks <> 0.
  Proof.
    intros SC HB E. unfold K6_lsf_nodes_only in NK6c. rewrite BE in NK6c. simpl backend_eqb in NK6c.
    fold st in NK6c. rewrite E, HB in NK6c. unfold schedulable in SC. rewrite E in SC.
    simpl in SC. rewrite orb_false_r in SC. rewrite SC in NK6c. discriminate NK6c.
  Qed.

  Lemma procs_facts : total_of st RTasks <> 0 ->
    intable procs /\ printed (render procs) (render procs) /\ declared (st_res st) RTasks = Some (render procs).
  Proof.
    intros NZ. destruct (total_run_val st RTasks ltac:(discriminate) (hp_procs c HP)) as [M [T [E D]]].
    change (key_name RTasks) with (s "procs") in *. fold procs in M, T, E, D.
    apply N.eqb_neq in NZ. rewrite NZ in T. simpl in T.
    unfold tval in E, D. rewrite T in E, D. split; [|split].
    - unfold max_of in M. rewrite T in M. eexists. exact M.
    - apply printed_word. apply digits_word. apply D. reflexivity.
    - auto.
  Qed.
  Lemma nodes_intable : truthy nodes = true -> intable nodes.
  Proof.
    intros T. destruct (total_run_val st RNodes ltac:(discriminate) (hp_nodes c HP)) as [M _].
    change (key_name RNodes) with (s "nodes") in *. fold nodes in M. unfold max_of in M. rewrite T in M.
    eexists. exact M.
  Qed.

  Lemma par_bare_lsf : schedulable st = true -> has_bare (c_cmd c) || has_bare (c_restart c) = true ->
    par_lsf addl procs nodes = Ok bsub_lsf.
  Proof.
    intros SC HB. destruct (procs_facts (bare_procs SC HB)) as [I _].
    apply (par_lsf_jt c LP); auto. apply nodes_intable.
  Qed.

  Lemma sched_cmd_lsf :
    scheduler_command (par_lsf addl) st =
    if schedulable st then
      if alloc_rejected st (c_cmd c) then Err Diag
      else if alloc_rejected st (c_restart c) then Err Diag
      else Ok (true, segs_text (map (final_seg tsub_lsf bsub_lsf) (c_cmd c)),
               segs_text (map (final_seg tsub_lsf bsub_lsf) (c_restart c)))
    else Ok (false, st_cmd st, st_restart st).
  Proof.
    apply (sched_cmd_gen c HP (par_lsf addl) tsub_lsf bsub_lsf); auto using par_tok_lsf, tsub_lsf_ok, par_bare_lsf.
  Qed.

  (** every launcher piece reads back *)
  Lemma launch_ok_final_lsf : forall ps p, schedulable st = true -> pieces_wf ps = true ->
    (has_bare ps = true -> has_bare (c_cmd c) || has_bare (c_restart c) = true) -> In p ps ->
    launch_good (launch_ok_lsf st) (final_seg tsub_lsf bsub_lsf) p.
  Proof.
    intros ps p SC W HBp I. unfold launch_good. destruct p as [t| |f]; auto.
    - (* bare *)
      assert (HB : has_bare ps = true).
      { unfold has_bare. apply existsb_exists. exists PBare. auto. }
      destruct (procs_facts (bare_procs SC (HBp HB))) as [_ [P D]].
      destruct (jt_read c HP LP procs _ _ eq_refl P) as [R S]. simpl seg_text. unfold bsub_lsf. split.
      + unfold launch_ok_lsf. fold st in R. rewrite R. unfold want_lsf. fold st. rewrite D.
        destruct (rpn_facts c LP) as [_ [_ Er]]. destruct (tprs_facts c LP) as [_ [_ Et]].
        destruct (bind_facts c HP LP) as [_ Eb]. destruct (cpus_facts c LP) as [_ Ec].
        fold st in Er, Et, Eb, Ec. unfold cpus_decl in Ec. fold st in Ec.
        rewrite <- Er, <- Et, <- Eb, <- Ec. apply reads_as_jsrun.
      + intro E. rewrite E in S. discriminate S.
    - (* token *)
      pose proof (pieces_tok_wf st ps f W I) as TW.
      destruct (tok_procs_printed f TW) as [_ [P _]].
      destruct (jt_read c HP LP (snd (tok_vals f)) _ _ eq_refl P) as [R S]. simpl seg_text. unfold tsub_lsf. split.
      + unfold launch_ok_lsf. fold st in R. rewrite R. unfold want_lsf. fold st.
        destruct (rpn_facts c LP) as [_ [_ Er]]. destruct (tprs_facts c LP) as [_ [_ Et]].
        destruct (bind_facts c HP LP) as [_ Eb]. destruct (cpus_facts c LP) as [_ Ec].
        fold st in Er, Et, Eb, Ec. unfold cpus_decl in Ec. fold st in Ec.
        rewrite <- Er, <- Et, <- Eb, <- Ec. apply reads_as_jsrun.
      + intro E. rewrite E in S. discriminate S.
  Qed.
End LsfCase.

(** * the walltime of an LSF step *)
Lemma colon_safe : safe_char 58 = true. Proof. reflexivity. Qed.

Lemma lsf_wall_facts : forall c, H15_parts c -> lsf_parts c ->
  exists w, lsf_walltime (lsf_w0 (c_step c)) = Ok w
    /\ (w = [] -> decl (st_res (c_step c)) (s "walltime") = None)
    /\ (w <> [] -> safe_word w)
    /\ lsf_walltime_ok (effective (c_batch c) (c_step c) RWalltime) (match w with [] => None | _ => Some w end) = true.
Proof.
  intros c HP LP. set (st := c_step c).
  assert (EF : effective (c_batch c) st RWalltime = option_map render (decl (st_res st) (s "walltime"))).
  { unfold effective. simpl batch_level. cbv iota. rewrite declared_render by discriminate.
    change (key_name RWalltime) with (s "walltime"). destruct (decl (st_res st) (s "walltime")); auto. }
  rewrite EF. pose proof (lp_wall c LP) as LW. fold st in LW.
  rewrite declared_render in LW by discriminate. change (key_name RWalltime) with (s "walltime") in LW.
  unfold lsf_w0. fold st.
  destruct (decl (st_res st) (s "walltime")) as [v|] eqn:D.
  - simpl option_map in *. set (d := render v) in *.
    assert (DN : d <> []).
    { unfold d. apply render_truthy_nonnil. unfold decl in D. destruct (lookup (s "walltime") (st_res st)); try discriminate.
      destruct (truthy v0) eqn:T; inversion D; subst; auto. }
    assert (SD : safe_word d).
    { apply (decl_safe_word (st_res st) RWalltime); auto.
      pose proof (hp_vals c HP) as V. rewrite forallb_forall in V. apply V. simpl. tauto. }
    destruct (is_hms d) eqn:HMS.
    + unfold is_hms in HMS. destruct (split_on 58 d) as [|h [|m [|sec [|x r]]]] eqn:SP; try discriminate.
      unfold is_hms in LW. rewrite SP in LW. cbn [forallb] in LW.
      apply andb_true_iff in LW. destruct LW as [Dh LW]. apply andb_true_iff in LW. destruct LW as [Dm LW].
      apply andb_true_iff in LW. destruct LW as [Dsec _].
      destruct (lsf_walltime_hms d h m sec SP Dh Dm Dsec) as [r [E [HM [a [bb [ER [Da Db]]]]]]].
      exists r. split; auto. split; [|split].
      * intro Z. subst r. destruct a; discriminate.
      * intros _. subst r. apply forallb_safe_word. destruct a; discriminate.
        apply all_digits_forall in Da. apply all_digits_forall in Db.
        assert (X : forall t, forallb is_digit t = true -> forallb safe_char t = true).
        { intros t Ht. rewrite forallb_forall in *. intros y I. apply digit_safe. auto. }
        rewrite forallb_app. cbn [forallb]. rewrite (X a Da), (X bb Db). reflexivity.
      * assert (RN : r <> []) by (subst r; destruct a; discriminate).
        destruct r as [|r0 r1]; try congruence. unfold lsf_walltime_ok.
        assert (HD : is_hms d = true) by (unfold is_hms; rewrite SP; reflexivity).
        rewrite HD. rewrite HM. unfold hms_minutes. rewrite SP. rewrite !py_nat_digits by auto.
        apply N.eqb_refl.
    + exists d. rewrite lsf_walltime_other by auto. split; auto. split; [|split].
      * intro Z. congruence.
      * auto.
      * destruct d as [|d0 d1]; try congruence. unfold lsf_walltime_ok. rewrite HMS. apply str_eqb_refl.
  - exists []. split. reflexivity. split; auto. split. congruence. reflexivity.
Qed.

(** * the LSF script, read back *)
Section LsfScript.
  Variable c : case.
  Hypothesis HP : H15_parts c.
  Hypothesis LP : lsf_parts c.
  Hypothesis BP : batch_parts (c_be c) (c_batch c).
  Hypothesis BE : c_be c = Lsf.
  Hypothesis NK6b : K6_lsf_header c = false.
  Hypothesis NK6c : K6_lsf_nodes_only c = false.
  Let st := c_step c.
  Let b := c_batch c.
  Variables vh vb vq : val.
  Hypothesis Hh : lookup (s "host") (b_kw b) = Some vh.
  Hypothesis Hb : lookup (s "bank") (b_kw b) = Some vb.
  Hypothesis Hq : lookup (s "queue") (b_kw b) = Some vq.
  Hypothesis Sb : truthy vb = true /\ safe_tok (render vb) = true.
  Hypothesis Sq : truthy vq = true /\ safe_tok (render vq) = true.
  Variable w : str.
  Hypothesis Hw : lsf_walltime (lsf_w0 st) = Ok w.
  Hypothesis Hw_nil : w = [] -> decl (st_res st) (s "walltime") = None.
  Hypothesis Hw_safe : w <> [] -> safe_word w.
  Hypothesis Hw_ok : lsf_walltime_ok (effective b st RWalltime) (match w with [] => None | _ => Some w end) = true.

  Let lines := lsf_lines b st vh vb vq w.
  Definition finl (ps : list piece) : str := segs_text (map (final_seg (tsub_lsf c) (bsub_lsf c)) ps).
  Let qv := match decl (st_res st) (s "queue") with Some v => v | None => vq end.
  Let bv := match decl (st_res st) (s "bank") with Some v => v | None => vb end.
  Let rv_ := match decl (st_res st) (s "reservation") with Some v => Some v | None => decl (b_kw b) (s "reservation") end.
  Let jn := under (st_name st).

  Lemma lsf_exec_shell : lsf_exec b = shell_of (b_kw b).
  Proof. reflexivity. Qed.

  Lemma jn_safe : safe_word jn.
  Proof.
    pose proof (hp_name c HP) as NM. fold st in NM. unfold safe_name in NM. rewrite BE in NM. cbn [job_name] in NM.
    assert (NN : st_name st <> []). { intro Z. rewrite Z in NM. discriminate NM. }
    assert (F : forallb (fun x => safe_char x && negb (x =? 47)) (under (st_name st)) = true).
    { destruct (st_name st). congruence. exact NM. }
    apply forallb_safe_word. apply under_nonnil. auto.
    rewrite forallb_forall in *. intros x I. apply F in I. apply andb_true_iff in I. tauto.
  Qed.

  Lemma lsf_nodes_safe : safe_word (render (lsf_nodes b st)).
  Proof.
    unfold lsf_nodes. destruct (decl (st_res st) (s "nodes")) as [v|] eqn:D.
    - apply digits_word. apply (decl_count_word (st_res st) RNodes); auto. apply (hp_nodes c HP).
    - unfold get_default. pose proof (lp_bnodes c LP) as BN. fold b in BN.
      destruct (lookup (s "nodes") (b_kw b)) as [v|] eqn:L.
      + apply digits_word. apply (decl_count_word (b_kw b) RNodes). apply (bp_nodes _ _ BP).
        unfold decl. change (key_name RNodes) with (s "nodes"). rewrite L, BN. auto.
      + apply one_word.
  Qed.

  Lemma lsf_pairs_read :
    RLb lines = lsf_pairs st w (lsf_nodes b st) qv bv rv_ /\ CLb lines = true.
  Proof.
    pose proof (hp_nodup c HP) as ND. pose proof (lp_nojn c LP) as NJ. pose proof (lp_noout c LP) as NO.
    pose proof (lp_noerr c LP) as NE. fold st in ND, NJ, NO, NE.
    apply lsf_lines_read.
    - apply bh_nodes; auto.
    - apply bh_queue; auto.
    - apply bh_bank; auto.
    - apply bh_walltime; auto.
    - apply bh_jobname; auto.
    - apply bh_output; auto.
    - apply bh_error; auto.
    - apply bh_reservation; auto.
    - apply lsf_nodes_safe.
    - unfold qv. destruct (decl (st_res st) (s "queue")) as [v|] eqn:D.
      + apply (decl_safe_word (st_res st) RQueue); auto.
        pose proof (hp_vals c HP) as V. rewrite forallb_forall in V. apply V. simpl. tauto.
      + apply safe_tok_word. tauto.
    - unfold bv. destruct (decl (st_res st) (s "bank")) as [v|] eqn:D.
      + apply (decl_safe_word (st_res st) RBank); auto.
        pose proof (hp_vals c HP) as V. rewrite forallb_forall in V. apply V. simpl. tauto.
      + apply safe_tok_word. tauto.
    - auto.
    - apply jn_safe.
    - intros v E. unfold rv_ in E. destruct (decl (st_res st) (s "reservation")) as [v'|] eqn:D.
      + inversion E; subst. apply (decl_safe_word (st_res st) RReservation); auto.
        pose proof (hp_vals c HP) as V. rewrite forallb_forall in V. apply V. simpl. tauto.
      + apply (decl_safe_word (b_kw b) RReservation); auto.
        pose proof (bp_vals _ _ BP) as V. rewrite forallb_forall in V. apply V. simpl. tauto.
    - rewrite lsf_exec_shell. apply (shell_safe (c_be c)). auto.
  Qed.
End LsfScript.

Definition lsf_expect (n q bk : str) (ow orv : option str) (k : rkey) : option str :=
  match k with
  | RNodes => Some n | RQueue => Some q | RBank => Some bk | RWalltime => ow | RReservation => orv
  | _ => None
  end.

Lemma rget_lsf_pairs : forall st w nv qv bv rv_ k, In k (RWalltime :: lsf_header_keys) ->
  rget k (lsf_pairs st w nv qv bv rv_) =
    lsf_expect (render nv) (render qv) (render bv) (match w with [] => None | _ => Some w end) (option_map render rv_) k
  /\ (count_key k (lsf_pairs st w nv qv bv rv_) <= 1)%nat.
Proof.
  intros st w nv qv bv rv_ k I. unfold lsf_pairs.
  destruct (match w with [] => None | _ => Some w end) as [ww|]; destruct (option_map render rv_) as [rr|];
    simpl in I; repeat (destruct I as [I|I]; [subst k; split; [reflexivity|unfold count_key; simpl; lia]|]);
    destruct I.
Qed.

Section LsfScript2.
  Variable c : case.
  Hypothesis HP : H15_parts c.
  Hypothesis LP : lsf_parts c.
  Hypothesis BP : batch_parts (c_be c) (c_batch c).
  Hypothesis BE : c_be c = Lsf.
  Hypothesis NK6b : K6_lsf_header c = false.
  Hypothesis NK6c : K6_lsf_nodes_only c = false.
  Let st := c_step c.
  Let b := c_batch c.
  Variables vh vb vq : val.
  Hypothesis Hh : lookup (s "host") (b_kw b) = Some vh.
  Hypothesis Hb : lookup (s "bank") (b_kw b) = Some vb.
  Hypothesis Hq : lookup (s "queue") (b_kw b) = Some vq.
  Hypothesis Sb : truthy vb = true /\ safe_tok (render vb) = true.
  Hypothesis Sq : truthy vq = true /\ safe_tok (render vq) = true.
  Variable w : str.
  Hypothesis Hw : lsf_walltime (lsf_w0 st) = Ok w.
  Hypothesis Hw_nil : w = [] -> decl (st_res st) (s "walltime") = None.
  Hypothesis Hw_safe : w <> [] -> safe_word w.
  Hypothesis Hw_ok : lsf_walltime_ok (effective b st RWalltime) (match w with [] => None | _ => Some w end) = true.
  Hypothesis SC : schedulable st = true.

  Let lines := lsf_lines b st vh vb vq w.
  Let qv := match decl (st_res st) (s "queue") with Some v => v | None => vq end.
  Let bv := match decl (st_res st) (s "bank") with Some v => v | None => vb end.
  Let rv_ := match decl (st_res st) (s "reservation") with Some v => Some v | None => decl (b_kw b) (s "reservation") end.

  Lemma eff_lsf : forall k, In k lsf_header_keys ->
    lsf_expect (render (lsf_nodes b st)) (render qv) (render bv) (match w with [] => None | _ => Some w end)
               (option_map render rv_) k = effective_lsf b st k.
  Proof.
    intros k I. simpl in I.
    assert (NX : effective b st RExclusive = None /\ effective b st RQos = None).
    { unfold K6_lsf_header in NK6b. rewrite BE in NK6b. simpl backend_eqb in NK6b. fold st b in NK6b.
      destruct (effective b st RExclusive); destruct (effective b st RQos); try discriminate NK6b; auto. }
    destruct NX as [NX NQ].
    repeat (destruct I as [I|I]; [subst k; simpl lsf_expect; simpl effective_lsf|]); auto.
    - (* nodes *)
      unfold effective. simpl batch_level. cbv iota. rewrite !declared_render by discriminate.
      change (key_name RNodes) with (s "nodes"). unfold lsf_nodes.
      destruct (decl (st_res st) (s "nodes")) as [v|]; auto. unfold get_default, decl.
      pose proof (lp_bnodes c LP) as BN. fold b in BN.
      destruct (lookup (s "nodes") (b_kw b)) as [v|]; auto. rewrite BN. reflexivity.
    - (* queue *)
      unfold effective. simpl batch_level. cbv iota. rewrite !declared_render by discriminate.
      change (key_name RQueue) with (s "queue"). unfold qv.
      destruct (decl (st_res st) (s "queue")) as [v|]; auto. unfold decl. rewrite Hq.
      destruct Sq as [T _]. rewrite T. reflexivity.
    - (* bank *)
      unfold effective. simpl batch_level. cbv iota. rewrite !declared_render by discriminate.
      change (key_name RBank) with (s "bank"). unfold bv.
      destruct (decl (st_res st) (s "bank")) as [v|]; auto. unfold decl. rewrite Hb.
      destruct Sb as [T _]. rewrite T. reflexivity.
    - (* reservation *)
      unfold effective. simpl batch_level. cbv iota. rewrite !declared_render by discriminate.
      change (key_name RReservation) with (s "reservation"). unfold rv_.
      destruct (decl (st_res st) (s "reservation")) as [v|]; auto.
    - destruct I.
  Qed.

  Lemma procs_nodollar : memN dollar (render (run_val st (s "procs"))) = false.
  Proof.
    destruct (total_run_val st RTasks ltac:(discriminate) (hp_procs c HP)) as [_ [_ [_ D]]].
    change (key_name RTasks) with (s "procs") in D. unfold tval in D.
    destruct (truthy (run_val st (s "procs"))) eqn:T.
    - destruct (digits_word _ (D _ eq_refl)). auto.
    - destruct (run_val st (s "procs")) as [n|t0|bb| |n]; simpl in T.
      + apply negb_false_iff in T. apply N.eqb_eq in T. subst n. reflexivity.
      + destruct t0; try discriminate. reflexivity.
      + destruct bb; try discriminate. reflexivity.
      + reflexivity.
      + apply negb_false_iff in T. apply N.eqb_eq in T. subst n. reflexivity.
  Qed.

  Lemma finl_start : forall ps, pieces_wf ps = true -> starts_cmd ps = true ->
    exists c0 t, finl c ps ++ [nl] = c0 :: t /\ cmd_start c0 = true.
  Proof.
    intros ps W S. destruct ps as [|p r]. discriminate S. unfold finl. rewrite map_cons, segs_text_cons.
    destruct p as [t0| |f]; simpl seg_text.
    - destruct t0 as [|c0 t0]. discriminate S. exists c0. eexists. split. rewrite <- !app_assoc. reflexivity. exact S.
    - unfold bsub_lsf, jt, jsrun_text. cbn [app]. rewrite join_cons by discriminate.
      exists 106. eexists. split. rewrite <- !app_assoc. reflexivity. reflexivity.
    - unfold tsub_lsf, jt, jsrun_text. cbn [app]. rewrite join_cons by discriminate.
      exists 106. eexists. split. rewrite <- !app_assoc. reflexivity. reflexivity.
  Qed.

  Lemma lsf_script_good : forall ps, pieces_wf ps = true -> starts_cmd ps = true ->
    (has_bare ps = true -> has_bare (c_cmd c) || has_bare (c_restart c) = true) ->
    lsf_script_ok c ps (join [nl] lines ++ nl :: nl :: finl c ps ++ [nl]) = true.
  Proof.
    intros ps W S HBp. destruct (finl_start ps W S) as [c0 [t [E CS]]]. rewrite E.
    destruct (lsf_pairs_read c HP LP BP BE vh vb vq) with (w := w) as [RLl CLl]; auto.
    fold st b in RLl, CLl. fold lines in RLl, CLl. unfold CLb, CLg in CLl.
    assert (NE : lines <> []) by (unfold lines, lsf_lines; discriminate).
    assert (SB : script_body (join [nl] lines ++ nl :: nl :: c0 :: t) = c0 :: t)
      by (apply script_body_eq; auto).
    assert (RD : read_bsub_all (join [nl] lines ++ nl :: nl :: c0 :: t)
                 = lsf_pairs st w (lsf_nodes b st) qv bv rv_).
    { unfold read_bsub_all. change (s "#BSUB") with Mb.
      rewrite (script_directives Mb bsub_table lines c0 t NE CLl CS). exact RLl. }
    unfold lsf_script_ok. rewrite SB. fold st b.
    apply andb_true_iff; split; [apply andb_true_iff; split; [apply andb_true_iff; split;
      [apply andb_true_iff; split; [apply andb_true_iff; split|]|]|]|].
    - apply str_eqb_eq.
      rewrite (first_line_eq _ c0 t NE CLl (lsf_shebang_line b) _ eq_refl). reflexivity.
      unfold lsf_shebang_line. apply notin_app. simpl. intros [X|[X|[]]]; discriminate X.
      apply (shell_safe (c_be c)); auto.
    - apply forallb_forall. intros k I. unfold read_bsub. rewrite RD.
      destruct (rget_lsf_pairs st w (lsf_nodes b st) qv bv rv_ k (or_intror I)) as [R _]. rewrite R.
      rewrite eff_lsf by auto. apply opt_eqb_refl.
    - unfold read_bsub. rewrite RD.
      destruct (rget_lsf_pairs st w (lsf_nodes b st) qv bv rv_ RWalltime (or_introl eq_refl)) as [R _]. rewrite R.
      exact Hw_ok.
    - apply forallb_forall. intros k I. rewrite RD. apply Nat.leb_le.
      apply (rget_lsf_pairs st w (lsf_nodes b st) qv bv rv_ k I).
    - apply negb_true_iff. rewrite <- E. unfold finl.
      change [nl] with (seg_text (SSub [nl])).
      replace (segs_text (map (final_seg (tsub_lsf c) (bsub_lsf c)) ps) ++ seg_text (SSub [nl]))
        with (segs_text (map (final_seg (tsub_lsf c) (bsub_lsf c)) ps ++ [SSub [nl]])).
      2:{ rewrite segs_text_app. reflexivity. }
      rewrite contains_var_segs.
      + rewrite existsb_app. rewrite final_no_var. reflexivity.
      + apply segs_ok_snoc; [|reflexivity].
        apply (final_seg_ok (par_lsf (addl_args st)) (tsub_lsf c)); auto.
        * intros f TW. apply par_tok_lsf; auto.
        * intros f TW. apply tsub_lsf_ok; auto.
        * unfold bsub_lsf. apply (jt_sub_ok c HP LP). apply procs_nodollar.
    - rewrite <- E. unfold finl. apply match_body_final.
      + reflexivity.
      + intros p I. apply (launch_ok_final_lsf c HP LP BE NK6c ps); auto.
  Qed.
End LsfScript2.

(** * the theorem *)
Lemma lsf_body_eq : forall cmd, format lsf_body (pos1 cmd) = Ok (nl :: nl :: cmd ++ [nl]).
Proof. intros. unfold lsf_body, pos1. simpl. rewrite ?app_nil_r. reflexivity. Qed.
Lemma lsf_local_header_eq : forall b, format lsf_local_header [(s "0", lsf_exec b)] = Ok (shebang_of b).
Proof. intros. unfold lsf_local_header, shebang_of. simpl. rewrite ?app_nil_r. reflexivity. Qed.
Lemma lsf_name_ok : forall tpl n, tpl = lsf_script_name \/ tpl = lsf_restart_name ->
  exists nm, format tpl (pos2 n lsf_extension) = Ok nm.
Proof. intros tpl n [E|E]; subst; simpl; eexists; reflexivity. Qed.

Theorem lsf_holds : forall c, H15 c = true -> c_be c = Lsf ->
  (schedulable (c_step c) = true -> K6_lsf_header c = false /\ K6_lsf_nodes_only c = false) ->
  C15_holds c (run_model c) = true.
Proof.
  intros c H BE K6.
  pose proof (H15_unpack c H) as HP. pose proof (batch_unpack _ _ (hp_batch c HP)) as BP.
  assert (LP : lsf_parts c).
  { apply lsf_unpack. pose proof (hp_lsf c HP) as L. rewrite BE in L. simpl in L. exact L. }
  destruct (batch_req _ _ BP) as [vh [vb [vq [Hh [Hb [Hq [Sb Sq]]]]]]]. rewrite BE; discriminate.
  set (st := c_step c) in *. set (b := c_batch c) in *.
  unfold run_model. rewrite BE. fold st b. unfold write_lsf.
  rewrite (batch_lsf_eq b vh vb vq) by auto. cbn [bind].
  destruct (schedulable st) eqn:SC.
  - (* a scheduled step *)
    destruct (K6 eq_refl) as [K6b K6c].
    unfold st at 1 2. rewrite (sched_cmd_lsf c HP LP BE K6c). fold st. rewrite SC.
    destruct (alloc_rejected st (c_cmd c)) eqn:R1.
    { unfold C15_holds. rewrite BE. fold st. rewrite SC. unfold rejected. fold st. rewrite R1. reflexivity. }
    destruct (alloc_rejected st (c_restart c)) eqn:R2.
    { unfold C15_holds. rewrite BE. fold st. rewrite SC. unfold rejected. fold st. rewrite R2. rewrite orb_true_r. reflexivity. }
    assert (RJ : rejected c = false) by (unfold rejected; fold st; rewrite R1, R2; reflexivity).
    cbn [bind]. cbv beta iota.
    destruct (lsf_name_ok lsf_script_name (st_name st) (or_introl eq_refl)) as [nm1 N1]. rewrite N1. cbn [bind].
    destruct (lsf_wall_facts c HP LP) as [w [Hw [Hw_nil [Hw_safe Hw_ok]]]]. fold st b in Hw, Hw_nil, Hw_safe, Hw_ok.
    unfold header_lsf. rewrite (header_lines_lsf_eq b st vh vb vq Hh Hb Hq w Hw). cbn [bind].
    rewrite lsf_body_eq. cbn [bind].
    set (lines := lsf_lines b st vh vb vq w).
    set (cmd' := segs_text (map (final_seg (tsub_lsf c) (bsub_lsf c)) (c_cmd c))).
    set (rst' := segs_text (map (final_seg (tsub_lsf c) (bsub_lsf c)) (c_restart c))).
    assert (G1 : lsf_script_ok c (c_cmd c) (join [nl] lines ++ nl :: nl :: cmd' ++ [nl]) = true).
    { apply (lsf_script_good c HP LP BP BE K6b K6c vh vb vq) with (w := w); auto.
      - apply (hp_cmd_wf c HP). - apply (hp_cmd_start c HP). - intros X. rewrite X. reflexivity. }
    unfold restart_part.
    assert (CRd : c_restart c = [] \/ c_restart c <> []) by (destruct (c_restart c); [left|right]; congruence).
    destruct CRd as [CR|CR].
    + assert (RS : st_restart st = []).
      { pose proof (hp_restart c HP) as E. fold st in E. rewrite <- E, CR. reflexivity. }
      assert (Z : rst' = []) by (unfold rst'; rewrite CR; reflexivity). rewrite Z. cbn [bind].
      unfold C15_holds. rewrite BE. apply script_ok_sched_lsf; auto. fold st. rewrite RS. exact I.
    + assert (SR : starts_cmd (c_restart c) = true).
      { pose proof (hp_restart_start c HP) as X. destruct (c_restart c); auto; congruence. }
      assert (G2 : lsf_script_ok c (c_restart c) (join [nl] lines ++ nl :: nl :: rst' ++ [nl]) = true).
      { apply (lsf_script_good c HP LP BP BE K6b K6c vh vb vq) with (w := w); auto.
        - apply (hp_restart_wf c HP). - intros X. rewrite X. apply orb_true_r. }
      assert (NE : rst' <> []).
      { destruct (finl_start c (c_restart c)) as [c0 [t [E CS]]]; auto.
        { apply (hp_restart_wf c HP). }
        intro Z. unfold finl in E. fold rst' in E. rewrite Z in E. simpl in E.
        inversion E. subst c0. discriminate CS. }
      assert (RS : exists r0 r1, st_restart st = r0 :: r1).
      { pose proof (hp_restart c HP) as E. fold st in E. destruct (st_restart st) eqn:SRs; eauto.
        apply pieces_text_nil in E; auto. congruence. apply (hp_restart_wf c HP). }
      destruct RS as [r0 [r1 RS]].
      destruct rst' as [|x y] eqn:RR. congruence. rewrite <- RR in *.
      destruct (lsf_name_ok lsf_restart_name (st_name st) (or_intror eq_refl)) as [nm2 N2]. rewrite N2. cbn [bind].
      rewrite lsf_body_eq. cbn [bind].
      unfold C15_holds. rewrite BE. apply script_ok_sched_lsf; auto. fold st. rewrite RS. exact G2.
  - (* a local step *)
    assert (SCMD : scheduler_command (par_lsf (addl_args st)) st = Ok (false, st_cmd st, st_restart st)).
    { unfold scheduler_command. unfold st. rewrite (run_get_nodes c), (run_get_procs c).
      rewrite (schedulable_truthy c HP). fold st. rewrite SC. reflexivity. }
    rewrite SCMD. cbn [bind]. cbv beta iota.
    destruct (lsf_name_ok lsf_script_name (st_name st) (or_introl eq_refl)) as [nm1 N1]. rewrite N1. cbn [bind].
    rewrite lsf_local_header_eq. cbn [bind]. rewrite lsf_body_eq. cbn [bind].
    assert (G1 : verbatim_ok c (st_cmd st) (shebang_of b ++ nl :: nl :: st_cmd st ++ [nl]) = true).
    { pose proof (hp_cmd c HP) as E. fold st in E. rewrite <- E. apply verbatim_good; auto.
      apply (hp_cmd_wf c HP). apply (hp_cmd_start c HP). }
    unfold restart_part.
    destruct (st_restart st) as [|r0 r1] eqn:RS.
    + cbn [bind]. unfold C15_holds. rewrite BE. apply script_ok_local; auto. fold st. rewrite RS. exact I.
    + rewrite <- RS.
      destruct (lsf_name_ok lsf_restart_name (st_name st) (or_intror eq_refl)) as [nm2 N2]. rewrite N2. cbn [bind].
      rewrite lsf_body_eq. cbn [bind].
      assert (G2 : verbatim_ok c (st_restart st) (shebang_of b ++ nl :: nl :: st_restart st ++ [nl]) = true).
      { pose proof (hp_restart c HP) as E. fold st in E. rewrite <- E. apply verbatim_good; auto.
        apply (hp_restart_wf c HP).
        pose proof (hp_restart_start c HP) as X. destruct (c_restart c) eqn:CR; auto.
        unfold pieces_text in E. simpl in E. rewrite RS in E. discriminate. }
      unfold C15_holds. rewrite BE. apply script_ok_local; auto. fold st. rewrite RS. rewrite <- RS. exact G2.
Qed.

(** * the named statements for LSF *)
Definition lsf_header_reads (c : case) (text : str) : Prop :=
  first_line text = shebang_of (c_batch c) /\
  (forall k, In k lsf_header_keys -> read_bsub text k = effective_lsf (c_batch c) (c_step c) k) /\
  lsf_walltime_ok (effective (c_batch c) (c_step c) RWalltime) (read_bsub text RWalltime) = true /\
  (forall k, In k (RWalltime :: lsf_header_keys) -> (count_key k (read_bsub_all text) <= 1)%nat).
Definition lsf_launcher_reads (c : case) (ps : list piece) (text : str) : Prop :=
  containsb launcher_var (script_body text) = false /\
  match_body (launch_ok_lsf (c_step c)) (ps ++ [PText [nl]]) (script_body text) = true.

Lemma lsf_script_ok_reads : forall c ps text, lsf_script_ok c ps text = true ->
  lsf_header_reads c text /\ lsf_launcher_reads c ps text.
Proof.
  intros c ps text H. unfold lsf_script_ok in H.
  repeat (apply andb_true_iff in H; destruct H as [H ?]).
  apply str_eqb_eq in H. apply negb_true_iff in H1.
  rewrite forallb_forall in H4. rewrite forallb_forall in H2.
  split; [split; [auto|split; [|split; auto]]|split; auto].
  - intros k I. apply opt_eqb_eq. auto.
  - intros k I. apply Nat.leb_le. auto.
Qed.

Lemma C15_lsf_sched_lemma : forall c, H15 c = true -> c_be c = Lsf ->
  K6_lsf_header c = false -> K6_lsf_nodes_only c = false -> schedulable (c_step c) = true ->
  (rejected c = true /\ run_model c = OExc Diag) \/
  (rejected c = false /\ exists sc, run_model c = OScript sc /\ sc_sched sc = true
     /\ lsf_header_reads c (sc_text sc) /\ lsf_launcher_reads c (c_cmd c) (sc_text sc)
     /\ match st_restart (c_step c), sc_restart sc with
        | [], None => True
        | _ :: _, Some (_, rt) => lsf_header_reads c rt /\ lsf_launcher_reads c (c_restart c) rt
        | _, _ => False
        end).
Proof.
  intros c H BE K6b K6c SC.
  assert (Hh : C15_holds c (run_model c) = true) by (apply lsf_holds; auto).
  destruct (run_model c) as [e|sc].
  - left. destruct e; simpl in Hh; try discriminate.
    repeat (apply andb_true_iff in Hh; destruct Hh as [Hh ?]). auto.
  - right. simpl in Hh. rewrite BE in Hh. unfold script_ok in Hh. cbv zeta in Hh.
    rewrite SC, BE in Hh. cbn [negb orb backend_eqb] in Hh.
    repeat (apply andb_true_iff in Hh; destruct Hh as [Hh ?]).
    apply andb_true_iff in H1. destruct H1 as [RJ SO].
    apply negb_true_iff in RJ. split; auto. exists sc.
    destruct (lsf_script_ok_reads _ _ _ SO) as [A B].
    split; [auto|]. split; [destruct (sc_sched sc); simpl in *; congruence|]. split; [exact A|]. split; [exact B|].
    destruct (st_restart (c_step c)); destruct (sc_restart sc) as [[rn rt]|]; auto; try discriminate.
    apply lsf_script_ok_reads. auto.
Qed.

Lemma C15_ok_lsf : forall c, c_be c = Lsf -> K6_lsf_header c = false -> K6_lsf_nodes_only c = false ->
  C15_ok c (run_model c) = true.
Proof.
  intros c BE K6b K6c. unfold C15_ok. destruct (H15 c) eqn:H; auto. simpl. apply lsf_holds; auto.
Qed.

Lemma C15_total_lsf_lemma : forall c, H15 c = true -> c_be c = Lsf ->
  (schedulable (c_step c) = true -> K6_lsf_header c = false /\ K6_lsf_nodes_only c = false) ->
  run_model c <> OExc Internal.
Proof.
  intros c H BE K6 X. pose proof (lsf_holds c H BE K6) as Hh. rewrite X in Hh. discriminate Hh.
Qed.

(** C15 proofs, part 4: the Slurm launcher invocation ([par_slurm]) and its
    reading by [read_srun]; [match_body] on a fully substituted command. *)
From Coq Require Import List Arith NArith ZArith Bool Lia DecimalPos.
From MWF Require Import Base.Str Gen.HeaderData Sched.Header Sched.Launcher Sched.Readers
  Sched.StrFacts Sched.SegProofs Sched.LauncherProofs Sched.ReadProofs.
Import ListNotations.
Local Open Scope N_scope.
Local Open Scope list_scope.

(** * values that are safe to print *)
Lemma safe_char_plain : forall c, safe_char c = true -> plain_char c = true /\ c <> nl /\ c <> dollar /\ 32 < c.
Proof.
  intros c H. unfold safe_char in H.
  repeat (apply andb_true_iff in H; destruct H as [H ?]).
  apply N.ltb_lt in H. apply N.ltb_lt in H1.
  apply negb_true_iff in H0. repeat (apply orb_false_iff in H0; destruct H0 as [H0 ?]).
  repeat match goal with X : (_ =? _) = false |- _ => apply N.eqb_neq in X end.
  unfold plain_char, is_blank_char, quote, nl, dollar.
  split; [|repeat split; lia].
  apply andb_true_iff. split; apply negb_true_iff.
  - apply orb_false_iff. split; apply N.eqb_neq; lia.
  - apply N.eqb_neq. auto.
Qed.

Record safe_word (t : str) : Prop := {
  sw_plain : plain t = true;
  sw_nonnil : t <> [];
  sw_nonl : ~ In nl t;
  sw_nodollar : memN dollar t = false;
  sw_noquote : noquote t = true }.

Lemma forallb_safe_word : forall t, t <> [] -> forallb safe_char t = true -> safe_word t.
Proof.
  intros t NE H. rewrite forallb_forall in H.
  assert (P : plain t = true).
  { unfold plain. apply forallb_forall. intros c I. apply (safe_char_plain c (H c I)). }
  constructor; auto.
  - intro I. destruct (safe_char_plain _ (H _ I)) as [_ [X _]]. congruence.
  - destruct (memN dollar t) eqn:E; auto. apply memN_true in E.
    destruct (safe_char_plain _ (H _ E)) as [_ [_ [X _]]]. congruence.
  - apply plain_noquote. auto.
Qed.

Lemma safe_tok_word : forall t, safe_tok t = true -> safe_word t.
Proof.
  intros t H. unfold safe_tok in H. destruct t as [|c t]. discriminate.
  apply andb_true_iff in H. destruct H as [_ H]. apply forallb_safe_word; auto. discriminate.
Qed.

Lemma digit_safe : forall c, is_digit c = true -> safe_char c = true.
Proof.
  intros c H. apply digit_bounds in H. unfold safe_char.
  repeat (apply andb_true_iff; split); try (apply N.ltb_lt; lia).
  apply negb_true_iff. repeat (apply orb_false_iff; split); apply N.eqb_neq; lia.
Qed.

Lemma digits_word : forall t, all_digits t = true -> safe_word t.
Proof.
  intros t H. apply forallb_safe_word. apply all_digits_nonnil; auto.
  apply all_digits_forall in H. rewrite forallb_forall in *. intros c I. apply digit_safe. auto.
Qed.

(** decimal rendering of a number *)
Lemma uint_str_digits : forall d, forallb is_digit (uint_str d) = true.
Proof. induction d; simpl; auto. Qed.
Lemma N_dec_digits : forall n, n <> 0 -> all_digits (N_dec n) = true.
Proof.
  intros n H. unfold all_digits, N_dec. destruct n as [|p]. congruence.
  pose proof (uint_str_digits (N.to_uint (N.pos p))) as D.
  destruct (uint_str (N.to_uint (N.pos p))) eqn:E; auto.
  exfalso.
  assert (U : forall u, uint_str u = [] -> u = Decimal.Nil) by (destruct u; simpl; intros; try discriminate; auto).
  apply U in E. simpl in E. apply (DecimalPos.Unsigned.to_uint_nonnil p). auto.
Qed.

(** a count value: positive integer or non-zero decimal string *)
Lemma count_render_digits : forall v n, count_of v = Some n -> all_digits (render v) = true /\ truthy v = true.
Proof.
  intros v n H. destruct v; simpl in H; try discriminate.
  - destruct (N.eqb_spec n0 0); try discriminate. split. apply N_dec_digits; auto.
    simpl. apply negb_true_iff. apply N.eqb_neq. auto.
  - destruct (all_digits t) eqn:D; try discriminate. split; auto. apply truthy_digits; auto.
Qed.

(** * [par_slurm] *)
Definition slurm_extra_one (kv : str * val) : list str :=
  let (k, v) := kv in
  if mem_str k slurm_unsupported then []
  else match lookup k slurm_cmd_flags with
       | Some f => if truthy v then [f; render v] else []
       | None => []
       end.
Definition slurm_extra (addl : dict) : list str := flat_map slurm_extra_one addl.
Definition optw (flag : str) (o : option str) : list str := match o with Some v => [flag; v] | None => [] end.
Definition tval (v : val) : option str := if truthy v then Some (render v) else None.

Definition parf_slurm (addl : dict) (procs nodes : val) : str :=
  join (s " ") (s "srun" :: optw (s "-n") (tval procs) ++ optw (s "-N") (tval nodes) ++ slurm_extra addl).

Lemma par_slurm_eq : forall addl procs nodes, par_slurm addl procs nodes = Ok (parf_slurm addl procs nodes).
Proof.
  intros. unfold par_slurm, parf_slurm, tval.
  change (flag slurm_cmd_flags (s "cmd")) with (Ok (s "srun") : res str). simpl bind.
  destruct (truthy procs), (truthy nodes);
    change (flag slurm_cmd_flags (s "ntasks")) with (Ok (s "-n") : res str);
    change (flag slurm_cmd_flags (s "nodes")) with (Ok (s "-N") : res str); reflexivity.
Qed.

Definition cpt_key : str := s "cores per task".

Lemma slurm_extra_one_nonnil : forall k v, slurm_extra_one (k, v) <> [] -> k = cpt_key.
Proof.
  intros k v H. unfold slurm_extra_one in H.
  destruct (mem_str k slurm_unsupported) eqn:U. congruence.
  unfold slurm_cmd_flags in H. simpl lookup in H.
  repeat match type of H with
         | context [str_eqb k ?x] =>
           let E := fresh "E" in
           destruct (str_eqb k x) eqn:E;
           [ apply str_eqb_eq in E; subst k; try (vm_compute in U; discriminate U); try reflexivity | ]
         end.
  congruence.
Qed.

Lemma slurm_extra_nil : forall d, (forall k v, In (k, v) d -> k <> cpt_key) -> slurm_extra d = [].
Proof.
  induction d as [|[k v] d]; intros H. reflexivity.
  unfold slurm_extra. simpl. fold (slurm_extra d). rewrite IHd.
  - rewrite app_nil_r. destruct (slurm_extra_one (k, v)) eqn:E; auto.
    exfalso. apply (H k v). left. auto. apply (slurm_extra_one_nonnil k v). rewrite E. discriminate.
  - intros. apply (H k0 v0). right. auto.
Qed.

Lemma mem_str_true : forall k l, mem_str k l = true -> In k l.
Proof.
  induction l; simpl; intros. discriminate. apply orb_true_iff in H. destruct H.
  apply str_eqb_eq in H. auto. auto.
Qed.
Lemma mem_str_false : forall k l, mem_str k l = false -> ~ In k l.
Proof.
  induction l; simpl; intros H I. auto. apply orb_false_iff in H. destruct H as [H1 H2].
  destruct I. subst. rewrite str_eqb_refl in H1. discriminate. apply IHl; auto.
Qed.

(** the value of a key in the step's [run] dictionary *)
Definition run_val (st : step) (k : str) : val :=
  match lookup k (st_res st) with Some v => v | None => VStr [] end.

Lemma slurm_extra_app : forall a b, slurm_extra (a ++ b) = slurm_extra a ++ slurm_extra b.
Proof. intros. unfold slurm_extra. apply flat_map_app. Qed.

Lemma slurm_extra_addl : forall st,
  slurm_extra (addl_args st) = optw (s "-c") (tval (run_val st cpt_key)).
Proof.
  intros st. unfold addl_args, run_items. rewrite filter_app. rewrite slurm_extra_app.
  rewrite (slurm_extra_nil (filter _ (filter _ (st_res st)))).
  2:{ intros k v I E. apply filter_In in I. destruct I as [I _]. apply filter_In in I. destruct I as [_ I].
      subst k. simpl in I. vm_compute in I. discriminate I. }
  rewrite app_nil_r.
  unfold step_run_default_keys. simpl map. simpl filter. unfold slurm_extra. simpl flat_map.
  unfold tval, run_val, optw, cpt_key.
  let x := eval vm_compute in (s "cores per task") in change (s "cores per task") with x.
  match goal with |- context [lookup ?k (st_res st)] => destruct (lookup k (st_res st)) as [v|] end; simpl.
  - destruct (truthy v); reflexivity.
  - reflexivity.
Qed.

(** * reading an srun invocation *)
Definition srun_word : str := s "srun".

(** a printed value and the word the shell sees *)
Record printed (raw word : str) : Prop := {
  pr_words : words_of raw = [word];
  pr_noquote : noquote raw = true;
  pr_nodollar : memN dollar raw = false }.

Lemma printed_word : forall t, safe_word t -> printed t t.
Proof.
  intros t S. destruct S. constructor; auto. apply words_of_plain; auto.
Qed.

Lemma noquote_app : forall a b, noquote a = true -> noquote b = true -> noquote (a ++ b) = true.
Proof. intros. unfold noquote in *. rewrite forallb_app, H, H0. auto. Qed.
Lemma noquote_blanks : forall k, noquote (blanks k) = true.
Proof. induction k; simpl; auto. Qed.
Lemma memN_app : forall c a b, memN c (a ++ b) = memN c a || memN c b.
Proof. intros. unfold memN. apply existsb_app. Qed.
Lemma memN_blanks : forall k, memN dollar (blanks k) = false.
Proof. induction k; simpl; auto. Qed.

Lemma printed_blanks : forall k t, safe_word t -> printed (blanks k ++ t) t.
Proof.
  intros k t S. destruct S. constructor.
  - unfold words_of. rewrite words_blanks. apply words_of_plain; auto.
  - apply noquote_app; auto using noquote_blanks.
  - rewrite memN_app, memN_blanks. auto.
Qed.

Definition srun_text (p n c : option str) : str :=
  join (s " ") (srun_word :: optw (s "-n") p ++ optw (s "-N") n ++ optw (s "-c") c).

Definition ow (o : option (str * str)) : option str := option_map snd o.
Definition oraw (o : option (str * str)) : option str := option_map fst o.
Definition oprinted (o : option (str * str)) : Prop :=
  match o with Some (raw, w) => printed raw w | None => True end.

Lemma words_optw : forall fl o, words_of fl = [fl] -> oprinted o ->
  flat_map words_of (optw fl (oraw o)) = optw fl (ow o).
Proof.
  intros. destruct o as [[raw w]|]; simpl; auto. rewrite H. destruct H0. rewrite pr_words0. auto.
Qed.
Lemma noquote_optw : forall fl o, noquote fl = true -> oprinted o ->
  forallb noquote (optw fl (oraw o)) = true.
Proof.
  intros. destruct o as [[raw w]|]; simpl; auto. rewrite H. destruct H0. rewrite pr_noquote0. auto.
Qed.

Lemma read_srun_text : forall p n c, oprinted p -> oprinted n -> oprinted c ->
  read_srun (srun_text (oraw p) (oraw n) (oraw c)) =
  Some (opt_pair RTasks (ow p) ++ opt_pair RNodes (ow n) ++ opt_pair RCpusPerTask (ow c)).
Proof.
  intros p n c Pp Pn Pc. unfold read_srun, read_launch, srun_text.
  rewrite words_join.
  2:{ simpl forallb. rewrite !forallb_app. rewrite !noquote_optw; auto. }
  simpl flat_map. rewrite !flat_map_app. rewrite !words_optw by auto.
  change (words_of srun_word) with [srun_word]. simpl app.
  change (strip_words [s "srun"] (srun_word :: optw (s "-n") (ow p) ++ optw (s "-N") (ow n) ++ optw (s "-c") (ow c)))
    with (Some (optw (s "-n") (ow p) ++ optw (s "-N") (ow n) ++ optw (s "-c") (ow c))).
  destruct p as [[rp wp]|]; destruct n as [[rn wn]|]; destruct c as [[rc wc]|]; simpl ow; simpl optw; simpl app;
    repeat (rewrite all_opts_sep with (k := RTasks) by (reflexivity || (vm_compute; intuition discriminate)));
    repeat (rewrite all_opts_sep with (k := RNodes) by (reflexivity || (vm_compute; intuition discriminate)));
    repeat (rewrite all_opts_sep with (k := RCpusPerTask) by (reflexivity || (vm_compute; intuition discriminate)));
    simpl all_opts; cbv iota;
    repeat (rewrite parse_sep with (k := RTasks) by (reflexivity || (vm_compute; intuition discriminate)));
    repeat (rewrite parse_sep with (k := RNodes) by (reflexivity || (vm_compute; intuition discriminate)));
    repeat (rewrite parse_sep with (k := RCpusPerTask) by (reflexivity || (vm_compute; intuition discriminate)));
    reflexivity.
Qed.

(** the text has no "$" and starts harmlessly *)
Lemma memN_join_optw : forall fl o, memN dollar fl = false -> oprinted o ->
  forallb (fun w => negb (memN dollar w)) (optw fl (oraw o)) = true.
Proof.
  intros. destruct o as [[raw w]|]; simpl; auto. rewrite H. destruct H0. rewrite pr_nodollar0. auto.
Qed.

Lemma memN_join : forall c sep ws, memN c sep = false -> forallb (fun w => negb (memN c w)) ws = true ->
  memN c (join sep ws) = false.
Proof.
  induction ws as [|a ws]; intros S H. reflexivity.
  simpl in H. apply andb_true_iff in H. destruct H as [H1 H2]. apply negb_true_iff in H1.
  destruct ws as [|b ws]. simpl. auto.
  rewrite join_cons by discriminate. rewrite !memN_app. rewrite H1, S. simpl. apply IHws; auto.
Qed.

Lemma srun_text_sub_ok : forall p n c, oprinted p -> oprinted n -> oprinted c ->
  sub_ok (srun_text (oraw p) (oraw n) (oraw c)) = true.
Proof.
  intros p n c Pp Pn Pc. unfold sub_ok. apply andb_true_iff. split.
  - apply negb_true_iff. unfold srun_text. apply memN_join. reflexivity.
    simpl forallb. rewrite !forallb_app. rewrite !memN_join_optw; auto.
  - unfold srun_text.
    destruct (optw (s "-n") (oraw p) ++ optw (s "-N") (oraw n) ++ optw (s "-c") (oraw c)) eqn:E.
    + reflexivity.
    + rewrite join_cons by discriminate. reflexivity.
Qed.

(** * [match_body] on a substituted command *)
Section Match.
  Variable launch_ok : piece -> str -> bool.
  Variable final : piece -> seg.
  Hypothesis final_text : forall t, final (PText t) = SText t.
  Definition launch_good (p : piece) : Prop :=
    match p with PText _ => True | _ =>
      launch_ok p (seg_text (final p)) = true /\ seg_text (final p) <> [] end.

  Lemma match_body_final : forall ps tail, (forall p, In p ps -> launch_good p) ->
    match_body launch_ok (ps ++ [PText tail]) (segs_text (map final ps) ++ tail) = true.
  Proof.
    induction ps as [|p r]; intros tail FL.
    - simpl. rewrite prefixb_refl. rewrite skipn_all. reflexivity.
    - change ((p :: r) ++ [PText tail]) with (p :: (r ++ [PText tail])).
      rewrite map_cons, segs_text_cons. rewrite <- app_assoc.
      assert (IH : match_body launch_ok (r ++ [PText tail]) (segs_text (map final r) ++ tail) = true).
      { apply IHr. intros q I. apply FL. right. auto. }
      pose proof (FL p (or_introl eq_refl)) as G.
      destruct p as [t| |f].
      + rewrite final_text. simpl seg_text. simpl match_body. rewrite prefixb_app.
        rewrite skipn_app, skipn_all, Nat.sub_diag. simpl. apply IH.
      + destruct G as [L NE]. set (x := seg_text (final PBare)) in *.
        change (match_body launch_ok (PBare :: r ++ [PText tail]) (x ++ segs_text (map final r) ++ tail))
          with (existsb (fun k => if launch_ok PBare (firstn k (x ++ segs_text (map final r) ++ tail))
                                  then match_body launch_ok (r ++ [PText tail]) (skipn k (x ++ segs_text (map final r) ++ tail))
                                  else false)
                        (seq 1 (List.length (x ++ segs_text (map final r) ++ tail)))).
        apply existsb_exists. exists (List.length x). split.
        * apply in_seq. rewrite app_length. destruct x; try congruence. simpl. lia.
        * rewrite firstn_app, firstn_all, Nat.sub_diag. simpl firstn. rewrite app_nil_r. rewrite L.
          rewrite skipn_app, skipn_all, Nat.sub_diag. simpl. apply IH.
      + destruct G as [L NE]. set (x := seg_text (final (PTok f))) in *.
        change (match_body launch_ok (PTok f :: r ++ [PText tail]) (x ++ segs_text (map final r) ++ tail))
          with (existsb (fun k => if launch_ok (PTok f) (firstn k (x ++ segs_text (map final r) ++ tail))
                                  then match_body launch_ok (r ++ [PText tail]) (skipn k (x ++ segs_text (map final r) ++ tail))
                                  else false)
                        (seq 1 (List.length (x ++ segs_text (map final r) ++ tail)))).
        apply existsb_exists. exists (List.length x). split.
        * apply in_seq. rewrite app_length. destruct x; try congruence. simpl. lia.
        * rewrite firstn_app, firstn_all, Nat.sub_diag. simpl firstn. rewrite app_nil_r. rewrite L.
          rewrite skipn_app, skipn_all, Nat.sub_diag. simpl. apply IH.
  Qed.
End Match.

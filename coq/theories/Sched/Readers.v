(** C15, the SPECIFICATION side.  Directive readers written from the
    schedulers' documented option syntax (sbatch / srun, bsub / jsrun,
    flux run), the "effective resources" of a (batch block, step) pair, the
    documented launcher-token syntax as a data type, the hygiene domain [H15],
    the signatures of the known findings K6 and the monitor [C15_ok].
    None of this looks at how the adapters build their text.
    Executable, stdlib only, no proofs. *)
From Coq Require Import List Arith NArith ZArith Bool.
From MWF Require Import Base.Str Gen.HeaderData Sched.Header Sched.Launcher.
Import ListNotations.
Local Open Scope N_scope.
Local Open Scope list_scope.

(** * Words: white-space separated, double quotes group (and are removed) *)
Definition is_blank_char (c : N) : bool := (c =? 32) || (c =? 9).
Definition push (cur : option str) (c : N) : option str :=
  match cur with Some w => Some (w ++ [c]) | None => Some [c] end.
Fixpoint words (q : bool) (cur : option str) (t : str) : list str :=
  match t with
  | [] => match cur with Some w => [w] | None => [] end
  | c :: t' =>
    if q then (if c =? 34 then words false cur t' else words true (push cur c) t')
    else if c =? 34 then words true (match cur with Some w => Some w | None => Some [] end) t'
    else if is_blank_char c then
      match cur with Some w => w :: words false None t' | None => words false None t' end
    else words false (push cur c) t'
  end.
Definition words_of (t : str) : list str := words false None t.

(** * Option tables and a getopt-style reader
    A row is (option word, takes an argument?, key).  "--name=value",
    "--name value", "-x value", "-xvalue" and flags are understood; an
    unknown option word is skipped. *)
Inductive rkey := RNodes | RTasks | RWalltime | RQueue | RBank | RReservation | RGpus
                | RExclusive | RQos | RCpusPerTask | RJobName | ROutput | RError | RComment
                | RTasksPerRs | RRsPerNode | RBind | RBindGpus | ROpts.
Definition rkey_eqb (a b : rkey) : bool :=
  match a, b with
  | RNodes, RNodes | RTasks, RTasks | RWalltime, RWalltime | RQueue, RQueue | RBank, RBank
  | RReservation, RReservation | RGpus, RGpus | RExclusive, RExclusive | RQos, RQos
  | RCpusPerTask, RCpusPerTask | RJobName, RJobName | ROutput, ROutput | RError, RError
  | RComment, RComment | RTasksPerRs, RTasksPerRs | RRsPerNode, RRsPerNode | RBind, RBind
  | RBindGpus, RBindGpus | ROpts, ROpts => true
  | _, _ => false
  end.
Definition opttable := list (str * (bool * rkey)).

Fixpoint split_eq (w : str) : str * option str :=
  match w with
  | [] => ([], None)
  | c :: w' => if c =? 61 then ([], Some w')
               else let (a, b) := split_eq w' in (c :: a, b)
  end.
Definition is_long (w : str) : bool := prefixb (s "--") w.
Definition is_opt (w : str) : bool := match w with 45 :: _ :: _ => true | _ => false end.

(** all words are options (directive lines); result in order of appearance *)
Fixpoint parse_opts (tbl : opttable) (ws : list str) : list (rkey * str) :=
  match ws with
  | [] => []
  | w :: r =>
    let (nm, inl) := if is_long w then split_eq w else (w, None) in
    match lookup nm tbl with
    | Some (true, k) =>
      match inl with
      | Some v => (k, v) :: parse_opts tbl r
      | None => match r with
                | v :: r' => (k, v) :: parse_opts tbl r'
                | [] => []
                end
      end
    | Some (false, k) => (k, []) :: parse_opts tbl r
    | None =>
      match w with
      | 45 :: c :: v =>
        match (if c =? 45 then None else lookup [45; c] tbl), v with
        | Some (true, k), _ :: _ => (k, v) :: parse_opts tbl r
        | _, _ => parse_opts tbl r
        end
      | _ => parse_opts tbl r
      end
    end
  end.
(** every word is consumed as an option or an option argument: no positional word *)
Fixpoint all_opts (tbl : opttable) (ws : list str) : bool :=
  match ws with
  | [] => true
  | w :: r =>
    is_opt w &&
    let (nm, inl) := if is_long w then split_eq w else (w, None) in
    match lookup nm tbl, inl with
    | Some (true, _), None => match r with _ :: r' => all_opts tbl r' | [] => false end
    | _, _ => all_opts tbl r
    end
  end.

Fixpoint rget (k : rkey) (l : list (rkey * str)) : option str :=
  match l with
  | [] => None
  | (k', v) :: l' => if rkey_eqb k k' then Some v else rget k l'
  end.
Definition count_key (k : rkey) (l : list (rkey * str)) : nat :=
  List.length (filter (fun kv => rkey_eqb k (fst kv)) l).

(** * Batch scripts: the directive lines at the top of the file *)
Definition lines_of (t : str) : list str := split_on nl t.
Definition is_blank_line (l : str) : bool := forallb is_blank_char l.
Definition is_comment (l : str) : bool := match l with 35 :: _ => true | _ => false end.
(** a directive line: the marker, then end of line or a blank *)
Definition directive (marker l : str) : option str :=
  if prefixb marker l then
    match skipn (List.length marker) l with
    | [] => Some []
    | c :: r => if is_blank_char c then Some r else None
    end
  else None.
(** directives are read until the first line that is neither blank nor a comment *)
Fixpoint directives (marker : str) (ls : list str) : list (list str) :=
  match ls with
  | [] => []
  | l :: r =>
    if is_blank_line l then directives marker r
    else if is_comment l then
      match directive marker l with
      | Some d => words_of d :: directives marker r
      | None => directives marker r
      end
    else []
  end.
(** what is left once the leading blank / comment lines are dropped *)
Fixpoint body_lines (ls : list str) : list str :=
  match ls with
  | [] => []
  | l :: r => if is_blank_line l || is_comment l then body_lines r else ls
  end.
Definition script_body (t : str) : str := join [nl] (body_lines (lines_of t)).

(** sbatch(1): the options maestro's resources map to *)
Definition sbatch_table : opttable :=
  [ (s "--nodes", (true, RNodes)); (s "-N", (true, RNodes));
    (s "--ntasks", (true, RTasks)); (s "-n", (true, RTasks));
    (s "--time", (true, RWalltime)); (s "-t", (true, RWalltime));
    (s "--partition", (true, RQueue)); (s "-p", (true, RQueue));
    (s "--account", (true, RBank)); (s "-A", (true, RBank));
    (s "--reservation", (true, RReservation));
    (s "--gres", (true, RGpus));
    (s "--exclusive", (false, RExclusive));
    (s "--qos", (true, RQos)); (s "-q", (true, RQos));
    (s "--cpus-per-task", (true, RCpusPerTask)); (s "-c", (true, RCpusPerTask));
    (s "--job-name", (true, RJobName)); (s "-J", (true, RJobName));
    (s "--output", (true, ROutput)); (s "-o", (true, ROutput));
    (s "--error", (true, RError)); (s "-e", (true, RError));
    (s "--comment", (true, RComment)) ].
(** "--gres=gpu:N" requests N gpus *)
Definition gres_gpus (v : str) : str :=
  if prefixb (s "gpu:") v then skipn 4 v else v.
Definition read_sbatch_all (script : str) : list (rkey * str) :=
  map (fun kv : rkey * str => if rkey_eqb (fst kv) RGpus then (RGpus, gres_gpus (snd kv)) else kv)
      (flat_map (parse_opts sbatch_table) (directives (s "#SBATCH") (lines_of script))).
Definition read_sbatch (script : str) (k : rkey) : option str := rget k (read_sbatch_all script).

(** bsub(1) (LSF on CORAL systems): single-dash option words *)
Definition bsub_table : opttable :=
  [ (s "-nnodes", (true, RNodes)); (s "-n", (true, RTasks));
    (s "-W", (true, RWalltime)); (s "-q", (true, RQueue)); (s "-G", (true, RBank));
    (s "-U", (true, RReservation)); (s "-x", (false, RExclusive));
    (s "-gpu", (true, RGpus)); (s "-sla", (true, RQos));
    (s "-J", (true, RJobName)); (s "-o", (true, ROutput)); (s "-e", (true, RError)) ].
Definition read_bsub_all (script : str) : list (rkey * str) :=
  flat_map (parse_opts bsub_table) (directives (s "#BSUB") (lines_of script)).
Definition read_bsub (script : str) (k : rkey) : option str := rget k (read_bsub_all script).

(** the flux adapter's header is informational: "#INFO (key) value" *)
Definition read_flux_info (script : str) (key : str) : option str :=
  let marker := s "#INFO (" ++ key ++ s ") " in
  match filter (prefixb marker) (lines_of script) with
  | l :: _ => Some (skipn (List.length marker) l)
  | [] => None
  end.
Definition read_flux_header (script : str) (k : rkey) : option str :=
  match k with
  | RNodes => read_flux_info script (s "nodes")
  | RWalltime => read_flux_info script (s "walltime")
  | _ => None
  end.

(** * Launcher invocations: the launcher words followed by options only *)
Definition srun_table : opttable :=
  [ (s "--ntasks", (true, RTasks)); (s "-n", (true, RTasks));
    (s "--nodes", (true, RNodes)); (s "-N", (true, RNodes));
    (s "--cpus-per-task", (true, RCpusPerTask)); (s "-c", (true, RCpusPerTask)) ].
Definition jsrun_table : opttable :=
  [ (s "--nrs", (true, RTasks)); (s "-n", (true, RTasks));
    (s "--tasks_per_rs", (true, RTasksPerRs)); (s "-a", (true, RTasksPerRs));
    (s "--rs_per_host", (true, RRsPerNode)); (s "-r", (true, RRsPerNode));
    (s "--cpu_per_rs", (true, RCpusPerTask)); (s "-c", (true, RCpusPerTask));
    (s "--gpu_per_rs", (true, RGpus)); (s "-g", (true, RGpus));
    (s "--bind", (true, RBind)); (s "-b", (true, RBind));
    (s "--bind_gpus", (true, RBindGpus)); (s "-B", (true, RBindGpus)) ].
Definition fluxrun_table : opttable :=
  [ (s "--ntasks", (true, RTasks)); (s "-n", (true, RTasks));
    (s "--nodes", (true, RNodes)); (s "-N", (true, RNodes));
    (s "--cores-per-task", (true, RCpusPerTask)); (s "-c", (true, RCpusPerTask));
    (s "--gpus-per-task", (true, RGpus)); (s "-g", (true, RGpus));
    (s "--setopt", (true, ROpts)); (s "-o", (true, ROpts)) ].

Fixpoint strip_words (pre ws : list str) : option (list str) :=
  match pre, ws with
  | [], _ => Some ws
  | p :: pre', w :: ws' => if str_eqb p w then strip_words pre' ws' else None
  | _ :: _, [] => None
  end.
(** [read_launch cmdwords tbl text]: [text] is exactly one launcher
    invocation without an executable; every key at most once *)
Definition read_launch (cmdw : list str) (tbl : opttable) (text : str) : option (list (rkey * str)) :=
  match strip_words cmdw (words_of text) with
  | Some ws =>
    if all_opts tbl ws then
      let r := parse_opts tbl ws in
      if forallb (fun kv : rkey * str => (count_key (fst kv) r <=? 1)%nat) r then Some r else None
    else None
  | None => None
  end.
Definition read_srun := read_launch [s "srun"] srun_table.
Definition read_jsrun := read_launch [s "jsrun"] jsrun_table.
Definition read_flux_run := read_launch [s "flux"; s "run"] fluxrun_table.

(** * What a (batch block, step) pair asks for *)
Inductive backend := Slurm | Lsf | Flux | Local.
Definition backend_eqb (a b : backend) : bool :=
  match a, b with
  | Slurm, Slurm | Lsf, Lsf | Flux, Flux | Local, Local => true
  | _, _ => false
  end.

Definition key_name (k : rkey) : str :=
  match k with
  | RNodes => s "nodes" | RTasks => s "procs" | RWalltime => s "walltime" | RQueue => s "queue"
  | RBank => s "bank" | RReservation => s "reservation" | RGpus => s "gpus"
  | RExclusive => s "exclusive" | RQos => s "qos" | RCpusPerTask => s "cores per task"
  | RTasksPerRs => s "tasks per rs" | RRsPerNode => s "rs per node" | RBind => s "bind"
  | RBindGpus => s "bind gpus"
  | RJobName => s "job-name" | ROutput => s "output" | RError => s "error" | RComment => s "comment"
  | ROpts => s "args"
  end.
(** a key is declared when it is present with a true value ([0], [""],
    [False], [None] declare nothing); flags carry no value *)
Definition declared (d : dict) (k : rkey) : option str :=
  match lookup (key_name k) d with
  | Some v => if truthy v then Some (match k with RExclusive => [] | _ => render v end) else None
  | None => None
  end.
(** the documented keys of the batch block that are resources (docs/Maestro/scheduling.md) *)
Definition batch_level (k : rkey) : bool :=
  match k with
  | RNodes | RTasks | RQueue | RBank | RReservation | RQos | RGpus => true
  | _ => false
  end.
(** the step's value if declared, else the batch block's, else absent *)
Definition effective (b : batch) (st : step) (k : rkey) : option str :=
  match declared (st_res st) k with
  | Some v => Some v
  | None => if batch_level k then declared (b_kw b) k else None
  end.

(** Slurm (docs: whole-node allocations): the header asks for tasks only when
    the batch block declares procs or no node count is in effect; otherwise the
    task count travels with srun *)
Definition slurm_header_keys : list rkey :=
  [RNodes; RTasks; RWalltime; RQueue; RBank; RReservation; RGpus; RExclusive; RQos].
Definition effective_slurm (b : batch) (st : step) (k : rkey) : option str :=
  match k with
  | RTasks =>
    match declared (b_kw b) RTasks, effective b st RNodes with
    | None, Some _ => None
    | _, _ => effective b st RTasks
    end
  | _ => effective b st k
  end.

(** * Launcher tokens: the documented syntax as data *)
Inductive tokform :=
| TNP (n p : str) (sp : nat)        (* [<n>n,<sp blanks><p>p] *)
| TPN (p n : str) (sp : nat)        (* [<p>p,<sp blanks><n>n] *)
| TP (p : str)                      (* [<p>p] *)
| TLegacy (n p : str) (sp : nat).   (* [<n>,<sp blanks><p>] *)
Inductive piece := PText (t : str) | PBare | PTok (f : tokform).

Definition blanks (k : nat) : str := repeat 32 k.
Definition alloc_text (f : tokform) : str :=
  match f with
  | TNP n p sp => n ++ [110] ++ [44] ++ blanks sp ++ p ++ [112]
  | TPN p n sp => p ++ [112] ++ [44] ++ blanks sp ++ n ++ [110]
  | TP p => p ++ [112]
  | TLegacy n p sp => n ++ [44] ++ blanks sp ++ p
  end.
Definition piece_text (p : piece) : str :=
  match p with
  | PText t => t
  | PBare => launcher_var
  | PTok f => tok_text (alloc_text f)
  end.
Definition pieces_text (ps : list piece) : str := flat_map piece_text ps.

(** the (nodes, tasks) a token asks for, as texts *)
Definition tok_nodes (f : tokform) : option str :=
  match f with TNP n _ _ | TPN _ n _ | TLegacy n _ _ => Some n | TP _ => None end.
Definition tok_procs (f : tokform) : str :=
  match f with TNP _ p _ | TPN p _ _ | TP p | TLegacy _ p _ => p end.
Definition tok_wf (f : tokform) : bool :=
  all_digits (tok_procs f) && match tok_nodes f with Some n => all_digits n | None => true end.

(** a count value: a positive integer or a decimal string *)
Definition count_of (v : val) : option N :=
  match v with
  | VInt n => if n =? 0 then None else Some n
  | VStr t => if all_digits t then match py_nat t with Some 0 => None | o => o end else None
  | _ => None
  end.
Definition dec_val (t : str) : N := match py_nat t with Some n => n | None => 0 end.

(** the step's totals: [0] = not declared *)
Definition total_of (st : step) (k : rkey) : N :=
  match lookup (key_name k) (st_res st) with
  | Some v => if truthy v then match count_of v with Some n => n | None => 0 end else 0
  | None => 0
  end.
Definition toks_of (ps : list piece) : list tokform :=
  flat_map (fun p => match p with PTok f => [f] | _ => [] end) ps.
Definition sum_N (l : list N) : N := fold_right N.add 0 l.
(** the allocation rule (the code's documented rule, as is): no token may ask
    for more than a declared total, and -- the *sum* rule -- neither may the
    tokens of one command together *)
Definition exceeds (mx x : N) : bool := negb (mx =? 0) && (mx <? x).
Definition alloc_rejected (st : step) (ps : list piece) : bool :=
  let fs := toks_of ps in
  let nn := total_of st RNodes in
  let pp := total_of st RTasks in
  existsb (fun f => exceeds pp (dec_val (tok_procs f))
                    || match tok_nodes f with Some n => exceeds nn (dec_val n) | None => false end) fs
  || exceeds pp (sum_N (map (fun f => dec_val (tok_procs f)) fs))
  || exceeds nn (sum_N (map (fun f => match tok_nodes f with Some n => dec_val n | None => 0 end) fs)).

(** * LSF (bsub on CORAL systems + jsrun): what must be read back *)
(** "[hour:]minute" of bsub -W against the "HH:MM:SS" of the specification:
    seconds are rounded up to the next minute *)
Definition hms_minutes (t : str) : option N :=
  match split_on 58 t with
  | [h; m; sec] =>
    match py_nat h, py_nat m, py_nat sec with
    | Some a, Some b, Some c => Some (a * 60 + b + (c + 59) / 60)
    | _, _, _ => None
    end
  | _ => None
  end.
Definition hm_minutes (t : str) : option N :=
  match split_on 58 t with
  | [h; m] =>
    match py_nat h, py_nat m with
    | Some a, Some b => Some (a * 60 + b)
    | _, _ => None
    end
  | _ => None
  end.
Definition is_hms (t : str) : bool := match split_on 58 t with [_; _; _] => true | _ => false end.
(** a walltime given as H:M:S must come back as the same number of minutes,
    any other walltime unchanged *)
Definition lsf_walltime_ok (declared read : option str) : bool :=
  match declared, read with
  | None, None => true
  | Some d, Some r =>
    if is_hms d then
      match hms_minutes d, hm_minutes r with
      | Some x, Some y => x =? y
      | _, _ => false
      end
    else str_eqb d r
  | _, _ => false
  end.

(** bsub keys; tasks and gpus are requested per jsrun call, not in the header *)
Definition lsf_header_keys : list rkey :=
  [RNodes; RTasks; RQueue; RBank; RReservation; RGpus; RExclusive; RQos].
Definition effective_lsf (b : batch) (st : step) (k : rkey) : option str :=
  match k with
  | RNodes => match effective b st RNodes with Some v => Some v | None => Some (s "1") end
  | RTasks | RGpus => None
  | _ => effective b st k
  end.

Definition or_default (o : option str) (d : str) : option str :=
  match o with Some v => Some v | None => Some d end.

(** * Flux: the header is informational ("#INFO (key) value"); what it must say *)
(** seconds of a walltime given as minutes (an integer) or as colon-separated
    [[[H:]M:]S]; "inf" and nothing mean no limit (0) *)
Fixpoint horner (acc : N) (parts : list N) : N :=
  match parts with [] => acc | p :: r => horner (acc * 60 + p) r end.
Fixpoint all_some (l : list (option N)) : option (list N) :=
  match l with
  | [] => Some []
  | Some x :: r => option_map (cons x) (all_some r)
  | None :: _ => None
  end.
Definition flux_seconds (declared : option str) : option N :=
  match declared with
  | None => Some 0
  | Some d =>
    if all_digits d then option_map (fun m => m * 60) (py_nat d)
    else if containsb [58] d then option_map (horner 0) (all_some (map py_nat (split_on 58 d)))
    else if str_eqb d (s "inf") then Some 0 else None
  end.
(** the text of the info line: an integer, or an integer followed by ".0" *)
Definition read_seconds (t : str) : option N :=
  match split_on 46 t with
  | [a] => py_nat a
  | [a; z] => if str_eqb z (s "0") then py_nat a else None
  | _ => None
  end.
(** the declared walltime of a step in seconds: a number (int or integral float)
    is a number of minutes, a text is read by [flux_seconds] *)
Definition flux_declared_seconds (st : step) : option N :=
  match lookup (s "walltime") (st_res st) with
  | Some (VFloat n) => Some (n * 60)
  | _ => flux_seconds (declared (st_res st) RWalltime)
  end.
Definition flux_walltime_ok (secs : option N) (read : option str) : bool :=
  match secs, read with
  | Some x, Some r => match read_seconds r with Some y => x =? y | None => false end
  | _, _ => false
  end.
Definition effective_flux_nodes (b : batch) (st : step) : option str :=
  match effective b st RNodes with Some v => Some v | None => Some (s "1") end.

(** * The hygiene domain H15 *)
(** a value that can stand unquoted in a directive or on a command line *)
Definition safe_char (c : N) : bool :=
  (32 <? c) && (c <? 127)
  && negb ((c =? 34) || (c =? 39) || (c =? 92) || (c =? 35) || (c =? 36) || (c =? 96)
           || (c =? 59) || (c =? 38) || (c =? 124) || (c =? 60) || (c =? 62) || (c =? 40) || (c =? 41)).
Definition safe_tok (t : str) : bool :=
  match t with
  | [] => false
  | c :: _ => negb (c =? 45) && forallb safe_char t
  end.
(** a value that can stand between double quotes (tabs allowed) *)
Definition safe_quoted (t : str) : bool :=
  forallb (fun c => ((32 <=? c) || (c =? 9)) && negb (c =? 34) && negb (c =? 92) && negb (c =? 127)) t.
(** the job name a back-end derives from the step name *)
Definition job_name (be : backend) (t : str) : str :=
  match be with Slurm => slurm_job_name t | _ => under t end.
Definition safe_name (be : backend) (t : str) : bool :=
  match t with [] => false | _ => forallb (fun c => safe_char c && negb (c =? 47)) (job_name be t) end.

Definition res_keys_str : list rkey :=
  [RQueue; RBank; RWalltime; RReservation; RGpus; RQos; RCpusPerTask; RTasksPerRs; RRsPerNode; RBind; RBindGpus].
Definition val_safe (d : dict) (k : rkey) : bool :=
  match lookup (key_name k) d with
  | Some v => if truthy v then safe_tok (render v) else true
  | None => true
  end.
Definition count_ok (d : dict) (k : rkey) : bool :=
  match lookup (key_name k) d with
  | Some v => if truthy v then match count_of v with Some _ => true | None => false end else true
  | None => true
  end.
Fixpoint nodup_keys (d : dict) : bool :=
  match d with
  | [] => true
  | (k, _) :: d' => negb (has k d') && nodup_keys d'
  end.

(** the text pieces of a command: no launcher variable inside, none split
    over two pieces, a bare token not followed by "[" *)
Definition first_char (t : str) : option N := match t with c :: _ => Some c | [] => None end.
Fixpoint pieces_wf (ps : list piece) : bool :=
  match ps with
  | [] => true
  | PText t :: r =>
    negb (containsb launcher_var t)
    && match t with [] => false | _ => true end
    && match r with PText _ :: _ => false | _ => true end
    && pieces_wf r
  | PBare :: r =>
    match r with PText (91 :: _) :: _ => false | _ => true end && pieces_wf r
  | PTok f :: r => tok_wf f && pieces_wf r
  end.
(** the command starts with something the directive scan stops at *)
Definition starts_cmd (ps : list piece) : bool :=
  match ps with
  | PText (c :: _) :: _ => negb (is_blank_char c) && negb (c =? 35) && negb (c =? nl)
  | PText [] :: _ => false
  | [] => false
  | _ => true
  end.

Record case := { c_be : backend; c_batch : batch; c_broker : str; c_step : step;
                 c_cmd : list piece; c_restart : list piece }.

(** the local adapter needs no host / bank / queue *)
Definition batch_keys_ok (be : backend) (b : batch) : bool :=
  nodup_keys (b_kw b)
  && (backend_eqb be Local
      || forallb (fun k => match lookup k (b_kw b) with
                           | Some v => truthy v && safe_tok (render v)
                           | None => false
                           end) [s "host"; s "bank"; s "queue"])
  && forallb (val_safe (b_kw b)) [RReservation; RQos; RGpus]
  && count_ok (b_kw b) RNodes && count_ok (b_kw b) RTasks
  && match lookup (s "shell") (b_kw b) with
     | Some v => truthy v && safe_tok (render v)
     | None => true
     end.

Definition memb (c : N) (t : str) : bool := existsb (N.eqb c) t.
(** a key that, when present at all, holds a positive count *)
Definition present_count (d : dict) (k : rkey) : bool :=
  match lookup (key_name k) d with
  | Some v => match count_of v with Some _ => true | None => false end
  | None => true
  end.
(** what the LSF adapter needs on top: jsrun's per-resource-set counts are
    positive when declared, an H:M:S walltime is numeric, a batch-level node
    count and a binding are not false values, the value of "cpus per rs" is
    printable, the step does not override the adapter's job-name / output /
    error entries *)
Definition lsf_dom (c : case) : bool :=
  let st := c_step c in
  present_count (st_res st) RRsPerNode && present_count (st_res st) RTasksPerRs
  && match lookup (s "cpus per rs") (st_res st) with
     | Some v => if truthy v then safe_tok (render v) else true
     | None => true
     end
  && match declared (st_res st) RWalltime with
     | Some w => if is_hms w then forallb all_digits (split_on 58 w) else true
     | None => true
     end
  && match lookup (s "nodes") (b_kw (c_batch c)) with Some v => truthy v | None => true end
  && match lookup (s "bind") (st_res st) with Some v => truthy v | None => true end
  && negb (has (s "job-name") (st_res st)) && negb (has (s "output") (st_res st))
  && negb (has (s "error") (st_res st)).

(** what the Flux adapter needs on top: a walltime it can convert (and not
    [None]), a batch-level node count that is not a false value, one-line
    version / uri / broker texts, printable -o options *)
Definition flux_dom (c : case) : bool :=
  let st := c_step c in
  match flux_declared_seconds st with Some _ => true | None => false end
  && match lookup (s "walltime") (st_res st) with Some VNone => false | _ => true end
  && match lookup (s "nodes") (b_kw (c_batch c)) with Some v => truthy v | None => true end
  && negb (memb nl (c_broker c))
  && match lookup (s "version") (b_kw (c_batch c)) with Some v => negb (memb nl (render v)) | None => true end
  && match lookup (s "uri") (b_kw (c_batch c)) with Some v => negb (memb nl (render v)) | None => true end
  && forallb (fun kv : str * str => safe_tok (fst kv) && safe_tok (snd kv)
                                     && negb (memb 44 (fst kv ++ snd kv)) && negb (memb 61 (fst kv)))
             (b_args (c_batch c)).

Definition H15 (c : case) : bool :=
  let st := c_step c in
  str_eqb (pieces_text (c_cmd c)) (st_cmd st)
  && str_eqb (pieces_text (c_restart c)) (st_restart st)
  && pieces_wf (c_cmd c) && starts_cmd (c_cmd c)
  && pieces_wf (c_restart c) && match c_restart c with [] => true | r => starts_cmd r end
  && safe_name (c_be c) (st_name st) && safe_quoted (oneline (st_desc st))
  && nodup_keys (st_res st)
  && negb (has (s "cmd") (st_res st)) && negb (has (s "restart") (st_res st))
  && count_ok (st_res st) RNodes && count_ok (st_res st) RTasks
  && forallb (val_safe (st_res st)) res_keys_str
  && batch_keys_ok (c_be c) (c_batch c)
  && (negb (backend_eqb (c_be c) Lsf) || lsf_dom c)
  && (negb (backend_eqb (c_be c) Flux) || flux_dom c).

(** * Known findings K6: signature predicates *)
(** K6a: the documented batch-level [gpus] never reaches a header or launcher *)
Definition K6_batch_gpus (c : case) : bool :=
  negb (backend_eqb (c_be c) Local)
  && match declared (st_res (c_step c)) RGpus, declared (b_kw (c_batch c)) RGpus with
     | None, Some _ => true
     | _, _ => false
     end.
(** K6b: the LSF header has no line for exclusive / qos *)
Definition K6_lsf_header (c : case) : bool :=
  backend_eqb (c_be c) Lsf
  && (match effective (c_batch c) (c_step c) RExclusive with Some _ => true | None => false end
      || match effective (c_batch c) (c_step c) RQos with Some _ => true | None => false end).
(** K6c: LSF cannot generate the launcher invocation of a bare launcher
    variable for a step that declares nodes only (jsrun needs a task count) *)
Definition has_bare (ps : list piece) : bool :=
  existsb (fun p => match p with PBare => true | _ => false end) ps.
Definition K6_lsf_nodes_only (c : case) : bool :=
  backend_eqb (c_be c) Lsf
  && negb (total_of (c_step c) RNodes =? 0) && (total_of (c_step c) RTasks =? 0)
  && (has_bare (c_cmd c) || has_bare (c_restart c)).

(** * The monitor *)
Inductive obs := OExc (e : exn) | OScript (sc : script).

Definition schedulable (st : step) : bool :=
  negb (total_of st RNodes =? 0) || negb (total_of st RTasks =? 0).
Definition opt_eqb (a b : option str) : bool :=
  match a, b with
  | Some x, Some y => str_eqb x y
  | None, None => true
  | _, _ => false
  end.

(** what one launcher invocation must read back to *)
Definition want := list (rkey * option str).
Definition reads_as (r : list (rkey * str)) (w : want) (keys : list rkey) : bool :=
  forallb (fun k => opt_eqb (rget k r) (match find (fun kv => rkey_eqb k (fst kv)) w with
                                        | Some (_, v) => v
                                        | None => None
                                        end)) keys.

Definition srun_keys : list rkey := [RTasks; RNodes; RCpusPerTask].
Definition want_slurm (st : step) (p : piece) : want :=
  (RCpusPerTask, declared (st_res st) RCpusPerTask) ::
  match p with
  | PTok f => [(RTasks, Some (tok_procs f)); (RNodes, tok_nodes f)]
  | _ => [(RTasks, declared (st_res st) RTasks); (RNodes, declared (st_res st) RNodes)]
  end.

Section Body.
  (** does [text] read as a launcher invocation asking for what piece [p] wants? *)
  Variable launch_ok : piece -> str -> bool.
  (** [body] is the command with every token replaced by such an invocation *)
  Fixpoint match_body (ps : list piece) (body : str) : bool :=
    match ps with
    | [] => match body with [] => true | _ => false end
    | PText t :: r => if prefixb t body then match_body r (skipn (List.length t) body) else false
    | p :: r =>
      (* [if], not [&&]: the monitor is run by a call-by-value evaluator *)
      existsb (fun k => if launch_ok p (firstn k body) then match_body r (skipn k body) else false)
              (seq 1 (List.length body))
    end.
End Body.

Definition launch_ok_slurm (st : step) (p : piece) (text : str) : bool :=
  match read_srun text with
  | Some r => reads_as r (want_slurm st p) srun_keys
  | None => false
  end.

(** jsrun: tasks (resource sets), binding, gpus, tasks per rs, rs per node,
    cpus per rs; the documented defaults are 1 / "rs" *)
Definition jsrun_keys : list rkey := [RTasks; RGpus; RBind; RBindGpus; RTasksPerRs; RRsPerNode; RCpusPerTask].
Definition want_lsf (st : step) (p : piece) : want :=
  [ (RTasks, match p with PTok f => Some (tok_procs f) | _ => declared (st_res st) RTasks end);
    (RGpus, declared (st_res st) RGpus);
    (RBind, or_default (declared (st_res st) RBind) (s "rs"));
    (RBindGpus, declared (st_res st) RBindGpus);
    (RTasksPerRs, or_default (declared (st_res st) RTasksPerRs) (s "1"));
    (RRsPerNode, or_default (declared (st_res st) RRsPerNode) (s "1"));
    (RCpusPerTask, or_default (match lookup (s "cpus per rs") (st_res st) with
                               | Some v => if truthy v then Some (render v) else None
                               | None => None
                               end) (s "1")) ].
Definition launch_ok_lsf (st : step) (p : piece) (text : str) : bool :=
  match read_jsrun text with
  | Some r => reads_as r (want_lsf st p) jsrun_keys
  | None => false
  end.

(** flux run: tasks, nodes (a token without a node count and the bare variable
    of a step without nodes get the batch block's node count, default 1),
    cores per task (default 1), gpus, and the batch block's -o options *)
Definition fluxrun_keys : list rkey := [RTasks; RNodes; RCpusPerTask; RGpus; ROpts].
Definition flux_opts (b : batch) : option str :=
  match b_args b with
  | [] => None
  | l => Some (join (s ",") (map (fun kv : str * str => fst kv ++ s "=" ++ snd kv) l))
  end.
Definition want_flux (b : batch) (st : step) (p : piece) : want :=
  [ (RTasks, match p with PTok f => Some (tok_procs f) | _ => declared (st_res st) RTasks end);
    (RNodes, or_default (match (match p with PTok f => tok_nodes f | _ => declared (st_res st) RNodes end) with
                         | Some n => Some n
                         | None => declared (b_kw b) RNodes
                         end) (s "1"));
    (RCpusPerTask, or_default (declared (st_res st) RCpusPerTask) (s "1"));
    (RGpus, declared (st_res st) RGpus);
    (ROpts, flux_opts b) ].
Definition launch_ok_flux (b : batch) (st : step) (p : piece) (text : str) : bool :=
  match read_flux_run text with
  | Some r => reads_as r (want_flux b st p) fluxrun_keys
  | None => false
  end.

Definition shebang_of (b : batch) : str := s "#!" ++ render (shell_of (b_kw b)).
Definition first_line (t : str) : str := match lines_of t with l :: _ => l | [] => [] end.

(** a generated batch script is right for [ps] *)
Definition slurm_script_ok (c : case) (ps : list piece) (text : str) : bool :=
  str_eqb (first_line text) (shebang_of (c_batch c))
  && forallb (fun k => opt_eqb (read_sbatch text k) (effective_slurm (c_batch c) (c_step c) k)) slurm_header_keys
  && forallb (fun k => (count_key k (read_sbatch_all text) <=? 1)%nat) slurm_header_keys
  && negb (containsb launcher_var (script_body text))
  && match_body (launch_ok_slurm (c_step c)) (ps ++ [PText [nl]]) (script_body text).
Definition lsf_script_ok (c : case) (ps : list piece) (text : str) : bool :=
  str_eqb (first_line text) (shebang_of (c_batch c))
  && forallb (fun k => opt_eqb (read_bsub text k) (effective_lsf (c_batch c) (c_step c) k)) lsf_header_keys
  && lsf_walltime_ok (effective (c_batch c) (c_step c) RWalltime) (read_bsub text RWalltime)
  && forallb (fun k => (count_key k (read_bsub_all text) <=? 1)%nat) (RWalltime :: lsf_header_keys)
  && negb (containsb launcher_var (script_body text))
  && match_body (launch_ok_lsf (c_step c)) (ps ++ [PText [nl]]) (script_body text).
Definition flux_script_ok (c : case) (ps : list piece) (text : str) : bool :=
  str_eqb (first_line text) (shebang_of (c_batch c))
  && opt_eqb (read_flux_info text (s "nodes")) (effective_flux_nodes (c_batch c) (c_step c))
  && flux_walltime_ok (flux_declared_seconds (c_step c)) (read_flux_info text (s "walltime"))
  && negb (containsb launcher_var (script_body text))
  && match_body (launch_ok_flux (c_batch c) (c_step c)) (ps ++ [PText [nl]]) (script_body text).
(** a local script: shebang, then the command verbatim *)
Definition verbatim_ok (c : case) (cmd text : str) : bool :=
  str_eqb (first_line text) (shebang_of (c_batch c))
  && str_eqb (script_body text) (cmd ++ [nl]).

Definition rejected (c : case) : bool :=
  alloc_rejected (c_step c) (c_cmd c) || alloc_rejected (c_step c) (c_restart c).

Definition script_ok (c : case) (sched_ok : list piece -> str -> bool) (sc : script) : bool :=
  let st := c_step c in
  let local := negb (schedulable st) || backend_eqb (c_be c) Local in
  Bool.eqb (sc_sched sc) (negb local)
  && (if local then verbatim_ok c (st_cmd st) (sc_text sc)
      else negb (rejected c) && sched_ok (c_cmd c) (sc_text sc))
  && match st_restart st, sc_restart sc with
     | [], None => true
     | _ :: _, Some (_, rt) =>
       if local then verbatim_ok c (st_restart st) rt else sched_ok (c_restart c) rt
     | _, _ => false
     end.

(** the monitor, without the domain: is this observable right for the case? *)
Definition C15_holds (c : case) (o : obs) : bool :=
  match o with
  | OExc Diag =>
    (* a diagnostic is right exactly when an allocation is over the step's totals *)
    negb (backend_eqb (c_be c) Local) && schedulable (c_step c) && rejected c
  | OExc Internal => false
  | OScript sc =>
    match c_be c with
    | Slurm | Local => script_ok c (slurm_script_ok c) sc
    | Lsf => script_ok c (lsf_script_ok c) sc
    | Flux => script_ok c (flux_script_ok c) sc
    end
  end.
Definition C15_ok (c : case) (o : obs) : bool := negb (H15 c) || C15_holds c o.

(** * The model's observable, and equality of observables *)
Definition run_model (c : case) : obs :=
  match (match c_be c with
         | Slurm => write_slurm (c_batch c) (c_step c)
         | Lsf => write_lsf (c_batch c) (c_step c)
         | Flux => write_flux (c_batch c) (c_broker c) (c_step c)
         | Local => write_local (c_batch c) (c_step c)
         end) with
  | Ok sc => OScript sc
  | Err e => OExc e
  end.
Definition exn_eqb (a b : exn) : bool :=
  match a, b with Diag, Diag | Internal, Internal => true | _, _ => false end.
Definition obs_eqb (a b : obs) : bool :=
  match a, b with
  | OExc x, OExc y => exn_eqb x y
  | OScript x, OScript y =>
    Bool.eqb (sc_sched x) (sc_sched y) && str_eqb (sc_name x) (sc_name y)
    && str_eqb (sc_text x) (sc_text y)
    && match sc_restart x, sc_restart y with
       | None, None => true
       | Some (n1, t1), Some (n2, t2) => str_eqb n1 n2 && str_eqb t1 t2
       | _, _ => false
       end
  | _, _ => false
  end.
Definition corr_ok (co : case * obs) : bool := obs_eqb (run_model (fst co)) (snd co).
Definition monitor_ok (co : case * obs) : bool := C15_ok (fst co) (snd co).
Definition case_ok (co : case * obs) : bool := corr_ok co && monitor_ok co.

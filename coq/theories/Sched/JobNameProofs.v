(** The Slurm job name ([re.sub(r"\s", "_", step.name)]) contains no character on
    which the [\s+] row splitting of the squeue / sacct parsers splits. *)
From Coq Require Import List Arith NArith Bool.
From MWF Require Import Base.Str Gen.HeaderData Sched.Header.
Import ListNotations.
Local Open Scope N_scope.

Lemma underscore_not_space : is_py_space 95 = false.
Proof. vm_compute. reflexivity. Qed.

Lemma slurm_job_name_no_ws : forall name,
  forallb (fun c => negb (is_py_space c)) (slurm_job_name name) = true.
Proof.
  unfold slurm_job_name, subst_ws. induction name as [|c t IH]. reflexivity.
  cbn [map forallb]. rewrite IH. destruct (is_py_space c) eqn:E.
  - rewrite underscore_not_space. reflexivity.
  - rewrite E. reflexivity.
Qed.

Lemma slurm_job_name_length : forall name, List.length (slurm_job_name name) = List.length name.
Proof. intros. unfold slurm_job_name, subst_ws. apply map_length. Qed.

(** blanks are among the replaced characters: on names without other white space the
    Slurm job name is the LSF / Flux one *)
Lemma is_py_space_blank : is_py_space 32 = true.
Proof. vm_compute. reflexivity. Qed.

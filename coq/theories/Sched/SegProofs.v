(** C15 proofs, part 1: a command as a list of segments (plain text, the bare
    launcher variable, a bracketed launcher token, an already substituted
    launcher invocation) and what [replace], [containsb] and the token scanner
    do on such a command. *)
From Coq Require Import List Arith NArith ZArith Bool Lia.
From MWF Require Import Base.Str Gen.HeaderData Sched.Header Sched.Launcher Sched.StrFacts.
Import ListNotations.
Local Open Scope N_scope.
Local Open Scope list_scope.

Definition memN (c : N) (l : list N) : bool := existsb (N.eqb c) l.
Lemma memN_false : forall c l, memN c l = false -> ~ In c l.
Proof.
  induction l; simpl; intros H I. auto. apply orb_false_iff in H. destruct H as [H1 H2].
  destruct I. subst. rewrite N.eqb_refl in H1. discriminate. apply IHl; auto.
Qed.
Lemma memN_true : forall c l, memN c l = true -> In c l.
Proof.
  induction l; simpl; intros H. discriminate. apply orb_true_iff in H. destruct H.
  apply N.eqb_eq in H. auto. auto.
Qed.

(** * the launcher variable, concretely *)
Definition dollar : N := 36.
Definition var_tail : str := tl launcher_var.
Lemma var_eq : launcher_var = dollar :: var_tail.
Proof. reflexivity. Qed.
Lemma var_tail_nodollar : memN dollar var_tail = false.
Proof. reflexivity. Qed.
Lemma var_nolbr : memN lbr launcher_var = false.
Proof. reflexivity. Qed.
Lemma tok_open_eq : tok_open = launcher_var ++ [lbr].
Proof. reflexivity. Qed.
Lemma tok_text_eq : forall a, tok_text a = launcher_var ++ lbr :: a ++ [rbr].
Proof. intros. unfold tok_text. rewrite tok_open_eq. rewrite <- app_assoc. auto. Qed.
Lemma var_nonnil : launcher_var <> [].
Proof. rewrite var_eq. discriminate. Qed.
Local Opaque launcher_var N.eqb.

(** * segments *)
Inductive seg := SText (t : str) | SVar | STok (a : str) | SSub (t : str).
Definition seg_text (x : seg) : str :=
  match x with
  | SText t => t
  | SVar => launcher_var
  | STok a => tok_text a
  | SSub t => t
  end.
Definition segs_text (l : list seg) : str := flat_map seg_text l.

(** the text of an allocation: no "$", no "]", no newline *)
Definition alloc_char (c : N) : bool := negb (c =? dollar) && negb (c =? rbr) && negb (c =? nl).
Definition alloc_ok (a : str) : bool := forallb alloc_char a.
(** a character that can follow a text piece or the bare variable without
    completing an occurrence of the variable or opening a bracket *)
Definition good_char (c : N) : bool := negb (memN c var_tail) && negb (c =? lbr).
Definition good_head (w : str) : bool := match w with [] => true | c :: _ => good_char c end.
(** a substituted launcher invocation: no "$" and a harmless first character *)
Definition sub_ok (t : str) : bool :=
  negb (memN dollar t) && match t with [] => false | c :: _ => good_char c end.

Definition is_nil {A} (l : list A) : bool := match l with [] => true | _ => false end.
Definition starts_text (r : list seg) : bool := match r with SText _ :: _ => true | _ => false end.
Fixpoint segs_ok (l : list seg) : bool :=
  match l with
  | [] => true
  | SText t :: r => negb (containsb launcher_var t) && negb (is_nil t) && negb (starts_text r) && segs_ok r
  | SVar :: r => match r with SText (c :: _) :: _ => negb (c =? lbr) | _ => true end && segs_ok r
  | STok a :: r => alloc_ok a && segs_ok r
  | SSub t :: r => sub_ok t && segs_ok r
  end.

Lemma segs_ok_tail : forall x r, segs_ok (x :: r) = true -> segs_ok r = true.
Proof.
  intros. destruct x; simpl in H; apply andb_true_iff in H; destruct H; auto.
Qed.

Lemma segs_text_cons : forall x r, segs_text (x :: r) = seg_text x ++ segs_text r.
Proof. auto. Qed.
Lemma segs_text_app : forall a b, segs_text (a ++ b) = segs_text a ++ segs_text b.
Proof. intros. unfold segs_text. apply flat_map_app. Qed.

Lemma good_dollar : good_char dollar = true.
Proof. reflexivity. Qed.

(** what follows a text piece starts harmlessly *)
Lemma good_head_after : forall r, segs_ok r = true -> starts_text r = false -> good_head (segs_text r) = true.
Proof.
  intros r H S. destruct r as [|x r]. auto. destruct x; simpl in *.
  - discriminate.
  - rewrite var_eq. simpl. apply good_dollar.
  - rewrite tok_text_eq. rewrite var_eq. simpl. apply good_dollar.
  - apply andb_true_iff in H. destruct H as [H _]. unfold sub_ok in H.
    apply andb_true_iff in H. destruct H as [_ H]. destruct t; try discriminate. simpl. auto.
Qed.

(** what follows the bare variable does not open a bracket *)
Lemma nolbr_after_var : forall r, segs_ok (SVar :: r) = true ->
  match segs_text r with c :: _ => c <> lbr | [] => True end.
Proof.
  intros r H. simpl in H. apply andb_true_iff in H. destruct H as [H1 H2].
  destruct r as [|x r]. simpl. auto. destruct x; simpl in *.
  - destruct t as [|c t].
    + repeat (apply andb_true_iff in H2; destruct H2 as [H2 ?]). discriminate.
    + simpl. apply negb_true_iff in H1. apply N.eqb_neq in H1. auto.
  - rewrite var_eq. simpl. discriminate.
  - rewrite tok_text_eq. rewrite var_eq. simpl. discriminate.
  - apply andb_true_iff in H2. destruct H2 as [H2 _]. unfold sub_ok in H2.
    apply andb_true_iff in H2. destruct H2 as [_ H2]. destruct t; try discriminate. simpl.
    unfold good_char in H2. apply andb_true_iff in H2. destruct H2 as [_ H2].
    apply negb_true_iff in H2. apply N.eqb_neq in H2. auto.
Qed.

(** * no occurrence of [old = launcher_var ++ o2] starts inside ... *)
Section Old.
  Variable o2 : str.
  Let old := launcher_var ++ o2.

  Lemma nc_text : forall t r, segs_ok (SText t :: r) = true -> nocross old t (segs_text r).
  Proof.
    intros t r H. simpl in H.
    repeat (apply andb_true_iff in H; destruct H as [H ?]).
    apply nocross_text.
    - apply negb_true_iff in H. auto.
    - apply negb_true_iff in H1. pose proof (good_head_after r H0 H1) as G.
      destruct (segs_text r); auto. simpl in G. unfold good_char in G.
      apply andb_true_iff in G. destruct G as [G _]. apply negb_true_iff in G.
      apply memN_false. auto.
  Qed.

  Lemma nc_sub : forall t w, sub_ok t = true -> nocross old t w.
  Proof.
    intros t w H. unfold old. rewrite var_eq. simpl. apply nocross_nohead.
    unfold sub_ok in H. apply andb_true_iff in H. destruct H as [H _].
    apply negb_true_iff in H. apply memN_false. auto.
  Qed.
End Old.

Lemma nc_var : forall o3 r, segs_ok (SVar :: r) = true ->
  nocross (launcher_var ++ lbr :: o3) launcher_var (segs_text r).
Proof.
  intros o3 r H. pose proof (nolbr_after_var r H) as L.
  rewrite var_eq at 1 2. simpl. apply nocross_head.
  - apply memN_false. apply var_tail_nodollar.
  - change ((dollar :: var_tail) ++ segs_text r) with ((dollar :: var_tail) ++ segs_text r).
    change (dollar :: var_tail ++ lbr :: o3) with ((dollar :: var_tail) ++ lbr :: o3).
    rewrite prefixb_app_l. destruct (segs_text r); auto. apply prefixb_head_neq. auto.
Qed.

Lemma alloc_ok_norbr : forall a, alloc_ok a = true -> ~ In rbr a.
Proof.
  intros a H I. unfold alloc_ok in H. rewrite forallb_forall in H. apply H in I.
  unfold alloc_char in I. rewrite N.eqb_refl in I. rewrite andb_false_r in I. discriminate.
Qed.
Lemma alloc_ok_nodollar : forall a, alloc_ok a = true -> ~ In dollar a.
Proof.
  intros a H I. unfold alloc_ok in H. rewrite forallb_forall in H. apply H in I.
  unfold alloc_char in I. rewrite N.eqb_refl in I. discriminate.
Qed.

Lemma prefixb_alloc_neq : forall a a' w, ~ In rbr a -> ~ In rbr a' -> a <> a' ->
  prefixb (a ++ [rbr]) (a' ++ rbr :: w) = false.
Proof.
  induction a; intros a' w H H' NE.
  - destruct a'. congruence. simpl. destruct (N.eqb_spec rbr n); auto. subst. simpl in H'. tauto.
  - destruct a'.
    + simpl. destruct (N.eqb_spec a rbr); auto. subst. simpl in H. tauto.
    + simpl. destruct (N.eqb_spec a n); auto. subst. simpl. apply IHa.
      simpl in H. tauto. simpl in H'. tauto. congruence.
Qed.

Lemma nc_tok : forall a a' w, alloc_ok a = true -> alloc_ok a' = true -> a <> a' ->
  nocross (tok_text a) (tok_text a') w.
Proof.
  intros a a' w H H' NE. rewrite !tok_text_eq. rewrite var_eq. simpl. apply nocross_head.
  - intro I. apply in_app_or in I. destruct I as [I|I].
    + apply (memN_false _ _ var_tail_nodollar). auto.
    + destruct I as [I|I]. discriminate. apply in_app_or in I. destruct I as [I|I].
      apply (alloc_ok_nodollar _ H'); auto. destruct I as [I|I]. discriminate. destruct I.
  - change (dollar :: var_tail ++ lbr :: a ++ [rbr]) with ((dollar :: var_tail ++ [lbr]) ++ a ++ [rbr]).
    replace ((dollar :: var_tail ++ lbr :: a' ++ [rbr]) ++ w)
      with ((dollar :: var_tail ++ [lbr]) ++ a' ++ rbr :: w).
    2:{ simpl. rewrite <- !app_assoc. simpl. rewrite <- app_assoc. auto. }
    replace (dollar :: var_tail ++ lbr :: a ++ [rbr]) with ((dollar :: var_tail ++ [lbr]) ++ a ++ [rbr]).
    2:{ simpl. rewrite <- !app_assoc. auto. }
    rewrite prefixb_app_l. apply prefixb_alloc_neq; auto using alloc_ok_norbr.
Qed.

(** * the three uses *)
Definition sub_tok (a new : str) (x : seg) : seg :=
  match x with STok a' => if str_eqb a a' then SSub new else x | _ => x end.
Definition sub_var (new : str) (x : seg) : seg :=
  match x with SVar => SSub new | _ => x end.
Definition is_tok (x : seg) : bool := match x with STok _ => true | _ => false end.
Definition is_var (x : seg) : bool := match x with SVar => true | _ => false end.
Definition toks_segs (l : list seg) : list str :=
  flat_map (fun x => match x with STok a => [a] | _ => [] end) l.

Lemma tok_text_nonnil : forall a, tok_text a <> [].
Proof. intros. rewrite tok_text_eq, var_eq. discriminate. Qed.

(** [cmd.replace(token, new)] *)
Lemma replace_tok_segs : forall a new l, alloc_ok a = true -> segs_ok l = true ->
  replace (tok_text a) new (segs_text l) = segs_text (map (sub_tok a new) l).
Proof.
  intros a new l A. unfold replace. destruct (tok_text a) eqn:TT. destruct (tok_text_nonnil _ TT).
  rewrite <- TT. clear TT.
  induction l as [|x r]; intros H. auto.
  pose proof (segs_ok_tail _ _ H) as Hr. specialize (IHr Hr).
  rewrite map_cons, !segs_text_cons. destruct x.
  - simpl seg_text. rewrite replace_nocross. rewrite IHr. auto.
    rewrite tok_text_eq. apply nc_text. auto.
  - simpl seg_text. rewrite replace_nocross. rewrite IHr. auto.
    rewrite tok_text_eq. apply nc_var. auto.
  - simpl sub_tok. destruct (str_eqb a a0) eqn:E.
    + apply str_eqb_eq in E. subst a0. simpl seg_text. rewrite replace_hit by apply tok_text_nonnil.
      rewrite IHr. auto.
    + apply str_eqb_neq in E. simpl seg_text. rewrite replace_nocross. rewrite IHr. auto.
      apply nc_tok; auto. simpl in H. apply andb_true_iff in H. tauto.
  - simpl seg_text. rewrite replace_nocross. rewrite IHr. auto.
    rewrite tok_text_eq. apply nc_sub. simpl in H. apply andb_true_iff in H. tauto.
Qed.

Lemma segs_ok_sub_tok : forall a new l, sub_ok new = true -> segs_ok l = true ->
  segs_ok (map (sub_tok a new) l) = true.
Proof.
  induction l as [|x r]; intros S H. auto.
  pose proof (segs_ok_tail _ _ H) as Hr. specialize (IHr S Hr).
  assert (ST : starts_text (map (sub_tok a new) r) = starts_text r).
  { destruct r as [|y r]; auto. destruct y; simpl; auto. destruct (str_eqb a a0); auto. }
  destruct x; simpl map.
  - simpl in *. rewrite ST. rewrite IHr. repeat (apply andb_true_iff in H; destruct H as [H ?]).
    rewrite H, H1, H2. auto.
  - simpl in H. apply andb_true_iff in H. destruct H as [H1 H2].
    change (segs_ok (SVar :: map (sub_tok a new) r)) with
      (match map (sub_tok a new) r with SText (c :: _) :: _ => negb (c =? lbr) | _ => true end
       && segs_ok (map (sub_tok a new) r)).
    rewrite IHr. rewrite andb_true_r.
    destruct r as [|y r]; auto. destruct y; simpl in *; auto. destruct (str_eqb a a0); auto.
  - simpl in H. apply andb_true_iff in H. destruct H as [H1 H2].
    simpl. destruct (str_eqb a a0); simpl; rewrite IHr; rewrite ?S, ?H1; auto.
  - simpl in *. apply andb_true_iff in H. destruct H as [H1 H2]. rewrite H1, IHr. auto.
Qed.

(** [cmd.replace(launcher_var, new)] once no bracketed token is left *)
Lemma replace_var_segs : forall new l, segs_ok l = true -> existsb is_tok l = false ->
  replace launcher_var new (segs_text l) = segs_text (map (sub_var new) l).
Proof.
  intros new l. unfold replace. destruct launcher_var eqn:LV. destruct (var_nonnil LV).
  rewrite <- LV. clear LV.
  induction l as [|x r]; intros H T. auto.
  pose proof (segs_ok_tail _ _ H) as Hr. simpl in T. apply orb_false_iff in T. destruct T as [T1 T2].
  specialize (IHr Hr T2).
  rewrite map_cons, !segs_text_cons. destruct x; try discriminate.
  - simpl seg_text. rewrite replace_nocross. rewrite IHr. auto.
    rewrite <- (app_nil_r launcher_var) at 1. apply nc_text. auto.
  - simpl seg_text. rewrite replace_hit by apply var_nonnil. rewrite IHr. auto.
  - simpl seg_text. rewrite replace_nocross. rewrite IHr. auto.
    rewrite <- (app_nil_r launcher_var) at 1. apply nc_sub. simpl in H. apply andb_true_iff in H. tauto.
Qed.

(** [launcher_var in cmd] *)
Lemma contains_var_segs : forall l, segs_ok l = true ->
  containsb launcher_var (segs_text l) = existsb (fun x => is_var x || is_tok x) l.
Proof.
  induction l as [|x r]; intros H. reflexivity.
  pose proof (segs_ok_tail _ _ H) as Hr. specialize (IHr Hr).
  rewrite segs_text_cons. destruct x; simpl existsb.
  - simpl seg_text. rewrite containsb_nocross. auto.
    rewrite <- (app_nil_r launcher_var) at 1. apply nc_text. auto.
  - simpl seg_text. apply containsb_hit.
  - simpl seg_text. rewrite tok_text_eq. rewrite <- app_assoc. apply containsb_hit.
  - simpl seg_text. rewrite containsb_nocross. auto.
    rewrite <- (app_nil_r launcher_var) at 1. apply nc_sub. simpl in H. apply andb_true_iff in H. tauto.
Qed.

(** * the scanner *)
Lemma find_close_alloc : forall a w, alloc_ok a = true -> find_close (a ++ rbr :: w) = Some a.
Proof.
  induction a; simpl; intros. rewrite N.eqb_refl. auto.
  apply andb_true_iff in H. destruct H as [H1 H2]. unfold alloc_char in H1.
  repeat (apply andb_true_iff in H1; destruct H1 as [H1 ?]).
  apply negb_true_iff in H0. apply negb_true_iff in H. rewrite H0, H. rewrite IHa; auto.
Qed.

Lemma scan_skip : forall x w, scan_tokens (List.length x) (x ++ w) = scan_tokens 0 w.
Proof. induction x; simpl; intros; auto. Qed.

Lemma scan_unfold : forall c t',
  scan_tokens 0 (c :: t') =
  if prefixb tok_open (c :: t') then
    match find_close (skipn (List.length tok_open) (c :: t')) with
    | Some al => al :: scan_tokens (List.length tok_open + List.length al) t'
    | None => scan_tokens 0 t'
    end
  else scan_tokens 0 t'.
Proof. reflexivity. Qed.

Lemma scan_nocross : forall u w, nocross tok_open u w -> scan_tokens 0 (u ++ w) = scan_tokens 0 w.
Proof.
  induction u; intros. auto.
  change ((a :: u) ++ w) with (a :: (u ++ w)). rewrite scan_unfold.
  pose proof (H [] (a :: u) eq_refl) as P. simpl in P. rewrite P by discriminate.
  apply IHu. eapply nocross_tail; eauto.
Qed.

Lemma scan_hit : forall a w, alloc_ok a = true ->
  scan_tokens 0 (tok_text a ++ w) = a :: scan_tokens 0 w.
Proof.
  intros a w A. unfold tok_text. rewrite <- !app_assoc.
  assert (TO : exists c to, tok_open = c :: to).
  { rewrite tok_open_eq, var_eq. eexists. eexists. reflexivity. }
  destruct TO as [c [to TO]].
  assert (E : tok_open ++ a ++ [rbr] ++ w = c :: (to ++ a ++ [rbr] ++ w)) by (rewrite TO; auto).
  rewrite E. rewrite scan_unfold. rewrite <- E.
  rewrite prefixb_app.
  rewrite skipn_app, skipn_all, Nat.sub_diag. simpl skipn.
  change ([rbr] ++ w) with (rbr :: w). change ([] ++ a ++ rbr :: w) with (a ++ rbr :: w).
  rewrite find_close_alloc by auto. f_equal.
  replace (to ++ a ++ rbr :: w) with ((to ++ a ++ [rbr]) ++ w) by (rewrite <- !app_assoc; auto).
  replace (List.length tok_open + List.length a)%nat with (List.length (to ++ a ++ [rbr])).
  apply scan_skip. rewrite TO. rewrite !app_length. simpl. lia.
Qed.

Lemma scan_segs : forall l, segs_ok l = true -> scan_tokens 0 (segs_text l) = toks_segs l.
Proof.
  induction l as [|x r]; intros H. reflexivity.
  pose proof (segs_ok_tail _ _ H) as Hr. specialize (IHr Hr).
  rewrite segs_text_cons. destruct x; simpl seg_text.
  - rewrite scan_nocross. auto. rewrite tok_open_eq. apply nc_text. auto.
  - rewrite scan_nocross. auto. rewrite tok_open_eq. apply nc_var. auto.
  - rewrite scan_hit. simpl. rewrite IHr. auto. simpl in H. apply andb_true_iff in H. tauto.
  - rewrite scan_nocross. auto. rewrite tok_open_eq. apply nc_sub. simpl in H. apply andb_true_iff in H. tauto.
Qed.

Lemma replace_unfold : forall old new t, old <> [] -> replace old new t = replace_from old new 0 t.
Proof. intros. destruct old. congruence. reflexivity. Qed.

Lemma replace_from_tok_segs : forall a new l, alloc_ok a = true -> segs_ok l = true ->
  replace_from (tok_text a) new 0 (segs_text l) = segs_text (map (sub_tok a new) l).
Proof. intros. rewrite <- replace_unfold by apply tok_text_nonnil. apply replace_tok_segs; auto. Qed.

Lemma replace_from_var_segs : forall new l, segs_ok l = true -> existsb is_tok l = false ->
  replace_from launcher_var new 0 (segs_text l) = segs_text (map (sub_var new) l).
Proof. intros. rewrite <- replace_unfold by apply var_nonnil. apply replace_var_segs; auto. Qed.

(** C15 model, part 1: Python values and strings, [str.format] templates, the
    batch dictionaries of the adapters, and header assembly per back-end
    (slurmscriptadapter.get_header, lsfscriptadapter.get_header,
    fluxscriptadapter.get_header) from the T-data templates of
    [Gen.HeaderData].  Executable, stdlib only, no proofs. *)
From Coq Require Import List Arith NArith ZArith Bool Ascii String.
From MWF Require Import Base.Str Gen.HeaderData.
Import ListNotations.
Local Open Scope N_scope.
Local Open Scope list_scope.

(** * Results: Python exceptions are mapped to two classes (DESIGN 2.3):
    [Diag] = ValueError / RuntimeError / bare Exception (a diagnostic),
    [Internal] = KeyError, TypeError, AttributeError, IndexError, ... *)
Inductive exn := Diag | Internal.
Inductive res (A : Type) := Ok (a : A) | Err (e : exn).
Arguments Ok {A} a.
Arguments Err {A} e.
Definition bind {A B} (x : res A) (f : A -> res B) : res B :=
  match x with Ok a => f a | Err e => Err e end.
Notation "x <- e ;; k" := (bind e (fun x => k)) (at level 61, e at next level, right associativity).
Fixpoint map_res {A B} (f : A -> res B) (l : list A) : res (list B) :=
  match l with
  | [] => Ok []
  | a :: l' => b <- f a ;; r <- map_res f l' ;; Ok (b :: r)
  end.

(** * Strings (Python [str] over code points) *)
Definition nl : N := 10.
Fixpoint prefixb (p t : str) : bool :=
  match p, t with
  | [], _ => true
  | x :: p', y :: t' => N.eqb x y && prefixb p' t'
  | _ :: _, [] => false
  end.
Fixpoint containsb (p t : str) : bool :=
  prefixb p t || match t with [] => false | _ :: t' => containsb p t' end.

(** [str.replace old new] for a non-empty [old]: leftmost, non-overlapping. *)
Fixpoint replace_from (old new : str) (skip : nat) (t : str) : str :=
  match t with
  | [] => []
  | c :: t' =>
    match skip with
    | S k => replace_from old new k t'
    | O => if prefixb old t then new ++ replace_from old new (List.length old - 1)%nat t'
           else c :: replace_from old new 0 t'
    end
  end.
Definition replace (old new t : str) : str :=
  match old with [] => t | _ => replace_from old new 0 t end.

Fixpoint join (sep : str) (l : list str) : str :=
  match l with
  | [] => []
  | [a] => a
  | a :: l' => a ++ sep ++ join sep l'
  end.

(** [t.split(c)] for a one-character separator: never empty. *)
Fixpoint split_on (c : N) (t : str) : list str :=
  match t with
  | [] => [[]]
  | x :: t' =>
    if N.eqb x c then [] :: split_on c t'
    else match split_on c t' with
         | w :: ws => (x :: w) :: ws
         | [] => [[x]]
         end
  end.

Definition is_digit (c : N) : bool := (48 <=? c) && (c <=? 57).
(** the white space of [str.strip], [int()] and the regex class [\s]
    (ASCII part plus U+0085, U+00A0) *)
Definition is_ws (c : N) : bool :=
  (c =? 32) || ((9 <=? c) && (c <=? 13)) || ((28 <=? c) && (c <=? 31)) || (c =? 133) || (c =? 160).
Fixpoint lstrip (t : str) : str :=
  match t with c :: t' => if is_ws c then lstrip t' else t | [] => [] end.
Definition strip (t : str) : str := rev (lstrip (rev (lstrip t))).

Fixpoint uint_str (d : Decimal.uint) : str :=
  match d with
  | Decimal.Nil => []
  | Decimal.D0 r => 48 :: uint_str r | Decimal.D1 r => 49 :: uint_str r
  | Decimal.D2 r => 50 :: uint_str r | Decimal.D3 r => 51 :: uint_str r
  | Decimal.D4 r => 52 :: uint_str r | Decimal.D5 r => 53 :: uint_str r
  | Decimal.D6 r => 54 :: uint_str r | Decimal.D7 r => 55 :: uint_str r
  | Decimal.D8 r => 56 :: uint_str r | Decimal.D9 r => 57 :: uint_str r
  end.
Definition N_dec (n : N) : str := uint_str (N.to_uint n).
Definition Z_dec (z : Z) : str :=
  match z with Zneg p => 45 :: N_dec (Npos p) | _ => N_dec (Z.to_N z) end.

(** [int(text)]: optional white space, sign, ASCII digits with single
    underscores between digits. *)
Fixpoint digits_val (acc : N) (t : str) : option N :=
  match t with
  | [] => Some acc
  | c :: t' =>
    if is_digit c then digits_val (acc * 10 + (c - 48)) t'
    else if c =? 95 then
      match t' with
      | d :: _ => if is_digit d then digits_val acc t' else None
      | [] => None
      end
    else None
  end.
Definition py_nat (t : str) : option N :=
  match t with c :: _ => if is_digit c then digits_val 0 t else None | [] => None end.
Definition py_int (t : str) : option Z :=
  match strip t with
  | 45 :: r => option_map (fun n => Z.opp (Z.of_N n)) (py_nat r)
  | 43 :: r => option_map Z.of_N (py_nat r)
  | r => option_map Z.of_N (py_nat r)
  end.

(** * Python values that can sit in a batch block or a step's run block *)
(** [VFloat n]: the integral float [float(n)] (YAML [30.0], [6.0e+1]: the schema's
    "integer" admits integral floats), [n < 10^16] so that [str()] is plain decimal *)
Inductive val := VInt (n : N) | VStr (t : str) | VBool (b : bool) | VNone | VFloat (n : N).
Definition dict := list (str * val).

Definition truthy (v : val) : bool :=
  match v with
  | VInt n => negb (n =? 0)
  | VStr t => match t with [] => false | _ => true end
  | VBool b => b
  | VNone => false
  | VFloat n => negb (n =? 0)
  end.
(** [str(v)] = ["{}".format(v)] *)
Definition render (v : val) : str :=
  match v with
  | VInt n => N_dec n
  | VStr t => t
  | VBool true => s "True"
  | VBool false => s "False"
  | VNone => s "None"
  | VFloat n => N_dec n ++ s ".0"
  end.
(** [int(v)] *)
Definition int_of (v : val) : res Z :=
  match v with
  | VInt n => Ok (Z.of_N n)
  | VStr t => match py_int t with Some z => Ok z | None => Err Diag end
  | VBool b => Ok (if b then 1%Z else 0%Z)
  | VNone => Err Internal
  | VFloat n => Ok (Z.of_N n)
  end.

Fixpoint lookup {A} (k : str) (d : list (str * A)) : option A :=
  match d with
  | [] => None
  | (k', v) :: d' => if str_eqb k k' then Some v else lookup k d'
  end.
Definition has {A} (k : str) (d : list (str * A)) : bool :=
  match lookup k d with Some _ => true | None => false end.
Definition lookup_truthy (k : str) (d : dict) : bool :=
  match lookup k d with Some v => truthy v | None => false end.
Fixpoint mem_str (k : str) (l : list str) : bool :=
  match l with [] => false | x :: l' => str_eqb k x || mem_str k l' end.

(** * [str.format] *)
Fixpoint format (tpl : template) (env : dict) : res str :=
  match tpl with
  | [] => Ok []
  | Lit t :: r => x <- format r env ;; Ok (t ++ x)
  | Fld k :: r =>
    match lookup k env with
    | Some v => x <- format r env ;; Ok (render v ++ x)
    | None => Err Internal                       (* KeyError / IndexError *)
    end
  end.
Definition pos1 (a : str) : dict := [(s "0", VStr a)].
Definition pos2 (a b : str) : dict := [(s "0", VStr a); (s "1", VStr b)].

(** * Steps and batch blocks *)
Record step := { st_name : str; st_desc : str; st_cmd : str; st_restart : str;
                 st_res : dict  (* the other keys the run block declares *) }.

(** the run dictionary of a StudyStep: the defaults of [StudyStep.__init__]
    (all [""]) overridden by the declared keys, then the extra declared keys *)
Definition declared_run (st : step) : dict :=
  (s "cmd", VStr (st_cmd st)) :: (s "restart", VStr (st_restart st)) :: st_res st.
Definition run_items (st : step) : dict :=
  let d := declared_run st in
  map (fun k => (k, match lookup k d with Some v => v | None => VStr [] end)) step_run_default_keys
  ++ filter (fun kv => negb (mem_str (fst kv) step_run_default_keys)) (st_res st).
Definition run_get (st : step) (k : str) : option val := lookup k (run_items st).
Definition truthy_items (d : dict) : dict := filter (fun kv => truthy (snd kv)) d.

(** a batch block: the keyword arguments the adapter is constructed with,
    and (Flux) the nested [args] mapping with rendered values *)
Record batch := { b_kw : dict; b_args : list (str * str) }.

Definition shell_of (kw : dict) : val :=
  match lookup (s "shell") kw with Some v => v | None => VStr (s "/bin/bash") end.

Fixpoint build_batch (ps : list (str * str * bdefault)) (kw : dict) : res dict :=
  match ps with
  | [] => Ok []
  | (name, key, d) :: ps' =>
    v <- match lookup key kw, d with
         | Some v, _ => Ok v
         | None, BReq => Err Internal              (* KeyError in kwargs.pop *)
         | None, BNone => Ok VNone
         | None, BStr t => Ok (VStr t)
         end ;;
    r <- build_batch ps' kw ;;
    Ok ((name, v) :: r)
  end.
(** [if v: self.add_batch_parameter(name, v)] *)
Definition cond_param (name : str) (kw : dict) : dict :=
  match lookup name kw with
  | Some v => if truthy v then [(name, v)] else []
  | None => []
  end.

Definition under (t : str) : str := replace (s " ") (s "_") t.
Definition oneline (t : str) : str := replace [nl] (s " ") t.
(** [re.sub(r"\s", "_", t)]: every code point the unicode pattern [\s] matches
    ([py_space_points], enumerated from the running interpreter) becomes "_" *)
Definition is_py_space (c : N) : bool := existsb (N.eqb c) py_space_points.
Definition subst_ws (t : str) : str := map (fun c => if is_py_space c then 95 else c) t.
(** the Slurm job name (squeue / sacct rows are split on [\s+]); LSF and Flux
    replace blanks only ([under]) *)
Definition slurm_job_name (name : str) : str := subst_ws name.

(** * Slurm: SlurmScriptAdapter.__init__ / get_header *)
Definition slurm_exec (b : batch) : val := shell_of (b_kw b).
Definition batch_slurm (b : batch) : res dict :=
  d <- build_batch slurm_batch_params (b_kw b) ;;
  Ok (cond_param (s "procs") (b_kw b) ++ d).

(** one optional header entry: [if key in resources and resources[key]] *)
Definition header_entry (resources : dict) (e : str * template) : res (list str) :=
  let (key, tpl) := e in
  if lookup_truthy key resources then l <- format tpl resources ;; Ok [l] else Ok [].

Definition slurm_resources (bd : dict) (st : step) : dict :=
  (s "job-name", VStr (slurm_job_name (st_name st))) :: (s "comment", VStr (oneline (st_desc st)))
  :: truthy_items (run_items st) ++ bd.

Definition header_lines_slurm (b : batch) (st : step) : res (list str) :=
  bd <- batch_slurm b ;;
  let procs_in_batch := has (s "procs") bd in
  let resources := slurm_resources bd st in
  let nodes := lookup_truthy (s "nodes") resources in
  if negb (lookup_truthy (s "procs") resources) && negb nodes then Err Diag   (* RuntimeError *)
  else
    sheb <- format slurm_shebang [(s "0", slurm_exec b)] ;;
    hs <- map_res (header_entry resources) slurm_header ;;
    nt <- (if procs_in_batch || negb nodes
           then l <- format slurm_ntask_header resources ;; Ok [l] else Ok []) ;;
    ex <- (if lookup_truthy (s "exclusive") resources
           then l <- format slurm_exclusive resources ;; Ok [l] else Ok []) ;;
    qo <- (match lookup (s "qos") resources with
           | Some q => if truthy q then l <- format slurm_qos [(s "qos", q)] ;; Ok [l] else Ok []
           | None => Ok []
           end) ;;
    Ok (sheb :: List.concat hs ++ nt ++ ex ++ qo).
Definition header_slurm (b : batch) (st : step) : res str :=
  l <- header_lines_slurm b st ;; Ok (join [nl] l).

(** * LSF: LSFScriptAdapter.__init__ / get_header *)
Definition lsf_exec (b : batch) : val :=
  if lsf_forwards_shell then shell_of (b_kw b) else VStr (s "/bin/bash").
Definition batch_lsf (b : batch) : res dict :=
  d <- build_batch lsf_batch_params (b_kw b) ;;
  Ok (cond_param (s "reservation") (b_kw b) ++ d).

Definition ceil_div (a b : Z) : Z := Z.opp (Z.div (Z.opp a) b).
Definition pad2 (z : Z) : str :=
  if (z <? 0)%Z then Z_dec z
  else if (z <? 10)%Z then 48 :: Z_dec z else Z_dec z.
(** "HH:MM:SS" -> "HH:MM" (seconds rounded up, minutes carried); other
    shapes unchanged.  [float()] is modelled on integer texts. *)
Definition lsf_walltime (w : str) : res str :=
  match split_on 58 w with
  | [h; m; sec] =>
    match py_int sec, py_int m, py_int h with
    | Some zs, Some zm, Some zh =>
      let total := (zm + ceil_div zs 60)%Z in
      let hours := (zh + Z.quot total 60)%Z in
      Ok (pad2 hours ++ [58] ++ pad2 (Z.modulo total 60))
    | _, _, _ => Err Diag
    end
  | _ => Ok w
  end.

Definition header_lines_lsf (b : batch) (st : step) : res (list str) :=
  bd <- batch_lsf b ;;
  bnodes <- match lookup (s "nodes") bd with Some v => Ok v | None => Err Internal end ;;
  let nodes := match run_get st (s "nodes") with
               | Some v => if truthy v then v else bnodes
               | None => bnodes
               end in
  let jn := under (st_name st) in
  out <- format lsf_output_name (pos1 jn) ;;
  err <- format lsf_error_name (pos1 jn) ;;
  let w0 := match run_get st (s "walltime") with
            | Some v => if truthy v then render v else []
            | None => []
            end in
  w <- lsf_walltime w0 ;;
  let bh := (match w with [] => [] | _ => [(s "walltime", VStr w)] end)
            ++ truthy_items (run_items st)
            ++ [(s "nodes", nodes); (s "job-name", VStr jn); (s "output", VStr out); (s "error", VStr err)]
            ++ bd in
  sheb <- format lsf_shebang [(s "0", lsf_exec b)] ;;
  hs <- map_res (fun e : str * template =>
                   let (key, tpl) := e in
                   if has key bh then l <- format tpl bh ;; Ok [l] else Ok []) lsf_header ;;
  Ok (sheb :: List.concat hs).
Definition header_lsf (b : batch) (st : step) : res str :=
  l <- header_lines_lsf b st ;; Ok (join [nl] l).

(** * Flux: FluxScriptAdapter.__init__ / get_header (the [flux] module is
    absent: the broker version is an input) *)
Definition flux_exec (b : batch) : val := shell_of (b_kw b).
Definition flux_latest : str := s "0.49.0".
Definition flux_uri (b : batch) : option val :=
  match lookup (s "uri") (b_kw b) with
  | Some v => if truthy v then Some v else None
  | None => None
  end.
Definition batch_flux (b : batch) : res dict :=
  d <- build_batch flux_batch_params (b_kw b) ;;
  Ok ((s "version", match lookup (s "version") (b_kw b) with Some v => v | None => VStr flux_latest end)
      :: (match flux_uri b with Some v => [(s "flux_uri", v)] | None => [] end) ++ d).

Definition all_digits (t : str) : bool :=
  match t with [] => false | _ => forallb is_digit t end.
Fixpoint sum_parts (parts : list str) (mult : Z) : option Z :=   (* parts reversed *)
  match parts with
  | [] => Some 0%Z
  | p :: r =>
    match py_int p, sum_parts r (mult * 60)%Z with
    | Some z, Some acc => Some (z * mult + acc)%Z
    | _, _ => None
    end
  end.
(** _convert_walltime_to_seconds, rendered by [str()]; floats are modelled on
    integer components ("600.0") *)
Definition flux_walltime (v : val) : res str :=
  match v with
  | VInt n => Ok (N_dec (n * 60))
  | VBool b => Ok (if b then s "60" else s "0")
  | VFloat n => Ok (N_dec (n * 60))
  | VNone => Err Internal
  | VStr t =>
    if all_digits t then
      match py_nat t with Some n => Ok (N_dec (n * 60)) | None => Err Diag end
    else if containsb [58] t then
      match sum_parts (rev (split_on 58 t)) 1%Z with
      | Some z => Ok (Z_dec z ++ s ".0")
      | None => Err Diag
      end
    else match t with
         | [] => Ok (s "0")
         | _ => if str_eqb t (s "inf") then Ok (s "0") else Err Diag
         end
  end.

Definition header_lines_flux (b : batch) (broker : str) (st : step) : res (list str) :=
  bd <- batch_flux b ;;
  wv <- match run_get st (s "walltime") with Some v => Ok v | None => Ok VNone end ;;
  w <- flux_walltime wv ;;
  rn <- match run_get st (s "nodes") with Some v => Ok v | None => Err Internal end ;;
  let bh := (s "flux_version", VStr broker) :: (s "comment", VStr (oneline (st_desc st)))
            :: (s "job-name", VStr (under (st_name st)))
            :: (if truthy rn then [(s "nodes", rn)] else [])
            ++ (s "walltime", VStr w) :: bd in
  sheb <- format flux_shebang [(s "0", flux_exec b)] ;;
  hs <- map_res (fun e : str * template =>
                   let (key, tpl) := e in
                   if has key bh then l <- format tpl bh ;; Ok [l] else Ok [])
                (flux_header ++ match flux_uri b with Some _ => flux_header_uri | None => [] end) ;;
  Ok (sheb :: List.concat hs).
Definition header_flux (b : batch) (broker : str) (st : step) : res str :=
  l <- header_lines_flux b broker st ;; Ok (join [nl] l).

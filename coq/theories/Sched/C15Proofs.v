(** C15 proofs, part 7: the theorems about [write_slurm] / [write_local]. *)
From Coq Require Import List Arith NArith ZArith Bool Lia.
From MWF Require Import Base.Str Gen.HeaderData Sched.Header Sched.Launcher Sched.Readers
  Sched.StrFacts Sched.SegProofs Sched.LauncherProofs Sched.ReadProofs Sched.SlurmLaunch
  Sched.SlurmHeader Sched.ScriptProofs.
Import ListNotations.
Local Open Scope N_scope.
Local Open Scope list_scope.

(** * the hygiene domain, unpacked *)
Record H15_parts (c : case) : Prop := {
  hp_cmd : pieces_text (c_cmd c) = st_cmd (c_step c);
  hp_restart : pieces_text (c_restart c) = st_restart (c_step c);
  hp_cmd_wf : pieces_wf (c_cmd c) = true;
  hp_cmd_start : starts_cmd (c_cmd c) = true;
  hp_restart_wf : pieces_wf (c_restart c) = true;
  hp_restart_start : match c_restart c with [] => true | r => starts_cmd r end = true;
  hp_name : safe_name (c_be c) (st_name (c_step c)) = true;
  hp_desc : safe_quoted (oneline (st_desc (c_step c))) = true;
  hp_nodup : nodup_keys (st_res (c_step c)) = true;
  hp_nocmd : has (s "cmd") (st_res (c_step c)) = false;
  hp_norestart : has (s "restart") (st_res (c_step c)) = false;
  hp_nodes : count_ok (st_res (c_step c)) RNodes = true;
  hp_procs : count_ok (st_res (c_step c)) RTasks = true;
  hp_vals : forallb (val_safe (st_res (c_step c))) res_keys_str = true;
  hp_batch : batch_keys_ok (c_be c) (c_batch c) = true;
  hp_lsf : negb (backend_eqb (c_be c) Lsf) || lsf_dom c = true;
  hp_flux : negb (backend_eqb (c_be c) Flux) || flux_dom c = true }.

Lemma H15_unpack : forall c, H15 c = true -> H15_parts c.
Proof.
  intros c H. unfold H15 in H.
  repeat (apply andb_true_iff in H; destruct H as [H ?]).
  constructor; auto.
  - apply str_eqb_eq; auto.
  - apply str_eqb_eq; auto.
  - apply negb_true_iff; auto.
  - apply negb_true_iff; auto.
Qed.

Record batch_parts (be : backend) (b : batch) : Prop := {
  bp_nodup : nodup_keys (b_kw b) = true;
  bp_req : be <> Local -> forall k, In k [s "host"; s "bank"; s "queue"] ->
           exists v, lookup k (b_kw b) = Some v /\ truthy v = true /\ safe_tok (render v) = true;
  bp_vals : forallb (val_safe (b_kw b)) [RReservation; RQos; RGpus] = true;
  bp_nodes : count_ok (b_kw b) RNodes = true;
  bp_procs : count_ok (b_kw b) RTasks = true;
  bp_shell : match lookup (s "shell") (b_kw b) with
             | Some v => truthy v && safe_tok (render v)
             | None => true
             end = true }.

Lemma batch_unpack : forall be b, batch_keys_ok be b = true -> batch_parts be b.
Proof.
  intros be b H. unfold batch_keys_ok in H.
  repeat (apply andb_true_iff in H; destruct H as [H ?]).
  constructor; auto.
  intros NL k I. apply orb_true_iff in H4. destruct H4 as [H4|H4].
  - destruct be; simpl in H4; try discriminate. congruence.
  - rewrite forallb_forall in H4. apply H4 in I.
    destruct (lookup k (b_kw b)) as [v|]; try discriminate. apply andb_true_iff in I. destruct I. eauto.
Qed.

(** * values *)
Lemma decl_count_word : forall d K v, count_ok d K = true -> decl d (key_name K) = Some v ->
  all_digits (render v) = true.
Proof.
  intros d K v C D. unfold count_ok in C. unfold decl in D.
  destruct (lookup (key_name K) d) as [v'|]; try discriminate.
  destruct (truthy v') eqn:T; inversion D; subst.
  destruct (count_of v) eqn:Cv; try discriminate. apply (count_render_digits _ _ Cv).
Qed.

Lemma decl_safe_word : forall d K v, val_safe d K = true -> decl d (key_name K) = Some v ->
  safe_word (render v).
Proof.
  intros d K v C D. unfold val_safe in C. unfold decl in D.
  destruct (lookup (key_name K) d) as [v'|]; try discriminate.
  destruct (truthy v') eqn:T; inversion D; subst. apply safe_tok_word. auto.
Qed.

Lemma shell_safe : forall be b, batch_parts be b -> ~ In nl (render (shell_of (b_kw b))).
Proof.
  intros be b BP. destruct BP. unfold shell_of. destruct (lookup (s "shell") (b_kw b)) as [v|].
  - apply andb_true_iff in bp_shell0. destruct bp_shell0 as [_ S]. apply safe_tok_word in S. destruct S. auto.
  - simpl. intro I. repeat (destruct I as [I|I]; [discriminate I|]). destruct I.
Qed.

(** the totals of a step *)
Lemma total_run_val : forall st K, K <> RExclusive -> count_ok (st_res st) K = true ->
  max_of (run_val st (key_name K)) = Ok (Z.of_N (total_of st K))
  /\ truthy (run_val st (key_name K)) = negb (total_of st K =? 0)
  /\ tval (run_val st (key_name K)) = declared (st_res st) K
  /\ (forall w, tval (run_val st (key_name K)) = Some w -> all_digits w = true).
Proof.
  intros st K NX C. unfold count_ok in C. unfold run_val, total_of, max_of, tval, declared.
  destruct (lookup (key_name K) (st_res st)) as [v|].
  - destruct (truthy v) eqn:T.
    + destruct (count_of v) as [n|] eqn:Cv; try discriminate.
      destruct (count_render_digits _ _ Cv) as [D _].
      assert (NZ : n <> 0 /\ int_of v = Ok (Z.of_N n)).
      { destruct v; simpl in Cv; try discriminate.
        - destruct (N.eqb_spec n0 0); inversion Cv; subst. split; auto.
        - destruct (all_digits t) eqn:AD; try discriminate. simpl. rewrite py_int_digits by auto.
          rewrite py_nat_digits in Cv by auto. destruct (dval 0 t) eqn:DV; inversion Cv; subst.
          split. discriminate. auto. }
      destruct NZ as [NZ IO]. rewrite IO. repeat split; auto.
      * apply N.eqb_neq in NZ. rewrite NZ. auto.
      * destruct K; auto. congruence.
      * intros w E. inversion E. subst. auto.
    + repeat split; auto. intros w E. discriminate E.
  - simpl. repeat split; auto. intros w E. discriminate E.
Qed.

(** * the Slurm launcher invocation of a step, read back *)
Inductive pv_ok : val -> option str -> Prop :=
| pv_none : forall v, tval v = None -> pv_ok v None
| pv_some : forall v raw w, tval v = Some raw -> printed raw w -> pv_ok v (Some w).

Lemma pv_ok_pair : forall v w, pv_ok v w ->
  exists o, oprinted o /\ oraw o = tval v /\ ow o = w.
Proof.
  intros v w H. destruct H.
  - exists None. simpl. auto.
  - exists (Some (raw, w)). simpl. auto.
Qed.

Lemma opt_eqb_refl : forall o, opt_eqb o o = true.
Proof. destruct o; simpl; auto using str_eqb_refl. Qed.

Section SlurmStep.
  Variable st : step.
  Hypothesis ND : nodup_keys (st_res st) = true.
  Hypothesis CN : count_ok (st_res st) RNodes = true.
  Hypothesis CP : count_ok (st_res st) RTasks = true.
  Hypothesis VS : forallb (val_safe (st_res st)) res_keys_str = true.

  Let nodes := run_val st (s "nodes").
  Let procs := run_val st (s "procs").
  Let cptv := run_val st cpt_key.
  Let parf := parf_slurm (addl_args st).
  Definition tsub_slurm (f : tokform) : str := parf (snd (tok_vals f)) (fst (tok_vals f)).
  Definition bsub_slurm : str := parf procs nodes.

  Lemma parf_srun : forall p n, parf p n = srun_text (tval p) (tval n) (tval cptv).
  Proof. intros. unfold parf, parf_slurm, srun_text. rewrite slurm_extra_addl. reflexivity. Qed.

  Lemma launch_read : forall p n wp wn wc, pv_ok p wp -> pv_ok n wn -> pv_ok cptv wc ->
    read_srun (parf p n) = Some (opt_pair RTasks wp ++ opt_pair RNodes wn ++ opt_pair RCpusPerTask wc)
    /\ sub_ok (parf p n) = true.
  Proof.
    intros p n wp wn wc Hp Hn Hc. rewrite parf_srun.
    destruct (pv_ok_pair _ _ Hp) as [op [P1 [P2 P3]]].
    destruct (pv_ok_pair _ _ Hn) as [on [N1 [N2 N3]]].
    destruct (pv_ok_pair _ _ Hc) as [oc [C1 [C2 C3]]].
    rewrite <- P2, <- N2, <- C2. rewrite <- P3, <- N3, <- C3. split.
    - apply read_srun_text; auto.
    - apply srun_text_sub_ok; auto.
  Qed.

  Lemma pv_cpt : pv_ok cptv (declared (st_res st) RCpusPerTask).
  Proof.
    unfold cptv, run_val, declared, cpt_key. change (key_name RCpusPerTask) with (s "cores per task").
    destruct (lookup (s "cores per task") (st_res st)) as [v|] eqn:L.
    - destruct (truthy v) eqn:T.
      + apply pv_some with (raw := render v). unfold tval. rewrite T. auto.
        apply printed_word. apply (decl_safe_word (st_res st) RCpusPerTask).
        * rewrite forallb_forall in VS. apply VS. simpl. tauto.
        * unfold decl. change (key_name RCpusPerTask) with (s "cores per task"). rewrite L, T. auto.
      + apply pv_none. unfold tval. rewrite T. auto.
    - apply pv_none. reflexivity.
  Qed.

  Lemma pv_count : forall K, K <> RExclusive -> count_ok (st_res st) K = true ->
    pv_ok (run_val st (key_name K)) (declared (st_res st) K).
  Proof.
    intros K NX C. destruct (total_run_val st K NX C) as [_ [_ [E D]]].
    rewrite <- E. destruct (tval (run_val st (key_name K))) as [w|] eqn:T.
    - apply pv_some with (raw := w); auto. apply printed_word. apply digits_word. auto.
    - apply pv_none. auto.
  Qed.

  Lemma pv_tok : forall f, tok_wf f = true ->
    pv_ok (snd (tok_vals f)) (Some (tok_procs f)) /\ pv_ok (fst (tok_vals f)) (tok_nodes f).
  Proof.
    intros f W. destruct (tok_wf_parts f W) as [P Nn].
    destruct f as [n p sp | p n sp | p | n p sp]; simpl in *; split;
      try (apply pv_some with (raw := p); [unfold tval; rewrite truthy_digits by auto; reflexivity
                                          | apply printed_word; apply digits_word; auto]);
      try (apply pv_some with (raw := n); [unfold tval; rewrite truthy_digits by auto; reflexivity
                                          | apply printed_word; apply digits_word; auto]).
    - apply pv_none. reflexivity.
    - apply pv_some with (raw := blanks sp ++ p).
      + unfold tval. assert (T : truthy (VStr (blanks sp ++ p)) = true).
        { destruct p. discriminate. destruct sp; reflexivity. }
        rewrite T. reflexivity.
      + apply printed_blanks. apply digits_word. auto.
  Qed.

  Lemma reads_as_srun : forall wp wn wc,
    reads_as (opt_pair RTasks wp ++ opt_pair RNodes wn ++ opt_pair RCpusPerTask wc)
             ((RCpusPerTask, wc) :: [(RTasks, wp); (RNodes, wn)]) srun_keys = true.
  Proof.
    intros. unfold reads_as, srun_keys.
    destruct wp, wn, wc; simpl; rewrite ?str_eqb_refl; reflexivity.
  Qed.

  Lemma pieces_tok_wf : forall ps f, pieces_wf ps = true -> In (PTok f) ps -> tok_wf f = true.
  Proof.
    induction ps as [|p r]; intros f W I. destruct I.
    destruct I as [I|I].
    - subst p. simpl in W. apply andb_true_iff in W. tauto.
    - apply IHr; auto. destruct p; simpl in W; repeat (apply andb_true_iff in W; destruct W as [W ?]); auto.
  Qed.

  Lemma launch_ok_final : forall ps p, pieces_wf ps = true -> In p ps ->
    launch_good (launch_ok_slurm st) (final_seg tsub_slurm bsub_slurm) p.
  Proof.
    intros ps p W I. unfold launch_good. destruct p as [t| |f]; auto.
    - (* bare *)
      destruct (launch_read procs nodes _ _ _ (pv_count RTasks ltac:(discriminate) CP)
                            (pv_count RNodes ltac:(discriminate) CN) pv_cpt) as [R S].
      simpl seg_text. unfold bsub_slurm. split.
      + unfold launch_ok_slurm. fold procs nodes in R. rewrite R. apply reads_as_srun.
      + intro E. rewrite E in S. discriminate S.
    - (* token *)
      simpl seg_text. unfold tsub_slurm.
      pose proof (pieces_tok_wf ps f W I) as TW.
      destruct (pv_tok f TW) as [Pp Pn].
      destruct (launch_read _ _ _ _ _ Pp Pn pv_cpt) as [R S]. split.
      + unfold launch_ok_slurm. rewrite R. apply reads_as_srun.
      + intro E. rewrite E in S. discriminate S.
  Qed.

  Lemma tok_sub_ok : forall f, tok_wf f = true -> sub_ok (tsub_slurm f) = true.
  Proof.
    intros f TW. unfold tsub_slurm. destruct (pv_tok f TW) as [Pp Pn].
    destruct (launch_read _ _ _ _ _ Pp Pn pv_cpt) as [_ S]. auto.
  Qed.
  Lemma bare_sub_ok : sub_ok bsub_slurm = true.
  Proof.
    unfold bsub_slurm.
    destruct (launch_read procs nodes _ _ _ (pv_count RTasks ltac:(discriminate) CP)
                          (pv_count RNodes ltac:(discriminate) CN) pv_cpt) as [_ S]. auto.
  Qed.
End SlurmStep.

(** * the header keys, one by one *)
Definition fixg (kv : rkey * str) : rkey * str :=
  if rkey_eqb (fst kv) RGpus then (RGpus, gres_gpus (snd kv)) else kv.

Lemma fixg_opt_pair : forall K o, rkey_eqb K RGpus = false -> map fixg (opt_pair K o) = opt_pair K o.
Proof. intros. destruct o; simpl; auto. unfold fixg. simpl. rewrite H. auto. Qed.
Lemma fixg_gpus : forall (o : option val),
  map fixg (opt_pair RGpus (option_map (fun v => s "gpu:" ++ render v) o)) = opt_pair RGpus (option_map render o).
Proof. intros. destruct o; simpl; auto. Qed.
Lemma fixg_jn : forall tl, map fixg (jn_pairs tl) = jn_pairs tl.
Proof. intros. unfold jn_pairs. destruct (tl (s "job-name")); reflexivity. Qed.

Section Keys.
  Variables (b : batch) (st : step) (vh vb vq : val).
  Hypothesis Hq : lookup (s "queue") (b_kw b) = Some vq.
  Hypothesis Hb : lookup (s "bank") (b_kw b) = Some vb.
  Hypothesis ND : nodup_keys (st_res st) = true.
  Let bd := slurm_bd b vh vb vq.
  Let resources := slurm_resources bd st.
  Let tl := tl_ resources.

  Definition fixed_pairs : list (rkey * str) :=
    opt_pair RNodes (rv tl (s "nodes")) ++ opt_pair RQueue (rv tl (s "queue")) ++ opt_pair RBank (rv tl (s "bank"))
    ++ opt_pair RWalltime (rv tl (s "walltime")) ++ jn_pairs tl ++ opt_pair RComment (rv tl (s "comment"))
    ++ opt_pair RReservation (rv tl (s "reservation")) ++ opt_pair RGpus (rv tl (s "gpus"))
    ++ opt_pair RTasks (nt_opt b st vh vb vq) ++ opt_pair RExclusive (ex_opt b st vh vb vq)
    ++ opt_pair RQos (rv tl (s "qos")).

  Lemma fixg_raw : map fixg (raw_pairs b st vh vb vq) = fixed_pairs.
  Proof.
    unfold raw_pairs, table_pairs, fixed_pairs. fold bd. fold resources. fold tl.
    rewrite !map_app. rewrite fixg_gpus, fixg_jn. rewrite !fixg_opt_pair by reflexivity.
    rewrite <- !app_assoc. reflexivity.
  Qed.

  Lemma rget_jn : forall k, rkey_eqb k RJobName = false -> rkey_eqb k ROutput = false -> rkey_eqb k RError = false ->
    rget k (jn_pairs tl) = None.
  Proof. intros. unfold jn_pairs. destruct (tl (s "job-name")); simpl; rewrite ?H, ?H0, ?H1; auto. Qed.
  Lemma count_jn : forall k, rkey_eqb k RJobName = false -> rkey_eqb k ROutput = false -> rkey_eqb k RError = false ->
    count_key k (jn_pairs tl) = 0%nat.
  Proof. intros. unfold jn_pairs, count_key. destruct (tl (s "job-name")); simpl; rewrite ?H, ?H0, ?H1; auto. Qed.

  Definition the_opt (k : rkey) : option str :=
    match k with
    | RNodes => rv tl (s "nodes") | RQueue => rv tl (s "queue") | RBank => rv tl (s "bank")
    | RWalltime => rv tl (s "walltime") | RReservation => rv tl (s "reservation")
    | RGpus => rv tl (s "gpus") | RTasks => nt_opt b st vh vb vq | RExclusive => ex_opt b st vh vb vq
    | RQos => rv tl (s "qos") | _ => None
    end.

  Lemma opt_some_none : forall (o : option str), match o with Some v => Some v | None => None end = o.
  Proof. destruct o; auto. Qed.

  Lemma rget_fixed : forall k, In k slurm_header_keys -> rget k fixed_pairs = the_opt k.
  Proof.
    intros k I. unfold fixed_pairs.
    rewrite !rget_app, !rget_opt_pair.
    simpl in I. repeat (destruct I as [I|I]; [subst k; rewrite rget_jn by reflexivity; simpl rkey_eqb; cbv iota;
                                              simpl the_opt; rewrite ?opt_some_none; try reflexivity|]).
    all: try (destruct (rv tl _); reflexivity); try (destruct (nt_opt _ _ _ _ _); reflexivity);
         try (destruct (ex_opt _ _ _ _ _); reflexivity).
    destruct I.
  Qed.

  Lemma count_fixed : forall k, In k slurm_header_keys -> (count_key k fixed_pairs <= 1)%nat.
  Proof.
    intros k I. unfold fixed_pairs. rewrite !count_key_app.
    simpl in I.
    repeat (destruct I as [I|I];
            [subst k; rewrite count_jn by reflexivity;
             repeat match goal with
                    | |- context [count_key ?k (opt_pair ?K ?o)] =>
                      first [ rewrite (count_key_opt_pair_neq k K o) by reflexivity
                            | let X := fresh "X" in pose proof (count_key_opt_pair k K o) as X; simpl rkey_eqb in X;
                              cbv iota in X; generalize dependent (count_key k (opt_pair K o)); intros ]
                    end; lia |]).
    destruct I.
  Qed.
End Keys.

(** * what the header asks for is what is in effect *)
Lemma declared_render : forall d k, k <> RExclusive -> declared d k = option_map render (decl d (key_name k)).
Proof. intros. rewrite declared_decl. destruct (decl d (key_name k)); auto. destruct k; auto. congruence. Qed.

Section Effective.
  Variables (b : batch) (st : step) (vh vb vq : val).
  Hypothesis Hh : lookup (s "host") (b_kw b) = Some vh.
  Hypothesis Hb : lookup (s "bank") (b_kw b) = Some vb.
  Hypothesis Hq : lookup (s "queue") (b_kw b) = Some vq.
  Hypothesis ND : nodup_keys (st_res st) = true.
  Hypothesis NOGPU : match declared (st_res st) RGpus, declared (b_kw b) RGpus with
                     | None, Some _ => False | _, _ => True end.
  Let bd := slurm_bd b vh vb vq.
  Let resources := slurm_resources bd st.
  Let tl := tl_ resources.

  Lemma tl_eq : forall name, special name = false ->
    tl name = match decl (st_res st) name with Some v => Some v | None => decl bd name end.
  Proof. intros. unfold tl, resources, bd. apply tl_res; auto. Qed.

  Lemma rv_batch : forall K, K <> RExclusive -> batch_level K = true -> special (key_name K) = false ->
    decl bd (key_name K) = decl (b_kw b) (key_name K) ->
    rv tl (key_name K) = effective b st K.
  Proof.
    intros K NX BL SP BD. unfold rv, effective. rewrite tl_eq by auto. rewrite BL.
    rewrite !declared_render by auto. rewrite BD.
    destruct (decl (st_res st) (key_name K)); auto.
  Qed.
  Lemma rv_step : forall K, K <> RExclusive -> batch_level K = false -> special (key_name K) = false ->
    decl bd (key_name K) = None ->
    rv tl (key_name K) = effective b st K.
  Proof.
    intros K NX BL SP BD. unfold rv, effective. rewrite tl_eq by auto. rewrite BL.
    rewrite !declared_render by auto. rewrite BD.
    destruct (decl (st_res st) (key_name K)); auto.
  Qed.

  Lemma eff_nodes : rv tl (s "nodes") = effective b st RNodes.
  Proof. apply (rv_batch RNodes); try reflexivity; try discriminate. apply bd_nodes. Qed.
  Lemma eff_queue : rv tl (s "queue") = effective b st RQueue.
  Proof. apply (rv_batch RQueue); try reflexivity; try discriminate. apply bd_queue; auto. Qed.
  Lemma eff_bank : rv tl (s "bank") = effective b st RBank.
  Proof. apply (rv_batch RBank); try reflexivity; try discriminate. apply bd_bank; auto. Qed.
  Lemma eff_reservation : rv tl (s "reservation") = effective b st RReservation.
  Proof. apply (rv_batch RReservation); try reflexivity; try discriminate. apply bd_reservation. Qed.
  Lemma eff_qos : rv tl (s "qos") = effective b st RQos.
  Proof. apply (rv_batch RQos); try reflexivity; try discriminate. apply bd_qos. Qed.
  Lemma eff_procs : rv tl (s "procs") = effective b st RTasks.
  Proof. apply (rv_batch RTasks); try reflexivity; try discriminate. apply bd_procs. Qed.
  Lemma eff_walltime : rv tl (s "walltime") = effective b st RWalltime.
  Proof. apply (rv_step RWalltime); try reflexivity; try discriminate. apply bd_none; reflexivity. Qed.

  Lemma eff_gpus : rv tl (s "gpus") = effective b st RGpus.
  Proof.
    unfold rv, effective. rewrite tl_eq by reflexivity. simpl batch_level. cbv iota.
    unfold bd. rewrite (bd_none b vh vb vq (s "gpus")) by reflexivity.
    rewrite (declared_render (st_res st) RGpus) in * by discriminate.
    change (key_name RGpus) with (s "gpus") in *.
    destruct (decl (st_res st) (s "gpus")); simpl in *; auto.
    destruct (declared (b_kw b) RGpus); auto. contradiction.
  Qed.

  Lemma eff_exclusive : ex_opt b st vh vb vq = effective b st RExclusive.
  Proof.
    unfold ex_opt, effective. fold bd. fold resources. fold tl. rewrite tl_eq by reflexivity.
    simpl batch_level. cbv iota. unfold bd. rewrite (bd_none b vh vb vq (s "exclusive")) by reflexivity.
    rewrite declared_decl. change (key_name RExclusive) with (s "exclusive").
    destruct (decl (st_res st) (s "exclusive")); auto.
  Qed.

  Lemma eff_tasks : nt_opt b st vh vb vq = effective_slurm b st RTasks.
  Proof.
    unfold nt_opt, effective_slurm. fold bd. fold resources. fold tl.
    rewrite eff_procs. rewrite <- eff_nodes. unfold rv at 1.
    rewrite (declared_render (b_kw b) RTasks) by discriminate. change (key_name RTasks) with (s "procs").
    destruct (decl (b_kw b) (s "procs")); simpl; auto.
    match goal with |- context [tl ?k] => destruct (tl k) end; simpl; auto.
  Qed.

  Lemma the_opt_effective : forall k, In k slurm_header_keys -> the_opt b st vh vb vq k = effective_slurm b st k.
  Proof.
    intros k I. simpl in I.
    repeat (destruct I as [I|I]; [subst k; simpl the_opt; fold bd; fold resources; fold tl|]).
    - apply eff_nodes.
    - apply eff_tasks.
    - apply eff_walltime.
    - apply eff_queue.
    - apply eff_bank.
    - apply eff_reservation.
    - apply eff_gpus.
    - apply eff_exclusive.
    - apply eff_qos.
    - destruct I.
  Qed.
End Effective.

(** * every printed header value is safe to print *)
Section Safe.
  Variables (b : batch) (st : step) (vh vb vq : val).
  Hypothesis Hh : lookup (s "host") (b_kw b) = Some vh.
  Hypothesis Hb : lookup (s "bank") (b_kw b) = Some vb.
  Hypothesis Hq : lookup (s "queue") (b_kw b) = Some vq.
  Hypothesis Sb : truthy vb = true /\ safe_tok (render vb) = true.
  Hypothesis Sq : truthy vq = true /\ safe_tok (render vq) = true.
  Hypothesis ND : nodup_keys (st_res st) = true.
  Hypothesis CN : count_ok (st_res st) RNodes = true.
  Hypothesis CP : count_ok (st_res st) RTasks = true.
  Hypothesis VS : forallb (val_safe (st_res st)) res_keys_str = true.
  Hypothesis BN : count_ok (b_kw b) RNodes = true.
  Hypothesis BP : count_ok (b_kw b) RTasks = true.
  Hypothesis BV : forallb (val_safe (b_kw b)) [RReservation; RQos; RGpus] = true.
  Hypothesis NM : safe_name Slurm (st_name st) = true.
  Hypothesis DS : safe_quoted (oneline (st_desc st)) = true.
  Let bd := slurm_bd b vh vb vq.
  Let resources := slurm_resources bd st.
  Let tl := tl_ resources.

  Lemma st_safe : forall K v, In K res_keys_str -> decl (st_res st) (key_name K) = Some v -> safe_word (render v).
  Proof. intros K v I D. rewrite forallb_forall in VS. apply (decl_safe_word (st_res st) K); auto. Qed.
  Lemma bt_safe : forall K v, In K [RReservation; RQos; RGpus] -> decl (b_kw b) (key_name K) = Some v -> safe_word (render v).
  Proof. intros K v I D. rewrite forallb_forall in BV. apply (decl_safe_word (b_kw b) K); auto. Qed.

  Lemma decl_req : forall name v0 v, lookup name (b_kw b) = Some v0 -> safe_tok (render v0) = true ->
    decl (b_kw b) name = Some v -> safe_word (render v).
  Proof.
    intros name v0 v L S D. unfold decl in D. rewrite L in D. destruct (truthy v0); inversion D; subst.
    apply safe_tok_word. auto.
  Qed.

  Lemma header_safe : hdr_safe tl.
  Proof.
    constructor.
    - intros k v I T. simpl in I.
      repeat (destruct I as [I|I]; [subst k; unfold tl, resources, bd in T; rewrite tl_res in T by (auto; reflexivity)|]).
      + (* nodes *)
        rewrite bd_nodes in T. match type of T with context [decl (st_res st) ?k] => destruct (decl (st_res st) k) as [v'|] eqn:D end.
        * inversion T; subst. apply digits_word. apply (decl_count_word (st_res st) RNodes); auto.
        * apply digits_word. apply (decl_count_word (b_kw b) RNodes); auto.
      + (* queue *)
        rewrite bd_queue in T by auto. match type of T with context [decl (st_res st) ?k] => destruct (decl (st_res st) k) as [v'|] eqn:D end.
        * inversion T; subst. apply (st_safe RQueue); auto. simpl. tauto.
        * apply (decl_req (s "queue") vq); tauto.
      + (* bank *)
        rewrite bd_bank in T by auto. match type of T with context [decl (st_res st) ?k] => destruct (decl (st_res st) k) as [v'|] eqn:D end.
        * inversion T; subst. apply (st_safe RBank); auto. simpl. tauto.
        * apply (decl_req (s "bank") vb); tauto.
      + (* walltime *)
        rewrite bd_none in T by reflexivity. match type of T with context [decl (st_res st) ?k] => destruct (decl (st_res st) k) as [v'|] eqn:D end.
        * inversion T; subst. apply (st_safe RWalltime); auto. simpl. tauto.
        * discriminate T.
      + (* reservation *)
        rewrite bd_reservation in T. match type of T with context [decl (st_res st) ?k] => destruct (decl (st_res st) k) as [v'|] eqn:D end.
        * inversion T; subst. apply (st_safe RReservation); auto. simpl. tauto.
        * apply (bt_safe RReservation); auto. simpl. tauto.
      + (* gpus *)
        rewrite bd_none in T by reflexivity. match type of T with context [decl (st_res st) ?k] => destruct (decl (st_res st) k) as [v'|] eqn:D end.
        * inversion T; subst. apply (st_safe RGpus); auto. simpl. tauto.
        * discriminate T.
      + (* procs *)
        rewrite bd_procs in T. match type of T with context [decl (st_res st) ?k] => destruct (decl (st_res st) k) as [v'|] eqn:D end.
        * inversion T; subst. apply digits_word. apply (decl_count_word (st_res st) RTasks); auto.
        * apply digits_word. apply (decl_count_word (b_kw b) RTasks); auto.
      + (* qos *)
        rewrite bd_qos in T. match type of T with context [decl (st_res st) ?k] => destruct (decl (st_res st) k) as [v'|] eqn:D end.
        * inversion T; subst. apply (st_safe RQos); auto. simpl. tauto.
        * apply (bt_safe RQos); auto. simpl. tauto.
      + destruct I.
    - intros k v I T. simpl in I. destruct I as [I|[I|[]]]; subst k.
      + (* job-name *)
        unfold tl, tl_, decl, resources, slurm_resources in T. cbn [lookup] in T.
        repeat match type of T with context [str_eqb ?x ?y] =>
          let r := eval vm_compute in (str_eqb x y) in change (str_eqb x y) with r in T end. cbv iota in T.
        destruct (truthy (VStr (slurm_job_name (st_name st)))); inversion T; subst. simpl render.
        unfold safe_name, job_name in NM. destruct (st_name st) eqn:N0; try discriminate. rewrite <- N0 in *.
        rewrite forallb_forall in NM. split.
        * unfold noquote. apply forallb_forall. intros c I. apply NM in I. apply andb_true_iff in I. destruct I as [I _].
          apply safe_char_plain in I. destruct I as [I _]. unfold plain_char in I. apply andb_true_iff in I. tauto.
        * intro I. apply NM in I. apply andb_true_iff in I. destruct I as [I _].
          apply safe_char_plain in I. destruct I as [_ [I _]]. congruence.
      + (* comment *)
        unfold tl, tl_, decl, resources, slurm_resources in T. cbn [lookup] in T.
        repeat match type of T with context [str_eqb ?x ?y] =>
          let r := eval vm_compute in (str_eqb x y) in change (str_eqb x y) with r in T end. cbv iota in T.
        destruct (truthy (VStr (oneline (st_desc st)))); inversion T; subst. simpl render.
        unfold safe_quoted in DS. rewrite forallb_forall in DS. split.
        * unfold noquote. apply forallb_forall. intros c I. apply DS in I.
          repeat (apply andb_true_iff in I; destruct I as [I ?]). auto.
        * intro I. apply DS in I. repeat (apply andb_true_iff in I; destruct I as [I ?]).
          vm_compute in I. discriminate I.
  Qed.
End Safe.

(** * [substitute] only depends on the launcher function's values *)
Lemma subst_loop_ext : forall (p1 p2 : val -> val -> res str), (forall a b, p1 a b = p2 a b) ->
  forall toks mn mp tn tp cmd, subst_loop p1 mn mp toks tn tp cmd = subst_loop p2 mn mp toks tn tp cmd.
Proof.
  intros p1 p2 E. induction toks as [|a r]; intros. reflexivity.
  cbn [subst_loop].
  destruct (parse_alloc a) as [[n p]|]; cbn [bind]; auto.
  destruct (check_one mn (fst (n, p))) as [[zn bn]|]; cbn [bind]; auto.
  destruct (check_one mp (snd (n, p))) as [[zp bp]|]; cbn [bind]; auto.
  destruct (snd (zn, bn) || snd (zp, bp)); auto. rewrite E.
  destruct (p2 (snd (n, p)) (fst (n, p))); cbn [bind]; auto.
Qed.

Lemma substitute_ext : forall (p1 p2 : val -> val -> res str), (forall a b, p1 a b = p2 a b) ->
  forall nodes procs cmd, substitute p1 nodes procs cmd = substitute p2 nodes procs cmd.
Proof.
  intros p1 p2 E nodes procs cmd. unfold substitute, replace_bare.
  destruct (scan_tokens 0 cmd) as [|a r].
  - rewrite E. auto.
  - destruct (max_of nodes) as [mn|]; cbn [bind]; auto.
    destruct (max_of procs) as [mp|]; cbn [bind]; auto.
    rewrite (subst_loop_ext p1 p2 E).
    destruct (subst_loop p2 mn mp (a :: r) 0%Z 0%Z cmd) as [[[tn tp] c']|]; cbn [bind]; auto.
    rewrite E. auto.
Qed.

(** * the allocation rule *)
Lemma existsb_ext_in : forall {A} (f g : A -> bool) l, (forall x, In x l -> f x = g x) -> existsb f l = existsb g l.
Proof.
  induction l; simpl; intros. auto. rewrite H by auto. rewrite IHl; auto.
Qed.

Lemma tok_p_dec : forall f, tok_wf f = true -> tok_p f = dec_val (tok_procs f).
Proof. intros f W. destruct (tok_wf_parts f W) as [P _]. unfold tok_p. rewrite dec_val_digits; auto. Qed.
Lemma tok_n_dec : forall f, tok_wf f = true ->
  tok_n f = match tok_nodes f with Some n => dec_val n | None => 0 end.
Proof.
  intros f W. destruct (tok_wf_parts f W) as [_ Nn]. unfold tok_n.
  destruct (tok_nodes f); auto. rewrite dec_val_digits; auto.
Qed.

Lemma rejects_alloc : forall st ps, pieces_wf ps = true ->
  rejects (total_of st RNodes) (total_of st RTasks) ps = alloc_rejected st ps.
Proof.
  intros st ps W. pose proof (toks_of_wf ps W) as TW. rewrite forallb_forall in TW.
  unfold rejects, alloc_rejected. f_equal; [f_equal|].
  - apply existsb_ext_in. intros f I. unfold tok_exceeds, tok_p.
    destruct (tok_wf_parts f (TW f I)) as [P Nn].
    rewrite <- (dec_val_digits (tok_procs f)) by auto.
    destruct (tok_nodes f) as [n0|]; auto. rewrite <- (dec_val_digits n0) by auto. auto.
  - f_equal. f_equal. apply map_ext_in. intros f I. apply tok_p_dec; auto.
  - f_equal. f_equal. apply map_ext_in. intros f I. apply tok_n_dec; auto.
Qed.

(** * small facts for the assembly *)
Lemma segs_ok_snoc : forall l t, segs_ok l = true -> sub_ok t = true -> segs_ok (l ++ [SSub t]) = true.
Proof.
  induction l as [|x r]; intros t H S.
  - simpl. rewrite S. auto.
  - pose proof (segs_ok_tail _ _ H) as Hr. specialize (IHr t Hr S).
    assert (ST : starts_text (r ++ [SSub t]) = starts_text r) by (destruct r as [|y r]; auto).
    destruct x; simpl in *.
    + rewrite ST, IHr. repeat (apply andb_true_iff in H; destruct H as [H ?]). rewrite H, H1, H2. auto.
    + apply andb_true_iff in H. destruct H as [H1 H2].
      change (segs_ok (SVar :: r ++ [SSub t])) with
        (match r ++ [SSub t] with SText (c :: _) :: _ => negb (c =? lbr) | _ => true end && segs_ok (r ++ [SSub t])).
      rewrite IHr. rewrite andb_true_r. destruct r as [|y r]; auto.
    + apply andb_true_iff in H. destruct H as [H1 H2]. rewrite H1, IHr. auto.
    + apply andb_true_iff in H. destruct H as [H1 H2]. rewrite H1, IHr. auto.
Qed.

Lemma final_no_var : forall tsub bsub ps,
  existsb (fun x => is_var x || is_tok x) (map (final_seg tsub bsub) ps) = false.
Proof. induction ps as [|p r]; simpl; auto. destruct p; simpl; auto. Qed.

Lemma srun_text_head : forall p n c, exists t, srun_text p n c = 115 :: t.
Proof.
  intros. unfold srun_text.
  destruct (optw (s "-n") p ++ optw (s "-N") n ++ optw (s "-c") c) eqn:E.
  - eexists. reflexivity.
  - rewrite join_cons by discriminate. eexists. reflexivity.
Qed.

Lemma pieces_text_nil : forall ps, pieces_wf ps = true -> pieces_text ps = [] -> ps = [].
Proof.
  intros ps W E. destruct ps as [|p r]; auto. exfalso.
  unfold pieces_text in E. simpl in E. apply app_eq_nil in E. destruct E as [E _].
  destruct p; simpl in *.
  - subst t. repeat (apply andb_true_iff in W; destruct W as [W ?]). discriminate.
  - discriminate E.
  - rewrite tok_text_eq in E. apply app_eq_nil in E. destruct E as [E _]. discriminate E.
Qed.

Lemma form_cmd_eq : forall h cmd, format slurm_form_cmd (pos2 h cmd) = Ok (h ++ nl :: nl :: cmd ++ [nl]).
Proof. intros. unfold slurm_form_cmd, pos2. simpl. rewrite ?app_nil_r. reflexivity. Qed.

(** * the Slurm script of a scheduled step *)
Section SlurmScript.
  Variable c : case.
  Hypothesis HP : H15_parts c.
  Hypothesis BP : batch_parts (c_be c) (c_batch c).
  Hypothesis NOGPU : K6_batch_gpus c = false.
  Hypothesis BE : c_be c = Slurm.
  Let st := c_step c.
  Let b := c_batch c.
  Variables vh vb vq : val.
  Hypothesis Hh : lookup (s "host") (b_kw b) = Some vh.
  Hypothesis Hb : lookup (s "bank") (b_kw b) = Some vb.
  Hypothesis Hq : lookup (s "queue") (b_kw b) = Some vq.
  Hypothesis Sb : truthy vb = true /\ safe_tok (render vb) = true.
  Hypothesis Sq : truthy vq = true /\ safe_tok (render vq) = true.

  Definition fin (ps : list piece) : str := segs_text (map (final_seg (tsub_slurm st) (bsub_slurm st)) ps).
  Let lines := slurm_lines b st vh vb vq.

  Lemma nogpu_prop : match declared (st_res st) RGpus, declared (b_kw b) RGpus with
                     | None, Some _ => False | _, _ => True end.
  Proof.
    unfold K6_batch_gpus in NOGPU. rewrite BE in NOGPU. simpl in NOGPU. fold st b in NOGPU.
    destruct (declared (st_res st) RGpus); auto. destruct (declared (b_kw b) RGpus); auto. discriminate.
  Qed.

  Lemma fin_start : forall ps, pieces_wf ps = true -> starts_cmd ps = true ->
    exists c0 t, fin ps ++ [nl] = c0 :: t /\ cmd_start c0 = true.
  Proof.
    intros ps W S. destruct ps as [|p r]. discriminate S. unfold fin. rewrite map_cons, segs_text_cons.
    destruct p as [t0| |f]; simpl seg_text.
    - destruct t0 as [|c0 t0]. discriminate S. exists c0. eexists. split. rewrite <- !app_assoc. reflexivity. exact S.
    - destruct HP. unfold bsub_slurm. rewrite parf_srun.
      destruct (srun_text_head (tval (run_val st (s "procs"))) (tval (run_val st (s "nodes"))) (tval (run_val st cpt_key))) as [t E].
      rewrite E. exists 115. eexists. split. rewrite <- !app_assoc. reflexivity. reflexivity.
    - unfold tsub_slurm. rewrite parf_srun.
      destruct (srun_text_head (tval (snd (tok_vals f))) (tval (fst (tok_vals f))) (tval (run_val st cpt_key))) as [t E].
      rewrite E. exists 115. eexists. split. rewrite <- !app_assoc. reflexivity. reflexivity.
  Qed.

  Lemma lines_nonnil : lines <> [].
  Proof. unfold lines, slurm_lines. discriminate. Qed.

  Lemma lines_read : RL lines = raw_pairs b st vh vb vq /\ CL lines = true.
  Proof.
    destruct HP, BP. apply slurm_lines_read.
    - apply header_safe; auto. rewrite <- BE. auto.
    - apply (shell_safe (c_be c)). constructor; auto.
  Qed.

  Lemma slurm_script_good : forall ps, pieces_wf ps = true -> starts_cmd ps = true ->
    slurm_script_ok c ps (join [nl] lines ++ nl :: nl :: fin ps ++ [nl]) = true.
  Proof.
    intros ps W S. destruct (fin_start ps W S) as [c0 [t [E CS]]]. rewrite E.
    destruct lines_read as [RLl CLl]. unfold CL in CLl.
    pose proof lines_nonnil as NE.
    assert (SB : script_body (join [nl] lines ++ nl :: nl :: c0 :: t) = c0 :: t)
      by (apply script_body_eq; auto).
    assert (RD : read_sbatch_all (join [nl] lines ++ nl :: nl :: c0 :: t) = fixed_pairs b st vh vb vq).
    { unfold read_sbatch_all.
      change (s "#SBATCH") with M.
      rewrite (script_directives M sbatch_table lines c0 t NE CLl CS).
      fold (RL lines). rewrite RLl. apply fixg_raw. }
    unfold slurm_script_ok. rewrite SB. fold st b.
    apply andb_true_iff; split; [apply andb_true_iff; split; [apply andb_true_iff; split; [apply andb_true_iff; split|]|]|].
    - apply str_eqb_eq.
      rewrite (first_line_eq _ c0 t NE CLl (slurm_shebang_line b) _ eq_refl). reflexivity.
      unfold slurm_shebang_line. apply notin_app. simpl. intros [X|[X|[]]]; discriminate X.
      apply (shell_safe (c_be c)); auto.
    - apply forallb_forall. intros k I. unfold read_sbatch. rewrite RD.
      pose proof nogpu_prop as NG. destruct HP. rewrite rget_fixed by auto.
      rewrite (the_opt_effective b st vh vb vq); auto. apply opt_eqb_refl.
    - apply forallb_forall. intros k I. rewrite RD. apply Nat.leb_le. apply count_fixed. auto.
    - apply negb_true_iff. rewrite <- E. unfold fin.
      change [nl] with (seg_text (SSub [nl])).
      replace (segs_text (map (final_seg (tsub_slurm st) (bsub_slurm st)) ps) ++ seg_text (SSub [nl]))
        with (segs_text (map (final_seg (tsub_slurm st) (bsub_slurm st)) ps ++ [SSub [nl]])).
      2:{ rewrite segs_text_app. reflexivity. }
      destruct HP.
      rewrite contains_var_segs.
      + rewrite existsb_app. rewrite final_no_var. reflexivity.
      + apply segs_ok_snoc; [|reflexivity].
        apply (final_seg_ok (par_slurm (addl_args st)) (tsub_slurm st)); auto.
        * intros f TW. apply par_slurm_eq.
        * intros f TW. apply tok_sub_ok; auto.
        * apply bare_sub_ok; auto.
    - rewrite <- E. unfold fin. destruct HP. apply match_body_final.
      + reflexivity.
      + intros p I. apply (launch_ok_final st) with (ps := ps); auto.
  Qed.
End SlurmScript.

(** * a local script *)
Lemma verbatim_good : forall c ps, batch_parts (c_be c) (c_batch c) -> pieces_wf ps = true -> starts_cmd ps = true ->
  verbatim_ok c (pieces_text ps) (shebang_of (c_batch c) ++ nl :: nl :: pieces_text ps ++ [nl]) = true.
Proof.
  intros c ps BP W S.
  assert (ST : exists c0 t, pieces_text ps ++ [nl] = c0 :: t /\ cmd_start c0 = true).
  { destruct ps as [|p r]. discriminate S. unfold pieces_text. simpl flat_map. destruct p as [t0| |f]; simpl piece_text.
    - destruct t0 as [|c0 t0]. discriminate S. exists c0. eexists. split. rewrite <- !app_assoc. reflexivity. exact S.
    - rewrite var_eq. exists dollar. eexists. split. rewrite <- !app_assoc. reflexivity. reflexivity.
    - rewrite tok_text_eq, var_eq. exists dollar. eexists. split. rewrite <- !app_assoc. reflexivity. reflexivity. }
  destruct ST as [c0 [t [E CS]]].
  assert (NI : ~ In nl (shebang_of (c_batch c))).
  { unfold shebang_of. apply notin_app. simpl. intros [X|[X|[]]]; discriminate X. apply (shell_safe (c_be c)); auto. }
  assert (CLs : forallb comment_line (flat_map (split_on nl) [shebang_of (c_batch c)]) = true).
  { cbn [flat_map]. rewrite split_on_notin by auto. reflexivity. }
  change (shebang_of (c_batch c) ++ nl :: nl :: pieces_text ps ++ [nl])
    with (join [nl] [shebang_of (c_batch c)] ++ nl :: nl :: pieces_text ps ++ [nl]).
  rewrite E. unfold verbatim_ok. apply andb_true_iff. split; apply str_eqb_eq.
  - apply (first_line_eq [shebang_of (c_batch c)] c0 t) with (r := []); auto. discriminate.
  - rewrite script_body_eq; auto. discriminate.
Qed.

Lemma alloc_rejected_nil : forall st, alloc_rejected st [] = false.
Proof. intros. unfold alloc_rejected. simpl. unfold sum_N. simpl. rewrite !exceeds_0. reflexivity. Qed.

(** * [get_scheduler_command] *)
Section SchedCmd.
  Variable c : case.
  Hypothesis HP : H15_parts c.
  Let st := c_step c.
  Let nodes := run_val st (s "nodes").
  Let procs := run_val st (s "procs").

  Lemma run_get_nodes : run_get st (s "nodes") = Some nodes.
  Proof. apply run_get_val. split; reflexivity. reflexivity. Qed.
  Lemma run_get_procs : run_get st (s "procs") = Some procs.
  Proof. apply run_get_val. split; reflexivity. reflexivity. Qed.

  Lemma schedulable_truthy : truthy nodes || truthy procs = schedulable st.
  Proof.
    destruct HP. unfold schedulable.
    destruct (total_run_val st RNodes ltac:(discriminate) hp_nodes0) as [_ [T1 _]].
    destruct (total_run_val st RTasks ltac:(discriminate) hp_procs0) as [_ [T2 _]].
    unfold nodes, procs. change (s "nodes") with (key_name RNodes). change (s "procs") with (key_name RTasks).
    rewrite T1, T2. auto.
  Qed.

  Lemma substitute_slurm : forall ps, pieces_wf ps = true ->
    substitute (par_slurm (addl_args st)) nodes procs (pieces_text ps) =
    if alloc_rejected st ps then Err Diag else Ok (segs_text (map (final_seg (tsub_slurm st) (bsub_slurm st)) ps)).
  Proof.
    intros ps W. destruct HP.
    destruct (total_run_val st RNodes ltac:(discriminate) hp_nodes0) as [M1 _].
    destruct (total_run_val st RTasks ltac:(discriminate) hp_procs0) as [M2 _].
    rewrite (substitute_spec (par_slurm (addl_args st)) (tsub_slurm st) (total_of st RNodes) (total_of st RTasks))
      with (bsub := bsub_slurm st); auto.
    - rewrite rejects_alloc by auto. reflexivity.
    - intros f TW. apply par_slurm_eq.
    - intros f TW. apply tok_sub_ok; auto.
    - intros _. apply par_slurm_eq.
  Qed.

  Lemma sched_cmd_spec :
    scheduler_command (par_slurm (addl_args st)) st =
    if schedulable st then
      if alloc_rejected st (c_cmd c) then Err Diag
      else if alloc_rejected st (c_restart c) then Err Diag
      else Ok (true, segs_text (map (final_seg (tsub_slurm st) (bsub_slurm st)) (c_cmd c)),
               segs_text (map (final_seg (tsub_slurm st) (bsub_slurm st)) (c_restart c)))
    else Ok (false, st_cmd st, st_restart st).
  Proof.
    unfold scheduler_command. rewrite run_get_nodes, run_get_procs. rewrite schedulable_truthy.
    destruct (schedulable st); auto. pose proof HP as HP'. destruct HP'.
    fold st in hp_cmd0, hp_restart0. rewrite <- hp_cmd0. rewrite substitute_slurm by auto.
    destruct (alloc_rejected st (c_cmd c)); auto. cbn [bind].
    destruct (st_restart st) as [|r0 rr] eqn:R.
    - apply pieces_text_nil in hp_restart0; auto. rewrite hp_restart0. rewrite alloc_rejected_nil. reflexivity.
    - rewrite <- hp_restart0. rewrite substitute_slurm by auto.
      destruct (alloc_rejected st (c_restart c)); auto.
  Qed.
End SchedCmd.

(** * the theorems *)
Lemma name_ok : forall tpl n, tpl = slurm_script_name \/ tpl = slurm_restart_name ->
  exists nm, format tpl (pos1 n) = Ok nm.
Proof. intros tpl n [E|E]; subst; simpl; eexists; reflexivity. Qed.

Lemma local_header_eq : forall b, format slurm_local_header [(s "0", slurm_exec b)] = Ok (shebang_of b).
Proof. intros. unfold slurm_local_header, shebang_of, slurm_exec. simpl. rewrite app_nil_r. reflexivity. Qed.

Lemma total_decl : forall st K, total_of st K <> 0 -> is_some (decl (st_res st) (key_name K)) = true.
Proof.
  intros st K H. unfold total_of in H. unfold decl. destruct (lookup (key_name K) (st_res st)); try congruence.
  destruct (truthy v); try congruence. reflexivity.
Qed.

Lemma batch_req : forall be b, batch_parts be b -> be <> Local ->
  exists vh vb vq, lookup (s "host") (b_kw b) = Some vh /\ lookup (s "bank") (b_kw b) = Some vb
    /\ lookup (s "queue") (b_kw b) = Some vq
    /\ (truthy vb = true /\ safe_tok (render vb) = true) /\ (truthy vq = true /\ safe_tok (render vq) = true).
Proof.
  intros be b BP NL. destruct BP.
  destruct (bp_req0 NL (s "host")) as [vh [Lh _]]. simpl; tauto.
  destruct (bp_req0 NL (s "bank")) as [vb [Lb Sb]]. simpl; tauto.
  destruct (bp_req0 NL (s "queue")) as [vq [Lq Sq]]. simpl; tauto.
  exists vh, vb, vq. auto.
Qed.

Lemma script_ok_sched : forall c sched_ok n text rs,
  schedulable (c_step c) = true -> c_be c = Slurm -> rejected c = false ->
  sched_ok (c_cmd c) text = true ->
  match st_restart (c_step c), rs with
  | [], None => True
  | _ :: _, Some (_, rt) => sched_ok (c_restart c) rt = true
  | _, _ => False
  end ->
  script_ok c sched_ok {| sc_sched := true; sc_name := n; sc_text := text; sc_restart := rs |} = true.
Proof.
  intros c sched_ok n text rs SC BE RJ G1 G2. unfold script_ok. cbv zeta. rewrite SC, BE.
  cbn [negb orb backend_eqb Bool.eqb sc_sched sc_text sc_restart]. rewrite RJ, G1. cbn [negb andb].
  destruct (st_restart (c_step c)); destruct rs as [[rn rt]|]; try contradiction; auto.
Qed.

Lemma script_ok_local : forall c sched_ok n text rs,
  schedulable (c_step c) = false ->
  verbatim_ok c (st_cmd (c_step c)) text = true ->
  match st_restart (c_step c), rs with
  | [], None => True
  | _ :: _, Some (_, rt) => verbatim_ok c (st_restart (c_step c)) rt = true
  | _, _ => False
  end ->
  script_ok c sched_ok {| sc_sched := false; sc_name := n; sc_text := text; sc_restart := rs |} = true.
Proof.
  intros c sched_ok n text rs SC G1 G2. unfold script_ok. cbv zeta. rewrite SC.
  cbn [negb orb Bool.eqb sc_sched sc_text sc_restart]. rewrite G1. cbn [negb andb].
  destruct (st_restart (c_step c)); destruct rs as [[rn rt]|]; try contradiction; auto.
Qed.

Theorem slurm_holds_gen : forall c, H15 c = true -> c_be c = Slurm ->
  (schedulable (c_step c) = true -> K6_batch_gpus c = false) ->
  C15_holds c (run_model c) = true.
Proof.
  intros c H BE K6'.
  pose proof (H15_unpack c H) as HP. pose proof (batch_unpack _ _ (hp_batch c HP)) as BP.
  destruct (batch_req _ _ BP) as [vh [vb [vq [Hh [Hb [Hq [Sb Sq]]]]]]]. rewrite BE; discriminate.
  set (st := c_step c) in *. set (b := c_batch c) in *.
  unfold run_model. rewrite BE. fold st b. unfold write_slurm.
  rewrite (batch_slurm_eq b vh vb vq) by auto. cbn [bind].
  unfold st at 1 2. rewrite (sched_cmd_spec c HP). fold st.
  destruct (schedulable st) eqn:SC.
  - (* a scheduled step *)
    pose proof (K6' eq_refl) as K6.
    destruct (alloc_rejected st (c_cmd c)) eqn:R1.
    { unfold C15_holds. rewrite BE. fold st. rewrite SC. unfold rejected. fold st. rewrite R1. reflexivity. }
    destruct (alloc_rejected st (c_restart c)) eqn:R2.
    { unfold C15_holds. rewrite BE. fold st. rewrite SC. unfold rejected. fold st. rewrite R2. rewrite orb_true_r. reflexivity. }
    assert (RJ : rejected c = false) by (unfold rejected; fold st; rewrite R1, R2; reflexivity).
    cbn [bind]. cbv beta iota.
    destruct (name_ok slurm_script_name (st_name st) (or_introl eq_refl)) as [nm1 N1]. rewrite N1. cbn [bind].
    (* the header *)
    assert (PN : is_some (tl_ (slurm_resources (slurm_bd b vh vb vq) st) (s "procs"))
                 || is_some (tl_ (slurm_resources (slurm_bd b vh vb vq) st) (s "nodes")) = true).
    { destruct HP. rewrite !tl_res by (auto; reflexivity).
      unfold schedulable in SC. apply orb_true_iff in SC. apply orb_true_iff. destruct SC as [S|S].
      - right. apply negb_true_iff in S. apply N.eqb_neq in S. apply total_decl in S.
        change (key_name RNodes) with (s "nodes") in S. fold st in S.
        destruct (decl (st_res st) (s "nodes")); auto. discriminate S.
      - left. apply negb_true_iff in S. apply N.eqb_neq in S. apply total_decl in S.
        change (key_name RTasks) with (s "procs") in S. fold st in S.
        destruct (decl (st_res st) (s "procs")); auto. discriminate S. }
    unfold header_slurm. rewrite (header_lines_slurm_eq b st vh vb vq) by (destruct HP; auto). cbn [bind].
    rewrite form_cmd_eq. cbn [bind].
    set (lines := slurm_lines b st vh vb vq).
    set (cmd' := segs_text (map (final_seg (tsub_slurm st) (bsub_slurm st)) (c_cmd c))).
    set (rst' := segs_text (map (final_seg (tsub_slurm st) (bsub_slurm st)) (c_restart c))).
    assert (G1 : slurm_script_ok c (c_cmd c) (join [nl] lines ++ nl :: nl :: cmd' ++ [nl]) = true).
    { apply (slurm_script_good c HP BP K6 BE vh vb vq); auto; destruct HP; auto. }
    unfold restart_part.
    assert (CRd : c_restart c = [] \/ c_restart c <> []) by (destruct (c_restart c); [left|right]; congruence).
    destruct CRd as [CR|CR].
    + (* no restart command *)
      assert (RS : st_restart st = []). { destruct HP. fold st in hp_restart0. rewrite <- hp_restart0, CR. reflexivity. }
      assert (Z : rst' = []) by (unfold rst'; rewrite CR; reflexivity). rewrite Z. cbn [bind].
      unfold C15_holds. rewrite BE. apply script_ok_sched; auto. fold st. rewrite RS. exact I.
    + (* a restart command *)
      assert (SR : starts_cmd (c_restart c) = true).
      { destruct HP. destruct (c_restart c); auto; congruence. }
      assert (G2 : slurm_script_ok c (c_restart c) (join [nl] lines ++ nl :: nl :: rst' ++ [nl]) = true).
      { apply (slurm_script_good c HP BP K6 BE vh vb vq); auto; destruct HP; auto. }
      assert (NE : rst' <> []).
      { destruct (fin_start c HP (c_restart c)) as [c0 [t [E CS]]]; auto.
        { destruct HP; auto. }
        intro Z. unfold fin in E. fold st in E. fold rst' in E. rewrite Z in E. simpl in E.
          inversion E. subst c0. discriminate CS. }
      assert (RS : exists r0 r1, st_restart st = r0 :: r1).
      { destruct HP. fold st in hp_restart0. destruct (st_restart st) eqn:SRs; eauto.
        apply pieces_text_nil in hp_restart0; auto. congruence. }
      destruct RS as [r0 [r1 RS]].
      destruct rst' as [|x y] eqn:RR. congruence. rewrite <- RR in *.
      destruct (name_ok slurm_restart_name (st_name st) (or_intror eq_refl)) as [nm2 N2]. rewrite N2. cbn [bind].
      rewrite form_cmd_eq. cbn [bind].
      unfold C15_holds. rewrite BE. apply script_ok_sched; auto. fold st. rewrite RS. exact G2.
  - (* a local step *)
    cbn [bind]. cbv beta iota.
    destruct (name_ok slurm_script_name (st_name st) (or_introl eq_refl)) as [nm1 N1]. rewrite N1. cbn [bind].
    rewrite local_header_eq. cbn [bind]. rewrite form_cmd_eq. cbn [bind].
    assert (G1 : verbatim_ok c (st_cmd st) (shebang_of b ++ nl :: nl :: st_cmd st ++ [nl]) = true).
    { destruct HP. fold st in hp_cmd0. rewrite <- hp_cmd0. apply verbatim_good; auto. }
    unfold restart_part.
    destruct (st_restart st) as [|r0 r1] eqn:RS.
    + cbn [bind]. unfold C15_holds. rewrite BE. apply script_ok_local; auto. fold st. rewrite RS. exact I.
    + rewrite <- RS.
      destruct (name_ok slurm_restart_name (st_name st) (or_intror eq_refl)) as [nm2 N2]. rewrite N2. cbn [bind].
      rewrite form_cmd_eq. cbn [bind].
      assert (G2 : verbatim_ok c (st_restart st) (shebang_of b ++ nl :: nl :: st_restart st ++ [nl]) = true).
      { destruct HP. fold st in hp_restart0. rewrite <- hp_restart0. apply verbatim_good; auto.
        destruct (c_restart c) eqn:CR; auto. unfold pieces_text in hp_restart0. simpl in hp_restart0.
        rewrite RS in hp_restart0. discriminate. }
      unfold C15_holds. rewrite BE. apply script_ok_local; auto. fold st. rewrite RS. rewrite <- RS. exact G2.
Qed.

(** * the local adapter *)
Lemma local_script_eq : forall ex cmd, format local_script (pos2 ex cmd) = Ok (s "#!" ++ ex ++ nl :: nl :: cmd ++ [nl]).
Proof. intros. unfold local_script, pos2. simpl. rewrite ?app_nil_r. reflexivity. Qed.

Lemma script_ok_be_local : forall c sched_ok n text rs,
  c_be c = Local ->
  verbatim_ok c (st_cmd (c_step c)) text = true ->
  match st_restart (c_step c), rs with
  | [], None => True
  | _ :: _, Some (_, rt) => verbatim_ok c (st_restart (c_step c)) rt = true
  | _, _ => False
  end ->
  script_ok c sched_ok {| sc_sched := false; sc_name := n; sc_text := text; sc_restart := rs |} = true.
Proof.
  intros c sched_ok n text rs BE G1 G2. unfold script_ok. cbv zeta. rewrite BE.
  cbn [backend_eqb]. rewrite orb_true_r.
  cbn [negb orb Bool.eqb sc_sched sc_text sc_restart]. rewrite G1. cbn [negb andb].
  destruct (st_restart (c_step c)); destruct rs as [[rn rt]|]; try contradiction; auto.
Qed.

Theorem local_holds : forall c, H15 c = true -> c_be c = Local -> C15_holds c (run_model c) = true.
Proof.
  intros c H BE.
  pose proof (H15_unpack c H) as HP. pose proof (batch_unpack _ _ (hp_batch c HP)) as BP.
  set (st := c_step c) in *. set (b := c_batch c) in *.
  unfold run_model. rewrite BE. fold st b. unfold write_local.
  assert (N1 : exists nm, format local_script_name (pos1 (st_name st)) = Ok nm) by (simpl; eexists; reflexivity).
  destruct N1 as [nm1 N1]. rewrite N1. cbn [bind].
  rewrite local_script_eq. cbn [bind].
  assert (G1 : verbatim_ok c (st_cmd st) (s "#!" ++ render (shell_of (b_kw b)) ++ nl :: nl :: st_cmd st ++ [nl]) = true).
  { destruct HP. fold st in hp_cmd0. rewrite <- hp_cmd0.
    change (s "#!" ++ render (shell_of (b_kw b)) ++ nl :: nl :: pieces_text (c_cmd c) ++ [nl])
      with (shebang_of b ++ nl :: nl :: pieces_text (c_cmd c) ++ [nl]).
    apply verbatim_good; auto. }
  unfold restart_part.
  destruct (st_restart st) as [|r0 r1] eqn:RS.
  - cbn [bind]. unfold C15_holds. rewrite BE. apply script_ok_be_local; auto. fold st. rewrite RS. exact I.
  - rewrite <- RS.
    assert (N2 : exists nm, format local_restart_name (pos1 (st_name st)) = Ok nm) by (simpl; eexists; reflexivity).
    destruct N2 as [nm2 N2]. rewrite N2. cbn [bind]. rewrite local_script_eq. cbn [bind].
    assert (G2 : verbatim_ok c (st_restart st) (s "#!" ++ render (shell_of (b_kw b)) ++ nl :: nl :: st_restart st ++ [nl]) = true).
    { destruct HP. fold st in hp_restart0. rewrite <- hp_restart0.
      change (s "#!" ++ render (shell_of (b_kw b)) ++ nl :: nl :: pieces_text (c_restart c) ++ [nl])
        with (shebang_of b ++ nl :: nl :: pieces_text (c_restart c) ++ [nl]).
      apply verbatim_good; auto.
      destruct (c_restart c) eqn:CR; auto. unfold pieces_text in hp_restart0. simpl in hp_restart0.
      rewrite RS in hp_restart0. discriminate. }
    unfold C15_holds. rewrite BE. apply script_ok_be_local; auto. fold st. rewrite RS. rewrite <- RS. exact G2.
Qed.

Theorem slurm_holds : forall c, H15 c = true -> c_be c = Slurm -> K6_batch_gpus c = false ->
  C15_holds c (run_model c) = true.
Proof. intros. apply slurm_holds_gen; auto. Qed.

(** * the named statements of the property, derived from the two monitor theorems *)
Lemma holds_script_local : forall c, (c_be c = Slurm \/ c_be c = Local) ->
  C15_holds c (run_model c) = true ->
  (schedulable (c_step c) = false \/ c_be c = Local) ->
  exists sc, run_model c = OScript sc /\ sc_sched sc = false
    /\ verbatim_ok c (st_cmd (c_step c)) (sc_text sc) = true
    /\ match st_restart (c_step c), sc_restart sc with
       | [], None => True
       | _ :: _, Some (_, rt) => verbatim_ok c (st_restart (c_step c)) rt = true
       | _, _ => False
       end.
Proof.
  intros c BE Hh L. destruct (run_model c) as [e|sc].
  - exfalso. destruct e; simpl in Hh; try discriminate.
    repeat (apply andb_true_iff in Hh; destruct Hh as [Hh ?]).
    destruct L as [L|L]. congruence. rewrite L in Hh. discriminate Hh.
  - exists sc. split; auto. simpl in Hh.
    assert (SO : script_ok c (slurm_script_ok c) sc = true) by (destruct BE as [E|E]; rewrite E in Hh; auto).
    unfold script_ok in SO. cbv zeta in SO.
    assert (LC : negb (schedulable (c_step c)) || backend_eqb (c_be c) Local = true).
    { destruct L as [L|L]. rewrite L. reflexivity. rewrite L. apply orb_true_r. }
    rewrite LC in SO. cbn [negb] in SO.
    repeat (apply andb_true_iff in SO; destruct SO as [SO ?]).
    repeat split; auto.
    + destruct (sc_sched sc); simpl in *; congruence.
    + destruct (st_restart (c_step c)); destruct (sc_restart sc) as [[rn rt]|]; auto; discriminate.
Qed.

Lemma holds_script_sched : forall c, c_be c = Slurm -> C15_holds c (run_model c) = true ->
  schedulable (c_step c) = true ->
  (rejected c = true /\ run_model c = OExc Diag) \/
  (rejected c = false /\ exists sc, run_model c = OScript sc /\ sc_sched sc = true
     /\ slurm_script_ok c (c_cmd c) (sc_text sc) = true
     /\ match st_restart (c_step c), sc_restart sc with
        | [], None => True
        | _ :: _, Some (_, rt) => slurm_script_ok c (c_restart c) rt = true
        | _, _ => False
        end).
Proof.
  intros c BE Hh SC. destruct (run_model c) as [e|sc].
  - left. destruct e; simpl in Hh; try discriminate.
    repeat (apply andb_true_iff in Hh; destruct Hh as [Hh ?]). auto.
  - right. simpl in Hh. rewrite BE in Hh. unfold script_ok in Hh. cbv zeta in Hh.
    rewrite SC, BE in Hh. cbn [negb orb backend_eqb] in Hh.
    repeat (apply andb_true_iff in Hh; destruct Hh as [Hh ?]).
    apply andb_true_iff in H0. destruct H0 as [RJ SO].
    apply negb_true_iff in RJ. split; auto. exists sc. repeat split; auto.
    destruct (st_restart (c_step c)); destruct (sc_restart sc) as [[rn rt]|]; auto; discriminate.
Qed.

Lemma verbatim_eqs : forall c cmd text, verbatim_ok c cmd text = true ->
  first_line text = shebang_of (c_batch c) /\ script_body text = cmd ++ [nl].
Proof.
  intros c cmd text H. unfold verbatim_ok in H. apply andb_true_iff in H. destruct H as [A B].
  apply str_eqb_eq in A. apply str_eqb_eq in B. auto.
Qed.

Lemma C15_local_lemma : forall c, H15 c = true -> (c_be c = Slurm \/ c_be c = Local) ->
  (schedulable (c_step c) = false \/ c_be c = Local) ->
  exists sc, run_model c = OScript sc /\ sc_sched sc = false
    /\ first_line (sc_text sc) = shebang_of (c_batch c)
    /\ script_body (sc_text sc) = st_cmd (c_step c) ++ [nl]
    /\ match st_restart (c_step c), sc_restart sc with
       | [], None => True
       | _ :: _, Some (_, rt) =>
         first_line rt = shebang_of (c_batch c) /\ script_body rt = st_restart (c_step c) ++ [nl]
       | _, _ => False
       end.
Proof.
  intros c H BE L.
  assert (Hh : C15_holds c (run_model c) = true).
  { destruct BE as [E|E].
    - apply slurm_holds_gen; auto. intros SC. destruct L as [L|L]; congruence.
    - apply local_holds; auto. }
  destruct (holds_script_local c BE Hh L) as [sc [R [S [V VR]]]].
  exists sc. destruct (verbatim_eqs _ _ _ V) as [F B]. repeat split; auto.
  destruct (st_restart (c_step c)); destruct (sc_restart sc) as [[rn rt]|]; auto.
  apply verbatim_eqs in VR. auto.
Qed.

Definition header_reads (c : case) (text : str) : Prop :=
  first_line text = shebang_of (c_batch c) /\
  forall k, In k slurm_header_keys ->
    read_sbatch text k = effective_slurm (c_batch c) (c_step c) k
    /\ (count_key k (read_sbatch_all text) <= 1)%nat.
Definition launcher_reads (c : case) (ps : list piece) (text : str) : Prop :=
  containsb launcher_var (script_body text) = false /\
  match_body (launch_ok_slurm (c_step c)) (ps ++ [PText [nl]]) (script_body text) = true.

Lemma opt_eqb_eq : forall a b, opt_eqb a b = true -> a = b.
Proof.
  destruct a, b; simpl; intros; try discriminate; auto. apply str_eqb_eq in H. congruence.
Qed.

Lemma slurm_script_ok_reads : forall c ps text, slurm_script_ok c ps text = true ->
  header_reads c text /\ launcher_reads c ps text.
Proof.
  intros c ps text H. unfold slurm_script_ok in H.
  repeat (apply andb_true_iff in H; destruct H as [H ?]).
  apply str_eqb_eq in H. apply negb_true_iff in H1.
  rewrite forallb_forall in H3. rewrite forallb_forall in H2.
  split; split; auto. intros k I. split.
  - apply opt_eqb_eq. auto.
  - apply Nat.leb_le. auto.
Qed.

Lemma C15_sched_lemma : forall c, H15 c = true -> c_be c = Slurm -> K6_batch_gpus c = false ->
  schedulable (c_step c) = true ->
  (rejected c = true /\ run_model c = OExc Diag) \/
  (rejected c = false /\ exists sc, run_model c = OScript sc /\ sc_sched sc = true
     /\ header_reads c (sc_text sc) /\ launcher_reads c (c_cmd c) (sc_text sc)
     /\ match st_restart (c_step c), sc_restart sc with
        | [], None => True
        | _ :: _, Some (_, rt) => header_reads c rt /\ launcher_reads c (c_restart c) rt
        | _, _ => False
        end).
Proof.
  intros c H BE K6 SC. pose proof (slurm_holds c H BE K6) as Hh.
  destruct (holds_script_sched c BE Hh SC) as [[R E]|[R [sc [E [S [G GR]]]]]].
  - left. auto.
  - right. split; auto. exists sc. destruct (slurm_script_ok_reads _ _ _ G) as [A B].
    split; [auto|]. split; [auto|]. split; [exact A|]. split; [exact B|].
    destruct (st_restart (c_step c)); destruct (sc_restart sc) as [[rn rt]|]; auto.
    apply slurm_script_ok_reads. auto.
Qed.

Lemma C15_reject_lemma : forall c, H15 c = true -> c_be c = Slurm -> K6_batch_gpus c = false ->
  schedulable (c_step c) = true ->
  (run_model c = OExc Diag <-> rejected c = true) /\ run_model c <> OExc Internal.
Proof.
  intros c H BE K6 SC.
  destruct (C15_sched_lemma c H BE K6 SC) as [[R E]|[R [sc [E _]]]].
  - rewrite E. split. tauto. discriminate.
  - rewrite E. split. split; intro X; congruence. discriminate.
Qed.

Lemma C15_total_lemma : forall c, H15 c = true ->
  (c_be c = Slurm /\ (schedulable (c_step c) = true -> K6_batch_gpus c = false)) \/ c_be c = Local ->
  run_model c <> OExc Internal.
Proof.
  intros c H BE.
  assert (Hh : C15_holds c (run_model c) = true).
  { destruct BE as [[E K]|E]. apply slurm_holds_gen; auto. apply local_holds; auto. }
  intro X. rewrite X in Hh. discriminate Hh.
Qed.

Lemma C15_ok_slurm : forall c, c_be c = Slurm -> K6_batch_gpus c = false -> C15_ok c (run_model c) = true.
Proof.
  intros c BE K6. unfold C15_ok. destruct (H15 c) eqn:H; auto. simpl. apply slurm_holds; auto.
Qed.
Lemma C15_ok_local : forall c, c_be c = Local -> C15_ok c (run_model c) = true.
Proof.
  intros c BE. unfold C15_ok. destruct (H15 c) eqn:H; auto. simpl. apply local_holds; auto.
Qed.

(** Combinators the text GENERATED from the query path of the scheduler
    adapters (Sched/ParseGen.v, by translate/tcode_sched.py) is composed of:
    one combinator per Python statement / expression template of
      slurmscriptadapter.py  _check_jobs_squeue, _check_jobs_sacct, check_jobs, _state
      lsfscriptadapter.py    check_jobs, _state.
    The text primitives are those of Sched/Parse.v (validated against CPython
    by the correspondence run); the representation of the status dictionary is
    Parse.v's association list in insertion order.

    Stdlib only, small total functions, no proofs.  The equality of the
    generated functions with the hand-written model is in ParseGenProofs.v. *)
From Coq Require Import List Arith NArith ZArith Bool.
From MWF Require Import Base.Str Gen.SchedTables Sched.Manuals Sched.Parse.
Import ListNotations.

(* ------------------------------------------------------------------------- *)
(** * control                                                                 *)
(* ------------------------------------------------------------------------- *)

(** what one iteration of a [for] body does: go on with the (possibly updated)
    loop state -- [continue] or the end of the body --, or raise *)
Inductive ctl (S : Type) : Type :=
| Next : S -> ctl S
| Fail : ctl S.
Arguments Next {S} _.
Arguments Fail {S}.

(** [for x in l: body]; the code after the loop is [k]; an exception escaping
    the body escapes the function ([None]) *)
Fixpoint for_each {A S R} (l : list A) (body : A -> S -> ctl S) (st : S) (k : S -> option R)
  : option R :=
  match l with
  | [] => k st
  | a :: r => match body a st with
              | Next st' => for_each r body st' k
              | Fail => None
              end
  end.

(** [l[i]]: IndexError ([fail]) when out of range, otherwise the code goes on ([k]) *)
Definition get_item {A R} (l : list A) (i : nat) (fail : R) (k : A -> R) : R :=
  match nth_error l i with
  | Some x => k x
  | None => fail
  end.

(** [a, b = self.method(..)]: an exception in the callee propagates *)
Definition call {A R} (r : option A) (fail : R) (k : A -> R) : R :=
  match r with
  | Some x => k x
  | None => fail
  end.

(** [while l[0] == "": l = l[1:]] -- IndexError once the list is empty *)
Fixpoint while_head_empty_drop (l : list str) : option (list str) :=
  match l with
  | [] => None
  | f :: r => if str_eqb f [] then while_head_empty_drop r else Some l
  end.

(* ------------------------------------------------------------------------- *)
(** * strings and lists of strings                                            *)
(* ------------------------------------------------------------------------- *)

(** [text.split(c)] for a one-character separator *)
Definition str_split (c : N) (t : str) : list str := split_on c t.
(** [text.partition(c)[0]]: the text before the first [c] (all of it when there is none) *)
Definition str_partition_head (c : N) (t : str) : str := hd [] (split_on c t).
(** [re.split(r"\s+", text)] *)
Definition re_split_ws (t : str) : list str := resplit t.
(** [text.strip()] *)
Definition str_strip (t : str) : str := strip t.
(** [needle in text] *)
Definition str_contains (needle t : str) : bool := contains needle t.
(** [x in ("a", "b", ..)] *)
Definition str_in (x : str) (l : list str) : bool := existsb (str_eqb x) l.
(** [re.search(r"^No\s", text)] used as a truth value *)
Definition re_search_No_ws (t : str) : bool := lsf_nojob t.
(** [bytes.decode("utf-8")]: the model's text is already decoded *)
Definition decode_utf8 (t : str) : str := t.
(** [l[n:]] *)
Definition list_from {A} (n : nat) (l : list A) : list A := skipn n l.
(** [not l] *)
Definition list_is_empty {A} (l : list A) : bool := match l with [] => true | _ => false end.
(** [[f(x) for x in l]] *)
Definition list_map {A B} (f : A -> B) (l : list A) : list B := map f l.
(** [l.append(x)] *)
Definition list_append {A} (x : A) (l : list A) : list A := l ++ [x].
(** [any([p(x) for x in l])], [all([p(x) for x in l])] *)
Definition list_any {A} (p : A -> bool) (l : list A) : bool := existsb p l.
Definition list_all {A} (p : A -> bool) (l : list A) : bool := forallb p l.

(* ------------------------------------------------------------------------- *)
(** * the status dictionary, JobStatusCode                                    *)
(* ------------------------------------------------------------------------- *)

(** (the Python variable is usually called [status]; the type gets another name) *)
Definition dict : Type := status.
(** [{}] *)
Definition dict_empty : dict := [].
(** [k in d] *)
Definition dict_has (k : str) (d : dict) : bool := has_key k d.
(** [d[k] = v]: replaces the value of an existing key, appends a new one *)
Definition dict_set (k : str) (v : option State) (d : dict) : dict :=
  if has_key k d then set_key k v d else d ++ [(k, v)].
(** [any([v is None for _, v in d.items()])] *)
Definition dict_any_none (d : dict) : bool := any_none d.
(** [[k for k, v in d.items() if v is None]] *)
Definition dict_none_keys (d : dict) : list str :=
  map fst (filter (fun e => is_none (snd e)) d).

Definition code_eqb (a b : JobStatusCode) : bool := JS_eqb a b.

(** what the caller of check_jobs sees *)
Definition to_result (r : option (JobStatusCode * dict)) : result :=
  match r with
  | Some (c, d) => Ret c d
  | None => Exc
  end.

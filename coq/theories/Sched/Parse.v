(** C16 -- executable model of the scheduler-output parsers of /repo:
      maestrowf/interfaces/script/slurmscriptadapter.py
          check_jobs, _check_jobs_squeue, _check_jobs_sacct, _state
      maestrowf/interfaces/script/lsfscriptadapter.py   check_jobs, _state
      maestrowf/interfaces/script/_flux/flux0_49_0.py   state
    Tables, column indices, offsets and return-code maps come from the
    regenerated Gen/SchedTables.v; the text functions model Python's
    [str.split(sep)], [re.split(r"\s+", _)], [str.strip()], [x in y].
    Also here (executable, used by the harness and by the theorems): the
    printers of squeue/sacct/bjobs tables, the well-formedness predicates, the
    specification ("state of the last row whose id field equals the queried
    id") and the monitors [C16_ok_*].  No proofs in this file. *)
From Coq Require Import List Arith NArith ZArith Bool.
From MWF Require Import Base.Str Gen.SchedTables Sched.Manuals.
Import ListNotations.

(* ------------------------------------------------------------------------ *)
(** * Python text primitives *)

(** [Py_UNICODE_ISSPACE]: what [\s] (str patterns) and [str.strip()] use. *)
Definition is_space (c : N) : bool :=
  ((9 <=? c) && (c <=? 13) || (28 <=? c) && (c <=? 32) || (c =? 133) || (c =? 160)
   || (c =? 5760) || (8192 <=? c) && (c <=? 8202) || (c =? 8232) || (c =? 8233)
   || (c =? 8239) || (c =? 8287) || (c =? 12288))%N.

Definition nl : N := 10%N.
Definition bar : N := 124%N.   (* '|' *)
Definition is_nil {A} (l : list A) : bool := match l with [] => true | _ => false end.

(** [text.split(d)] for a one-character separator: never returns []. *)
Fixpoint split_on (d : N) (l : str) : list str :=
  match l with
  | [] => [[]]
  | c :: r =>
    let fs := split_on d r in
    if N.eqb c d then [] :: fs
    else match fs with
         | f :: fs' => (c :: f) :: fs'
         | [] => [[c]]
         end
  end.

(** [re.split(r"\s+", text)]: in a run of white space only its last character
    closes a field; a leading / trailing run yields an empty first / last
    field; never returns []. *)
Fixpoint resplit (l : str) : list str :=
  match l with
  | [] => [[]]
  | c :: r =>
    let fs := resplit r in
    if is_space c then
      match r with
      | c' :: _ => if is_space c' then fs else [] :: fs
      | [] => [] :: fs
      end
    else match fs with
         | f :: fs' => (c :: f) :: fs'
         | [] => [[c]]
         end
  end.

Fixpoint lstrip (l : str) : str :=
  match l with
  | c :: r => if is_space c then lstrip r else l
  | [] => []
  end.
Definition rstrip (l : str) : str := rev (lstrip (rev l)).
Definition strip (l : str) : str := rstrip (lstrip l).

Fixpoint prefixb (p l : str) : bool :=
  match p, l with
  | [], _ => true
  | x :: p', y :: l' => N.eqb x y && prefixb p' l'
  | _ :: _, [] => false
  end.
(** [needle in text] *)
Fixpoint contains (needle l : str) : bool :=
  prefixb needle l || match l with [] => false | _ :: r => contains needle r end.

Fixpoint join (d : N) (ls : list str) : str :=
  match ls with
  | [] => []
  | x :: r => match r with [] => x | _ => x ++ d :: join d r end
  end.

Definition memb (x : str) (l : list str) : bool := existsb (str_eqb x) l.

(* ------------------------------------------------------------------------ *)
(** * State tables (decision lists from T-data) *)

Definition State_eqb (a b : State) : bool := N.eqb (State_value a) (State_value b).
Definition JS_eqb (a b : JobStatusCode) : bool := N.eqb (JobStatusCode_value a) (JobStatusCode_value b).

Fixpoint lookup_state (tbl : list (str * State)) (d : State) (c : str) : State :=
  match tbl with
  | [] => d
  | (k, v) :: r => if str_eqb c k then v else lookup_state r d c
  end.

Definition slurm_state : str -> State := lookup_state slurm_table slurm_default.
Definition lsf_state : str -> State := lookup_state lsf_table lsf_default.
Definition flux_state : str -> State := lookup_state flux_table flux_default.

(** the states after which the execution graph stops tracking a step
    (executiongraph.py, check_study_status: FINISHED, TIMEDOUT, HWFAILURE,
    FAILED, UNKNOWN, CANCELLED each end or restart the step) *)
Definition terminal (x : State) : bool :=
  match x with
  | FINISHED | FAILED | TIMEDOUT | HWFAILURE | CANCELLED | UNKNOWN => true
  | _ => false
  end.

(* ------------------------------------------------------------------------ *)
(** * The status dictionary *)

Definition status := list (str * option State).

Fixpoint has_key (k : str) (st : status) : bool :=
  match st with [] => false | (k', _) :: r => str_eqb k k' || has_key k r end.
Fixpoint get (st : status) (k : str) : option (option State) :=
  match st with [] => None | (k', v) :: r => if str_eqb k k' then Some v else get r k end.
Definition set_key (k : str) (v : option State) (st : status) : status :=
  map (fun e => if str_eqb (fst e) k then (fst e, v) else e) st.
(** [status = {}; for j in joblist: status[j] = None] *)
Fixpoint init_status_from (st : status) (jl : list str) : status :=
  match jl with
  | [] => st
  | j :: r => init_status_from (if has_key j st then st else st ++ [(j, None)]) r
  end.
Definition init_status (jl : list str) : status := init_status_from [] jl.
Definition is_none {A} (o : option A) : bool := match o with None => true | _ => false end.
Definition any_none (st : status) : bool := existsb (fun e => is_none (snd e)) st.
Definition all_none (st : status) : bool := forallb (fun e => is_none (snd e)) st.

(** what check_jobs returns; [Exc] = an exception escaped (IndexError on a
    row that is too short) *)
Inductive result :=
| Ret (code : JobStatusCode) (st : status)
| Exc.

Definition rc_lookup (m : list (Z * (bool * JobStatusCode))) (d : JobStatusCode) (rc : Z)
  : bool * JobStatusCode :=
  match find (fun e => Z.eqb (fst e) rc) m with
  | Some e => snd e
  | None => (false, d)
  end.

Fixpoint fold_rows (f : status -> str -> option status) (st : status) (ls : list str) : option status :=
  match ls with
  | [] => Some st
  | l :: r => match f st l with
              | None => None
              | Some st' => fold_rows f st' r
              end
  end.

(* ------------------------------------------------------------------------ *)
(** * Slurm *)

Definition drop_blank_head (js : list str) : list str :=
  match js with
  | f :: r => if is_nil f then r else js
  | [] => []
  end.

(** one iteration of the row loop of _check_jobs_squeue / _check_jobs_sacct *)
Definition slurm_row (drop : bool) (jidx sidx : nat) (st : status) (line : str) : option status :=
  let js0 := resplit line in
  let js := if drop then drop_blank_head js0 else js0 in
  match js with
  | [] => Some st
  | _ =>
    match nth_error js jidx with
    | None => None
    | Some jid =>
      if has_key jid st then
        match nth_error js sidx with
        | None => None
        | Some sc => Some (set_key jid (Some (slurm_state sc)) st)
        end
      else Some st
    end
  end.

Definition run_query (m : list (Z * (bool * JobStatusCode))) (d : JobStatusCode)
           (rowf : status -> str -> option status) (offset : nat) (sep : N)
           (st : status) (out : str) (rc : Z) : option (JobStatusCode * status) :=
  let pc := rc_lookup m d rc in
  if fst pc then
    match fold_rows rowf st (skipn offset (split_on sep out)) with
    | Some st' => Some (snd pc, st')
    | None => None
    end
  else Some (snd pc, st).

Definition squeue_query : status -> str -> Z -> option (JobStatusCode * status) :=
  run_query sq_rc_map sq_rc_default
            (slurm_row sq_drop_blank_head sq_jobid_index sq_state_index)
            sq_data_row_offset sq_row_sep.
Definition sacct_query : status -> str -> Z -> option (JobStatusCode * status) :=
  run_query sa_rc_map sa_rc_default
            (slurm_row sa_drop_blank_head sa_jobid_index sa_state_index)
            sa_data_row_offset sa_row_sep.

Definition is_OK (c : JobStatusCode) : bool := JS_eqb c JS_OK.
Definition is_NOJOBS (c : JobStatusCode) : bool := JS_eqb c JS_NOJOBS.
(** the end of SlurmScriptAdapter.check_jobs *)
Definition combine_codes (cs : list JobStatusCode) : JobStatusCode :=
  if existsb is_OK cs then JS_OK
  else if forallb is_NOJOBS cs then JS_NOJOBS
  else JS_ERROR.

(** SlurmScriptAdapter.check_jobs; second component = number of query
    commands started (sacct is only consulted while some id is still None) *)
Definition slurm_run (jl : list str) (sq_out : str) (sq_rc : Z) (sa_out : str) (sa_rc : Z)
  : result * nat :=
  let st0 := init_status jl in
  match squeue_query st0 sq_out sq_rc with
  | None => (Exc, 1)
  | Some (c1, st1) =>
    if any_none st1 then
      match sacct_query st1 sa_out sa_rc with
      | None => (Exc, 2)
      | Some (c2, st2) => (Ret (combine_codes [c1; c2]) st2, 2)
      end
    else (Ret (combine_codes [c1]) st1, 1)
  end.
Definition slurm_check_jobs jl sq_out sq_rc sa_out sa_rc : result :=
  fst (slurm_run jl sq_out sq_rc sa_out sa_rc).

(* ------------------------------------------------------------------------ *)
(** * LSF *)

(** [re.search(r"^No\s", output)] (no MULTILINE: start of the output only) *)
Definition lsf_nojob (out : str) : bool :=
  match out with
  | 78%N :: 111%N :: c :: _ => is_space c
  | _ => false
  end.

(** [while js[0] == "": js = js[1:]]  -- IndexError once the list is empty *)
Fixpoint drop_blank_heads (js : list str) : option (list str) :=
  match js with
  | [] => None
  | f :: r => if is_nil f then drop_blank_heads r else Some js
  end.

Fixpoint refine (rules : list (str * str)) (reason stat : str) : str :=
  match rules with
  | [] => stat
  | (needle, new) :: r => if contains needle reason then new else refine r reason stat
  end.

(** the state code handed to _state: EXIT is refined by the exit reason *)
Definition lsf_effective (stat reason : str) : str :=
  if str_eqb stat lsf_exit_trigger then refine lsf_exit_rules reason stat else stat.

Definition lsf_row (st : status) (line : str) : option status :=
  let js0 := map strip (split_on bj_delim line) in
  if List.length js0 <? bj_min_fields then Some st
  else
    match drop_blank_heads js0 with
    | None => None
    | Some js =>
      match nth_error js bj_jobid_index with
      | None => None
      | Some jid =>
        if has_key jid st then
          match nth_error js bj_state_index with
          | None => None
          | Some sc =>
            if str_eqb sc lsf_exit_trigger then
              match lsf_exit_rules with
              | [] => Some (set_key jid (Some (lsf_state sc)) st)
              | _ => match nth_error js bj_term_reason with
                     | None => None
                     | Some rs => Some (set_key jid (Some (lsf_state (lsf_effective sc rs))) st)
                     end
              end
            else Some (set_key jid (Some (lsf_state sc)) st)
          end
        else Some st
      end
    end.

(** LSFScriptAdapter.check_jobs *)
Definition lsf_check_jobs (jl : list str) (out : str) (rc : Z) : result :=
  let st0 := init_status jl in
  let pc := rc_lookup bj_rc_map bj_rc_default rc in
  if fst pc then
    if lsf_nojob out then Ret bj_nojob_code (if bj_nojob_empty_dict then [] else st0)
    else
      match fold_rows lsf_row st0 (skipn bj_data_row_offset (split_on bj_row_sep out)) with
      | Some st' => Ret (snd pc) st'
      | None => Exc
      end
  else Ret (snd pc) st0.

(* ------------------------------------------------------------------------ *)
(** * Printers: the tables squeue / sacct / bjobs print in the requested formats *)

(** a field and the padding printed after it *)
Definition tokpad := (str * str)%type.
Definition print_toks (lead : str) (fs : list tokpad) : str :=
  lead ++ flat_map (fun tp => fst tp ++ snd tp) fs.

(** a token: non-empty, no white space (hence no newline) *)
Definition tokb (t : str) : bool := negb (is_nil t) && forallb (fun c => negb (is_space c)) t.
(** padding: white space other than newline, any width *)
Definition padb (p : str) : bool := forallb (fun c => is_space c && negb (N.eqb c nl)) p.
Definition pad1b (p : str) : bool := negb (is_nil p) && padb p.
Definition nonlb (t : str) : bool := forallb (fun c => negb (N.eqb c nl)) t.
(** tokens separated by at least one blank; after the last one any padding *)
Fixpoint wf_toks (fs : list tokpad) : bool :=
  match fs with
  | [] => true
  | (t, p) :: r => tokb t && match r with [] => padb p | _ => pad1b p && wf_toks r end
  end.

(** squeue --format="%.18i %.8j %.8u %.2t": JOBID NAME USER ST, right
    justified (leading padding), one header line.  [q_more]: further columns. *)
Record sqrow := SqR { q_lead : str; q_id : tokpad; q_name : tokpad; q_user : tokpad;
                      q_state : tokpad; q_more : list tokpad }.
Inductive sqline := SqRow (r : sqrow) | SqBlank (ws : str).
Definition sq_toks (r : sqrow) : list tokpad := q_id r :: q_name r :: q_user r :: q_state r :: q_more r.
Definition print_sqline (l : sqline) : str :=
  match l with
  | SqRow r => print_toks (q_lead r) (sq_toks r)
  | SqBlank ws => ws
  end.
Inductive sqtable := SqT (hdr : str) (ls : list sqline) | SqRaw (text : str).
Definition print_squeue (t : sqtable) : str :=
  match t with
  | SqT hdr ls => join nl (hdr :: map print_sqline ls)
  | SqRaw text => text
  end.
Definition wf_sqline (l : sqline) : bool :=
  match l with
  | SqRow r => padb (q_lead r) && wf_toks (sq_toks r)
  | SqBlank ws => padb ws
  end.
Definition wf_squeue (t : sqtable) : bool :=
  match t with
  | SqT hdr ls => nonlb hdr && forallb wf_sqline ls
  | SqRaw _ => false
  end.
Definition sq_pair (l : sqline) : list (str * str) :=
  match l with SqRow r => [(fst (q_id r), fst (q_state r))] | SqBlank _ => [] end.
Definition sq_pairs (t : sqtable) : list (str * str) :=
  match t with SqT _ ls => flat_map sq_pair ls | SqRaw _ => [] end.

(** sacct --format=jobid,jobname,state,exitcode: JobID left justified (no
    leading padding), two header lines (titles, dashes); job steps appear as
    rows "id.batch", "id.0", array tasks as "id_k".  [a_more]: exit code and
    whatever else follows the state (e.g. "by 123" after CANCELLED). *)
Record sarow := SaR { a_id : tokpad; a_name : tokpad; a_state : tokpad; a_more : list tokpad }.
Inductive saline := SaRow (r : sarow) | SaBlank (ws : str).
Definition sa_toks (r : sarow) : list tokpad := a_id r :: a_name r :: a_state r :: a_more r.
Definition print_saline (l : saline) : str :=
  match l with
  | SaRow r => print_toks [] (sa_toks r)
  | SaBlank ws => ws
  end.
Inductive satable := SaT (hdr1 hdr2 : str) (ls : list saline) | SaRaw (text : str).
Definition print_sacct (t : satable) : str :=
  match t with
  | SaT h1 h2 ls => join nl (h1 :: h2 :: map print_saline ls)
  | SaRaw text => text
  end.
Definition wf_saline (l : saline) : bool :=
  match l with
  | SaRow r => wf_toks (sa_toks r)
  | SaBlank ws => padb ws
  end.
Definition wf_sacct (t : satable) : bool :=
  match t with
  | SaT h1 h2 ls => nonlb h1 && nonlb h2 && forallb wf_saline ls
  | SaRaw _ => false
  end.
Definition sa_pair (l : saline) : list (str * str) :=
  match l with SaRow r => [(fst (a_id r), fst (a_state r))] | SaBlank _ => [] end.
Definition sa_pairs (t : satable) : list (str * str) :=
  match t with SaT _ _ ls => flat_map sa_pair ls | SaRaw _ => [] end.

(** bjobs -o "jobid stat exit_code exit_reason delimiter='|'": fields
    separated by '|', each possibly padded on both sides; one header line.
    A field is (left padding, text, right padding). *)
Definition lfield := (str * str * str)%type.
Definition lf_text (f : lfield) : str := snd (fst f).
Definition print_lfield (f : lfield) : str := fst (fst f) ++ lf_text f ++ snd f.
Record bjrow := BjR { b_id : lfield; b_stat : lfield; b_code : lfield; b_reason : lfield;
                      b_more : list lfield }.
(** [BjShort]: a line with fewer fields than the format has (blank lines,
    wrapped text, ...) *)
Inductive bjline := BjRow (r : bjrow) | BjShort (fs : list lfield).
Definition bj_fields (r : bjrow) : list lfield := b_id r :: b_stat r :: b_code r :: b_reason r :: b_more r.
Definition print_bjline (l : bjline) : str :=
  match l with
  | BjRow r => join bar (map print_lfield (bj_fields r))
  | BjShort fs => join bar (map print_lfield fs)
  end.
Inductive bjtable := BjT (hdr : str) (ls : list bjline) | BjRaw (text : str).
Definition print_bjobs (t : bjtable) : str :=
  match t with
  | BjT hdr ls => join nl (hdr :: map print_bjline ls)
  | BjRaw text => text
  end.
(** field text: no delimiter, no newline, no white space at either end *)
Definition starts_nonspace (t : str) : bool :=
  match t with [] => true | c :: _ => negb (is_space c) end.
Definition coreb (t : str) : bool :=
  forallb (fun c => negb (N.eqb c bar) && negb (N.eqb c nl)) t
  && starts_nonspace t && starts_nonspace (rev t).
Definition wf_lfield (f : lfield) : bool := padb (fst (fst f)) && coreb (lf_text f) && padb (snd f).
Definition wf_bjline (l : bjline) : bool :=
  match l with
  | BjRow r => forallb wf_lfield (bj_fields r) && negb (is_nil (lf_text (b_id r)))
  | BjShort fs => forallb wf_lfield fs && (List.length fs <? 4)
  end.
Definition wf_bjobs (t : bjtable) : bool :=
  match t with
  | BjT hdr ls => nonlb hdr && forallb wf_bjline ls
  | BjRaw _ => false
  end.
(** SPECIFICATION of the state code a bjobs row stands for (LSF manual, see
    Manuals.v): EXIT with termination reason TERM_RUNLIMIT is a time-out, EXIT
    with TERM_OWNER a cancellation by the owner, every other row stands for its
    STAT field.  Written with the adapter's pseudo codes TIMEOUT / CANCELLED,
    whose required meaning is [lsf_refined_expected].  (The implementation's
    rule is [lsf_effective], from T-data.) *)
Definition lsf_row_code (stat reason : str) : str :=
  if str_eqb stat (s "EXIT") then
    if contains lsf_term_runlimit reason then s "TIMEOUT"
    else if contains lsf_term_owner reason then s "CANCELLED"
    else stat
  else stat.
Definition lsf_refined_expected : list (str * State) :=
  [(s "TIMEOUT", TIMEDOUT); (s "CANCELLED", CANCELLED); (s "EXIT", FAILED)].

Definition bj_pair (l : bjline) : list (str * str) :=
  match l with
  | BjRow r => [(lf_text (b_id r), lsf_row_code (lf_text (b_stat r)) (lf_text (b_reason r)))]
  | BjShort _ => []
  end.
Definition bj_pairs (t : bjtable) : list (str * str) :=
  match t with BjT _ ls => flat_map bj_pair ls | BjRaw _ => [] end.

(* ------------------------------------------------------------------------ *)
(** * Specification *)

(** the state field of the LAST row whose id field EQUALS [j] *)
Fixpoint last_state (ps : list (str * str)) (j : str) : option str :=
  match ps with
  | [] => None
  | (i, c) :: r =>
    match last_state r j with
    | Some x => Some x
    | None => if str_eqb i j then Some c else None
    end
  end.

(** the answer for [j]: None = not a key of the dictionary;
    Some None = "no information"; Some (Some x) = state x *)
Definition spec_answer (b_state : str -> State) (ps : list (str * str)) (jl : list str) (j : str)
  : option (option State) :=
  if memb j jl then Some (option_map b_state (last_state ps j)) else None.

Definition opt_state_eqb (a b : option State) : bool :=
  match a, b with
  | None, None => true
  | Some x, Some y => State_eqb x y
  | _, _ => false
  end.
Definition answer_eqb (a b : option (option State)) : bool :=
  match a, b with
  | None, None => true
  | Some x, Some y => opt_state_eqb x y
  | _, _ => false
  end.

(** does return code [rc] make the query function parse the output? *)
Definition parses m d (rc : Z) : bool := fst (rc_lookup m d rc).
Definition code_of m d (rc : Z) : JobStatusCode := snd (rc_lookup m d rc).

(** the rows check_jobs gets to see: squeue's (if squeue succeeded), then --
    only if some queried id is still without information -- sacct's *)
Definition slurm_missing (jl : list str) (sq : sqtable) (sq_rc : Z) : bool :=
  existsb (fun j => is_none (last_state (if parses sq_rc_map sq_rc_default sq_rc then sq_pairs sq else []) j)) jl.
Definition slurm_seen (jl : list str) (sq : sqtable) (sq_rc : Z) (sa : satable) (sa_rc : Z)
  : list (str * str) :=
  (if parses sq_rc_map sq_rc_default sq_rc then sq_pairs sq else [])
  ++ (if slurm_missing jl sq sq_rc && parses sa_rc_map sa_rc_default sa_rc then sa_pairs sa else []).

(** alive / success / key checks shared by the monitors *)
Definition answers_ok (b_state : str -> State) (alive success : list str)
           (ps : list (str * str)) (jl : list str) (st : status) : bool :=
  forallb (fun j => answer_eqb (get st j) (spec_answer b_state ps jl j)) jl
  && forallb (fun e => memb (fst e) jl) st
  (* a job the scheduler reports alive is never given a terminal state *)
  && forallb (fun j => match last_state ps j with
                       | Some c => if memb c alive
                                   then match get st j with
                                        | Some (Some x) => negb (terminal x)
                                        | _ => false
                                        end
                                   else true
                       | None => true
                       end) jl
  (* FINISHED only for the scheduler's success state *)
  && forallb (fun e => match snd e with
                       | Some x => if State_eqb x FINISHED
                                   then match last_state ps (fst e) with
                                        | Some c => memb c success
                                        | None => false
                                        end
                                   else true
                       | None => true
                       end) st.

(** codes whose Maestro state is prescribed: the answer is that state *)
Fixpoint assoc_state (tbl : list (str * State)) (c : str) : option State :=
  match tbl with
  | [] => None
  | (k, v) :: r => if str_eqb c k then Some v else assoc_state r c
  end.
Definition expected_ok (tbl : list (str * State)) (ps : list (str * str)) (jl : list str)
           (st : status) : bool :=
  forallb (fun j => match last_state ps j with
                    | Some c => match assoc_state tbl c with
                                | Some x => answer_eqb (get st j) (Some (Some x))
                                | None => true
                                end
                    | None => true
                    end) jl.

(** ** The monitors (the predicates the theorems are about) *)

(** Slurm: [obs] is what check_jobs returned *)
Definition C16_ok_slurm (jl : list str) (sq : sqtable) (sq_rc : Z) (sa : satable) (sa_rc : Z)
           (obs : result) : bool :=
  match obs with
  | Exc => false
  | Ret code st =>
    let consulted := slurm_missing jl sq sq_rc in
    (* a failing query command never contributes OK *)
    (if is_OK code
     then Z.eqb sq_rc 0 || consulted && Z.eqb sa_rc 0
     else all_none st)
    && JS_eqb code (combine_codes (code_of sq_rc_map sq_rc_default sq_rc ::
                                   if consulted then [code_of sa_rc_map sa_rc_default sa_rc] else []))
    && answers_ok slurm_state slurm_alive slurm_success (slurm_seen jl sq sq_rc sa sa_rc) jl st
  end.

(** LSF *)
Definition C16_ok_lsf (jl : list str) (t : bjtable) (rc : Z) (obs : result) : bool :=
  match obs with
  | Exc => false
  | Ret code st =>
    (if is_OK code then Z.eqb rc 0 else all_none st)
    && (if parses bj_rc_map bj_rc_default rc
        then if lsf_nojob (print_bjobs t)
             then negb (is_OK code) && all_none st
             else is_OK code && answers_ok lsf_state lsf_alive lsf_success (bj_pairs t) jl st
                  (* EXIT + TERM_RUNLIMIT is TIMEDOUT, EXIT + TERM_OWNER is CANCELLED, other EXIT is FAILED *)
                  && expected_ok lsf_refined_expected (bj_pairs t) jl st
        else JS_eqb code (code_of bj_rc_map bj_rc_default rc)
             && answers_ok lsf_state lsf_alive lsf_success [] jl st)
  end.

(** Flux: [obs] is what [state code] returned *)
Definition C16_ok_flux (code : str) (obs : State) : bool :=
  (if memb code flux_alive then negb (terminal obs) else true)
  && (if State_eqb obs FINISHED then memb code flux_success else true).

(* ------------------------------------------------------------------------ *)
(** * Comparison of observables (correspondence run) *)

Definition status_eqb (a b : status) : bool :=
  Nat.eqb (List.length a) (List.length b)
  && forallb (fun e => answer_eqb (get b (fst e)) (Some (snd e))) a
  && forallb (fun e => answer_eqb (get a (fst e)) (Some (snd e))) b.
Definition result_eqb (a b : result) : bool :=
  match a, b with
  | Exc, Exc => true
  | Ret c1 s1, Ret c2 s2 => JS_eqb c1 c2 && status_eqb s1 s2
  | _, _ => false
  end.

(* ------------------------------------------------------------------------ *)
(** * Correspondence cases (harness glue: one record per run of the real code) *)

Definition wf_joblist (jl : list str) : bool := forallb (fun j => negb (is_nil j)) jl.

(** check sum of the text the real code was fed (the harness prints the table
    in Python; Coq re-prints it with the printers above and compares) *)
Definition checksum (t : str) : N * N :=
  (N.of_nat (List.length t), fold_left (fun h c => ((h * 131 + c) mod 1000000007)%N) t 0%N).
Definition chk_eqb (a b : N * N) : bool := N.eqb (fst a) (fst b) && N.eqb (snd a) (snd b).

(** queried ids, (table, exit code, check sum of the text fed to the real
    code) for squeue and sacct, (what check_jobs returned, number of commands
    it started) *)
Definition slurm_case :=
  (list str * (sqtable * Z * (N * N)) * (satable * Z * (N * N)) * (result * nat))%type.
Definition slurm_print_ok (c : slurm_case) : bool :=
  match c with
  | (_, (sq, _, sqc), (sa, _, sac), _) =>
    chk_eqb (checksum (print_squeue sq)) sqc && chk_eqb (checksum (print_sacct sa)) sac
  end.
Definition slurm_corr_ok (c : slurm_case) : bool :=
  match c with
  | (jl, (sq, sq_rc, _), (sa, sa_rc, _), (obs, calls)) =>
    let r := slurm_run jl (print_squeue sq) sq_rc (print_sacct sa) sa_rc in
    result_eqb (fst r) obs && Nat.eqb (snd r) calls
  end.
Definition slurm_mon_ok (c : slurm_case) : bool :=
  match c with
  | (jl, (sq, sq_rc, _), (sa, sa_rc, _), (obs, _)) =>
    if wf_joblist jl && wf_squeue sq && wf_sacct sa
    then C16_ok_slurm jl sq sq_rc sa sa_rc obs else true
  end.
Definition slurm_case_ok (c : slurm_case) : bool :=
  slurm_print_ok c && slurm_corr_ok c && slurm_mon_ok c.

Definition lsf_case := (list str * (bjtable * Z * (N * N)) * result)%type.
Definition lsf_print_ok (c : lsf_case) : bool :=
  match c with (_, (t, _, k), _) => chk_eqb (checksum (print_bjobs t)) k end.
Definition lsf_corr_ok (c : lsf_case) : bool :=
  match c with (jl, (t, rc, _), obs) => result_eqb (lsf_check_jobs jl (print_bjobs t) rc) obs end.
Definition lsf_mon_ok (c : lsf_case) : bool :=
  match c with
  | (jl, (t, rc, _), obs) =>
    if wf_joblist jl && wf_bjobs t then C16_ok_lsf jl t rc obs else true
  end.
Definition lsf_case_ok (c : lsf_case) : bool := lsf_print_ok c && lsf_corr_ok c && lsf_mon_ok c.

(** (flux interface version, status abbreviation, what [state] returned) *)
Definition flux_case := (str * str * State)%type.
Definition flux_lookup (ver : str) : option (list (str * State) * State) :=
  match find (fun e => str_eqb (fst e) ver) flux_tables with
  | Some e => Some (snd e)
  | None => None
  end.
Definition flux_corr_ok (c : flux_case) : bool :=
  match c with
  | (ver, code, obs) =>
    match flux_lookup ver with
    | Some (t, d) => State_eqb (lookup_state t d code) obs
    | None => false
    end
  end.
Definition flux_mon_ok (c : flux_case) : bool :=
  match c with (_, code, obs) => C16_ok_flux code obs end.
Definition flux_case_ok (c : flux_case) : bool := flux_corr_ok c && flux_mon_ok c.

(* ------------------------------------------------------------------------ *)
(** * The engine's layer on top of the adapters: ExecutionGraph.check_study_status
      (executiongraph.py): the ids of the in-progress steps are queried and the
      adapter's table is re-keyed by step name *)

(** [jobmap[jobid]] ([jobmap]: job id -> step name, in query order) *)
Fixpoint assoc_step (jobmap : list (str * str)) (j : str) : option str :=
  match jobmap with
  | [] => None
  | (k, step) :: r => if str_eqb j k then Some step else assoc_step r j
  end.

(** [step_status = {jobmap[jobid]: status for jobid, status in job_status.items()}];
    None = KeyError (the adapter echoed an id that was not queried) *)
Fixpoint step_table (jobmap : list (str * str)) (st : status) : option status :=
  match st with
  | [] => Some []
  | (j, v) :: r =>
    match assoc_step jobmap j, step_table jobmap r with
    | Some step, Some l => Some ((step, v) :: l)
    | _, _ => None
    end
  end.

(** check_study_status given the adapter's answer: the same code, the re-keyed table *)
Definition engine_run (jobmap : list (str * str)) (code : JobStatusCode) (st : status) : result :=
  match step_table jobmap st with
  | Some tbl => Ret code tbl
  | None => Exc
  end.

(** the STATE an entry claims: "absent" and None both claim nothing *)
Definition claimed (a : option (option State)) : option State :=
  match a with Some (Some x) => Some x | _ => None end.

(** The monitor of the engine layer.  [code], [st]: what the adapter answered;
    [obs]: what check_study_status returned.  Every queried step claims exactly
    the state the adapter's table holds for ITS job id -- in particular a step
    whose job is absent from the table (no key, or None) comes back without a
    state --, nothing else is a key, the code is passed on. *)
Definition C16_ok_engine (jobmap : list (str * str)) (code : JobStatusCode) (st : status)
           (obs : result) : bool :=
  match obs with
  | Exc => false
  | Ret c tbl =>
    JS_eqb c code
    && forallb (fun e => match assoc_step jobmap (fst e) with
                         | Some step => opt_state_eqb (claimed (get tbl step)) (claimed (get st (fst e)))
                         | None => false
                         end) jobmap
    && forallb (fun e => existsb (fun m => str_eqb (snd m) (fst e)) jobmap) tbl
  end.

Fixpoint nodup_strb (l : list str) : bool :=
  match l with [] => true | x :: r => negb (memb x r) && nodup_strb r end.
(** every in-progress step has its own job id; the adapter answers about queried ids only *)
Definition wf_jobmap (jobmap : list (str * str)) : bool :=
  nodup_strb (map fst jobmap) && nodup_strb (map snd jobmap).
Definition wf_answer (jobmap : list (str * str)) (st : status) : bool :=
  forallb (fun e => memb (fst e) (map fst jobmap)) st.

(** (job id -> step, the adapter's (code, table), what check_study_status returned) *)
Definition engine_case := (list (str * str) * (JobStatusCode * status) * result)%type.
Definition engine_corr_ok (c : engine_case) : bool :=
  match c with (jm, (code, st), obs) => result_eqb (engine_run jm code st) obs end.
Definition engine_mon_ok (c : engine_case) : bool :=
  match c with
  | (jm, (code, st), obs) =>
    if wf_jobmap jm && wf_answer jm st then C16_ok_engine jm code st obs else true
  end.
Definition engine_case_ok (c : engine_case) : bool := engine_corr_ok c && engine_mon_ok c.

(** shorthands for the generated case files *)
Definition jn : list str -> str := join nl.
Definition e_ : str := [].
Definition sp (n : nat) : str := repeat 32%N n.
Definition tp (a b : str) : tokpad := (a, b).
Definition lf (a b c : str) : lfield := (a, b, c).
Definition kv (k : str) (v : State) : str * option State := (k, Some v).
Definition kn (k : str) : str * option State := (k, None).
Definition q_ l a b c d m := SqRow (SqR l a b c d m).
Definition qb := SqBlank.
Definition a_ a b c m := SaRow (SaR a b c m).
Definition ab := SaBlank.
Definition b_ a b c d m := BjRow (BjR a b c d m).
Definition bs := BjShort.

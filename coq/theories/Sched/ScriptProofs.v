(** C15 proofs, part 6: a batch script = header lines, an empty line, the
    command.  What [lines_of], [directives], [script_body] and [first_line]
    make of it. *)
From Coq Require Import List Arith NArith ZArith Bool Lia.
From MWF Require Import Base.Str Gen.HeaderData Sched.Header Sched.Launcher Sched.Readers
  Sched.StrFacts Sched.SegProofs Sched.LauncherProofs Sched.ReadProofs.
Import ListNotations.
Local Open Scope N_scope.
Local Open Scope list_scope.

Lemma match_35 : forall (c : N) (A : Type) (x y : A),
  match c with 35 => x | _ => y end = if c =? 35 then x else y.
Proof. match_const. Qed.

Lemma is_comment_cons : forall c w, is_comment (c :: w) = (c =? 35).
Proof. intros. unfold is_comment. rewrite (match_35 c bool true false). destruct (c =? 35); auto. Qed.

(** a character a command can start with *)
Definition cmd_start (c : N) : bool := negb (is_blank_char c) && negb (c =? 35) && negb (c =? nl).

Lemma split_first : forall c t, c <> nl -> exists w ws, split_on nl (c :: t) = (c :: w) :: ws.
Proof.
  intros. simpl. destruct (N.eqb_spec c nl). contradiction.
  destruct (split_on nl t) as [|w ws] eqn:E. destruct (split_on_nonnil _ _ E). eauto.
Qed.

Lemma stop_first : forall c w, cmd_start c = true -> stop_line (c :: w) = true.
Proof.
  intros c w H. unfold cmd_start in H. repeat (apply andb_true_iff in H; destruct H as [H ?]).
  unfold stop_line. rewrite is_comment_cons. simpl is_blank_line.
  apply negb_true_iff in H. rewrite H. simpl. auto.
Qed.

(** the lines of  header-lines / blank / body *)
Lemma lines_of_script : forall ls body, ls <> [] ->
  lines_of (join [nl] ls ++ nl :: nl :: body) = flat_map (split_on nl) ls ++ [] :: split_on nl body.
Proof.
  intros. unfold lines_of. rewrite split_on_app. rewrite split_join by auto.
  change (split_on nl (nl :: body)) with (if nl =? nl then [] :: split_on nl body
                                           else match split_on nl body with w :: ws => (nl :: w) :: ws | [] => [[nl]] end).
  rewrite N.eqb_refl. auto.
Qed.

Section Script.
  Variables (marker : str) (tbl : opttable).
  Variables (ls : list str) (c : N) (t : str).
  Hypothesis NE : ls <> [].
  Hypothesis CL : forallb comment_line (flat_map (split_on nl) ls) = true.
  Hypothesis ST : cmd_start c = true.
  Let text := join [nl] ls ++ nl :: nl :: c :: t.

  Lemma c_not_nl : c <> nl.
  Proof.
    unfold cmd_start in ST. apply andb_true_iff in ST. destruct ST as [_ X].
    apply negb_true_iff in X. apply N.eqb_neq in X. auto.
  Qed.

  Lemma script_directives :
    flat_map (parse_opts tbl) (directives marker (lines_of text)) =
    flat_map (read_line marker tbl) (flat_map (split_on nl) ls).
  Proof.
    unfold text. rewrite lines_of_script by auto. rewrite directives_comments by auto.
    rewrite directives_blank by reflexivity.
    destruct (split_first c t c_not_nl) as [w [ws E]]. rewrite E.
    rewrite directives_stop by (apply stop_first; auto). simpl. rewrite app_nil_r. auto.
  Qed.

  Lemma comment_lines_are_comments : forallb is_comment (flat_map (split_on nl) ls) = true.
  Proof.
    apply forallb_forall. intros l I. rewrite forallb_forall in CL. apply CL in I.
    unfold comment_line in I. apply andb_true_iff in I. tauto.
  Qed.

  Lemma script_body_eq : script_body text = c :: t.
  Proof.
    unfold script_body, text. rewrite lines_of_script by auto.
    rewrite body_lines_comments by apply comment_lines_are_comments.
    rewrite body_lines_blank by reflexivity.
    destruct (split_first c t c_not_nl) as [w [ws E]]. rewrite E.
    rewrite body_lines_stop by (apply stop_first; auto).
    transitivity (join [nl] (split_on nl (c :: t))). rewrite E. reflexivity. apply join_split.
  Qed.

  Lemma first_line_eq : forall l0 r, ls = l0 :: r -> ~ In nl l0 -> first_line text = l0.
  Proof.
    intros l0 r E NI. unfold first_line, text. rewrite lines_of_script by auto. subst ls.
    simpl flat_map. rewrite split_on_notin by auto. reflexivity.
  Qed.
End Script.

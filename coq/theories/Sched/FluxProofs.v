(** C15 proofs, Flux: the informational header, [flux run], and the theorem
    about [write_flux]. *)
From Coq Require Import List Arith NArith ZArith Bool Lia.
From MWF Require Import Base.Str Gen.HeaderData Sched.Header Sched.Launcher Sched.Readers
  Sched.StrFacts Sched.SegProofs Sched.LauncherProofs Sched.ReadProofs Sched.SlurmLaunch
  Sched.SlurmHeader Sched.ScriptProofs Sched.C15Proofs Sched.LsfWalltime Sched.LsfProofs.
Import ListNotations.
Local Open Scope N_scope.
Local Open Scope list_scope.

(** * seconds *)
Lemma digits_val_noWs : forall t acc n, digits_val acc t = Some n -> forallb (fun c => negb (is_ws c)) t = true.
Proof.
  induction t as [|c t]; intros acc n H. reflexivity.
  simpl in H. destruct (is_digit c) eqn:D.
  - simpl. rewrite (is_digit_not_ws c D). simpl. eapply IHt; eauto.
  - destruct (N.eqb_spec c 95); try discriminate. subst c. simpl.
    destruct t as [|d t]; try discriminate. destruct (is_digit d) eqn:D2; try discriminate.
    eapply IHt; eauto.
Qed.

Lemma strip_noWs : forall t, forallb (fun c => negb (is_ws c)) t = true -> strip t = t.
Proof.
  intros t H. unfold strip. destruct t as [|c t]. reflexivity.
  simpl in H. apply andb_true_iff in H. destruct H as [H1 H2]. apply negb_true_iff in H1.
  rewrite (lstrip_noop (c :: t)) by (simpl; auto).
  assert (R : forallb (fun c => negb (is_ws c)) (rev (c :: t)) = true).
  { apply forallb_forall. intros x I. apply in_rev in I. destruct I. subst. rewrite H1. reflexivity.
    rewrite forallb_forall in H2. auto. }
  destruct (rev (c :: t)) eqn:E.
  - apply (f_equal (@rev N)) in E. rewrite rev_involutive in E. simpl in E. discriminate.
  - simpl in R. apply andb_true_iff in R. destruct R as [R1 _]. apply negb_true_iff in R1.
    rewrite lstrip_noop by (simpl; auto). rewrite <- E. apply rev_involutive.
Qed.

Lemma py_int_of_nat : forall t n, py_nat t = Some n -> py_int t = Some (Z.of_N n).
Proof.
  intros t n H. unfold py_nat in H. destruct t as [|c t]; try discriminate.
  destruct (is_digit c) eqn:D; try discriminate.
  pose proof (digits_val_noWs _ _ _ H) as W. unfold py_int. rewrite strip_noWs by auto.
  apply digit_bounds in D.
  assert (P : py_nat (c :: t) = Some n) by (unfold py_nat; destruct (is_digit c) eqn:D'; auto;
    unfold is_digit in D'; apply andb_false_iff in D'; destruct D' as [X|X]; apply N.leb_gt in X; lia).
  destruct c as [|p]; try lia.
  destruct p; try lia; destruct p; try lia; destruct p; try lia; destruct p; try lia; destruct p; try lia;
    try (destruct p; try lia); rewrite P; reflexivity.
Qed.

Lemma horner_app : forall ps acc p, horner acc (ps ++ [p]) = horner acc ps * 60 + p.
Proof. induction ps; intros; simpl; auto. Qed.

Lemma all_some_snoc : forall l o zs, all_some (l ++ [o]) = Some zs ->
  exists xs n, all_some l = Some xs /\ o = Some n /\ zs = xs ++ [n].
Proof.
  induction l as [|a l]; intros o zs H; simpl in H.
  - destruct o as [n|]; try discriminate. simpl in H. inversion H. exists [], n. auto.
  - destruct a as [x|]; try discriminate.
    destruct (all_some (l ++ [o])) as [ys|] eqn:E; try discriminate. simpl in H. inversion H. subst.
    destruct (IHl o ys E) as [xs [n [A [B C]]]]. exists (x :: xs), n. simpl. rewrite A. subst. auto.
Qed.

Lemma sum_parts_horner : forall parts ps m, all_some (map py_nat parts) = Some ps ->
  sum_parts (rev parts) m = Some (m * Z.of_N (horner 0 ps))%Z.
Proof.
  intros parts. induction parts as [|p parts IH] using rev_ind; intros ps m A.
  - simpl in A. inversion A. subst. simpl. f_equal. lia.
  - rewrite map_app in A. simpl map in A.
    destruct (all_some_snoc _ _ _ A) as [xs [n [E [P Z]]]]. subst ps.
    rewrite rev_app_distr. simpl rev. simpl app. simpl sum_parts.
    rewrite (py_int_of_nat _ _ P). rewrite (IH xs (m * 60)%Z) by auto.
    f_equal. rewrite horner_app. lia.
Qed.

Lemma Z_dec_of_N : forall n, Z_dec (Z.of_N n) = N_dec n.
Proof. intros. unfold Z_dec. destruct n; simpl; auto. Qed.

Lemma digits_nodot : forall t, all_digits t = true -> ~ In 46 t.
Proof. intros t H I. apply all_digits_forall in H. rewrite forallb_forall in H. apply H in I. discriminate I. Qed.
Lemma digits_nonl : forall t, all_digits t = true -> ~ In nl t.
Proof. intros t H I. apply all_digits_forall in H. rewrite forallb_forall in H. apply H in I. discriminate I. Qed.

Lemma read_seconds_int : forall n, read_seconds (N_dec n) = Some n.
Proof.
  intros. unfold read_seconds. rewrite split_on_notin by (apply digits_nodot; apply N_dec_all_digits).
  apply py_nat_N_dec.
Qed.
Lemma read_seconds_float : forall n, read_seconds (N_dec n ++ s ".0") = Some n.
Proof.
  intros. unfold read_seconds. change (N_dec n ++ s ".0") with (N_dec n ++ 46 :: s "0").
  rewrite split_on_app. rewrite split_on_notin by (apply digits_nodot; apply N_dec_all_digits).
  simpl. apply py_nat_N_dec.
Qed.

Lemma flux_wall_facts : forall st x,
  flux_seconds (declared (st_res st) RWalltime) = Some x ->
  match lookup (s "walltime") (st_res st) with Some VNone => false | _ => true end = true ->
  exists w, flux_walltime (run_val st (s "walltime")) = Ok w /\ ~ In nl w /\ read_seconds w = Some x.
Proof.
  intros st x FS NN. unfold declared in FS. change (key_name RWalltime) with (s "walltime") in FS.
  unfold run_val. destruct (lookup (s "walltime") (st_res st)) as [v|].
  - destruct v as [n|t|bb|]; try discriminate NN.
    + (* integer minutes *)
      simpl truthy in FS. destruct (N.eqb_spec n 0).
      * subst n. simpl in FS. inversion FS. subst x. exists (s "0"). repeat split; auto.
        intros [X|[]]; discriminate X.
      * simpl negb in FS. cbv iota in FS. simpl render in FS. unfold flux_seconds in FS.
        rewrite N_dec_digits in FS by auto. rewrite py_nat_N_dec in FS. simpl in FS. inversion FS. subst x.
        exists (N_dec (n * 60)). split. reflexivity. split. apply digits_nonl. apply N_dec_all_digits.
        apply read_seconds_int.
    + destruct t as [|c t].
      * simpl in FS. inversion FS. subst x. exists (s "0"). repeat split; auto. intros [X|[]]; discriminate X.
      * set (tt := c :: t) in *.
        assert (T : truthy (VStr tt) = true) by reflexivity. rewrite T in FS. clear T.
        change (render (VStr tt)) with tt in FS. unfold flux_seconds in FS. unfold flux_walltime.
        assert (TN : match tt with [] => Ok (s "0") : res str | _ => if str_eqb tt (s "inf") then Ok (s "0") else Err Diag end
                     = if str_eqb tt (s "inf") then Ok (s "0") else Err Diag) by reflexivity.
        rewrite TN. clear TN.
        destruct (all_digits tt) eqn:AD.
        -- rewrite py_nat_digits in * by auto. simpl in FS. inversion FS. subst x.
           exists (N_dec (dval 0 tt * 60)). split. reflexivity. split. apply digits_nonl. apply N_dec_all_digits.
           apply read_seconds_int.
        -- destruct (containsb [58] tt) eqn:CC.
           ++ destruct (all_some (map py_nat (split_on 58 tt))) as [ps|] eqn:AS; try discriminate.
              simpl in FS. inversion FS. subst x.
              rewrite (sum_parts_horner _ ps 1%Z AS). rewrite Z.mul_1_l. rewrite Z_dec_of_N.
              exists (N_dec (horner 0 ps) ++ s ".0"). split. reflexivity. split.
              ** apply notin_app. apply digits_nonl. apply N_dec_all_digits. intros [X|[X|[]]]; discriminate X.
              ** apply read_seconds_float.
           ++ destruct (str_eqb tt (s "inf")) eqn:INF; try discriminate. inversion FS. subst x.
              exists (s "0"). repeat split; auto. intros [X|[]]; discriminate X.
    + destruct bb.
      * exfalso. vm_compute in FS. discriminate FS.
      * simpl in FS. inversion FS. subst x. exists (s "0"). repeat split; auto. intros [X|[]]; discriminate X.
  - simpl in FS. inversion FS. subst x. exists (s "0"). repeat split; auto. intros [X|[]]; discriminate X.
Qed.

(** * flux run *)
Definition flux_text (p : option str) (nn : str) (c g o : option str) : str :=
  join (s " ") ([s "flux"; s "run"] ++ optw (s "-n") p ++ [s "-N"; nn] ++ optw (s "-c") c
                ++ optw (s "-g") g ++ optw (s "-o") o).

Definition flux_ntasks (bd : dict) (nodes : val) : val :=
  let n0 := if truthy nodes then nodes else get_default bd (s "nodes") (VInt 1) in
  if truthy n0 then n0 else VInt 1.
Definition flux_cpt (addl : dict) : option str :=
  match lookup (s "cores per task") addl with
  | Some v => Some (render (if truthy v then v else VInt 1))
  | None => None
  end.
Definition flux_o (fargs : list (str * str)) : option str :=
  match fargs with
  | [] => None
  | _ => Some (join (s ",") (map (fun kv : str * str => fst kv ++ s "=" ++ snd kv) fargs))
  end.

Lemma par_flux_eq : forall bd fargs addl procs nodes,
  par_flux bd fargs addl procs nodes =
  Ok (flux_text (tval procs) (render (flux_ntasks bd nodes)) (flux_cpt addl)
                (tval (get_default addl (s "gpus") (VInt 0))) (flux_o fargs)).
Proof.
  intros. unfold par_flux, flux_text, flux_ntasks, flux_cpt, flux_o, tval.
  change (nth_str 0 flux_par_flags) with (Ok (s "-n") : res str).
  change (nth_str 1 flux_par_flags) with (Ok (s "-N") : res str).
  change (nth_str 2 flux_par_flags) with (Ok (s "-c") : res str).
  change (nth_str 3 flux_par_flags) with (Ok (s "-g") : res str).
  change (nth_str 4 flux_par_flags) with (Ok (s "-o") : res str). cbn [bind].
  destruct (truthy procs); destruct (lookup (s "cores per task") addl);
    destruct (truthy (get_default addl (s "gpus") (VInt 0))); destruct fargs; reflexivity.
Qed.

Lemma read_flux_text : forall p nn c g o,
  oprinted p -> printed (fst nn) (snd nn) -> oprinted c -> oprinted g -> oprinted o ->
  read_flux_run (flux_text (oraw p) (fst nn) (oraw c) (oraw g) (oraw o)) =
  Some (opt_pair RTasks (ow p) ++ [(RNodes, snd nn)] ++ opt_pair RCpusPerTask (ow c)
        ++ opt_pair RGpus (ow g) ++ opt_pair ROpts (ow o))
  /\ sub_ok (flux_text (oraw p) (fst nn) (oraw c) (oraw g) (oraw o)) = true.
Proof.
  intros p [nr nw] c g o Pp Pn Pc Pg Po. simpl fst in *. simpl snd in *.
  destruct Pn as [Wn Qn Dn]. split.
  - unfold read_flux_run, read_launch, flux_text.
    rewrite words_join.
    2:{ rewrite !forallb_app. simpl forallb. rewrite Qn. rewrite !noquote_optw; auto. }
    rewrite !flat_map_app. simpl flat_map. rewrite !words_optw by auto. rewrite Wn.
    change (words_of (s "flux")) with [s "flux"]. change (words_of (s "run")) with [s "run"].
    change (words_of (s "-N")) with [s "-N"]. simpl app.
    change (strip_words [s "flux"; s "run"] (s "flux" :: s "run" :: optw (s "-n") (ow p) ++ s "-N" :: nw ::
              optw (s "-c") (ow c) ++ optw (s "-g") (ow g) ++ optw (s "-o") (ow o)))
      with (Some (optw (s "-n") (ow p) ++ s "-N" :: nw ::
              optw (s "-c") (ow c) ++ optw (s "-g") (ow g) ++ optw (s "-o") (ow o))).
    destruct p as [[pr pw]|]; destruct c as [[cr cw]|]; destruct g as [[gr gw]|]; destruct o as [[or_ ow_]|];
      simpl ow; simpl optw; simpl app;
      repeat (first [ rewrite all_opts_sep with (k := RTasks) by (reflexivity || (vm_compute; intuition discriminate))
                    | rewrite all_opts_sep with (k := RNodes) by (reflexivity || (vm_compute; intuition discriminate))
                    | rewrite all_opts_sep with (k := RCpusPerTask) by (reflexivity || (vm_compute; intuition discriminate))
                    | rewrite all_opts_sep with (k := RGpus) by (reflexivity || (vm_compute; intuition discriminate))
                    | rewrite all_opts_sep with (k := ROpts) by (reflexivity || (vm_compute; intuition discriminate)) ]);
      simpl all_opts; cbv iota;
      repeat (first [ rewrite parse_sep with (k := RTasks) by (reflexivity || (vm_compute; intuition discriminate))
                    | rewrite parse_sep with (k := RNodes) by (reflexivity || (vm_compute; intuition discriminate))
                    | rewrite parse_sep with (k := RCpusPerTask) by (reflexivity || (vm_compute; intuition discriminate))
                    | rewrite parse_sep with (k := RGpus) by (reflexivity || (vm_compute; intuition discriminate))
                    | rewrite parse_sep with (k := ROpts) by (reflexivity || (vm_compute; intuition discriminate)) ]);
      reflexivity.
  - unfold sub_ok. apply andb_true_iff. split.
    + apply negb_true_iff. unfold flux_text. apply memN_join. reflexivity.
      rewrite !forallb_app. simpl forallb. rewrite Dn. rewrite !memN_join_optw; auto.
    + unfold flux_text. cbn [app]. rewrite join_cons by discriminate. reflexivity.
Qed.

Lemma safe_tok_nonnil : forall t, safe_tok t = true -> t <> [].
Proof. destruct t; simpl; intros; discriminate. Qed.

Lemma join_safe_words : forall sep ws, safe_word sep -> ws <> [] -> (forall w, In w ws -> safe_word w) ->
  safe_word (join sep ws).
Proof.
  intros sep ws SS. induction ws as [|a ws IH]; intros NE H. congruence.
  destruct ws as [|b ws].
  - simpl. apply H. left. auto.
  - rewrite join_cons by discriminate. apply safe_word_app. apply H. left. auto.
    apply safe_word_app; auto. apply IH. discriminate. intros w I. apply H. right. auto.
Qed.

Lemma flux_o_word : forall fargs,
  forallb (fun kv : str * str => safe_tok (fst kv) && safe_tok (snd kv)
                                   && negb (memb 44 (fst kv ++ snd kv)) && negb (memb 61 (fst kv))) fargs = true ->
  forall w, flux_o fargs = Some w -> safe_word w.
Proof.
  intros fargs H w E. unfold flux_o in E. destruct fargs as [|kv r]; try discriminate.
  injection E as <-.
  change (safe_word (join (s ",") (map (fun kv0 : str * str => fst kv0 ++ s "=" ++ snd kv0) (kv :: r)))).
  assert (EQ : safe_word (s "=")) by (apply forallb_safe_word; [discriminate|reflexivity]).
  assert (CM : safe_word (s ",")) by (apply forallb_safe_word; [discriminate|reflexivity]).
  apply join_safe_words; auto. discriminate.
  intros x I. apply in_map_iff in I. destruct I as [y [EY IY]]. subst x.
  rewrite forallb_forall in H. apply H in IY. repeat (apply andb_true_iff in IY; destruct IY as [IY ?]).
  apply safe_word_app. apply safe_tok_word; auto. apply safe_word_app; auto. apply safe_tok_word; auto.
Qed.

(** * the Flux domain, unpacked *)
Record flux_parts (c : case) : Prop := {
  fp_wall : exists x, flux_seconds (declared (st_res (c_step c)) RWalltime) = Some x;
  fp_wnone : match lookup (s "walltime") (st_res (c_step c)) with Some VNone => false | _ => true end = true;
  fp_bnodes : match lookup (s "nodes") (b_kw (c_batch c)) with Some v => truthy v | None => true end = true;
  fp_broker : memb nl (c_broker c) = false;
  fp_version : match lookup (s "version") (b_kw (c_batch c)) with Some v => negb (memb nl (render v)) | None => true end = true;
  fp_uri : match lookup (s "uri") (b_kw (c_batch c)) with Some v => negb (memb nl (render v)) | None => true end = true;
  fp_args : forallb (fun kv : str * str => safe_tok (fst kv) && safe_tok (snd kv)
                                            && negb (memb 44 (fst kv ++ snd kv)) && negb (memb 61 (fst kv)))
                    (b_args (c_batch c)) = true }.

Lemma flux_unpack : forall c, flux_dom c = true -> flux_parts c.
Proof.
  intros c H. unfold flux_dom in H. cbv zeta in H.
  repeat (apply andb_true_iff in H; destruct H as [H ?]).
  constructor; auto.
  - destruct (flux_seconds (declared (st_res (c_step c)) RWalltime)); try discriminate. eauto.
  - apply negb_true_iff. auto.
Qed.

Lemma memb_false : forall c t, memb c t = false -> ~ In c t.
Proof. intros. apply memN_false. exact H. Qed.

(** * the informational header *)
Definition flux_bd (b : batch) : dict :=
  (s "version", match lookup (s "version") (b_kw b) with Some v => v | None => VStr flux_latest end)
  :: (match flux_uri b with Some v => [(s "flux_uri", v)] | None => [] end)
  ++ [(s "nodes", get_default (b_kw b) (s "nodes") (VStr (s "1")))].

Lemma batch_flux_eq : forall b, batch_flux b = Ok (flux_bd b).
Proof.
  intros. unfold batch_flux, flux_bd, flux_batch_params, get_default. norm_s. cbn [build_batch].
  match goal with |- context [lookup ?k (b_kw b)] => destruct (lookup k (b_kw b)) end; reflexivity.
Qed.

Definition flux_nodes (b : batch) (st : step) : val :=
  let rn := run_val st (s "nodes") in
  if truthy rn then rn else get_default (b_kw b) (s "nodes") (VStr (s "1")).

Definition flux_bh (b : batch) (broker : str) (st : step) (w : str) : dict :=
  (s "flux_version", VStr broker) :: (s "comment", VStr (oneline (st_desc st)))
  :: (s "job-name", VStr (under (st_name st)))
  :: (if truthy (run_val st (s "nodes")) then [(s "nodes", run_val st (s "nodes"))] else [])
  ++ (s "walltime", VStr w) :: flux_bd b.

Definition flux_entries (b : batch) : list (str * template) :=
  flux_header ++ match flux_uri b with Some _ => flux_header_uri | None => [] end.
Definition flux_shebang_line (b : batch) : str := s "#!" ++ render (flux_exec b).
Definition flux_lines (b : batch) (broker : str) (st : step) (w : str) : list str :=
  flux_shebang_line b :: flat_map (lsf_entry (flux_bh b broker st w)) (flux_entries b).

Lemma flux_entries_single : forall b, forallb (fun e => single_key (fst e) (snd e)) (flux_entries b) = true.
Proof. intros. unfold flux_entries. destruct (flux_uri b); reflexivity. Qed.

Lemma header_lines_flux_eq : forall b broker st w,
  flux_walltime (run_val st (s "walltime")) = Ok w ->
  header_lines_flux b broker st = Ok (flux_lines b broker st w).
Proof.
  intros b broker st w Hw. unfold header_lines_flux. rewrite batch_flux_eq. cbn [bind].
  rewrite (run_get_val st (s "walltime")) by (try split; reflexivity). cbn [bind]. rewrite Hw. cbn [bind].
  rewrite (run_get_val st (s "nodes")) by (try split; reflexivity). cbn [bind].
  change (format flux_shebang [(s "0", flux_exec b)]) with (Ok (s "#!" ++ (render (flux_exec b) ++ [])) : res str).
  rewrite app_nil_r. cbn [bind]. fold (flux_bh b broker st w). fold (flux_entries b).
  rewrite map_res_has by apply flux_entries_single. cbn [bind].
  unfold flux_lines, flux_shebang_line. rewrite flat_map_concat_map. reflexivity.
Qed.

Lemma flux_bh_nodes : forall b broker st w, lookup (s "nodes") (flux_bh b broker st w) = Some (flux_nodes b st).
Proof.
  intros. unfold flux_bh, flux_nodes, flux_bd. cbn [lookup].
  change (str_eqb (s "nodes") (s "flux_version")) with false. change (str_eqb (s "nodes") (s "comment")) with false.
  change (str_eqb (s "nodes") (s "job-name")) with false. cbv iota.
  destruct (truthy (run_val st (s "nodes"))).
  - cbn [app lookup]. change (str_eqb (s "nodes") (s "nodes")) with true. reflexivity.
  - cbn [app lookup]. change (str_eqb (s "nodes") (s "walltime")) with false.
    change (str_eqb (s "nodes") (s "version")) with false. cbv iota.
    rewrite lookup_app. destruct (flux_uri b); cbn [lookup];
      change (str_eqb (s "nodes") (s "flux_uri")) with false;
      change (str_eqb (s "nodes") (s "nodes")) with true; reflexivity.
Qed.
Lemma flux_bh_walltime : forall b broker st w, lookup (s "walltime") (flux_bh b broker st w) = Some (VStr w).
Proof.
  intros. unfold flux_bh. cbn [lookup].
  change (str_eqb (s "walltime") (s "flux_version")) with false. change (str_eqb (s "walltime") (s "comment")) with false.
  change (str_eqb (s "walltime") (s "job-name")) with false. cbv iota.
  destruct (truthy (run_val st (s "nodes"))); cbn [app lookup];
    change (str_eqb (s "walltime") (s "nodes")) with false;
    change (str_eqb (s "walltime") (s "walltime")) with true; reflexivity.
Qed.

Lemma lookup_in : forall (k : str) (d : dict) v, lookup k d = Some v -> exists k', In (k', v) d.
Proof.
  induction d as [|[k' x] d]; simpl; intros v H. discriminate.
  destruct (str_eqb k k'). inversion H. subst. eauto. destruct (IHd v H) as [k2 I]. eauto.
Qed.

Definition nlfree (d : dict) : Prop := forall k v, In (k, v) d -> ~ In nl (render v).

Lemma entry_lines_ok : forall bh k lit, nlfree bh -> memN nl lit = false ->
  (forall x, comment_line (lit ++ x) = true) ->
  forall l, In l (lsf_entry bh (k, [Lit lit; Fld k])) -> ~ In nl l /\ comment_line l = true.
Proof.
  intros bh k lit NF NL CM l I. unfold lsf_entry in I. cbn [fst snd] in I.
  destruct (lookup k bh) as [v|] eqn:L; [|destruct I].
  destruct I as [I|[]]. subst l. unfold fmt. cbn [flat_map]. rewrite app_nil_r. split.
  - destruct (lookup_in _ _ _ L) as [k' IK]. apply notin_app. apply memN_false; auto. apply (NF k' v IK).
  - apply CM.
Qed.

Lemma comment_lines_flat : forall ls, (forall l, In l ls -> ~ In nl l /\ comment_line l = true) ->
  forallb comment_line (flat_map (split_on nl) ls) = true.
Proof.
  induction ls as [|l ls]; intros H. reflexivity.
  simpl. destruct (H l (or_introl eq_refl)) as [A B]. rewrite split_on_notin by auto. simpl. rewrite B.
  apply IHls. intros x I. apply H. right. auto.
Qed.

Section FluxHeader.
  Variable c : case.
  Hypothesis HP : H15_parts c.
  Hypothesis FP : flux_parts c.
  Hypothesis BP : batch_parts (c_be c) (c_batch c).
  Let st := c_step c.
  Let b := c_batch c.
  Let broker := c_broker c.
  Variable w : str.
  Hypothesis Wnl : ~ In nl w.

  Lemma flux_nodes_word : safe_word (render (flux_nodes b st)).
  Proof.
    unfold flux_nodes. destruct (truthy (run_val st (s "nodes"))) eqn:T.
    - destruct (total_run_val st RNodes ltac:(discriminate) (hp_nodes c HP)) as [_ [_ [_ D]]].
      change (key_name RNodes) with (s "nodes") in D. unfold tval in D. rewrite T in D.
      apply digits_word. apply D. reflexivity.
    - unfold get_default. pose proof (fp_bnodes c FP) as BN. fold b in BN.
      destruct (lookup (s "nodes") (b_kw b)) as [v|] eqn:L.
      + apply digits_word. apply (decl_count_word (b_kw b) RNodes). apply (bp_nodes _ _ BP).
        unfold decl. change (key_name RNodes) with (s "nodes"). rewrite L, BN. auto.
      + apply one_word.
  Qed.

  Lemma flux_bh_nlfree : nlfree (flux_bh b broker st w).
  Proof.
    intros k v I. unfold flux_bh in I.
    destruct I as [I|[I|[I|I]]]; try (inversion I; subst; clear I).
    - simpl. apply memb_false. apply (fp_broker c FP).
    - simpl. pose proof (hp_desc c HP) as DS. fold st in DS. unfold safe_quoted in DS.
      rewrite forallb_forall in DS. intro X. apply DS in X.
      repeat (apply andb_true_iff in X; destruct X as [X ?]). apply N.leb_le in X. unfold nl in X. lia.
    - simpl. pose proof (hp_name c HP) as NM. fold st in NM. unfold safe_name in NM.
      destruct (st_name st) eqn:N0; try discriminate. rewrite forallb_forall in NM. intro X. apply NM in X.
      apply andb_true_iff in X. destruct X as [X _]. apply safe_char_plain in X. destruct X as [_ [X _]]. congruence.
    - apply in_app_or in I. destruct I as [I|I].
      + destruct (truthy (run_val st (s "nodes"))) eqn:T; [|destruct I]. destruct I as [I|[]]. inversion I; subst.
        pose proof flux_nodes_word as W. unfold flux_nodes in W. rewrite T in W. destruct W. auto.
      + destruct I as [I|I]. inversion I; subst. simpl. auto.
        unfold flux_bd in I. destruct I as [I|I].
        * inversion I; subst. pose proof (fp_version c FP) as V. fold b in V. norm_s.
          match goal with |- context [lookup ?kk (b_kw b)] => destruct (lookup kk (b_kw b)) as [x|] end.
          -- apply memb_false. apply negb_true_iff. auto.
          -- simpl. intros X. repeat (destruct X as [X|X]; [discriminate X|]). destruct X.
        * apply in_app_or in I. destruct I as [I|I].
          -- unfold flux_uri in I. pose proof (fp_uri c FP) as U. fold b in U. norm_s.
             match type of I with context [lookup ?kk (b_kw b)] => destruct (lookup kk (b_kw b)) as [x|] end; [|destruct I].
             destruct (truthy x); [|destruct I]. destruct I as [I|[]]. inversion I; subst.
             apply memb_false. apply negb_true_iff. auto.
          -- destruct I as [I|[]]. inversion I; subst.
             pose proof flux_nodes_word as W. unfold flux_nodes in W.
             unfold get_default in *. pose proof (fp_bnodes c FP) as BN. fold b in BN. norm_s.
             match goal with |- context [lookup ?kk (b_kw b)] => destruct (lookup kk (b_kw b)) as [x|] eqn:L end.
             ++ assert (SW : safe_word (render x)).
                { apply digits_word. apply (decl_count_word (b_kw b) RNodes). apply (bp_nodes _ _ BP).
                  unfold decl. change (key_name RNodes) with (s "nodes"). norm_s. rewrite L, BN. auto. }
                destruct SW. auto.
             ++ simpl. intros [X|[]]. discriminate X.
  Qed.

  Lemma flux_shebang_ok : ~ In nl (flux_shebang_line b) /\ comment_line (flux_shebang_line b) = true.
  Proof.
    split; [|reflexivity]. unfold flux_shebang_line. apply notin_app. simpl. intros [X|[X|[]]]; discriminate X.
    apply (shell_safe (c_be c)). auto.
  Qed.

  Lemma flux_lines_ok : forall l, In l (flux_lines b broker st w) -> ~ In nl l /\ comment_line l = true.
  Proof.
    intros l I. unfold flux_lines in I. destruct I as [I|I]. subst l. apply flux_shebang_ok.
    apply in_flat_map in I. destruct I as [e [IE IL]].
    unfold flux_entries, flux_header, flux_header_uri in IE.
    apply in_app_or in IE. destruct IE as [IE|IE].
    - simpl in IE. repeat (destruct IE as [IE|IE]; [subst e;
        apply (entry_lines_ok (flux_bh b broker st w) _ _ flux_bh_nlfree) in IL; auto; reflexivity|]). destruct IE.
    - destruct (flux_uri b); [|destruct IE]. simpl in IE. destruct IE as [IE|[]]. subst e.
      apply (entry_lines_ok (flux_bh b broker st w) _ _ flux_bh_nlfree) in IL; auto; reflexivity.
  Qed.

  Lemma flux_lines_shape : exists rest,
    flux_lines b broker st w =
    flux_shebang_line b :: (s "#INFO (nodes) " ++ render (flux_nodes b st)) :: (s "#INFO (walltime) " ++ w) :: rest.
  Proof.
    unfold flux_lines, flux_entries, flux_header. cbn [app flat_map].
    unfold lsf_entry at 1 2. cbn [fst snd]. norm_s.
    pose proof (flux_bh_nodes b broker st w) as LN. pose proof (flux_bh_walltime b broker st w) as LW.
    norm_s. rewrite LN, LW. unfold fmt. cbn [flat_map app render]. rewrite !app_nil_r.
    eexists. reflexivity.
  Qed.
End FluxHeader.

(** C15 proofs, Flux: the informational header, [flux run], and the theorem
    about [write_flux]. *)
From Coq Require Import List Arith NArith ZArith Bool Lia.
From MWF Require Import Base.Str Gen.HeaderData Sched.Header Sched.Launcher Sched.Readers
  Sched.StrFacts Sched.SegProofs Sched.LauncherProofs Sched.ReadProofs Sched.SlurmLaunch
  Sched.SlurmHeader Sched.ScriptProofs Sched.C15Proofs Sched.LsfWalltime Sched.LsfProofs.
Import ListNotations.
Local Open Scope N_scope.
Local Open Scope list_scope.

(** * seconds *)
Lemma digits_val_noWs : forall t acc n, digits_val acc t = Some n -> forallb (fun c => negb (is_ws c)) t = true.
Proof.
  induction t as [|c t]; intros acc n H. reflexivity.
  simpl in H. destruct (is_digit c) eqn:D.
  - simpl. rewrite (is_digit_not_ws c D). simpl. eapply IHt; eauto.
  - destruct (N.eqb_spec c 95); try discriminate. subst c. simpl.
    destruct t as [|d t]; try discriminate. destruct (is_digit d) eqn:D2; try discriminate.
    eapply IHt; eauto.
Qed.

Lemma strip_noWs : forall t, forallb (fun c => negb (is_ws c)) t = true -> strip t = t.
Proof.
  intros t H. unfold strip. destruct t as [|c t]. reflexivity.
  simpl in H. apply andb_true_iff in H. destruct H as [H1 H2]. apply negb_true_iff in H1.
  rewrite (lstrip_noop (c :: t)) by (simpl; auto).
  assert (R : forallb (fun c => negb (is_ws c)) (rev (c :: t)) = true).
  { apply forallb_forall. intros x I. apply in_rev in I. destruct I. subst. rewrite H1. reflexivity.
    rewrite forallb_forall in H2. auto. }
  destruct (rev (c :: t)) eqn:E.
  - apply (f_equal (@rev N)) in E. rewrite rev_involutive in E. simpl in E. discriminate.
  - simpl in R. apply andb_true_iff in R. destruct R as [R1 _]. apply negb_true_iff in R1.
    rewrite lstrip_noop by (simpl; auto). rewrite <- E. apply rev_involutive.
Qed.

Lemma py_int_of_nat : forall t n, py_nat t = Some n -> py_int t = Some (Z.of_N n).
Proof.
  intros t n H. unfold py_nat in H. destruct t as [|c t]; try discriminate.
  destruct (is_digit c) eqn:D; try discriminate.
  pose proof (digits_val_noWs _ _ _ H) as W. unfold py_int. rewrite strip_noWs by auto.
  apply digit_bounds in D.
  assert (P : py_nat (c :: t) = Some n) by (unfold py_nat; destruct (is_digit c) eqn:D'; auto;
    unfold is_digit in D'; apply andb_false_iff in D'; destruct D' as [X|X]; apply N.leb_gt in X; lia).
  destruct c as [|p]; try lia.
  destruct p; try lia; destruct p; try lia; destruct p; try lia; destruct p; try lia; destruct p; try lia;
    try (destruct p; try lia); rewrite P; reflexivity.
Qed.

Lemma horner_app : forall ps acc p, horner acc (ps ++ [p]) = horner acc ps * 60 + p.
Proof. induction ps; intros; simpl; auto. Qed.

Lemma all_some_snoc : forall l o zs, all_some (l ++ [o]) = Some zs ->
  exists xs n, all_some l = Some xs /\ o = Some n /\ zs = xs ++ [n].
Proof.
  induction l as [|a l]; intros o zs H; simpl in H.
  - destruct o as [n|]; try discriminate. simpl in H. inversion H. exists [], n. auto.
  - destruct a as [x|]; try discriminate.
    destruct (all_some (l ++ [o])) as [ys|] eqn:E; try discriminate. simpl in H. inversion H. subst.
    destruct (IHl o ys E) as [xs [n [A [B C]]]]. exists (x :: xs), n. simpl. rewrite A. subst. auto.
Qed.

Lemma sum_parts_horner : forall parts ps m, all_some (map py_nat parts) = Some ps ->
  sum_parts (rev parts) m = Some (m * Z.of_N (horner 0 ps))%Z.
Proof.
  intros parts. induction parts as [|p parts IH] using rev_ind; intros ps m A.
  - simpl in A. inversion A. subst. simpl. f_equal. lia.
  - rewrite map_app in A. simpl map in A.
    destruct (all_some_snoc _ _ _ A) as [xs [n [E [P Z]]]]. subst ps.
    rewrite rev_app_distr. simpl rev. simpl app. simpl sum_parts.
    rewrite (py_int_of_nat _ _ P). rewrite (IH xs (m * 60)%Z) by auto.
    f_equal. rewrite horner_app. lia.
Qed.

Lemma Z_dec_of_N : forall n, Z_dec (Z.of_N n) = N_dec n.
Proof. intros. unfold Z_dec. destruct n; simpl; auto. Qed.

Lemma digits_nodot : forall t, all_digits t = true -> ~ In 46 t.
Proof. intros t H I. apply all_digits_forall in H. rewrite forallb_forall in H. apply H in I. discriminate I. Qed.
Lemma digits_nonl : forall t, all_digits t = true -> ~ In nl t.
Proof. intros t H I. apply all_digits_forall in H. rewrite forallb_forall in H. apply H in I. discriminate I. Qed.

Lemma read_seconds_int : forall n, read_seconds (N_dec n) = Some n.
Proof.
  intros. unfold read_seconds. rewrite split_on_notin by (apply digits_nodot; apply N_dec_all_digits).
  apply py_nat_N_dec.
Qed.
Lemma read_seconds_float : forall n, read_seconds (N_dec n ++ s ".0") = Some n.
Proof.
  intros. unfold read_seconds. change (N_dec n ++ s ".0") with (N_dec n ++ 46 :: s "0").
  rewrite split_on_app. rewrite split_on_notin by (apply digits_nodot; apply N_dec_all_digits).
  simpl. apply py_nat_N_dec.
Qed.

Lemma flux_wall_facts : forall st x,
  flux_declared_seconds st = Some x ->
  match lookup (s "walltime") (st_res st) with Some VNone => false | _ => true end = true ->
  exists w, flux_walltime (run_val st (s "walltime")) = Ok w /\ ~ In nl w /\ read_seconds w = Some x.
Proof.
  intros st x FS NN. unfold flux_declared_seconds, declared in FS. change (key_name RWalltime) with (s "walltime") in FS.
  unfold run_val. destruct (lookup (s "walltime") (st_res st)) as [v|].
  - destruct v as [n|t|bb| |n]; try discriminate NN;
      [| | | (* an integral float: minutes *)
         inversion FS; subst x; exists (N_dec (n * 60)); split; [reflexivity|]; split;
         [apply digits_nonl; apply N_dec_all_digits | apply read_seconds_int] ].
    + (* integer minutes *)
      simpl truthy in FS. destruct (N.eqb_spec n 0).
      * subst n. simpl in FS. inversion FS. subst x. exists (s "0"). repeat split; auto.
        intros [X|[]]; discriminate X.
      * simpl negb in FS. cbv iota in FS. simpl render in FS. unfold flux_seconds in FS.
        rewrite N_dec_digits in FS by auto. rewrite py_nat_N_dec in FS. simpl in FS. inversion FS. subst x.
        exists (N_dec (n * 60)). split. reflexivity. split. apply digits_nonl. apply N_dec_all_digits.
        apply read_seconds_int.
    + destruct t as [|c t].
      * simpl in FS. inversion FS. subst x. exists (s "0"). repeat split; auto. intros [X|[]]; discriminate X.
      * set (tt := c :: t) in *.
        assert (T : truthy (VStr tt) = true) by reflexivity. rewrite T in FS. clear T.
        change (render (VStr tt)) with tt in FS. unfold flux_seconds in FS. unfold flux_walltime.
        assert (TN : match tt with [] => Ok (s "0") : res str | _ => if str_eqb tt (s "inf") then Ok (s "0") else Err Diag end
                     = if str_eqb tt (s "inf") then Ok (s "0") else Err Diag) by reflexivity.
        rewrite TN. clear TN.
        destruct (all_digits tt) eqn:AD.
        -- rewrite py_nat_digits in * by auto. simpl in FS. inversion FS. subst x.
           exists (N_dec (dval 0 tt * 60)). split. reflexivity. split. apply digits_nonl. apply N_dec_all_digits.
           apply read_seconds_int.
        -- destruct (containsb [58] tt) eqn:CC.
           ++ destruct (all_some (map py_nat (split_on 58 tt))) as [ps|] eqn:AS; try discriminate.
              simpl in FS. inversion FS. subst x.
              rewrite (sum_parts_horner _ ps 1%Z AS). rewrite Z.mul_1_l. rewrite Z_dec_of_N.
              exists (N_dec (horner 0 ps) ++ s ".0"). split. reflexivity. split.
              ** apply notin_app. apply digits_nonl. apply N_dec_all_digits. intros [X|[X|[]]]; discriminate X.
              ** apply read_seconds_float.
           ++ destruct (str_eqb tt (s "inf")) eqn:INF; try discriminate. inversion FS. subst x.
              exists (s "0"). repeat split; auto. intros [X|[]]; discriminate X.
    + destruct bb.
      * exfalso. vm_compute in FS. discriminate FS.
      * simpl in FS. inversion FS. subst x. exists (s "0"). repeat split; auto. intros [X|[]]; discriminate X.
  - simpl in FS. inversion FS. subst x. exists (s "0"). repeat split; auto. intros [X|[]]; discriminate X.
Qed.

(** * flux run *)
Definition flux_text (p : option str) (nn : str) (c g o : option str) : str :=
  join (s " ") ([s "flux"; s "run"] ++ optw (s "-n") p ++ [s "-N"; nn] ++ optw (s "-c") c
                ++ optw (s "-g") g ++ optw (s "-o") o).

Definition flux_ntasks (bd : dict) (nodes : val) : val :=
  let n0 := if truthy nodes then nodes else get_default bd (s "nodes") (VInt 1) in
  if truthy n0 then n0 else VInt 1.
Definition flux_cpt (addl : dict) : option str :=
  match lookup (s "cores per task") addl with
  | Some v => Some (render (if truthy v then v else VInt 1))
  | None => None
  end.
Definition flux_o (fargs : list (str * str)) : option str :=
  match fargs with
  | [] => None
  | _ => Some (join (s ",") (map (fun kv : str * str => fst kv ++ s "=" ++ snd kv) fargs))
  end.

Lemma par_flux_eq : forall bd fargs addl procs nodes,
  par_flux bd fargs addl procs nodes =
  Ok (flux_text (tval procs) (render (flux_ntasks bd nodes)) (flux_cpt addl)
                (tval (get_default addl (s "gpus") (VInt 0))) (flux_o fargs)).
Proof.
  intros. unfold par_flux, flux_text, flux_ntasks, flux_cpt, flux_o, tval.
  change (nth_str 0 flux_par_flags) with (Ok (s "-n") : res str).
  change (nth_str 1 flux_par_flags) with (Ok (s "-N") : res str).
  change (nth_str 2 flux_par_flags) with (Ok (s "-c") : res str).
  change (nth_str 3 flux_par_flags) with (Ok (s "-g") : res str).
  change (nth_str 4 flux_par_flags) with (Ok (s "-o") : res str). cbn [bind].
  destruct (truthy procs); destruct (lookup (s "cores per task") addl);
    destruct (truthy (get_default addl (s "gpus") (VInt 0))); destruct fargs; reflexivity.
Qed.

Lemma read_flux_text : forall p nn c g o,
  oprinted p -> printed (fst nn) (snd nn) -> oprinted c -> oprinted g -> oprinted o ->
  read_flux_run (flux_text (oraw p) (fst nn) (oraw c) (oraw g) (oraw o)) =
  Some (opt_pair RTasks (ow p) ++ [(RNodes, snd nn)] ++ opt_pair RCpusPerTask (ow c)
        ++ opt_pair RGpus (ow g) ++ opt_pair ROpts (ow o))
  /\ sub_ok (flux_text (oraw p) (fst nn) (oraw c) (oraw g) (oraw o)) = true.
Proof.
  intros p [nr nw] c g o Pp Pn Pc Pg Po. simpl fst in *. simpl snd in *.
  destruct Pn as [Wn Qn Dn]. split.
  - unfold read_flux_run, read_launch, flux_text.
    rewrite words_join.
    2:{ rewrite !forallb_app. simpl forallb. rewrite Qn. rewrite !noquote_optw; auto. }
    rewrite !flat_map_app. simpl flat_map. rewrite !words_optw by auto. rewrite Wn.
    change (words_of (s "flux")) with [s "flux"]. change (words_of (s "run")) with [s "run"].
    change (words_of (s "-N")) with [s "-N"]. simpl app.
    change (strip_words [s "flux"; s "run"] (s "flux" :: s "run" :: optw (s "-n") (ow p) ++ s "-N" :: nw ::
              optw (s "-c") (ow c) ++ optw (s "-g") (ow g) ++ optw (s "-o") (ow o)))
      with (Some (optw (s "-n") (ow p) ++ s "-N" :: nw ::
              optw (s "-c") (ow c) ++ optw (s "-g") (ow g) ++ optw (s "-o") (ow o))).
    destruct p as [[pr pw]|]; destruct c as [[cr cw]|]; destruct g as [[gr gw]|]; destruct o as [[or_ ow_]|];
      simpl ow; simpl optw; simpl app;
      repeat (first [ rewrite all_opts_sep with (k := RTasks) by (reflexivity || (vm_compute; intuition discriminate))
                    | rewrite all_opts_sep with (k := RNodes) by (reflexivity || (vm_compute; intuition discriminate))
                    | rewrite all_opts_sep with (k := RCpusPerTask) by (reflexivity || (vm_compute; intuition discriminate))
                    | rewrite all_opts_sep with (k := RGpus) by (reflexivity || (vm_compute; intuition discriminate))
                    | rewrite all_opts_sep with (k := ROpts) by (reflexivity || (vm_compute; intuition discriminate)) ]);
      simpl all_opts; cbv iota;
      repeat (first [ rewrite parse_sep with (k := RTasks) by (reflexivity || (vm_compute; intuition discriminate))
                    | rewrite parse_sep with (k := RNodes) by (reflexivity || (vm_compute; intuition discriminate))
                    | rewrite parse_sep with (k := RCpusPerTask) by (reflexivity || (vm_compute; intuition discriminate))
                    | rewrite parse_sep with (k := RGpus) by (reflexivity || (vm_compute; intuition discriminate))
                    | rewrite parse_sep with (k := ROpts) by (reflexivity || (vm_compute; intuition discriminate)) ]);
      reflexivity.
  - unfold sub_ok. apply andb_true_iff. split.
    + apply negb_true_iff. unfold flux_text. apply memN_join. reflexivity.
      rewrite !forallb_app. simpl forallb. rewrite Dn. rewrite !memN_join_optw; auto.
    + unfold flux_text. cbn [app]. rewrite join_cons by discriminate. reflexivity.
Qed.

Lemma safe_tok_nonnil : forall t, safe_tok t = true -> t <> [].
Proof. destruct t; simpl; intros; discriminate. Qed.

Lemma join_safe_words : forall sep ws, safe_word sep -> ws <> [] -> (forall w, In w ws -> safe_word w) ->
  safe_word (join sep ws).
Proof.
  intros sep ws SS. induction ws as [|a ws IH]; intros NE H. congruence.
  destruct ws as [|b ws].
  - simpl. apply H. left. auto.
  - rewrite join_cons by discriminate. apply safe_word_app. apply H. left. auto.
    apply safe_word_app; auto. apply IH. discriminate. intros w I. apply H. right. auto.
Qed.

Lemma flux_o_word : forall fargs,
  forallb (fun kv : str * str => safe_tok (fst kv) && safe_tok (snd kv)
                                   && negb (memb 44 (fst kv ++ snd kv)) && negb (memb 61 (fst kv))) fargs = true ->
  forall w, flux_o fargs = Some w -> safe_word w.
Proof.
  intros fargs H w E. unfold flux_o in E. destruct fargs as [|kv r]; try discriminate.
  injection E as <-.
  change (safe_word (join (s ",") (map (fun kv0 : str * str => fst kv0 ++ s "=" ++ snd kv0) (kv :: r)))).
  assert (EQ : safe_word (s "=")) by (apply forallb_safe_word; [discriminate|reflexivity]).
  assert (CM : safe_word (s ",")) by (apply forallb_safe_word; [discriminate|reflexivity]).
  apply join_safe_words; auto. discriminate.
  intros x I. apply in_map_iff in I. destruct I as [y [EY IY]]. subst x.
  rewrite forallb_forall in H. apply H in IY. repeat (apply andb_true_iff in IY; destruct IY as [IY ?]).
  apply safe_word_app. apply safe_tok_word; auto. apply safe_word_app; auto. apply safe_tok_word; auto.
Qed.

(** * the Flux domain, unpacked *)
Record flux_parts (c : case) : Prop := {
  fp_wall : exists x, flux_declared_seconds (c_step c) = Some x;
  fp_wnone : match lookup (s "walltime") (st_res (c_step c)) with Some VNone => false | _ => true end = true;
  fp_bnodes : match lookup (s "nodes") (b_kw (c_batch c)) with Some v => truthy v | None => true end = true;
  fp_broker : memb nl (c_broker c) = false;
  fp_version : match lookup (s "version") (b_kw (c_batch c)) with Some v => negb (memb nl (render v)) | None => true end = true;
  fp_uri : match lookup (s "uri") (b_kw (c_batch c)) with Some v => negb (memb nl (render v)) | None => true end = true;
  fp_args : forallb (fun kv : str * str => safe_tok (fst kv) && safe_tok (snd kv)
                                            && negb (memb 44 (fst kv ++ snd kv)) && negb (memb 61 (fst kv)))
                    (b_args (c_batch c)) = true }.

Lemma flux_unpack : forall c, flux_dom c = true -> flux_parts c.
Proof.
  intros c H. unfold flux_dom in H. cbv zeta in H.
  repeat (apply andb_true_iff in H; destruct H as [H ?]).
  constructor; auto.
  - destruct (flux_declared_seconds (c_step c)); try discriminate. eauto.
  - apply negb_true_iff. auto.
Qed.

Lemma memb_false : forall c t, memb c t = false -> ~ In c t.
Proof. intros. apply memN_false. exact H. Qed.

(** * the informational header *)
Definition flux_bd (b : batch) : dict :=
  (s "version", match lookup (s "version") (b_kw b) with Some v => v | None => VStr flux_latest end)
  :: (match flux_uri b with Some v => [(s "flux_uri", v)] | None => [] end)
  ++ [(s "nodes", get_default (b_kw b) (s "nodes") (VStr (s "1")))].

Lemma batch_flux_eq : forall b, batch_flux b = Ok (flux_bd b).
Proof.
  intros. unfold batch_flux, flux_bd, flux_batch_params, get_default. norm_s. cbn [build_batch].
  match goal with |- context [lookup ?k (b_kw b)] => destruct (lookup k (b_kw b)) end; reflexivity.
Qed.

Definition flux_nodes (b : batch) (st : step) : val :=
  let rn := run_val st (s "nodes") in
  if truthy rn then rn else get_default (b_kw b) (s "nodes") (VStr (s "1")).

Definition flux_bh (b : batch) (broker : str) (st : step) (w : str) : dict :=
  (s "flux_version", VStr broker) :: (s "comment", VStr (oneline (st_desc st)))
  :: (s "job-name", VStr (under (st_name st)))
  :: (if truthy (run_val st (s "nodes")) then [(s "nodes", run_val st (s "nodes"))] else [])
  ++ (s "walltime", VStr w) :: flux_bd b.

Definition flux_entries (b : batch) : list (str * template) :=
  flux_header ++ match flux_uri b with Some _ => flux_header_uri | None => [] end.
Definition flux_shebang_line (b : batch) : str := s "#!" ++ render (flux_exec b).
Definition flux_lines (b : batch) (broker : str) (st : step) (w : str) : list str :=
  flux_shebang_line b :: flat_map (lsf_entry (flux_bh b broker st w)) (flux_entries b).

Lemma flux_entries_single : forall b, forallb (fun e => single_key (fst e) (snd e)) (flux_entries b) = true.
Proof. intros. unfold flux_entries. destruct (flux_uri b); reflexivity. Qed.

Lemma header_lines_flux_eq : forall b broker st w,
  flux_walltime (run_val st (s "walltime")) = Ok w ->
  header_lines_flux b broker st = Ok (flux_lines b broker st w).
Proof.
  intros b broker st w Hw. unfold header_lines_flux. rewrite batch_flux_eq. cbn [bind].
  rewrite (run_get_val st (s "walltime")) by (try split; reflexivity). cbn [bind]. rewrite Hw. cbn [bind].
  rewrite (run_get_val st (s "nodes")) by (try split; reflexivity). cbn [bind].
  change (format flux_shebang [(s "0", flux_exec b)]) with (Ok (s "#!" ++ (render (flux_exec b) ++ [])) : res str).
  rewrite app_nil_r. cbn [bind]. fold (flux_bh b broker st w). fold (flux_entries b).
  rewrite map_res_has by apply flux_entries_single. cbn [bind].
  unfold flux_lines, flux_shebang_line. rewrite flat_map_concat_map. reflexivity.
Qed.

Lemma flux_bh_nodes : forall b broker st w, lookup (s "nodes") (flux_bh b broker st w) = Some (flux_nodes b st).
Proof.
  intros. unfold flux_bh, flux_nodes, flux_bd. cbn [lookup].
  change (str_eqb (s "nodes") (s "flux_version")) with false. change (str_eqb (s "nodes") (s "comment")) with false.
  change (str_eqb (s "nodes") (s "job-name")) with false. cbv iota.
  destruct (truthy (run_val st (s "nodes"))).
  - cbn [app lookup]. change (str_eqb (s "nodes") (s "nodes")) with true. reflexivity.
  - cbn [app lookup]. change (str_eqb (s "nodes") (s "walltime")) with false.
    change (str_eqb (s "nodes") (s "version")) with false. cbv iota.
    rewrite lookup_app. destruct (flux_uri b); cbn [lookup];
      change (str_eqb (s "nodes") (s "flux_uri")) with false;
      change (str_eqb (s "nodes") (s "nodes")) with true; reflexivity.
Qed.
Lemma flux_bh_walltime : forall b broker st w, lookup (s "walltime") (flux_bh b broker st w) = Some (VStr w).
Proof.
  intros. unfold flux_bh. cbn [lookup].
  change (str_eqb (s "walltime") (s "flux_version")) with false. change (str_eqb (s "walltime") (s "comment")) with false.
  change (str_eqb (s "walltime") (s "job-name")) with false. cbv iota.
  destruct (truthy (run_val st (s "nodes"))); cbn [app lookup];
    change (str_eqb (s "walltime") (s "nodes")) with false;
    change (str_eqb (s "walltime") (s "walltime")) with true; reflexivity.
Qed.

Lemma lookup_in : forall (k : str) (d : dict) v, lookup k d = Some v -> exists k', In (k', v) d.
Proof.
  induction d as [|[k' x] d]; simpl; intros v H. discriminate.
  destruct (str_eqb k k'). inversion H. subst. eauto. destruct (IHd v H) as [k2 I]. eauto.
Qed.

Definition nlfree (d : dict) : Prop := forall k v, In (k, v) d -> ~ In nl (render v).

Lemma entry_lines_ok : forall bh k lit, nlfree bh -> memN nl lit = false ->
  (forall x, comment_line (lit ++ x) = true) ->
  forall l, In l (lsf_entry bh (k, [Lit lit; Fld k])) -> ~ In nl l /\ comment_line l = true.
Proof.
  intros bh k lit NF NL CM l I. unfold lsf_entry in I. cbn [fst snd] in I.
  destruct (lookup k bh) as [v|] eqn:L; [|destruct I].
  destruct I as [I|[]]. subst l. unfold fmt. cbn [flat_map]. rewrite app_nil_r. split.
  - destruct (lookup_in _ _ _ L) as [k' IK]. apply notin_app. apply memN_false; auto. apply (NF k' v IK).
  - apply CM.
Qed.

Lemma comment_lines_flat : forall ls, (forall l, In l ls -> ~ In nl l /\ comment_line l = true) ->
  forallb comment_line (flat_map (split_on nl) ls) = true.
Proof.
  induction ls as [|l ls]; intros H. reflexivity.
  simpl. destruct (H l (or_introl eq_refl)) as [A B]. rewrite split_on_notin by auto. simpl. rewrite B.
  apply IHls. intros x I. apply H. right. auto.
Qed.

Section FluxHeader.
  Variable c : case.
  Hypothesis HP : H15_parts c.
  Hypothesis FP : flux_parts c.
  Hypothesis BP : batch_parts (c_be c) (c_batch c).
  Hypothesis BE : c_be c = Flux.
  Let st := c_step c.
  Let b := c_batch c.
  Let broker := c_broker c.
  Variable w : str.
  Hypothesis Wnl : ~ In nl w.

  Lemma flux_nodes_word : safe_word (render (flux_nodes b st)).
  Proof.
    unfold flux_nodes. destruct (truthy (run_val st (s "nodes"))) eqn:T.
    - destruct (total_run_val st RNodes ltac:(discriminate) (hp_nodes c HP)) as [_ [_ [_ D]]].
      change (key_name RNodes) with (s "nodes") in D. unfold tval in D. rewrite T in D.
      apply digits_word. apply D. reflexivity.
    - unfold get_default. pose proof (fp_bnodes c FP) as BN. fold b in BN.
      destruct (lookup (s "nodes") (b_kw b)) as [v|] eqn:L.
      + apply digits_word. apply (decl_count_word (b_kw b) RNodes). apply (bp_nodes _ _ BP).
        unfold decl. change (key_name RNodes) with (s "nodes"). rewrite L, BN. auto.
      + apply one_word.
  Qed.

  Lemma flux_bh_nlfree : nlfree (flux_bh b broker st w).
  Proof.
    intros k v I. unfold flux_bh in I.
    destruct I as [I|[I|[I|I]]]; try (inversion I; subst; clear I).
    - simpl. apply memb_false. apply (fp_broker c FP).
    - simpl. pose proof (hp_desc c HP) as DS. fold st in DS. unfold safe_quoted in DS.
      rewrite forallb_forall in DS. intro X. apply DS in X.
      repeat (apply andb_true_iff in X; destruct X as [X ?]).
      vm_compute in X. discriminate X.
    - simpl. pose proof (hp_name c HP) as NM. fold st in NM. unfold safe_name in NM. rewrite BE in NM. cbn [job_name] in NM.
      destruct (st_name st) eqn:N0; try discriminate. rewrite forallb_forall in NM. intro X. apply NM in X.
      apply andb_true_iff in X. destruct X as [X _]. apply safe_char_plain in X. destruct X as [_ [X _]]. congruence.
    - apply in_app_or in I. destruct I as [I|I].
      + destruct (truthy (run_val st (s "nodes"))) eqn:T; [|destruct I]. destruct I as [I|[]]. inversion I; subst.
        pose proof flux_nodes_word as W. unfold flux_nodes in W. rewrite T in W. destruct W. auto.
      + destruct I as [I|I]. inversion I; subst. simpl. auto.
        unfold flux_bd in I. destruct I as [I|I].
        * inversion I; subst. pose proof (fp_version c FP) as V. fold b in V. norm_s.
          match goal with |- context [lookup ?kk (b_kw b)] => destruct (lookup kk (b_kw b)) as [x|] end.
          -- apply memb_false. apply negb_true_iff. auto.
          -- simpl. intros X. repeat (destruct X as [X|X]; [discriminate X|]). destruct X.
        * apply in_app_or in I. destruct I as [I|I].
          -- unfold flux_uri in I. pose proof (fp_uri c FP) as U. fold b in U. norm_s.
             match type of I with context [lookup ?kk (b_kw b)] => destruct (lookup kk (b_kw b)) as [x|] end; [|destruct I].
             destruct (truthy x); [|destruct I]. destruct I as [I|[]]. inversion I; subst.
             apply memb_false. apply negb_true_iff. auto.
          -- destruct I as [I|[]]. inversion I; subst.
             pose proof flux_nodes_word as W. unfold flux_nodes in W.
             unfold get_default in *. pose proof (fp_bnodes c FP) as BN. fold b in BN. norm_s.
             match goal with |- context [lookup ?kk (b_kw b)] => destruct (lookup kk (b_kw b)) as [x|] eqn:L end.
             ++ assert (SW : safe_word (render x)).
                { apply digits_word. apply (decl_count_word (b_kw b) RNodes). apply (bp_nodes _ _ BP).
                  unfold decl. change (key_name RNodes) with (s "nodes"). norm_s. rewrite L, BN. auto. }
                destruct SW. auto.
             ++ simpl. intros [X|[]]. discriminate X.
  Qed.

  Lemma flux_shebang_ok : ~ In nl (flux_shebang_line b) /\ comment_line (flux_shebang_line b) = true.
  Proof.
    split; [|reflexivity]. unfold flux_shebang_line. apply notin_app. simpl. intros [X|[X|[]]]; discriminate X.
    apply (shell_safe (c_be c)). auto.
  Qed.

  Lemma flux_lines_ok : forall l, In l (flux_lines b broker st w) -> ~ In nl l /\ comment_line l = true.
  Proof.
    intros l I. unfold flux_lines in I. destruct I as [I|I]. subst l. apply flux_shebang_ok.
    apply in_flat_map in I. destruct I as [e [IE IL]].
    unfold flux_entries, flux_header, flux_header_uri in IE.
    apply in_app_or in IE. destruct IE as [IE|IE].
    - simpl in IE. repeat (destruct IE as [IE|IE]; [subst e;
        apply (entry_lines_ok (flux_bh b broker st w) _ _ flux_bh_nlfree) in IL; auto; reflexivity|]). destruct IE.
    - destruct (flux_uri b); [|destruct IE]. simpl in IE. destruct IE as [IE|[]]. subst e.
      apply (entry_lines_ok (flux_bh b broker st w) _ _ flux_bh_nlfree) in IL; auto; reflexivity.
  Qed.

  Lemma flux_lines_shape : exists rest,
    flux_lines b broker st w =
    flux_shebang_line b :: (s "#INFO (nodes) " ++ render (flux_nodes b st)) :: (s "#INFO (walltime) " ++ w) :: rest.
  Proof.
    unfold flux_lines, flux_entries, flux_header. cbn [app flat_map].
    unfold lsf_entry at 1 2. cbn [fst snd]. norm_s.
    pose proof (flux_bh_nodes b broker st w) as LN. pose proof (flux_bh_walltime b broker st w) as LW.
    norm_s. rewrite LN, LW. unfold fmt. cbn [flat_map app render]. rewrite !app_nil_r.
    eexists. reflexivity.
  Qed.
End FluxHeader.

(** * the info lines, read back *)
Lemma flux_info_reads : forall sheb_rest nn w rest body,
  ~ In nl sheb_rest -> ~ In nl nn -> ~ In nl w ->
  let text := join [nl] ((s "#!" ++ sheb_rest) :: (s "#INFO (nodes) " ++ nn) :: (s "#INFO (walltime) " ++ w) :: rest)
              ++ nl :: nl :: body in
  read_flux_info text (s "nodes") = Some nn /\ read_flux_info text (s "walltime") = Some w.
Proof.
  intros sheb_rest nn w rest body N1 N2 N3 text. unfold text.
  assert (L : lines_of (join [nl] ((s "#!" ++ sheb_rest) :: (s "#INFO (nodes) " ++ nn) :: (s "#INFO (walltime) " ++ w) :: rest)
                        ++ nl :: nl :: body)
              = (s "#!" ++ sheb_rest) :: (s "#INFO (nodes) " ++ nn) :: (s "#INFO (walltime) " ++ w)
                :: (flat_map (split_on nl) rest ++ [] :: split_on nl body)).
  { rewrite lines_of_script by discriminate. cbn [flat_map].
    rewrite (split_on_notin nl (s "#!" ++ sheb_rest)).
    2:{ apply notin_app; auto. simpl. intros [X|[X|[]]]; discriminate X. }
    rewrite (split_on_notin nl (s "#INFO (nodes) " ++ nn)).
    2:{ apply notin_app; auto. apply memN_false. reflexivity. }
    rewrite (split_on_notin nl (s "#INFO (walltime) " ++ w)).
    2:{ apply notin_app; auto. apply memN_false. reflexivity. }
    reflexivity. }
  unfold read_flux_info. rewrite L. split.
  - change (s "#INFO (" ++ s "nodes" ++ s ") ") with (s "#INFO (nodes) ").
    cbn [filter]. change (prefixb (s "#INFO (nodes) ") (s "#!" ++ sheb_rest)) with false. cbv iota.
    rewrite prefixb_app. rewrite skipn_app, skipn_all, Nat.sub_diag. reflexivity.
  - change (s "#INFO (" ++ s "walltime" ++ s ") ") with (s "#INFO (walltime) ").
    cbn [filter]. change (prefixb (s "#INFO (walltime) ") (s "#!" ++ sheb_rest)) with false.
    change (prefixb (s "#INFO (walltime) ") (s "#INFO (nodes) " ++ nn)) with false. cbv iota.
    rewrite prefixb_app. rewrite skipn_app, skipn_all, Nat.sub_diag. reflexivity.
Qed.

(** * the Flux launcher invocation of a step *)
Lemma reads_as_flux : forall wp wn c g o,
  reads_as (opt_pair RTasks wp ++ [(RNodes, wn)] ++ opt_pair RCpusPerTask (Some c) ++ opt_pair RGpus g ++ opt_pair ROpts o)
           [(RTasks, wp); (RNodes, Some wn); (RCpusPerTask, Some c); (RGpus, g); (ROpts, o)] fluxrun_keys = true.
Proof.
  intros. unfold reads_as, fluxrun_keys. destruct wp, g, o; simpl; rewrite ?str_eqb_refl; reflexivity.
Qed.

Section FluxStep.
  Variable c : case.
  Hypothesis HP : H15_parts c.
  Hypothesis FP : flux_parts c.
  Hypothesis BP : batch_parts (c_be c) (c_batch c).
  Let st := c_step c.
  Let b := c_batch c.
  Let addl := addl_args st.
  Let bd := flux_bd b.
  Let nodes := run_val st (s "nodes").
  Let procs := run_val st (s "procs").
  Let par := par_flux bd (b_args b) addl.

  Definition ftext (pv nv : val) : str :=
    flux_text (tval pv) (render (flux_ntasks bd nv)) (flux_cpt addl) (tval (v_gpus c)) (flux_o (b_args b)).
  Definition tsub_flux (f : tokform) : str := ftext (snd (tok_vals f)) (fst (tok_vals f)).
  Definition bsub_flux : str := ftext procs nodes.

  Lemma par_flux_ftext : forall pv nv, par pv nv = Ok (ftext pv nv).
  Proof. intros. unfold par, ftext. rewrite par_flux_eq. reflexivity. Qed.

  Lemma bd_nodes_val : get_default bd (s "nodes") (VInt 1) = get_default (b_kw b) (s "nodes") (VStr (s "1")).
  Proof.
    unfold bd, flux_bd, get_default at 1. cbn [lookup]. change (str_eqb (s "nodes") (s "version")) with false. cbv iota.
    rewrite lookup_app. destruct (flux_uri b); cbn [lookup];
      change (str_eqb (s "nodes") (s "flux_uri")) with false;
      change (str_eqb (s "nodes") (s "nodes")) with true; reflexivity.
  Qed.

  (** the batch-level node count, or 1 *)
  Lemma bnodes_facts : let v := get_default (b_kw b) (s "nodes") (VStr (s "1")) in
    truthy v = true /\ safe_word (render v) /\ Some (render v) = or_default (declared (b_kw b) RNodes) (s "1").
  Proof.
    intros v. unfold v, get_default, declared. change (key_name RNodes) with (s "nodes").
    pose proof (fp_bnodes c FP) as BN. fold b in BN.
    destruct (lookup (s "nodes") (b_kw b)) as [x|] eqn:L.
    - rewrite BN. split; auto. split; auto. apply digits_word. apply (decl_count_word (b_kw b) RNodes).
      apply (bp_nodes _ _ BP). unfold decl. change (key_name RNodes) with (s "nodes"). rewrite L, BN. auto.
    - split. reflexivity. split. apply one_word. reflexivity.
  Qed.

  (** the node count flux run gets for a requested count [nv] *)
  Lemma ntasks_facts : forall nv wn, pv_ok nv wn ->
    exists raw w, render (flux_ntasks bd nv) = raw /\ printed raw w
      /\ Some w = or_default (match wn with Some n => Some n | None => declared (b_kw b) RNodes end) (s "1").
  Proof.
    intros nv wn PV. unfold flux_ntasks. rewrite bd_nodes_val.
    destruct bnodes_facts as [BT [BS BE]].
    destruct PV as [v TV | v raw w TV PR].
    - unfold tval in TV. destruct (truthy v) eqn:T; try discriminate. rewrite BT.
      exists (render (get_default (b_kw b) (s "nodes") (VStr (s "1")))), (render (get_default (b_kw b) (s "nodes") (VStr (s "1")))).
      split; auto. split. apply printed_word; auto. rewrite BE. destruct (declared (b_kw b) RNodes); reflexivity.
    - unfold tval in TV. destruct (truthy v) eqn:T; try discriminate. inversion TV. subst raw. rewrite T.
      exists (render v), w. split; auto.
  Qed.

  Lemma cpt_facts : exists cw, flux_cpt addl = Some cw /\ safe_word cw
    /\ Some cw = or_default (declared (st_res st) RCpusPerTask) (s "1").
  Proof.
    unfold flux_cpt, addl. rewrite lookup_addl by reflexivity. rewrite lookup_run_items by (split; reflexivity).
    change (mem_str (s "cores per task") step_run_default_keys) with true. cbv iota.
    unfold run_val, declared. change (key_name RCpusPerTask) with (s "cores per task").
    destruct (lookup (s "cores per task") (st_res st)) as [v|] eqn:L.
    - destruct (truthy v) eqn:T.
      + eexists. split. reflexivity. split; auto. apply (decl_safe_word (st_res st) RCpusPerTask).
        * pose proof (hp_vals c HP) as V. rewrite forallb_forall in V. apply V. simpl. tauto.
        * unfold decl. change (key_name RCpusPerTask) with (s "cores per task"). rewrite L, T. auto.
      + eexists. split. reflexivity. split. apply one_word. reflexivity.
    - eexists. split. reflexivity. split. apply one_word. reflexivity.
  Qed.

  Lemma ftext_read : forall pv nv wp wn, pv_ok pv wp -> pv_ok nv wn ->
    exists wnn cw,
      read_flux_run (ftext pv nv) =
        Some (opt_pair RTasks wp ++ [(RNodes, wnn)] ++ opt_pair RCpusPerTask (Some cw)
              ++ opt_pair RGpus (declared (st_res st) RGpus) ++ opt_pair ROpts (flux_opts b))
      /\ sub_ok (ftext pv nv) = true
      /\ Some wnn = or_default (match wn with Some n => Some n | None => declared (b_kw b) RNodes end) (s "1")
      /\ Some cw = or_default (declared (st_res st) RCpusPerTask) (s "1").
  Proof.
    intros pv nv wp wn Pp Pn.
    destruct (pv_ok_pair _ _ Pp) as [op [P1 [P2 P3]]].
    destruct (ntasks_facts nv wn Pn) as [nraw [nw [EN [PN WN]]]].
    destruct cpt_facts as [cw [EC [SC WC]]].
    destruct (gpus_facts c HP) as [EG SG]. fold st in EG.
    exists nw, cw.
    pose proof (read_flux_text op (nraw, nw) (opair (Some cw)) (opair (tval (v_gpus c))) (opair (flux_o (b_args b)))) as R.
    simpl fst in R. simpl snd in R. rewrite !opair_raw, !opair_ow in R.
    unfold ftext. rewrite <- P2, EN, EC. rewrite <- P3.
    assert (FO : flux_o (b_args b) = flux_opts b) by (unfold flux_o, flux_opts; destruct (b_args b); reflexivity).
    rewrite <- EG, <- FO.
    destruct R as [R1 R2]; auto.
    - apply opair_printed. intros x E. inversion E. subst. auto.
    - apply opair_printed. auto.
    - apply opair_printed. apply flux_o_word. apply (fp_args c FP).
  Qed.

  Lemma tsub_flux_ok : forall f, tok_wf f = true -> sub_ok (tsub_flux f) = true.
  Proof.
    intros f W. destruct (pv_tok f W) as [Pp Pn].
    destruct (ftext_read _ _ _ _ Pp Pn) as [wnn [cw [_ [S _]]]]. exact S.
  Qed.

  Lemma bare_pv : pv_ok procs (declared (st_res st) RTasks) /\ pv_ok nodes (declared (st_res st) RNodes).
  Proof.
    split.
    - apply (pv_count st RTasks). discriminate. apply (hp_procs c HP).
    - apply (pv_count st RNodes). discriminate. apply (hp_nodes c HP).
  Qed.
  Lemma bsub_flux_ok : sub_ok bsub_flux = true.
  Proof.
    destruct bare_pv as [Pp Pn]. destruct (ftext_read _ _ _ _ Pp Pn) as [wnn [cw [_ [S _]]]]. exact S.
  Qed.

  Lemma sched_cmd_flux :
    scheduler_command par st =
    if schedulable st then
      if alloc_rejected st (c_cmd c) then Err Diag
      else if alloc_rejected st (c_restart c) then Err Diag
      else Ok (true, segs_text (map (final_seg tsub_flux bsub_flux) (c_cmd c)),
               segs_text (map (final_seg tsub_flux bsub_flux) (c_restart c)))
    else Ok (false, st_cmd st, st_restart st).
  Proof.
    apply (sched_cmd_gen c HP par tsub_flux bsub_flux); auto using tsub_flux_ok.
    - intros f W. apply par_flux_ftext.
    - intros _ _. apply par_flux_ftext.
  Qed.

  Lemma launch_ok_final_flux : forall ps p, pieces_wf ps = true -> In p ps ->
    launch_good (launch_ok_flux b st) (final_seg tsub_flux bsub_flux) p.
  Proof.
    intros ps p W I. unfold launch_good. destruct p as [t| |f]; auto.
    - destruct bare_pv as [Pp Pn].
      destruct (ftext_read _ _ _ _ Pp Pn) as [wnn [cw [R [S [WN WC]]]]]. simpl seg_text. unfold bsub_flux. split.
      + unfold launch_ok_flux. rewrite R. unfold want_flux. rewrite <- WN, <- WC. apply reads_as_flux.
      + intro E. rewrite E in S. discriminate S.
    - pose proof (pieces_tok_wf st ps f W I) as TW. destruct (pv_tok f TW) as [Pp Pn].
      destruct (ftext_read _ _ _ _ Pp Pn) as [wnn [cw [R [S [WN WC]]]]]. simpl seg_text. unfold tsub_flux. split.
      + unfold launch_ok_flux. rewrite R. unfold want_flux. rewrite <- WN, <- WC. apply reads_as_flux.
      + intro E. rewrite E in S. discriminate S.
  Qed.
End FluxStep.

(** * the Flux script *)
Lemma script_ok_sched_flux : forall c sched_ok n text rs,
  schedulable (c_step c) = true -> c_be c = Flux -> rejected c = false ->
  sched_ok (c_cmd c) text = true ->
  match st_restart (c_step c), rs with
  | [], None => True
  | _ :: _, Some (_, rt) => sched_ok (c_restart c) rt = true
  | _, _ => False
  end ->
  script_ok c sched_ok {| sc_sched := true; sc_name := n; sc_text := text; sc_restart := rs |} = true.
Proof.
  intros c sched_ok n text rs SC BE RJ G1 G2. unfold script_ok. cbv zeta. rewrite SC, BE.
  cbn [negb orb backend_eqb Bool.eqb sc_sched sc_text sc_restart]. rewrite RJ, G1. cbn [negb andb].
  destruct (st_restart (c_step c)); destruct rs as [[rn rt]|]; try contradiction; auto.
Qed.

Section FluxScript.
  Variable c : case.
  Hypothesis HP : H15_parts c.
  Hypothesis FP : flux_parts c.
  Hypothesis BP : batch_parts (c_be c) (c_batch c).
  Hypothesis BE : c_be c = Flux.
  Let st := c_step c.
  Let b := c_batch c.
  Let broker := c_broker c.
  Variables (w : str) (x : N).
  Hypothesis Hw : flux_walltime (run_val st (s "walltime")) = Ok w.
  Hypothesis Wnl : ~ In nl w.
  Hypothesis Hx : flux_declared_seconds st = Some x.
  Hypothesis Wx : read_seconds w = Some x.
  Let lines := flux_lines b broker st w.
  Definition finf (ps : list piece) : str := segs_text (map (final_seg (tsub_flux c) (bsub_flux c)) ps).

  Lemma flux_lines_comments : forallb comment_line (flat_map (split_on nl) lines) = true.
  Proof. apply comment_lines_flat. apply (flux_lines_ok c HP FP BP BE w Wnl). Qed.

  Lemma flux_exec_shell : flux_exec b = shell_of (b_kw b).
  Proof. reflexivity. Qed.

  Lemma flux_header_reads : forall body,
    let text := join [nl] lines ++ nl :: nl :: body in
    opt_eqb (read_flux_info text (s "nodes")) (effective_flux_nodes b st) = true
    /\ flux_walltime_ok (flux_declared_seconds st) (read_flux_info text (s "walltime")) = true.
  Proof.
    intros body text. unfold text, lines.
    destruct (flux_lines_shape c w) as [rest E]. fold st b broker in E. rewrite E.
    destruct (flux_nodes_word c HP FP BP) as [_ _ NN _ _]. fold st b in NN.
    destruct (flux_info_reads (render (flux_exec b)) (render (flux_nodes b st)) w rest body) as [R1 R2]; auto.
    { rewrite flux_exec_shell. apply (shell_safe (c_be c)). auto. }
    split.
    - match goal with |- opt_eqb ?X _ = true =>
        replace X with (Some (render (flux_nodes b st))) by (symmetry; exact R1) end.
      unfold effective_flux_nodes, effective. simpl batch_level. cbv iota.
      destruct (total_run_val st RNodes ltac:(discriminate) (hp_nodes c HP)) as [_ [_ [TV _]]].
      change (key_name RNodes) with (s "nodes") in TV. rewrite <- TV. unfold flux_nodes, tval.
      destruct (truthy (run_val st (s "nodes"))).
      + apply opt_eqb_refl.
      + destruct (bnodes_facts c FP BP) as [_ [_ BE']]. fold b in BE'. rewrite BE'.
        destruct (declared (b_kw b) RNodes); apply opt_eqb_refl.
    - match goal with |- flux_walltime_ok _ ?X = true =>
        replace X with (Some w) by (symmetry; exact R2) end.
      unfold flux_walltime_ok. rewrite Hx, Wx. apply N.eqb_refl.
  Qed.

  Lemma finf_start : forall ps, pieces_wf ps = true -> starts_cmd ps = true ->
    exists c0 t, finf ps ++ [nl] = c0 :: t /\ cmd_start c0 = true.
  Proof.
    intros ps W S. destruct ps as [|p r]. discriminate S. unfold finf. rewrite map_cons, segs_text_cons.
    destruct p as [t0| |f]; simpl seg_text.
    - destruct t0 as [|c0 t0]. discriminate S. exists c0. eexists. split. rewrite <- !app_assoc. reflexivity. exact S.
    - unfold bsub_flux, ftext, flux_text. cbn [app]. rewrite join_cons by discriminate.
      exists 102. eexists. split. rewrite <- !app_assoc. reflexivity. reflexivity.
    - unfold tsub_flux, ftext, flux_text. cbn [app]. rewrite join_cons by discriminate.
      exists 102. eexists. split. rewrite <- !app_assoc. reflexivity. reflexivity.
  Qed.

  Lemma lines_nonnil_f : lines <> [].
  Proof. unfold lines, flux_lines. discriminate. Qed.

  Lemma flux_first_line : forall c0 t, first_line (join [nl] lines ++ nl :: nl :: c0 :: t) = shebang_of b.
  Proof.
    intros. rewrite (first_line_eq lines c0 t lines_nonnil_f flux_lines_comments (flux_shebang_line b) _ eq_refl).
    reflexivity. apply (flux_shebang_ok c BP).
  Qed.

  Lemma flux_script_good : forall ps, pieces_wf ps = true -> starts_cmd ps = true ->
    flux_script_ok c ps (join [nl] lines ++ nl :: nl :: finf ps ++ [nl]) = true.
  Proof.
    intros ps W S. destruct (finf_start ps W S) as [c0 [t [E CS]]]. rewrite E.
    pose proof flux_lines_comments as CLl. pose proof lines_nonnil_f as NE.
    assert (SB : script_body (join [nl] lines ++ nl :: nl :: c0 :: t) = c0 :: t)
      by (apply script_body_eq; auto).
    destruct (flux_header_reads (c0 :: t)) as [RN RW].
    unfold flux_script_ok. rewrite SB. fold st b. rewrite RN, RW.
    rewrite (proj2 (str_eqb_eq _ _) (flux_first_line c0 t)). cbn [andb].
    apply andb_true_iff. split.
    - apply negb_true_iff. rewrite <- E. unfold finf.
      change [nl] with (seg_text (SSub [nl])).
      replace (segs_text (map (final_seg (tsub_flux c) (bsub_flux c)) ps) ++ seg_text (SSub [nl]))
        with (segs_text (map (final_seg (tsub_flux c) (bsub_flux c)) ps ++ [SSub [nl]])).
      2:{ rewrite segs_text_app. reflexivity. }
      rewrite contains_var_segs.
      + rewrite existsb_app. rewrite final_no_var. reflexivity.
      + apply segs_ok_snoc; [|reflexivity].
        apply (final_seg_ok (par_flux (flux_bd b) (b_args b) (addl_args st)) (tsub_flux c)); auto.
        * intros f TW. apply (par_flux_ftext c).
        * intros f TW. apply (tsub_flux_ok c HP FP BP); auto.
        * apply (bsub_flux_ok c HP FP BP).
    - rewrite <- E. unfold finf. apply match_body_final.
      + reflexivity.
      + intros p I. apply (launch_ok_final_flux c HP FP BP ps); auto.
  Qed.

  (** a local step: the header is there, the command is verbatim *)
  Lemma flux_verbatim : forall ps, pieces_wf ps = true -> starts_cmd ps = true ->
    verbatim_ok c (pieces_text ps) (join [nl] lines ++ nl :: nl :: pieces_text ps ++ [nl]) = true.
  Proof.
    intros ps W S.
    assert (ST : exists c0 t, pieces_text ps ++ [nl] = c0 :: t /\ cmd_start c0 = true).
    { destruct ps as [|p r]. discriminate S. unfold pieces_text. simpl flat_map. destruct p as [t0| |f]; simpl piece_text.
      - destruct t0 as [|c0 t0]. discriminate S. exists c0. eexists. split. rewrite <- !app_assoc. reflexivity. exact S.
      - rewrite var_eq. exists dollar. eexists. split. rewrite <- !app_assoc. reflexivity. reflexivity.
      - rewrite tok_text_eq, var_eq. exists dollar. eexists. split. rewrite <- !app_assoc. reflexivity. reflexivity. }
    destruct ST as [c0 [t [E CS]]]. unfold verbatim_ok. rewrite !E. apply andb_true_iff. split; apply str_eqb_eq.
    - apply flux_first_line.
    - apply script_body_eq; auto. apply lines_nonnil_f. apply flux_lines_comments.
  Qed.
End FluxScript.

(** * the theorem *)
Lemma flux_body_eq : forall cmd, format flux_body (pos1 cmd) = Ok (nl :: nl :: cmd ++ [nl]).
Proof. intros. unfold flux_body, pos1. simpl. rewrite ?app_nil_r. reflexivity. Qed.
Lemma flux_local_header_eq : forall b, format flux_local_header [(s "0", flux_exec b)] = Ok (shebang_of b).
Proof. intros. unfold flux_local_header, shebang_of. simpl. rewrite ?app_nil_r. reflexivity. Qed.
Lemma flux_name_ok : forall tpl n, tpl = flux_script_name \/ tpl = flux_restart_name ->
  exists nm, format tpl (pos2 n flux_extension) = Ok nm.
Proof. intros tpl n [E|E]; subst; simpl; eexists; reflexivity. Qed.

Theorem flux_holds : forall c, H15 c = true -> c_be c = Flux -> C15_holds c (run_model c) = true.
Proof.
  intros c H BE.
  pose proof (H15_unpack c H) as HP. pose proof (batch_unpack _ _ (hp_batch c HP)) as BP.
  assert (FP : flux_parts c).
  { apply flux_unpack. pose proof (hp_flux c HP) as L. rewrite BE in L. simpl in L. exact L. }
  set (st := c_step c) in *. set (b := c_batch c) in *.
  destruct (fp_wall c FP) as [x Hx]. fold st in Hx.
  destruct (flux_wall_facts st x Hx (fp_wnone c FP)) as [w [Hw [Wnl Wx]]].
  unfold run_model. rewrite BE. fold st b. unfold write_flux.
  rewrite batch_flux_eq. cbn [bind].
  unfold st at 1 2. unfold b at 1 2. rewrite (sched_cmd_flux c HP FP BP). fold st b.
  unfold header_flux. rewrite (header_lines_flux_eq b (c_broker c) st w Hw).
  set (lines := flux_lines b (c_broker c) st w).
  destruct (schedulable st) eqn:SC.
  - destruct (alloc_rejected st (c_cmd c)) eqn:R1.
    { unfold C15_holds. rewrite BE. fold st. rewrite SC. unfold rejected. fold st. rewrite R1. reflexivity. }
    destruct (alloc_rejected st (c_restart c)) eqn:R2.
    { unfold C15_holds. rewrite BE. fold st. rewrite SC. unfold rejected. fold st. rewrite R2. rewrite orb_true_r. reflexivity. }
    assert (RJ : rejected c = false) by (unfold rejected; fold st; rewrite R1, R2; reflexivity).
    cbn [bind]. cbv beta iota.
    destruct (flux_name_ok flux_script_name (st_name st) (or_introl eq_refl)) as [nm1 N1]. rewrite N1. cbn [bind].
    rewrite flux_body_eq. cbn [bind].
    set (cmd' := segs_text (map (final_seg (tsub_flux c) (bsub_flux c)) (c_cmd c))).
    set (rst' := segs_text (map (final_seg (tsub_flux c) (bsub_flux c)) (c_restart c))).
    assert (G1 : flux_script_ok c (c_cmd c) (join [nl] lines ++ nl :: nl :: cmd' ++ [nl]) = true).
    { apply (flux_script_good c HP FP BP BE w x); auto. apply (hp_cmd_wf c HP). apply (hp_cmd_start c HP). }
    unfold restart_part.
    assert (CRd : c_restart c = [] \/ c_restart c <> []) by (destruct (c_restart c); [left|right]; congruence).
    destruct CRd as [CR|CR].
    + assert (RS : st_restart st = []).
      { pose proof (hp_restart c HP) as E. fold st in E. rewrite <- E, CR. reflexivity. }
      assert (Z : rst' = []) by (unfold rst'; rewrite CR; reflexivity). rewrite Z. cbn [bind].
      unfold C15_holds. rewrite BE. apply script_ok_sched_flux; auto. fold st. rewrite RS. exact I.
    + assert (SR : starts_cmd (c_restart c) = true).
      { pose proof (hp_restart_start c HP) as X. destruct (c_restart c); auto; congruence. }
      assert (G2 : flux_script_ok c (c_restart c) (join [nl] lines ++ nl :: nl :: rst' ++ [nl]) = true).
      { apply (flux_script_good c HP FP BP BE w x); auto. apply (hp_restart_wf c HP). }
      assert (NE : rst' <> []).
      { destruct (finf_start c (c_restart c)) as [c0 [t [E CS]]]; auto.
        { apply (hp_restart_wf c HP). }
        intro Z. unfold finf in E. fold rst' in E. rewrite Z in E. simpl in E.
        inversion E. subst c0. discriminate CS. }
      assert (RS : exists r0 r1, st_restart st = r0 :: r1).
      { pose proof (hp_restart c HP) as E. fold st in E. destruct (st_restart st) eqn:SRs; eauto.
        apply pieces_text_nil in E; auto. congruence. apply (hp_restart_wf c HP). }
      destruct RS as [r0 [r1 RS]].
      destruct rst' as [|y z] eqn:RR. congruence. rewrite <- RR in *.
      destruct (flux_name_ok flux_restart_name (st_name st) (or_intror eq_refl)) as [nm2 N2]. rewrite N2. cbn [bind].
      rewrite flux_body_eq. cbn [bind]. rewrite flux_local_header_eq. cbn [bind].
      unfold C15_holds. rewrite BE. apply script_ok_sched_flux; auto. fold st. rewrite RS. exact G2.
  - cbn [bind]. cbv beta iota.
    destruct (flux_name_ok flux_script_name (st_name st) (or_introl eq_refl)) as [nm1 N1]. rewrite N1. cbn [bind].
    rewrite flux_body_eq. cbn [bind].
    assert (G1 : verbatim_ok c (st_cmd st) (join [nl] lines ++ nl :: nl :: st_cmd st ++ [nl]) = true).
    { pose proof (hp_cmd c HP) as E. fold st in E. rewrite <- E. apply (flux_verbatim c HP FP BP BE w); auto.
      apply (hp_cmd_wf c HP). apply (hp_cmd_start c HP). }
    unfold restart_part.
    destruct (st_restart st) as [|r0 r1] eqn:RS.
    + cbn [bind]. unfold C15_holds. rewrite BE. apply script_ok_local; auto. fold st. rewrite RS. exact I.
    + rewrite <- RS.
      destruct (flux_name_ok flux_restart_name (st_name st) (or_intror eq_refl)) as [nm2 N2]. rewrite N2. cbn [bind].
      rewrite flux_body_eq. cbn [bind]. rewrite flux_local_header_eq. cbn [bind].
      assert (G2 : verbatim_ok c (st_restart st) (shebang_of b ++ nl :: nl :: st_restart st ++ [nl]) = true).
      { pose proof (hp_restart c HP) as E. fold st in E. rewrite <- E. apply verbatim_good; auto.
        apply (hp_restart_wf c HP).
        pose proof (hp_restart_start c HP) as X. destruct (c_restart c) eqn:CR; auto.
        unfold pieces_text in E. simpl in E. rewrite RS in E. discriminate. }
      unfold C15_holds. rewrite BE. apply script_ok_local; auto. fold st. rewrite RS. rewrite <- RS. exact G2.
Qed.

Lemma C15_ok_flux : forall c, c_be c = Flux -> C15_ok c (run_model c) = true.
Proof.
  intros c BE. unfold C15_ok. destruct (H15 c) eqn:H; auto. simpl. apply flux_holds; auto.
Qed.

Definition flux_header_reads_p (c : case) (text : str) : Prop :=
  first_line text = shebang_of (c_batch c) /\
  read_flux_info text (s "nodes") = effective_flux_nodes (c_batch c) (c_step c) /\
  flux_walltime_ok (flux_declared_seconds (c_step c)) (read_flux_info text (s "walltime")) = true.
Definition flux_launcher_reads (c : case) (ps : list piece) (text : str) : Prop :=
  containsb launcher_var (script_body text) = false /\
  match_body (launch_ok_flux (c_batch c) (c_step c)) (ps ++ [PText [nl]]) (script_body text) = true.

Lemma flux_script_ok_reads : forall c ps text, flux_script_ok c ps text = true ->
  flux_header_reads_p c text /\ flux_launcher_reads c ps text.
Proof.
  intros c ps text H. unfold flux_script_ok in H.
  repeat (apply andb_true_iff in H; destruct H as [H ?]).
  apply str_eqb_eq in H. apply negb_true_iff in H1. apply opt_eqb_eq in H3.
  split; [split; [auto|split; auto]|split; auto].
Qed.

Lemma C15_flux_sched_lemma : forall c, H15 c = true -> c_be c = Flux -> schedulable (c_step c) = true ->
  (rejected c = true /\ run_model c = OExc Diag) \/
  (rejected c = false /\ exists sc, run_model c = OScript sc /\ sc_sched sc = true
     /\ flux_header_reads_p c (sc_text sc) /\ flux_launcher_reads c (c_cmd c) (sc_text sc)
     /\ match st_restart (c_step c), sc_restart sc with
        | [], None => True
        | _ :: _, Some (_, rt) => flux_header_reads_p c rt /\ flux_launcher_reads c (c_restart c) rt
        | _, _ => False
        end).
Proof.
  intros c H BE SC.
  assert (Hh : C15_holds c (run_model c) = true) by (apply flux_holds; auto).
  destruct (run_model c) as [e|sc].
  - left. destruct e; simpl in Hh; try discriminate.
    repeat (apply andb_true_iff in Hh; destruct Hh as [Hh ?]). auto.
  - right. simpl in Hh. rewrite BE in Hh. unfold script_ok in Hh. cbv zeta in Hh.
    rewrite SC, BE in Hh. cbn [negb orb backend_eqb] in Hh.
    repeat (apply andb_true_iff in Hh; destruct Hh as [Hh ?]).
    apply andb_true_iff in H1. destruct H1 as [RJ SO].
    apply negb_true_iff in RJ. split; auto. exists sc.
    destruct (flux_script_ok_reads _ _ _ SO) as [A B].
    split; [auto|]. split; [destruct (sc_sched sc); simpl in *; congruence|]. split; [exact A|]. split; [exact B|].
    destruct (st_restart (c_step c)); destruct (sc_restart sc) as [[rn rt]|]; auto; try discriminate.
    apply flux_script_ok_reads. auto.
Qed.

Lemma C15_total_flux_lemma : forall c, H15 c = true -> c_be c = Flux -> run_model c <> OExc Internal.
Proof. intros c H BE X. pose proof (flux_holds c H BE) as Hh. rewrite X in Hh. discriminate Hh. Qed.

(** * all back-ends *)
Lemma C15_total_all : forall c, H15 c = true ->
  (schedulable (c_step c) = true ->
     K6_batch_gpus c = false /\ K6_lsf_header c = false /\ K6_lsf_nodes_only c = false) ->
  run_model c <> OExc Internal.
Proof.
  intros c H K. destruct (c_be c) eqn:BE.
  - apply C15_total_lemma; auto. left. split; auto. intros SC. apply K; auto.
  - apply C15_total_lsf_lemma; auto. intros SC. destruct (K SC) as [_ [A B]]. auto.
  - apply C15_total_flux_lemma; auto.
  - apply C15_total_lemma; auto.
Qed.

Lemma C15_ok_all : forall c,
  K6_batch_gpus c = false -> K6_lsf_header c = false -> K6_lsf_nodes_only c = false ->
  C15_ok c (run_model c) = true.
Proof.
  intros c A B C. destruct (c_be c) eqn:BE.
  - apply C15_ok_slurm; auto.
  - apply C15_ok_lsf; auto.
  - apply C15_ok_flux; auto.
  - apply C15_ok_local; auto.
Qed.

(** the model has no per-adapter state: the script is a function of the
    back-end, the batch block and the step *)
Lemma run_model_stateless : forall c c',
  c_be c = c_be c' -> c_batch c = c_batch c' -> c_broker c = c_broker c' -> c_step c = c_step c' ->
  run_model c = run_model c'.
Proof. intros c c' A B C D. unfold run_model. rewrite A, B, C, D. reflexivity. Qed.

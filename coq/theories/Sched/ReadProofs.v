(** C15 proofs, part 3: facts about the directive / command-line readers of
    [Sched.Readers] (words, option parsing, directive lines). *)
From Coq Require Import List Arith NArith ZArith Bool Lia.
From MWF Require Import Base.Str Gen.HeaderData Sched.Header Sched.Launcher Sched.Readers
  Sched.StrFacts.
Import ListNotations.
Local Open Scope N_scope.
Local Open Scope list_scope.

(** * words *)
Definition quote : N := 34.
Definition plain_char (c : N) : bool := negb (is_blank_char c) && negb (c =? quote).
Definition plain (w : str) : bool := forallb plain_char w.
Definition noquote (w : str) : bool := forallb (fun c => negb (c =? quote)) w.

Definition cur_app (cur : option str) (w : str) : option str :=
  match w with
  | [] => cur
  | _ => Some (match cur with Some x => x ++ w | None => w end)
  end.

Lemma push_cur_app : forall cur c w, cur_app (push cur c) w = cur_app cur (c :: w).
Proof.
  intros. destruct cur; destruct w; simpl; auto; rewrite <- app_assoc; auto.
Qed.

Lemma words_plain_step : forall w cur r, plain w = true ->
  words false cur (w ++ r) = words false (cur_app cur w) r.
Proof.
  induction w; intros cur r H. destruct cur; auto.
  simpl in H. apply andb_true_iff in H. destruct H as [H1 H2]. unfold plain_char in H1.
  apply andb_true_iff in H1. destruct H1 as [B Q]. apply negb_true_iff in B. apply negb_true_iff in Q.
  change ((a :: w) ++ r) with (a :: (w ++ r)).
  change (words false cur (a :: w ++ r)) with
    (if a =? 34 then words true (match cur with Some x => Some x | None => Some [] end) (w ++ r)
     else if is_blank_char a then
       match cur with Some x => x :: words false None (w ++ r) | None => words false None (w ++ r) end
     else words false (push cur a) (w ++ r)).
  unfold quote in Q. rewrite Q, B. rewrite IHw by auto. rewrite push_cur_app. auto.
Qed.

Lemma words_quoted_step : forall q cur r, noquote q = true ->
  words true cur (q ++ quote :: r) = words false (cur_app cur q) r.
Proof.
  induction q; intros cur r H.
  - simpl. destruct cur; auto.
  - simpl in H. apply andb_true_iff in H. destruct H as [Q H2]. apply negb_true_iff in Q.
    change ((a :: q) ++ quote :: r) with (a :: (q ++ quote :: r)).
    change (words true cur (a :: q ++ quote :: r)) with
      (if a =? 34 then words false cur (q ++ quote :: r) else words true (push cur a) (q ++ quote :: r)).
    unfold quote in Q. rewrite Q. rewrite IHq by auto. rewrite push_cur_app. auto.
Qed.

Lemma words_open_quote : forall cur r,
  words false cur (quote :: r) = words true (match cur with Some x => Some x | None => Some [] end) r.
Proof. reflexivity. Qed.

Lemma words_blank : forall cur r,
  words false cur (32 :: r) = match cur with Some x => x :: words false None r | None => words false None r end.
Proof. reflexivity. Qed.

Lemma words_end : forall cur, words false cur [] = match cur with Some x => [x] | None => [] end.
Proof. reflexivity. Qed.

Lemma words_of_plain : forall w, plain w = true -> w <> [] -> words_of w = [w].
Proof.
  intros. unfold words_of. rewrite <- (app_nil_r w) at 1. rewrite words_plain_step by auto.
  destruct w; try congruence. reflexivity.
Qed.

(** leading blanks disappear *)
Lemma words_blanks : forall k r, words false None (blanks k ++ r) = words false None r.
Proof. induction k; simpl; intros; auto. Qed.

(** blank-separated concatenation of quote-free texts *)
Lemma words_app_blank : forall a cur b, noquote a = true ->
  words false cur (a ++ 32 :: b) = words false cur a ++ words false None b.
Proof.
  induction a as [|c a IH]; intros cur b H.
  - destruct cur; reflexivity.
  - simpl in H. apply andb_true_iff in H. destruct H as [Q H2]. apply negb_true_iff in Q. unfold quote in Q.
    change ((c :: a) ++ 32 :: b) with (c :: (a ++ 32 :: b)).
    change (words false cur (c :: a ++ 32 :: b)) with
      (if c =? 34 then words true (match cur with Some x => Some x | None => Some [] end) (a ++ 32 :: b)
       else if is_blank_char c then
         match cur with Some x => x :: words false None (a ++ 32 :: b) | None => words false None (a ++ 32 :: b) end
       else words false (push cur c) (a ++ 32 :: b)).
    change (words false cur (c :: a)) with
      (if c =? 34 then words true (match cur with Some x => Some x | None => Some [] end) a
       else if is_blank_char c then
         match cur with Some x => x :: words false None a | None => words false None a end
       else words false (push cur c) a).
    rewrite Q. destruct (is_blank_char c).
    + destruct cur; rewrite IH by auto; auto.
    + apply IH; auto.
Qed.

Lemma words_join : forall ws, forallb noquote ws = true ->
  words_of (join [32] ws) = flat_map words_of ws.
Proof.
  induction ws as [|a ws]; intros H. reflexivity.
  simpl in H. apply andb_true_iff in H. destruct H as [H1 H2].
  destruct ws as [|b ws].
  - simpl. rewrite app_nil_r. auto.
  - rewrite join_cons by discriminate. simpl flat_map. unfold words_of at 1.
    change ([32] ++ join [32] (b :: ws)) with (32 :: join [32] (b :: ws)).
    rewrite words_app_blank by auto. f_equal. apply IHws. auto.
Qed.

Lemma plain_noquote : forall w, plain w = true -> noquote w = true.
Proof.
  intros w H. unfold plain, noquote in *. rewrite forallb_forall in *. intros c I.
  apply H in I. unfold plain_char in I. apply andb_true_iff in I. tauto.
Qed.

(** * option parsing *)
Lemma split_eq_plain : forall nm v, ~ In 61 nm -> split_eq (nm ++ 61 :: v) = (nm, Some v).
Proof.
  induction nm; intros v H.
  - reflexivity.
  - change ((a :: nm) ++ 61 :: v) with (a :: (nm ++ 61 :: v)).
    change (split_eq (a :: nm ++ 61 :: v)) with
      (if a =? 61 then ([], Some (nm ++ 61 :: v))
       else let (x, y) := split_eq (nm ++ 61 :: v) in (a :: x, y)).
    destruct (N.eqb_spec a 61). subst. simpl in H. tauto.
    rewrite IHnm. auto. simpl in H. tauto.
Qed.

Lemma split_eq_none : forall nm, ~ In 61 nm -> split_eq nm = (nm, None).
Proof.
  induction nm; intros H. reflexivity.
  change (split_eq (a :: nm)) with
    (if a =? 61 then ([], Some nm) else let (x, y) := split_eq nm in (a :: x, y)).
  destruct (N.eqb_spec a 61). subst. simpl in H. tauto.
  rewrite IHnm. auto. simpl in H. tauto.
Qed.

Lemma is_long_app : forall nm v, is_long nm = true -> is_long (nm ++ v) = true.
Proof.
  intros. unfold is_long in *. destruct (prefixb_true _ _ H) as [w E]. subst.
  rewrite <- app_assoc. apply prefixb_app.
Qed.

Lemma parse_opts_unfold : forall tbl w r,
  parse_opts tbl (w :: r) =
  let (nm, inl) := if is_long w then split_eq w else (w, None) in
  match lookup nm tbl with
  | Some (true, k) =>
    match inl with
    | Some v => (k, v) :: parse_opts tbl r
    | None => match r with
              | v :: r' => (k, v) :: parse_opts tbl r'
              | [] => []
              end
    end
  | Some (false, k) => (k, []) :: parse_opts tbl r
  | None =>
    match w with
    | 45 :: c :: v =>
      match (if c =? 45 then None else lookup [45; c] tbl), v with
      | Some (true, k), _ :: _ => (k, v) :: parse_opts tbl r
      | _, _ => parse_opts tbl r
      end
    | _ => parse_opts tbl r
    end
  end.
Proof. reflexivity. Qed.

(** "--name=value" *)
Lemma parse_long_eq : forall tbl nm k v r, is_long nm = true -> ~ In 61 nm ->
  lookup nm tbl = Some (true, k) ->
  parse_opts tbl ((nm ++ 61 :: v) :: r) = (k, v) :: parse_opts tbl r.
Proof.
  intros. rewrite parse_opts_unfold. rewrite is_long_app by auto. rewrite split_eq_plain by auto.
  cbv beta iota. rewrite H1. auto.
Qed.

(** "--name value" / "-x value" *)
Lemma parse_sep : forall tbl nm k v r, ~ In 61 nm -> lookup nm tbl = Some (true, k) ->
  parse_opts tbl (nm :: v :: r) = (k, v) :: parse_opts tbl r.
Proof.
  intros. rewrite parse_opts_unfold. destruct (is_long nm).
  - rewrite split_eq_none by auto. cbv beta iota. rewrite H0. auto.
  - cbv beta iota. rewrite H0. auto.
Qed.

(** "--flag" *)
Lemma parse_flag : forall tbl nm k r, ~ In 61 nm -> lookup nm tbl = Some (false, k) ->
  parse_opts tbl (nm :: r) = (k, []) :: parse_opts tbl r.
Proof.
  intros. rewrite parse_opts_unfold. destruct (is_long nm).
  - rewrite split_eq_none by auto. cbv beta iota. rewrite H0. auto.
  - cbv beta iota. rewrite H0. auto.
Qed.

Lemma all_opts_unfold : forall tbl w r,
  all_opts tbl (w :: r) =
  is_opt w &&
  let (nm, inl) := if is_long w then split_eq w else (w, None) in
  match lookup nm tbl, inl with
  | Some (true, _), None => match r with _ :: r' => all_opts tbl r' | [] => false end
  | _, _ => all_opts tbl r
  end.
Proof. reflexivity. Qed.

Lemma all_opts_sep : forall tbl nm k v r, is_opt nm = true -> ~ In 61 nm ->
  lookup nm tbl = Some (true, k) -> all_opts tbl (nm :: v :: r) = all_opts tbl r.
Proof.
  intros. rewrite all_opts_unfold. rewrite H. destruct (is_long nm).
  - rewrite split_eq_none by auto. rewrite H1. auto.
  - rewrite H1. auto.
Qed.

(** * rget / count_key over concatenations of optional pairs *)
Definition opt_pair (k : rkey) (o : option str) : list (rkey * str) :=
  match o with Some v => [(k, v)] | None => [] end.

Lemma rget_app : forall k l1 l2, rget k (l1 ++ l2) = match rget k l1 with Some v => Some v | None => rget k l2 end.
Proof.
  induction l1; simpl; intros. auto. destruct a as [k' v]. destruct (rkey_eqb k k'); auto.
Qed.
Lemma rget_opt_pair : forall k k' o, rget k (opt_pair k' o) = if rkey_eqb k k' then o else None.
Proof. intros. destruct o; simpl. destruct (rkey_eqb k k'); auto. destruct (rkey_eqb k k'); auto. Qed.
Lemma count_key_app : forall k l1 l2, count_key k (l1 ++ l2) = (count_key k l1 + count_key k l2)%nat.
Proof. intros. unfold count_key. rewrite filter_app, app_length. auto. Qed.
Lemma count_key_opt_pair : forall k k' o, (count_key k (opt_pair k' o) <= if rkey_eqb k k' then 1 else 0)%nat.
Proof. intros. destruct o; unfold count_key; simpl; destruct (rkey_eqb k k'); simpl; lia. Qed.
Lemma count_key_opt_pair_neq : forall k k' o, rkey_eqb k k' = false -> count_key k (opt_pair k' o) = 0%nat.
Proof. intros. destruct o; unfold count_key; simpl; rewrite ?H; auto. Qed.

(** * directive lines *)
Lemma directive_marker : forall marker rest, directive marker (marker ++ 32 :: rest) = Some rest.
Proof.
  intros. unfold directive. rewrite prefixb_app. rewrite skipn_app, skipn_all, Nat.sub_diag. reflexivity.
Qed.
Lemma directive_marker_only : forall marker, directive marker marker = Some [].
Proof.
  intros. unfold directive. rewrite prefixb_refl. rewrite skipn_all. reflexivity.
Qed.

(** the options one physical line contributes *)
Definition read_line (marker : str) (tbl : opttable) (l : str) : list (rkey * str) :=
  match directive marker l with Some d => parse_opts tbl (words_of d) | None => [] end.

Definition comment_line (l : str) : bool := is_comment l && negb (is_blank_line l).
Definition stop_line (l : str) : bool := negb (is_blank_line l) && negb (is_comment l).

Lemma directives_comments : forall marker tbl ls rest, forallb comment_line ls = true ->
  flat_map (parse_opts tbl) (directives marker (ls ++ rest)) =
  flat_map (read_line marker tbl) ls ++ flat_map (parse_opts tbl) (directives marker rest).
Proof.
  induction ls as [|l ls]; intros rest H. reflexivity.
  simpl in H. apply andb_true_iff in H. destruct H as [H1 H2]. unfold comment_line in H1.
  apply andb_true_iff in H1. destruct H1 as [C B]. apply negb_true_iff in B.
  change ((l :: ls) ++ rest) with (l :: (ls ++ rest)).
  change (directives marker (l :: ls ++ rest)) with
    (if is_blank_line l then directives marker (ls ++ rest)
     else if is_comment l then
       match directive marker l with
       | Some d => words_of d :: directives marker (ls ++ rest)
       | None => directives marker (ls ++ rest)
       end
     else []).
  rewrite B, C. simpl flat_map at 2. unfold read_line at 1.
  destruct (directive marker l); simpl; rewrite IHls by auto; auto. rewrite app_assoc. auto.
Qed.

Lemma directives_blank : forall marker l rest, is_blank_line l = true ->
  directives marker (l :: rest) = directives marker rest.
Proof. intros. simpl. rewrite H. auto. Qed.
Lemma directives_stop : forall marker l rest, stop_line l = true -> directives marker (l :: rest) = [].
Proof.
  intros. unfold stop_line in H. apply andb_true_iff in H. destruct H as [B C].
  apply negb_true_iff in B. apply negb_true_iff in C. simpl. rewrite B, C. auto.
Qed.

Lemma body_lines_comments : forall ls rest, forallb is_comment ls = true -> body_lines (ls ++ rest) = body_lines rest.
Proof.
  induction ls as [|l ls]; intros. auto. simpl in H. apply andb_true_iff in H. destruct H as [C H].
  simpl. rewrite C. rewrite orb_true_r. auto.
Qed.
Lemma body_lines_blank : forall l rest, is_blank_line l = true -> body_lines (l :: rest) = body_lines rest.
Proof. intros. simpl. rewrite H. auto. Qed.
Lemma body_lines_stop : forall l rest, stop_line l = true -> body_lines (l :: rest) = l :: rest.
Proof.
  intros. unfold stop_line in H. apply andb_true_iff in H. destruct H as [B C].
  apply negb_true_iff in B. apply negb_true_iff in C. simpl. rewrite B, C. auto.
Qed.

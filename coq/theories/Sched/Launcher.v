(** C15 model, part 2: the launcher-token scanner (equivalent to
    [launcher_regex] / [legacy_alloc] / [node_alloc] / [task_alloc] of
    schedulerscriptadapter.py; validated against Python's [re] by the
    correspondence run), the allocation checks of
    [_substitute_parallel_command], [get_scheduler_command], the
    [get_parallelize_command] of every back-end and the [_write_script]
    functions.  Executable, stdlib only, no proofs. *)
From Coq Require Import List Arith NArith ZArith Bool.
From MWF Require Import Base.Str Gen.HeaderData Sched.Header.
Import ListNotations.
Local Open Scope N_scope.
Local Open Scope list_scope.

(** * The scanner: [re.finditer(re.escape(launcher_var) + r"\[(?P<alloc>.*?)\]", cmd)] *)
Definition lbr : N := 91.
Definition rbr : N := 93.
Definition regex_suffix_modelled : str := s "\[(?P<alloc>.*?)\]".
Definition legacy_alloc_modelled : str := s "(?P<nodes>[0-9]+),\s*(?P<procs>[0-9]+)".
Definition task_alloc_modelled : str := s "(?P<procs>[0-9]+)p".
Definition node_alloc_modelled : str := s "(?P<nodes>[0-9]+)n".
(** the scanners below were written (and proved) against exactly these texts *)
Definition regex_text_matches : bool :=
  str_eqb launcher_regex_suffix regex_suffix_modelled
  && str_eqb legacy_alloc_text legacy_alloc_modelled
  && str_eqb task_alloc_text task_alloc_modelled
  && str_eqb node_alloc_text node_alloc_modelled.

(** [.*?\]] : the text up to the first "]", with no newline before it *)
Fixpoint find_close (t : str) : option str :=
  match t with
  | [] => None
  | c :: t' =>
    if c =? rbr then Some []
    else if c =? nl then None
    else option_map (cons c) (find_close t')
  end.
Definition tok_open : str := launcher_var ++ [lbr].
Definition tok_text (alloc : str) : str := tok_open ++ alloc ++ [rbr].
(** the [alloc] groups of all matches, left to right, non-overlapping *)
Fixpoint scan_tokens (skip : nat) (t : str) : list str :=
  match t with
  | [] => []
  | _ :: t' =>
    match skip with
    | S k => scan_tokens k t'
    | O =>
      if prefixb tok_open t then
        match find_close (skipn (List.length tok_open) t) with
        | Some a => a :: scan_tokens (List.length tok_open + List.length a) t'
        | None => scan_tokens 0 t'
        end
      else scan_tokens 0 t'
    end
  end.

Fixpoint span_digits (t : str) : str * str :=
  match t with
  | c :: t' => if is_digit c then let (d, r) := span_digits t' in (c :: d, r) else ([], t)
  | [] => ([], [])
  end.
(** [re.search(r"([0-9]+)x", t)]: the group of the leftmost match *)
Fixpoint search_count (x : N) (t : str) : option str :=
  match t with
  | [] => None
  | _ :: t' =>
    match span_digits t with
    | ((_ :: _) as d, y :: _) => if y =? x then Some d else search_count x t'
    | _ => search_count x t'
    end
  end.
(** [re.search(r"[0-9]+,\s*[0-9]+", t)] as a boolean *)
Fixpoint search_legacy (t : str) : bool :=
  match t with
  | [] => false
  | _ :: t' =>
    match span_digits t with
    | (_ :: _, 44 :: r) =>
      match lstrip r with e :: _ => is_digit e | [] => false end
    | _ => false
    end || search_legacy t'
  end.

Definition count_char (c : N) (t : str) : nat := List.length (filter (N.eqb c) t).
Definition opt_val (o : option str) : val := match o with Some t => VStr t | None => VNone end.

(** the allocation a token asks for: (nodes, procs) as the Python values
    handed on ([None] or the matched text) *)
Definition parse_alloc (a : str) : res (val * val) :=
  if search_legacy a then
    match split_on 44 a with
    | n :: p :: _ => Ok (VStr n, VStr p)
    | _ => Err Internal
    end
  else if (1 <? count_char 112 a)%nat || (1 <? count_char 110 a)%nat then Err Diag
  else if (count_char 112 a <? 1)%nat then Err Diag
  else Ok (opt_val (search_count 110 a), opt_val (search_count 112 a)).

(** [int(x or 0)] *)
Definition max_of (v : val) : res Z := if truthy v then int_of v else Ok 0%Z.
(** amount requested by one token for one resource, and whether it exceeds *)
Definition check_one (mx : Z) (v : val) : res (Z * bool) :=
  if truthy v then z <- int_of v ;; Ok (z, negb (mx =? 0)%Z && (mx <? z)%Z)
  else Ok (0%Z, false).

Section Subst.
  (** [get_parallelize_command(procs, nodes, **addl_args)] *)
  Variable par : val -> val -> res str.

  Fixpoint subst_loop (mn mp : Z) (toks : list str) (tn tp : Z) (cmd : str) : res (Z * Z * str) :=
    match toks with
    | [] => Ok (tn, tp, cmd)
    | a :: r =>
      np <- parse_alloc a ;;
      cn <- check_one mn (fst np) ;;
      cp <- check_one mp (snd np) ;;
      if snd cn || snd cp then Err Diag
      else
        pc <- par (snd np) (fst np) ;;
        subst_loop mn mp r (tn + fst cn)%Z (tp + fst cp)%Z (replace (tok_text a) pc cmd)
    end.

  Definition replace_bare (nodes procs : val) (cmd : str) : res str :=
    pc <- par procs nodes ;; Ok (replace launcher_var pc cmd).

  (** _substitute_parallel_command *)
  Definition substitute (nodes procs : val) (cmd : str) : res str :=
    match scan_tokens 0 cmd with
    | [] =>
      if containsb launcher_var cmd then replace_bare nodes procs cmd else Ok cmd
    | toks =>
      mn <- max_of nodes ;;
      mp <- max_of procs ;;
      r <- subst_loop mn mp toks 0%Z 0%Z cmd ;;
      let '(tn, tp, cmd') := r in
      if negb (mp =? 0)%Z && (mp <? tp)%Z then Err Diag
      else if negb (mn =? 0)%Z && (mn <? tn)%Z then Err Diag
      else if containsb launcher_var cmd' then replace_bare nodes procs cmd' else Ok cmd'
    end.

  (** get_scheduler_command: (to_be_scheduled, cmd, restart) *)
  Definition scheduler_command (st : step) : res (bool * str * str) :=
    let nodes := match run_get st (s "nodes") with Some v => v | None => VInt 0 end in
    let procs := match run_get st (s "procs") with Some v => v | None => VInt 0 end in
    if truthy nodes || truthy procs then
      cmd <- substitute nodes procs (st_cmd st) ;;
      restart <- (match st_restart st with
                  | [] => Ok []
                  | r => substitute nodes procs r
                  end) ;;
      Ok (true, cmd, restart)
    else Ok (false, st_cmd st, st_restart st).
End Subst.

(** the keyword arguments [_substitute_parallel_command] hands on: the run
    dictionary without nodes and procs *)
Definition addl_args (st : step) : dict :=
  filter (fun kv => negb (str_eqb (fst kv) (s "nodes")) && negb (str_eqb (fst kv) (s "procs")))
         (run_items st).

Definition flag (fl : list (str * str)) (k : str) : res str :=
  match lookup k fl with Some f => Ok f | None => Err Internal end.

(** * Slurm: get_parallelize_command *)
Definition par_slurm (addl : dict) (procs nodes : val) : res str :=
  c <- flag slurm_cmd_flags (s "cmd") ;;
  a1 <- (if truthy procs then f <- flag slurm_cmd_flags (s "ntasks") ;; Ok [f; render procs] else Ok []) ;;
  a2 <- (if truthy nodes then f <- flag slurm_cmd_flags (s "nodes") ;; Ok [f; render nodes] else Ok []) ;;
  let extra := flat_map (fun kv : str * val =>
                           let (k, v) := kv in
                           if mem_str k slurm_unsupported then []
                           else match lookup k slurm_cmd_flags with
                                | Some f => if truthy v then [f; render v] else []
                                | None => []
                                end) addl in
  Ok (join (s " ") (c :: a1 ++ a2 ++ extra)).

(** * LSF: get_parallelize_command (jsrun) *)
Definition get_default (d : dict) (k : str) (dflt : val) : val :=
  match lookup k d with Some v => v | None => dflt end.
Definition par_lsf (addl : dict) (procs nodes : val) : res str :=
  c <- flag lsf_cmd_flags (s "cmd") ;;
  let rs_per_node := get_default addl (s "rs per node") (VInt 1) in
  let tasks_per_rs := get_default addl (s "tasks per rs") (VInt 1) in
  (* the two resource-specification checks only log, but their int()
     conversions and the modulo can raise *)
  _ <- (if truthy nodes then
          p <- int_of procs ;; r <- int_of rs_per_node ;; n <- int_of nodes ;; t <- int_of tasks_per_rs ;;
          Ok tt
        else Ok tt) ;;
  _ <- (if truthy nodes then
          r <- int_of rs_per_node ;; n <- int_of nodes ;; t <- int_of tasks_per_rs ;;
          p <- int_of procs ;; Ok tt
        else
          r <- int_of rs_per_node ;; t <- int_of tasks_per_rs ;;
          p <- int_of procs ;; Ok tt) ;;
  f_nt <- flag lsf_cmd_flags (s "ntasks") ;;
  f_b <- flag lsf_cmd_flags (s "bind") ;;
  let bind := get_default addl (s "bind") (VStr (s "rs")) in
  let gpus := get_default addl (s "gpus") (VInt 0) in
  g <- (if truthy gpus then f <- flag lsf_cmd_flags (s "gpus") ;; Ok [f; render gpus] else Ok []) ;;
  let bind_gpus := get_default addl (s "bind gpus") VNone in
  bg <- (if truthy bind_gpus then f <- flag lsf_cmd_flags (s "bind gpus") ;; Ok [f; render bind_gpus] else Ok []) ;;
  let cpus0 := get_default addl (s "cpus per rs") (VInt 1) in
  let cpus := if truthy cpus0 then cpus0 else VInt 1 in
  f_a <- flag lsf_cmd_flags (s "tasks per rs") ;;
  f_r <- flag lsf_cmd_flags (s "rs per node") ;;
  f_c <- flag lsf_cmd_flags (s "cpus per rs") ;;
  Ok (join (s " ") ([c; f_nt; render procs; f_b; render bind] ++ g ++ bg
                    ++ [f_a; render tasks_per_rs; f_r; render rs_per_node; f_c; render cpus])).

(** * Flux: FluxScriptAdapter.get_parallelize_command + flux0_49_0.parallelize *)
Definition nth_str (n : nat) (l : list str) : res str :=
  match nth_error l n with Some x => Ok x | None => Err Internal end.
Definition par_flux (bd : dict) (fargs : list (str * str)) (addl : dict) (procs nodes : val) : res str :=
  let ntasks0 := if truthy nodes then nodes else get_default bd (s "nodes") (VInt 1) in
  let ntasks := if truthy ntasks0 then ntasks0 else VInt 1 in
  fn <- nth_str 0 flux_par_flags ;;
  fN <- nth_str 1 flux_par_flags ;;
  fc <- nth_str 2 flux_par_flags ;;
  fg <- nth_str 3 flux_par_flags ;;
  fo <- nth_str 4 flux_par_flags ;;
  let pn := if truthy procs then [fn; render procs] else [] in
  let cpt := match lookup (s "cores per task") addl with
             | Some v => [fc; render (if truthy v then v else VInt 1)]
             | None => []
             end in
  let gpus := get_default addl (s "gpus") (VInt 0) in
  let g := if truthy gpus then [fg; render gpus] else [] in
  let o := match fargs with
           | [] => []
           | _ => [fo; join (s ",") (map (fun kv : str * str => fst kv ++ s "=" ++ snd kv) fargs)]
           end in
  Ok (join (s " ") (flux_par_lead ++ pn ++ [fN; render ntasks] ++ cpt ++ g ++ o)).

(** * The scripts *)
Record script := { sc_sched : bool; sc_name : str; sc_text : str;
                   sc_restart : option (str * str) }.

Definition restart_part (restart : str) (name text : res str) : res (option (str * str)) :=
  match restart with
  | [] => Ok None
  | _ => n <- name ;; t <- text ;; Ok (Some (n, t))
  end.

(** SlurmScriptAdapter._write_script *)
Definition write_slurm (b : batch) (st : step) : res script :=
  _ <- batch_slurm b ;;                                    (* the constructor *)
  r <- scheduler_command (par_slurm (addl_args st)) st ;;
  let '(sched, cmd, restart) := r in
  name <- format slurm_script_name (pos1 (st_name st)) ;;
  header <- (if sched then header_slurm b st else format slurm_local_header [(s "0", slurm_exec b)]) ;;
  text <- format slurm_form_cmd (pos2 header cmd) ;;
  rs <- restart_part restart (format slurm_restart_name (pos1 (st_name st)))
                     (format slurm_form_cmd (pos2 header restart)) ;;
  Ok {| sc_sched := sched; sc_name := name; sc_text := text; sc_restart := rs |}.

(** LSFScriptAdapter._write_script *)
Definition write_lsf (b : batch) (st : step) : res script :=
  _ <- batch_lsf b ;;
  r <- scheduler_command (par_lsf (addl_args st)) st ;;
  let '(sched, cmd, restart) := r in
  name <- format lsf_script_name (pos2 (st_name st) lsf_extension) ;;
  header <- (if sched then header_lsf b st else format lsf_local_header [(s "0", lsf_exec b)]) ;;
  body <- format lsf_body (pos1 cmd) ;;
  rs <- restart_part restart (format lsf_restart_name (pos2 (st_name st) lsf_extension))
                     (rb <- format lsf_body (pos1 restart) ;; Ok (header ++ rb)) ;;
  Ok {| sc_sched := sched; sc_name := name; sc_text := header ++ body; sc_restart := rs |}.

(** FluxScriptAdapter._write_script: the (informational) header is written
    even for a local step; a local step's restart script has the shebang only *)
Definition write_flux (b : batch) (broker : str) (st : step) : res script :=
  bd <- batch_flux b ;;
  r <- scheduler_command (par_flux bd (b_args b) (addl_args st)) st ;;
  let '(sched, cmd, restart) := r in
  name <- format flux_script_name (pos2 (st_name st) flux_extension) ;;
  header <- header_flux b broker st ;;
  body <- format flux_body (pos1 cmd) ;;
  rs <- restart_part restart (format flux_restart_name (pos2 (st_name st) flux_extension))
                     (rb <- format flux_body (pos1 restart) ;;
                      lh <- format flux_local_header [(s "0", flux_exec b)] ;;
                      Ok ((if sched then header else lh) ++ rb)) ;;
  Ok {| sc_sched := sched; sc_name := name; sc_text := header ++ body; sc_restart := rs |}.

(** LocalScriptAdapter._write_script *)
Definition write_local (b : batch) (st : step) : res script :=
  let ex := render (shell_of (b_kw b)) in
  name <- format local_script_name (pos1 (st_name st)) ;;
  text <- format local_script (pos2 ex (st_cmd st)) ;;
  rs <- restart_part (st_restart st) (format local_restart_name (pos1 (st_name st)))
                     (format local_script (pos2 ex (st_restart st))) ;;
  Ok {| sc_sched := false; sc_name := name; sc_text := text; sc_restart := rs |}.

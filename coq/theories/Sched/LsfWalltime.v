(** C15 proofs, LSF part 1: decimal printing / parsing round trip and the
    "HH:MM:SS" -> "HH:MM" conversion of [lsf_walltime] against the
    specification [hms_minutes] / [hm_minutes]. *)
From Coq Require Import List Arith NArith ZArith Bool Lia DecimalPos DecimalN.
From MWF Require Import Base.Str Gen.HeaderData Sched.Header Sched.Launcher Sched.Readers
  Sched.StrFacts Sched.LauncherProofs Sched.SlurmLaunch.
Import ListNotations.
Local Open Scope N_scope.
Local Open Scope list_scope.

(** * value of a decimal numeral, with an accumulator *)
Fixpoint uval (acc : N) (d : Decimal.uint) : N :=
  match d with
  | Decimal.Nil => acc
  | Decimal.D0 l => uval (acc * 10 + 0) l | Decimal.D1 l => uval (acc * 10 + 1) l
  | Decimal.D2 l => uval (acc * 10 + 2) l | Decimal.D3 l => uval (acc * 10 + 3) l
  | Decimal.D4 l => uval (acc * 10 + 4) l | Decimal.D5 l => uval (acc * 10 + 5) l
  | Decimal.D6 l => uval (acc * 10 + 6) l | Decimal.D7 l => uval (acc * 10 + 7) l
  | Decimal.D8 l => uval (acc * 10 + 8) l | Decimal.D9 l => uval (acc * 10 + 9) l
  end.

Lemma dval_uint_str : forall d acc, dval acc (uint_str d) = uval acc d.
Proof. induction d; intros; simpl; auto. Qed.

Lemma uval_acc_pos : forall d p, uval (N.pos p) d = N.pos (Pos.of_uint_acc d p).
Proof.
  induction d; intros; cbn [uval Pos.of_uint_acc]; auto; rewrite <- IHd; f_equal; lia.
Qed.

Lemma uval_of_uint : forall d, uval 0 d = Pos.of_uint d.
Proof.
  induction d; simpl; auto; try (rewrite uval_acc_pos; reflexivity).
Qed.

Lemma N_dec_roundtrip : forall n, dval 0 (N_dec n) = n.
Proof.
  intros. unfold N_dec. rewrite dval_uint_str. rewrite uval_of_uint.
  destruct n. reflexivity. simpl. apply DecimalPos.Unsigned.of_to.
Qed.

Lemma N_dec_all_digits : forall n, all_digits (N_dec n) = true.
Proof.
  intros. destruct n. reflexivity. apply N_dec_digits. discriminate.
Qed.

Lemma py_nat_N_dec : forall n, py_nat (N_dec n) = Some n.
Proof. intros. rewrite py_nat_digits by apply N_dec_all_digits. rewrite N_dec_roundtrip. auto. Qed.

(** * two-digit padding *)
Lemma pad2_nat : forall n, exists t, pad2 (Z.of_N n) = t /\ all_digits t = true /\ dval 0 t = n.
Proof.
  intros n. unfold pad2. destruct (Z.ltb_spec (Z.of_N n) 0). lia.
  assert (ZD : Z_dec (Z.of_N n) = N_dec n).
  { unfold Z_dec. destruct n; simpl; auto. }
  rewrite ZD. destruct (Z.ltb_spec (Z.of_N n) 10).
  - exists (48 :: N_dec n). split; auto. split.
    + simpl. apply all_digits_forall. apply N_dec_all_digits.
    + simpl. apply N_dec_roundtrip.
  - exists (N_dec n). split; auto. split. apply N_dec_all_digits. apply N_dec_roundtrip.
Qed.

(** * the conversion *)
Lemma py_int_digits_N : forall t, all_digits t = true -> py_int t = Some (Z.of_N (dval 0 t)).
Proof. exact py_int_digits. Qed.

Lemma split_two : forall a b, ~ In 58 a -> ~ In 58 b -> split_on 58 (a ++ 58 :: b) = [a; b].
Proof. intros. rewrite split_on_app. rewrite !split_on_notin by auto. reflexivity. Qed.

Lemma digits_nocolon : forall t, all_digits t = true -> ~ In 58 t.
Proof.
  intros t H I. apply all_digits_forall in H. rewrite forallb_forall in H. apply H in I. discriminate I.
Qed.

Lemma lsf_walltime_hms : forall w h m sec, split_on 58 w = [h; m; sec] ->
  all_digits h = true -> all_digits m = true -> all_digits sec = true ->
  exists r, lsf_walltime w = Ok r /\ hm_minutes r = hms_minutes w
            /\ (exists a b, r = a ++ 58 :: b /\ all_digits a = true /\ all_digits b = true).
Proof.
  intros w h m sec S Dh Dm Ds. unfold lsf_walltime, hms_minutes. rewrite S.
  rewrite !py_int_digits by auto. rewrite !py_nat_digits by auto.
  set (zh := dval 0 h). set (zm := dval 0 m). set (zs := dval 0 sec).
  set (total := (Z.of_N zm + ceil_div (Z.of_N zs) 60)%Z).
  set (hours := (Z.of_N zh + Z.quot total 60)%Z).
  assert (CD : ceil_div (Z.of_N zs) 60 = Z.of_N ((zs + 59) / 60)).
  { unfold ceil_div. rewrite N2Z.inj_div, N2Z.inj_add. change (Z.of_N 59) with 59%Z. change (Z.of_N 60) with 60%Z.
    pose proof (N2Z.is_nonneg zs). Z.div_mod_to_equations. lia. }
  assert (TN : total = Z.of_N (zm + (zs + 59) / 60)) by (unfold total; rewrite CD; lia).
  assert (QN : Z.quot total 60 = Z.of_N ((zm + (zs + 59) / 60) / 60)).
  { rewrite TN. rewrite Z.quot_div_nonneg; [|apply N2Z.is_nonneg|reflexivity]. rewrite N2Z.inj_div. reflexivity. }
  assert (HN : hours = Z.of_N (zh + (zm + (zs + 59) / 60) / 60)) by (unfold hours; rewrite QN; lia).
  assert (MN : Z.modulo total 60 = Z.of_N ((zm + (zs + 59) / 60) mod 60)).
  { rewrite TN. rewrite N2Z.inj_mod. reflexivity. }
  rewrite HN, MN.
  destruct (pad2_nat (zh + (zm + (zs + 59) / 60) / 60)) as [a [Pa [Da Va]]].
  destruct (pad2_nat ((zm + (zs + 59) / 60) mod 60)) as [b [Pb [Db Vb]]].
  rewrite Pa, Pb. exists (a ++ [58] ++ b). split; auto. split.
  - unfold hm_minutes. simpl app. rewrite split_two by (auto using digits_nocolon).
    rewrite !py_nat_digits by auto. rewrite Va, Vb. f_equal.
    pose proof (N.div_mod (zm + (zs + 59) / 60) 60 ltac:(lia)). lia.
  - exists a, b. auto.
Qed.

Lemma lsf_walltime_other : forall w, is_hms w = false -> lsf_walltime w = Ok w.
Proof.
  intros w H. unfold lsf_walltime, is_hms in *.
  destruct (split_on 58 w) as [|a [|b [|c [|d r]]]]; auto. discriminate.
Qed.

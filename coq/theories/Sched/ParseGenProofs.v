(** Tie between the hand-written model of the adapters' query path
    (Sched/Parse.v), which every theorem of Props/C16.v is about, and the text
    GENERATED from the current source of slurmscriptadapter.py /
    lsfscriptadapter.py (Sched/ParseGen.v, by translate/tcode_sched.py): each
    generated function is EQUAL to the model's.  The theorems of Props/C16.v
    therefore hold of the functions regenerated from the source, and an edit of
    the adapters that changes what _state / _check_jobs_squeue /
    _check_jobs_sacct / check_jobs do changes ParseGen.v and breaks one of
    these obligations.

    The proofs never restate the generated text: loop bodies are picked out of
    the goal, so only the meaning of the text matters. *)
From Coq Require Import List Arith NArith ZArith Bool Lia.
From MWF Require Import Base.Str Gen.SchedTables Sched.Manuals Sched.Parse Sched.ParseProofs
     Sched.ParseDict Sched.ParseOps Sched.ParseGen.
Import ListNotations.

(* ------------------------------------------------------------------------ *)
(** * _state: the if / elif chains are the decision lists of T-data *)

Ltac chain c :=
  repeat (match goal with |- context [str_eqb c ?k] => destruct (str_eqb c k) end;
          cbn [orb]; try reflexivity).

Theorem slurm_state_is_generated : forall c, slurm_state_gen c = slurm_state c.
Proof.
  intro c. unfold slurm_state_gen, slurm_state, slurm_table, slurm_default, str_in.
  cbn [lookup_state existsb]. chain c.
Qed.

Theorem lsf_state_is_generated : forall c, lsf_state_gen c = lsf_state c.
Proof.
  intro c. unfold lsf_state_gen, lsf_state, lsf_table, lsf_default, str_in.
  cbn [lookup_state existsb]. chain c.
Qed.

(* ------------------------------------------------------------------------ *)
(** * loops *)

Lemma for_each_fold_rows : forall {R} (f : status -> str -> option status)
    (body : str -> dict -> ctl dict) (k : dict -> option R),
  (forall a st, body a st = match f st a with Some st' => Next st' | None => Fail end) ->
  forall l st, for_each l body st k = match fold_rows f st l with Some st' => k st' | None => None end.
Proof.
  intros R f body k H. induction l as [|a l IH]; intro st; simpl; [reflexivity|].
  rewrite H. destruct (f st a); [apply IH | reflexivity].
Qed.

Lemma set_key_all_none : forall k st, all_none st = true -> set_key k None st = st.
Proof.
  intros k st H. unfold set_key. rewrite <- (map_id st) at 2. apply map_ext_in.
  intros [a v] Hin. simpl. destruct (str_eqb a k); [|reflexivity].
  apply (proj1 (all_none_spec st) H) in Hin. subst. reflexivity.
Qed.

(** [status = {}; for jobid in joblist: status[jobid] = None] *)
Lemma for_each_init : forall {R} jl st (k : dict -> option R),
  all_none st = true ->
  for_each jl (fun jobid status_ => Next (dict_set jobid None status_)) st k = k (init_status_from st jl).
Proof.
  intros R. induction jl as [|j r IH]; intros st k H; [reflexivity|].
  cbn [for_each init_status_from].
  assert (E : dict_set j None st = if has_key j st then st else st ++ [(j, None)]).
  { unfold dict_set. destruct (has_key j st); [apply set_key_all_none; exact H | reflexivity]. }
  rewrite E. apply IH. destruct (has_key j st); [exact H | rewrite all_none_app, H; reflexivity].
Qed.

Lemma nth0 : forall {A} (x : A) l, nth_error (x :: l) 0 = Some x.
Proof. reflexivity. Qed.
Lemma nthS : forall {A} (x : A) l n, nth_error (x :: l) (S n) = nth_error l n.
Proof. reflexivity. Qed.

Lemma str_eqb_nil : forall f, str_eqb f (s "") = is_nil f.
Proof. intros [|c f]; reflexivity. Qed.

Lemma str_eqb_nil' : forall f, str_eqb f [] = is_nil f.
Proof. intros [|c f]; reflexivity. Qed.

(* ------------------------------------------------------------------------ *)
(** * return-code chains (the data side: T-data's maps) *)

Lemma sq_rc_cases : forall rc,
  rc_lookup sq_rc_map sq_rc_default rc =
  if Z.eqb rc 0 then (true, JS_OK) else if Z.eqb rc 1 then (false, JS_NOJOBS)
  else if Z.eqb rc 127 then (false, JS_ERROR) else (false, JS_ERROR).
Proof.
  intro rc. unfold rc_lookup, sq_rc_map, sq_rc_default. cbn [find fst snd].
  rewrite !(Z.eqb_sym _ rc).
  destruct (Z.eqb rc 0); [reflexivity|]. destruct (Z.eqb rc 1); [reflexivity|].
  destruct (Z.eqb rc 127); reflexivity.
Qed.

Lemma sa_rc_cases : forall rc,
  rc_lookup sa_rc_map sa_rc_default rc =
  if Z.eqb rc 0 then (true, JS_OK) else if Z.eqb rc 1 then (false, JS_NOJOBS)
  else if Z.eqb rc 127 then (false, JS_ERROR) else (false, JS_ERROR).
Proof.
  intro rc. unfold rc_lookup, sa_rc_map, sa_rc_default. cbn [find fst snd].
  rewrite !(Z.eqb_sym _ rc).
  destruct (Z.eqb rc 0); [reflexivity|]. destruct (Z.eqb rc 1); [reflexivity|].
  destruct (Z.eqb rc 127); reflexivity.
Qed.

Lemma bj_rc_cases : forall rc,
  rc_lookup bj_rc_map bj_rc_default rc =
  if Z.eqb rc 0 then (true, JS_OK) else if Z.eqb rc 255 then (false, JS_NOJOBS) else (false, JS_ERROR).
Proof.
  intro rc. unfold rc_lookup, bj_rc_map, bj_rc_default. cbn [find fst snd].
  rewrite !(Z.eqb_sym _ rc).
  destruct (Z.eqb rc 0); [reflexivity|]. destruct (Z.eqb rc 255); reflexivity.
Qed.

(* ------------------------------------------------------------------------ *)
(** * Slurm: one row, the two queries, check_jobs *)

(** the generated loop bodies, whatever their text, against [slurm_row] *)
Ltac row_cases st :=
  repeat (match goal with
          | |- context [has_key ?i st] => destruct (has_key i st) eqn:?
          | |- context [nth_error ?l ?n] => destruct (nth_error l n) eqn:?
          | |- context [is_nil ?f] => destruct (is_nil f) eqn:?
          end; cbn [nth_error skipn list_is_empty drop_blank_head]; try reflexivity; try congruence).

Theorem squeue_is_generated : forall out rc jl st,
  slurm_check_jobs_squeue_gen out rc jl st = squeue_query st out rc.
Proof.
  intros out rc jl st. unfold slurm_check_jobs_squeue_gen, squeue_query, run_query.
  rewrite sq_rc_cases. cbv zeta.
  destruct (Z.eqb rc 0); [|destruct (Z.eqb rc 1); [reflexivity|]; destruct (Z.eqb rc 127); reflexivity].
  cbn [fst snd]. unfold list_from, str_split.
  change sq_data_row_offset with 1. change sq_row_sep with 10%N.
  rewrite (for_each_fold_rows (slurm_row sq_drop_blank_head sq_jobid_index sq_state_index)).
  - destruct (fold_rows _ _ _); reflexivity.
  - intros job st'. unfold slurm_row, re_split_ws, get_item, dict_has, list_from, dict_set.
    change sq_drop_blank_head with true. change sq_jobid_index with 0. change sq_state_index with 3.
    cbv iota.
    destruct (resplit job) as [|f r] eqn:E; [exfalso; exact (resplit_nonempty job E)|].
    rewrite nth0. cbn [drop_blank_head]. rewrite str_eqb_nil.
    destruct (is_nil f) eqn:F.
    + cbn [skipn]. destruct r as [|i r']; [reflexivity|]. cbn [list_is_empty].
      rewrite ?nth0, ?nthS.
      destruct (has_key i st') eqn:H; [|reflexivity].
      destruct (nth_error r' 2) eqn:N; [|reflexivity].
      rewrite ?H, slurm_state_is_generated. reflexivity.
    + cbn [list_is_empty]. rewrite ?nth0, ?nthS.
      destruct (has_key f st') eqn:H; [|reflexivity].
      destruct (nth_error r 2) eqn:N; [|reflexivity].
      rewrite ?H, slurm_state_is_generated. reflexivity.
Qed.

Theorem sacct_is_generated : forall out rc jl st,
  slurm_check_jobs_sacct_gen out rc jl st = sacct_query st out rc.
Proof.
  intros out rc jl st. unfold slurm_check_jobs_sacct_gen, sacct_query, run_query.
  rewrite sa_rc_cases. cbv zeta.
  destruct (Z.eqb rc 0); [|destruct (Z.eqb rc 1); [reflexivity|]; destruct (Z.eqb rc 127); reflexivity].
  cbn [fst snd]. unfold list_from, str_split.
  change sa_data_row_offset with 2. change sa_row_sep with 10%N.
  rewrite (for_each_fold_rows (slurm_row sa_drop_blank_head sa_jobid_index sa_state_index)).
  - destruct (fold_rows _ _ _); reflexivity.
  - intros job st'. unfold slurm_row, re_split_ws, get_item, dict_has, list_from, dict_set.
    change sa_drop_blank_head with false. change sa_jobid_index with 0. change sa_state_index with 2.
    cbv iota.
    destruct (resplit job) as [|f r] eqn:E; [exfalso; exact (resplit_nonempty job E)|].
    cbn [list_is_empty]. rewrite ?nth0, ?nthS.
    destruct (has_key f st') eqn:H; [|reflexivity].
    destruct (nth_error r 1) eqn:N; [|reflexivity].
    rewrite ?H, slurm_state_is_generated. reflexivity.
Qed.

Theorem slurm_check_jobs_is_generated : forall sq_out sq_rc sa_out sa_rc jl,
  to_result (slurm_check_jobs_gen sq_out sq_rc sa_out sa_rc jl)
  = slurm_check_jobs jl sq_out sq_rc sa_out sa_rc.
Proof.
  intros. unfold slurm_check_jobs_gen, slurm_check_jobs, slurm_run, init_status, dict_empty. cbv zeta.
  rewrite for_each_init by reflexivity.
  rewrite squeue_is_generated. unfold call.
  destruct (squeue_query (init_status_from [] jl) sq_out sq_rc) as [[c1 st1]|]; [|reflexivity].
  unfold dict_any_none. destruct (any_none st1).
  - rewrite sacct_is_generated.
    destruct (sacct_query st1 sa_out sa_rc) as [[c2 st2]|]; [|reflexivity].
    unfold list_append, list_any, list_all, code_eqb, combine_codes, is_OK, is_NOJOBS.
    cbn [app existsb forallb fst].
    destruct (JS_eqb c1 JS_OK), (JS_eqb c2 JS_OK), (JS_eqb c1 JS_NOJOBS), (JS_eqb c2 JS_NOJOBS); reflexivity.
  - unfold list_append, list_any, list_all, code_eqb, combine_codes, is_OK, is_NOJOBS.
    cbn [app existsb forallb fst].
    destruct (JS_eqb c1 JS_OK), (JS_eqb c1 JS_NOJOBS); reflexivity.
Qed.

(* ------------------------------------------------------------------------ *)
(** * LSF *)

Lemma while_head_is_drop_blank_heads : forall l, while_head_empty_drop l = drop_blank_heads l.
Proof.
  induction l as [|f r IH]; simpl; [reflexivity|].
  rewrite str_eqb_nil'. destruct (is_nil f); [exact IH | reflexivity].
Qed.

Lemma drop_blank_heads_nonempty : forall l js, drop_blank_heads l = Some js -> list_is_empty js = false.
Proof.
  induction l as [|f r IH]; intros js H; simpl in H; [discriminate|].
  destruct (is_nil f); [apply IH; exact H|]. inversion H; subst. reflexivity.
Qed.

Theorem lsf_check_jobs_is_generated : forall out rc jl,
  to_result (lsf_check_jobs_gen out rc jl) = lsf_check_jobs jl out rc.
Proof.
  intros out rc jl. unfold lsf_check_jobs_gen, lsf_check_jobs, init_status, dict_empty, decode_utf8. cbv zeta.
  rewrite for_each_init by reflexivity. rewrite bj_rc_cases.
  destruct (Z.eqb rc 0); [|destruct (Z.eqb rc 255); reflexivity].
  cbn [fst snd]. unfold re_search_No_ws.
  destruct (lsf_nojob out); [reflexivity|].
  unfold list_from, str_split. change bj_data_row_offset with 1. change bj_row_sep with 10%N.
  rewrite (for_each_fold_rows lsf_row).
  - destruct (fold_rows _ _ _); reflexivity.
  - intros job st'. unfold lsf_row, list_map, str_split, str_strip, call, get_item, dict_has, dict_set, str_contains.
    change bj_delim with 124%N. change bj_min_fields with 4.
    change bj_jobid_index with 0. change bj_state_index with 1. change bj_term_reason with 3.
    set (js0 := map strip (split_on 124 job)).
    destruct (List.length js0 <? 4); [reflexivity|].
    rewrite while_head_is_drop_blank_heads.
    destruct (drop_blank_heads js0) as [js|] eqn:Dr; [|reflexivity].
    rewrite (drop_blank_heads_nonempty _ _ Dr).
    destruct js as [|i js1]; [reflexivity|]. rewrite ?nth0, ?nthS.
    destruct (has_key i st') eqn:H; [|reflexivity].
    destruct js1 as [|c js2]; [reflexivity|]. rewrite ?nth0, ?nthS.
    unfold lsf_effective. change lsf_exit_trigger with (s "EXIT").
    change lsf_exit_rules with [(s "TERM_RUNLIMIT", s "TIMEOUT"); (s "TERM_OWNER", s "CANCELLED")].
    cbv iota. cbn [refine].
    destruct (str_eqb c (s "EXIT")) eqn:Ex.
    + destruct (nth_error js2 1) as [rs|] eqn:N; [|reflexivity].
      destruct (contains (s "TERM_RUNLIMIT") rs).
      * rewrite ?H, lsf_state_is_generated. reflexivity.
      * destruct (contains (s "TERM_OWNER") rs); rewrite ?H, lsf_state_is_generated; reflexivity.
    + rewrite ?H, lsf_state_is_generated. reflexivity.
Qed.

(* ------------------------------------------------------------------------ *)
(** * Consequences: the theorems of Props/C16.v, about the GENERATED code *)

Corollary generated_state_tables_ok :
  (forall c, In c slurm_alive -> terminal (slurm_state_gen c) = false) /\
  (forall c, slurm_state_gen c = FINISHED -> In c slurm_success) /\
  (forall c, In c lsf_alive -> terminal (lsf_state_gen c) = false) /\
  (forall c, lsf_state_gen c = FINISHED -> In c lsf_success).
Proof.
  repeat split; intro c; rewrite ?slurm_state_is_generated, ?lsf_state_is_generated.
  - apply slurm_alive_not_terminal.
  - apply slurm_only_success.
  - apply lsf_alive_not_terminal.
  - apply lsf_only_success.
Qed.

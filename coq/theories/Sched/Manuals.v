(** C16 -- the SPECIFICATION side of the state tables: which scheduler state
    codes denote a job that is still alive, and which denote success, copied
    from the schedulers' manuals (not from /repo).  The theorems
    [C16_alive_not_terminal] / [C16_only_success] compare the tables regenerated
    from /repo's source (Gen/SchedTables.v) against these lists. *)
From Coq Require Import List NArith.
From MWF Require Import Base.Str.
Import ListNotations.

(** * Slurm
    Source: squeue(1) and sacct(1), section "JOB STATE CODES" (Slurm 23.x):

      BF BOOT_FAIL      terminated (launch failure)
      CA CANCELLED      terminated (explicitly cancelled)
      CD COMPLETED      terminated, all processes exit code 0        <- success
      CF CONFIGURING    allocated, waiting for nodes to become ready     ALIVE
      CG COMPLETING     in the process of completing                     ALIVE
      DL DEADLINE       terminated on deadline
      F  FAILED         terminated, non-zero exit code
      NF NODE_FAIL      terminated due to node failure
      OOM OUT_OF_MEMORY terminated
      PD PENDING        awaiting resource allocation                     ALIVE
      PR PREEMPTED      terminated due to preemption
      R  RUNNING        has an allocation                                ALIVE
      RD RESV_DEL_HOLD  being held after requested reservation deleted   ALIVE
      RF REQUEUE_FED    being requeued by a federation                   ALIVE
      RH REQUEUE_HOLD   held job being requeued                          ALIVE
      RQ REQUEUED       completing job being requeued                    ALIVE
      RS RESIZING       job is about to change size                      ALIVE
      RV REVOKED        sibling removed from cluster (other cluster started it)
      SI SIGNALING      job is being signaled                            ALIVE
      SE SPECIAL_EXIT   requeued in a special state (held)               ALIVE
      SO STAGE_OUT      staging out files                                ALIVE
      ST STOPPED        has an allocation, execution stopped (SIGSTOP),
                        CPUS retained by this job                        ALIVE
      S  SUSPENDED      has an allocation, execution suspended           ALIVE
      TO TIMEOUT        terminated upon reaching its time limit

    squeue is asked for the compact form (%t), sacct prints the extended form
    in a 10 character column and marks truncation with a trailing '+'
    (sacct(1), "--format": "a %NUMBER ... field is truncated with a '+'"), so
    names longer than 10 characters appear as their first 9 characters + "+". *)
Definition slurm_alive : list str := [
  s "PD"; s "PENDING";
  s "R";  s "RUNNING";
  s "CG"; s "COMPLETING";
  s "CF"; s "CONFIGURING";   s "CONFIGURI+";
  s "S";  s "SUSPENDED";
  s "ST"; s "STOPPED";
  s "RS"; s "RESIZING";
  s "RQ"; s "REQUEUED";
  s "RH"; s "REQUEUE_HOLD";  s "REQUEUE_H+";
  s "RF"; s "REQUEUE_FED";   s "REQUEUE_F+";
  s "RD"; s "RESV_DEL_HOLD"; s "RESV_DEL_+";
  s "SI"; s "SIGNALING";
  s "SO"; s "STAGE_OUT";
  s "SE"; s "SPECIAL_EXIT";  s "SPECIAL_E+"
].
Definition slurm_success : list str := [ s "CD"; s "COMPLETED" ].
(** every documented code (alive or not), used by the generators and by the
    non-vacuity examples *)
Definition slurm_dead : list str := [
  s "BF"; s "BOOT_FAIL"; s "CA"; s "CANCELLED"; s "CANCELLED+"; s "CD"; s "COMPLETED";
  s "DL"; s "DEADLINE"; s "F"; s "FAILED"; s "NF"; s "NODE_FAIL";
  s "OOM"; s "OUT_OF_MEMORY"; s "OUT_OF_ME+"; s "PR"; s "PREEMPTED"; s "RV"; s "REVOKED";
  s "TO"; s "TIMEOUT"
].

(** * LSF
    Source: IBM Spectrum LSF Command Reference, bjobs, "Job states" /
    description of the STAT column:

      PEND   pending, not yet started                                   ALIVE
      PROV   dispatched to a power-saved host that is waking up          ALIVE
      PSUSP  suspended by owner or administrator while pending           ALIVE
      RUN    currently running                                           ALIVE
      USUSP  suspended by owner or administrator while running           ALIVE
      SSUSP  suspended by the LSF system                                 ALIVE
      DONE   terminated with status 0                                    <- success
      EXIT   terminated with non-zero status
      UNKWN  mbatchd lost contact with the sbatchd of the execution host (indeterminate)
      WAIT   chunk job member waiting to run                             ALIVE
      ZOMBI  killed while unreachable / UNKWN job removed (indeterminate)

    Termination reasons (bjobs -l / EXIT_REASON, "TERM_*" keywords):
      TERM_RUNLIMIT  job killed after reaching the LSF run time limit
      TERM_OWNER     job killed by its owner *)
Definition lsf_alive : list str := [
  s "PEND"; s "RUN"; s "PROV"; s "WAIT"; s "PSUSP"; s "USUSP"; s "SSUSP"
].
Definition lsf_success : list str := [ s "DONE" ].
Definition lsf_dead : list str := [ s "DONE"; s "EXIT"; s "UNKWN"; s "ZOMBI" ].
Definition lsf_term_runlimit : str := s "TERM_RUNLIMIT".
Definition lsf_term_owner : str := s "TERM_OWNER".

(** * Flux
    Source: flux-jobs(1), "JOB STATUS" (the [status_abbrev] field the adapter
    reads): the status is the job state while the job is active,

      D  DEPEND    P  PRIORITY    S  SCHED    (pending)                 ALIVE
      R  RUN                                                             ALIVE
      C  CLEANUP                                                         ALIVE

    and, once the job is INACTIVE, its result:

      CD COMPLETED  (exit code 0)                                        <- success
      F  FAILED     CA CANCELED     TO TIMEOUT *)
Definition flux_alive : list str := [ s "D"; s "P"; s "S"; s "R"; s "C" ].
Definition flux_success : list str := [ s "CD" ].
Definition flux_dead : list str := [ s "CD"; s "F"; s "CA"; s "TO" ].

(** Strings are [list N] of Unicode code points (Python [str] semantics).
    [s] decodes a Coq string literal (ASCII) into that representation so that
    generated case files stay small. *)
From Coq Require Export List NArith Ascii String.
Export ListNotations.

Definition str := list N.

Fixpoint s (x : string) : str :=
  match x with
  | EmptyString => []
  | String a r => N_of_ascii a :: s r
  end.

Fixpoint str_eqb (a b : str) : bool :=
  match a, b with
  | [], [] => true
  | x :: a', y :: b' => N.eqb x y && str_eqb a' b'
  | _, _ => false
  end.

(** Lemmas about the list-as-set helpers of Util.v. *)
From Coq Require Import Lia Permutation.
From MWF Require Import Base.Util.

Lemma mem_In x l : mem x l = true <-> In x l.
Proof.
  unfold mem. rewrite existsb_exists. split.
  - intros [y [Hy He]]. apply Nat.eqb_eq in He. subst. exact Hy.
  - intros H. exists x. split; [exact H | apply Nat.eqb_refl].
Qed.

Lemma mem_false x l : mem x l = false <-> ~ In x l.
Proof. rewrite <- mem_In. destruct (mem x l); split; congruence. Qed.

Lemma In_sadd y x l : In y (sadd x l) <-> y = x \/ In y l.
Proof.
  unfold sadd. destruct (mem x l) eqn:E.
  - apply mem_In in E. split; [auto | intros [->|]; auto].
  - rewrite in_app_iff. cbn. intuition.
Qed.

Lemma In_srem y x l : In y (srem x l) <-> y <> x /\ In y l.
Proof.
  unfold srem. rewrite filter_In. rewrite negb_true_iff, Nat.eqb_neq. intuition.
Qed.

Lemma NoDup_snoc {A} (x : A) l : NoDup l -> ~ In x l -> NoDup (l ++ [x]).
Proof.
  induction l as [|a l IH]; cbn; intros H Hn.
  - constructor; [intros []|constructor].
  - inversion H; subst. constructor.
    + rewrite in_app_iff. cbn. intuition.
    + apply IH; intuition.
Qed.

Lemma NoDup_sadd x l : NoDup l -> NoDup (sadd x l).
Proof.
  unfold sadd. destruct (mem x l) eqn:E; auto. intros H.
  apply mem_false in E. apply NoDup_snoc; assumption.
Qed.

Lemma NoDup_filter {A} (f : A -> bool) l : NoDup l -> NoDup (filter f l).
Proof.
  induction l as [|a l IH]; cbn; intros H; [constructor|].
  inversion H; subst. destruct (f a); auto. constructor; auto.
  rewrite filter_In. intuition.
Qed.

Lemma NoDup_srem x l : NoDup l -> NoDup (srem x l).
Proof. apply NoDup_filter. Qed.

Lemma length_sadd_le x l : length (sadd x l) <= S (length l).
Proof. unfold sadd. destruct (mem x l); [lia|]. rewrite app_length. cbn. lia. Qed.

Lemma length_sadd_notin x l : ~ In x l -> length (sadd x l) = S (length l).
Proof. intros H. apply mem_false in H. unfold sadd. rewrite H, app_length. cbn. lia. Qed.

Lemma length_filter_le {A} (f : A -> bool) l : length (filter f l) <= length l.
Proof. induction l as [|a l IH]; cbn; [lia|]. destruct (f a); cbn; lia. Qed.

Lemma length_srem_le x l : length (srem x l) <= length l.
Proof. apply length_filter_le. Qed.

Lemma length_srem_in x l : NoDup l -> In x l -> S (length (srem x l)) = length l.
Proof.
  induction l as [|a l IH]; cbn; intros Hn Hi; [contradiction|].
  inversion Hn; subst. destruct (Nat.eqb x a) eqn:E; cbn.
  - apply Nat.eqb_eq in E. subst. f_equal.
    assert (Hf : srem a l = l).
    { unfold srem. clear IH Hn Hi H2. induction l as [|b l IHl]; cbn; auto.
      destruct (Nat.eqb a b) eqn:E.
      - apply Nat.eqb_eq in E. subst. exfalso. apply H1. left. reflexivity.
      - cbn. f_equal. apply IHl. intros Hc. apply H1. right. exact Hc. }
    unfold srem in Hf. rewrite Hf. reflexivity.
  - apply Nat.eqb_neq in E. destruct Hi as [Hi|Hi]; [congruence|].
    f_equal. apply IH; assumption.
Qed.

Lemma subset_incl a b : subset a b = true <-> incl a b.
Proof.
  unfold subset, incl. rewrite forallb_forall. split; intros H x Hx.
  - apply mem_In. auto.
  - apply mem_In. auto.
Qed.

Lemma disj_spec a b : disj a b = true <-> (forall x, In x a -> ~ In x b).
Proof.
  unfold disj. rewrite forallb_forall. split; intros H x Hx.
  - apply mem_false. apply negb_true_iff. auto.
  - apply negb_true_iff. apply mem_false. auto.
Qed.

Lemma nodupb_NoDup l : nodupb l = true <-> NoDup l.
Proof.
  induction l as [|a l IH]; cbn.
  - split; [constructor | reflexivity].
  - rewrite andb_true_iff, negb_true_iff, mem_false, IH. split.
    + intros [H1 H2]. constructor; assumption.
    + intros H. inversion H; subst. split; assumption.
Qed.

Lemma seteqb_spec a b : seteqb a b = true <-> (forall x, In x a <-> In x b).
Proof.
  unfold seteqb. rewrite andb_true_iff, !subset_incl. unfold incl. split.
  - intros [H1 H2] x. split; auto.
  - intros H. split; intros x; apply H.
Qed.

(** upd *)
Lemma length_upd {A} n (f : A -> A) l : length (upd n f l) = length l.
Proof. revert n. induction l as [|a l IH]; intros [|n]; cbn; auto. Qed.

Lemma nth_upd_eq {A} n (f : A -> A) l d : n < length l -> nth n (upd n f l) d = f (nth n l d).
Proof.
  revert n. induction l as [|a l IH]; intros [|n]; cbn; intros H; try lia; auto.
  apply IH. lia.
Qed.

Lemma nth_upd_neq {A} n m (f : A -> A) l d : n <> m -> nth m (upd n f l) d = nth m l d.
Proof.
  revert n m. induction l as [|a l IH]; intros [|n] [|m]; cbn; intros H; try congruence; auto.
Qed.

Lemma nth_upd_ge {A} n (f : A -> A) l : length l <= n -> upd n f l = l.
Proof.
  revert n. induction l as [|a l IH]; intros [|n]; cbn; intros H; try lia; auto.
  f_equal. apply IH. lia.
Qed.

Lemma last_snoc {A} (l : list A) x d : last (l ++ [x]) d = x.
Proof. induction l as [|a l IH]; cbn; auto. destruct (l ++ [x]) eqn:E; auto. destruct l; discriminate. Qed.

Lemma NoDup_incl_length_le {A} (a b : list A) : NoDup a -> incl a b -> length a <= length b.
Proof. apply NoDup_incl_length. Qed.

Lemma forallb_impl {A} (f g : A -> bool) l :
  (forall x, In x l -> f x = true -> g x = true) -> forallb f l = true -> forallb g l = true.
Proof. rewrite !forallb_forall. auto. Qed.

Lemma In_seq_lt x n : In x (seq 0 n) <-> x < n.
Proof. rewrite in_seq. lia. Qed.

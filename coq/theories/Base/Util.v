(** Small shared definitions: list-as-set operations on [nat], index of failing
    cases for the correspondence runner.  Model-side definitions only; lemmas
    live in UtilLemmas.v. *)
From Coq Require Export List Arith Bool NArith.
Export ListNotations.

Fixpoint failing_from {A} (f : A -> bool) (i : nat) (l : list A) : list nat :=
  match l with
  | [] => []
  | a :: l' => if f a then failing_from f (S i) l' else i :: failing_from f (S i) l'
  end.
Definition failing {A} (f : A -> bool) (l : list A) : list nat := failing_from f 0 l.

Definition mem (x : nat) (l : list nat) : bool := existsb (Nat.eqb x) l.
Definition sadd (x : nat) (l : list nat) : list nat := if mem x l then l else l ++ [x].
Definition srem (x : nat) (l : list nat) : list nat := filter (fun y => negb (Nat.eqb x y)) l.
Definition subset (a b : list nat) : bool := forallb (fun x => mem x b) a.
Definition disj (a b : list nat) : bool := forallb (fun x => negb (mem x b)) a.
Fixpoint nodupb (l : list nat) : bool :=
  match l with [] => true | x :: l' => negb (mem x l') && nodupb l' end.
Definition impb (a b : bool) : bool := negb a || b.

Fixpoint upd {A} (n : nat) (f : A -> A) (l : list A) : list A :=
  match l, n with
  | [], _ => []
  | a :: l', O => f a :: l'
  | a :: l', S n' => a :: upd n' f l'
  end.

Fixpoint insert_sorted (x : nat) (l : list nat) : list nat :=
  match l with
  | [] => [x]
  | y :: l' => if x <=? y then x :: l else y :: insert_sorted x l'
  end.
Definition sort (l : list nat) : list nat := fold_right insert_sorted [] l.

Fixpoint leqb (a b : list nat) : bool :=
  match a, b with
  | [], [] => true
  | x :: a', y :: b' => Nat.eqb x y && leqb a' b'
  | _, _ => false
  end.

Definition seteqb (a b : list nat) : bool := subset a b && subset b a.

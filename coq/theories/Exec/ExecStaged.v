(** C01 on graphs produced by the real Study.stage(): the monitor.

    The dependency relation is the SPECIFICATION's: for a study specification
    [sp] the expected parents of an instance are read off the expansion model
    [c08_model sp] (Expand/Expand.v -- the [_dependencies] entry and the
    adjacency-table parents of the model's node; the C08 theorems say these are
    exactly [expected_parents]), never off the graph the implementation staged.
    A history is the sequence of observable scheduler events of a run on the
    staged graph: [SFin x] = FINISHED reported for instance [x] under an OK
    query code, [SSub x] = a submit call for [x] (main or restart script, any
    outcome).  [staged_hist_ok]: at every [SSub x] every expected parent of [x]
    has had its [SFin] before.  Evaluated, inside Coq, by harness/c01_staged.py. *)
From Coq Require Import List Arith Bool NArith.
From MWF Require Import Base.Str Base.Util Expand.PyStr Expand.Expand.
Import ListNotations.

Inductive sev := SFin (x : str) | SSub (x : str).

Definition exp_parents (nodes : list nobs) (x : str) : list str :=
  match find_obs x nodes with
  | Some o => o_deps o ++ adj_parents nodes x
  | None => []
  end.

Fixpoint staged_go (nodes : list nobs) (fin : list str) (evs : list sev) : bool :=
  match evs with
  | [] => true
  | SFin x :: r => staged_go nodes (x :: fin) r
  | SSub x :: r =>
      forallb (fun q => str_eqb q SOURCE || str_mem q fin) (exp_parents nodes x) && staged_go nodes fin r
  end.

Definition staged_hist_ok (sp : spec) (h : list sev) : bool :=
  match c08_model sp with
  | Ok o => staged_go (ob_nodes o) [] h
  | Err _ => true
  end.

(** one case = a specification and several histories on its staged graph;
    outside the hygiene condition of C08 (instance-name clashes, known findings
    K2/K2b) the expected relation is not defined: such cases are not judged *)
Definition c01_staged_case (c : spec * list (list sev)) : bool :=
  negb (hygb (fst c)) || forallb (staged_hist_ok (fst c)) (snd c).

(** how many instances with at least one expected parent other than the source the model has
    (coverage figure) *)
Definition c01_staged_hyg (c : spec * list (list sev)) : bool := hygb (fst c).

(** Coupling, part 6: the monitor over the model's own observable trace stays
    silent for the event-level codes AND the end-of-poll codes
    42, 72, 73, 44, 46, 47, 31 (induction over the poll list). *)
From Coq Require Import Lia Relations.
From MWF Require Import Base.Util Base.UtilLemmas Exec.ExecBase Exec.ExecGen Exec.ExecRun Exec.ExecTrace
  Exec.ExecGraph Exec.ExecInv Exec.ExecLedger Exec.ExecLedger2 Exec.ExecLedger3 Exec.ExecLedger4 Exec.ExecLedger5.

Definition famE : list nat := [73; 42; 72; 44; 46; 47; 31].
Definition famX : list nat := famA ++ famE.

Lemma In_ck_app k b n rest : In k (ck b n ++ rest) <-> (b = false /\ k = n) \/ In k rest.
Proof. rewrite in_app_iff, ck_In. tauto. Qed.

(** no adapter call raises an end-of-poll code *)
Lemma flags_ev_famE c g p L e k : In k famE -> ~ In k (flags_ev c g p L e).
Proof.
  intros Hk Hin. destruct e as [js|js|x|x kd sched res]; cbn [flags_ev] in Hin.
  - repeat (apply in_app_iff in Hin; destruct Hin as [Hin|Hin]); apply ck_codes in Hin; subst k; cbn in Hk; intuition discriminate.
  - repeat (apply in_app_iff in Hin; destruct Hin as [Hin|Hin]); apply ck_codes in Hin; subst k; cbn in Hk; intuition discriminate.
  - apply ck_codes in Hin; subst k; cbn in Hk; intuition discriminate.
  - repeat (apply in_app_iff in Hin; destruct Hin as [Hin|Hin];
            [try (apply ck_codes in Hin; subst k; cbn in Hk; intuition discriminate)|]).
    + destruct kd; repeat (apply in_app_iff in Hin; destruct Hin as [Hin|Hin]);
        apply ck_codes in Hin; subst k; cbn in Hk; intuition discriminate.
    + destruct res as [j|]; [|destruct Hin].
      repeat (apply in_app_iff in Hin; destruct Hin as [Hin|Hin]);
        apply ck_codes in Hin; subst k; cbn in Hk; intuition discriminate.
Qed.

(** what it takes for an end-of-poll code to be raised *)
Lemma flags_end_cases c g p m rows stat k : In k (flags_end c g p m rows stat) -> In k famE ->
  let n := all_nodes g in
  let aborted := sstatus_eqb stat SABORT in
  let final := sstatus_eqb stat SFINISHED || sstatus_eqb stat SFAILURE || sstatus_eqb stat SCANCELLED in
  (k = 44 /\ forallb (fun x => match row_status (prev m) x with
                        | FINISHED => state_eqb (row_status rows x) FINISHED
                        | DRYRUN => state_eqb (row_status rows x) DRYRUN
                        | FAILED | CANCELLED => fc_row (row_status rows x)
                        | _ => true end) n = false) \/
  (k = 46 /\ forallb (fun x => impb (mem x (succ m)) (state_eqb (row_status rows x) FINISHED)) n = false) \/
  (k = 47 /\ forallb (fun x => impb (state_eqb (row_status rows x) FINISHED) (mem x (succ m))) n = false) \/
  (k = 42 /\ negb final || is_nil (live m) = false) \/
  (k = 31 /\ negb (throttle c =? 0) || aborted || dry c ||
      forallb (fun x => impb (subset (parents (attr g x)) (sstage m))
                             (negb (state_eqb (row_status rows x) INITIALIZED))) n = false) \/
  (k = 72 /\ negb (cseen m && is_nil (live m)) || aborted || sstatus_eqb stat SCANCELLED = false).
Proof.
  intros Hin Hk. unfold flags_end in Hin. cbv zeta in *.
  repeat rewrite In_ck_app in Hin. rewrite ck_In in Hin.
  cbn in Hk.
  repeat (destruct Hin as [[Hb E]|Hin]; [subst k; try (exfalso; intuition discriminate); tauto|]).
  destruct Hin as [Hb E]. subst k. exfalso. intuition discriminate.
Qed.

(** * Rows of a state *)
Lemma row_status_rows s x : row_status (rows_of s) x = stat s x.
Proof.
  unfold row_status, rows_of, stat, getrec.
  change (INITIALIZED, @nil nat, 0) with ((fun r => (status r, jobs r, restarts r)) dflt_rec).
  rewrite map_nth. reflexivity.
Qed.

(** * The status a poll returns *)
Lemma poll_status c g s p :
  snd (poll c g s p) = SABORT \/ snd (poll c g s p) = completion_gen g (fst (poll c g s p)).
Proof.
  unfold poll, execute_ready_steps_gen.
  match goal with |- context [if qcode_eqb ?q QERROR then _ else _] => destruct (qcode_eqb q QERROR) end;
    cbn [fst snd]; auto.
Qed.

Lemma no_live g s L : Inv g s -> JL none s L -> inprog s = [] -> live L = [].
Proof.
  intros I [A B C] E. destruct (live L) as [|[x j] l] eqn:El; auto.
  assert (H : In (x, j) ((x, j) :: l)) by (left; reflexivity). apply A in H. rewrite E in H. destruct H as [[] _].
Qed.

Lemma completion_final g s L : Inv g s -> JL none s L ->
  completion_gen g s <> SRUNNING -> live L = [].
Proof.
  intros I Jl. unfold completion_gen.
  destruct (canceled s && is_nil (inprog s)) eqn:E1.
  - intros _. apply andb_true_iff in E1. destruct E1 as [_ E1]. apply (no_live g s L I Jl).
    destruct (inprog s); [reflexivity|discriminate].
  - destruct (subset (seq 0 (length g)) (completed s ++ failed s ++ cancelled s)) eqn:E2; [|congruence].
    intros _. apply (no_live g s L I Jl).
    destruct (inprog s) as [|x l] eqn:Ei; auto. exfalso.
    assert (Hx : In x (inprog s)) by (rewrite Ei; left; reflexivity).
    apply subset_incl in E2. specialize (E2 x). rewrite In_seq_lt in E2.
    specialize (E2 (i_bound g s I x ltac:(auto))). rewrite !in_app_iff in E2.
    destruct E2 as [H|H].
    + exact (i_dj_ci g s I x H Hx).
    + destruct (i_dj_fc g s I x H) as (_ & H2 & _). contradiction.
Qed.

Lemma completion_cancelled g s L : JL none s L -> cseen L = true -> live L = [] ->
  completion_gen g s = SCANCELLED.
Proof.
  intros [A B C] Hc Hl. unfold completion_gen. rewrite <- C, Hc.
  destruct (inprog s) as [|x l] eqn:Ei; [reflexivity|]. exfalso.
  assert (H : In (x, lastjob s x) (live L)).
  { apply A. unfold none. split; [left; reflexivity|tauto]. }
  rewrite Hl in H. destruct H.
Qed.

(** * [prev] is not touched by the events of a poll *)
Lemma prev_deliver_fold reps : forall m, prev (fold_left deliver reps m) = prev m.
Proof.
  induction reps as [|r reps IH]; intros m; cbn [fold_left]; auto. rewrite IH.
  destruct r as [x [v|]]; [destruct v|]; reflexivity.
Qed.
Lemma prev_step_base c g p L e : prev (step_base c g p L e) = prev L.
Proof.
  destruct e as [js|js|x|x k sched res]; cbn [step_base]; auto.
  - destruct (qcode p); cbn; auto. rewrite prev_deliver_fold. reflexivity.
  - destruct res; [destruct sched|]; reflexivity.
Qed.
Lemma prev_fold c g p es : forall L, prev (fold_left (step_base c g p) es L) = prev L.
Proof. induction es as [|e es IH]; intros L; cbn [fold_left]; auto. rewrite IH. apply prev_step_base. Qed.

(** * The boundary invariant *)
Definition B (c : cfg) (g : graph) (s : st) (m : mon) : Prop :=
  Inv g s /\ Thr c s /\ J (dry c) none none s (mb m) /\ X c s /\ R2 nobody s /\ Dp g s /\
  prev (mb m) = rows_of s.

Lemma X_init c g : X c (init g).
Proof.
  constructor; intros y; cbn; [|intros []].
  unfold stat, getrec, init. cbn [recs].
  change dflt_rec with ((fun _ : sattr => dflt_rec) dflt_attr). rewrite map_nth. cbn. intros [H|H]; discriminate.
Qed.

Lemma stat_init g y : stat (init g) y = INITIALIZED.
Proof.
  unfold stat, getrec, init. cbn [recs].
  change dflt_rec with ((fun _ : sattr => dflt_rec) dflt_attr). rewrite map_nth. reflexivity.
Qed.

Lemma B_init c g : B c g (init g) (mon0 g).
Proof.
  split; [apply Inv_init|]. split; [apply Thr_init|]. split; [apply J_init|]. split; [apply X_init|].
  split. { intros y. rewrite stat_init. discriminate. }
  split. { intros x. unfold getdeps, init. cbn [deps]. change (@nil nat) with (parents dflt_attr).
           rewrite map_nth. apply incl_refl. }
  cbn. unfold rows_of. cbn [recs init]. rewrite map_map. reflexivity.
Qed.

(** * The end-of-poll verdicts, one by one *)
Lemma end_44 c s s1 n : X c s -> R2 nobody s -> X c s1 -> SRr s s1 ->
  forallb (fun x => match row_status (rows_of s) x with
                    | FINISHED => state_eqb (row_status (rows_of s1) x) FINISHED
                    | DRYRUN => state_eqb (row_status (rows_of s1) x) DRYRUN
                    | FAILED | CANCELLED => fc_row (row_status (rows_of s1) x)
                    | _ => true end) n = true.
Proof.
  intros [A1 A3] Rs [B1 B3] S. apply forallb_forall. intros x _. rewrite !row_status_rows.
  assert (FD : stat s x = FINISHED \/ stat s x = DRYRUN -> stat s1 x = stat s x).
  { intros H. pose proof (A1 x H) as Hc. rewrite (A3 x Hc). apply B3. apply (rr_comp _ _ S). exact Hc. }
  assert (FC : fc_row (stat s x) = true -> fc_row (stat s1 x) = true).
  { intros H. destruct (Rs x H) as [Hf|[Hf|[]]]; apply (rr_row _ _ S); auto. }
  destruct (stat s x) eqn:E; try reflexivity.
  - rewrite FD by auto. reflexivity.
  - apply FC. reflexivity.
  - apply FC. reflexivity.
  - rewrite FD by auto. reflexivity.
Qed.

Lemma end_46 c s1 L n : X c s1 -> JS (dry c) none s1 L ->
  forallb (fun x => impb (mem x (succ L)) (state_eqb (row_status (rows_of s1) x) FINISHED)) n = true.
Proof.
  intros [B1 B3] [C1 C2 C3 C4]. apply forallb_forall. intros x _. rewrite row_status_rows.
  destruct (mem x (succ L)) eqn:E; [|reflexivity]. cbn. apply mem_In in E.
  destruct (dry c) eqn:Hd; [rewrite C4 in E by reflexivity; destruct E|].
  destruct (C2 x E) as [H|[]]. rewrite (B3 x H). unfold fin_of. rewrite Hd. reflexivity.
Qed.

Lemma end_47 c s1 L n : X c s1 -> JS (dry c) none s1 L ->
  forallb (fun x => impb (state_eqb (row_status (rows_of s1) x) FINISHED) (mem x (succ L))) n = true.
Proof.
  intros [B1 B3] [C1 C2 C3 C4]. apply forallb_forall. intros x _. rewrite row_status_rows.
  destruct (state_eqb (stat s1 x) FINISHED) eqn:E; [|reflexivity]. cbn. apply state_eqb_eq in E.
  assert (Hc : In x (completed s1)) by (apply B1; auto).
  apply mem_In. apply C1; auto.
  destruct (dry c) eqn:Hd; auto. rewrite (B3 x Hc) in E. unfold fin_of in E. rewrite Hd in E. discriminate.
Qed.

Lemma end_42 g s1 L stat : Inv g s1 -> JL none s1 L -> (stat = SABORT \/ stat = completion_gen g s1) ->
  negb (sstatus_eqb stat SFINISHED || sstatus_eqb stat SFAILURE || sstatus_eqb stat SCANCELLED)
  || is_nil (live L) = true.
Proof.
  intros I Jl [->| ->]; [reflexivity|].
  destruct (completion_gen g s1) eqn:E; try reflexivity;
    rewrite (completion_final g s1 L I Jl) by (rewrite E; discriminate); apply orb_true_r.
Qed.

Lemma end_72 g s1 L stat : JL none s1 L -> (stat = SABORT \/ stat = completion_gen g s1) ->
  negb (cseen L && is_nil (live L)) || sstatus_eqb stat SABORT || sstatus_eqb stat SCANCELLED = true.
Proof.
  intros Jl [->| ->]; [apply orb_true_iff; left; apply orb_true_r|].
  destruct (cseen L) eqn:Hc; [|reflexivity]. destruct (live L) eqn:Hl; [|reflexivity].
  rewrite (completion_cancelled g s1 L Jl Hc Hl). reflexivity.
Qed.

Lemma end_31 c g p L0 s1 r : F31 c g p L0 s1 r ->
  negb (throttle c =? 0) || sstatus_eqb r SABORT || dry c ||
  forallb (fun x => impb (subset (parents (attr g x)) (sstage (led c g p L0 s1)))
                         (negb (state_eqb (row_status (rows_of s1) x) INITIALIZED))) (all_nodes g) = true.
Proof.
  intros F. destruct (throttle c =? 0) eqn:Ht; [|reflexivity]. apply Nat.eqb_eq in Ht.
  destruct (sstatus_eqb r SABORT) eqn:Ha; [reflexivity|]. destruct (dry c) eqn:Hd; [reflexivity|].
  cbn [negb orb]. apply forallb_forall. intros x Hx. apply In_seq_lt in Hx. rewrite row_status_rows.
  destruct (subset (parents (attr g x)) (sstage (led c g p L0 s1))) eqn:Hs; [|reflexivity]. cbn.
  apply subset_incl in Hs.
  assert (Hn : stat s1 x <> INITIALIZED).
  { apply F; auto. intros ->. discriminate. }
  destruct (stat s1 x); try reflexivity. contradiction.
Qed.

(** * One poll under the monitor, all codes of [famX] *)
Lemma famX_In k : In k famX <-> In k famA \/ In k famE.
Proof. unfold famX. apply in_app_iff. Qed.

Lemma step_ev_fold2 c g p es : forall m,
  (forall k, In k famX -> ~ In k (viol m) -> evsA c g p (mb m) es ->
             ~ In k (viol (fold_left (step_ev c g p) es m))).
Proof.
  induction es as [|e es IH]; intros m; cbn [fold_left]; [auto|].
  intros k Hk Hv [E1 E2]. apply IH; auto.
  cbn [step_ev viol]. rewrite in_app_iff. intros [H|H]; [contradiction|].
  apply famX_In in Hk. destruct Hk as [Hk|Hk].
  - exact (evA_flags c g p (mb m) e k E1 Hk H).
  - exact (flags_ev_famE c g p (mb m) e k Hk H).
Qed.

Lemma req_state_x c g p s : X c s -> R2 nobody s -> Dp g s ->
  X c (req_state p s) /\ R2 nobody (req_state p s) /\ Dp g (req_state p s) /\
  SRr s (req_state p s) /\ SRr (req_state p s) s.
Proof.
  intros Xs Rs Ds. unfold req_state. destruct (cancel_req p).
  - split; [apply (X_quiet c s); auto|]. split; [apply (R2_quiet nobody s); auto|]. split; [exact Ds|].
    split; constructor; auto; intros x; apply incl_refl.
  - repeat (split; [assumption|]). split; apply SRr_refl.
Qed.

Lemma step_poll_silent2 c g m p s :
  WF g -> B c g s m -> valid_pin s p = true -> (forall k, In k famX -> ~ In k (viol m)) ->
  let s1 := fst (poll c g s p) in
  let m' := step_poll c g m (p, (rev (evs s1), rows_of s1, snd (poll c g s p))) in
  B c g s1 m' /\ (forall k, In k famX -> ~ In k (viol m')).
Proof.
  intros W (I & T & Jh & Xs & Rs & Ds & Pv) V Hv. cbv zeta.
  set (s1 := fst (poll c g s p)). set (r := snd (poll c g s p)).
  destruct (req_state_inv c g (dry c) p (rev (evs s1)) s m I T Jh V) as (I0 & T0 & J0 & V0).
  destruct (req_state_x c g p s Xs Rs Ds) as (X0 & R0 & D0 & S0 & S0').
  set (m0 := pre_poll p (rev (evs s1)) m) in *.
  destruct (poll_spec c g p (mb m0) W (dry c) (req_state p s) eq_refl I0 T0 J0 V0) as [(I1 & Cl1 & J1) T1].
  pose proof (poll_x c g p (mb m0) W (dry c) (req_state p s) eq_refl I0 T0 J0 V0 X0 R0 D0) as PX.
  cbv zeta in PX. rewrite poll_req_state in *. fold s1 in I1, Cl1, J1, T1, PX. fold r in PX.
  destruct PX as (X1 & R1 & D1 & S1 & C73 & F).
  assert (Ssr : SRr s s1) by (eapply SRr_trans; eauto).
  assert (Hv0 : forall k, In k famX -> ~ In k (viol m0)).
  { intros k Hk. unfold m0, pre_poll. destruct (cancel_req p) eqn:Ec; [|auto].
    cbn [viol]. rewrite in_app_iff. intros [Hi|Hi]; [exact (Hv k Hk Hi)|].
    destruct (C73 eq_refl) as (js & l & E). rewrite E in Hi. destruct Hi. }
  cbn [step_poll]. fold m0.
  destruct (step_ev_fold c g p (rev (evs s1)) m0) as [A _].
  pose proof (step_ev_fold2 c g p (rev (evs s1)) m0) as Bv.
  set (mm := fold_left (step_ev c g p) (rev (evs s1)) m0) in *.
  assert (EL : mb mm = led c g p (mb m0) s1) by exact A.
  destruct J1 as [Jl Js]. rewrite <- EL in Jl, Js.
  assert (Pm : prev (mb mm) = rows_of s).
  { rewrite A, prev_fold. unfold m0. rewrite pre_poll_mb. destruct (cancel_req p); exact Pv. }
  split.
  - split; [exact I1|]. split; [exact T1|]. split.
    { cbn [mb]. split.
      + eapply JL_frame; [| | | | |exact Jl]; auto; tauto.
      + eapply JS_frame; [| |exact Js]; auto; tauto. }
    split; [exact X1|]. split; [exact R1|]. split; [exact D1|]. reflexivity.
  - intros k Hk. cbn [viol]. rewrite in_app_iff. intros [H|H].
    + exact (Bv k Hk (Hv0 k Hk) Cl1 H).
    + apply famX_In in Hk. destruct Hk as [Hk|Hk].
      * exact (flags_end_famA c g p (mb mm) (rows_of s1) r k Hk H).
      * pose proof (flags_end_cases c g p (mb mm) (rows_of s1) r k H Hk) as FC. cbv zeta in FC.
        destruct FC as [[_ E]|[[_ E]|[[_ E]|[[_ E]|[[_ E]|[_ E]]]]]].
        -- rewrite Pm in E. rewrite (end_44 c s s1 (all_nodes g) Xs Rs X1 Ssr) in E. discriminate.
        -- rewrite (end_46 c s1 (mb mm) (all_nodes g) X1 Js) in E. discriminate.
        -- rewrite (end_47 c s1 (mb mm) (all_nodes g) X1 Js) in E. discriminate.
        -- rewrite (end_42 g s1 (mb mm) r I1 Jl (poll_status c g s p)) in E. discriminate.
        -- rewrite EL in E. rewrite (end_31 c g p (mb m0) s1 r F) in E. discriminate.
        -- rewrite (end_72 g s1 (mb mm) r Jl (poll_status c g s p)) in E. discriminate.
Qed.

(** * The whole run *)
Lemma run_silent2 c g : WF g -> forall ps s m,
  B c g s m -> valid_run c g s ps = true -> (forall k, In k famX -> ~ In k (viol m)) ->
  forall k, In k famX -> ~ In k (viol (fold_left (step_poll c g) (zip ps (run c g s ps)) m)).
Proof.
  intros W. induction ps as [|p ps IH]; intros s m Bs V Hv; [exact Hv|].
  cbn [valid_run] in V. apply andb_true_iff in V. destruct V as [V1 V2].
  pose proof (step_poll_silent2 c g m p s W Bs V1 Hv) as SP. cbv zeta in SP.
  cbn [run]. destruct (poll c g s p) as [s1 r]. cbn [fst snd] in SP.
  destruct SP as (B1 & Hv1).
  destruct r; cbn [zip fold_left].
  2:{ apply IH; auto. }
  all: destruct ps; cbn [zip fold_left]; exact Hv1.
Qed.

Theorem famX_silent c g ps :
  wf_graph g = true -> valid_run c g (init g) ps = true ->
  forall k, In k famX -> ~ In k (viol_of c g ps (run c g (init g) ps)).
Proof.
  intros Hw V. unfold viol_of, monitor.
  apply run_silent2; auto.
  - apply wf_graph_WF. exact Hw.
  - apply B_init.
Qed.

(** * The property monitors *)
Lemma prop_ok_X pid c g ps :
  wf_graph g = true -> valid_run c g (init g) ps = true ->
  (forall k, In k (family pid) -> In k famX) -> prop_ok pid c g ps (run c g (init g) ps) = true.
Proof.
  intros Hw V H. apply prop_ok_of_codes. intros k Hk. apply famX_silent; auto.
Qed.

Lemma C03_holds c g ps : wf_graph g = true -> valid_run c g (init g) ps = true ->
  prop_ok 3 c g ps (run c g (init g) ps) = true.
Proof. intros Hw V. apply prop_ok_X; auto. cbn. intuition (subst; auto 20). Qed.

Lemma C07_holds c g ps : wf_graph g = true -> valid_run c g (init g) ps = true ->
  prop_ok 7 c g ps (run c g (init g) ps) = true.
Proof. intros Hw V. apply prop_ok_X; auto. cbn. intuition (subst; auto 20). Qed.

(** every code of family 4 except 43 *)
Lemma C04_codes c g ps : wf_graph g = true -> valid_run c g (init g) ps = true ->
  forall k, In k [4; 41; 42; 44; 46; 47; 40] -> ~ In k (viol_of c g ps (run c g (init g) ps)).
Proof. intros Hw V k Hk. apply famX_silent; auto. cbn in *. intuition (subst; auto 20). Qed.

Lemma code_silent c g ps k : wf_graph g = true -> valid_run c g (init g) ps = true -> In k famX ->
  ~ In k (viol_of c g ps (run c g (init g) ps)).
Proof. intros. apply famX_silent; auto. Qed.

(** * State-level readings at poll boundaries *)
Lemma run_states_ok c g ps s r : wf_graph g = true -> valid_run c g (init g) ps = true ->
  In (s, r) (run_states c g (init g) ps) -> Inv g s /\ Thr c s.
Proof.
  intros Hw V Hin.
  eapply (run_states_inv c g (wf_graph_WF g Hw) ps (init g) (base0 g)); eauto.
  - apply Inv_init.
  - apply Thr_init.
  - apply J_init.
Qed.

Lemma C03_states c g ps s r : wf_graph g = true -> valid_run c g (init g) ps = true ->
  In (s, r) (run_states c g (init g) ps) -> throttle c > 0 -> length (inprog s) <= throttle c.
Proof. intros Hw V Hin. destruct (run_states_ok c g ps s r Hw V Hin) as [_ T]. exact T. Qed.

Lemma C04_states c g ps s r : wf_graph g = true -> valid_run c g (init g) ps = true ->
  In (s, r) (run_states c g (init g) ps) ->
  (forall x, In x (completed s) -> ~ In x (inprog s)) /\
  (forall x, In x (completed s) -> ~ In x (ready s)) /\
  (forall x, In x (inprog s) -> ~ In x (ready s)) /\
  (forall x, In x (failed s) \/ In x (cancelled s) ->
             ~ In x (completed s) /\ ~ In x (inprog s) /\ ~ In x (ready s)) /\
  NoDup (inprog s) /\ NoDup (ready s).
Proof.
  intros Hw V Hin. destruct (run_states_ok c g ps s r Hw V Hin) as [I _]. dI I.
  split; [exact Ici|]. split; [exact Icr|]. split; [exact Iir|]. split; [exact Ifc|]. split; assumption.
Qed.

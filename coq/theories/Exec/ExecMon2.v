(** The monitor family of C02 (codes 2, 21, 22, 23, 24 of Exec/ExecTrace.v) is silent on the
    model's own trace:  prop_ok 2 c g ps (run c g (init g) ps) = true.
    This is the predicate the correspondence run evaluates on the IMPLEMENTATION's trace. *)
From Coq Require Import Lia Relations.
From MWF Require Import Base.Util Base.UtilLemmas Exec.ExecBase Exec.ExecGen Exec.ExecRun Exec.ExecTrace Exec.ExecGraph
  Exec.ExecInv Exec.ExecPoll Exec.ExecSteps Exec.ExecPoll2 Exec.ExecPoll3 Exec.ExecPoll4 Exec.ExecPoll5
  Exec.ExecHist Exec.ExecC02 Exec.ExecC06.

Definition fam2 (k : nat) : Prop := k = 2 \/ k = 21 \/ k = 22 \/ k = 23 \/ k = 24.

Lemma ck_In2 b k j : In j (ck b k) <-> b = false /\ j = k.
Proof. unfold ck. destruct b; cbn; intuition congruence. Qed.

Definition fuc (v : State) : Prop := v = FAILED \/ v = UNKNOWN \/ v = CANCELLED.

(** * What delivering reports does to the ledger *)
Lemma deliver_fields2 m x o :
  cseen (deliver m (x, o)) = cseen m /\ oksub (deliver m (x, o)) = oksub m /\ nsub (deliver m (x, o)) = nsub m /\
  (forall y, In y (dead (deliver m (x, o))) <-> In y (dead m) \/ (y = x /\ exists v, o = Some v /\ fuc v)) /\
  (forall y, In y (succ (deliver m (x, o))) <-> In y (succ m) \/ (y = x /\ o = Some FINISHED)) /\
  (forall y, In y (tdel (deliver m (x, o))) <-> In y (tdel m) \/ (y = x /\ o = Some TIMEDOUT)).
Proof.
  destruct o as [v|]; [|cbn; splits; auto; intros y; split; auto; intros [H|[_ H]]; auto;
                          try discriminate; destruct H as (v & H & _); discriminate].
  unfold fuc. destruct v; cbn; splits; auto; intros y; rewrite ?In_sadd; split;
    try (intros [H|H]; auto; fail);
    try (intros [H|[H1 H2]]; auto; try discriminate; try (destruct H2 as (v & H2 & [H3|[H3|H3]]); inversion H2; subst; discriminate); fail);
    try (intros H; left; exact H; fail).
  all: try (intros [->|H]; [right; split; auto; eexists; split; [reflexivity|auto]|left; exact H]).
  all: try (intros [H|[-> _]]; auto).
  all: try (intros [->|H]; [right; auto|left; exact H]).
Qed.

Lemma deliver_fold2 reps : forall m,
  cseen (fold_left deliver reps m) = cseen m /\ oksub (fold_left deliver reps m) = oksub m /\
  nsub (fold_left deliver reps m) = nsub m /\
  (forall y, In y (dead (fold_left deliver reps m)) <-> In y (dead m) \/ exists v, In (y, Some v) reps /\ fuc v) /\
  (forall y, In y (succ (fold_left deliver reps m)) <-> In y (succ m) \/ In (y, Some FINISHED) reps) /\
  (forall y, In y (tdel (fold_left deliver reps m)) <-> In y (tdel m) \/ In (y, Some TIMEDOUT) reps).
Proof.
  induction reps as [|[x o] reps IH]; intros m; cbn [fold_left].
  - splits; auto; intros y; split; auto; intros [H|H]; auto; try destruct H as (v & [] & _); destruct H.
  - destruct (IH (deliver m (x, o))) as (A1 & A2 & A3 & A4 & A5 & A6).
    destruct (deliver_fields2 m x o) as (B1 & B2 & B3 & B4 & B5 & B6).
    splits; try congruence.
    + intros y. rewrite A4, B4. split.
      * intros [[H|[-> (v & -> & Hv)]]|(v & H & Hv)]; auto; right; exists v; split; auto; [left; reflexivity|right; exact H].
      * intros [H|(v & [H|H] & Hv)]; auto; [|right; exists v; auto].
        inversion H; subst. left. right. split; auto. exists v. auto.
    + intros y. rewrite A5, B5. split.
      * intros [[H|[-> ->]]|H]; auto; right; [left; reflexivity|right; exact H].
      * intros [H|[H|H]]; auto. inversion H; subst. auto.
    + intros y. rewrite A6, B6. split.
      * intros [[H|[-> ->]]|H]; auto; right; [left; reflexivity|right; exact H].
      * intros [H|[H|H]]; auto. inversion H; subst. auto.
Qed.

Section Ledger.
Variables (c : cfg) (g : graph) (p : pin).

(** nodes whose FAILED / UNKNOWN / CANCELLED report is delivered in this poll *)
Definition delFUC (y : nat) : Prop := qcode p = QOK /\ exists v, In (y, Some v) (reports p) /\ fuc v.
Definition delT (y : nat) : Prop := qcode p = QOK /\ In (y, Some TIMEDOUT) (reports p).
Definition delFIN (y : nat) : Prop := qcode p = QOK /\ In (y, Some FINISHED) (reports p).

Definition is_check (e : event) : Prop := exists js, e = ECheck js.
Definition submits (y : nat) (es : list event) : Prop := exists k sc res, In (ESubmit y k sc res) es.

Lemma step_base_fields2 m e :
  (cseen (step_base c g p m e) = true <-> cseen m = true \/ exists js, e = ECancel js) /\
  (forall y, In y (dead m) -> In y (dead (step_base c g p m e))) /\
  (forall y, In y (dead (step_base c g p m e)) -> In y (dead m) \/ (delFUC y /\ is_check e)) /\
  (is_check e -> forall y, delFUC y -> In y (dead (step_base c g p m e))) /\
  (forall y, In y (tdel (step_base c g p m e)) <-> In y (tdel m) \/ (delT y /\ is_check e)) /\
  (forall y, In y (succ m) -> In y (succ (step_base c g p m e))) /\
  (is_check e -> forall y, delFIN y -> In y (succ (step_base c g p m e))) /\
  (forall y k j, e = ESubmit y k false (Some j) -> In y (succ (step_base c g p m e))) /\
  (forall y, In y (oksub (step_base c g p m e)) <-> In y (oksub m) \/ has_ok y [e]) /\
  length (nsub (step_base c g p m e)) = length (nsub m) /\
  (forall y, y < length (nsub m) ->
     (0 < nth y (nsub (step_base c g p m e)) 0 <-> 0 < nth y (nsub m) 0 \/ submits y [e])).
Proof.
  assert (NoOk : forall y e', (forall k sc j, e' <> ESubmit y k sc (Some j)) ->
            forall A : Prop, (A <-> A \/ has_ok y [e'])).
  { intros y e' H A. split; auto. intros [H0|(k & sc & j & [E|[]])]; auto. exfalso. exact (H k sc j E). }
  assert (NoSub : forall y e', (forall k sc res, e' <> ESubmit y k sc res) ->
            forall A : Prop, (A <-> A \/ submits y [e'])).
  { intros y e' H A. split; auto. intros [H0|(k & sc & res & [E|[]])]; auto. exfalso. exact (H k sc res E). }
  assert (NoChk : forall e', ~ is_check e' -> forall (A B : Prop), (A <-> A \/ (B /\ is_check e'))).
  { intros e' H A B. tauto. }
  assert (NoCan : forall e', (forall js, e' <> ECancel js) -> forall A : Prop, (A <-> A \/ exists js, e' = ECancel js)).
  { intros e' H A. split; auto. intros [H0|[js E]]; auto. exfalso. exact (H js E). }
  destruct e as [js|js|x|x k sc res]; cbn [step_base].
  - (* ECancel *)
    assert (Nc : ~ is_check (ECancel js)) by (intros [js' E]; discriminate).
    cbn. splits.
    all: try solve [auto | intros H; exfalso; apply Nc; exact H | split; eauto | intros y; apply NoChk; auto
                   | intros y k j E; discriminate | intros y; apply NoOk; intros; discriminate
                   | intros y Hy; apply NoSub; intros; discriminate].
  - (* ECheck *)
    assert (Ic : is_check (ECheck js)) by (exists js; reflexivity).
    destruct (qcode p) eqn:Q.
    + destruct (deliver_fold2 (reports p) (set_check m (map fst (live m)) (sstage m))) as (A1 & A2 & A3 & A4 & A5 & A6).
      cbn [cseen dead tdel succ oksub nsub set_check] in *. splits.
      * rewrite A1. apply NoCan. intros; discriminate.
      * intros y Hy. apply A4. auto.
      * intros y Hy. apply A4 in Hy. destruct Hy as [H|H]; auto. right. split; auto. split; auto.
      * intros _ y [_ H]. apply A4. auto.
      * intros y. rewrite A6. unfold delT. split; [intros [H|H]; auto|intros [H|[[_ H] _]]; auto].
      * intros y Hy. apply A5. auto.
      * intros _ y [_ H]. apply A5. auto.
      * intros y k j E. discriminate.
      * intros y. rewrite A2. apply NoOk. intros; discriminate.
      * rewrite A3. reflexivity.
      * intros y Hy. rewrite A3. apply NoSub. intros; discriminate.
    + cbn. splits.
      all: try solve [auto | intros _ y [H _]; congruence | intros y k j E; discriminate
                     | apply NoCan; intros; discriminate | intros y; apply NoOk; intros; discriminate
                     | intros y Hy; apply NoSub; intros; discriminate
                     | intros y H; auto
                     | intros y; split; auto; intros [H|[[H _] _]]; auto; congruence].
    + cbn. splits.
      all: try solve [auto | intros _ y [H _]; congruence | intros y k j E; discriminate
                     | apply NoCan; intros; discriminate | intros y; apply NoOk; intros; discriminate
                     | intros y Hy; apply NoSub; intros; discriminate
                     | intros y H; auto
                     | intros y; split; auto; intros [H|[[H _] _]]; auto; congruence].
  - (* EGen *)
    assert (Nc : ~ is_check (EGen x)) by (intros [js' E]; discriminate).
    splits.
    all: try solve [auto | intros H; exfalso; apply Nc; exact H | apply NoCan; intros; discriminate
                   | intros y; apply NoChk; auto
                   | intros y k j E; discriminate | intros y; apply NoOk; intros; discriminate
                   | intros y Hy; apply NoSub; intros; discriminate].
  - (* ESubmit *)
    assert (Nc : ~ is_check (ESubmit x k sc res)) by (intros [js' E]; discriminate).
    assert (Nth : forall y, y < length (nsub m) ->
              (0 < nth y (upd x S (nsub m)) 0 <-> 0 < nth y (nsub m) 0 \/ submits y [ESubmit x k sc res])).
    { intros y Hy. destruct (Nat.eq_dec x y) as [->|Hn].
      - rewrite nth_upd_eq by exact Hy. split; [intros _; right; exists k, sc, res; left; reflexivity|lia].
      - rewrite nth_upd_neq by exact Hn. split; auto. intros [H|(k' & sc' & res' & [E|[]])]; auto. inversion E. congruence. }
    destruct res as [j|].
    + assert (Ok : forall y, In y (sadd x (oksub m)) <-> In y (oksub m) \/ has_ok y [ESubmit x k sc (Some j)]).
      { intros y. rewrite In_sadd. split.
        - intros [->|H]; auto. right. exists k, sc, j. left. reflexivity.
        - intros [H|(k' & sc' & j' & [E|[]])]; auto. inversion E. auto. }
      destruct sc; cbn; splits.
      all: try solve [auto | intros H; exfalso; apply Nc; exact H | apply NoCan; intros; discriminate
                     | intros y; apply NoChk; auto | apply length_upd
                     | intros y k' j' E; discriminate
                     | intros y Hy; apply In_sadd; auto
                     | intros y k' j' E; inversion E; apply In_sadd; auto].
    + cbn. splits.
      all: try solve [auto | intros H; exfalso; apply Nc; exact H | apply NoCan; intros; discriminate
                     | intros y; apply NoChk; auto | apply length_upd
                     | intros y k' j' E; discriminate
                     | intros y; apply NoOk; intros; discriminate].
Qed.
End Ledger.

Section Ledger2.
Variables (c : cfg) (g : graph) (p : pin).

Lemma has_ok_cons y e es : has_ok y (e :: es) <-> has_ok y [e] \/ has_ok y es.
Proof. apply (has_ok_app y [e] es). Qed.
Lemma submits_cons y e es : submits y (e :: es) <-> submits y [e] \/ submits y es.
Proof.
  unfold submits. split.
  - intros (k & sc & res & [H|H]); [left|right]; exists k, sc, res; [left; exact H|exact H].
  - intros [(k & sc & res & [H|[]])|(k & sc & res & H)]; exists k, sc, res; [left; exact H|right; exact H].
Qed.

Record after (m m' : base) (es : list event) : Prop := {
  af_cseen : cseen m' = true <-> cseen m = true \/ exists js, In (ECancel js) es;
  af_dead1 : forall y, In y (dead m) -> In y (dead m');
  af_dead2 : forall y, In y (dead m') -> In y (dead m) \/ (delFUC p y /\ exists e, In e es /\ is_check e);
  af_dead3 : (exists e, In e es /\ is_check e) -> forall y, delFUC p y -> In y (dead m');
  af_tdel : forall y, In y (tdel m') <-> In y (tdel m) \/ (delT p y /\ exists e, In e es /\ is_check e);
  af_succ1 : forall y, In y (succ m) -> In y (succ m');
  af_succ3 : (exists e, In e es /\ is_check e) -> forall y, delFIN p y -> In y (succ m');
  af_succ4 : forall y k j, In (ESubmit y k false (Some j)) es -> In y (succ m');
  af_oksub : forall y, In y (oksub m') <-> In y (oksub m) \/ has_ok y es;
  af_nlen : length (nsub m') = length (nsub m);
  af_nsub : forall y, y < length (nsub m) -> (0 < nth y (nsub m') 0 <-> 0 < nth y (nsub m) 0 \/ submits y es) }.

Lemma after_fold es : forall m, after m (fold_left (step_base c g p) es m) es.
Proof.
  induction es as [|e es IH]; intros m; cbn [fold_left].
  - constructor; auto; try (intros (e & [] & _)); try tauto.
    + split; auto. intros [H|(js & [])]; auto.
    + intros y. split; auto. intros [H|[_ (e & [] & _)]]; auto.
    + intros y k j [].
    + intros y. split; auto. intros [H|(k & sc & j & [])]; auto.
    + intros y Hy. split; auto. intros [H|(k & sc & res & [])]; auto.
  - destruct (IH (step_base c g p m e)) as [A1 A2 A3 A4 A5 A7 A8 A9 A10 A11 A12].
    destruct (step_base_fields2 c g p m e) as (B1 & B2 & B3 & B4 & B5 & B7 & B8 & B9 & B10 & B11 & B12).
    assert (Chk : (exists e0, In e0 (e :: es) /\ is_check e0) <-> is_check e \/ exists e0, In e0 es /\ is_check e0).
    { split.
      - intros (e0 & [<-|H] & H0); eauto.
      - intros [H|(e0 & H & H0)]; [exists e; split; auto; left; reflexivity|exists e0; split; auto; right; exact H]. }
    constructor.
    + rewrite A1, B1. split.
      * intros [[H|(js & ->)]|(js & H)]; auto; right; exists js; [left; reflexivity|right; exact H].
      * intros [H|(js & [H|H])]; eauto.
    + auto.
    + intros y Hy. rewrite Chk. destruct (A3 y Hy) as [H|[H H']]; [|tauto].
      destruct (B3 y H) as [H0|[H0 H1]]; tauto.
    + intros H y Hy. apply Chk in H. destruct H as [H'|H']; auto.
    + intros y. rewrite A5, B5, Chk. tauto.
    + auto.
    + intros H y Hy. apply Chk in H. destruct H as [H'|H']; auto.
    + intros y k j [H|H]; eauto.
    + intros y. rewrite A10, B10, (has_ok_cons y e es). tauto.
    + congruence.
    + intros y Hy. rewrite A12 by (rewrite B11; exact Hy). rewrite B12 by exact Hy. rewrite (submits_cons y e es). tauto.
Qed.

(** membership in the set of unsuccessful ends computed at the end of a poll *)
Lemma dead_end_In m u : length (nsub m) = length g ->
  (In u (dead_end g m) <->
   In u (dead m) \/ (In u (tdel m) /\ ~ In u (oksub m)) \/
   (u < length g /\ 0 < nth u (nsub m) 0 /\ ~ In u (oksub m))).
Proof.
  intros Hl. unfold dead_end.
  assert (F1 : forall l d, In u (fold_left (fun d x => if mem x (oksub m) then d else sadd x d) l d) <->
                           In u d \/ (In u l /\ ~ In u (oksub m))).
  { induction l as [|a l IH]; intros d; cbn [fold_left]; [cbn; tauto|].
    rewrite IH. destruct (mem a (oksub m)) eqn:E.
    - apply mem_In in E. cbn [In]. split; [tauto|]. intros [H|[[->|H] Hn]]; auto. contradiction.
    - apply mem_false in E. rewrite In_sadd. cbn [In]. split; [|intuition (subst; auto)].
      intros [[->|H]|H]; auto; tauto. }
  assert (F2 : forall l d, In u (fold_left (fun d x => if (0 <? nth x (nsub m) 0) && negb (mem x (oksub m)) then sadd x d else d) l d) <->
                           In u d \/ (In u l /\ 0 < nth u (nsub m) 0 /\ ~ In u (oksub m))).
  { induction l as [|a l IH]; intros d; cbn [fold_left]; [cbn; tauto|].
    rewrite IH. destruct ((0 <? nth a (nsub m) 0) && negb (mem a (oksub m))) eqn:E.
    - apply andb_true_iff in E. destruct E as [E1 E2]. apply Nat.ltb_lt in E1. apply negb_true_iff, mem_false in E2.
      rewrite In_sadd. cbn [In]. split; [|intuition (subst; auto)]. intros [[->|H]|H]; auto; tauto.
    - cbn [In]. split; [tauto|]. intros [H|[[->|H] [H1 H2]]]; auto. exfalso.
      apply andb_false_iff in E. destruct E as [E|E].
      + apply Nat.ltb_ge in E. lia.
      + apply negb_false_iff, mem_In in E. contradiction. }
  rewrite F2, F1. unfold all_nodes. rewrite In_seq_lt. tauto.
Qed.
End Ledger2.

Section Mon2.
Variables (c : cfg) (g : graph) (p : pin).

Lemma flags_ev2 m e k : fam2 k -> In k (flags_ev c g p m e) ->
  k = 2 /\ exists x kd sc res, e = ESubmit x kd sc res /\ in_desc_of g (dead m) x = true.
Proof.
  intros Hk Hin. unfold fam2 in Hk. destruct e as [js|js|x|x kd sc res]; cbn [flags_ev] in Hin.
  - rewrite in_app_iff, !ck_In2 in Hin. intuition (subst; discriminate).
  - rewrite in_app_iff, !ck_In2 in Hin. intuition (subst; discriminate).
  - rewrite ck_In2 in Hin. intuition (subst; discriminate).
  - repeat (rewrite in_app_iff in Hin). rewrite !ck_In2 in Hin.
    destruct Hin as [Hin|[Hin|[Hin|[Hin|[Hin|[Hin|[Hin|[Hin|[Hin|[Hin|Hin]]]]]]]]]];
      try (intuition (subst; discriminate)).
    + destruct Hin as [Hin ->]. split; auto. exists x, kd, sc, res. split; auto.
      apply negb_false_iff in Hin. exact Hin.
    + destruct kd; [rewrite ck_In2 in Hin|rewrite in_app_iff, !ck_In2 in Hin]; intuition (subst; discriminate).
    + destruct res as [j|]; [|destruct Hin]. rewrite !in_app_iff, !ck_In2 in Hin. intuition (subst; discriminate).
Qed.

Lemma mb_fold es : forall M, mb (fold_left (step_ev c g p) es M) = fold_left (step_base c g p) es (mb M).
Proof. induction es as [|e es IH]; intros M; cbn [fold_left]; auto. rewrite IH. reflexivity. Qed.

Definition clean2 (M : mon) : Prop := forall k, fam2 k -> ~ In k (viol M).

(** no submitted node lies strictly below a node of [okd] *)
Definition ev2_ok (okd : nat -> Prop) (e : event) : Prop :=
  match e with ESubmit x _ _ _ => forall u, okd u -> mem x (desc g u) = false | _ => True end.

Lemma fold_step_ev2 (okd : nat -> Prop) es : forall M,
  clean2 M -> (forall u, In u (dead (mb M)) -> okd u) -> (forall u, delFUC p u -> okd u) ->
  (forall e, In e es -> ev2_ok okd e) ->
  clean2 (fold_left (step_ev c g p) es M).
Proof.
  induction es as [|e es IH]; intros M Cl Hd Hf He; cbn [fold_left]; auto.
  apply IH; auto.
  - intros k Hk Hin. cbn [step_ev viol] in Hin. apply in_app_iff in Hin. destruct Hin as [Hin|Hin]; [exact (Cl k Hk Hin)|].
    destruct (flags_ev2 (mb M) e k Hk Hin) as (_ & x & kd & sc & res & -> & Hd').
    unfold in_desc_of in Hd'. apply existsb_exists in Hd'. destruct Hd' as (u & Hu & Hm).
    pose proof (He _ (or_introl eq_refl)) as He'. cbn [ev2_ok] in He'. specialize (He' u (Hd u Hu)). congruence.
  - intros u Hu. cbn [step_ev mb] in Hu.
    destruct (step_base_fields2 c g p (mb M) e) as (_ & _ & B3 & _).
    destruct (B3 u Hu) as [H|[H _]]; auto.
  - intros e' He'. apply He. right. exact He'.
Qed.

Lemma flags_end2 m rows stat k : fam2 k -> In k (flags_end c g p m rows stat) ->
  let n := all_nodes g in let dd := dead_end g m in
  let normal := sstatus_eqb stat SFINISHED || sstatus_eqb stat SFAILURE in
  (k = 21 /\ forallb (fun u => forallb (fun d => fc_row (row_status rows d)) (desc g u)) dd = false) \/
  (k = 22 /\ forallb (fun u => match row_status rows u with FAILED | CANCELLED | TIMEDOUT => true | _ => false end) dd = false) \/
  (k = 23 /\ forallb (fun x => impb (fc_row (row_status rows x))
                          (mem x dd || in_desc_of g dd x || (cseen m && state_eqb (row_status rows x) CANCELLED))) n = false) \/
  (k = 24 /\ (negb normal ||
      forallb (fun x => mem x dd || in_desc_of g dd x || mem x (succ m) || state_eqb (row_status rows x) DRYRUN) n) = false).
Proof.
  intros Hk Hin. unfold flags_end in Hin. cbv zeta in *.
  repeat (rewrite in_app_iff in Hin). rewrite !ck_In2 in Hin. unfold fam2 in Hk.
  intuition (subst; try discriminate; auto).
Qed.
End Mon2.

(** The monitor family of C02 (codes 2, 21, 22, 23, 24 of Exec/ExecTrace.v) is silent on the
    model's own trace:  prop_ok 2 c g ps (run c g (init g) ps) = true.
    This is the predicate the correspondence run evaluates on the IMPLEMENTATION's trace. *)
From Coq Require Import Lia Relations.
From MWF Require Import Base.Util Base.UtilLemmas Exec.ExecBase Exec.ExecGen Exec.ExecRun Exec.ExecTrace Exec.ExecGraph
  Exec.ExecInv Exec.ExecPoll Exec.ExecSteps Exec.ExecPoll2 Exec.ExecPoll3 Exec.ExecPoll4 Exec.ExecPoll5
  Exec.ExecHist Exec.ExecC02 Exec.ExecC06.

Definition fam2 (k : nat) : Prop := k = 2 \/ k = 21 \/ k = 22 \/ k = 23 \/ k = 24.

Lemma ck_In2 b k j : In j (ck b k) <-> b = false /\ j = k.
Proof. unfold ck. destruct b; cbn; intuition congruence. Qed.

Definition fuc (v : State) : Prop := v = FAILED \/ v = UNKNOWN \/ v = CANCELLED.

(** * What delivering reports does to the ledger *)
Lemma deliver_fields2 m x o :
  cseen (deliver m (x, o)) = cseen m /\ oksub (deliver m (x, o)) = oksub m /\ nsub (deliver m (x, o)) = nsub m /\
  (forall y, In y (dead (deliver m (x, o))) <-> In y (dead m) \/ (y = x /\ exists v, o = Some v /\ fuc v)) /\
  (forall y, In y (succ (deliver m (x, o))) <-> In y (succ m) \/ (y = x /\ o = Some FINISHED)) /\
  (forall y, In y (tdel (deliver m (x, o))) <-> In y (tdel m) \/ (y = x /\ o = Some TIMEDOUT)).
Proof.
  destruct o as [v|]; [|cbn; splits; auto; intros y; split; auto; intros [H|[_ H]]; auto;
                          try discriminate; destruct H as (v & H & _); discriminate].
  unfold fuc. destruct v; cbn; splits; auto; intros y; rewrite ?In_sadd; split;
    try (intros [H|H]; auto; fail);
    try (intros [H|[H1 H2]]; auto; try discriminate; try (destruct H2 as (v & H2 & [H3|[H3|H3]]); inversion H2; subst; discriminate); fail);
    try (intros H; left; exact H; fail).
  all: try (intros [->|H]; [right; split; auto; eexists; split; [reflexivity|auto]|left; exact H]).
  all: try (intros [H|[-> _]]; auto).
  all: try (intros [->|H]; [right; auto|left; exact H]).
Qed.

Lemma deliver_fold2 reps : forall m,
  cseen (fold_left deliver reps m) = cseen m /\ oksub (fold_left deliver reps m) = oksub m /\
  nsub (fold_left deliver reps m) = nsub m /\
  (forall y, In y (dead (fold_left deliver reps m)) <-> In y (dead m) \/ exists v, In (y, Some v) reps /\ fuc v) /\
  (forall y, In y (succ (fold_left deliver reps m)) <-> In y (succ m) \/ In (y, Some FINISHED) reps) /\
  (forall y, In y (tdel (fold_left deliver reps m)) <-> In y (tdel m) \/ In (y, Some TIMEDOUT) reps).
Proof.
  induction reps as [|[x o] reps IH]; intros m; cbn [fold_left].
  - splits; auto; intros y; split; auto; intros [H|H]; auto; try destruct H as (v & [] & _); destruct H.
  - destruct (IH (deliver m (x, o))) as (A1 & A2 & A3 & A4 & A5 & A6).
    destruct (deliver_fields2 m x o) as (B1 & B2 & B3 & B4 & B5 & B6).
    splits; try congruence.
    + intros y. rewrite A4, B4. split.
      * intros [[H|[-> (v & -> & Hv)]]|(v & H & Hv)]; auto; right; exists v; split; auto; [left; reflexivity|right; exact H].
      * intros [H|(v & [H|H] & Hv)]; auto; [|right; exists v; auto].
        inversion H; subst. left. right. split; auto. exists v. auto.
    + intros y. rewrite A5, B5. split.
      * intros [[H|[-> ->]]|H]; auto; right; [left; reflexivity|right; exact H].
      * intros [H|[H|H]]; auto. inversion H; subst. auto.
    + intros y. rewrite A6, B6. split.
      * intros [[H|[-> ->]]|H]; auto; right; [left; reflexivity|right; exact H].
      * intros [H|[H|H]]; auto. inversion H; subst. auto.
Qed.

Section Ledger.
Variables (c : cfg) (g : graph) (p : pin).

(** nodes whose FAILED / UNKNOWN / CANCELLED report is delivered in this poll *)
Definition delFUC (y : nat) : Prop := qcode p = QOK /\ exists v, In (y, Some v) (reports p) /\ fuc v.
Definition delT (y : nat) : Prop := qcode p = QOK /\ In (y, Some TIMEDOUT) (reports p).
Definition delFIN (y : nat) : Prop := qcode p = QOK /\ In (y, Some FINISHED) (reports p).

Definition is_check (e : event) : Prop := exists js, e = ECheck js.
Definition submits (y : nat) (es : list event) : Prop := exists k sc res, In (ESubmit y k sc res) es.

Lemma step_base_fields2 m e :
  (cseen (step_base c g p m e) = true <-> cseen m = true \/ exists js, e = ECancel js) /\
  (forall y, In y (dead m) -> In y (dead (step_base c g p m e))) /\
  (forall y, In y (dead (step_base c g p m e)) -> In y (dead m) \/ (delFUC y /\ is_check e)) /\
  (is_check e -> forall y, delFUC y -> In y (dead (step_base c g p m e))) /\
  (forall y, In y (tdel (step_base c g p m e)) <-> In y (tdel m) \/ (delT y /\ is_check e)) /\
  (forall y, In y (succ m) -> In y (succ (step_base c g p m e))) /\
  (is_check e -> forall y, delFIN y -> In y (succ (step_base c g p m e))) /\
  (forall y k j, e = ESubmit y k false (Some j) -> In y (succ (step_base c g p m e))) /\
  (forall y, In y (oksub (step_base c g p m e)) <-> In y (oksub m) \/ has_ok y [e]) /\
  length (nsub (step_base c g p m e)) = length (nsub m) /\
  (forall y, y < length (nsub m) ->
     (0 < nth y (nsub (step_base c g p m e)) 0 <-> 0 < nth y (nsub m) 0 \/ submits y [e])).
Proof.
  assert (NoOk : forall y e', (forall k sc j, e' <> ESubmit y k sc (Some j)) ->
            forall A : Prop, (A <-> A \/ has_ok y [e'])).
  { intros y e' H A. split; auto. intros [H0|(k & sc & j & [E|[]])]; auto. exfalso. exact (H k sc j E). }
  assert (NoSub : forall y e', (forall k sc res, e' <> ESubmit y k sc res) ->
            forall A : Prop, (A <-> A \/ submits y [e'])).
  { intros y e' H A. split; auto. intros [H0|(k & sc & res & [E|[]])]; auto. exfalso. exact (H k sc res E). }
  assert (NoChk : forall e', ~ is_check e' -> forall (A B : Prop), (A <-> A \/ (B /\ is_check e'))).
  { intros e' H A B. tauto. }
  assert (NoCan : forall e', (forall js, e' <> ECancel js) -> forall A : Prop, (A <-> A \/ exists js, e' = ECancel js)).
  { intros e' H A. split; auto. intros [H0|[js E]]; auto. exfalso. exact (H js E). }
  destruct e as [js|js|x|x k sc res]; cbn [step_base].
  - (* ECancel *)
    assert (Nc : ~ is_check (ECancel js)) by (intros [js' E]; discriminate).
    cbn. splits.
    all: try solve [auto | intros H; exfalso; apply Nc; exact H | split; eauto | intros y; apply NoChk; auto
                   | intros y k j E; discriminate | intros y; apply NoOk; intros; discriminate
                   | intros y Hy; apply NoSub; intros; discriminate].
  - (* ECheck *)
    assert (Ic : is_check (ECheck js)) by (exists js; reflexivity).
    destruct (qcode p) eqn:Q.
    + destruct (deliver_fold2 (reports p) (set_check m (map fst (live m)) (sstage m))) as (A1 & A2 & A3 & A4 & A5 & A6).
      cbn [cseen dead tdel succ oksub nsub set_check] in *. splits.
      * rewrite A1. apply NoCan. intros; discriminate.
      * intros y Hy. apply A4. auto.
      * intros y Hy. apply A4 in Hy. destruct Hy as [H|H]; auto. right. split; auto. split; auto.
      * intros _ y [_ H]. apply A4. auto.
      * intros y. rewrite A6. unfold delT. split; [intros [H|H]; auto|intros [H|[[_ H] _]]; auto].
      * intros y Hy. apply A5. auto.
      * intros _ y [_ H]. apply A5. auto.
      * intros y k j E. discriminate.
      * intros y. rewrite A2. apply NoOk. intros; discriminate.
      * rewrite A3. reflexivity.
      * intros y Hy. rewrite A3. apply NoSub. intros; discriminate.
    + cbn. splits.
      all: try solve [auto | intros _ y [H _]; congruence | intros y k j E; discriminate
                     | apply NoCan; intros; discriminate | intros y; apply NoOk; intros; discriminate
                     | intros y Hy; apply NoSub; intros; discriminate
                     | intros y H; auto
                     | intros y; split; auto; intros [H|[[H _] _]]; auto; congruence].
    + cbn. splits.
      all: try solve [auto | intros _ y [H _]; congruence | intros y k j E; discriminate
                     | apply NoCan; intros; discriminate | intros y; apply NoOk; intros; discriminate
                     | intros y Hy; apply NoSub; intros; discriminate
                     | intros y H; auto
                     | intros y; split; auto; intros [H|[[H _] _]]; auto; congruence].
  - (* EGen *)
    assert (Nc : ~ is_check (EGen x)) by (intros [js' E]; discriminate).
    splits.
    all: try solve [auto | intros H; exfalso; apply Nc; exact H | apply NoCan; intros; discriminate
                   | intros y; apply NoChk; auto
                   | intros y k j E; discriminate | intros y; apply NoOk; intros; discriminate
                   | intros y Hy; apply NoSub; intros; discriminate].
  - (* ESubmit *)
    assert (Nc : ~ is_check (ESubmit x k sc res)) by (intros [js' E]; discriminate).
    assert (Nth : forall y, y < length (nsub m) ->
              (0 < nth y (upd x S (nsub m)) 0 <-> 0 < nth y (nsub m) 0 \/ submits y [ESubmit x k sc res])).
    { intros y Hy. destruct (Nat.eq_dec x y) as [->|Hn].
      - rewrite nth_upd_eq by exact Hy. split; [intros _; right; exists k, sc, res; left; reflexivity|lia].
      - rewrite nth_upd_neq by exact Hn. split; auto. intros [H|(k' & sc' & res' & [E|[]])]; auto. inversion E. congruence. }
    destruct res as [j|].
    + assert (Ok : forall y, In y (sadd x (oksub m)) <-> In y (oksub m) \/ has_ok y [ESubmit x k sc (Some j)]).
      { intros y. rewrite In_sadd. split.
        - intros [->|H]; auto. right. exists k, sc, j. left. reflexivity.
        - intros [H|(k' & sc' & j' & [E|[]])]; auto. inversion E. auto. }
      destruct sc; cbn; splits.
      all: try solve [auto | intros H; exfalso; apply Nc; exact H | apply NoCan; intros; discriminate
                     | intros y; apply NoChk; auto | apply length_upd
                     | intros y k' j' E; discriminate
                     | intros y Hy; apply In_sadd; auto
                     | intros y k' j' E; inversion E; apply In_sadd; auto].
    + cbn. splits.
      all: try solve [auto | intros H; exfalso; apply Nc; exact H | apply NoCan; intros; discriminate
                     | intros y; apply NoChk; auto | apply length_upd
                     | intros y k' j' E; discriminate
                     | intros y; apply NoOk; intros; discriminate].
Qed.
End Ledger.

Section Ledger2.
Variables (c : cfg) (g : graph) (p : pin).

Lemma has_ok_cons y e es : has_ok y (e :: es) <-> has_ok y [e] \/ has_ok y es.
Proof. apply (has_ok_app y [e] es). Qed.
Lemma submits_cons y e es : submits y (e :: es) <-> submits y [e] \/ submits y es.
Proof.
  unfold submits. split.
  - intros (k & sc & res & [H|H]); [left|right]; exists k, sc, res; [left; exact H|exact H].
  - intros [(k & sc & res & [H|[]])|(k & sc & res & H)]; exists k, sc, res; [left; exact H|right; exact H].
Qed.

Record after (m m' : base) (es : list event) : Prop := {
  af_cseen : cseen m' = true <-> cseen m = true \/ exists js, In (ECancel js) es;
  af_dead1 : forall y, In y (dead m) -> In y (dead m');
  af_dead2 : forall y, In y (dead m') -> In y (dead m) \/ (delFUC p y /\ exists e, In e es /\ is_check e);
  af_dead3 : (exists e, In e es /\ is_check e) -> forall y, delFUC p y -> In y (dead m');
  af_tdel : forall y, In y (tdel m') <-> In y (tdel m) \/ (delT p y /\ exists e, In e es /\ is_check e);
  af_succ1 : forall y, In y (succ m) -> In y (succ m');
  af_succ3 : (exists e, In e es /\ is_check e) -> forall y, delFIN p y -> In y (succ m');
  af_succ4 : forall y k j, In (ESubmit y k false (Some j)) es -> In y (succ m');
  af_oksub : forall y, In y (oksub m') <-> In y (oksub m) \/ has_ok y es;
  af_nlen : length (nsub m') = length (nsub m);
  af_nsub : forall y, y < length (nsub m) -> (0 < nth y (nsub m') 0 <-> 0 < nth y (nsub m) 0 \/ submits y es) }.

Lemma after_fold es : forall m, after m (fold_left (step_base c g p) es m) es.
Proof.
  induction es as [|e es IH]; intros m; cbn [fold_left].
  - constructor; auto; try (intros (e & [] & _)); try tauto.
    + split; auto. intros [H|(js & [])]; auto.
    + intros y. split; auto. intros [H|[_ (e & [] & _)]]; auto.
    + intros y k j [].
    + intros y. split; auto. intros [H|(k & sc & j & [])]; auto.
    + intros y Hy. split; auto. intros [H|(k & sc & res & [])]; auto.
  - destruct (IH (step_base c g p m e)) as [A1 A2 A3 A4 A5 A7 A8 A9 A10 A11 A12].
    destruct (step_base_fields2 c g p m e) as (B1 & B2 & B3 & B4 & B5 & B7 & B8 & B9 & B10 & B11 & B12).
    assert (Chk : (exists e0, In e0 (e :: es) /\ is_check e0) <-> is_check e \/ exists e0, In e0 es /\ is_check e0).
    { split.
      - intros (e0 & [<-|H] & H0); eauto.
      - intros [H|(e0 & H & H0)]; [exists e; split; auto; left; reflexivity|exists e0; split; auto; right; exact H]. }
    constructor.
    + rewrite A1, B1. split.
      * intros [[H|(js & ->)]|(js & H)]; auto; right; exists js; [left; reflexivity|right; exact H].
      * intros [H|(js & [H|H])]; eauto.
    + auto.
    + intros y Hy. rewrite Chk. destruct (A3 y Hy) as [H|[H H']]; [|tauto].
      destruct (B3 y H) as [H0|[H0 H1]]; tauto.
    + intros H y Hy. apply Chk in H. destruct H as [H'|H']; auto.
    + intros y. rewrite A5, B5, Chk. tauto.
    + auto.
    + intros H y Hy. apply Chk in H. destruct H as [H'|H']; auto.
    + intros y k j [H|H]; eauto.
    + intros y. rewrite A10, B10, (has_ok_cons y e es). tauto.
    + congruence.
    + intros y Hy. rewrite A12 by (rewrite B11; exact Hy). rewrite B12 by exact Hy. rewrite (submits_cons y e es). tauto.
Qed.

(** membership in the set of unsuccessful ends computed at the end of a poll *)
Lemma dead_end_In m u : length (nsub m) = length g ->
  (In u (dead_end g m) <->
   In u (dead m) \/ (In u (tdel m) /\ ~ In u (oksub m)) \/
   (u < length g /\ 0 < nth u (nsub m) 0 /\ ~ In u (oksub m))).
Proof.
  intros Hl. unfold dead_end.
  assert (F1 : forall l d, In u (fold_left (fun d x => if mem x (oksub m) then d else sadd x d) l d) <->
                           In u d \/ (In u l /\ ~ In u (oksub m))).
  { induction l as [|a l IH]; intros d; cbn [fold_left]; [cbn; tauto|].
    rewrite IH. destruct (mem a (oksub m)) eqn:E.
    - apply mem_In in E. cbn [In]. split; [tauto|]. intros [H|[[->|H] Hn]]; auto. contradiction.
    - apply mem_false in E. rewrite In_sadd. cbn [In]. split; [|intuition (subst; auto)].
      intros [[->|H]|H]; auto; tauto. }
  assert (F2 : forall l d, In u (fold_left (fun d x => if (0 <? nth x (nsub m) 0) && negb (mem x (oksub m)) then sadd x d else d) l d) <->
                           In u d \/ (In u l /\ 0 < nth u (nsub m) 0 /\ ~ In u (oksub m))).
  { induction l as [|a l IH]; intros d; cbn [fold_left]; [cbn; tauto|].
    rewrite IH. destruct ((0 <? nth a (nsub m) 0) && negb (mem a (oksub m))) eqn:E.
    - apply andb_true_iff in E. destruct E as [E1 E2]. apply Nat.ltb_lt in E1. apply negb_true_iff, mem_false in E2.
      rewrite In_sadd. cbn [In]. split; [|intuition (subst; auto)]. intros [[->|H]|H]; auto; tauto.
    - cbn [In]. split; [tauto|]. intros [H|[[->|H] [H1 H2]]]; auto. exfalso.
      apply andb_false_iff in E. destruct E as [E|E].
      + apply Nat.ltb_ge in E. lia.
      + apply negb_false_iff, mem_In in E. contradiction. }
  rewrite F2, F1. unfold all_nodes. rewrite In_seq_lt. tauto.
Qed.
End Ledger2.

Section Mon2.
Variables (c : cfg) (g : graph) (p : pin).

Lemma flags_ev2 m e k : fam2 k -> In k (flags_ev c g p m e) ->
  k = 2 /\ exists x kd sc res, e = ESubmit x kd sc res /\ in_desc_of g (dead m) x = true.
Proof.
  intros Hk Hin. unfold fam2 in Hk. destruct e as [js|js|x|x kd sc res]; cbn [flags_ev] in Hin.
  - rewrite in_app_iff, !ck_In2 in Hin. intuition (subst; discriminate).
  - rewrite in_app_iff, !ck_In2 in Hin. intuition (subst; discriminate).
  - rewrite ck_In2 in Hin. intuition (subst; discriminate).
  - repeat (rewrite in_app_iff in Hin). rewrite !ck_In2 in Hin.
    destruct Hin as [Hin|[Hin|[Hin|[Hin|[Hin|[Hin|[Hin|[Hin|[Hin|[Hin|Hin]]]]]]]]]];
      try (intuition (subst; discriminate)).
    + destruct Hin as [Hin ->]. split; auto. exists x, kd, sc, res. split; auto.
      apply negb_false_iff in Hin. exact Hin.
    + destruct kd; [rewrite ck_In2 in Hin|rewrite in_app_iff, !ck_In2 in Hin]; intuition (subst; discriminate).
    + destruct res as [j|]; [|destruct Hin]. rewrite !in_app_iff, !ck_In2 in Hin. intuition (subst; discriminate).
Qed.

Lemma mb_fold es : forall M, mb (fold_left (step_ev c g p) es M) = fold_left (step_base c g p) es (mb M).
Proof. induction es as [|e es IH]; intros M; cbn [fold_left]; auto. rewrite IH. reflexivity. Qed.

Definition clean2 (M : mon) : Prop := forall k, fam2 k -> ~ In k (viol M).

(** no submitted node lies strictly below a node of [okd] *)
Definition ev2_ok (okd : nat -> Prop) (e : event) : Prop :=
  match e with ESubmit x _ _ _ => forall u, okd u -> mem x (desc g u) = false | _ => True end.

Lemma fold_step_ev2 (okd : nat -> Prop) es : forall M,
  clean2 M -> (forall u, In u (dead (mb M)) -> okd u) -> (forall u, delFUC p u -> okd u) ->
  (forall e, In e es -> ev2_ok okd e) ->
  clean2 (fold_left (step_ev c g p) es M).
Proof.
  induction es as [|e es IH]; intros M Cl Hd Hf He; cbn [fold_left]; auto.
  apply IH; auto.
  - intros k Hk Hin. cbn [step_ev viol] in Hin. apply in_app_iff in Hin. destruct Hin as [Hin|Hin]; [exact (Cl k Hk Hin)|].
    destruct (flags_ev2 (mb M) e k Hk Hin) as (_ & x & kd & sc & res & -> & Hd').
    unfold in_desc_of in Hd'. apply existsb_exists in Hd'. destruct Hd' as (u & Hu & Hm).
    pose proof (He _ (or_introl eq_refl)) as He'. cbn [ev2_ok] in He'. specialize (He' u (Hd u Hu)). congruence.
  - intros u Hu. cbn [step_ev mb] in Hu.
    destruct (step_base_fields2 c g p (mb M) e) as (_ & _ & B3 & _).
    destruct (B3 u Hu) as [H|[H _]]; auto.
  - intros e' He'. apply He. right. exact He'.
Qed.

Lemma flags_end2 m rows stat k : fam2 k -> In k (flags_end c g p m rows stat) ->
  let n := all_nodes g in let dd := dead_end g m in
  let normal := sstatus_eqb stat SFINISHED || sstatus_eqb stat SFAILURE in
  (k = 21 /\ forallb (fun u => forallb (fun d => fc_row (row_status rows d)) (desc g u)) dd = false) \/
  (k = 22 /\ forallb (fun u => match row_status rows u with FAILED | CANCELLED | TIMEDOUT => true | _ => false end) dd = false) \/
  (k = 23 /\ forallb (fun x => impb (fc_row (row_status rows x))
                          (mem x dd || in_desc_of g dd x || (cseen m && state_eqb (row_status rows x) CANCELLED))) n = false) \/
  (k = 24 /\ (negb normal ||
      forallb (fun x => mem x dd || in_desc_of g dd x || mem x (succ m) || state_eqb (row_status rows x) DRYRUN) n) = false).
Proof.
  intros Hk Hin. unfold flags_end in Hin. cbv zeta in *.
  repeat (rewrite in_app_iff in Hin). rewrite !ck_In2 in Hin. unfold fam2 in Hk.
  intuition (subst; try discriminate; auto).
Qed.
End Mon2.

Section Whole2.
Variables (c : cfg) (g : graph).
Hypothesis W : WF g.
Hypothesis Ha : 0 < attempts c.

(** a node whose whole sub-tree is failed/cancelled *)
Definition Dead (s : st) (u : nat) : Prop := u < length g /\ forall d, reach g u d -> FC s d.

Record L2 (s : st) (b : base) : Prop := {
  l2_dead : forall u, In u (dead b) -> Dead s u;
  l2_fc : forall x, FC s x -> (exists w, In w (dead b) /\ reach g w x) \/
                             (cseen b = true /\ In x (cancelled s) /\ incl (parents (attr g x)) (completed s));
  l2_succ : forall x, In x (completed s) -> In x (succ b) \/ status (getrec s x) = DRYRUN;
  l2_cseen : cseen b = canceled s;
  l2_tdel : tdel b = [];
  l2_oksub : oksub b = [];
  l2_nlen : length (nsub b) = length g;
  l2_nsub : forall x, nth x (nsub b) 0 = 0 }.

Lemma desc_In u x : u < length g -> (mem x (desc g u) = true <-> x <> u /\ reach g u x).
Proof.
  intros Hu. unfold desc. rewrite mem_In, In_srem, (bfs_subtree_iff g u x W Hu). tauto.
Qed.

Lemma one_poll2 s p s1 r M : Good c g s -> Ja g s [] [] -> valid_pin s p = true -> poll c g s p = (s1, r) ->
  clean2 M -> L2 s (mb M) ->
  let M1 := step_poll c g M (p, (rev (evs s1), rows_of s1, r)) in
  clean2 M1 /\ L2 s1 (mb M1).
Proof.
  intros [I T] JA V E Cl [Ld Lf Ls Lc Lt Lo Lnl Lns]. cbv zeta. unfold step_poll.
  pose proof (i2_inv g s I) as I0.
  (* everything the state-level theorems say about this poll *)
  pose proof (poll_events c g s p W I0 V) as PE.
  pose proof (poll_no_submit_same c g s p W I0 T V) as PN.
  pose proof (poll_reported c g s p W I0 V) as PR.
  pose proof (poll_subs c g s p W I0 V) as PS. cbv zeta in PS.
  pose proof (poll_exact c g s p W Ha I0 V) as PX. cbv zeta in PX.
  pose proof (poll_completed c g s p W I0 V) as PC. cbv zeta in PC.
  pose proof (poll_mono c g s p W I0 V) as PM. cbv zeta in PM.
  pose proof (poll_canceled c g s p W I0 V) as PCn.
  pose proof (poll_evs c g s p W I0 V) as (new & EV & Hnew).
  pose proof (poll_Inv2 c g s p W I T V) as I1.
  pose proof (poll_Ja c g s p W I0 V JA) as JA1.
  pose proof (poll_status c g s p) as PSt.
  rewrite E in *. cbn [fst snd] in *.
  destruct PS as [PS1 PS2]. destruct PC as [PC1 PC2]. destruct PM as (PMf & PMc & PMk & _).
  destruct (Ja_boundary g s1 (i2_inv g s1 I1) JA1) as [JB1 JB2].
  apply valid_pin_spec in V. destruct V as [_ Vi].
  assert (FCm : forall y, FC s y -> FC s1 y) by (intros y [H|H]; [left|right]; auto).
  (* the events of the poll *)
  set (es := rev (evs s1)).
  assert (InEs : forall e, In e es <-> In e (evs s1)) by (intros e; unfold es; rewrite <- in_rev; tauto).
  rewrite poll_mid_evs in EV.
  assert (Fcan : (exists js, In (ECancel js) es) <-> cancel_req p = true).
  { split.
    - intros [js H]. apply InEs in H. rewrite EV in H. rewrite !in_app_iff in H. destruct H as [H|[H|H]].
      + destruct (Hnew _ H) as [[x Hx]|(x & k & sc & res & Hx)]; discriminate.
      + destruct (negb (dry c)); [destruct H as [H|[]]; discriminate|destruct H].
      + destruct (cancel_req p); [reflexivity|destruct H].
    - intros Cq. rewrite Cq in EV. eexists. apply InEs. rewrite EV. rewrite !in_app_iff. right. right. left. reflexivity. }
  assert (Fchk : (exists e, In e es /\ is_check e) <-> dry c = false).
  { split.
    - intros (e & H & [js ->]). apply InEs in H. rewrite EV in H. rewrite !in_app_iff in H. destruct H as [H|[H|H]].
      + destruct (Hnew _ H) as [[x Hx]|(x & k & sc & res & Hx)]; discriminate.
      + destruct (dry c); [destruct H|reflexivity].
      + destruct (cancel_req p); [destruct H as [H|[]]; discriminate|destruct H].
    - intros D. rewrite D in EV. cbn [negb] in EV. eexists. split; [|eexists; reflexivity].
      apply InEs. rewrite EV. rewrite !in_app_iff. right. left. left. reflexivity. }
  assert (Hok : forall y, has_ok y es <-> has_ok y (evs s1)).
  { intros y. unfold has_ok. split; intros (k & sc & j & H); exists k, sc, j; apply InEs; exact H. }
  assert (Hsub : forall y, submits y es <-> exists k sc res, In (ESubmit y k sc res) (evs s1)).
  { intros y. unfold submits. split; intros (k & sc & res & H); exists k, sc, res; apply InEs; exact H. }
  (* the ledger before the first event *)
  set (M0 := pre_poll p es M).
  assert (P0 : clean2 M0 /\ dead (mb M0) = dead (mb M) /\ succ (mb M0) = succ (mb M) /\ tdel (mb M0) = [] /\
               oksub (mb M0) = [] /\ nsub (mb M0) = nsub (mb M) /\
               (cseen (mb M0) = true <-> cseen (mb M) = true \/ cancel_req p = true)).
  { unfold M0, pre_poll. destruct (cancel_req p); [|splits; auto; intuition discriminate]. cbn [mb viol].
    splits; auto; [|cbn; tauto].
    intros k Hk Hin. apply in_app_iff in Hin. destruct Hin as [Hin|Hin]; [exact (Cl k Hk Hin)|].
    apply ck_In2 in Hin. destruct Hin as [_ ->]. unfold fam2 in Hk. intuition discriminate. }
  destruct P0 as (Cl0 & P0d & P0s & P0t & P0o & P0n & P0c).
  (* a delivered FAILED / UNKNOWN / CANCELLED report kills the whole sub-tree *)
  assert (DelDead : forall u, delFUC p u -> dry c = false -> Dead s1 u).
  { intros u [Q (v & Hin & Hv)] D. split; [apply (i_bound g s I0); right; left; eapply Vi; eauto|].
    pose proof (PR D Q u v Hin) as R. destruct Hv as [ -> | [ -> | -> ] ]; cbn [reported_ok] in R; destruct R as [R _];
      intros d Rd; [left|left|right]; auto. }
  assert (OldDead : forall u, In u (dead (mb M)) -> Dead s1 u).
  { intros u Hu. destruct (Ld u Hu) as [A B]. split; auto. }
  (* no submitted node lies strictly below a dead node *)
  set (okd := fun u => In u (dead (mb M)) \/ delFUC p u).
  assert (Hev : forall e, In e es -> ev2_ok g okd e).
  { intros e He. apply InEs in He. destruct e as [js|js|x|x k sc res]; cbn [ev2_ok]; auto.
    destruct (PE x k sc res He) as (_ & D & Hxl & _ & Anc & _).
    intros u [Hu|Hu].
    - destruct (Ld u Hu) as [Hul Hd]. destruct (mem x (desc g u)) eqn:Em; auto. exfalso.
      apply (desc_In u x Hul) in Em. destruct Em as [_ R]. apply (Anc u); auto. apply Hd. apply reach_refl.
    - destruct (DelDead u Hu D) as [Hul Hd]. destruct (mem x (desc g u)) eqn:Em; auto. exfalso.
      apply (desc_In u x Hul) in Em. destruct Em as [Hne R]. apply Hne. symmetry.
      apply (PN x k sc res He u); auto. apply Hd. apply reach_refl. }
  assert (Cl' : clean2 (fold_left (step_ev c g p) es M0)).
  { apply (fold_step_ev2 c g p okd); auto.
    - intros u Hu. left. rewrite <- P0d. exact Hu.
    - intros u Hu. right. exact Hu. }
  set (M' := fold_left (step_ev c g p) es M0) in *.
  pose proof (after_fold c g p es (mb M0)) as AF. rewrite <- (mb_fold c g p es M0) in AF. fold M' in AF.
  destruct AF as [Ac Ad1 Ad2 Ad3 At As1 As3 As4 Ao Anl Ans].
  rewrite P0d in Ad1, Ad2. rewrite P0t in At. rewrite P0s in As1. rewrite P0o in Ao. rewrite P0n in Anl, Ans.
  (* the cancel flag *)
  assert (CS : cseen (mb M') = canceled s1).
  { rewrite PCn. apply Bool.eq_iff_eq_true. rewrite Ac, P0c, Fcan, Lc, orb_true_iff. tauto. }
  (* no successful submission for a node that ends failed/cancelled *)
  assert (NoOk : forall w, FC s1 w -> ~ In w (oksub (mb M'))).
  { intros w Fw Hw. apply Ao in Hw. destruct Hw as [[]|Hw]. apply Hok in Hw.
    destruct (i_dj_fc g s1 (i2_inv g s1 I1) w Fw) as (A & B & _). destruct (PS2 w Hw); contradiction. }
  (* the unsuccessful ends recorded at the end of this poll have their sub-trees swept *)
  set (dd := dead_end g (mb M')).
  assert (DDin : forall u, In u dd <-> In u (dead (mb M')) \/ (In u (tdel (mb M')) /\ ~ In u (oksub (mb M'))) \/
                                       (u < length g /\ 0 < nth u (nsub (mb M')) 0 /\ ~ In u (oksub (mb M')))).
  { intros u. apply dead_end_In. rewrite Anl. exact Lnl. }
  assert (FailedDead : forall u, u < length g -> In u (failed s1) -> Dead s1 u).
  { intros u Hul Hu. split; auto. intros d Rd. apply (closed_desc g s1 u W I1); auto. }
  assert (DD : forall u, In u dd -> Dead s1 u).
  { intros u Hu. apply DDin in Hu. destruct Hu as [Hu|[[Hu Hn]|(Hul & Hu & Hn)]].
    - destruct (Ad2 u Hu) as [H|[H Hc]]; [apply OldDead; exact H|]. apply DelDead; auto. apply Fchk. exact Hc.
    - apply At in Hu. destruct Hu as [[]|[[Q Hin] Hc]]. apply Fchk in Hc.
      pose proof (PR Hc Q u TIMEDOUT Hin) as R. cbn [reported_ok] in R. destruct R as (_ & _ & [[Hf _]|(sc & j & Hj)]).
      + apply FailedDead; auto. apply (i_bound g s1 (i2_inv g s1 I1)). tauto.
      + exfalso. apply Hn. apply Ao. right. apply Hok. exists Restart, sc, j. exact Hj.
    - apply Ans in Hu; [|rewrite Lnl; exact Hul]. destruct Hu as [Hu|Hu]; [rewrite Lns in Hu; lia|].
      apply Hsub in Hu. destruct Hu as (k & sc & res & Hu). destruct res as [j|].
      + exfalso. apply Hn. apply Ao. right. apply Hok. exists k, sc, j. exact Hu.
      + destruct (PS1 u k sc Hu) as [H|H]; [exfalso; apply Hn; apply Ao; right; apply Hok; exact H|].
        apply FailedDead; auto. }
  (* every failed/cancelled node has a cause the ledger knows *)
  assert (FCdd : forall x, FC s1 x -> (exists w, In w dd /\ reach g w x) \/
                                      (cseen (mb M') = true /\ In x (cancelled s1) /\ incl (parents (attr g x)) (completed s1))).
  { intros x Fx. destruct (PX x Fx) as [H|[(P1 & P2 & P3)|(w & Rw & Rx & Fw)]].
    - destruct (Lf x H) as [(w & Hw & Rw)|(C1 & C2 & C3)].
      + left. exists w. split; auto. apply DDin. left. auto.
      + right. splits; auto. apply Ac. rewrite P0c. auto. intros z Hz. auto.
    - right. rewrite CS. auto.
    - left. exists w. split; auto. apply DDin.
      assert (Hwl : w < length g) by (apply (i_bound g s1 (i2_inv g s1 I1)); destruct Fw; auto).
      destruct Rw as [(v & Hin & Hv)|(k & sc & Hev')].
      + (* a dispatched unsuccessful report *)
        assert (Dn : dry c = false /\ qcode p = QOK /\ In (w, Some v) (reports p)).
        { unfold done_final, delivered in Hin.
          destruct (dry c); cbn [negb andb] in Hin; [rewrite ?andb_false_r in Hin; destruct Hin|].
          rewrite andb_true_r in Hin. destruct (qcode p); cbn in Hin; try destruct Hin. auto. }
        destruct Dn as (D & Q & Hin').
        assert (Hc : exists e, In e es /\ is_check e) by (apply Fchk; exact D).
        destruct Hv as [ -> | [ -> | [ -> | -> ] ] ].
        * left. apply Ad3; auto. split; auto. exists FAILED. unfold fuc. auto.
        * left. apply Ad3; auto. split; auto. exists UNKNOWN. unfold fuc. auto.
        * left. apply Ad3; auto. split; auto. exists CANCELLED. unfold fuc. auto.
        * right. left. split; [|apply NoOk; exact Fw]. apply At. right. split; auto. split; auto.
      + (* a failed submission *)
        right. right. split; [exact Hwl|]. split; [|apply NoOk; exact Fw].
        apply Ans; [rewrite Lnl; exact Hwl|]. right. apply Hsub. exists k, sc, None. exact Hev'. }
  (* completed nodes succeeded *)
  assert (SUCC : forall x, In x (completed s1) -> In x (succ (mb M')) \/ status (getrec s1 x) = DRYRUN).
  { intros x Hx. destruct (PC2 x Hx) as [H|[H|[(k & j & H)|H]]]; auto.
    - destruct (Ls x H) as [B|B]; [left; auto|right; rewrite (PC1 x H); exact B].
    - left. unfold done_final, delivered in H.
      destruct (dry c) eqn:D; cbn [negb andb] in H; [rewrite ?andb_false_r in H; destruct H|].
      rewrite andb_true_r in H. destruct (qcode p) eqn:Q; cbn in H; try destruct H.
      apply As3; [apply Fchk; reflexivity|]. split; auto.
    - left. apply (As4 x k j). apply InEs. exact H. }
  split.
  - (* the verdicts of this poll *)
    intros k Hk Hin. cbn [viol] in Hin. apply in_app_iff in Hin. destruct Hin as [Hin|Hin]; [exact (Cl' k Hk Hin)|].
    destruct (flags_end2 c g p (mb M') (rows_of s1) r k Hk Hin) as [[_ B]|[[_ B]|[[_ B]|[_ B]]]]; fold dd in B.
    + (* 21 *)
      assert (B' : forallb (fun u => forallb (fun d => fc_row (row_status (rows_of s1) d)) (desc g u)) dd = true).
      { apply forallb_forall. intros u Hu. apply forallb_forall. intros d Hd.
        destruct (DD u Hu) as [Hul Hsw]. apply mem_In in Hd. apply (desc_In u d Hul) in Hd. destruct Hd as [Hne Rd].
        rewrite row_status_rows_of.
        destruct (desc_status g s1 u d W I1 (Hsw u (reach_refl g u)) Rd (fun E' => Hne (eq_sym E')) (Hsw d Rd)) as [H|H];
          rewrite H; reflexivity. }
      congruence.
    + (* 22 *)
      assert (B' : forallb (fun u => match row_status (rows_of s1) u with FAILED | CANCELLED | TIMEDOUT => true | _ => false end) dd = true).
      { apply forallb_forall. intros u Hu. destruct (DD u Hu) as [_ Hsw]. rewrite row_status_rows_of.
        destruct (e_sf g s1 (i2_ext g s1 I1) u (Hsw u (reach_refl g u))) as [H|[H|H]]; rewrite H; reflexivity. }
      congruence.
    + (* 23 *)
      assert (B' : forallb (fun x => impb (fc_row (row_status (rows_of s1) x))
                 (mem x dd || in_desc_of g dd x || (cseen (mb M') && state_eqb (row_status (rows_of s1) x) CANCELLED)))
                 (all_nodes g) = true).
      { apply forallb_forall. intros x Hx. rewrite row_status_rows_of. unfold impb.
        destruct (fc_row (status (getrec s1 x))) eqn:Ef; [|reflexivity]. cbn [negb orb].
        assert (Fs : fc_status (status (getrec s1 x))).
        { unfold fc_status. destruct (status (getrec s1 x)); try discriminate; auto. }
        pose proof (JB1 x Fs) as Fx.
        destruct (FCdd x Fx) as [(w & Hw & Rw)|(C1 & C2 & C3)].
        - destruct (Nat.eq_dec w x) as [->|Hne].
          + apply mem_In in Hw. rewrite Hw. reflexivity.
          + assert (Hd : in_desc_of g dd x = true).
            { unfold in_desc_of. apply existsb_exists. exists w. split; auto.
              apply (desc_In w x (proj1 (DD w Hw))). auto. }
            rewrite Hd, orb_true_r. reflexivity.
        - rewrite C1, (JB2 x C2 C3). cbn. rewrite !orb_true_r. reflexivity. }
      congruence.
    + (* 24 *)
      apply orb_false_iff in B. destruct B as [B1 B2]. apply negb_false_iff in B1.
      assert (Hn : r = SFINISHED \/ r = SFAILURE).
      { destruct r; cbn in B1; try discriminate; auto. }
      destruct PSt as [PSt|PSt]; [rewrite PSt in Hn; destruct Hn; discriminate|].
      rewrite PSt in Hn. destruct (completion_normal g s1 Hn) as [Cn Cx].
      assert (B' : forallb (fun x => mem x dd || in_desc_of g dd x || mem x (succ (mb M')) ||
                                     state_eqb (row_status (rows_of s1) x) DRYRUN) (all_nodes g) = true).
      { apply forallb_forall. intros x Hx. apply In_seq_lt in Hx. rewrite row_status_rows_of.
        destruct (Cx x Hx) as [Hc|Hf].
        - destruct (SUCC x Hc) as [H|H].
          + apply mem_In in H. rewrite H, !orb_true_r. reflexivity.
          + rewrite H. cbn. rewrite !orb_true_r. reflexivity.
        - destruct (FCdd x (or_introl Hf)) as [(w & Hw & Rw)|(_ & C2 & _)]; [|rewrite Cn in C2; destruct C2].
          destruct (Nat.eq_dec w x) as [->|Hne].
          + apply mem_In in Hw. rewrite Hw. reflexivity.
          + assert (Hd : in_desc_of g dd x = true).
            { unfold in_desc_of. apply existsb_exists. exists w. split; auto.
              apply (desc_In w x (proj1 (DD w Hw))). auto. }
            rewrite Hd, orb_true_r. reflexivity. }
      congruence.
  - (* the coupling at the next poll boundary *)
    cbn [mb]. unfold end_base. constructor; cbn [dead succ cseen tdel oksub nsub]; auto.
    + rewrite map_length, Anl. exact Lnl.
    + intros x. clear. generalize (nsub (mb M')). intros l. revert x. induction l as [|a l IH]; intros [|x]; cbn; auto.
Qed.
End Whole2.

Section Whole2b.
Variables (c : cfg) (g : graph).
Hypothesis W : WF g.
Hypothesis Ha : 0 < attempts c.

Lemma mon2_gen ps : forall s M, Good c g s -> Ja g s [] [] -> valid_pins c g s ps = true ->
  clean2 M -> L2 g s (mb M) ->
  clean2 (fold_left (step_poll c g) (zip ps (run c g s ps)) M).
Proof.
  induction ps as [|p ps IH]; intros s M G JA V Cl L; cbn [run zip fold_left]; auto.
  cbn [valid_pins] in V. apply andb_true_iff in V. destruct V as [V1 V2].
  pose proof (Good_poll c g s p W G V1) as G1.
  pose proof (poll_Ja c g s p W (i2_inv g s (proj1 G)) V1 JA) as JA1.
  destruct (poll c g s p) as [s1 r] eqn:E. cbn [fst] in G1, JA1.
  destruct (one_poll2 c g W Ha s p s1 r M G JA V1 E Cl L) as [Cl1 L1].
  destruct r; cbn [zip fold_left]; try (destruct ps; exact Cl1).
  apply (IH s1); auto.
Qed.

Theorem C02_monitor_proof ps : valid_pins c g (init g) ps = true ->
  prop_ok 2 c g ps (run c g (init g) ps) = true.
Proof.
  intros V. unfold prop_ok, viol_of, monitor.
  assert (Cl : clean2 (fold_left (step_poll c g) (zip ps (run c g (init g) ps)) (mon0 g))).
  { apply (mon2_gen ps (init g)); auto.
    - apply Good_init.
    - apply init_Ja.
    - intros k _ [].
    - unfold mon0, base0. constructor; cbn [mb dead succ cseen tdel oksub nsub].
      all: try solve [auto | intros u [] | intros x [[]|[]] | apply map_length].
      intros x. clear. revert x. induction g as [|a g' IH]; intros [|x]; cbn; auto. }
  cbn [family forallb]. rewrite !andb_true_iff. unfold clean2, fam2 in Cl.
  splits; auto; apply negb_true_iff, mem_false; apply Cl; auto 6.
Qed.
End Whole2b.

Theorem C02_monitor_wf c g ps : wf_graph g = true -> 0 < attempts c ->
  valid_pins c g (init g) ps = true -> prop_ok 2 c g ps (run c g (init g) ps) = true.
Proof. intros Wf Ha V. apply C02_monitor_proof; auto. apply wf_graph_WF. exact Wf. Qed.

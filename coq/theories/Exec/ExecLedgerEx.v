(** Concrete graphs and histories used as non-vacuity witnesses by
    Props/C01.v, C03.v, C04.v, C07.v (definitions only). *)
From MWF Require Import Exec.ExecBase Exec.ExecGen Exec.ExecRun Exec.ExecTrace.

(** a diamond 0 -> {1, 2} -> 3; node 0 restartable once, node 2 a local step *)
Definition ex_g : graph :=
  [ {| parents := []; children := [1; 2]; scheduled := true; has_restart := true; rlimit := 1 |};
    {| parents := [0]; children := [3]; scheduled := true; has_restart := false; rlimit := 0 |};
    {| parents := [0]; children := [3]; scheduled := false; has_restart := false; rlimit := 0 |};
    {| parents := [1; 2]; children := []; scheduled := true; has_restart := false; rlimit := 0 |} ].
Definition ex_c : cfg := {| throttle := 1; attempts := 2; dry := false |}.
Definition ex_c0 : cfg := {| throttle := 0; attempts := 1; dry := false |}.
Definition mkpin (cr : bool) (q : QCode) (r : list (nat * option State)) (sb : list bool) : pin :=
  {| cancel_req := cr; qcode := q; reports := r; psubs := sb |}.

(** failed first submission attempt, a timeout with restart, a query that
    answers NOJOBS, a RUNNING report, throttle 1 delaying node 2, a local step *)
Definition ex_ps : list pin :=
  [ mkpin false QOK [] [false; true];
    mkpin false QOK [(0, Some TIMEDOUT)] [];
    mkpin false QNOJOBS [(0, Some FINISHED)] [];
    mkpin false QOK [(0, Some FINISHED)] [];
    mkpin false QOK [(1, Some RUNNING)] [];
    mkpin false QOK [(1, Some FINISHED)] [];
    mkpin false QOK [] [];
    mkpin false QOK [(3, Some FINISHED)] [] ].

(** a cancel request while node 0 runs; its job then times out: no restart *)
Definition ex_ps_cancel : list pin :=
  [ mkpin false QOK [] [];
    mkpin true QOK [(0, Some RUNNING)] [];
    mkpin false QOK [(0, Some TIMEDOUT)] [] ].

Definition n_submits (os : list obs) : nat :=
  length (filter (fun e => match e with ESubmit _ _ _ (Some _) => true | _ => false end)
                 (concat (map (fun o => fst (fst o)) os))).
Definition last_status (os : list obs) : SStatus := snd (last os ([], [], SRUNNING)).

(** observations that violate the properties (the monitor has teeth):
    node 1 submitted together with node 0 in the first poll *)
Definition ex_bad_obs : list obs :=
  [ ([ECheck []; EGen 0; ESubmit 0 Main true (Some 0); EGen 1; ESubmit 1 Main true (Some 1)],
     [(PENDING, [0], 0); (PENDING, [1], 0); (INITIALIZED, [], 0); (INITIALIZED, [], 0)], SRUNNING) ].
(** a restart submitted after the cancel request *)
Definition ex_bad_obs_cancel : list obs :=
  [ ([ECheck []; EGen 0; ESubmit 0 Main true (Some 0)],
     [(PENDING, [0], 0); (INITIALIZED, [], 0); (INITIALIZED, [], 0); (INITIALIZED, [], 0)], SRUNNING);
    ([ECancel [0]; ECheck [0]],
     [(RUNNING, [0], 0); (INITIALIZED, [], 0); (INITIALIZED, [], 0); (INITIALIZED, [], 0)], SRUNNING);
    ([ECheck [0]; EGen 0; ESubmit 0 Restart true (Some 1)],
     [(TIMEDOUT, [0; 1], 1); (INITIALIZED, [], 0); (INITIALIZED, [], 0); (INITIALIZED, [], 0)], SRUNNING) ].

(** an unthrottled happy run: 1 and 2 are staged and submitted in the same poll *)
Definition ex_ps0 : list pin :=
  [ mkpin false QOK [] [];
    mkpin false QOK [(0, Some FINISHED)] [];
    mkpin false QOK [(1, Some FINISHED)] [];
    mkpin false QOK [(3, Some FINISHED)] [] ].

(** unthrottled, node 2 staged (its parent finished) but left INITIALIZED *)
Definition ex_bad_obs0 : list obs :=
  [ ([ECheck []; EGen 0; ESubmit 0 Main true (Some 0)],
     [(PENDING, [0], 0); (INITIALIZED, [], 0); (INITIALIZED, [], 0); (INITIALIZED, [], 0)], SRUNNING);
    ([ECheck [0]; EGen 1; ESubmit 1 Main true (Some 1)],
     [(FINISHED, [0], 0); (PENDING, [1], 0); (INITIALIZED, [], 0); (INITIALIZED, [], 0)], SRUNNING) ].

(** node 0 resubmitted after it finished *)
Definition ex_bad_obs_resubmit : list obs :=
  [ ([ECheck []; EGen 0; ESubmit 0 Main true (Some 0)],
     [(PENDING, [0], 0); (INITIALIZED, [], 0); (INITIALIZED, [], 0); (INITIALIZED, [], 0)], SRUNNING);
    ([ECheck [0]; EGen 0; ESubmit 0 Main true (Some 1)],
     [(PENDING, [0; 1], 0); (INITIALIZED, [], 0); (INITIALIZED, [], 0); (INITIALIZED, [], 0)], SRUNNING) ].

(** a final status returned while job 0 is still live *)
Definition ex_bad_obs_orphan : list obs :=
  [ ([ECheck []; EGen 0; ESubmit 0 Main true (Some 0)],
     [(PENDING, [0], 0); (INITIALIZED, [], 0); (INITIALIZED, [], 0); (INITIALIZED, [], 0)], SFAILURE) ].

(** with zero submission attempts a step "fails to submit" without any submit call *)
Definition ex_c_noattempts : cfg := {| throttle := 0; attempts := 0; dry := false |}.
Definition ex_g1 : graph :=
  [ {| parents := []; children := []; scheduled := true; has_restart := false; rlimit := 0 |} ].

(** The trace monitor (Exec/ExecTrace.v) is completely silent on the model's own
    observable trace: every verdict code it can emit is proved never to be raised.

    Assembles: codes 1 3 31 4 40 41 42 44 46 47 7 71 72 73 (ExecLedger6), 43 19 191 192
    (ExecLedger9/10), 12 205 207 51-55 (ExecLedger11/12), 2 21-24 (ExecMon2), 61-63 66 67
    (ExecMon6), 201-203 (ExecFault), 17 171-173 (ExecDry for dry runs; trivial otherwise). *)
From Coq Require Import Lia Relations.
From MWF Require Exec.ExecMon2 Exec.ExecMon6 Exec.ExecFault Exec.ExecDry.
From MWF Require Import Base.Util Base.UtilLemmas Exec.ExecBase Exec.ExecGen Exec.ExecRun Exec.ExecTrace
  Exec.ExecGraph Exec.ExecInv Exec.ExecPoll Exec.ExecHist
  Exec.ExecLedger Exec.ExecLedger2 Exec.ExecLedger3 Exec.ExecLedger4 Exec.ExecLedger5 Exec.ExecLedger6
  Exec.ExecLedger9 Exec.ExecLedger10 Exec.ExecLedger11 Exec.ExecLedger12.

(** * Every code the monitor can emit *)
Definition ev_codes : list nat := [71; 173; 17; 40; 201; 1; 7; 2; 43; 19; 191; 192; 61; 62; 63; 4; 41; 3].
Definition end_codes : list nat :=
  [21; 22; 23; 24; 44; 46; 47; 42; 66; 67; 12; 31; 203; 202; 205; 207; 72; 51; 52; 53; 54; 55; 171; 172].
Definition all_codes : list nat := 73 :: ev_codes ++ end_codes.

Lemma flags_ev_codes c g p L e k : In k (flags_ev c g p L e) -> In k ev_codes.
Proof.
  intros Hin. destruct e as [js|js|x|x kd sched res]; cbn [flags_ev] in Hin.
  - repeat (apply in_app_iff in Hin; destruct Hin as [Hin|Hin]); apply ck_codes in Hin; subst k; cbn; tauto.
  - repeat (apply in_app_iff in Hin; destruct Hin as [Hin|Hin]); apply ck_codes in Hin; subst k; cbn; tauto.
  - apply ck_codes in Hin; subst k; cbn; tauto.
  - repeat (apply in_app_iff in Hin; destruct Hin as [Hin|Hin];
            [apply ck_codes in Hin; subst k; cbn; tauto|]).
    apply in_app_iff in Hin. destruct Hin as [Hin|Hin].
    + destruct kd; repeat (apply in_app_iff in Hin; destruct Hin as [Hin|Hin]);
        apply ck_codes in Hin; subst k; cbn; tauto.
    + destruct res as [j|]; [|destruct Hin].
      repeat (apply in_app_iff in Hin; destruct Hin as [Hin|Hin]); apply ck_codes in Hin; subst k; cbn; tauto.
Qed.

Lemma flags_end_codes c g p m rows stat k : In k (flags_end c g p m rows stat) -> In k end_codes.
Proof.
  intros Hin. unfold flags_end in Hin. cbv zeta in Hin.
  repeat (apply in_app_iff in Hin; destruct Hin as [Hin|Hin]; [apply ck_codes in Hin; subst k; cbn; tauto|]).
  apply ck_codes in Hin. subst k. cbn. tauto.
Qed.

Lemma step_ev_codes c g p es k : forall m,
  In k (viol (fold_left (step_ev c g p) es m)) -> In k (viol m) \/ In k ev_codes.
Proof.
  induction es as [|e es IH]; intros m H; cbn [fold_left] in H; [auto|].
  destruct (IH _ H) as [H1|H1]; auto. cbn [step_ev viol] in H1. apply in_app_iff in H1.
  destruct H1 as [H1|H1]; auto. right. eapply flags_ev_codes; eauto.
Qed.

Lemma step_poll_codes c g m po k : In k (viol (step_poll c g m po)) -> In k (viol m) \/ In k all_codes.
Proof.
  destruct po as [p [[es rows] stat]]. cbn [step_poll viol]. rewrite in_app_iff. intros [H|H].
  - destruct (step_ev_codes c g p es k _ H) as [H1|H1].
    + unfold pre_poll in H1. destruct (cancel_req p); auto. cbn [viol] in H1. apply in_app_iff in H1.
      destruct H1 as [H1|H1]; auto. apply ck_codes in H1. subst k. right. left. reflexivity.
    + right. right. apply in_app_iff. auto.
  - right. right. apply in_app_iff. right. eapply flags_end_codes; eauto.
Qed.

Lemma monitor_codes c g h k : forall m,
  In k (viol (fold_left (step_poll c g) h m)) -> In k (viol m) \/ In k all_codes.
Proof.
  induction h as [|po h IH]; intros m H; cbn [fold_left] in H; [auto|].
  destruct (IH _ H) as [H1|H1]; auto. apply step_poll_codes in H1. exact H1.
Qed.

(** * Codes guarded by the dry-run flag are silent outside dry runs (any observations) *)
Definition c17 (k : nat) : Prop := k = 17 \/ k = 171 \/ k = 172 \/ k = 173.

Ltac kill17 K Hk :=
  apply ck_In in K; let Kb := fresh in let Kk := fresh in destruct K as [Kb Kk];
  first [ discriminate Kb | (cbn in Kb; discriminate Kb)
        | (destruct Hk as [-> | [-> | [-> | ->]]]; discriminate Kk) ].

Lemma nondry_c17 c g h k : dry c = false -> c17 k -> forall m,
  ~ In k (viol m) -> ~ In k (viol (fold_left (step_poll c g) h m)).
Proof.
  intros Hd Hk. induction h as [|po h IH]; intros m Hv; [exact Hv|]. cbn [fold_left]. apply IH.
  destruct po as [p [[es rows] stat]]. cbn [step_poll viol]. rewrite in_app_iff. intros [H|H].
  - assert (G : forall es' m', ~ In k (viol m') -> ~ In k (viol (fold_left (step_ev c g p) es' m'))).
    { induction es' as [|e es' IHe]; intros m' Hm; [exact Hm|]. cbn [fold_left]. apply IHe.
      cbn [step_ev viol]. rewrite in_app_iff. intros [K|K]; [contradiction|].
      destruct e as [js|js|x|x kd sched res]; cbn [flags_ev] in K; rewrite Hd in K.
      - repeat (apply in_app_iff in K; destruct K as [K|K]); kill17 K Hk.
      - repeat (apply in_app_iff in K; destruct K as [K|K]); kill17 K Hk.
      - kill17 K Hk.
      - repeat (apply in_app_iff in K; destruct K as [K|K]; [kill17 K Hk|]).
        apply in_app_iff in K. destruct K as [K|K].
        + destruct kd; repeat (apply in_app_iff in K; destruct K as [K|K]); kill17 K Hk.
        + destruct res as [j|]; [|destruct K].
          repeat (apply in_app_iff in K; destruct K as [K|K]); kill17 K Hk. }
    apply (G es (pre_poll p es m)); [|exact H].
    unfold pre_poll. destruct (cancel_req p); auto. cbn [viol]. rewrite in_app_iff. intros [K|K]; [contradiction|].
    kill17 K Hk.
  - unfold flags_end in H. cbv zeta in H. rewrite Hd in H.
    repeat (apply in_app_iff in H; destruct H as [H|H]; [kill17 H Hk|]). kill17 H Hk.
Qed.

(** * One induction for the codes coupled through the ledger *)
Definition famN : list nat := famX ++ famB ++ famZ.

Lemma famN_In k : In k famN <-> In k famX \/ In k famB \/ In k famZ.
Proof. unfold famN. rewrite !in_app_iff. tauto. Qed.

Lemma famZ_not_ev k : In k famZ -> ~ In k ev_codes /\ k <> 73.
Proof. intros H. cbn in H. split; [intros K; cbn in K|]; intuition (subst; discriminate). Qed.

Lemma run_silentN c g : WF g -> 0 < attempts c -> forall ps s m,
  B c g s m -> KB s (mb m) -> BZ c g s (mb m) -> Good c g s -> ExecPoll.valid_pins c g s ps = true ->
  (forall k, In k famN -> ~ In k (viol m)) ->
  forall k, In k famN -> ~ In k (viol (fold_left (step_poll c g) (zip ps (run c g s ps)) m)).
Proof.
  intros W Ha. induction ps as [|p ps IH]; intros s m Bs Kb Bz G V Hv; [exact Hv|].
  cbn [ExecPoll.valid_pins] in V. apply andb_true_iff in V. destruct V as [V1 V2].
  pose proof (vp_imp s p V1) as V1'.
  assert (HvX : forall k, In k famX -> ~ In k (viol m)) by (intros k Hk; apply Hv; apply famN_In; auto).
  assert (HvB : forall k, In k famB -> ~ In k (viol m)) by (intros k Hk; apply Hv; apply famN_In; auto).
  pose proof (step_poll_silent2 c g m p s W Bs V1' HvX) as SP. cbv zeta in SP.
  pose proof (step_poll_B c g m p s W Bs Kb V1' HvB) as SQ. cbv zeta in SQ.
  pose proof (poll_Z c g p s m W Ha Bs Bz G V1) as PZ. cbv zeta in PZ.
  pose proof (Good_poll c g s p W G V1) as G1.
  cbn [run]. destruct (poll c g s p) as [s1 r]. cbn [fst snd] in SP, SQ, PZ, G1.
  destruct SP as (B1 & Hv1). destruct SQ as (Kb1 & Hq1). destruct PZ as (Bz1 & Hz1).
  set (m' := step_poll c g m (p, (rev (evs s1), rows_of s1, r))) in *.
  assert (HvN : forall k, In k famN -> ~ In k (viol m')).
  { intros k Hk. apply famN_In in Hk. destruct Hk as [Hk|[Hk|Hk]]; auto.
    unfold m'. cbn [step_poll viol]. rewrite in_app_iff. intros [H|H]; [|exact (Hz1 k Hk H)].
    destruct (famZ_not_ev k Hk) as [N1 N2].
    destruct (step_ev_codes c g p _ k _ H) as [H1|H1]; [|contradiction].
    unfold pre_poll in H1. destruct (cancel_req p).
    - cbn [viol] in H1. apply in_app_iff in H1. destruct H1 as [H1|H1].
      + apply (Hv k); auto. apply famN_In. auto.
      + apply ck_codes in H1. contradiction.
    - apply (Hv k); auto. apply famN_In. auto. }
  destruct r; cbn [zip fold_left].
  2:{ apply IH; auto. }
  all: destruct ps; cbn [zip fold_left]; exact HvN.
Qed.

Theorem famN_silent c g ps :
  wf_graph g = true -> 0 < attempts c -> ExecPoll.valid_pins c g (init g) ps = true ->
  forall k, In k famN -> ~ In k (viol_of c g ps (run c g (init g) ps)).
Proof.
  intros Hw Ha V. unfold viol_of, monitor.
  apply run_silentN; auto.
  - apply wf_graph_WF. exact Hw.
  - apply B_init.
  - apply KB_init.
  - apply BZ_init.
  - apply Good_init.
Qed.

(** * Everything together *)
Lemma prop_ok_In pid c g ps os k : prop_ok pid c g ps os = true -> In k (family pid) -> ~ In k (viol_of c g ps os).
Proof.
  unfold prop_ok. cbv zeta. intros H Hk. rewrite forallb_forall in H. specialize (H k Hk).
  apply negb_true_iff, mem_false in H. exact H.
Qed.

Theorem all_codes_silent c g ps :
  wf_graph g = true -> 0 < attempts c -> ExecPoll.valid_pins c g (init g) ps = true ->
  forall k, In k all_codes -> ~ In k (viol_of c g ps (run c g (init g) ps)).
Proof.
  intros Hw Ha V k Hk.
  pose proof (wf_graph_WF g Hw) as W.
  pose proof (famN_silent c g ps Hw Ha V) as N.
  pose proof (ExecMon2.C02_monitor_wf c g ps Hw Ha V) as P2.
  pose proof (ExecMon6.C06_monitor_wf c g ps Hw Ha V) as P6.
  assert (C20 : forall j, ExecFault.c20_code j -> ~ In j (viol_of c g ps (run c g (init g) ps)))
    by (intros j Hj; apply ExecFault.model_trace_c20_codes; exact Hj).
  assert (C17 : forall j, c17 j -> ~ In j (viol_of c g ps (run c g (init g) ps))).
  { intros j Hj. destruct (dry c) eqn:Hd.
    - apply ExecDry.model_trace_c17_codes; auto.
    - unfold viol_of, monitor. apply nondry_c17; auto. }
  assert (S2 : forall j, In j [2; 21; 22; 23; 24] -> ~ In j (viol_of c g ps (run c g (init g) ps)))
    by (intros j Hj; eapply prop_ok_In; [exact P2|exact Hj]).
  assert (S6 : forall j, In j [61; 62; 63; 66; 67] -> ~ In j (viol_of c g ps (run c g (init g) ps)))
    by (intros j Hj; eapply prop_ok_In; [exact P6|exact Hj]).
  unfold all_codes, ev_codes, end_codes in Hk. cbn [app In] in Hk.
  repeat (destruct Hk as [<-|Hk];
    [first [ apply N; cbn; tauto | apply S2; cbn; tauto | apply S6; cbn; tauto
           | apply C20; unfold ExecFault.c20_code; tauto | apply C17; unfold c17; tauto ]|]).
  destruct Hk.
Qed.

Theorem monitor_silent_proof c g ps :
  wf_graph g = true -> 0 < attempts c -> ExecPoll.valid_pins c g (init g) ps = true ->
  viol_of c g ps (run c g (init g) ps) = [].
Proof.
  intros Hw Ha V.
  destruct (viol_of c g ps (run c g (init g) ps)) as [|k l] eqn:E; [reflexivity|exfalso].
  assert (Hin : In k (viol_of c g ps (run c g (init g) ps))) by (rewrite E; left; reflexivity).
  pose proof Hin as Hin'. unfold viol_of, monitor in Hin'.
  destruct (monitor_codes c g _ k _ Hin') as [[]|Hc].
  exact (all_codes_silent c g ps Hw Ha V k Hc Hin).
Qed.

Corollary prop_ok_all c g ps pid :
  wf_graph g = true -> 0 < attempts c -> ExecPoll.valid_pins c g (init g) ps = true ->
  prop_ok pid c g ps (run c g (init g) ps) = true.
Proof.
  intros Hw Ha V. unfold prop_ok. cbv zeta. rewrite (monitor_silent_proof c g ps Hw Ha V).
  apply forallb_forall. intros k _. reflexivity.
Qed.

(** * The weaker input hypothesis [valid_run]
    When the query code is not OK neither the code nor the monitor reads the reports:
    erase them, and [valid_run] becomes [ExecPoll.valid_pins]. *)
Definition norm_pin (p : pin) : pin :=
  if qcode_eqb (qcode p) QOK then p
  else {| cancel_req := cancel_req p; qcode := qcode p; reports := []; psubs := psubs p |}.

Lemma poll_norm c g s p : poll c g s (norm_pin p) = poll c g s p.
Proof.
  unfold norm_pin. destruct (qcode p) eqn:Hq; cbn [qcode_eqb]; [reflexivity| |];
    unfold poll, execute_ready_steps_gen; cbn [cancel_req qcode reports psubs]; rewrite Hq;
    destruct (dry c); reflexivity.
Qed.

Lemma step_poll_norm c g m p o : step_poll c g m (norm_pin p, o) = step_poll c g m (p, o).
Proof.
  unfold norm_pin. destruct (qcode_eqb (qcode p) QOK) eqn:Hq; [reflexivity|].
  assert (Hne : qcode p <> QOK) by (intros E; rewrite E in Hq; discriminate).
  destruct o as [[es rows] stat]; cbn [step_poll].
  set (p' := {| cancel_req := cancel_req p; qcode := qcode p; reports := []; psubs := psubs p |}).
  assert (Epre : pre_poll p' es m = pre_poll p es m) by reflexivity. rewrite Epre.
  assert (Eev : forall m0 e, step_ev c g p' m0 e = step_ev c g p m0 e).
  { intros m0 e. unfold step_ev. destruct e as [js|js|x|x k sched res]; cbn [step_base flags_ev];
      subst p'; cbn [qcode reports]; destruct (qcode p); try congruence; try reflexivity; destruct k; reflexivity. }
  assert (Efold : forall es0 m0, fold_left (step_ev c g p') es0 m0 = fold_left (step_ev c g p) es0 m0)
    by (induction es0 as [|e es0 IH]; intros m0; cbn [fold_left]; [reflexivity|rewrite Eev; apply IH]).
  rewrite Efold. f_equal. f_equal.
  unfold flags_end. subst p'. cbn [qcode reports]. destruct (qcode p); try congruence; reflexivity.
Qed.

Lemma viol_norm c g ps os : viol_of c g (map norm_pin ps) os = viol_of c g ps os.
Proof.
  unfold viol_of, monitor. generalize (mon0 g). revert os.
  induction ps as [|p ps IH]; intros os m; [reflexivity|]. destruct os as [|o os]; [reflexivity|].
  cbn [map zip fold_left]. rewrite step_poll_norm. apply IH.
Qed.

Lemma run_norm c g ps : forall s, run c g s (map norm_pin ps) = run c g s ps.
Proof.
  induction ps as [|p ps IH]; intros s; [reflexivity|]. cbn [map run]. rewrite poll_norm.
  destruct (poll c g s p) as [s1 r]. destruct r; try reflexivity. rewrite IH. reflexivity.
Qed.

Lemma valid_norm c g ps : forall s, valid_run c g s ps = true -> ExecPoll.valid_pins c g s (map norm_pin ps) = true.
Proof.
  induction ps as [|p ps IH]; intros s H; [reflexivity|].
  cbn [valid_run map ExecPoll.valid_pins] in *. apply andb_true_iff in H. destruct H as [H1 H2].
  rewrite poll_norm. apply andb_true_iff. split.
  - unfold ExecLedger2.valid_pin in H1. unfold norm_pin, ExecPoll.valid_pin.
    destruct (qcode_eqb (qcode p) QOK); cbn [negb orb] in H1; [|reflexivity].
    apply andb_true_iff in H1. destruct H1 as [A B]. rewrite A, B. reflexivity.
  - destruct (poll c g s p) as [s1 r]. destruct r; auto.
Qed.

Theorem monitor_silent_valid_run c g ps :
  wf_graph g = true -> 0 < attempts c -> valid_run c g (init g) ps = true ->
  viol_of c g ps (run c g (init g) ps) = [].
Proof.
  intros Hw Ha V. rewrite <- viol_norm, <- (run_norm c g ps (init g)).
  apply monitor_silent_proof; auto. apply valid_norm. exact V.
Qed.

Corollary prop_ok_all_valid_run c g ps pid :
  wf_graph g = true -> 0 < attempts c -> valid_run c g (init g) ps = true ->
  prop_ok pid c g ps (run c g (init g) ps) = true.
Proof.
  intros Hw Ha V. unfold prop_ok. cbv zeta. rewrite (monitor_silent_valid_run c g ps Hw Ha V).
  apply forallb_forall. intros k _. reflexivity.
Qed.

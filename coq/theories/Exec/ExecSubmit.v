(** Execution model: one call of an adapter's [submit] (hand-written).
    [sched] tells which adapter object is called: the scheduler adapter
    ([adapter.submit]) or the local adapter ([ladapter.submit]).  The call
    consumes one scripted outcome, allocates the next job id on success and is
    observable as an [ESubmit] event. *)
From MWF Require Import Exec.ExecBase.

Definition adapter_submit (x : nat) (k : kind) (sched : bool) (s : st) : bool * nat * st :=
  let '(b, s) := next_sub s in
  if b then
    let j := next_job s in
    (true, j, emit (ESubmit x k sched (Some j)) (set_next_job s (S j)))
  else
    (false, 0, emit (ESubmit x k sched None) s).

(** The monitor family of C06 (codes 61, 62, 63, 66, 67 of Exec/ExecTrace.v) is silent on the
    model's own trace:  prop_ok 6 c g ps (run c g (init g) ps) = true.
    This is the predicate the correspondence run evaluates on the IMPLEMENTATION's trace. *)
From Coq Require Import Lia Relations.
From MWF Require Import Base.Util Base.UtilLemmas Exec.ExecBase Exec.ExecGen Exec.ExecRun Exec.ExecTrace Exec.ExecGraph
  Exec.ExecInv Exec.ExecPoll Exec.ExecSteps Exec.ExecPoll2 Exec.ExecPoll3 Exec.ExecPoll4 Exec.ExecHist Exec.ExecC06.

Definition fam6 (k : nat) : Prop := k = 61 \/ k = 62 \/ k = 63 \/ k = 66 \/ k = 67.

Lemma ck_In6 b k j : In j (ck b k) <-> b = false /\ j = k.
Proof. unfold ck. destruct b; cbn; intuition congruence. Qed.

(** * The ledger fields the family looks at *)
Lemma deliver_fields m r :
  rsub (deliver m r) = rsub m /\ rcount (deliver m r) = rcount m /\
  (forall y, In y (tdel (deliver m r)) -> In y (tdel m) \/ r = (y, Some TIMEDOUT)).
Proof.
  destruct r as [x [v|]]; [|cbn; auto].
  destruct v; cbn; splits; auto. intros y Hy. apply In_sadd in Hy. destruct Hy as [->|Hy]; auto.
Qed.

Lemma deliver_fold_fields reps : forall m,
  rsub (fold_left deliver reps m) = rsub m /\ rcount (fold_left deliver reps m) = rcount m /\
  (forall y, In y (tdel (fold_left deliver reps m)) -> In y (tdel m) \/ In (y, Some TIMEDOUT) reps).
Proof.
  induction reps as [|r reps IH]; intros m; cbn [fold_left]; [splits; auto|].
  destruct (IH (deliver m r)) as (A & B & C). destruct (deliver_fields m r) as (A' & B' & C').
  splits; try congruence. intros y Hy. destruct (C y Hy) as [H|H]; [|right; right; exact H].
  destruct (C' y H) as [H'|H']; auto. right. left. exact H'.
Qed.

Section Mon.
Variables (c : cfg) (g : graph) (p : pin).

(** reports that count as delivered TIMEDOUT in this poll *)
Definition tset (x : nat) : Prop := qcode p = QOK /\ In (x, Some TIMEDOUT) (reports p).

Definition ev6_ok (e : event) : Prop :=
  match e with
  | ESubmit x Restart _ _ => has_restart (attr g x) = true /\ tset x
  | ESubmit x Main _ _ => ~ tset x
  | _ => True
  end.

Lemma has_report_In x v : In (x, Some v) (reports p) -> has_report (reports p) x v = true.
Proof.
  intros H. unfold has_report. apply existsb_exists. exists (x, Some v). split; auto.
  cbn. rewrite Nat.eqb_refl. destruct v; reflexivity.
Qed.

Lemma step_base_fields m e :
  rcount (step_base c g p m e) = rcount m /\
  ((forall y, In y (tdel m) -> tset y) -> forall y, In y (tdel (step_base c g p m e)) -> tset y) /\
  (forall y, In y (rsub (step_base c g p m e)) <-> In y (rsub m) \/ rsub_ev y e = true).
Proof.
  destruct e as [js|js|x|x k sc res]; cbn [step_base rsub_ev].
  - cbn. splits; auto. intros y. intuition discriminate.
  - destruct (qcode p) eqn:Q.
    + destruct (deliver_fold_fields (reports p) (set_check m (map fst (live m)) (sstage m))) as (A & B & C).
      cbn [rcount rsub tdel set_check]. cbn in A, B, C. splits; auto.
      * intros H y Hy. destruct (C y Hy) as [H1|H1]; auto. split; auto.
      * intros y. rewrite A. intuition discriminate.
    + cbn. splits; auto. intros y. intuition discriminate.
    + cbn. splits; auto. intros y. intuition discriminate.
  - splits; auto. intros y. intuition discriminate.
  - destruct res as [j|]; [destruct sc|]; destruct k; cbn; splits; auto; intros y; rewrite ?In_sadd;
      try (intuition discriminate).
    all: rewrite Nat.eqb_eq; intuition.
Qed.

Lemma flags_ev6 m e k : fam6 k -> ev6_ok e -> (forall y, In y (tdel m) -> tset y) -> ~ In k (flags_ev c g p m e).
Proof.
  intros Hk He Ht Hin. destruct e as [js|js|x|x kd sc res]; cbn [flags_ev] in Hin.
  - rewrite in_app_iff, !ck_In6 in Hin. unfold fam6 in Hk. intuition (subst; discriminate).
  - rewrite in_app_iff, !ck_In6 in Hin. unfold fam6 in Hk. intuition (subst; discriminate).
  - rewrite ck_In6 in Hin. unfold fam6 in Hk. intuition (subst; discriminate).
  - repeat (rewrite in_app_iff in Hin). rewrite !ck_In6 in Hin.
    destruct Hin as [Hin|[Hin|[Hin|[Hin|[Hin|[Hin|[Hin|[Hin|[Hin|[Hin|Hin]]]]]]]]]];
      try (unfold fam6 in Hk; intuition (subst; discriminate)).
    + destruct kd; cbn [ev6_ok] in He.
      * rewrite ck_In6 in Hin. destruct Hin as [Hin _]. apply negb_false_iff, mem_In in Hin. exact (He (Ht x Hin)).
      * destruct He as [He1 [He2 He3]]. rewrite in_app_iff, !ck_In6 in Hin. destruct Hin as [[Hin _]|[Hin _]].
        -- congruence.
        -- rewrite He2, (has_report_In x TIMEDOUT He3) in Hin. discriminate.
    + destruct res as [j|]; [|destruct Hin]. rewrite !in_app_iff, !ck_In6 in Hin.
      unfold fam6 in Hk. intuition (subst; discriminate).
Qed.

(** the verdicts of the events of one poll *)
Lemma fold_step_ev6 es : forall M,
  (forall k, fam6 k -> ~ In k (viol M)) -> (forall y, In y (tdel (mb M)) -> tset y) ->
  (forall e, In e es -> ev6_ok e) ->
  let M' := fold_left (step_ev c g p) es M in
  (forall k, fam6 k -> ~ In k (viol M')) /\ (forall y, In y (tdel (mb M')) -> tset y) /\
  rcount (mb M') = rcount (mb M) /\
  (forall y, In y (rsub (mb M')) <-> In y (rsub (mb M)) \/ rsub_in y es = true).
Proof.
  induction es as [|e es IH]; intros M Hv Ht He; cbn [fold_left].
  - splits; auto. intros y. cbn. intuition discriminate.
  - destruct (step_base_fields (mb M) e) as (A & B & C).
    specialize (IH (step_ev c g p M e)). cbn [step_ev mb viol] in IH.
    destruct IH as (I1 & I2 & I3 & I4).
    + intros k Hk Hin. apply in_app_iff in Hin. destruct Hin as [Hin|Hin]; [exact (Hv k Hk Hin)|].
      apply (flags_ev6 (mb M) e k Hk); auto. apply He. left. reflexivity.
    + apply B. exact Ht.
    + intros e' He'. apply He. right. exact He'.
    + splits; auto; [congruence|]. intros y. rewrite I4, C. cbn [rsub_in existsb]. rewrite orb_true_iff.
      unfold rsub_in. tauto.
Qed.
End Mon.

(** the restart counters recorded by the ledger *)
Lemma rcount_end_nth m x : NoDup (rsub m) -> x < length (rcount m) ->
  nth x (rcount_end m) 0 = nth x (rcount m) 0 + (if mem x (rsub m) then 1 else 0).
Proof.
  unfold rcount_end. generalize (rcount m) as rc. induction (rsub m) as [|a l IH]; intros rc Hn Hl; cbn [fold_left mem existsb].
  - lia.
  - inversion Hn as [|? ? Ha Hn']; subst. rewrite IH by (auto; rewrite length_upd; exact Hl).
    destruct (Nat.eq_dec a x) as [->|Hne].
    + rewrite nth_upd_eq by exact Hl. rewrite Nat.eqb_refl. cbn [orb].
      apply mem_false in Ha. rewrite Ha. lia.
    + rewrite nth_upd_neq by exact Hne. fold (mem x l).
      assert (E : (x =? a) = false) by (apply Nat.eqb_neq; auto). rewrite E. reflexivity.
Qed.

Lemma length_rcount_end m : length (rcount_end m) = length (rcount m).
Proof.
  unfold rcount_end. generalize (rcount m) as rc. induction (rsub m) as [|a l IH]; intros rc; cbn [fold_left]; auto.
  rewrite IH, length_upd. reflexivity.
Qed.

Lemma step_base_nodup c g p m e : NoDup (rsub m) -> NoDup (rsub (step_base c g p m e)).
Proof.
  intros H. destruct e as [js|js|x|x k sc res]; cbn [step_base]; auto.
  - destruct (qcode p); auto.
    destruct (deliver_fold_fields (reports p) (set_check m (map fst (live m)) (sstage m))) as (A & _).
    cbn [rsub set_check]. cbn in A. rewrite A. exact H.
  - destruct res as [j|]; [destruct sc|]; destruct k; cbn; auto; apply NoDup_sadd; exact H.
Qed.

Lemma fold_step_ev_nodup c g p es : forall M, NoDup (rsub (mb M)) ->
  NoDup (rsub (mb (fold_left (step_ev c g p) es M))).
Proof.
  induction es as [|e es IH]; intros M H; cbn [fold_left]; auto.
  apply IH. cbn [step_ev mb]. apply step_base_nodup. exact H.
Qed.

Lemma rsub_in_rev x es : rsub_in x (rev es) = rsub_in x es.
Proof.
  destruct (rsub_in x es) eqn:E.
  - apply rsub_in_true in E. destruct E as (sc & res & E). apply rsub_in_true. exists sc, res. apply in_rev in E. exact E.
  - destruct (rsub_in x (rev es)) eqn:E'; auto. apply rsub_in_true in E'. destruct E' as (sc & res & E').
    apply in_rev in E'. assert (rsub_in x es = true) by (apply rsub_in_true; eauto). congruence.
Qed.

(** coupling between the ledger and the state at poll boundaries *)
Definition L6 (g : graph) (s : st) (b : base) : Prop :=
  length (rcount b) = length g /\ (forall x, x < length g -> nth x (rcount b) 0 = restarts (getrec s x)) /\
  tdel b = [] /\ rsub b = [].

Lemma flags_end6 c g p m rows stat k : fam6 k -> In k (flags_end c g p m rows stat) ->
  (k = 66 /\ forallb (fun x => Nat.eqb (row_restarts rows x) (nth x (rcount_end m) 0)) (all_nodes g) = false) \/
  (k = 67 /\ forallb (fun x => ((rlimit (attr g x) =? 0) || (row_restarts rows x <=? rlimit (attr g x))) &&
                               (has_restart (attr g x) || (row_restarts rows x =? 0))) (all_nodes g) = false).
Proof.
  intros Hk Hin. unfold flags_end in Hin. cbv zeta in Hin.
  repeat (rewrite in_app_iff in Hin). rewrite !ck_In6 in Hin. unfold fam6 in Hk.
  intuition (subst; try discriminate; auto).
Qed.

Section Whole.
Variables (c : cfg) (g : graph).
Hypothesis W : WF g.
Hypothesis Ha : 0 < attempts c.

Definition clean6 (M : mon) : Prop := forall k, fam6 k -> ~ In k (viol M).

Lemma one_poll6 s p s1 r M : Good c g s -> valid_pin s p = true -> poll c g s p = (s1, r) ->
  clean6 M -> L6 g s (mb M) ->
  let M1 := step_poll c g M (p, (rev (evs s1), rows_of s1, r)) in
  clean6 M1 /\ L6 g s1 (mb M1).
Proof.
  intros [I T] V E Cl (Lr & Ln & Lt & Ls). cbv zeta. unfold step_poll.
  pose proof (i2_inv g s I) as I0.
  pose proof (poll_events c g s p W I0 V) as PE. pose proof (poll_restarts c g s p W I0 V Ha) as PR.
  pose proof (poll_Inv2 c g s p W I T V) as I1. rewrite E in PE, PR, I1. cbn [fst] in PE, PR, I1.
  assert (Hev : forall e, In e (rev (evs s1)) -> ev6_ok g p e).
  { intros e He. apply in_rev in He. destruct e as [js|js|x|x k sc res]; cbn [ev6_ok]; auto.
    destruct (PE x k sc res He) as (_ & _ & _ & _ & _ & B). destruct k.
    - intros [Q Hin]. exact (B Q Hin).
    - destruct B as (B1 & B2 & B3 & _). unfold tset. auto. }
  set (M0 := pre_poll p (rev (evs s1)) M).
  assert (P0 : clean6 M0 /\ rcount (mb M0) = rcount (mb M) /\ tdel (mb M0) = tdel (mb M) /\ rsub (mb M0) = rsub (mb M)).
  { unfold M0, pre_poll. destruct (cancel_req p); [|splits; auto]. cbn [mb viol]. splits; auto.
    intros k Hk Hin. apply in_app_iff in Hin. destruct Hin as [Hin|Hin]; [exact (Cl k Hk Hin)|].
    apply ck_In6 in Hin. destruct Hin as [_ ->]. unfold fam6 in Hk. intuition discriminate. }
  destruct P0 as (Cl0 & Pr & Pt & Ps).
  assert (Ht0 : forall y, In y (tdel (mb M0)) -> tset p y) by (rewrite Pt, Lt; intros y []).
  destruct (fold_step_ev6 c g p (rev (evs s1)) M0 Cl0 Ht0 Hev) as (F1 & F2 & F3 & F4).
  rewrite Pr in F3. rewrite Ps in F4.
  assert (Nd : NoDup (rsub (mb (fold_left (step_ev c g p) (rev (evs s1)) M0)))).
  { apply fold_step_ev_nodup. rewrite Ps, Ls. constructor. }
  set (M' := fold_left (step_ev c g p) (rev (evs s1)) M0) in *.
  assert (Rc : forall x, x < length g ->
             nth x (rcount_end (mb M')) 0 = restarts (getrec s1 x)).
  { intros x Hx. rewrite rcount_end_nth by (auto; rewrite F3, Lr; exact Hx).
    rewrite F3, (Ln x Hx), (PR x).
    assert (Em : mem x (rsub (mb M')) = rsub_in x (evs s1)).
    { rewrite <- rsub_in_rev. destruct (rsub_in x (rev (evs s1))) eqn:Er.
      - apply mem_In. apply F4. auto.
      - apply mem_false. intros H. apply F4 in H. rewrite Ls in H. destruct H as [[]|H]. congruence. }
    rewrite Em. reflexivity. }
  split.
  - intros k Hk Hin. cbn [viol] in Hin. apply in_app_iff in Hin. destruct Hin as [Hin|Hin]; [exact (F1 k Hk Hin)|].
    destruct (flags_end6 c g p (mb M') (rows_of s1) r k Hk Hin) as [[_ B]|[_ B]].
    + assert (B' : forallb (fun x => row_restarts (rows_of s1) x =? nth x (rcount_end (mb M')) 0) (all_nodes g) = true).
      { apply forallb_forall. intros x Hx. apply In_seq_lt in Hx.
        rewrite row_restarts_rows_of, (Rc x Hx). apply Nat.eqb_refl. }
      congruence.
    + assert (B' : forallb (fun x => ((rlimit (attr g x) =? 0) || (row_restarts (rows_of s1) x <=? rlimit (attr g x))) &&
                               (has_restart (attr g x) || (row_restarts (rows_of s1) x =? 0))) (all_nodes g) = true).
      { apply forallb_forall. intros x Hx. rewrite row_restarts_rows_of.
        pose proof (e_rl g s1 (i2_ext g s1 I1) x) as R1. pose proof (e_nr g s1 (i2_ext g s1 I1) x) as R2.
        apply andb_true_iff. split.
        - destruct (rlimit (attr g x)) as [|n] eqn:En; [reflexivity|]. cbn [Nat.eqb orb].
          apply Nat.leb_le. apply R1. lia.
        - destruct (has_restart (attr g x)); [reflexivity|]. rewrite (R2 eq_refl). reflexivity. }
      congruence.
  - cbn [mb]. unfold L6, end_base. cbn [rcount tdel rsub].
    splits; auto. rewrite length_rcount_end, F3. exact Lr.
Qed.

Lemma mon6_gen ps : forall s M, Good c g s -> valid_pins c g s ps = true -> clean6 M -> L6 g s (mb M) ->
  clean6 (fold_left (step_poll c g) (zip ps (run c g s ps)) M).
Proof.
  induction ps as [|p ps IH]; intros s M G V Cl L; cbn [run zip fold_left]; auto.
  cbn [valid_pins] in V. apply andb_true_iff in V. destruct V as [V1 V2].
  pose proof (Good_poll c g s p W G V1) as G1.
  destruct (poll c g s p) as [s1 r] eqn:E. cbn [fst] in G1.
  destruct (one_poll6 s p s1 r M G V1 E Cl L) as [Cl1 L1].
  destruct r; cbn [zip fold_left]; try (destruct ps; exact Cl1).
  apply (IH s1); auto.
Qed.

Theorem C06_monitor_proof ps : valid_pins c g (init g) ps = true ->
  prop_ok 6 c g ps (run c g (init g) ps) = true.
Proof.
  intros V. unfold prop_ok, viol_of, monitor.
  assert (Cl : clean6 (fold_left (step_poll c g) (zip ps (run c g (init g) ps)) (mon0 g))).
  { apply (mon6_gen ps (init g)); auto.
    - apply Good_init.
    - intros k _ [].
    - unfold L6, mon0, base0. cbn [mb rcount tdel rsub]. splits; auto; [apply map_length|].
      intros x Hx. transitivity 0.
      + clear. revert x. induction g as [|a g' IH]; intros [|x]; cbn; auto.
      + unfold getrec, init. cbn. clear. revert x. induction g as [|a g' IH]; intros [|x]; cbn; auto. }
  cbn [family forallb]. rewrite !andb_true_iff. unfold clean6, fam6 in Cl.
  splits; auto; apply negb_true_iff, mem_false; apply Cl; auto 6.
Qed.
End Whole.

Theorem C06_monitor_wf c g ps : wf_graph g = true -> 0 < attempts c ->
  valid_pins c g (init g) ps = true -> prop_ok 6 c g ps (run c g (init g) ps) = true.
Proof. intros Wf Ha V. apply C06_monitor_proof; auto. apply wf_graph_WF. exact Wf. Qed.

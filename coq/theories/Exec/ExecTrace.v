(** The observable-trace monitor for the execution properties.

    Everything here is defined on OBSERVABLES only: per poll, the poll input
    (cancel request, query code, reports), the adapter calls in emission order,
    the status rows and the returned study status.  The same function is
    applied to the model's trace (theorems, ExecInv/ExecProps) and to the
    implementation's recorded trace (the monitor of the correspondence run).

    The monitor keeps a ledger:
      live   (node, job) pairs submitted to the scheduler and not yet reported
             terminal to Maestro (a report counts as delivered only when the
             query code is OK);
      succ   nodes that succeeded: a FINISHED report was delivered for them, or
             they are local steps whose submission returned OK;
      cseen  a cancel request has been observed (an ECancel happened);
      dead   nodes that ended unsuccessfully (own FAILED/UNKNOWN/CANCELLED report,
             TIMEDOUT not followed by a successful restart, exhausted submission attempts);
    and appends a numeric code to [viol] whenever an observable contradicts a
    property.  Code families:  1 = C01; 2x = C02; 3,31 = C03; 4x = C04; 5x = C05;
    6x = C06; 7x = C07; 12 = C12; 17x = C17; 19x = C19; 20x = C20. *)
From MWF Require Import Exec.ExecBase Exec.ExecRun.

Definition terminal (s : State) : bool :=
  match s with FINISHED | FAILED | TIMEDOUT | HWFAILURE | CANCELLED | UNKNOWN => true | _ => false end.
Definition resolved_row (s : State) : bool :=
  match s with FINISHED | DRYRUN | FAILED | CANCELLED => true | _ => false end.
Definition fc_row (s : State) : bool :=
  match s with FAILED | CANCELLED => true | _ => false end.

Definition ev_eqb (a b : event) : bool :=
  match a, b with
  | ECancel x, ECancel y => leqb (sort x) (sort y)
  | ECheck x, ECheck y => leqb (sort x) (sort y)
  | EGen x, EGen y => Nat.eqb x y
  | ESubmit x k s r, ESubmit x' k' s' r' =>
      Nat.eqb x x' && kind_eqb k k' && Bool.eqb s s' &&
      match r, r' with Some j, Some j' => Nat.eqb j j' | None, None => true | _, _ => false end
  | _, _ => false
  end.
Fixpoint list_eqb {A} (f : A -> A -> bool) (a b : list A) : bool :=
  match a, b with
  | [], [] => true
  | x :: a', y :: b' => f x y && list_eqb f a' b'
  | _, _ => false
  end.
Definition row_eqb (a b : row) : bool :=
  let '(s1, j1, r1) := a in let '(s2, j2, r2) := b in
  state_eqb s1 s2 && leqb j1 j2 && Nat.eqb r1 r2.
Definition obs_eqb (a b : obs) : bool :=
  let '(e1, r1, s1) := a in let '(e2, r2, s2) := b in
  list_eqb ev_eqb e1 e2 && list_eqb row_eqb r1 r2 && sstatus_eqb s1 s2.

(** ------------------------------------------------------------------ *)
(** The ledger (no verdicts in it; verdict codes are computed beside it). *)
Record base := {
  live : list (nat * nat);         (* (node, job) submitted to the scheduler, not yet reported terminal *)
  succ : list nat;                 (* nodes that succeeded *)
  cseen : bool;                    (* a cancel request was observed *)
  jc : bool;                       (* a CANCELLED report was delivered for some job *)
  dead : list nat;                 (* nodes that ended unsuccessfully *)
  tried : list nat;                (* nodes that ever had an ESubmit *)
  allj : list (list nat);          (* per node: job ids of its successful submissions, in order *)
  rcount : list nat;               (* per node: number of polls that contained a Restart submit *)
  prev : list row;                 (* rows after the previous poll *)
  npolls : nat;
  (* per-poll scratch *)
  lchk : list nat;                 (* nodes live at the time of this poll's query *)
  sstage : list nat;               (* succ right after this poll's report delivery (= at staging time) *)
  tdel : list nat;                 (* nodes to which TIMEDOUT was delivered in this poll *)
  rsub : list nat;                 (* nodes with a Restart submit in this poll *)
  oksub : list nat;                (* nodes with a successful submit in this poll *)
  nsub : list nat }.               (* per node: number of submit calls in this poll *)

Definition base0 (g : graph) : base :=
  {| live := []; succ := []; cseen := false; jc := false; dead := []; tried := []; allj := map (fun _ => []) g;
     rcount := map (fun _ => 0) g; prev := map (fun _ => (INITIALIZED, [], 0)) g; npolls := 0;
     lchk := []; sstage := []; tdel := []; rsub := []; oksub := []; nsub := map (fun _ => 0) g |}.

Definition set_live m v := {| live := v; succ := succ m; cseen := cseen m; jc := jc m; dead := dead m; tried := tried m;
  allj := allj m; rcount := rcount m; prev := prev m; npolls := npolls m; lchk := lchk m; sstage := sstage m;
  tdel := tdel m; rsub := rsub m; oksub := oksub m; nsub := nsub m |}.
Definition set_succ m v := {| live := live m; succ := v; cseen := cseen m; jc := jc m; dead := dead m; tried := tried m;
  allj := allj m; rcount := rcount m; prev := prev m; npolls := npolls m; lchk := lchk m; sstage := sstage m;
  tdel := tdel m; rsub := rsub m; oksub := oksub m; nsub := nsub m |}.
Definition set_cseen m v := {| live := live m; succ := succ m; cseen := v; jc := jc m; dead := dead m; tried := tried m;
  allj := allj m; rcount := rcount m; prev := prev m; npolls := npolls m; lchk := lchk m; sstage := sstage m;
  tdel := tdel m; rsub := rsub m; oksub := oksub m; nsub := nsub m |}.
Definition set_jc m v := {| live := live m; succ := succ m; cseen := cseen m; jc := v; dead := dead m; tried := tried m;
  allj := allj m; rcount := rcount m; prev := prev m; npolls := npolls m; lchk := lchk m; sstage := sstage m;
  tdel := tdel m; rsub := rsub m; oksub := oksub m; nsub := nsub m |}.
Definition set_dead m v := {| live := live m; succ := succ m; cseen := cseen m; jc := jc m; dead := v; tried := tried m;
  allj := allj m; rcount := rcount m; prev := prev m; npolls := npolls m; lchk := lchk m; sstage := sstage m;
  tdel := tdel m; rsub := rsub m; oksub := oksub m; nsub := nsub m |}.
Definition set_tdel m v := {| live := live m; succ := succ m; cseen := cseen m; jc := jc m; dead := dead m; tried := tried m;
  allj := allj m; rcount := rcount m; prev := prev m; npolls := npolls m; lchk := lchk m; sstage := sstage m;
  tdel := v; rsub := rsub m; oksub := oksub m; nsub := nsub m |}.
Definition set_check m lc ss := {| live := live m; succ := succ m; cseen := cseen m; jc := jc m; dead := dead m; tried := tried m;
  allj := allj m; rcount := rcount m; prev := prev m; npolls := npolls m; lchk := lc; sstage := ss;
  tdel := tdel m; rsub := rsub m; oksub := oksub m; nsub := nsub m |}.
Definition set_submit m tr aj rs ok ns := {| live := live m; succ := succ m; cseen := cseen m; jc := jc m; dead := dead m;
  tried := tr; allj := aj; rcount := rcount m; prev := prev m; npolls := npolls m; lchk := lchk m; sstage := sstage m;
  tdel := tdel m; rsub := rs; oksub := ok; nsub := ns |}.

Definition live_of (x : nat) (m : base) : bool := existsb (fun p => Nat.eqb (fst p) x) (live m).
Definition drop_live (x : nat) (l : list (nat * nat)) := filter (fun p => negb (Nat.eqb (fst p) x)) l.
Definition row_status (rs : list row) (x : nat) : State := fst (fst (nth x rs (INITIALIZED, [], 0))).
Definition row_jobs (rs : list row) (x : nat) : list nat := snd (fst (nth x rs (INITIALIZED, [], 0))).
Definition row_restarts (rs : list row) (x : nat) : nat := snd (nth x rs (INITIALIZED, [], 0)).

(** strict descendants of x = bfs over children minus x itself *)
Definition desc (g : graph) (x : nat) : list nat := srem x (bfs_subtree g x).
Definition in_desc_of (g : graph) (l : list nat) (d : nat) : bool := existsb (fun u => mem d (desc g u)) l.
Definition has_report (reps : list (nat * option State)) (x : nat) (v : State) : bool :=
  existsb (fun r => Nat.eqb (fst r) x && oeqb (snd r) v) reps.
Definition report_of (reps : list (nat * option State)) (x : nat) : option State :=
  match find (fun r => Nat.eqb (fst r) x) reps with Some (_, Some v) => Some v | _ => None end.

(** delivery of one report (query code OK) *)
Definition deliver (m : base) (r : nat * option State) : base :=
  match r with
  | (x, Some v) =>
    let m := if state_eqb v FINISHED then set_succ m (sadd x (succ m)) else m in
    let m := if terminal v then set_live m (drop_live x (live m)) else m in
    let m := if state_eqb v CANCELLED then set_jc m true else m in
    let m := if state_eqb v FAILED || state_eqb v UNKNOWN || state_eqb v CANCELLED
             then set_dead m (sadd x (dead m)) else m in
    let m := if state_eqb v TIMEDOUT then set_tdel m (sadd x (tdel m)) else m in
    m
  | _ => m
  end.

Definition same_jobs (js : list nat) (l : list (nat * nat)) : bool :=
  seteqb js (map snd l) && Nat.eqb (length js) (length l).

Definition ck (b : bool) (k : nat) : list nat := if b then [] else [k].

(** ledger transition on one adapter call *)
Definition step_base (c : cfg) (g : graph) (p : pin) (m : base) (e : event) : base :=
  match e with
  | ECancel js => set_cseen m true
  | ECheck js =>
      let m := set_check m (map fst (live m)) (sstage m) in
      let m := match qcode p with QOK => fold_left deliver (reports p) m | _ => m end in
      set_check m (lchk m) (succ m)
  | EGen x => m
  | ESubmit x k sched res =>
      let m := set_submit m (sadd x (tried m)) (allj m)
                 (match k with Restart => sadd x (rsub m) | Main => rsub m end) (oksub m) (upd x S (nsub m)) in
      match res with
      | None => m
      | Some j =>
        let m := set_submit m (tried m) (upd x (fun l => l ++ [j]) (allj m)) (rsub m) (sadd x (oksub m)) (nsub m) in
        if sched then set_live m (live m ++ [(x, j)]) else set_succ m (sadd x (succ m))
      end
  end.

(** verdict codes raised by one adapter call, given the ledger BEFORE it *)
Definition flags_ev (c : cfg) (g : graph) (p : pin) (m : base) (e : event) : list nat :=
  match e with
  | ECancel js =>
      ck (same_jobs js (live m)) 71 ++ ck (negb (dry c) || is_nil js) 173
  | ECheck js =>
      ck (negb (dry c)) 17 ++ ck (same_jobs js (live m)) 40
  | EGen x =>
      ck (negb (qcode_eqb (qcode p) QERROR) || dry c) 201
  | ESubmit x k sched res =>
      ck (subset (parents (attr g x)) (succ m)) 1 ++
      ck (negb (cseen m)) 7 ++
      ck (negb (dry c)) 17 ++
      ck (negb (qcode_eqb (qcode p) QERROR) || dry c) 201 ++
      ck (negb (in_desc_of g (dead m) x)) 2 ++
      ck (negb (resolved_row (row_status (prev m) x)) && negb (mem x (dead m))) 43 ++
      ck (Bool.eqb sched (scheduled (attr g x))) 19 ++
      ck (nth x (nsub m) 0 <? attempts c) 191 ++
      ck (negb (mem x (oksub m))) 192 ++
      match k with
      | Restart => ck (has_restart (attr g x)) 61 ++
                   ck (qcode_eqb (qcode p) QOK && has_report (reports p) x TIMEDOUT) 62
      | Main => ck (negb (mem x (tdel m))) 63
      end ++
      match res with
      | None => []
      | Some j =>
        ck (negb (live_of x m)) 4 ++
        ck (negb (mem x (succ m))) 41 ++
        ck (negb sched || (throttle c =? 0) || (S (length (live m)) <=? throttle c)) 3
      end
  end.

Definition all_nodes (g : graph) : list nat := seq 0 (length g).

(** unsuccessful ends decided at the end of a poll: TIMEDOUT delivered and no
    successful (re)submission; submission attempts all failed *)
Definition dead_end (g : graph) (m : base) : list nat :=
  let d := fold_left (fun d x => if mem x (oksub m) then d else sadd x d) (tdel m) (dead m) in
  fold_left (fun d x => if (0 <? nth x (nsub m) 0) && negb (mem x (oksub m)) then sadd x d else d) (all_nodes g) d.
Definition rcount_end (m : base) : list nat := fold_left (fun r x => upd x S r) (rsub m) (rcount m).

Definition end_base (c : cfg) (g : graph) (m : base) (rows : list row) : base :=
  {| live := live m; succ := succ m; cseen := cseen m; jc := jc m; dead := dead_end g m; tried := tried m;
     allj := allj m; rcount := rcount_end m; prev := rows; npolls := S (npolls m);
     lchk := []; sstage := []; tdel := []; rsub := []; oksub := []; nsub := map (fun _ => 0) (nsub m) |}.

(** verdict codes raised at the end of a poll, on the rows and the returned status *)
Definition flags_end (c : cfg) (g : graph) (p : pin) (m : base) (rows : list row) (stat : SStatus) : list nat :=
  let n := all_nodes g in
  let dd := dead_end g m in
  let aborted := sstatus_eqb stat SABORT in
  let qerr := qcode_eqb (qcode p) QERROR && negb (dry c) in
  let allsucc := forallb (fun x => mem x (succ m) || state_eqb (row_status rows x) DRYRUN) n in
  let final := sstatus_eqb stat SFINISHED || sstatus_eqb stat SFAILURE || sstatus_eqb stat SCANCELLED in
  let normal := sstatus_eqb stat SFINISHED || sstatus_eqb stat SFAILURE in
  (* C02 *)
  ck (forallb (fun u => forallb (fun d => fc_row (row_status rows d)) (desc g u)) dd) 21 ++
  ck (forallb (fun u => match row_status rows u with FAILED | CANCELLED | TIMEDOUT => true | _ => false end) dd) 22 ++
  ck (forallb (fun x => impb (fc_row (row_status rows x))
                          (mem x dd || in_desc_of g dd x || (cseen m && state_eqb (row_status rows x) CANCELLED))) n) 23 ++
  ck (negb normal ||
      forallb (fun x => mem x dd || in_desc_of g dd x || mem x (succ m) || state_eqb (row_status rows x) DRYRUN) n) 24 ++
  (* C04 *)
  ck (forallb (fun x => match row_status (prev m) x with
                        | FINISHED => state_eqb (row_status rows x) FINISHED
                        | DRYRUN => state_eqb (row_status rows x) DRYRUN
                        | FAILED | CANCELLED => fc_row (row_status rows x)
                        | _ => true end) n) 44 ++
  ck (forallb (fun x => impb (mem x (succ m)) (state_eqb (row_status rows x) FINISHED)) n) 46 ++
  ck (forallb (fun x => impb (state_eqb (row_status rows x) FINISHED) (mem x (succ m))) n) 47 ++
  ck (negb final || is_nil (live m)) 42 ++
  (* C06 *)
  ck (forallb (fun x => Nat.eqb (row_restarts rows x) (nth x (rcount_end m) 0)) n) 66 ++
  ck (forallb (fun x => ((rlimit (attr g x) =? 0) || (row_restarts rows x <=? rlimit (attr g x))) &&
                        (has_restart (attr g x) || (row_restarts rows x =? 0))) n) 67 ++
  (* C12: job id column *)
  ck (forallb (fun x => leqb (row_jobs rows x) (nth x (allj m) [])) n) 12 ++
  (* C03 unthrottled *)
  ck (negb (throttle c =? 0) || aborted || dry c ||
      forallb (fun x => impb (subset (parents (attr g x)) (sstage m))
                             (negb (state_eqb (row_status rows x) INITIALIZED))) n) 31 ++
  (* C20 *)
  ck (Bool.eqb qerr aborted) 203 ++
  ck (negb qerr || list_eqb row_eqb rows (prev m)) 202 ++
  ck (forallb (fun x =>
        let quiet := negb (qcode_eqb (qcode p) QOK) ||
                     match report_of (reports p) x with
                     | None => true
                     | Some v => negb (terminal v) && negb (state_eqb v RUNNING) end in
        impb quiet (row_eqb (nth x rows (INITIALIZED, [], 0)) (nth x (prev m) (INITIALIZED, [], 0)) && live_of x m))
      (lchk m)) 205 ++
  ck (forallb (fun x =>
        impb (qcode_eqb (qcode p) QOK && oeqb (report_of (reports p) x) RUNNING)
             (state_eqb (row_status rows x) RUNNING && leqb (row_jobs rows x) (row_jobs (prev m) x) &&
              Nat.eqb (row_restarts rows x) (row_restarts (prev m) x) && live_of x m))
      (lchk m)) 207 ++
  (* C07 *)
  ck (negb (cseen m && is_nil (live m)) || aborted || sstatus_eqb stat SCANCELLED) 72 ++
  (* C05 verdict *)
  ck (negb (sstatus_eqb stat SFINISHED) || (allsucc && negb (cseen m))) 51 ++
  ck (negb (allsucc && negb (cseen m)) || aborted || sstatus_eqb stat SFINISHED) 52 ++
  ck (negb (sstatus_eqb stat SCANCELLED) || cseen m || jc m) 53 ++
  ck (negb (sstatus_eqb stat SFAILURE) || (negb (cseen m) && negb (jc m) && negb allsucc)) 54 ++
  ck (negb normal ||
      forallb (fun x => impb (subset (parents (attr g x)) (succ m))
                             (mem x (tried m) || state_eqb (row_status rows x) DRYRUN)) n) 55 ++
  (* C17 *)
  ck (negb (dry c) || negb final || cseen m ||
      (forallb (fun x => state_eqb (row_status rows x) DRYRUN) n && sstatus_eqb stat SFINISHED)) 171 ++
  ck (negb (dry c) || cseen m || (npolls m <=? length g)) 172.

(** The monitor: ledger + accumulated verdict codes. *)
Record mon := { mb : base; viol : list nat }.
Definition mon0 (g : graph) : mon := {| mb := base0 g; viol := [] |}.

Definition step_ev (c : cfg) (g : graph) (p : pin) (m : mon) (e : event) : mon :=
  {| mb := step_base c g p (mb m) e; viol := viol m ++ flags_ev c g p (mb m) e |}.

(** A cancel REQUEST is an input of the poll (the .cancel.lock file), not an
    adapter call: it is in force from the start of the poll whether or not the
    code then calls cancel_jobs, and the first adapter call of such a poll must be
    that cancel_jobs call (code 73). *)
Definition pre_poll (p : pin) (es : list event) (m : mon) : mon :=
  if cancel_req p then
    {| mb := set_cseen (mb m) true;
       viol := viol m ++ ck (match es with ECancel _ :: _ => true | _ => false end) 73 |}
  else m.

Definition step_poll (c : cfg) (g : graph) (m : mon) (po : pin * obs) : mon :=
  let '(p, (es, rows, stat)) := po in
  let m := pre_poll p es m in
  let m := fold_left (step_ev c g p) es m in
  {| mb := end_base c g (mb m) rows; viol := viol m ++ flags_end c g p (mb m) rows stat |}.

(** The monitor over a whole history (pins zipped with observations). *)
Definition monitor (c : cfg) (g : graph) (h : list (pin * obs)) : mon := fold_left (step_poll c g) h (mon0 g).

Fixpoint zip {A B} (a : list A) (b : list B) : list (A * B) :=
  match a, b with x :: a', y :: b' => (x, y) :: zip a' b' | _, _ => [] end.

Definition viol_of (c : cfg) (g : graph) (ps : list pin) (os : list obs) : list nat :=
  viol (monitor c g (zip ps os)).

Definition family (pid : nat) : list nat :=
  match pid with
  | 1 => [1]
  | 2 => [2; 21; 22; 23; 24]
  | 3 => [3; 31]
  | 4 => [4; 41; 42; 43; 44; 46; 47; 40]
  | 5 => [51; 52; 53; 54; 55; 42]
  | 6 => [61; 62; 63; 66; 67]
  | 7 => [7; 71; 72; 73]
  | 12 => [12; 40; 207]
  | 17 => [17; 171; 172; 173]
  | 19 => [19; 191; 192]
  | 20 => [201; 202; 203; 205; 207; 40]
  | _ => []
  end.

Definition prop_ok (pid : nat) (c : cfg) (g : graph) (ps : list pin) (os : list obs) : bool :=
  let v := viol_of c g ps os in forallb (fun k => negb (mem k v)) (family pid).

(** Execution model, part 3: the conductor loop (Conductor.monitor_study) over
    the generated decision logic, and the per-poll observation. *)
From MWF Require Import Exec.ExecBase Exec.ExecGen.

(** One iteration of monitor_study: optional cancel_study, then
    execute_ready_steps.  The scripted submission outcomes of the poll are
    loaded first; events of the poll are collected from an empty log. *)
Definition poll (c : cfg) (g : graph) (s : st) (p : pin) : st * SStatus :=
  let s := set_evs (set_subs s (psubs p)) [] in
  let s := if cancel_req p then cancel_study_gen s else s in
  execute_ready_steps_gen c g p s.

(** What is observable after a poll: adapter calls in order, the status rows
    (state, job ids, restart count per instance), the returned study status. *)
Definition row := (State * list nat * nat)%type.
Definition obs := (list event * list row * SStatus)%type.
Definition rows_of (s : st) : list row := map (fun r => (status r, jobs r, restarts r)) (recs s).

Fixpoint run (c : cfg) (g : graph) (s : st) (ps : list pin) : list obs :=
  match ps with
  | [] => []
  | p :: ps' =>
    let '(s1, r) := poll c g s p in
    let o := (rev (evs s1), rows_of s1, r) in
    match r with
    | SRUNNING => o :: run c g s1 ps'
    | _ => [o]
    end
  end.

(** States after each poll (for the invariant statements). *)
Fixpoint run_states (c : cfg) (g : graph) (s : st) (ps : list pin) : list (st * SStatus) :=
  match ps with
  | [] => []
  | p :: ps' =>
    let '(s1, r) := poll c g s p in
    match r with
    | SRUNNING => (s1, r) :: run_states c g s1 ps'
    | _ => [(s1, r)]
    end
  end.

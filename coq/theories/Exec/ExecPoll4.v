(** What one poll does to the nodes it resolves unsuccessfully.

      poll_exact     (C02_exact)  every node that enters failed/cancelled in a poll has an
                     own cause in that poll (an unsuccessful report, a failed submission, or
                     it was popped from the ready queue after a cancel request) or has a
                     parent that is failed/cancelled at the end of the poll;
      poll_reported  (C02_marked, C06_exhausted) the fate of a node with a terminal
                     unsuccessful report: FAILED/UNKNOWN -> its whole sub-tree is in [failed] and
                     its own status is FAILED; CANCELLED -> sub-tree in [cancelled], own status
                     CANCELLED; TIMEDOUT without restart command (or after a cancel request)
                     -> in [failed] with status TIMEDOUT; TIMEDOUT with exhausted budget -> in
                     [failed] with status FAILED; otherwise a Restart submission succeeded or
                     the node is in [failed] with status FAILED. *)
From Coq Require Import Lia Relations.
From MWF Require Import Base.Util Base.UtilLemmas Exec.ExecBase Exec.ExecGen Exec.ExecRun Exec.ExecGraph Exec.ExecInv
  Exec.ExecPoll Exec.ExecSteps Exec.ExecPoll2 Exec.ExecPoll3.

#[local] Arguments bfs_subtree : simpl never.
#[local] Arguments submit_attempts : simpl never.
#[local] Arguments mark_failed_list : simpl never.
#[local] Arguments mark_cancelled_list : simpl never.
#[local] Arguments set_union : simpl never.

Ltac gsn := unfold getrec, inprog_remove, failed_add, completed_add, rec_set_status; sp; apply nth_upd_neq; auto.

Definition unsucc (v : State) : Prop := v = FAILED \/ v = UNKNOWN \/ v = CANCELLED \/ v = TIMEDOUT.

(** * Upper bounds on what the dispatch of one report touches *)
Lemma hr_bounds c g t cl ca x o t' cl' ca' : WF g -> Inv g t -> In x (inprog t) ->
  handle_report_gen c g (t, cl, ca) (x, o) = (t', cl', ca') ->
  (forall y, In y cl' -> In y cl \/ In y (bfs_subtree g x)) /\
  (forall y, In y ca' -> In y ca \/ In y (bfs_subtree g x)) /\
  (forall y, In y (failed t') -> In y (failed t) \/ In y (bfs_subtree g x)) /\
  (forall y, ~ In y (bfs_subtree g x) -> getrec t' y = getrec t y) /\
  (forall e, In e (evs t) -> In e (evs t')) /\
  ((cl' = cl /\ ca' = ca /\ forall y, In y (failed t') <-> In y (failed t)) \/
   ((exists v, o = Some v /\ unsucc v) /\
    forall z, In z (bfs_subtree g x) -> In z (failed t') \/ In z cl' \/ In z ca')).
Proof.
  intros W I Hx E.
  destruct (inprog_facts g t x I Hx) as (Hl & Hc & Hr & Hf & Hca & Hp & Hi).
  assert (Hlr : x < length (recs t)) by (rewrite (i_len_recs g t I); exact Hl).
  assert (Nx : forall y, ~ In y (bfs_subtree g x) -> x <> y).
  { intros y Hy ->. apply Hy. apply bfs_subtree_root. }
  unfold handle_report_gen in E.
  assert (Same : forall (A : Prop), A ->
     (cl = cl /\ ca = ca /\ forall y, In y (failed t) <-> In y (failed t)) \/ A).
  { intros A _. left. splits; auto. tauto. }
  destruct o as [[]|]; cbn [oeqb state_eqb] in E;
    try (inversion E; subst t' cl' ca'; clear E;
         split; [tauto|split; [tauto|split; [tauto|split; [reflexivity|split; [tauto|left; splits; auto; tauto]]]]]).
  - (* RUNNING *)
    inversion E; subst t' cl' ca'; clear E.
    split; [tauto|split; [tauto|split; [tauto|split; [|split; [tauto|left; splits; auto; tauto]]]]].
    intros y Hy. gsn.
  - (* FINISHED *)
    inversion E; subst t' cl' ca'; clear E.
    split; [tauto|split; [tauto|split; [tauto|split; [|split; [tauto|left; splits; auto; tauto]]]]].
    intros y Hy. gsn.
  - (* FAILED *)
    inversion E; subst t' cl' ca'; clear E.
    split; [|split; [tauto|split; [tauto|split; [|split; [tauto|right]]]]].
    + intros y. rewrite In_set_union. tauto.
    + intros y Hy. gsn.
    + split; [exists FAILED; unfold unsucc; auto|].
      intros z Hz. right. left. apply In_set_union. auto.
  - (* TIMEDOUT *)
    destruct (has_restart (attr g x) && negb (canceled t)) eqn:HR.
    + unfold mark_restart_gen in E.
      destruct ((rlimit (attr g x) =? 0) || (restarts (getrec (rec_set_status x TIMEDOUT t) x) <? rlimit (attr g x))).
      * inversion E; subst t' cl' ca'; clear E.
        set (t1 := rec_inc_restarts x (rec_set_status x TIMEDOUT t)).
        assert (I1 : Inv g t1) by (apply Inv_inc_restarts, Inv_set_status; [discriminate|auto]).
        pose proof (execute_record_sets c g x true t1) as ES.
        destruct (execute_record_evs c g x true t1) as (new & V1 & _).
        destruct (execute_record_recs c g x true t1 W I1 Hl) as (_ & R2 & _ & _ & R5).
        split; [tauto|split; [tauto|split; [|split; [|split]]]].
        -- intros y Hy. apply (er_f2 _ _ _ _ ES) in Hy. exact Hy.
        -- intros y Hy. destruct (R2 y) as [R|[->|(B & _)]]; [|exfalso; apply Hy, bfs_subtree_root|contradiction].
           rewrite R. unfold t1. rewrite getrec_inc_restarts_neq by auto. apply getrec_set_status_neq. auto.
        -- intros e He. rewrite V1. apply in_app_iff. right. exact He.
        -- destruct R5 as [R5|R5]; [left; splits; auto|].
           right. split; [exists TIMEDOUT; unfold unsucc; auto|].
           intros z Hz. left. apply R5. auto.
      * inversion E; subst t' cl' ca'; clear E.
        split; [|split; [tauto|split; [tauto|split; [|split; [tauto|right]]]]].
        -- intros y. rewrite In_set_union. tauto.
        -- intros y Hy. gsn.
        -- split; [exists TIMEDOUT; unfold unsucc; auto|].
           intros z Hz. right. left. apply In_set_union. auto.
    + inversion E; subst t' cl' ca'; clear E.
      split; [|split; [tauto|split; [|split; [|split; [tauto|right]]]]].
      * intros y. rewrite In_srem, In_set_union. tauto.
      * intros y. unfold failed_add, inprog_remove, rec_set_status. sp. rewrite In_sadd.
        intros [->|H]; auto. right. apply bfs_subtree_root.
      * intros y Hy. gsn.
      * split; [exists TIMEDOUT; unfold unsucc; auto|].
        intros z Hz. unfold failed_add, inprog_remove, rec_set_status. sp.
        rewrite In_sadd, In_srem, In_set_union. destruct (Nat.eq_dec z x); tauto.
  - (* UNKNOWN *)
    inversion E; subst t' cl' ca'; clear E.
    split; [|split; [tauto|split; [tauto|split; [|split; [tauto|right]]]]].
    + intros y. rewrite In_set_union. tauto.
    + intros y Hy. gsn.
    + split; [exists UNKNOWN; unfold unsucc; auto|].
      intros z Hz. right. left. apply In_set_union. auto.
  - (* CANCELLED *)
    inversion E; subst t' cl' ca'; clear E.
    split; [tauto|split; [|split; [tauto|split; [|split; [tauto|right]]]]].
    + intros y. rewrite In_set_union. tauto.
    + intros y Hy. gsn.
    + split; [exists CANCELLED; unfold unsucc; auto|].
      intros z Hz. right. right. apply In_set_union. auto.
Qed.

Lemma hr_mono c g t cl ca x o t' cl' ca' : Inv g t -> Pend g t cl ca -> In x (inprog t) ->
  handle_report_gen c g (t, cl, ca) (x, o) = (t', cl', ca') ->
  (forall y, U t cl ca y -> U t' cl' ca' y) /\ (forall y, In y (completed t) -> In y (completed t')) /\
  canceled t' = canceled t /\ (forall y, In y (failed t) -> In y (failed t')) /\ cancelled t' = cancelled t.
Proof.
  intros I P Hx E.
  assert (Hlr : x < length (recs t)) by (rewrite (i_len_recs g t I); apply (i_bound g t I); auto).
  pose proof (hr_canceled _ _ _ _ _ _ _ _ _ _ E) as Ec.
  destruct (hr_frame c g t cl ca x o t' cl' ca' Hlr E)
    as [(Ev & Rs & Ff & Cc & Kk & Rd & Ip & Cl & Ca & Tx)|(RB & -> & -> & Et)].
  - splits; auto. intros y [H|[H|[H|H]]]; unfold U; rewrite ?Cc; auto.
    destruct (Cl y H) as [->|H']; auto. exfalso. destruct (P x) as (_ & _ & A & _); auto.
  - pose proof (execute_record_sets c g x true (rec_inc_restarts x (rec_set_status x TIMEDOUT t))) as ES.
    rewrite <- Et in ES. splits; auto.
    + intros y [H|[H|[H|H]]]; unfold U; rewrite ?(er_cancelled _ _ _ _ ES); auto.
      left. apply (er_f1 _ _ _ _ ES). exact H.
    + apply (er_c1 _ _ _ _ ES).
    + apply (er_f1 _ _ _ _ ES).
    + apply (er_cancelled _ _ _ _ ES).
Qed.

(** a member of a collected sub-tree other than its root has a parent in it *)
Lemma bfs_member_parent g x y (A : nat -> Prop) : WF g -> x < length g ->
  In y (bfs_subtree g x) -> y <> x -> (forall z, In z (bfs_subtree g x) -> A z) ->
  exists z, In z (parents (attr g y)) /\ A z.
Proof.
  intros W Hx Hy Hne HA.
  pose proof (bfs_subtree_sound g x y W Hx Hy) as R.
  destruct (reach_last g x y R (fun E => Hne (eq_sym E))) as [z [Rz [Hzl Hzc]]].
  exists z. split; [eapply wf_child_par; eauto|]. apply HA. apply bfs_subtree_complete; auto.
Qed.

(** a node all of whose parents completed is in nobody else's sub-tree *)
Lemma not_in_bfs g t x z : WF g -> Inv g t -> incl (parents (attr g x)) (completed t) ->
  (In z (inprog t) \/ In z (ready t)) -> z <> x -> ~ In x (bfs_subtree g z).
Proof.
  intros W I Hp Hz Hne Hin.
  assert (Hzl : z < length g) by (apply (i_bound g t I); tauto).
  pose proof (bfs_subtree_sound g z x W Hzl Hin) as R.
  pose proof (anc_of_enabled g t z x W I Hp R Hne) as Hc.
  destruct Hz as [Hz|Hz]; [exact (i_dj_ci g t I z Hc Hz)|exact (i_dj_cr g t I z Hc Hz)].
Qed.

Section Exact.
Variables (c : cfg) (g : graph) (p : pin) (s : st).
Hypothesis W : WF g.
Hypothesis Ha : 0 < attempts c.

(** own cause, within this poll, of ending in failed / cancelled *)
Definition own (t : st) (done : list report) (y : nat) : Prop :=
  (exists v, In (y, Some v) done /\ unsucc v) \/
  (exists k sc, In (ESubmit y k sc None) (evs t)) \/
  (canceled t = true /\ incl (parents (attr g y)) (completed t)).

Definition J4 (t : st) (cl ca : list nat) (done : list report) : Prop :=
  forall y, U t cl ca y -> FC s y \/ own t done y \/ exists z, In z (parents (attr g y)) /\ U t cl ca z.
Definition J4c (a : conf) : Prop := let '(t, cl, ca, done) := a in J4 t cl ca done.

Lemma J4_mono t cl ca done t' cl' ca' done' :
  (forall y, U t cl ca y -> U t' cl' ca' y) ->
  (forall e, In e (evs t) -> In e (evs t')) -> incl done done' ->
  (canceled t = true -> canceled t' = true) ->
  (forall y, In y (completed t) -> In y (completed t')) ->
  (forall y, U t' cl' ca' y -> U t cl ca y \/ own t' done' y \/ exists z, In z (parents (attr g y)) /\ U t' cl' ca' z) ->
  J4 t cl ca done -> J4 t' cl' ca' done'.
Proof.
  intros HU He Hd Hc Hk Hnew J y Hy.
  destruct (Hnew y Hy) as [H|[H|H]]; auto.
  destruct (J y H) as [A|[A|[z [A B]]]]; auto.
  - right. left. destruct A as [(v & A1 & A2)|[(k & sc & A)|[A1 A2]]]; unfold own.
    + left. exists v. auto.
    + right. left. exists k, sc. auto.
    + right. right. split; auto. intros q Hq. auto.
  - right. right. exists z. auto.
Qed.

Lemma J4_step a b : pstep c g p a b -> J4c a -> J4c b.
Proof.
  intros St. destruct St as [t Cq I|t D I|t cl ca done x o t' cl' ca' D Q Hin Hnd Hinc I P Hx Cr Nm E
                            |t a cl ca done I P|t a ca done I P|t x done Hx I|t done I Cr]; unfold J4c.
  - (* cancel *)
    apply J4_mono; auto.
    + intros e He. right. exact He.
    + apply incl_refl.
  - (* check *)
    apply J4_mono; auto.
    + intros e He. right. exact He.
    + apply incl_refl.
  - (* report *)
    destruct (hr_mono c g t cl ca x o t' cl' ca' I P Hx E) as (M1 & M2 & M3 & M4 & M5).
    destruct (hr_bounds c g t cl ca x o t' cl' ca' W I Hx E) as (B1 & B2 & B3 & B4 & B5 & B6).
    assert (Hl : x < length g) by (apply (i_bound g t I); auto).
    apply J4_mono; auto.
    + intros e He. apply in_app_iff. auto.
    + rewrite M3. auto.
    + intros y Hy. destruct B6 as [(-> & -> & Bf)|[(v & -> & Hv) Ball]].
      * left. unfold U in *. rewrite M5 in Hy. rewrite Bf in Hy. exact Hy.
      * assert (Hb : U t cl ca y \/ In y (bfs_subtree g x)).
        { unfold U in *. rewrite M5 in Hy. destruct Hy as [H|[H|[H|H]]]; auto.
          - destruct (B3 y H); auto.
          - destruct (B1 y H); auto.
          - destruct (B2 y H); auto. }
        destruct Hb as [Hb|Hb]; auto. right.
        destruct (Nat.eq_dec y x) as [->|Hne].
        -- left. left. exists v. split; auto. apply in_app_iff. right. left. reflexivity.
        -- right. apply (bfs_member_parent g x y (U t' cl' ca') W Hl Hb Hne).
           intros z Hz. unfold U. destruct (Ball z Hz) as [H|[H|H]]; auto.
  - (* sweep failed *)
    apply J4_mono; auto; try apply incl_refl.
    + intros y. unfold U, rec_set_status, failed_add. sp. rewrite In_sadd. cbn [In]. intuition (subst; auto 6).
    + intros y. unfold U, rec_set_status, failed_add. sp. rewrite In_sadd. cbn [In]. intuition (subst; auto 6).
  - (* sweep cancelled *)
    apply J4_mono; auto; try apply incl_refl.
    + intros y. unfold U, rec_set_status, cancelled_add. sp. rewrite In_sadd. cbn [In]. intuition (subst; auto 6).
    + intros y. unfold U, rec_set_status, cancelled_add. sp. rewrite In_sadd. cbn [In]. intuition (subst; auto 6).
  - (* stage *)
    destruct (stage_node_frame g t x) as (F1 & F2 & F3 & F4 & F5 & F6 & F7 & _).
    apply J4_mono; unfold U; rewrite ?F1, ?F3, ?F4, ?F6, ?F7; auto; try apply incl_refl.
  - (* launch *)
    unfold launch_body_gen. destruct (ready t) as [|x rest] eqn:E; auto.
    destruct (ready_head_facts g t x rest I E) as (Hl & Hc & Hi & Hr & Hf & Hca & Hp).
    pose proof (Inv_pop g x rest t I E) as I1.
    change (canceled (set_ready t rest)) with (canceled t). destruct (canceled t) eqn:Cn.
    + apply J4_mono; auto; try apply incl_refl.
      * intros y. unfold U, rec_set_status, cancelled_add. sp. rewrite In_sadd. tauto.
      * intros y. unfold U, rec_set_status, cancelled_add. sp. rewrite In_sadd.
        intros [H|[[->|H]|H]]; auto 6. right. left. right. right. unfold own. sp. auto.
    + set (t1 := set_ready t rest).
      pose proof (execute_record_sets c g x false t1) as ES.
      destruct (execute_record_evs c g x false t1) as (new & V1 & V2 & V3 & V4 & V5).
      destruct (execute_record_recs c g x false t1 W I1 Hl) as (_ & _ & _ & _ & R5).
      apply J4_mono; try apply incl_refl.
      * intros y [H|H]; unfold U; rewrite ?(er_cancelled _ _ _ _ ES); auto.
        left. apply (er_f1 _ _ _ _ ES). exact H.
      * intros e He. rewrite V1. apply in_app_iff. right. exact He.
      * rewrite (er_canceled _ _ _ _ ES). auto.
      * intros y Hy. apply (er_c1 _ _ _ _ ES). exact Hy.
      * intros y Hy. unfold U in *. rewrite (er_cancelled _ _ _ _ ES) in *.
        destruct R5 as [R5|R5]; [left; rewrite R5 in Hy; exact Hy|].
        destruct Hy as [Hy|Hy]; [|auto]. apply R5 in Hy. destruct Hy as [Hy|Hy]; [|auto]. right.
        destruct (Nat.eq_dec y x) as [->|Hne].
        -- left. right. left. exists Main, (scheduled (attr g x)). rewrite V1. apply in_app_iff. left.
           assert (Dr : dry c = false).
           { destruct (dry c) eqn:Dr; auto. exfalso.
             unfold execute_record_gen in R5. rewrite Dr in R5.
             apply Hf. specialize (R5 x). unfold completed_add, rec_set_status in R5. sp.
             destruct (negb false); apply R5; left; apply bfs_subtree_root. }
           apply V5; auto. apply R5. left. apply bfs_subtree_root.
        -- right. apply (bfs_member_parent g x y _ W Hl Hy Hne).
           intros z Hz. left. apply R5. auto.
Qed.

Lemma J4_start : J4c (conf0 s p).
Proof. unfold J4c, conf0, poll_start, J4, U, FC. cbn. intros y [H|[H|[[]|[]]]]; auto. Qed.
End Exact.

Theorem poll_exact c g s p : WF g -> 0 < attempts c -> Inv g s -> valid_pin s p = true ->
  let s' := fst (poll c g s p) in
  forall y, FC s' y -> FC s y \/ own g s' (done_final c p) y \/ exists z, In z (parents (attr g y)) /\ FC s' z.
Proof.
  intros W Ha I V. cbv zeta. pose proof (poll_reach c g p W s I V) as R.
  pose proof (psteps_ind_inv c g p (J4c g s) (J4_step c g p s W Ha) _ _ R (J4_start g p s)) as J.
  unfold J4c, J4 in J. intros y Hy.
  destruct (J y) as [A|[A|[z [A [B|[B|[[]|[]]]]]]]]; auto.
  - unfold U. destruct Hy; auto.
  - right. right. exists z. unfold FC. auto.
  - right. right. exists z. unfold FC. auto.
Qed.

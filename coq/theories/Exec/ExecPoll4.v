(** What one poll does to the nodes it resolves unsuccessfully.

      poll_exact     (C02_exact)  every node that enters failed/cancelled in a poll has an
                     own cause in that poll (an unsuccessful report, a failed submission, or
                     it was popped from the ready queue after a cancel request) or has a
                     parent that is failed/cancelled at the end of the poll;
      poll_reported  (C02_marked, C06_exhausted) the fate of a node with a terminal
                     unsuccessful report: FAILED/UNKNOWN -> its whole sub-tree is in [failed] and
                     its own status is FAILED; CANCELLED -> sub-tree in [cancelled], own status
                     CANCELLED; TIMEDOUT without restart command (or after a cancel request)
                     -> in [failed] with status TIMEDOUT; TIMEDOUT with exhausted budget -> in
                     [failed] with status FAILED; otherwise a Restart submission succeeded or
                     the node is in [failed] with status FAILED. *)
From Coq Require Import Lia Relations.
From MWF Require Import Base.Util Base.UtilLemmas Exec.ExecBase Exec.ExecGen Exec.ExecRun Exec.ExecGraph Exec.ExecInv
  Exec.ExecPoll Exec.ExecSteps Exec.ExecPoll2 Exec.ExecPoll3.

#[local] Arguments bfs_subtree : simpl never.
#[local] Arguments submit_attempts : simpl never.
#[local] Arguments mark_failed_list : simpl never.
#[local] Arguments mark_cancelled_list : simpl never.
#[local] Arguments set_union : simpl never.

Ltac gsn := unfold getrec, inprog_remove, failed_add, completed_add, rec_set_status; sp; apply nth_upd_neq; auto.

Definition unsucc (v : State) : Prop := v = FAILED \/ v = UNKNOWN \/ v = CANCELLED \/ v = TIMEDOUT.

(** * Upper bounds on what the dispatch of one report touches *)
Lemma hr_bounds c g t cl ca x o t' cl' ca' : WF g -> Inv g t -> In x (inprog t) ->
  handle_report_gen c g (t, cl, ca) (x, o) = (t', cl', ca') ->
  (forall y, In y cl' -> In y cl \/ In y (bfs_subtree g x)) /\
  (forall y, In y ca' -> In y ca \/ In y (bfs_subtree g x)) /\
  (forall y, In y (failed t') -> In y (failed t) \/ In y (bfs_subtree g x)) /\
  (forall y, ~ In y (bfs_subtree g x) -> getrec t' y = getrec t y) /\
  (forall e, In e (evs t) -> In e (evs t')) /\
  ((cl' = cl /\ ca' = ca /\ forall y, In y (failed t') <-> In y (failed t)) \/
   ((exists v, o = Some v /\ unsucc v) /\
    forall z, In z (bfs_subtree g x) -> In z (failed t') \/ In z cl' \/ In z ca')).
Proof.
  intros W I Hx E.
  destruct (inprog_facts g t x I Hx) as (Hl & Hc & Hr & Hf & Hca & Hp & Hi).
  assert (Hlr : x < length (recs t)) by (rewrite (i_len_recs g t I); exact Hl).
  assert (Nx : forall y, ~ In y (bfs_subtree g x) -> x <> y).
  { intros y Hy ->. apply Hy. apply bfs_subtree_root. }
  unfold handle_report_gen in E.
  assert (Same : forall (A : Prop), A ->
     (cl = cl /\ ca = ca /\ forall y, In y (failed t) <-> In y (failed t)) \/ A).
  { intros A _. left. splits; auto. tauto. }
  destruct o as [[]|]; cbn [oeqb state_eqb] in E;
    try (inversion E; subst t' cl' ca'; clear E;
         split; [tauto|split; [tauto|split; [tauto|split; [reflexivity|split; [tauto|left; splits; auto; tauto]]]]]).
  - (* RUNNING *)
    inversion E; subst t' cl' ca'; clear E.
    split; [tauto|split; [tauto|split; [tauto|split; [|split; [tauto|left; splits; auto; tauto]]]]].
    intros y Hy. gsn.
  - (* FINISHED *)
    inversion E; subst t' cl' ca'; clear E.
    split; [tauto|split; [tauto|split; [tauto|split; [|split; [tauto|left; splits; auto; tauto]]]]].
    intros y Hy. gsn.
  - (* FAILED *)
    inversion E; subst t' cl' ca'; clear E.
    split; [|split; [tauto|split; [tauto|split; [|split; [tauto|right]]]]].
    + intros y. rewrite In_set_union. tauto.
    + intros y Hy. gsn.
    + split; [exists FAILED; unfold unsucc; auto|].
      intros z Hz. right. left. apply In_set_union. auto.
  - (* TIMEDOUT *)
    destruct (has_restart (attr g x) && negb (canceled t)) eqn:HR.
    + unfold mark_restart_gen in E.
      destruct ((rlimit (attr g x) =? 0) || (restarts (getrec (rec_set_status x TIMEDOUT t) x) <? rlimit (attr g x))).
      * inversion E; subst t' cl' ca'; clear E.
        set (t1 := rec_inc_restarts x (rec_set_status x TIMEDOUT t)).
        assert (I1 : Inv g t1) by (apply Inv_inc_restarts, Inv_set_status; [discriminate|auto]).
        pose proof (execute_record_sets c g x true t1) as ES.
        destruct (execute_record_evs c g x true t1) as (new & V1 & _).
        destruct (execute_record_recs c g x true t1 W I1 Hl) as (_ & R2 & _ & _ & R5).
        split; [tauto|split; [tauto|split; [|split; [|split]]]].
        -- intros y Hy. apply (er_f2 _ _ _ _ ES) in Hy. exact Hy.
        -- intros y Hy. destruct (R2 y) as [R|[->|(B & _)]]; [|exfalso; apply Hy, bfs_subtree_root|contradiction].
           rewrite R. unfold t1. rewrite getrec_inc_restarts_neq by auto. apply getrec_set_status_neq. auto.
        -- intros e He. rewrite V1. apply in_app_iff. right. exact He.
        -- destruct R5 as [R5|R5]; [left; splits; auto|].
           right. split; [exists TIMEDOUT; unfold unsucc; auto|].
           intros z Hz. left. apply R5. auto.
      * inversion E; subst t' cl' ca'; clear E.
        split; [|split; [tauto|split; [tauto|split; [|split; [tauto|right]]]]].
        -- intros y. rewrite In_set_union. tauto.
        -- intros y Hy. gsn.
        -- split; [exists TIMEDOUT; unfold unsucc; auto|].
           intros z Hz. right. left. apply In_set_union. auto.
    + inversion E; subst t' cl' ca'; clear E.
      split; [|split; [tauto|split; [|split; [|split; [tauto|right]]]]].
      * intros y. rewrite In_srem, In_set_union. tauto.
      * intros y. unfold failed_add, inprog_remove, rec_set_status. sp. rewrite In_sadd.
        intros [->|H]; auto. right. apply bfs_subtree_root.
      * intros y Hy. gsn.
      * split; [exists TIMEDOUT; unfold unsucc; auto|].
        intros z Hz. unfold failed_add, inprog_remove, rec_set_status. sp.
        rewrite In_sadd, In_srem, In_set_union. destruct (Nat.eq_dec z x); tauto.
  - (* UNKNOWN *)
    inversion E; subst t' cl' ca'; clear E.
    split; [|split; [tauto|split; [tauto|split; [|split; [tauto|right]]]]].
    + intros y. rewrite In_set_union. tauto.
    + intros y Hy. gsn.
    + split; [exists UNKNOWN; unfold unsucc; auto|].
      intros z Hz. right. left. apply In_set_union. auto.
  - (* CANCELLED *)
    inversion E; subst t' cl' ca'; clear E.
    split; [tauto|split; [|split; [tauto|split; [|split; [tauto|right]]]]].
    + intros y. rewrite In_set_union. tauto.
    + intros y Hy. gsn.
    + split; [exists CANCELLED; unfold unsucc; auto|].
      intros z Hz. right. right. apply In_set_union. auto.
Qed.

Lemma hr_mono c g t cl ca x o t' cl' ca' : Inv g t -> Pend g t cl ca -> In x (inprog t) ->
  handle_report_gen c g (t, cl, ca) (x, o) = (t', cl', ca') ->
  (forall y, U t cl ca y -> U t' cl' ca' y) /\ (forall y, In y (completed t) -> In y (completed t')) /\
  canceled t' = canceled t /\ (forall y, In y (failed t) -> In y (failed t')) /\ cancelled t' = cancelled t.
Proof.
  intros I P Hx E.
  assert (Hlr : x < length (recs t)) by (rewrite (i_len_recs g t I); apply (i_bound g t I); auto).
  pose proof (hr_canceled _ _ _ _ _ _ _ _ _ _ E) as Ec.
  destruct (hr_frame c g t cl ca x o t' cl' ca' Hlr E)
    as [(Ev & Rs & Ff & Cc & Kk & Rd & Ip & Cl & Ca & Tx)|(RB & -> & -> & Et)].
  - splits; auto. intros y [H|[H|[H|H]]]; unfold U; rewrite ?Cc; auto.
    destruct (Cl y H) as [->|H']; auto. exfalso. destruct (P x) as (_ & _ & A & _); auto.
  - pose proof (execute_record_sets c g x true (rec_inc_restarts x (rec_set_status x TIMEDOUT t))) as ES.
    rewrite <- Et in ES. splits; auto.
    + intros y [H|[H|[H|H]]]; unfold U; rewrite ?(er_cancelled _ _ _ _ ES); auto.
      left. apply (er_f1 _ _ _ _ ES). exact H.
    + apply (er_c1 _ _ _ _ ES).
    + apply (er_f1 _ _ _ _ ES).
    + apply (er_cancelled _ _ _ _ ES).
Qed.

(** a member of a collected sub-tree other than its root has a parent in it *)
Lemma bfs_member_parent g x y (A : nat -> Prop) : WF g -> x < length g ->
  In y (bfs_subtree g x) -> y <> x -> (forall z, In z (bfs_subtree g x) -> A z) ->
  exists z, In z (parents (attr g y)) /\ A z.
Proof.
  intros W Hx Hy Hne HA.
  pose proof (bfs_subtree_sound g x y W Hx Hy) as R.
  destruct (reach_last g x y R (fun E => Hne (eq_sym E))) as [z [Rz [Hzl Hzc]]].
  exists z. split; [eapply wf_child_par; eauto|]. apply HA. apply bfs_subtree_complete; auto.
Qed.

(** a node all of whose parents completed is in nobody else's sub-tree *)
Lemma not_in_bfs g t x z : WF g -> Inv g t -> incl (parents (attr g x)) (completed t) ->
  (In z (inprog t) \/ In z (ready t)) -> z <> x -> ~ In x (bfs_subtree g z).
Proof.
  intros W I Hp Hz Hne Hin.
  assert (Hzl : z < length g) by (apply (i_bound g t I); tauto).
  pose proof (bfs_subtree_sound g z x W Hzl Hin) as R.
  pose proof (anc_of_enabled g t z x W I Hp R Hne) as Hc.
  destruct Hz as [Hz|Hz]; [exact (i_dj_ci g t I z Hc Hz)|exact (i_dj_cr g t I z Hc Hz)].
Qed.

Section Exact.
Variables (c : cfg) (g : graph) (p : pin) (s : st).
Hypothesis W : WF g.
Hypothesis Ha : 0 < attempts c.

(** a cause of its own, within this poll, for ending unsuccessfully: an unsuccessful report
    dispatched in this poll, or a failed submission *)
Definition rown (t : st) (done : list report) (w : nat) : Prop :=
  (exists v, In (w, Some v) done /\ unsucc v) \/ (exists k sc, In (ESubmit w k sc None) (evs t)).
(** popped from the ready queue after a cancel request *)
Definition popped (t : st) (y : nat) : Prop :=
  canceled t = true /\ In y (cancelled t) /\ incl (parents (attr g y)) (completed t).

(** every (pending) failed/cancelled node was so before the poll, or was popped after a cancel
    request, or lies in the sub-tree of a node with an own cause in this poll *)
Definition J4 (t : st) (cl ca : list nat) (done : list report) : Prop :=
  forall y, U t cl ca y ->
    FC s y \/ popped t y \/ exists w, rown t done w /\ w < length g /\ In y (bfs_subtree g w) /\ U t cl ca w.
Definition J4c (a : conf) : Prop := let '(t, cl, ca, done) := a in J4 t cl ca done.

Lemma J4_mono t cl ca done t' cl' ca' done' :
  (forall y, U t cl ca y -> U t' cl' ca' y) ->
  (forall e, In e (evs t) -> In e (evs t')) -> incl done done' ->
  (canceled t = true -> canceled t' = true) ->
  (forall y, In y (completed t) -> In y (completed t')) ->
  (forall y, In y (cancelled t) -> In y (cancelled t')) ->
  (forall y, U t' cl' ca' y -> U t cl ca y \/ popped t' y \/
             exists w, rown t' done' w /\ w < length g /\ In y (bfs_subtree g w) /\ U t' cl' ca' w) ->
  J4 t cl ca done -> J4 t' cl' ca' done'.
Proof.
  intros HU He Hd Hc Hk Hcc Hnew J y Hy.
  destruct (Hnew y Hy) as [H|[H|H]]; auto.
  destruct (J y H) as [A|[(A1 & A2 & A3)|(w & A1 & A0 & A2 & A3)]]; auto.
  - right. left. unfold popped. splits; auto. intros q Hq. auto.
  - right. right. exists w. splits; auto.
    destruct A1 as [(v & B1 & B2)|(k & sc & B)]; [left; exists v; auto|right; exists k, sc; auto].
Qed.

Lemma J4_step a b : pstep c g p a b -> J4c a -> J4c b.
Proof.
  intros St. destruct St as [t Cq I Ev0|t D I Ev0|t cl ca done x o t' cl' ca' D Q Hin Hnd Hinc I P Hx Cr Nm E
                            |t a cl ca done I P|t a ca done I P|t x done Hx I|t done I Cr]; unfold J4c.
  - (* cancel *)
    apply J4_mono; auto.
    + intros e He. right. exact He.
    + apply incl_refl.
  - (* check *)
    apply J4_mono; auto.
    + intros e He. right. exact He.
    + apply incl_refl.
  - (* report *)
    destruct (hr_mono c g t cl ca x o t' cl' ca' I P Hx E) as (M1 & M2 & M3 & M4 & M5).
    destruct (hr_bounds c g t cl ca x o t' cl' ca' W I Hx E) as (B1 & B2 & B3 & B4 & B5 & B6).
    assert (Hl : x < length g) by (apply (i_bound g t I); auto).
    apply J4_mono; auto.
    + intros e He. apply in_app_iff. auto.
    + rewrite M3. auto.
    + rewrite M5. auto.
    + intros y Hy. destruct B6 as [(-> & -> & Bf)|[(v & -> & Hv) Ball]].
      * left. unfold U in *. rewrite M5 in Hy. rewrite Bf in Hy. exact Hy.
      * assert (Hb : U t cl ca y \/ In y (bfs_subtree g x)).
        { unfold U in *. rewrite M5 in Hy. destruct Hy as [H|[H|[H|H]]]; auto.
          - destruct (B3 y H); auto.
          - destruct (B1 y H); auto.
          - destruct (B2 y H); auto. }
        destruct Hb as [Hb|Hb]; auto. right. right. exists x. splits; auto.
        -- left. exists v. split; auto. apply in_app_iff. right. left. reflexivity.
        -- unfold U. destruct (Ball x (bfs_subtree_root g x)) as [H|[H|H]]; auto.
  - (* sweep failed *)
    apply J4_mono; auto; try apply incl_refl.
    + intros y. unfold U, rec_set_status, failed_add. sp. rewrite In_sadd. cbn [In]. intuition (subst; auto 6).
    + intros y. unfold U, rec_set_status, failed_add. sp. rewrite In_sadd. cbn [In]. intuition (subst; auto 6).
  - (* sweep cancelled *)
    apply J4_mono; auto; try apply incl_refl.
    + intros y. unfold U, rec_set_status, cancelled_add. sp. rewrite In_sadd. cbn [In]. intuition (subst; auto 6).
    + intros y. unfold rec_set_status, cancelled_add. sp. rewrite In_sadd. auto.
    + intros y. unfold U, rec_set_status, cancelled_add. sp. rewrite In_sadd. cbn [In]. intuition (subst; auto 6).
  - (* stage *)
    destruct (stage_node_frame g t x) as (F1 & F2 & F3 & F4 & F5 & F6 & F7 & _).
    apply J4_mono; unfold U; rewrite ?F1, ?F3, ?F4, ?F6, ?F7; auto; try apply incl_refl.
  - (* launch *)
    unfold launch_body_gen. destruct (ready t) as [|x rest] eqn:E; auto.
    destruct (ready_head_facts g t x rest I E) as (Hl & Hc & Hi & Hr & Hf & Hca & Hp).
    pose proof (Inv_pop g x rest t I E) as I1.
    change (canceled (set_ready t rest)) with (canceled t). destruct (canceled t) eqn:Cn.
    + apply J4_mono; auto; try apply incl_refl.
      * intros y. unfold U, rec_set_status, cancelled_add. sp. rewrite In_sadd. tauto.
      * intros y. unfold rec_set_status, cancelled_add. sp. rewrite In_sadd. auto.
      * intros y. unfold U, rec_set_status, cancelled_add. sp. rewrite In_sadd.
        intros [H|[[->|H]|H]]; auto 6. right. left. unfold popped. sp. splits; auto. apply In_sadd. auto.
    + set (t1 := set_ready t rest).
      pose proof (execute_record_sets c g x false t1) as ES.
      destruct (execute_record_evs c g x false t1) as (new & V1 & V2 & V3 & V4 & V5).
      destruct (execute_record_recs c g x false t1 W I1 Hl) as (_ & _ & _ & _ & R5).
      apply J4_mono; try apply incl_refl.
      * intros y [H|H]; unfold U; rewrite ?(er_cancelled _ _ _ _ ES); auto.
        left. apply (er_f1 _ _ _ _ ES). exact H.
      * intros e He. rewrite V1. apply in_app_iff. right. exact He.
      * rewrite (er_canceled _ _ _ _ ES). auto.
      * intros y Hy. apply (er_c1 _ _ _ _ ES). exact Hy.
      * rewrite (er_cancelled _ _ _ _ ES). auto.
      * intros y Hy. unfold U in *. rewrite (er_cancelled _ _ _ _ ES) in *.
        destruct R5 as [R5|R5]; [left; rewrite R5 in Hy; exact Hy|].
        destruct Hy as [Hy|Hy]; [|auto]. apply R5 in Hy. destruct Hy as [Hy|Hy]; [|auto]. right. right.
        assert (Hxf : In x (failed (execute_record_gen c g x false t1))) by (apply R5; left; apply bfs_subtree_root).
        exists x. splits; auto. right. exists Main, (scheduled (attr g x)). rewrite V1. apply in_app_iff. left.
        assert (Dr : dry c = false).
        { destruct (dry c) eqn:Dr; auto. exfalso.
          unfold execute_record_gen in Hxf. rewrite Dr in Hxf.
          apply Hf. unfold completed_add, rec_set_status in Hxf. sp. destruct (negb false); exact Hxf. }
        apply V5; auto.
Qed.

Lemma J4_start : J4c (conf0 s p).
Proof. unfold J4c, conf0, poll_start, J4, U, FC. cbn. intros y [H|[H|[[]|[]]]]; auto. Qed.
End Exact.

Theorem poll_exact c g s p : WF g -> 0 < attempts c -> Inv g s -> valid_pin s p = true ->
  let s' := fst (poll c g s p) in
  forall y, FC s' y ->
    FC s y \/ popped g s' y \/
    exists w, rown s' (done_final c p) w /\ reach g w y /\ FC s' w.
Proof.
  intros W Ha I V. cbv zeta. pose proof (poll_reach c g p W s I V) as R.
  pose proof (psteps_ind_inv c g p (J4c g s) (J4_step c g p s W Ha) _ _ R (J4_start g p s)) as J.
  unfold J4c, J4 in J. intros y Hy.
  destruct (J y) as [A|[A|(w & A1 & A0 & A2 & A3)]]; auto.
  - unfold U. destruct Hy; auto.
  - right. right. exists w.
    assert (Fw : FC (fst (poll c g s p)) w) by (destruct A3 as [B|[B|[[]|[]]]]; unfold FC; auto).
    splits; auto. apply bfs_subtree_sound; auto.
Qed.

(** * The fate of a node with an unsuccessful terminal report *)
Lemma submit_attempts_ok_ev g x r n : forall s s',
  submit_attempts g x r n s = (true, s') ->
  exists j, In (ESubmit x (kind_of r) (scheduled (attr g x)) (Some j)) (evs s').
Proof.
  induction n as [|n IH]; intros s s' E.
  - rewrite submit_attempts_O in E. discriminate.
  - rewrite submit_attempts_S in E. cbv zeta in E.
    destruct (next_sub _) as [b s3] eqn:En. destruct b.
    + inversion E. eexists. left. reflexivity.
    + eapply IH; eauto.
Qed.

Lemma execute_record_outcome c g x r s : WF g -> Inv g s -> x < length g -> dry c = false ->
  let s' := execute_record_gen c g x r s in
  (exists j, In (ESubmit x (kind_of r) (scheduled (attr g x)) (Some j)) (evs s')) \/
  ((forall y, In y (bfs_subtree g x) -> In y (failed s')) /\ status (getrec s' x) = FAILED).
Proof.
  intros W I Hx D. cbv zeta. unfold execute_record_gen. rewrite D.
  set (s1 := if negb r then emit (EGen x) s else s).
  assert (L1 : length (recs s1) = length g).
  { rewrite <- (i_len_recs g s I). subst s1; destruct (negb r); reflexivity. }
  destruct (submit_attempts g x r (attempts c) s1) as [ok s2] eqn:E. destruct ok.
  - left. destruct (submit_attempts_ok_ev g x r _ _ _ E) as [j Hj]. exists j.
    destruct (negb (scheduled (attr g x))); exact Hj.
  - right. apply submit_attempts_spec in E. destruct E as [[_ RL _ _ _] _ _ _]. split.
    + intros y Hy. apply mfl_failed. auto.
    + apply mfl_status_in; [apply bfs_subtree_root|]. unfold inprog_remove. sp. lia.
Qed.

Section Fate.
Variables (c : cfg) (g : graph) (p : pin) (s : st).
Hypothesis W : WF g.

Definition PendF (t : st) (cl ca : list nat) (x : nat) : Prop :=
  (forall y, In y (bfs_subtree g x) -> In y (failed t) \/ In y cl) /\ ~ In x ca /\
  (In x cl \/ status (getrec t x) = FAILED) /\ incl (parents (attr g x)) (completed t).
Definition SetF (t : st) (cl ca : list nat) (x : nat) : Prop :=
  In x (failed t) /\ ~ In x cl /\ ~ In x ca /\ status (getrec t x) = TIMEDOUT /\
  incl (parents (attr g x)) (completed t).
Definition PendC (t : st) (cl ca : list nat) (x : nat) : Prop :=
  (forall y, In y (bfs_subtree g x) -> In y (cancelled t) \/ In y ca) /\ ~ In x cl /\
  (In x ca \/ status (getrec t x) = CANCELLED) /\ incl (parents (attr g x)) (completed t).
Definition Restarted (t : st) (x : nat) : Prop := exists sc j, In (ESubmit x Restart sc (Some j)) (evs t).

(** TIMEDOUT is final: no restart command, or a cancel was requested *)
Definition cond_nr (x : nat) : Prop :=
  has_restart (attr g x) = false \/ canceled s = true \/ cancel_req p = true.
(** TIMEDOUT with the restart budget used up *)
Definition cond_ex (x : nat) : Prop :=
  has_restart (attr g x) = true /\ canceled s = false /\ cancel_req p = false /\
  0 < rlimit (attr g x) /\ rlimit (attr g x) <= restarts (getrec s x).

Definition fate (t : st) (cl ca : list nat) (x : nat) (v : State) : Prop :=
  match v with
  | FAILED | UNKNOWN => PendF t cl ca x
  | CANCELLED => PendC t cl ca x
  | TIMEDOUT => (cond_nr x -> SetF t cl ca x) /\ (cond_ex x -> PendF t cl ca x) /\
                (SetF t cl ca x \/ PendF t cl ca x \/ Restarted t x)
  | _ => True
  end.

Record J5 (t : st) (cl ca : list nat) (done : list report) : Prop := {
  k_cn : canceled t = true -> canceled s = true \/ cancel_req p = true;
  k_cn2 : canceled s = true -> canceled t = true;
  k_rs : forall x, ~ In x (map fst done) -> restarts (getrec t x) = restarts (getrec s x);
  k_fate : forall x v, In (x, Some v) done -> fate t cl ca x v }.
Definition J5c (a : conf) : Prop := let '(t, cl, ca, done) := a in J5 t cl ca done.

(** a fate survives a step that does not concern the node *)
Lemma fate_keep t cl ca t' cl' ca' x v :
  (forall y, In y (failed t) -> In y (failed t')) -> (forall y, In y (cancelled t) -> In y (cancelled t')) ->
  (forall y, In y cl -> In y (failed t') \/ In y cl') -> (forall y, In y ca -> In y (cancelled t') \/ In y ca') ->
  (forall y, In y (completed t) -> In y (completed t')) -> (forall e, In e (evs t) -> In e (evs t')) ->
  (U t cl ca x -> incl (parents (attr g x)) (completed t) ->
     (In x cl' -> In x cl) /\ (In x ca' -> In x ca) /\
     (In x cl -> In x cl' \/ status (getrec t' x) = FAILED) /\
     (In x ca -> In x ca' \/ status (getrec t' x) = CANCELLED) /\
     (~ In x cl -> ~ In x ca -> status (getrec t' x) = status (getrec t x))) ->
  fate t cl ca x v -> fate t' cl' ca' x v.
Proof.
  intros H1 H2 H3 H4 H10 H11 HK.
  assert (KF : PendF t cl ca x -> PendF t' cl' ca' x).
  { intros (A & B & C & D).
    assert (Ux : U t cl ca x) by (unfold U; destruct (A x (bfs_subtree_root g x)); auto).
    destruct (HK Ux D) as (K5 & K6 & K7 & K8 & K9). unfold PendF. split; [|split; [|split]].
    - intros y Hy. destruct (A y Hy) as [Hf|Hc]; auto.
    - auto.
    - destruct (in_dec Nat.eq_dec x cl) as [Hi|Hn]; [apply K7; exact Hi|].
      destruct C as [C|C]; [contradiction|]. right. rewrite K9; auto.
    - intros z Hz. auto. }
  assert (KS : SetF t cl ca x -> SetF t' cl' ca' x).
  { intros (A & B & C & D & E).
    assert (Ux : U t cl ca x) by (unfold U; auto).
    destruct (HK Ux E) as (K5 & K6 & K7 & K8 & K9). unfold SetF. split; [|split; [|split; [|split]]]; auto.
    - rewrite K9; auto.
    - intros z Hz. auto. }
  assert (KC : PendC t cl ca x -> PendC t' cl' ca' x).
  { intros (A & B & C & D).
    assert (Ux : U t cl ca x) by (unfold U; destruct (A x (bfs_subtree_root g x)); auto).
    destruct (HK Ux D) as (K5 & K6 & K7 & K8 & K9). unfold PendC. split; [|split; [|split]].
    - intros y Hy. destruct (A y Hy) as [Hf|Hc]; auto.
    - auto.
    - destruct (in_dec Nat.eq_dec x ca) as [Hi|Hn]; [apply K8; exact Hi|].
      destruct C as [C|C]; [contradiction|]. right. rewrite K9; auto.
    - intros z Hz. auto. }
  assert (KR : Restarted t x -> Restarted t' x).
  { intros (sc & j & H). exists sc, j. auto. }
  destruct v; unfold fate; auto.
  intros (A & B & C). splits; auto. destruct C as [C|[C|C]]; auto.
Qed.

Lemma J5_report t cl ca done x o t' cl' ca' :
  dry c = false -> ~ In x (map fst done) -> Inv g t -> Pend g t cl ca -> In x (inprog t) -> creq p t ->
  handle_report_gen c g (t, cl, ca) (x, o) = (t', cl', ca') ->
  J5 t cl ca done -> J5 t' cl' ca' (done ++ [(x, o)]).
Proof.
  intros D Hnd I P Hx Cr E J.
  destruct (inprog_facts g t x I Hx) as (Hl & Hc & Hr & Hf & Hca & Hp & Hi).
  assert (Hlr : x < length (recs t)) by (rewrite (i_len_recs g t I); exact Hl).
  destruct (hr_mono c g t cl ca x o t' cl' ca' I P Hx E) as (M1 & M2 & M3 & M4 & M5).
  destruct (hr_bounds c g t cl ca x o t' cl' ca' W I Hx E) as (B1 & B2 & B3 & B4 & B5 & B6).
  assert (Pcl : ~ In x cl) by (intros H; destruct (P x) as (_ & _ & A & _); auto).
  assert (Pca : ~ In x ca) by (intros H; destruct (P x) as (_ & _ & A & _); auto).
  (* what the dispatch does to the accumulators and to the restart counters of the others *)
  assert (Acc : (forall y, In y cl -> In y cl') /\ (forall y, In y ca -> In y ca') /\
                (forall y, y <> x -> restarts (getrec t' y) = restarts (getrec t y))).
  { destruct (hr_frame c g t cl ca x o t' cl' ca' Hlr E)
      as [(Ev & Rs & Ff & Cc & Kk & Rd & Ip & Cl & Ca & Tx)|(RB & -> & -> & Et)].
    - splits; auto. intros y Hy. destruct (Cl y Hy) as [->|H]; [contradiction|exact H].
    - splits; auto. intros y Hne.
      set (t1 := rec_inc_restarts x (rec_set_status x TIMEDOUT t)) in *.
      assert (I1 : Inv g t1) by (apply Inv_inc_restarts, Inv_set_status; [discriminate|auto]).
      destruct (execute_record_recs c g x true t1 W I1 Hl) as (R1 & _). rewrite Et, R1.
      unfold t1. rewrite getrec_inc_restarts_neq by auto. apply restarts_set_status. }
  destruct Acc as (Acl & Aca & Ars).
  constructor.
  - rewrite M3. apply (k_cn _ _ _ _ J).
  - rewrite M3. apply (k_cn2 _ _ _ _ J).
  - intros y Hy. rewrite map_app, in_app_iff in Hy. cbn in Hy.
    assert (Hne : y <> x) by (intros ->; tauto).
    rewrite Ars by exact Hne. apply (k_rs _ _ _ _ J). tauto.
  - intros y v Hy. apply in_app_iff in Hy. destruct Hy as [Hy|[Hy|[]]].
    + (* an earlier report: its fate is kept *)
      assert (Hne : x <> y).
      { intros <-. apply Hnd. apply in_map_iff. exists (x, Some v). auto. }
      apply (fate_keep t cl ca t' cl' ca' y v); auto; [rewrite M5; auto| |exact (k_fate _ _ _ _ J y v Hy)].
      intros Uy Py.
      assert (Nb : ~ In y (bfs_subtree g x)) by (apply (not_in_bfs g t y x W I Py); auto).
      splits.
      * intros H. destruct (B1 y H); tauto.
      * intros H. destruct (B2 y H); tauto.
      * auto.
      * auto.
      * intros _ _. rewrite B4; auto.
    + (* the report being dispatched *)
      inversion Hy; subst y o; clear Hy.
      assert (Cn : canceled t = true <-> (canceled s = true \/ cancel_req p = true)).
      { split; [apply (k_cn _ _ _ _ J)|]. intros [H|H]; [apply (k_cn2 _ _ _ _ J H)|apply Cr; exact H]. }
      assert (Rs0 : restarts (getrec t x) = restarts (getrec s x)) by (apply (k_rs _ _ _ _ J); exact Hnd).
      unfold handle_report_gen in E.
      destruct v; unfold fate; auto; cbn [oeqb state_eqb] in E.
      * (* FAILED *)
        inversion E; subst t' cl' ca'; clear E. unfold PendF. splits; auto.
        -- intros y Hy. right. apply In_set_union. auto.
        -- left. apply In_set_union. left. apply bfs_subtree_root.
      * (* TIMEDOUT *)
        destruct (has_restart (attr g x) && negb (canceled t)) eqn:HR.
        -- apply andb_true_iff in HR. destruct HR as [HR1 HR2]. apply negb_true_iff in HR2.
           assert (Nnr : ~ cond_nr x).
           { intros [H|H]; [congruence|]. apply Cn in H. congruence. }
           unfold mark_restart_gen in E.
           assert (Er : restarts (getrec (rec_set_status x TIMEDOUT t) x) = restarts (getrec t x)) by apply restarts_set_status.
           rewrite Er in E.
           destruct ((rlimit (attr g x) =? 0) || (restarts (getrec t x) <? rlimit (attr g x))) eqn:Bd.
           ++ inversion E; subst t' cl' ca'; clear E.
              set (t1 := rec_inc_restarts x (rec_set_status x TIMEDOUT t)) in *.
              assert (I1 : Inv g t1) by (apply Inv_inc_restarts, Inv_set_status; [discriminate|auto]).
              splits; [tauto| |].
              ** intros (_ & _ & _ & E1 & E2). exfalso. rewrite <- Rs0 in E2.
                 apply orb_true_iff in Bd. destruct Bd as [Bd|Bd]; [apply Nat.eqb_eq in Bd; lia|apply Nat.ltb_lt in Bd; lia].
              ** destruct (execute_record_outcome c g x true t1 W I1 Hl D) as [[j Hj]|[O1 O2]].
                 --- right. right. exists (scheduled (attr g x)), j. exact Hj.
                 --- right. left. unfold PendF. splits; auto.
                     intros z Hz. apply M2. apply Hp. exact Hz.
           ++ inversion E; subst t' cl' ca'; clear E.
              assert (PF : PendF (inprog_remove x (rec_set_status x TIMEDOUT t)) (set_union (bfs_subtree g x) cl) ca x).
              { unfold PendF. splits; auto.
                - intros y Hy. right. apply In_set_union. auto.
                - left. apply In_set_union. left. apply bfs_subtree_root. }
              splits; [tauto|auto|auto].
        -- inversion E; subst t' cl' ca'; clear E.
           assert (SF : SetF (failed_add x (inprog_remove x (rec_set_status x TIMEDOUT t)))
                             (srem x (set_union (bfs_subtree g x) cl)) ca x).
           { unfold SetF. splits; auto.
             - unfold failed_add. sp. apply In_sadd. auto.
             - rewrite In_srem. tauto.
             - change (status (getrec (rec_set_status x TIMEDOUT t) x) = TIMEDOUT).
               rewrite getrec_set_status_eq by exact Hlr. reflexivity. }
           splits; auto. intros (E1 & E2 & E3 & _). exfalso.
           assert (canceled t = false).
           { destruct (canceled t) eqn:Ct; auto. destruct (proj1 Cn eq_refl); congruence. }
           rewrite E1, H in HR. discriminate.
      * (* UNKNOWN *)
        inversion E; subst t' cl' ca'; clear E. unfold PendF. splits; auto.
        -- intros y Hy. right. apply In_set_union. auto.
        -- left. apply In_set_union. left. apply bfs_subtree_root.
      * (* CANCELLED *)
        inversion E; subst t' cl' ca'; clear E. unfold PendC. splits; auto.
        -- intros y Hy. right. apply In_set_union. auto.
        -- left. apply In_set_union. left. apply bfs_subtree_root.
Qed.

(** steps that keep records, result sets and accumulators *)
Lemma fate_same t t' cl ca x v : recs t' = recs t -> failed t' = failed t -> cancelled t' = cancelled t ->
  (forall y, In y (completed t) -> In y (completed t')) -> (forall e, In e (evs t) -> In e (evs t')) ->
  fate t cl ca x v -> fate t' cl ca x v.
Proof.
  intros E1 E2 E3 Hc He. apply fate_keep; auto; rewrite ?E2, ?E3; auto.
  intros _ _. unfold getrec. rewrite E1. splits; auto.
Qed.

Lemma J5_step a b : pstep c g p a b -> J5c a -> J5c b.
Proof.
  intros St. destruct St as [t Cq I Ev0|t D I Ev0|t cl ca done x o t' cl' ca' D Q Hin Hnd Hinc I P Hx Cr Nm E
                            |t a cl ca done I P|t a ca done I P|t x done Hx I|t done I Cr]; unfold J5c.
  - (* cancel *)
    intros [A1 A2 A3 A4]. constructor; auto.
    intros x v Hx. apply (fate_same t); auto. intros e He. right. exact He.
  - (* check *)
    intros [A1 A2 A3 A4]. constructor; auto.
    intros x v Hx. apply (fate_same t); auto. intros e He. right. exact He.
  - intros J. eapply J5_report; eauto.
  - (* sweep failed *)
    intros [A1 A2 A3 A4]. destruct (P a) as (Al & Ac & Ai & Ar); [left; left; reflexivity|].
    assert (Hlr : a < length (recs t)) by (rewrite (i_len_recs g t I); exact Al).
    constructor; auto.
    + intros x Hx. rewrite restarts_set_status. apply (A3 x Hx).
    + intros x v Hx. apply (fate_keep t (a :: cl) ca); auto.
      * intros y Hy. unfold rec_set_status, failed_add. sp. apply In_sadd. auto.
      * intros y [<-|Hy]; auto. left. unfold rec_set_status, failed_add. sp. apply In_sadd. auto.
      * intros _ _. splits; auto.
        -- intros H. right. exact H.
        -- intros [<-|H]; auto. right.
           change (status (getrec (rec_set_status a FAILED (failed_add a t)) a) = FAILED).
           rewrite getrec_set_status_eq; auto.
        -- intros Hn _. rewrite getrec_set_status_neq; auto. intros ->. apply Hn. left. reflexivity.
  - (* sweep cancelled *)
    intros [A1 A2 A3 A4]. destruct (P a) as (Al & Ac & Ai & Ar); [right; left; reflexivity|].
    assert (Hlr : a < length (recs t)) by (rewrite (i_len_recs g t I); exact Al).
    constructor; auto.
    + intros x Hx. rewrite restarts_set_status. apply (A3 x Hx).
    + intros x v Hx. apply (fate_keep t [] (a :: ca)); auto.
      * intros y Hy. unfold rec_set_status, cancelled_add. sp. apply In_sadd. auto.
      * intros y [<-|Hy]; auto. left. unfold rec_set_status, cancelled_add. sp. apply In_sadd. auto.
      * intros _ _. splits; auto.
        -- intros H. right. exact H.
        -- intros [<-|H]; auto. right.
           change (status (getrec (rec_set_status a CANCELLED (cancelled_add a t)) a) = CANCELLED).
           rewrite getrec_set_status_eq; auto.
        -- intros _ Hn. rewrite getrec_set_status_neq; auto. intros ->. apply Hn. left. reflexivity.
  - (* stage *)
    intros [A1 A2 A3 A4].
    destruct (stage_node_frame g t x) as (F1 & F2 & F3 & F4 & F5 & F6 & F7 & _).
    constructor; unfold getrec; rewrite ?F5, ?F6; auto.
    intros y v Hy. apply (fate_same t); auto. rewrite F1. auto. rewrite F7. auto.
  - (* launch *)
    intros J. unfold launch_body_gen. destruct (ready t) as [|x rest] eqn:E; auto.
    destruct (ready_head_facts g t x rest I E) as (Hl & Hc & Hi & Hr & Hf & Hca & Hp).
    assert (Hxr : In x (ready t)) by (rewrite E; left; reflexivity).
    pose proof (Inv_pop g x rest t I E) as I1.
    destruct J as [A1 A2 A3 A4].
    assert (Hne : forall y, U t [] [] y -> y <> x).
    { intros y [H|[H|[[]|[]]]] ->; contradiction. }
    change (canceled (set_ready t rest)) with (canceled t). destruct (canceled t) eqn:Cn.
    + constructor; auto.
      * intros y Hy. change (restarts (getrec (rec_set_status x CANCELLED t) y) = restarts (getrec s y)).
        rewrite restarts_set_status. apply (A3 y Hy).
      * intros y v Hy. apply (fate_keep t [] []); auto.
        -- intros z Hz. unfold rec_set_status, cancelled_add. sp. apply In_sadd. auto.
        -- intros Uy _. splits; auto. intros _ _.
           change (status (getrec (rec_set_status x CANCELLED t) y) = status (getrec t y)).
           rewrite getrec_set_status_neq; auto. intros ->. exact (Hne y Uy eq_refl).
    + set (t1 := set_ready t rest) in *.
      pose proof (execute_record_sets c g x false t1) as ES.
      destruct (execute_record_evs c g x false t1) as (new & V1 & _).
      destruct (execute_record_recs c g x false t1 W I1 Hl) as (R1 & R2 & _).
      constructor; auto.
      * intros H. rewrite (er_canceled _ _ _ _ ES) in H. change (canceled t1) with (canceled t) in H. congruence.
      * intros H. specialize (A2 H). discriminate.
      * intros y Hy. rewrite R1. apply (A3 y Hy).
      * intros y v Hy. apply (fate_keep t [] []); auto.
        -- apply (er_f1 _ _ _ _ ES).
        -- rewrite (er_cancelled _ _ _ _ ES). auto.
        -- apply (er_c1 _ _ _ _ ES).
        -- intros e He. rewrite V1. apply in_app_iff. right. exact He.
        -- intros Uy Py. splits; auto. intros _ _.
           assert (Nb : ~ In y (bfs_subtree g x)) by (apply (not_in_bfs g t y x W I Py); auto; intros ->; exact (Hne y Uy eq_refl)).
           destruct (R2 y) as [R|[->|(B & _)]]; [rewrite R; reflexivity|exfalso; exact (Hne x Uy eq_refl)|contradiction].
Qed.

Lemma J5_start : J5c (conf0 s p).
Proof. unfold J5c, conf0, poll_start. constructor; auto. intros x v []. Qed.
End Fate.

(** what a poll guarantees for a node with an unsuccessful terminal report *)
Definition reported_ok (c : cfg) (g : graph) (p : pin) (s s' : st) (x : nat) (v : State) : Prop :=
  match v with
  | FAILED | UNKNOWN => (forall d, reach g x d -> In d (failed s')) /\ status (getrec s' x) = FAILED
  | CANCELLED => (forall d, reach g x d -> In d (cancelled s')) /\ status (getrec s' x) = CANCELLED
  | TIMEDOUT =>
      (cond_nr g p s x -> In x (failed s') /\ status (getrec s' x) = TIMEDOUT) /\
      (cond_ex g p s x -> (forall d, reach g x d -> In d (failed s')) /\ status (getrec s' x) = FAILED) /\
      ((In x (failed s') /\ (status (getrec s' x) = TIMEDOUT \/ status (getrec s' x) = FAILED)) \/
       exists sc j, In (ESubmit x Restart sc (Some j)) (evs s'))
  | _ => True
  end.

Theorem poll_reported c g s p : WF g -> Inv g s -> valid_pin s p = true ->
  dry c = false -> qcode p = QOK -> forall x v, In (x, Some v) (reports p) ->
  reported_ok c g p s (fst (poll c g s p)) x v.
Proof.
  intros W I V D Q x v Hin. pose proof (poll_reach c g p W s I V) as R.
  pose proof (psteps_ind_inv c g p (J5c g p s) (J5_step c g p s W) _ _ R (J5_start g p s)) as J.
  unfold J5c in J.
  assert (Ed : (if qcode_eqb (qcode p) QERROR && negb (dry c) then [] else delivered c p) = reports p).
  { unfold delivered. rewrite D, Q. reflexivity. }
  rewrite Ed in J. pose proof (k_fate _ _ _ _ _ _ _ J x v Hin) as F.
  apply valid_pin_spec in V. destruct V as [_ Vi].
  assert (Hl : x < length g) by (apply (i_bound g s I); right; left; eapply Vi; eauto).
  set (s' := fst (poll c g s p)) in *.
  assert (PF : PendF g s' [] [] x -> (forall d, reach g x d -> In d (failed s')) /\ status (getrec s' x) = FAILED).
  { intros (A & _ & B & _). split.
    - intros d Rd. destruct (A d (bfs_subtree_complete g x d W Hl Rd)) as [H|[]]. exact H.
    - destruct B as [[]|B]. exact B. }
  assert (SF : SetF g s' [] [] x -> In x (failed s') /\ status (getrec s' x) = TIMEDOUT).
  { intros (A & _ & _ & B & _). auto. }
  destruct v; unfold reported_ok, fate in *; auto.
  - destruct F as (F1 & F2 & F3). splits; auto.
    destruct F3 as [F3|[F3|F3]]; auto.
    + left. destruct (SF F3). auto.
    + left. destruct (PF F3) as [A B]. split; auto. apply A. apply reach_refl.
  - destruct F as (A & _ & B & _). split.
    + intros d Rd. destruct (A d (bfs_subtree_complete g x d W Hl Rd)) as [H|[]]. exact H.
    + destruct B as [[]|B]. exact B.
Qed.

(** C17 -- a dry run generates everything and executes nothing.
    Facts about [poll] with [dry c = true] and their lifting to runs.

    Part 1: no effects -- a dry poll emits only EGen events (and an ECancel with an
            empty job list on a cancel request), and keeps [inprog] empty.
    Part 2: the dry-run invariant [Dry] (no cancel request so far), progress of every
            poll, termination within [length g + 1] polls with every row DRYRUN.
    Part 3: script generation -- the EGen events of a dry run are the completed list. *)
From Coq Require Import Lia.
From MWF Require Import Base.Util Base.UtilLemmas Exec.ExecBase Exec.ExecGen Exec.ExecRun Exec.ExecTrace
  Exec.ExecGraph Exec.ExecInv Exec.ExecFault.

Arguments bfs_subtree : simpl never.
Arguments submit_attempts : simpl never.
Arguments mark_failed_list : simpl never.
Arguments mark_cancelled_list : simpl never.

Lemma iter_S {A} n (f : A -> A) x : Nat.iter (S n) f x = f (Nat.iter n f x).
Proof. reflexivity. Qed.
Lemma iter_S_r {A} n (f : A -> A) : forall x, Nat.iter (S n) f x = Nat.iter n f (f x).
Proof. induction n as [|n IH]; intros x; [reflexivity|]. rewrite iter_S, IH. reflexivity. Qed.

(** * Part 1: no effects *)
Definition dry_ev_ok (e : event) : bool :=
  match e with EGen _ => true | ECancel [] => true | _ => false end.

Lemma dry_poll_phases c g s p : dry c = true ->
  poll c g s p = stage_launch c g (at_query c s p).
Proof.
  intros Hd. rewrite poll_phases by congruence. unfold delivered. rewrite Hd. reflexivity.
Qed.

Lemma stage_node_same g s y :
  let s' := stage_node_gen g s y in
  recs s' = recs s /\ completed s' = completed s /\ inprog s' = inprog s /\ failed s' = failed s /\
  cancelled s' = cancelled s /\ canceled s' = canceled s /\ evs s' = evs s /\ subs s' = subs s /\
  next_job s' = next_job s.
Proof.
  unfold stage_node_gen. destruct (mem y (completed s)); [repeat split|].
  destruct (state_eqb _ _); [|repeat split].
  destruct (is_nil _); [|repeat split].
  destruct (negb _); repeat split.
Qed.

Lemma stage_fold_same g l : forall s,
  let s' := fold_left (stage_node_gen g) l s in
  recs s' = recs s /\ completed s' = completed s /\ inprog s' = inprog s /\ failed s' = failed s /\
  cancelled s' = cancelled s /\ canceled s' = canceled s /\ evs s' = evs s /\ subs s' = subs s /\
  next_job s' = next_job s.
Proof.
  induction l as [|y l IH]; intros s; cbn [fold_left]; [repeat split|].
  specialize (IH (stage_node_gen g s y)). cbv zeta in IH.
  pose proof (stage_node_same g s y) as A. cbv zeta in A.
  destruct IH as (A1 & A2 & A3 & A4 & A5 & A6 & A7 & A8 & A9).
  destruct A as (B1 & B2 & B3 & B4 & B5 & B6 & B7 & B8 & B9).
  cbv zeta. splits; congruence.
Qed.

(** the adapter calls of a dry poll, and what it leaves untouched *)
Theorem dry_poll_no_effects c g s p : dry c = true ->
  let s' := fst (poll c g s p) in
  (forall e, In e (evs s') ->
     match e with
     | EGen _ => True
     | ECancel js => js = map (lastjob s) (inprog s)
     | ECheck _ | ESubmit _ _ _ _ => False
     end) /\
  inprog s' = inprog s /\ next_job s' = next_job s.
Proof.
  intros Hd. rewrite dry_poll_phases by exact Hd. unfold stage_launch. cbn [fst].
  set (s0 := at_query c s p).
  set (s1 := fold_left (stage_node_gen g) (seq 0 (length g)) s0).
  pose proof (stage_fold_same g (seq 0 (length g)) s0) as A. cbv zeta in A. fold s1 in A.
  destruct A as (A1 & A2 & A3 & A4 & A5 & A6 & A7 & A8 & A9).
  pose proof (at_query_fields c s p) as B. cbv zeta in B. fold s0 in B.
  destruct B as (B1 & B2 & B3 & B4 & B5 & B6 & B7 & B8 & B9 & B10).
  (* generalised event predicate: every event is EGen or the one ECancel *)
  set (okev := fun e => match e with EGen _ => True | ECancel js => js = map (lastjob s) (inprog s)
                                | _ => False end).
  assert (E0 : forall e, In e (evs s1) -> okev e).
  { rewrite A7. unfold s0, at_query, cancel_study_gen. rewrite Hd. cbn [negb].
    destruct (cancel_req p); cbn; [intros e [<-|[]]; reflexivity | intros e []]. }
  assert (L : forall n s2, (forall e, In e (evs s2) -> okev e) ->
            let s3 := Nat.iter n (launch_body_gen c g) s2 in
            (forall e, In e (evs s3) -> okev e) /\ inprog s3 = inprog s2 /\ next_job s3 = next_job s2).
  { induction n as [|n IH]; intros s2 H2; [cbn; auto|]. rewrite iter_S.
    specialize (IH s2 H2). cbv zeta in IH. destruct IH as (I1 & I2 & I3).
    set (s3 := Nat.iter n (launch_body_gen c g) s2) in *.
    unfold launch_body_gen. destruct (ready s3) as [|y rest]; [auto|].
    cbn [canceled set_ready]. destruct (canceled s3).
    - cbn. auto.
    - unfold execute_record_gen. rewrite Hd. cbn. splits; auto.
      intros e [<-|He]; [exact Logic.I | auto]. }
  destruct (L (available_gen c s1) s1 E0) as (L1 & L2 & L3).
  splits; [exact L1 | congruence | congruence].
Qed.

Lemma dry_poll_inprog c g s p : dry c = true -> inprog s = [] -> inprog (fst (poll c g s p)) = [].
Proof. intros Hd H. destruct (dry_poll_no_effects c g s p Hd) as (_ & A & _). congruence. Qed.

Theorem dry_poll_events c g s p : dry c = true -> inprog s = [] ->
  forallb dry_ev_ok (evs (fst (poll c g s p))) = true.
Proof.
  intros Hd H. destruct (dry_poll_no_effects c g s p Hd) as (A & _ & _).
  apply forallb_forall. intros e He. specialize (A e He). rewrite H in A.
  destruct e as [js| | |]; try contradiction; auto. subst js. reflexivity.
Qed.

(** every executed poll of every dry run from the initial state *)
Theorem dry_run_no_effects c g ps t : dry c = true -> In t (run_steps c g (init g) ps) ->
  inprog (st_pre t) = [] /\ inprog (st_post t) = [] /\ next_job (st_post t) = 0 /\
  forallb dry_ev_ok (evs (st_post t)) = true.
Proof.
  intros Hd Ht.
  assert (P : inprog (st_pre t) = [] /\ next_job (st_pre t) = 0).
  { apply (run_steps_pre (fun s => inprog s = [] /\ next_job s = 0) c g) with (ps := ps) (s := init g); auto.
    intros s p s1 [H1 H2] E. destruct (dry_poll_no_effects c g s p Hd) as (_ & A & B).
    rewrite E in A, B. cbn [fst] in A, B. split; congruence. }
  destruct P as [P1 P2]. destruct (run_steps_poll c g ps _ t Ht) as [E _].
  destruct (dry_poll_no_effects c g (st_pre t) (st_pin t) Hd) as (_ & A & B).
  pose proof (dry_poll_events c g (st_pre t) (st_pin t) Hd P1) as C.
  rewrite E in A, B, C. cbn [fst] in A, B, C. splits; auto; congruence.
Qed.

(** * Part 2: the dry-run invariant, progress, termination *)
Record Dry (g : graph) (s : st) : Prop := {
  d_len_recs : length (recs s) = length g;
  d_len_deps : length (deps s) = length g;
  d_inprog : inprog s = [];
  d_failed : failed s = [];
  d_cancelled : cancelled s = [];
  d_canceled : canceled s = false;
  d_nd_comp : NoDup (completed s);
  d_nd_ready : NoDup (ready s);
  d_bound : forall x, In x (completed s) \/ In x (ready s) -> x < length g;
  d_cr : forall x, In x (completed s) -> ~ In x (ready s);
  d_status : forall x, x < length g ->
             status (getrec s x) = if mem x (completed s) then DRYRUN else INITIALIZED;
  d_deps : forall x, x < length g -> incl (getdeps s x) (parents (attr g x)) }.

Lemma Dry_init g : Dry g (init g).
Proof.
  constructor; cbn; try reflexivity; try (constructor; fail).
  - apply map_length.
  - apply map_length.
  - intros x [[]|[]].
  - intros x [].
  - intros x Hx. unfold getrec. cbn.
    change dflt_rec with ((fun _ : sattr => dflt_rec) dflt_attr). rewrite map_nth. reflexivity.
  - intros x Hx. unfold getdeps, attr. cbn.
    change (@nil nat) with (parents dflt_attr). rewrite map_nth. apply incl_refl.
Qed.

(** the invariant does not look at the scripted outcomes or the event log *)
Lemma Dry_at_query c g s p : dry c = true -> cancel_req p = false -> Dry g s -> Dry g (at_query c s p).
Proof.
  intros Hd Hc D. unfold at_query. rewrite Hd, Hc. cbn [negb]. destruct D. constructor; auto.
Qed.

Lemma filter_nil_all {A} (f : A -> bool) l : (forall x, In x l -> f x = false) -> filter f l = [].
Proof.
  induction l as [|a l IH]; intros H; cbn; auto.
  rewrite (H a (or_introl eq_refl)). apply IH. intros x Hx. apply H. right. exact Hx.
Qed.

Lemma Dry_deps_prune g y s : Dry g s -> Dry g (deps_prune y s).
Proof.
  intros D. pose proof D as D'. destruct D. constructor; auto.
  - unfold deps_prune. cbn. rewrite length_upd. assumption.
  - intros x Hx. destruct (Nat.eq_dec y x) as [->|Hn].
    + rewrite getdeps_prune_eq by lia. intros z Hz. apply filter_In in Hz. apply d_deps0; tauto.
    + rewrite getdeps_prune_neq by exact Hn. auto.
Qed.

Lemma Dry_ready_push g y s : Dry g s -> y < length g -> ~ In y (completed s) -> ~ In y (ready s) ->
  Dry g (ready_push y s).
Proof.
  intros D Hy Hc Hr. destruct D. constructor; auto; unfold ready_push; sp.
  - apply NoDup_snoc; assumption.
  - intros x. setsimp. intros [H|[H|[->|[]]]]; auto.
  - intros x Hx. setsimp. intros [H|[->|[]]]; [eapply d_cr0; eauto | contradiction].
Qed.

(** staging one node *)
Lemma dry_stage_node g s y : Dry g s -> y < length g ->
  let s' := stage_node_gen g s y in
  Dry g s' /\ completed s' = completed s /\ incl (ready s) (ready s') /\
  (~ In y (completed s) -> incl (parents (attr g y)) (completed s) -> In y (ready s')).
Proof.
  intros D Hy. unfold stage_node_gen.
  destruct (mem y (completed s)) eqn:Ec.
  { apply mem_In in Ec. splits; auto using incl_refl. intros H; contradiction. }
  rewrite (d_status g s D y Hy), Ec. cbn [state_eqb].
  pose proof (Dry_deps_prune g y s D) as D1.
  assert (Eg : getdeps (deps_prune y s) y = filter (fun p => negb (mem p (completed s))) (getdeps s y)).
  { apply getdeps_prune_eq. rewrite (d_len_deps g s D). exact Hy. }
  apply mem_false in Ec.
  destruct (is_nil (getdeps (deps_prune y s) y)) eqn:En.
  - destruct (mem y (ready (deps_prune y s))) eqn:Er; cbn [negb].
    + apply mem_In in Er. splits; auto using incl_refl.
    + apply mem_false in Er. splits.
      * apply Dry_ready_push; auto.
      * reflexivity.
      * unfold ready_push. cbn. apply incl_appl, incl_refl.
      * intros _ _. unfold ready_push. cbn. apply in_app_iff. right. left. reflexivity.
  - splits; auto using incl_refl.
    intros _ Hp. exfalso. rewrite Eg in En.
    rewrite filter_nil_all in En; [discriminate|].
    intros z Hz. apply negb_false_iff. apply mem_In. apply Hp. apply (d_deps g s D y Hy). exact Hz.
Qed.

Lemma dry_stage_fold g l : forall s, Dry g s -> (forall y, In y l -> y < length g) ->
  let s' := fold_left (stage_node_gen g) l s in
  Dry g s' /\ completed s' = completed s /\ incl (ready s) (ready s') /\
  (forall y, In y l -> ~ In y (completed s) -> incl (parents (attr g y)) (completed s) -> In y (ready s')).
Proof.
  induction l as [|a l IH]; intros s D Hl; cbn [fold_left].
  - splits; auto using incl_refl. intros y [].
  - destruct (dry_stage_node g s a D (Hl a (or_introl eq_refl))) as (A1 & A2 & A3 & A4).
    destruct (IH (stage_node_gen g s a) A1 (fun y Hy => Hl y (or_intror Hy))) as (B1 & B2 & B3 & B4).
    cbv zeta. splits; auto.
    + congruence.
    + eapply incl_tran; eauto.
    + intros y [<-|Hy] Hc Hp.
      * apply B3. apply A4; assumption.
      * apply B4; auto; rewrite A2; assumption.
Qed.

(** some node can be staged as long as one is not completed *)
Lemma forallb_false_ex {A} (f : A -> bool) l : forallb f l = false -> exists x, In x l /\ f x = false.
Proof.
  induction l as [|a l IH]; cbn; [discriminate|].
  destruct (f a) eqn:E; cbn.
  - intros H. destruct (IH H) as (x & Hx & Hf). exists x. auto.
  - intros _. exists a. auto.
Qed.

Lemma stageable_exists g (C : list nat) : WF g -> forall x, x < length g -> ~ In x C ->
  exists y, y < length g /\ ~ In y C /\ incl (parents (attr g y)) C.
Proof.
  intros W x. induction x as [x IH] using lt_wf_ind. intros Hx Hc.
  destruct (subset (parents (attr g x)) C) eqn:E.
  - exists x. splits; auto. apply subset_incl. exact E.
  - unfold subset in E. destruct (forallb_false_ex _ _ E) as (p & Hp & Hm).
    apply mem_false in Hm.
    assert (p < x) by (eapply wf_par_lt; eauto).
    apply (IH p); auto. lia.
Qed.

(** launching in a dry run *)
Lemma dry_launch_step c g s : dry c = true -> Dry g s ->
  let s' := launch_body_gen c g s in
  Dry g s' /\
  match ready s with
  | [] => s' = s
  | y :: rest => completed s' = completed s ++ [y] /\ ready s' = rest /\ evs s' = EGen y :: evs s
  end.
Proof.
  intros Hd D. unfold launch_body_gen. destruct (ready s) as [|y rest] eqn:Er; [auto|].
  cbn [canceled set_ready]. rewrite (d_canceled g s D).
  unfold execute_record_gen. rewrite Hd. cbn [negb].
  assert (Hyr : In y (ready s)) by (rewrite Er; left; reflexivity).
  assert (Hy : y < length g) by (apply (d_bound g s D); auto).
  assert (Hyc : ~ In y (completed s)) by (intros H; exact (d_cr g s D y H Hyr)).
  assert (Hnd : NoDup (y :: rest)) by (rewrite <- Er; apply (d_nd_ready g s D)).
  assert (Ecomp : sadd y (completed s) = completed s ++ [y]).
  { unfold sadd. apply mem_false in Hyc. rewrite Hyc. reflexivity. }
  split; [|cbn; rewrite Ecomp; auto].
  destruct D. constructor; unfold completed_add, rec_set_status; sp; auto.
  - rewrite length_upd. assumption.
  - apply NoDup_sadd. assumption.
  - inversion Hnd; assumption.
  - intros x. setsimp. intros [[->|H]|H]; auto. apply d_bound0. right. rewrite Er. right. exact H.
  - intros x. setsimp. intros [->|H] Hr.
    + inversion Hnd; contradiction.
    + apply (d_cr0 x H). rewrite Er. right. exact Hr.
  - intros x Hx. destruct (Nat.eq_dec y x) as [->|Hn].
    + rewrite nth_upd_eq by lia. cbn.
      assert (M : mem x (sadd x (completed s)) = true) by (apply mem_In; apply In_sadd; auto).
      rewrite M. reflexivity.
    + rewrite nth_upd_neq by exact Hn.
      assert (M : mem x (sadd y (completed s)) = mem x (completed s)).
      { destruct (mem x (completed s)) eqn:E.
        - apply mem_In. apply In_sadd. right. apply mem_In. exact E.
        - apply mem_false. rewrite In_sadd. apply mem_false in E. intros [->|H]; congruence. }
      rewrite M. apply d_status0. exact Hx.
Qed.

Lemma dry_launch_iter_Dry c g n : dry c = true -> forall s, Dry g s ->
  let s' := Nat.iter n (launch_body_gen c g) s in
  Dry g s' /\ length (completed s) <= length (completed s') /\
  (n > 0 -> ready s <> [] -> length (completed s) < length (completed s')).
Proof.
  intros Hd. induction n as [|n IH]; intros s D.
  - cbn. splits; auto; lia.
  - rewrite iter_S_r.
    destruct (dry_launch_step c g s Hd D) as [D1 A].
    destruct (IH (launch_body_gen c g s) D1) as (B1 & B2 & _). cbv zeta. splits; auto.
    + destruct (ready s); [rewrite A in *; exact B2|]. destruct A as (A1 & _).
      rewrite A1, app_length in B2. cbn in B2. lia.
    + intros _ Hr. destruct (ready s); [congruence|]. destruct A as (A1 & _).
      rewrite A1, app_length in B2. cbn in B2. lia.
Qed.

Lemma dry_launch_body_incl c g s : dry c = true -> incl (completed s) (completed (launch_body_gen c g s)).
Proof.
  intros Hd. unfold launch_body_gen. destruct (ready s) as [|y rest]; [apply incl_refl|].
  cbn [canceled set_ready]. destruct (canceled s); [cbn; apply incl_refl|].
  unfold execute_record_gen. rewrite Hd. cbn. intros z Hz. apply In_sadd. auto.
Qed.

Lemma dry_launch_iter_incl c g n : dry c = true -> forall s,
  incl (completed s) (completed (Nat.iter n (launch_body_gen c g) s)).
Proof.
  intros Hd. induction n as [|n IH]; intros s; [cbn; apply incl_refl|]. rewrite iter_S.
  eapply incl_tran; [apply IH | apply dry_launch_body_incl; exact Hd].
Qed.

Lemma available_pos c s : inprog s = [] -> ready s <> [] -> available_gen c s > 0.
Proof.
  intros Hi Hr. unfold available_gen. rewrite Hi. cbn [length].
  destruct (ready s) as [|y r]; [congruence|]. cbn [length].
  destruct (throttle c =? 0) eqn:E; [lia|]. apply Nat.eqb_neq in E. lia.
Qed.

Definition all_done (g : graph) (s : st) : Prop := forall x, x < length g -> In x (completed s).

Lemma Dry_completion g s : Dry g s ->
  (completion_gen g s = SFINISHED /\ all_done g s) \/
  (completion_gen g s = SRUNNING /\ exists x, x < length g /\ ~ In x (completed s)).
Proof.
  intros D. unfold completion_gen.
  rewrite (d_canceled g s D), (d_failed g s D), (d_cancelled g s D). cbn [andb is_nil negb app].
  rewrite app_nil_r.
  destruct (subset (seq 0 (length g)) (completed s)) eqn:E.
  - left. split; auto. intros x Hx. apply subset_incl in E. apply E. apply In_seq_lt. exact Hx.
  - right. split; auto. unfold subset in E. destruct (forallb_false_ex _ _ E) as (x & Hx & Hm).
    exists x. rewrite In_seq_lt in Hx. apply mem_false in Hm. auto.
Qed.

Lemma Dry_all_rows g s : Dry g s -> all_done g s ->
  Forall (fun r => fst (fst r) = DRYRUN) (rows_of s).
Proof.
  intros D A. unfold rows_of. apply Forall_forall. intros r Hr.
  apply in_map_iff in Hr. destruct Hr as (q & <- & Hq). cbn.
  destruct (In_nth _ _ dflt_rec Hq) as (x & Hx & Hn).
  rewrite (d_len_recs g s D) in Hx. pose proof (d_status g s D x Hx) as S.
  unfold getrec in S. rewrite Hn in S. rewrite S.
  assert (M : mem x (completed s) = true) by (apply mem_In; auto). rewrite M. reflexivity.
Qed.

Lemma Dry_completed_le g s : Dry g s -> length (completed s) <= length g.
Proof.
  intros D. rewrite <- (seq_length (length g) 0).
  apply NoDup_incl_length; [apply (d_nd_comp g s D)|].
  intros x Hx. apply In_seq_lt. apply (d_bound g s D). auto.
Qed.

(** one dry poll without a cancel request: the invariant is kept; either the study is
    FINISHED with everything completed, or it is RUNNING and at least one more instance
    has been completed *)
Theorem dry_poll_progress c g s p : WF g -> dry c = true -> cancel_req p = false -> Dry g s ->
  let s' := fst (poll c g s p) in
  let r := snd (poll c g s p) in
  Dry g s' /\ incl (completed s) (completed s') /\
  ((r = SFINISHED /\ all_done g s') \/ (r = SRUNNING /\ length (completed s) < length (completed s'))).
Proof.
  intros W Hd Hc D. rewrite dry_poll_phases by exact Hd. unfold stage_launch. cbn [fst snd].
  pose proof (Dry_at_query c g s p Hd Hc D) as D0.
  set (s0 := at_query c s p) in *.
  assert (E0 : completed s0 = completed s) by apply at_query_fields.
  destruct (dry_stage_fold g (seq 0 (length g)) s0 D0 (fun y Hy => proj1 (In_seq_lt y _) Hy))
    as (D1 & E1 & _ & S1).
  set (s1 := fold_left (stage_node_gen g) (seq 0 (length g)) s0) in *.
  destruct (dry_launch_iter_Dry c g (available_gen c s1) Hd s1 D1) as (D2 & L1 & L2).
  set (s2 := Nat.iter (available_gen c s1) (launch_body_gen c g) s1) in *.
  cbv zeta. splits; auto.
  - rewrite <- E0, <- E1. apply dry_launch_iter_incl. exact Hd.
  - destruct (Dry_completion g s2 D2) as [[R A]|[R (x & Hx & Hn)]]; [left; auto|right].
    split; auto. rewrite <- E0, <- E1.
    assert (Hs1 : ~ In x (completed s1)).
    { intros H. apply Hn. apply (dry_launch_iter_incl c g _ Hd s1). exact H. }
    destruct (stageable_exists g (completed s1) W x Hx Hs1) as (y & Hy & Hyc & Hyp).
    assert (Hr : In y (ready s1)).
    { apply S1; [apply In_seq_lt; exact Hy | rewrite <- E1; exact Hyc | rewrite <- E1; exact Hyp]. }
    apply L2.
    + apply available_pos; [apply (d_inprog g s1 D1)|]. intros E. rewrite E in Hr. contradiction.
    + intros E. rewrite E in Hr. contradiction.
Qed.

Definition nocancel (p : pin) : Prop := cancel_req p = false.

(** a dry run without cancel requests: every executed poll keeps [Dry]; its status is
    RUNNING or FINISHED; FINISHED comes with every row DRYRUN *)
Lemma dry_run_steps_ok c g ps : WF g -> dry c = true -> forall s, Dry g s -> Forall nocancel ps ->
  length (run_steps c g s ps) <= S (length g - length (completed s)) /\
  forall t, In t (run_steps c g s ps) ->
    Dry g (st_pre t) /\ Dry g (st_post t) /\
    ((st_res t = SFINISHED /\ all_done g (st_post t)) \/
     (st_res t = SRUNNING /\ length (completed (st_pre t)) < length (completed (st_post t)))).
Proof.
  intros W Hd. induction ps as [|p ps IH]; intros s D HK; cbn [run_steps].
  - split; [cbn; lia | intros t []].
  - inversion HK as [|p' ps' Hp HK']; subst.
    destruct (dry_poll_progress c g s p W Hd Hp D) as (D1 & _ & R).
    destruct (poll c g s p) as [s1 r]. cbn [fst snd] in *.
    destruct R as [[-> A]|[-> L]].
    + split; [cbn; lia|]. intros t [<-|[]]. cbn. splits; auto.
    + destruct (IH s1 D1 HK') as (B1 & B2). pose proof (Dry_completed_le g s1 D1).
      split; [cbn [length]; lia|].
      intros t [<-|Ht]; [cbn; splits; auto | apply B2; exact Ht].
Qed.

(** ... and with enough poll inputs it ends FINISHED *)
Lemma dry_run_finishes c g ps : WF g -> dry c = true -> forall s, Dry g s -> Forall nocancel ps ->
  length g - length (completed s) < length ps ->
  exists pre t, run_steps c g s ps = pre ++ [t] /\ st_res t = SFINISHED /\ all_done g (st_post t) /\ Dry g (st_post t).
Proof.
  intros W Hd. induction ps as [|p ps IH]; intros s D HK Hlen; cbn [run_steps]; [cbn in Hlen; lia|].
  inversion HK as [|p' ps' Hp HK']; subst.
  destruct (dry_poll_progress c g s p W Hd Hp D) as (D1 & _ & R).
  destruct (poll c g s p) as [s1 r] eqn:E. cbn [fst snd] in *.
  destruct R as [[-> A]|[-> L]].
  - exists [], (s, p, s1, SFINISHED). cbn. auto.
  - pose proof (Dry_completed_le g s1 D1).
    destruct (IH s1 D1 HK') as (pre & t & E1 & R1 & A1 & D2); [cbn [length] in Hlen; lia|].
    exists ((s, p, s1, SRUNNING) :: pre), t. rewrite E1. cbn. auto.
Qed.

Theorem dry_run_terminates c g ps : WF g -> dry c = true -> Forall nocancel ps ->
  (* never more than length g + 1 polls, none of them FAILURE / CANCELLED / ABORT *)
  length (run c g (init g) ps) <= length g + 1 /\
  (forall o, In o (run c g (init g) ps) ->
     snd o = SRUNNING \/ (snd o = SFINISHED /\ Forall (fun r => fst (fst r) = DRYRUN) (snd (fst o)))) /\
  (* with length g + 1 inputs (or more) the last observation is FINISHED, all rows DRYRUN *)
  (length g < length ps ->
   exists pre evs rows, run c g (init g) ps = pre ++ [(evs, rows, SFINISHED)] /\
                        length rows = length g /\ Forall (fun r => fst (fst r) = DRYRUN) rows).
Proof.
  intros W Hd HK. pose proof (Dry_init g) as D0.
  destruct (dry_run_steps_ok c g ps W Hd (init g) D0 HK) as (A1 & A2).
  rewrite run_steps_run. splits.
  - rewrite map_length. cbn in A1. lia.
  - intros o Ho. apply in_map_iff in Ho. destruct Ho as (t & <- & Ht).
    destruct (A2 t Ht) as (_ & D1 & [[R A]|[R _]]); cbn; [right|left]; auto.
    split; auto. eapply Dry_all_rows; eassumption.
  - intros Hlen. destruct (dry_run_finishes c g ps W Hd (init g) D0 HK) as (pre & t & E & R & A & D1).
    { cbn. lia. }
    exists (map obs_of_step pre), (rev (evs (st_post t))), (rows_of (st_post t)).
    rewrite E, map_app. cbn [map]. unfold obs_of_step at 2. rewrite R. splits; auto.
    + unfold rows_of. rewrite map_length. apply (d_len_recs g _ D1).
    + eapply Dry_all_rows; eassumption.
Qed.

(** * Part 3: script generation in a dry run *)
Definition gens (es : list event) : list nat :=
  flat_map (fun e => match e with EGen x => [x] | _ => [] end) es.

Lemma gens_app a b : gens (a ++ b) = gens a ++ gens b.
Proof. apply flat_map_app. Qed.

Lemma gens_map_EGen l : gens (map EGen l) = l.
Proof. induction l as [|a l IH]; cbn; [reflexivity|]. f_equal. exact IH. Qed.

Lemma dry_launch_iter_gens c g n : dry c = true -> forall s, Dry g s ->
  let s' := Nat.iter n (launch_body_gen c g) s in
  exists l, evs s' = map EGen (rev l) ++ evs s /\ completed s' = completed s ++ l.
Proof.
  intros Hd. induction n as [|n IH]; intros s D.
  - exists []. cbn. rewrite app_nil_r. auto.
  - rewrite iter_S_r. destruct (dry_launch_step c g s Hd D) as [D1 A].
    destruct (IH _ D1) as (l & E1 & E2). cbv zeta.
    destruct (ready s) as [|y rest].
    + rewrite A in *. exists l. auto.
    + destruct A as (A1 & _ & A3). exists (y :: l). rewrite E1, E2, A1, A3. cbn [rev].
      rewrite map_app, <- !app_assoc. cbn. auto.
Qed.

(** the events of a dry poll (no cancel request) are exactly the EGen calls of the
    instances it completes, in completion order *)
Theorem dry_poll_gens c g s p : dry c = true -> cancel_req p = false -> Dry g s ->
  let s' := fst (poll c g s p) in
  exists l, rev (evs s') = map EGen l /\ completed s' = completed s ++ l.
Proof.
  intros Hd Hc D. rewrite dry_poll_phases by exact Hd. unfold stage_launch. cbn [fst].
  pose proof (Dry_at_query c g s p Hd Hc D) as D0.
  set (s0 := at_query c s p) in *.
  assert (E0 : completed s0 = completed s) by apply at_query_fields.
  assert (V0 : evs s0 = []) by (unfold s0, at_query; rewrite Hd, Hc; reflexivity).
  destruct (dry_stage_fold g (seq 0 (length g)) s0 D0 (fun y Hy => proj1 (In_seq_lt y _) Hy))
    as (D1 & E1 & _ & _).
  pose proof (stage_fold_same g (seq 0 (length g)) s0) as A. cbv zeta in A.
  destruct A as (_ & _ & _ & _ & _ & _ & A7 & _).
  set (s1 := fold_left (stage_node_gen g) (seq 0 (length g)) s0) in *.
  destruct (dry_launch_iter_gens c g (available_gen c s1) Hd s1 D1) as (l & L1 & L2).
  exists l. cbv zeta. rewrite L1, L2, A7, V0, E1, E0, app_nil_r, <- map_rev, rev_involutive. auto.
Qed.

Lemma dry_run_gens c g ps : WF g -> dry c = true -> forall s pre t, Dry g s -> Forall nocancel ps ->
  run_steps c g s ps = pre ++ [t] ->
  completed (st_post t) = completed s ++ flat_map (fun u => gens (rev (evs (st_post u)))) (pre ++ [t]).
Proof.
  intros W Hd. induction ps as [|p ps IH]; intros s pre t D HK E; cbn [run_steps] in E.
  - destruct pre; discriminate.
  - inversion HK as [|p' ps' Hp HK']; subst.
    destruct (dry_poll_gens c g s p Hd Hp D) as (l & G1 & G2).
    destruct (dry_poll_progress c g s p W Hd Hp D) as (D1 & _ & _).
    destruct (poll c g s p) as [s1 r]. cbn [fst snd] in *.
    assert (Single : [(s, p, s1, r)] = pre ++ [t] ->
            completed (st_post t) = completed s ++ flat_map (fun u => gens (rev (evs (st_post u)))) (pre ++ [t])).
    { intros E'. destruct pre as [|a pre]; [|destruct pre; discriminate]. cbn in E'. inversion E'; subst.
      cbn. rewrite app_nil_r, G1, gens_map_EGen. exact G2. }
    destruct r; auto.
    destruct pre as [|a pre]; cbn [app] in E.
    + apply Single. cbn [app]. injection E as E1 _. rewrite E1. reflexivity.
    + inversion E as [[E1 E2]]. subst a. rewrite (IH s1 pre t D1 HK' E2).
      cbn [flat_map app st_post snd fst]. rewrite G1, gens_map_EGen, G2, <- app_assoc. reflexivity.
Qed.

(** in a complete dry run every instance's scripts are generated exactly once: the EGen
    calls of the whole run, in order, enumerate the instances without repetition *)
Theorem dry_run_scripts c g ps : WF g -> dry c = true -> Forall nocancel ps -> length g < length ps ->
  let G := flat_map (fun o : obs => gens (fst (fst o))) (run c g (init g) ps) in
  NoDup G /\ (forall x, In x G <-> x < length g) /\ length G = length g.
Proof.
  intros W Hd HK Hlen. pose proof (Dry_init g) as D0.
  destruct (dry_run_finishes c g ps W Hd (init g) D0 HK) as (pre & t & E & R & A & D1); [cbn; lia|].
  pose proof (dry_run_gens c g ps W Hd (init g) pre t D0 HK E) as G1. cbn [init completed app] in G1.
  cbv zeta. rewrite run_steps_run, E.
  assert (EG : flat_map (fun o : obs => gens (fst (fst o))) (map obs_of_step (pre ++ [t])) =
               flat_map (fun u => gens (rev (evs (st_post u)))) (pre ++ [t])).
  { generalize (pre ++ [t]). intros l. induction l as [|a l IH]; cbn; [reflexivity|]. rewrite IH. reflexivity. }
  rewrite EG, <- G1.
  assert (N : NoDup (completed (st_post t))) by apply (d_nd_comp g _ D1).
  assert (I : forall x, In x (completed (st_post t)) <-> x < length g).
  { intros x. split; [intros H; apply (d_bound g _ D1); auto | apply A]. }
  splits; auto.
  apply Nat.le_antisymm; [apply Dry_completed_le; exact D1|].
  rewrite <- (seq_length (length g) 0). apply NoDup_incl_length; [apply seq_NoDup|].
  intros x Hx. apply I. apply In_seq_lt. exact Hx.
Qed.

(** * Script generation comes first, in both modes *)
Lemma evs_mark_failed_list l : forall s, evs (mark_failed_list l s) = evs s.
Proof.
  unfold mark_failed_list. induction l as [|a l IH]; intros s; cbn [fold_left]; [reflexivity|].
  rewrite IH. reflexivity.
Qed.

Lemma evs_next_sub s : evs (snd (next_sub s)) = evs s.
Proof. unfold next_sub. destruct (subs s); reflexivity. Qed.

Lemma submit_attempts_main_events g x n : forall s,
  exists new, evs (snd (submit_attempts g x false n s)) = new ++ evs s /\
              forall e, In e new -> exists sc res, e = ESubmit x Main sc res.
Proof.
  induction n as [|n IH]; intros s.
  - exists []. split; [reflexivity|intros e []].
  - rewrite submit_attempts_S. cbv zeta.
    set (s2 := if scheduled (attr g x) then rec_set_status x PENDING s
               else rec_set_status x RUNNING (rec_set_status x PENDING s)).
    assert (E2 : evs s2 = evs s) by (subst s2; destruct (scheduled (attr g x)); reflexivity).
    pose proof (evs_next_sub s2) as E3.
    destruct (fst (next_sub s2)).
    + eexists [_]. cbn [snd emit evs set_evs rec_push_job set_recs set_next_job]. rewrite E3, E2.
      split; [reflexivity|]. intros e [<-|[]]. eauto.
    + destruct (IH (emit (ESubmit x Main (scheduled (attr g x)) None) (snd (next_sub s2)))) as (new & A & B).
      exists (new ++ [ESubmit x Main (scheduled (attr g x)) None]). rewrite A. cbn [emit evs set_evs].
      rewrite E3, E2, <- app_assoc. split; [reflexivity|].
      intros e He. apply in_app_iff in He. destruct He as [He|[<-|[]]]; eauto.
Qed.

Lemma execute_record_gen_first c g x s :
  exists new, evs (execute_record_gen c g x false s) = new ++ EGen x :: evs s /\
              (forall y, ~ In (EGen y) new) /\ (dry c = true -> new = []).
Proof.
  unfold execute_record_gen. cbn [negb]. destruct (dry c).
  - exists []. splits; auto.
  - destruct (submit_attempts_main_events g x (attempts c) (emit (EGen x) s)) as (new & A & B).
    destruct (submit_attempts g x false (attempts c) (emit (EGen x) s)) as [ok s1]. cbn [snd] in A.
    exists new. splits; [| |discriminate].
    + destruct ok.
      * destruct (negb (scheduled (attr g x))); exact A.
      * rewrite evs_mark_failed_list. exact A.
    + intros y Hy. destruct (B _ Hy) as (sc & res & E). discriminate.
Qed.

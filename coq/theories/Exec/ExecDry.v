(** C17 -- a dry run generates everything and executes nothing.
    Facts about [poll] with [dry c = true] and their lifting to runs.

    Part 1: no effects -- a dry poll emits only EGen events (and an ECancel with an
            empty job list on a cancel request), and keeps [inprog] empty.
    Part 2: the dry-run invariant [Dry] (no cancel request so far), progress of every
            poll, termination within [length g + 1] polls with every row DRYRUN.
    Part 3: script generation -- the EGen events of a dry run are the completed list. *)
From Coq Require Import Lia.
From MWF Require Import Base.Util Base.UtilLemmas Exec.ExecBase Exec.ExecGen Exec.ExecRun Exec.ExecTrace
  Exec.ExecGraph Exec.ExecInv Exec.ExecFault.

Arguments bfs_subtree : simpl never.
Arguments submit_attempts : simpl never.
Arguments mark_failed_list : simpl never.
Arguments mark_cancelled_list : simpl never.

Lemma iter_S {A} n (f : A -> A) x : Nat.iter (S n) f x = f (Nat.iter n f x).
Proof. reflexivity. Qed.
Lemma iter_S_r {A} n (f : A -> A) : forall x, Nat.iter (S n) f x = Nat.iter n f (f x).
Proof. induction n as [|n IH]; intros x; [reflexivity|]. rewrite iter_S, IH. reflexivity. Qed.

(** * Part 1: no effects *)
Definition dry_ev_ok (e : event) : bool :=
  match e with EGen _ => true | ECancel [] => true | _ => false end.

Lemma dry_poll_phases c g s p : dry c = true ->
  poll c g s p = stage_launch c g (at_query c s p).
Proof.
  intros Hd. rewrite poll_phases by congruence. unfold delivered. rewrite Hd. reflexivity.
Qed.

Lemma stage_node_same g s y :
  let s' := stage_node_gen g s y in
  recs s' = recs s /\ completed s' = completed s /\ inprog s' = inprog s /\ failed s' = failed s /\
  cancelled s' = cancelled s /\ canceled s' = canceled s /\ evs s' = evs s /\ subs s' = subs s /\
  next_job s' = next_job s.
Proof.
  unfold stage_node_gen. destruct (mem y (completed s)); [repeat split|].
  destruct (state_eqb _ _); [|repeat split].
  destruct (is_nil _); [|repeat split].
  destruct (negb _); repeat split.
Qed.

Lemma stage_fold_same g l : forall s,
  let s' := fold_left (stage_node_gen g) l s in
  recs s' = recs s /\ completed s' = completed s /\ inprog s' = inprog s /\ failed s' = failed s /\
  cancelled s' = cancelled s /\ canceled s' = canceled s /\ evs s' = evs s /\ subs s' = subs s /\
  next_job s' = next_job s.
Proof.
  induction l as [|y l IH]; intros s; cbn [fold_left]; [repeat split|].
  specialize (IH (stage_node_gen g s y)). cbv zeta in IH.
  pose proof (stage_node_same g s y) as A. cbv zeta in A.
  destruct IH as (A1 & A2 & A3 & A4 & A5 & A6 & A7 & A8 & A9).
  destruct A as (B1 & B2 & B3 & B4 & B5 & B6 & B7 & B8 & B9).
  cbv zeta. splits; congruence.
Qed.

(** the adapter calls of a dry poll, and what it leaves untouched *)
Theorem dry_poll_no_effects c g s p : dry c = true ->
  let s' := fst (poll c g s p) in
  (forall e, In e (evs s') ->
     match e with
     | EGen _ => True
     | ECancel js => js = map (lastjob s) (inprog s)
     | ECheck _ | ESubmit _ _ _ _ => False
     end) /\
  inprog s' = inprog s /\ next_job s' = next_job s.
Proof.
  intros Hd. rewrite dry_poll_phases by exact Hd. unfold stage_launch. cbn [fst].
  set (s0 := at_query c s p).
  set (s1 := fold_left (stage_node_gen g) (seq 0 (length g)) s0).
  pose proof (stage_fold_same g (seq 0 (length g)) s0) as A. cbv zeta in A. fold s1 in A.
  destruct A as (A1 & A2 & A3 & A4 & A5 & A6 & A7 & A8 & A9).
  pose proof (at_query_fields c s p) as B. cbv zeta in B. fold s0 in B.
  destruct B as (B1 & B2 & B3 & B4 & B5 & B6 & B7 & B8 & B9 & B10).
  (* generalised event predicate: every event is EGen or the one ECancel *)
  set (okev := fun e => match e with EGen _ => True | ECancel js => js = map (lastjob s) (inprog s)
                                | _ => False end).
  assert (E0 : forall e, In e (evs s1) -> okev e).
  { rewrite A7. unfold s0, at_query, cancel_study_gen. rewrite Hd. cbn [negb].
    destruct (cancel_req p); cbn; [intros e [<-|[]]; reflexivity | intros e []]. }
  assert (L : forall n s2, (forall e, In e (evs s2) -> okev e) ->
            let s3 := Nat.iter n (launch_body_gen c g) s2 in
            (forall e, In e (evs s3) -> okev e) /\ inprog s3 = inprog s2 /\ next_job s3 = next_job s2).
  { induction n as [|n IH]; intros s2 H2; [cbn; auto|]. rewrite iter_S.
    specialize (IH s2 H2). cbv zeta in IH. destruct IH as (I1 & I2 & I3).
    set (s3 := Nat.iter n (launch_body_gen c g) s2) in *.
    unfold launch_body_gen. destruct (ready s3) as [|y rest]; [auto|].
    cbn [canceled set_ready]. destruct (canceled s3).
    - cbn. auto.
    - unfold execute_record_gen. rewrite Hd. cbn. splits; auto.
      intros e [<-|He]; [exact Logic.I | auto]. }
  destruct (L (available_gen c s1) s1 E0) as (L1 & L2 & L3).
  splits; [exact L1 | congruence | congruence].
Qed.

Lemma dry_poll_inprog c g s p : dry c = true -> inprog s = [] -> inprog (fst (poll c g s p)) = [].
Proof. intros Hd H. destruct (dry_poll_no_effects c g s p Hd) as (_ & A & _). congruence. Qed.

Theorem dry_poll_events c g s p : dry c = true -> inprog s = [] ->
  forallb dry_ev_ok (evs (fst (poll c g s p))) = true.
Proof.
  intros Hd H. destruct (dry_poll_no_effects c g s p Hd) as (A & _ & _).
  apply forallb_forall. intros e He. specialize (A e He). rewrite H in A.
  destruct e as [js| | |]; try contradiction; auto. subst js. reflexivity.
Qed.

(** every executed poll of every dry run from the initial state *)
Theorem dry_run_no_effects c g ps t : dry c = true -> In t (run_steps c g (init g) ps) ->
  inprog (st_pre t) = [] /\ inprog (st_post t) = [] /\ next_job (st_post t) = 0 /\
  forallb dry_ev_ok (evs (st_post t)) = true.
Proof.
  intros Hd Ht.
  assert (P : inprog (st_pre t) = [] /\ next_job (st_pre t) = 0).
  { apply (run_steps_pre (fun s => inprog s = [] /\ next_job s = 0) c g) with (ps := ps) (s := init g); auto.
    intros s p s1 [H1 H2] E. destruct (dry_poll_no_effects c g s p Hd) as (_ & A & B).
    rewrite E in A, B. cbn [fst] in A, B. split; congruence. }
  destruct P as [P1 P2]. destruct (run_steps_poll c g ps _ t Ht) as [E _].
  destruct (dry_poll_no_effects c g (st_pre t) (st_pin t) Hd) as (_ & A & B).
  pose proof (dry_poll_events c g (st_pre t) (st_pin t) Hd P1) as C.
  rewrite E in A, B, C. cbn [fst] in A, B, C. splits; auto; congruence.
Qed.

(** * Part 2: the dry-run invariant, progress, termination *)
Record Dry (g : graph) (s : st) : Prop := {
  d_len_recs : length (recs s) = length g;
  d_len_deps : length (deps s) = length g;
  d_inprog : inprog s = [];
  d_failed : failed s = [];
  d_cancelled : cancelled s = [];
  d_canceled : canceled s = false;
  d_nd_comp : NoDup (completed s);
  d_nd_ready : NoDup (ready s);
  d_bound : forall x, In x (completed s) \/ In x (ready s) -> x < length g;
  d_cr : forall x, In x (completed s) -> ~ In x (ready s);
  d_status : forall x, x < length g ->
             status (getrec s x) = if mem x (completed s) then DRYRUN else INITIALIZED;
  d_deps : forall x, x < length g -> incl (getdeps s x) (parents (attr g x)) }.

Lemma Dry_init g : Dry g (init g).
Proof.
  constructor; cbn; try reflexivity; try (constructor; fail).
  - apply map_length.
  - apply map_length.
  - intros x [[]|[]].
  - intros x [].
  - intros x Hx. unfold getrec. cbn.
    change dflt_rec with ((fun _ : sattr => dflt_rec) dflt_attr). rewrite map_nth. reflexivity.
  - intros x Hx. unfold getdeps, attr. cbn.
    change (@nil nat) with (parents dflt_attr). rewrite map_nth. apply incl_refl.
Qed.

(** the invariant does not look at the scripted outcomes or the event log *)
Lemma Dry_at_query c g s p : dry c = true -> cancel_req p = false -> Dry g s -> Dry g (at_query c s p).
Proof.
  intros Hd Hc D. unfold at_query. rewrite Hd, Hc. cbn [negb]. destruct D. constructor; auto.
Qed.

Lemma filter_nil_all {A} (f : A -> bool) l : (forall x, In x l -> f x = false) -> filter f l = [].
Proof.
  induction l as [|a l IH]; intros H; cbn; auto.
  rewrite (H a (or_introl eq_refl)). apply IH. intros x Hx. apply H. right. exact Hx.
Qed.

Lemma Dry_deps_prune g y s : Dry g s -> Dry g (deps_prune y s).
Proof.
  intros D. pose proof D as D'. destruct D. constructor; auto.
  - unfold deps_prune. cbn. rewrite length_upd. assumption.
  - intros x Hx. destruct (Nat.eq_dec y x) as [->|Hn].
    + rewrite getdeps_prune_eq by lia. intros z Hz. apply filter_In in Hz. apply d_deps0; tauto.
    + rewrite getdeps_prune_neq by exact Hn. auto.
Qed.

Lemma Dry_ready_push g y s : Dry g s -> y < length g -> ~ In y (completed s) -> ~ In y (ready s) ->
  Dry g (ready_push y s).
Proof.
  intros D Hy Hc Hr. destruct D. constructor; auto; unfold ready_push; sp.
  - apply NoDup_snoc; assumption.
  - intros x. setsimp. intros [H|[H|[->|[]]]]; auto.
  - intros x Hx. setsimp. intros [H|[->|[]]]; [eapply d_cr0; eauto | contradiction].
Qed.

(** staging one node *)
Lemma dry_stage_node g s y : Dry g s -> y < length g ->
  let s' := stage_node_gen g s y in
  Dry g s' /\ completed s' = completed s /\ incl (ready s) (ready s') /\
  (~ In y (completed s) -> incl (parents (attr g y)) (completed s) -> In y (ready s')).
Proof.
  intros D Hy. unfold stage_node_gen.
  destruct (mem y (completed s)) eqn:Ec.
  { apply mem_In in Ec. splits; auto using incl_refl. intros H; contradiction. }
  rewrite (d_status g s D y Hy), Ec. cbn [state_eqb].
  pose proof (Dry_deps_prune g y s D) as D1.
  assert (Eg : getdeps (deps_prune y s) y = filter (fun p => negb (mem p (completed s))) (getdeps s y)).
  { apply getdeps_prune_eq. rewrite (d_len_deps g s D). exact Hy. }
  apply mem_false in Ec.
  destruct (is_nil (getdeps (deps_prune y s) y)) eqn:En.
  - destruct (mem y (ready (deps_prune y s))) eqn:Er; cbn [negb].
    + apply mem_In in Er. splits; auto using incl_refl.
    + apply mem_false in Er. splits.
      * apply Dry_ready_push; auto.
      * reflexivity.
      * unfold ready_push. cbn. apply incl_appl, incl_refl.
      * intros _ _. unfold ready_push. cbn. apply in_app_iff. right. left. reflexivity.
  - splits; auto using incl_refl.
    intros _ Hp. exfalso. rewrite Eg in En.
    rewrite filter_nil_all in En; [discriminate|].
    intros z Hz. apply negb_false_iff. apply mem_In. apply Hp. apply (d_deps g s D y Hy). exact Hz.
Qed.

Lemma dry_stage_fold g l : forall s, Dry g s -> (forall y, In y l -> y < length g) ->
  let s' := fold_left (stage_node_gen g) l s in
  Dry g s' /\ completed s' = completed s /\ incl (ready s) (ready s') /\
  (forall y, In y l -> ~ In y (completed s) -> incl (parents (attr g y)) (completed s) -> In y (ready s')).
Proof.
  induction l as [|a l IH]; intros s D Hl; cbn [fold_left].
  - splits; auto using incl_refl. intros y [].
  - destruct (dry_stage_node g s a D (Hl a (or_introl eq_refl))) as (A1 & A2 & A3 & A4).
    destruct (IH (stage_node_gen g s a) A1 (fun y Hy => Hl y (or_intror Hy))) as (B1 & B2 & B3 & B4).
    cbv zeta. splits; auto.
    + congruence.
    + eapply incl_tran; eauto.
    + intros y [<-|Hy] Hc Hp.
      * apply B3. apply A4; assumption.
      * apply B4; auto; rewrite A2; assumption.
Qed.

(** some node can be staged as long as one is not completed *)
Lemma forallb_false_ex {A} (f : A -> bool) l : forallb f l = false -> exists x, In x l /\ f x = false.
Proof.
  induction l as [|a l IH]; cbn; [discriminate|].
  destruct (f a) eqn:E; cbn.
  - intros H. destruct (IH H) as (x & Hx & Hf). exists x. auto.
  - intros _. exists a. auto.
Qed.

Lemma stageable_exists g (C : list nat) : WF g -> forall x, x < length g -> ~ In x C ->
  exists y, y < length g /\ ~ In y C /\ incl (parents (attr g y)) C.
Proof.
  intros W x. induction x as [x IH] using lt_wf_ind. intros Hx Hc.
  destruct (subset (parents (attr g x)) C) eqn:E.
  - exists x. splits; auto. apply subset_incl. exact E.
  - unfold subset in E. destruct (forallb_false_ex _ _ E) as (p & Hp & Hm).
    apply mem_false in Hm.
    assert (p < x) by (eapply wf_par_lt; eauto).
    apply (IH p); auto. lia.
Qed.

(** launching in a dry run *)
Lemma dry_launch_step c g s : dry c = true -> Dry g s ->
  let s' := launch_body_gen c g s in
  Dry g s' /\
  match ready s with
  | [] => s' = s
  | y :: rest => completed s' = completed s ++ [y] /\ ready s' = rest /\ evs s' = EGen y :: evs s
  end.
Proof.
  intros Hd D. unfold launch_body_gen. destruct (ready s) as [|y rest] eqn:Er; [auto|].
  cbn [canceled set_ready]. rewrite (d_canceled g s D).
  unfold execute_record_gen. rewrite Hd. cbn [negb].
  assert (Hyr : In y (ready s)) by (rewrite Er; left; reflexivity).
  assert (Hy : y < length g) by (apply (d_bound g s D); auto).
  assert (Hyc : ~ In y (completed s)) by (intros H; exact (d_cr g s D y H Hyr)).
  assert (Hnd : NoDup (y :: rest)) by (rewrite <- Er; apply (d_nd_ready g s D)).
  assert (Ecomp : sadd y (completed s) = completed s ++ [y]).
  { unfold sadd. apply mem_false in Hyc. rewrite Hyc. reflexivity. }
  split; [|cbn; rewrite Ecomp; auto].
  destruct D. constructor; unfold completed_add, rec_set_status; sp; auto.
  - rewrite length_upd. assumption.
  - apply NoDup_sadd. assumption.
  - inversion Hnd; assumption.
  - intros x. setsimp. intros [[->|H]|H]; auto. apply d_bound0. right. rewrite Er. right. exact H.
  - intros x. setsimp. intros [->|H] Hr.
    + inversion Hnd; contradiction.
    + apply (d_cr0 x H). rewrite Er. right. exact Hr.
  - intros x Hx. destruct (Nat.eq_dec y x) as [->|Hn].
    + rewrite nth_upd_eq by lia. cbn.
      assert (M : mem x (sadd x (completed s)) = true) by (apply mem_In; apply In_sadd; auto).
      rewrite M. reflexivity.
    + rewrite nth_upd_neq by exact Hn.
      assert (M : mem x (sadd y (completed s)) = mem x (completed s)).
      { destruct (mem x (completed s)) eqn:E.
        - apply mem_In. apply In_sadd. right. apply mem_In. exact E.
        - apply mem_false. rewrite In_sadd. apply mem_false in E. intros [->|H]; congruence. }
      rewrite M. apply d_status0. exact Hx.
Qed.

Lemma dry_launch_iter_Dry c g n : dry c = true -> forall s, Dry g s ->
  let s' := Nat.iter n (launch_body_gen c g) s in
  Dry g s' /\ length (completed s) <= length (completed s') /\
  (n > 0 -> ready s <> [] -> length (completed s) < length (completed s')).
Proof.
  intros Hd. induction n as [|n IH]; intros s D.
  - cbn. splits; auto; lia.
  - rewrite iter_S_r.
    destruct (dry_launch_step c g s Hd D) as [D1 A].
    destruct (IH (launch_body_gen c g s) D1) as (B1 & B2 & _). cbv zeta. splits; auto.
    + destruct (ready s); [rewrite A in *; exact B2|]. destruct A as (A1 & _).
      rewrite A1, app_length in B2. cbn in B2. lia.
    + intros _ Hr. destruct (ready s); [congruence|]. destruct A as (A1 & _).
      rewrite A1, app_length in B2. cbn in B2. lia.
Qed.

Lemma dry_launch_body_incl c g s : dry c = true -> incl (completed s) (completed (launch_body_gen c g s)).
Proof.
  intros Hd. unfold launch_body_gen. destruct (ready s) as [|y rest]; [apply incl_refl|].
  cbn [canceled set_ready]. destruct (canceled s); [cbn; apply incl_refl|].
  unfold execute_record_gen. rewrite Hd. cbn. intros z Hz. apply In_sadd. auto.
Qed.

Lemma dry_launch_iter_incl c g n : dry c = true -> forall s,
  incl (completed s) (completed (Nat.iter n (launch_body_gen c g) s)).
Proof.
  intros Hd. induction n as [|n IH]; intros s; [cbn; apply incl_refl|]. rewrite iter_S.
  eapply incl_tran; [apply IH | apply dry_launch_body_incl; exact Hd].
Qed.

Lemma available_pos c s : inprog s = [] -> ready s <> [] -> available_gen c s > 0.
Proof.
  intros Hi Hr. unfold available_gen. rewrite Hi. cbn [length].
  destruct (ready s) as [|y r]; [congruence|]. cbn [length].
  destruct (throttle c =? 0) eqn:E; [lia|]. apply Nat.eqb_neq in E. lia.
Qed.

Definition all_done (g : graph) (s : st) : Prop := forall x, x < length g -> In x (completed s).

Lemma Dry_completion g s : Dry g s ->
  (completion_gen g s = SFINISHED /\ all_done g s) \/
  (completion_gen g s = SRUNNING /\ exists x, x < length g /\ ~ In x (completed s)).
Proof.
  intros D. unfold completion_gen.
  rewrite (d_canceled g s D), (d_failed g s D), (d_cancelled g s D). cbn [andb is_nil negb app].
  rewrite app_nil_r.
  destruct (subset (seq 0 (length g)) (completed s)) eqn:E.
  - left. split; auto. intros x Hx. apply subset_incl in E. apply E. apply In_seq_lt. exact Hx.
  - right. split; auto. unfold subset in E. destruct (forallb_false_ex _ _ E) as (x & Hx & Hm).
    exists x. rewrite In_seq_lt in Hx. apply mem_false in Hm. auto.
Qed.

Lemma Dry_all_rows g s : Dry g s -> all_done g s ->
  Forall (fun r => fst (fst r) = DRYRUN) (rows_of s).
Proof.
  intros D A. unfold rows_of. apply Forall_forall. intros r Hr.
  apply in_map_iff in Hr. destruct Hr as (q & <- & Hq). cbn.
  destruct (In_nth _ _ dflt_rec Hq) as (x & Hx & Hn).
  rewrite (d_len_recs g s D) in Hx. pose proof (d_status g s D x Hx) as S.
  unfold getrec in S. rewrite Hn in S. rewrite S.
  assert (M : mem x (completed s) = true) by (apply mem_In; auto). rewrite M. reflexivity.
Qed.

Lemma Dry_completed_le g s : Dry g s -> length (completed s) <= length g.
Proof.
  intros D. rewrite <- (seq_length (length g) 0).
  apply NoDup_incl_length; [apply (d_nd_comp g s D)|].
  intros x Hx. apply In_seq_lt. apply (d_bound g s D). auto.
Qed.

(** one dry poll without a cancel request: the invariant is kept; either the study is
    FINISHED with everything completed, or it is RUNNING and at least one more instance
    has been completed *)
Theorem dry_poll_progress c g s p : WF g -> dry c = true -> cancel_req p = false -> Dry g s ->
  let s' := fst (poll c g s p) in
  let r := snd (poll c g s p) in
  Dry g s' /\ incl (completed s) (completed s') /\
  ((r = SFINISHED /\ all_done g s') \/ (r = SRUNNING /\ length (completed s) < length (completed s'))).
Proof.
  intros W Hd Hc D. rewrite dry_poll_phases by exact Hd. unfold stage_launch. cbn [fst snd].
  pose proof (Dry_at_query c g s p Hd Hc D) as D0.
  set (s0 := at_query c s p) in *.
  assert (E0 : completed s0 = completed s) by apply at_query_fields.
  destruct (dry_stage_fold g (seq 0 (length g)) s0 D0 (fun y Hy => proj1 (In_seq_lt y _) Hy))
    as (D1 & E1 & _ & S1).
  set (s1 := fold_left (stage_node_gen g) (seq 0 (length g)) s0) in *.
  destruct (dry_launch_iter_Dry c g (available_gen c s1) Hd s1 D1) as (D2 & L1 & L2).
  set (s2 := Nat.iter (available_gen c s1) (launch_body_gen c g) s1) in *.
  cbv zeta. splits; auto.
  - rewrite <- E0, <- E1. apply dry_launch_iter_incl. exact Hd.
  - destruct (Dry_completion g s2 D2) as [[R A]|[R (x & Hx & Hn)]]; [left; auto|right].
    split; auto. rewrite <- E0, <- E1.
    assert (Hs1 : ~ In x (completed s1)).
    { intros H. apply Hn. apply (dry_launch_iter_incl c g _ Hd s1). exact H. }
    destruct (stageable_exists g (completed s1) W x Hx Hs1) as (y & Hy & Hyc & Hyp).
    assert (Hr : In y (ready s1)).
    { apply S1; [apply In_seq_lt; exact Hy | rewrite <- E1; exact Hyc | rewrite <- E1; exact Hyp]. }
    apply L2.
    + apply available_pos; [apply (d_inprog g s1 D1)|]. intros E. rewrite E in Hr. contradiction.
    + intros E. rewrite E in Hr. contradiction.
Qed.

Definition nocancel (p : pin) : Prop := cancel_req p = false.

(** a dry run without cancel requests: every executed poll keeps [Dry]; its status is
    RUNNING or FINISHED; FINISHED comes with every row DRYRUN *)
Lemma dry_run_steps_ok c g ps : WF g -> dry c = true -> forall s, Dry g s -> Forall nocancel ps ->
  length (run_steps c g s ps) <= S (length g - length (completed s)) /\
  forall t, In t (run_steps c g s ps) ->
    Dry g (st_pre t) /\ Dry g (st_post t) /\
    ((st_res t = SFINISHED /\ all_done g (st_post t)) \/
     (st_res t = SRUNNING /\ length (completed (st_pre t)) < length (completed (st_post t)))).
Proof.
  intros W Hd. induction ps as [|p ps IH]; intros s D HK; cbn [run_steps].
  - split; [cbn; lia | intros t []].
  - inversion HK as [|p' ps' Hp HK']; subst.
    destruct (dry_poll_progress c g s p W Hd Hp D) as (D1 & _ & R).
    destruct (poll c g s p) as [s1 r]. cbn [fst snd] in *.
    destruct R as [[-> A]|[-> L]].
    + split; [cbn; lia|]. intros t [<-|[]]. cbn. splits; auto.
    + destruct (IH s1 D1 HK') as (B1 & B2). pose proof (Dry_completed_le g s1 D1).
      split; [cbn [length]; lia|].
      intros t [<-|Ht]; [cbn; splits; auto | apply B2; exact Ht].
Qed.

(** ... and with enough poll inputs it ends FINISHED *)
Lemma dry_run_finishes c g ps : WF g -> dry c = true -> forall s, Dry g s -> Forall nocancel ps ->
  length g - length (completed s) < length ps ->
  exists pre t, run_steps c g s ps = pre ++ [t] /\ st_res t = SFINISHED /\ all_done g (st_post t) /\ Dry g (st_post t).
Proof.
  intros W Hd. induction ps as [|p ps IH]; intros s D HK Hlen; cbn [run_steps]; [cbn in Hlen; lia|].
  inversion HK as [|p' ps' Hp HK']; subst.
  destruct (dry_poll_progress c g s p W Hd Hp D) as (D1 & _ & R).
  destruct (poll c g s p) as [s1 r] eqn:E. cbn [fst snd] in *.
  destruct R as [[-> A]|[-> L]].
  - exists [], (s, p, s1, SFINISHED). cbn. auto.
  - pose proof (Dry_completed_le g s1 D1).
    destruct (IH s1 D1 HK') as (pre & t & E1 & R1 & A1 & D2); [cbn [length] in Hlen; lia|].
    exists ((s, p, s1, SRUNNING) :: pre), t. rewrite E1. cbn. auto.
Qed.

Theorem dry_run_terminates c g ps : WF g -> dry c = true -> Forall nocancel ps ->
  (* never more than length g + 1 polls, none of them FAILURE / CANCELLED / ABORT *)
  length (run c g (init g) ps) <= length g + 1 /\
  (forall o, In o (run c g (init g) ps) ->
     snd o = SRUNNING \/ (snd o = SFINISHED /\ Forall (fun r => fst (fst r) = DRYRUN) (snd (fst o)))) /\
  (* with length g + 1 inputs (or more) the last observation is FINISHED, all rows DRYRUN *)
  (length g < length ps ->
   exists pre evs rows, run c g (init g) ps = pre ++ [(evs, rows, SFINISHED)] /\
                        length rows = length g /\ Forall (fun r => fst (fst r) = DRYRUN) rows).
Proof.
  intros W Hd HK. pose proof (Dry_init g) as D0.
  destruct (dry_run_steps_ok c g ps W Hd (init g) D0 HK) as (A1 & A2).
  rewrite run_steps_run. splits.
  - rewrite map_length. cbn in A1. lia.
  - intros o Ho. apply in_map_iff in Ho. destruct Ho as (t & <- & Ht).
    destruct (A2 t Ht) as (_ & D1 & [[R A]|[R _]]); cbn; [right|left]; auto.
    split; auto. eapply Dry_all_rows; eassumption.
  - intros Hlen. destruct (dry_run_finishes c g ps W Hd (init g) D0 HK) as (pre & t & E & R & A & D1).
    { cbn. lia. }
    exists (map obs_of_step pre), (rev (evs (st_post t))), (rows_of (st_post t)).
    rewrite E, map_app. cbn [map]. unfold obs_of_step at 2. rewrite R. splits; auto.
    + unfold rows_of. rewrite map_length. apply (d_len_recs g _ D1).
    + eapply Dry_all_rows; eassumption.
Qed.

(** * Part 3: script generation in a dry run *)
Definition gens (es : list event) : list nat :=
  flat_map (fun e => match e with EGen x => [x] | _ => [] end) es.

Lemma gens_app a b : gens (a ++ b) = gens a ++ gens b.
Proof. apply flat_map_app. Qed.

Lemma gens_map_EGen l : gens (map EGen l) = l.
Proof. induction l as [|a l IH]; cbn; [reflexivity|]. f_equal. exact IH. Qed.

Lemma dry_launch_iter_gens c g n : dry c = true -> forall s, Dry g s ->
  let s' := Nat.iter n (launch_body_gen c g) s in
  exists l, evs s' = map EGen (rev l) ++ evs s /\ completed s' = completed s ++ l.
Proof.
  intros Hd. induction n as [|n IH]; intros s D.
  - exists []. cbn. rewrite app_nil_r. auto.
  - rewrite iter_S_r. destruct (dry_launch_step c g s Hd D) as [D1 A].
    destruct (IH _ D1) as (l & E1 & E2). cbv zeta.
    destruct (ready s) as [|y rest].
    + rewrite A in *. exists l. auto.
    + destruct A as (A1 & _ & A3). exists (y :: l). rewrite E1, E2, A1, A3. cbn [rev].
      rewrite map_app, <- !app_assoc. cbn. auto.
Qed.

(** the events of a dry poll (no cancel request) are exactly the EGen calls of the
    instances it completes, in completion order *)
Theorem dry_poll_gens c g s p : dry c = true -> cancel_req p = false -> Dry g s ->
  let s' := fst (poll c g s p) in
  exists l, rev (evs s') = map EGen l /\ completed s' = completed s ++ l.
Proof.
  intros Hd Hc D. rewrite dry_poll_phases by exact Hd. unfold stage_launch. cbn [fst].
  pose proof (Dry_at_query c g s p Hd Hc D) as D0.
  set (s0 := at_query c s p) in *.
  assert (E0 : completed s0 = completed s) by apply at_query_fields.
  assert (V0 : evs s0 = []) by (unfold s0, at_query; rewrite Hd, Hc; reflexivity).
  destruct (dry_stage_fold g (seq 0 (length g)) s0 D0 (fun y Hy => proj1 (In_seq_lt y _) Hy))
    as (D1 & E1 & _ & _).
  pose proof (stage_fold_same g (seq 0 (length g)) s0) as A. cbv zeta in A.
  destruct A as (_ & _ & _ & _ & _ & _ & A7 & _).
  set (s1 := fold_left (stage_node_gen g) (seq 0 (length g)) s0) in *.
  destruct (dry_launch_iter_gens c g (available_gen c s1) Hd s1 D1) as (l & L1 & L2).
  exists l. cbv zeta. rewrite L1, L2, A7, V0, E1, E0, app_nil_r, <- map_rev, rev_involutive. auto.
Qed.

Lemma dry_run_gens c g ps : WF g -> dry c = true -> forall s pre t, Dry g s -> Forall nocancel ps ->
  run_steps c g s ps = pre ++ [t] ->
  completed (st_post t) = completed s ++ flat_map (fun u => gens (rev (evs (st_post u)))) (pre ++ [t]).
Proof.
  intros W Hd. induction ps as [|p ps IH]; intros s pre t D HK E; cbn [run_steps] in E.
  - destruct pre; discriminate.
  - inversion HK as [|p' ps' Hp HK']; subst.
    destruct (dry_poll_gens c g s p Hd Hp D) as (l & G1 & G2).
    destruct (dry_poll_progress c g s p W Hd Hp D) as (D1 & _ & _).
    destruct (poll c g s p) as [s1 r]. cbn [fst snd] in *.
    assert (Single : [(s, p, s1, r)] = pre ++ [t] ->
            completed (st_post t) = completed s ++ flat_map (fun u => gens (rev (evs (st_post u)))) (pre ++ [t])).
    { intros E'. destruct pre as [|a pre]; [|destruct pre; discriminate]. cbn in E'. inversion E'; subst.
      cbn. rewrite app_nil_r, G1, gens_map_EGen. exact G2. }
    destruct r; auto.
    destruct pre as [|a pre]; cbn [app] in E.
    + apply Single. cbn [app]. injection E as E1 _. rewrite E1. reflexivity.
    + inversion E as [[E1 E2]]. subst a. rewrite (IH s1 pre t D1 HK' E2).
      cbn [flat_map app st_post snd fst]. rewrite G1, gens_map_EGen, G2, <- app_assoc. reflexivity.
Qed.

(** in a complete dry run every instance's scripts are generated exactly once: the EGen
    calls of the whole run, in order, enumerate the instances without repetition *)
Theorem dry_run_scripts c g ps : WF g -> dry c = true -> Forall nocancel ps -> length g < length ps ->
  let G := flat_map (fun o : obs => gens (fst (fst o))) (run c g (init g) ps) in
  NoDup G /\ (forall x, In x G <-> x < length g) /\ length G = length g.
Proof.
  intros W Hd HK Hlen. pose proof (Dry_init g) as D0.
  destruct (dry_run_finishes c g ps W Hd (init g) D0 HK) as (pre & t & E & R & A & D1); [cbn; lia|].
  pose proof (dry_run_gens c g ps W Hd (init g) pre t D0 HK E) as G1. cbn [init completed app] in G1.
  cbv zeta. rewrite run_steps_run, E.
  assert (EG : flat_map (fun o : obs => gens (fst (fst o))) (map obs_of_step (pre ++ [t])) =
               flat_map (fun u => gens (rev (evs (st_post u)))) (pre ++ [t])).
  { generalize (pre ++ [t]). intros l. induction l as [|a l IH]; cbn; [reflexivity|]. rewrite IH. reflexivity. }
  rewrite EG, <- G1.
  assert (N : NoDup (completed (st_post t))) by apply (d_nd_comp g _ D1).
  assert (I : forall x, In x (completed (st_post t)) <-> x < length g).
  { intros x. split; [intros H; apply (d_bound g _ D1); auto | apply A]. }
  splits; auto.
  apply Nat.le_antisymm; [apply Dry_completed_le; exact D1|].
  rewrite <- (seq_length (length g) 0). apply NoDup_incl_length; [apply seq_NoDup|].
  intros x Hx. apply I. apply In_seq_lt. exact Hx.
Qed.

(** * Script generation comes first, in both modes *)
Lemma evs_mark_failed_list l : forall s, evs (mark_failed_list l s) = evs s.
Proof.
  unfold mark_failed_list. induction l as [|a l IH]; intros s; cbn [fold_left]; [reflexivity|].
  rewrite IH. reflexivity.
Qed.

Lemma evs_next_sub s : evs (snd (next_sub s)) = evs s.
Proof. unfold next_sub. destruct (subs s); reflexivity. Qed.

Lemma submit_attempts_main_events g x n : forall s,
  exists new, evs (snd (submit_attempts g x false n s)) = new ++ evs s /\
              forall e, In e new -> exists sc res, e = ESubmit x Main sc res.
Proof.
  induction n as [|n IH]; intros s.
  - exists []. split; [reflexivity|intros e []].
  - rewrite submit_attempts_S. cbv zeta.
    set (s2 := if scheduled (attr g x) then rec_set_status x PENDING s
               else rec_set_status x RUNNING (rec_set_status x PENDING s)).
    assert (E2 : evs s2 = evs s) by (subst s2; destruct (scheduled (attr g x)); reflexivity).
    pose proof (evs_next_sub s2) as E3.
    destruct (fst (next_sub s2)).
    + eexists [_]. cbn [snd emit evs set_evs rec_push_job set_recs set_next_job]. rewrite E3, E2.
      split; [reflexivity|]. intros e [<-|[]]. eauto.
    + destruct (IH (emit (ESubmit x Main (scheduled (attr g x)) None) (snd (next_sub s2)))) as (new & A & B).
      exists (new ++ [ESubmit x Main (scheduled (attr g x)) None]). rewrite A. cbn [emit evs set_evs].
      rewrite E3, E2, <- app_assoc. split; [reflexivity|].
      intros e He. apply in_app_iff in He. destruct He as [He|[<-|[]]]; eauto.
Qed.

Lemma execute_record_gen_first c g x s :
  exists new, evs (execute_record_gen c g x false s) = new ++ EGen x :: evs s /\
              (forall y, ~ In (EGen y) new) /\ (dry c = true -> new = []).
Proof.
  unfold execute_record_gen. cbn [negb]. destruct (dry c).
  - exists []. splits; auto.
  - destruct (submit_attempts_main_events g x (attempts c) (emit (EGen x) s)) as (new & A & B).
    destruct (submit_attempts g x false (attempts c) (emit (EGen x) s)) as [ok s1]. cbn [snd] in A.
    exists new. splits; [| |discriminate].
    + destruct ok.
      * destruct (negb (scheduled (attr g x))); exact A.
      * rewrite evs_mark_failed_list. exact A.
    + intros y Hy. destruct (B _ Hy) as (sc & res & E). discriminate.
Qed.

(** * The monitor codes of family 17 are silent on the trace of every dry run of the model *)
Definition c17_code (k : nat) : Prop := k = 17 \/ k = 171 \/ k = 172 \/ k = 173.

Lemma cseen_deliver m r : cseen (deliver m r) = cseen m.
Proof. destruct r as [x [v|]]; [|reflexivity]. destruct v; reflexivity. Qed.
Lemma cseen_fold_deliver reps : forall m, cseen (fold_left deliver reps m) = cseen m.
Proof. induction reps as [|r reps IH]; intros m; cbn [fold_left]; [reflexivity|]. rewrite IH. apply cseen_deliver. Qed.

Lemma cseen_step_base_mono c g p b e : cseen b = true -> cseen (step_base c g p b e) = true.
Proof.
  intros H. destruct e as [js|js|x|x k sched res]; cbn [step_base]; auto.
  - destruct (qcode p); cbn; rewrite ?cseen_fold_deliver; exact H.
  - destruct res as [j|]; [|exact H]. destruct sched; exact H.
Qed.

Lemma cseen_fold_ev_mono c g p es : forall m, cseen (mb m) = true -> cseen (mb (fold_left (step_ev c g p) es m)) = true.
Proof.
  induction es as [|e es IH]; intros m H; cbn [fold_left]; [exact H|]. apply IH. cbn. apply cseen_step_base_mono. exact H.
Qed.

(** generation events leave the ledger alone *)
Lemma fold_ev_gens c g p l : forall m, mb (fold_left (step_ev c g p) (map EGen l) m) = mb m.
Proof. induction l as [|x l IH]; intros m; cbn [map fold_left]; [reflexivity|]. rewrite IH. reflexivity. Qed.

(** the adapter calls of a dry poll raise no code of the family *)
Lemma flags_ev_c17 c g p b e k : dry c = true -> dry_ev_ok e = true -> c17_code k -> ~ In k (flags_ev c g p b e).
Proof.
  intros Hd He Hk H. destruct e as [js|js|x|x kd sched res]; try discriminate; cbn [flags_ev] in H.
  - destruct js; [|discriminate]. rewrite Hd in H. cbn in H. in_cks H;
      try (destruct Hk as [-> | [-> | [-> | ->]]]; discriminate); try contradiction.
  - apply In_ck in H. destruct H as [H _]. destruct Hk as [-> | [-> | [-> | ->]]]; discriminate.
Qed.

Lemma fold_ev_c17 c g p k es : dry c = true -> forallb dry_ev_ok es = true -> c17_code k ->
  forall m, ~ In k (viol m) -> ~ In k (viol (fold_left (step_ev c g p) es m)).
Proof.
  intros Hd. induction es as [|e es IH]; intros He Hk m Hm; cbn [fold_left]; [exact Hm|].
  cbn in He. apply andb_true_iff in He. destruct He as [He1 He2].
  apply IH; auto. cbn. rewrite in_app_iff. intros [H|H]; [exact (Hm H)|].
  exact (flags_ev_c17 c g p (mb m) e k Hd He1 Hk H).
Qed.

Lemma flags_end_c17 c g p b rows stat k : c17_code k -> In k (flags_end c g p b rows stat) ->
  (k = 171 /\ (negb (dry c) || negb (sstatus_eqb stat SFINISHED || sstatus_eqb stat SFAILURE || sstatus_eqb stat SCANCELLED)
               || cseen b || (forallb (fun x => state_eqb (row_status rows x) DRYRUN) (all_nodes g) &&
                              sstatus_eqb stat SFINISHED)) = false) \/
  (k = 172 /\ (negb (dry c) || cseen b || (npolls b <=? length g)) = false).
Proof.
  intros Hk H. unfold flags_end in H. cbv zeta in H.
  in_cks H; try (exfalso; destruct Hk as [-> | [-> | [-> | ->]]]; discriminate); auto.
Qed.

Lemma row_status_rows_of s x : row_status (rows_of s) x = status (getrec s x).
Proof.
  unfold row_status, rows_of, getrec.
  change (INITIALIZED, @nil nat, 0) with ((fun r => (status r, jobs r, restarts r)) dflt_rec).
  rewrite map_nth. reflexivity.
Qed.

Theorem monitor_c17_silent c g k : WF g -> dry c = true -> c17_code k -> forall ps s m,
  inprog s = [] ->
  (cseen (mb m) = false -> Dry g s /\ npolls (mb m) <= length (completed s)) ->
  ~ In k (viol m) ->
  ~ In k (viol (fold_left (step_poll c g) (zip ps (run c g s ps)) m)).
Proof.
  intros W Hd Hk. induction ps as [|p ps IH]; intros s m Hi Hc Hv; [exact Hv|].
  cbn [run].
  pose proof (dry_poll_events c g s p Hd Hi) as Ev.
  pose proof (dry_poll_inprog c g s p Hd Hi) as Hi1.
  destruct (poll c g s p) as [s1 r] eqn:E. cbn [fst] in Ev, Hi1.
  set (es := rev (evs s1)).
  assert (Ev' : forallb dry_ev_ok es = true).
  { apply forallb_forall. intros e He. unfold es in He. apply in_rev in He.
    rewrite forallb_forall in Ev. auto. }
  set (m0 := pre_poll p es m).
  set (m1 := fold_left (step_ev c g p) es m0).
  assert (V0 : ~ In k (viol m0)).
  { unfold m0, pre_poll. destruct (cancel_req p); [|exact Hv]. cbn. rewrite in_app_iff.
    intros [H|H]; [exact (Hv H)|]. apply In_ck in H. destruct H as [H _].
    destruct Hk as [-> | [-> | [-> | ->]]]; discriminate. }
  assert (V1 : ~ In k (viol m1)) by (apply fold_ev_c17; auto).
  (* if no cancel has been seen after the events, the poll was an ordinary dry poll *)
  assert (Quiet : cseen (mb m1) = false ->
            cancel_req p = false /\ mb m1 = mb m /\ Dry g s /\ npolls (mb m) <= length (completed s)).
  { intros Hc1.
    assert (Hcr : cancel_req p = false).
    { destruct (cancel_req p) eqn:Cr; auto. exfalso.
      assert (cseen (mb m1) = true); [|congruence].
      apply cseen_fold_ev_mono. unfold m0, pre_poll. rewrite Cr. reflexivity. }
    assert (E0 : m0 = m) by (unfold m0, pre_poll; rewrite Hcr; reflexivity).
    destruct (cseen (mb m)) eqn:Cm.
    { exfalso. assert (cseen (mb m1) = true); [|congruence]. apply cseen_fold_ev_mono. rewrite E0. exact Cm. }
    destruct (Hc eq_refl) as [D B].
    destruct (dry_poll_gens c g s p Hd Hcr D) as (l & G1 & _). rewrite E in G1. cbn [fst] in G1.
    splits; auto. unfold m1, es. rewrite G1, fold_ev_gens, E0. reflexivity. }
  assert (Step : ~ In k (viol (step_poll c g m (p, (es, rows_of s1, r))))).
  { unfold step_poll. fold m0. fold m1. cbn [viol]. rewrite in_app_iff. intros [H|H]; [exact (V1 H)|].
    destruct (flags_end_c17 c g p (mb m1) (rows_of s1) r k Hk H) as [[_ A]|[_ A]].
    - rewrite Hd in A. cbn [negb orb] in A. apply orb_false_iff in A. destruct A as [A A3].
      apply orb_false_iff in A. destruct A as [A1 A2]. apply negb_false_iff in A1.
      destruct (Quiet A2) as (Hcr & _ & D & _).
      destruct (dry_poll_progress c g s p W Hd Hcr D) as (D1 & _ & R). rewrite E in R, D1. cbn [fst snd] in R, D1.
      destruct R as [[-> Ad]|[-> _]]; [|discriminate].
      assert (forallb (fun x => state_eqb (row_status (rows_of s1) x) DRYRUN) (all_nodes g) = true).
      { apply forallb_forall. intros x Hx. unfold all_nodes in Hx. apply In_seq_lt in Hx.
        rewrite row_status_rows_of, (d_status g s1 D1 x Hx).
        assert (M : mem x (completed s1) = true) by (apply mem_In; auto). rewrite M. reflexivity. }
      rewrite H0 in A3. discriminate.
    - rewrite Hd in A. cbn [negb orb] in A. apply orb_false_iff in A. destruct A as [A2 A3].
      destruct (Quiet A2) as (_ & Em & D & B). rewrite Em in A3.
      apply Nat.leb_gt in A3. pose proof (Dry_completed_le g s D). lia. }
  destruct r; try (cbn [zip fold_left]; destruct ps; exact Step).
  cbn [zip fold_left]. apply IH; auto.
  unfold step_poll. fold m0. fold m1. cbn [mb end_base cseen npolls]. intros Hc1.
  destruct (Quiet Hc1) as (Hcr & Em & D & B).
  destruct (dry_poll_progress c g s p W Hd Hcr D) as (D1 & _ & R). rewrite E in R, D1. cbn [fst snd] in R, D1.
  split; auto. destruct R as [[R _]|[_ L]]; [discriminate|]. rewrite Em. lia.
Qed.

Corollary model_trace_c17_codes c g ps k : WF g -> dry c = true -> c17_code k ->
  ~ In k (viol_of c g ps (run c g (init g) ps)).
Proof.
  intros W Hd Hk. unfold viol_of, monitor. apply monitor_c17_silent; auto.
  intros _. split; [apply Dry_init|]. cbn. lia.
Qed.

(** hence the monitor predicate of C17 holds of every dry run of the model *)
Corollary model_prop_ok_17 c g ps : WF g -> dry c = true -> prop_ok 17 c g ps (run c g (init g) ps) = true.
Proof.
  intros W Hd. unfold prop_ok. cbv zeta. apply forallb_forall. intros k Hk.
  apply negb_true_iff. apply mem_false. apply model_trace_c17_codes; auto.
  cbn in Hk. unfold c17_code. intuition.
Qed.

(** * Part 4: the dry run against the ideal real run (C17_same_scripts)
    The ideal real run: no cancel request, every query OK and reporting every tracked job
    FINISHED, every submission successful.  It proceeds in lock-step with the dry run of the
    same graph and throttle: same queue, same dependency table, same slot arithmetic, and
    poll by poll the same sequence of script generations. *)
Definition ipin (s : st) : pin :=
  {| cancel_req := false; qcode := QOK; reports := map (fun x => (x, Some FINISHED)) (inprog s); psubs := [] |}.

Definition fin (x : nat) (s : st) : st := inprog_remove x (completed_add x (rec_set_status x FINISHED s)).

Lemma fold_finished c g L : forall s cl ca,
  fold_left (handle_report_gen c g) (map (fun x => (x, Some FINISHED)) L) (s, cl, ca) =
  (fold_left (fun s x => fin x s) L s, cl, ca).
Proof. induction L as [|a L IH]; intros s cl ca; cbn [map fold_left]; [reflexivity|]. rewrite <- IH. reflexivity. Qed.

Lemma dispatch_finished c g L s :
  dispatch_gen c g (map (fun x => (x, Some FINISHED)) L) s = fold_left (fun s x => fin x s) L s.
Proof. unfold dispatch_gen. rewrite fold_finished. reflexivity. Qed.

Lemma fold_fin_props L : forall s,
  let s' := fold_left (fun s x => fin x s) L s in
  ready s' = ready s /\ deps s' = deps s /\ canceled s' = canceled s /\ failed s' = failed s /\
  cancelled s' = cancelled s /\ subs s' = subs s /\ evs s' = evs s /\ length (recs s') = length (recs s) /\
  (forall x, In x (completed s') <-> In x (completed s) \/ In x L) /\
  (forall x, In x (inprog s') <-> In x (inprog s) /\ ~ In x L) /\
  (forall x, status (getrec s x) <> INITIALIZED -> status (getrec s' x) <> INITIALIZED) /\
  (forall x, ~ In x L -> getrec s' x = getrec s x).
Proof.
  induction L as [|a L IH]; intros s; cbn [fold_left].
  - splits; auto; intros x; cbn; tauto.
  - specialize (IH (fin a s)). cbv zeta in IH.
    destruct IH as (A1 & A2 & A3 & A4 & A5 & A6 & A7 & A8 & A9 & A10 & A11 & A12).
    cbv zeta. rewrite A1, A2, A3, A4, A5, A6, A7, A8. splits; try reflexivity.
    + unfold fin, inprog_remove, completed_add, rec_set_status. cbn. apply length_upd.
    + intros x. rewrite A9. unfold fin, inprog_remove, completed_add. cbn [completed set_inprog set_completed].
      change (completed (rec_set_status a FINISHED s)) with (completed s). rewrite In_sadd. cbn. intuition.
    + intros x. rewrite A10. unfold fin, inprog_remove, completed_add. cbn [inprog set_inprog set_completed].
      change (inprog (rec_set_status a FINISHED s)) with (inprog s). rewrite In_srem. cbn. intuition.
    + intros x Hx. apply A11.
      change (status (getrec (rec_set_status a FINISHED s) x) <> INITIALIZED).
      destruct (status_set_status a x FINISHED s) as [E|E]; rewrite E; [exact Hx|discriminate].
    + intros x Hx. rewrite A12 by (intros H; apply Hx; right; exact H).
      change (getrec (rec_set_status a FINISHED s) x = getrec s x).
      apply getrec_set_status_neq. intros ->. apply Hx. left. reflexivity.
Qed.

Lemma upd_ext {A} n (f f' : A -> A) l : (forall a, f a = f' a) -> upd n f l = upd n f' l.
Proof.
  intros H. revert n. induction l as [|a l IH]; intros [|n]; cbn; auto; [rewrite H|rewrite IH]; reflexivity.
Qed.

Lemma mem_ext x l l' : (In x l <-> In x l') -> mem x l = mem x l'.
Proof.
  intros H. destruct (mem x l) eqn:A, (mem x l') eqn:B; auto.
  - apply mem_In in A. apply H in A. apply mem_In in A. congruence.
  - apply mem_In in B. apply H in B. apply mem_In in B. congruence.
Qed.

Lemma init_eqb a b : (a = INITIALIZED <-> b = INITIALIZED) -> state_eqb a INITIALIZED = state_eqb b INITIALIZED.
Proof.
  intros [H1 H2]. destruct a, b; cbn; try reflexivity;
    try (exfalso; discriminate (H1 eq_refl)); try (exfalso; discriminate (H2 eq_refl)).
Qed.

Section LockStep.
  Variables (cr cd : cfg) (g : graph).
  Hypothesis Hr : dry cr = false.
  Hypothesis Hd : dry cd = true.
  Hypothesis Ht : throttle cd = throttle cr.
  Hypothesis Ha : 0 < attempts cr.

  (** scripts generated so far in the current poll *)
  Definition gl (s : st) : list nat := gens (rev (evs s)).

  Record Sim (sr sd : st) : Prop := {
    sm_dry : Dry g sd;
    sm_len : length (recs sr) = length g;
    sm_ready : ready sr = ready sd;
    sm_deps : deps sr = deps sd;
    sm_canceled : canceled sr = false;
    sm_failed : failed sr = [];
    sm_cancelled : cancelled sr = [];
    sm_subs : subs sr = [];
    sm_comp : forall x, In x (completed sd) <-> In x (completed sr) \/ In x (inprog sr);
    sm_init : forall x, x < length g ->
              (status (getrec sr x) = INITIALIZED <-> status (getrec sd x) = INITIALIZED) }.

  (** staging, node by node, while nothing is tracked *)
  Lemma sim_stage_node sr sd y : Sim sr sd -> inprog sr = [] -> y < length g ->
    Sim (stage_node_gen g sr y) (stage_node_gen g sd y) /\ inprog (stage_node_gen g sr y) = [] /\
    evs (stage_node_gen g sr y) = evs sr /\ evs (stage_node_gen g sd y) = evs sd.
  Proof.
    intros S Hi Hy. pose proof S as [SD SL SR SP SC SF SCa SS SCo SI].
    destruct (dry_stage_node g sd y SD Hy) as (D1 & _ & _ & _).
    assert (Em : forall p, mem p (completed sr) = mem p (completed sd)).
    { intros p. apply mem_ext. rewrite SCo, Hi. cbn. tauto. }
    assert (Es : state_eqb (status (getrec sr y)) INITIALIZED = state_eqb (status (getrec sd y)) INITIALIZED)
      by (apply init_eqb; apply SI; exact Hy).
    assert (Ep : deps (deps_prune y sr) = deps (deps_prune y sd)).
    { unfold deps_prune. cbn. rewrite SP. apply upd_ext. intros a. apply filter_ext. intros p. rewrite Em. reflexivity. }
    revert D1. unfold stage_node_gen. rewrite Em, Es.
    destruct (mem y (completed sd)); [intros _; splits; auto|].
    destruct (state_eqb (status (getrec sd y)) INITIALIZED); [|intros _; splits; auto].
    unfold getdeps. rewrite Ep.
    change (ready (deps_prune y sr)) with (ready sr). change (ready (deps_prune y sd)) with (ready sd). rewrite SR.
    destruct (is_nil (nth y (deps (deps_prune y sd)) [])).
    - destruct (negb (mem y (ready sd))); intros D1; splits; auto.
      + constructor; auto; unfold ready_push; cbn; rewrite ?SR; auto.
      + constructor; auto.
    - intros D1. splits; auto. constructor; auto.
  Qed.

  Lemma sim_stage_fold l : forall sr sd, Sim sr sd -> inprog sr = [] -> (forall y, In y l -> y < length g) ->
    Sim (fold_left (stage_node_gen g) l sr) (fold_left (stage_node_gen g) l sd) /\
    inprog (fold_left (stage_node_gen g) l sr) = [] /\
    evs (fold_left (stage_node_gen g) l sr) = evs sr /\ evs (fold_left (stage_node_gen g) l sd) = evs sd.
  Proof.
    induction l as [|y l IH]; intros sr sd S Hi Hl; cbn [fold_left]; [auto|].
    destruct (sim_stage_node sr sd y S Hi (Hl y (or_introl eq_refl))) as (S1 & I1 & E1 & E2).
    destruct (IH _ _ S1 I1 (fun z Hz => Hl z (or_intror Hz))) as (S2 & I2 & E3 & E4).
    splits; auto; congruence.
  Qed.

  (** a successful first attempt *)
  Lemma submit_first_ok y s : subs s = [] ->
    submit_attempts g y false (attempts cr) s =
    (true, let s2 := if scheduled (attr g y) then rec_set_status y PENDING s
                     else rec_set_status y RUNNING (rec_set_status y PENDING s) in
           emit (ESubmit y Main (scheduled (attr g y)) (Some (next_job s2)))
                (rec_push_job y (next_job s2) (set_next_job s2 (S (next_job s2))))).
  Proof.
    intros Hs. destruct (attempts cr) as [|n] eqn:E; [lia|]. rewrite submit_attempts_S. cbv zeta.
    set (s2 := if scheduled (attr g y) then _ else _).
    assert (E2 : subs s2 = []) by (subst s2; destruct (scheduled (attr g y)); exact Hs).
    unfold next_sub. rewrite E2. reflexivity.
  Qed.

  (** launching: the same head of the queue, the same script generation *)
  Lemma sim_launch_body sr sd : Sim sr sd ->
    Sim (launch_body_gen cr g sr) (launch_body_gen cd g sd) /\
    exists G, gl (launch_body_gen cr g sr) = gl sr ++ G /\ gl (launch_body_gen cd g sd) = gl sd ++ G.
  Proof.
    intros SM. pose proof SM as [SD SL SR SP SC SF SCa SS SCo SI].
    destruct (dry_launch_step cd g sd Hd SD) as [D1 A].
    unfold launch_body_gen in *. rewrite SR. destruct (ready sd) as [|y rest] eqn:Er.
    { split; [exact SM|]. exists []. rewrite !app_nil_r. auto. }
    assert (Hyr : In y (ready sd)) by (rewrite Er; left; reflexivity).
    assert (Hy : y < length g) by (apply (d_bound g sd SD); auto).
    cbn [canceled set_ready] in *. rewrite SC. rewrite (d_canceled g sd SD) in *.
    destruct A as (A1 & A2 & A3).
    unfold execute_record_gen in *. rewrite Hr. rewrite Hd in *. cbn [negb] in *.
    rewrite submit_first_ok by exact SS. cbv zeta.
    set (s0 := emit (EGen y) (set_ready sr rest)).
    set (s2 := if scheduled (attr g y) then rec_set_status y PENDING s0
               else rec_set_status y RUNNING (rec_set_status y PENDING s0)).
    set (s3 := emit (ESubmit y Main (scheduled (attr g y)) (Some (next_job s2)))
                    (rec_push_job y (next_job s2) (set_next_job s2 (S (next_job s2))))).
    assert (F3 : completed s3 = completed sr /\ inprog s3 = inprog sr /\ ready s3 = rest /\ deps s3 = deps sr /\
                 canceled s3 = false /\ failed s3 = [] /\ cancelled s3 = [] /\ subs s3 = [] /\
                 length (recs s3) = length g /\ evs s3 = ESubmit y Main (scheduled (attr g y)) (Some (next_job s2)) :: EGen y :: evs sr /\
                 (forall x, x <> y -> getrec s3 x = getrec sr x) /\ status (getrec s3 y) <> INITIALIZED).
    { subst s3 s2 s0. destruct (scheduled (attr g y)); cbn; rewrite ?length_upd; splits; auto;
        try (intros x Hx; unfold getrec; cbn; rewrite !nth_upd_neq by auto; reflexivity);
        unfold getrec; cbn; rewrite !nth_upd_eq by (rewrite ?length_upd; lia); cbn; discriminate. }
    destruct F3 as (F1 & F2 & F3 & F4 & F5 & F6 & F7 & F8 & F9 & F10 & F11 & F12).
    set (sd' := completed_add y (rec_set_status y DRYRUN (emit (EGen y) (set_ready sd rest)))) in *.
    assert (Gd : gl sd' = gl sd ++ [y]).
    { unfold gl. rewrite A3. cbn [rev]. rewrite gens_app. reflexivity. }
    assert (Dy : status (getrec sd' y) <> INITIALIZED).
    { rewrite (d_status g sd' D1 y Hy).
      assert (M : mem y (completed sd') = true) by (apply mem_In; rewrite A1; apply in_app_iff; right; left; reflexivity).
      rewrite M. discriminate. }
    assert (Dx : forall x, x <> y -> getrec sd' x = getrec sd x).
    { intros x Hx. unfold sd', completed_add. unfold getrec. cbn [recs set_completed].
      change (getrec (rec_set_status y DRYRUN (emit (EGen y) (set_ready sd rest))) x = getrec sd x).
      rewrite getrec_set_status_neq by auto. reflexivity. }
    assert (Cd : forall x, In x (completed sd') <-> x = y \/ In x (completed sd)).
    { intros x. rewrite A1, in_app_iff. cbn. intuition. }
    destruct (scheduled (attr g y)) eqn:Sch; cbn [negb].
    - (* scheduled: the step becomes tracked *)
      split.
      + constructor; auto; unfold inprog_add; cbn [recs ready deps canceled failed cancelled subs completed inprog set_inprog];
          try congruence.
        * intros x. rewrite Cd, SCo, F1, F2, In_sadd. tauto.
        * intros x Hx. destruct (Nat.eq_dec x y) as [->|Hn].
          -- split; intros H; [exfalso; apply F12|exfalso; apply Dy]; exact H.
          -- change (status (getrec s3 x) = INITIALIZED <-> status (getrec sd' x) = INITIALIZED).
             rewrite F11, Dx by auto. apply SI. exact Hx.
      + exists [y]. split; [|exact Gd]. unfold gl, inprog_add. cbn [evs set_inprog]. rewrite F10. cbn [rev].
        rewrite !gens_app. cbn. rewrite app_nil_r. reflexivity.
    - (* local: the step completes at once *)
      split.
      + constructor; auto; unfold inprog_remove, completed_add, inprog_add;
          cbn [recs ready deps canceled failed cancelled subs completed inprog set_inprog set_completed]; try congruence.
        * change (length (recs (rec_set_status y FINISHED (set_inprog s3 (sadd y (inprog s3))))) = length g).
          rewrite len_recs_set_status. exact F9.
        * intros x. change (completed (rec_set_status y FINISHED (set_inprog s3 (sadd y (inprog s3))))) with (completed s3).
          change (inprog (rec_set_status y FINISHED (set_inprog s3 (sadd y (inprog s3))))) with (sadd y (inprog s3)).
          rewrite Cd, SCo, F1, F2, In_sadd, In_srem, In_sadd.
          destruct (Nat.eq_dec x y); intuition.
        * intros x Hx.
          change (status (getrec (rec_set_status y FINISHED (set_inprog s3 (sadd y (inprog s3)))) x) = INITIALIZED <->
                  status (getrec sd' x) = INITIALIZED).
          destruct (Nat.eq_dec x y) as [->|Hn].
          -- rewrite getrec_set_status_eq by (change (y < length (recs s3)); rewrite F9; exact Hx). cbn [status].
             split; intros H; [discriminate|exfalso; apply Dy; exact H].
          -- rewrite getrec_set_status_neq by auto.
             change (getrec (set_inprog s3 (sadd y (inprog s3))) x) with (getrec s3 x).
             rewrite F11, Dx by auto. apply SI. exact Hx.
      + exists [y]. split; [|exact Gd]. unfold gl, inprog_remove, completed_add, inprog_add. cbn [evs set_inprog set_completed].
        change (evs (rec_set_status y FINISHED (set_inprog s3 (sadd y (inprog s3))))) with (evs s3).
        rewrite F10. cbn [rev]. rewrite !gens_app. cbn. rewrite app_nil_r. reflexivity.
  Qed.

  Lemma sim_launch_iter n : forall sr sd, Sim sr sd -> gl sr = gl sd ->
    Sim (Nat.iter n (launch_body_gen cr g) sr) (Nat.iter n (launch_body_gen cd g) sd) /\
    gl (Nat.iter n (launch_body_gen cr g) sr) = gl (Nat.iter n (launch_body_gen cd g) sd).
  Proof.
    induction n as [|n IH]; intros sr sd S E; [cbn; auto|]. rewrite !iter_S.
    destruct (IH sr sd S E) as [S1 E1].
    destruct (sim_launch_body _ _ S1) as (S2 & G & G1 & G2). split; auto. congruence.
  Qed.

  (** one poll of the ideal real run against one poll of the dry run *)
  Theorem sim_poll sr sd pd : Sim sr sd -> cancel_req pd = false ->
    Sim (fst (poll cr g sr (ipin sr))) (fst (poll cd g sd pd)) /\
    gl (fst (poll cr g sr (ipin sr))) = gl (fst (poll cd g sd pd)) /\
    (snd (poll cr g sr (ipin sr)) = SRUNNING \/
     (snd (poll cr g sr (ipin sr)) = SFINISHED /\ snd (poll cd g sd pd) = SFINISHED)).
  Proof.
    intros S Hc. pose proof S as [SD SL SR SP SC SF SCa SS SCo SI].
    rewrite (dry_poll_phases cd g sd pd Hd).
    rewrite (poll_phases cr g sr (ipin sr)) by (intros _; discriminate).
    unfold delivered. rewrite Hr. cbn [ipin qcode reports].
    (* the states at query time *)
    set (qr := at_query cr sr (ipin sr)). set (qd := at_query cd sd pd).
    assert (Qr : qr = emit (ECheck (map (lastjob sr) (inprog sr))) (set_evs (set_subs sr []) [])).
    { unfold qr, at_query. rewrite Hr. reflexivity. }
    assert (Qd : qd = set_evs (set_subs sd (psubs pd)) []).
    { unfold qd, at_query. rewrite Hd, Hc. reflexivity. }
    (* dispatch of the FINISHED reports *)
    rewrite dispatch_finished.
    set (s1 := fold_left (fun s x => fin x s) (inprog sr) qr).
    pose proof (fold_fin_props (inprog sr) qr) as P. cbv zeta in P. fold s1 in P.
    destruct P as (P1 & P2 & P3 & P4 & P5 & P6 & P7 & P8 & P9 & P10 & P11 & P12).
    assert (I1 : inprog s1 = []).
    { assert (Hno : forall a, ~ In a (inprog s1)).
      { intros a Ha1. apply P10 in Ha1. rewrite Qr in Ha1. cbn in Ha1. tauto. }
      destruct (inprog s1) as [|a l]; auto. exfalso. apply (Hno a). left. reflexivity. }
    assert (Dq : Dry g qd) by (rewrite Qd; destruct SD; constructor; auto).
    assert (S1 : Sim s1 qd).
    { constructor; auto.
      - rewrite P8, Qr. cbn. exact SL.
      - rewrite P1, Qr, Qd. cbn. exact SR.
      - rewrite P2, Qr, Qd. cbn. exact SP.
      - rewrite P3, Qr. cbn. exact SC.
      - rewrite P4, Qr. cbn. exact SF.
      - rewrite P5, Qr. cbn. exact SCa.
      - rewrite P6, Qr. reflexivity.
      - intros x. rewrite I1, P9, Qr, Qd. cbn. rewrite SCo. tauto.
      - intros x Hx. rewrite Qd.
        change (status (getrec s1 x) = INITIALIZED <-> status (getrec sd x) = INITIALIZED).
        destruct (in_dec Nat.eq_dec x (inprog sr)) as [Hin|Hin].
        + assert (Nd : status (getrec sd x) <> INITIALIZED).
          { rewrite (d_status g sd SD x Hx).
            assert (M : mem x (completed sd) = true) by (apply mem_In; apply SCo; auto). rewrite M. discriminate. }
          assert (Nr : status (getrec s1 x) <> INITIALIZED).
          { apply P11. rewrite Qr. change (status (getrec sr x) <> INITIALIZED). intros H. apply Nd. apply SI; auto. }
          split; intros H; contradiction.
        + rewrite P12 by exact Hin. rewrite Qr. change (status (getrec sr x) = INITIALIZED <-> status (getrec sd x) = INITIALIZED).
          apply SI. exact Hx. }
    assert (G1 : gl s1 = gl qd).
    { unfold gl. rewrite P7, Qr, Qd. reflexivity. }
    (* staging and launching *)
    unfold stage_launch. cbn [fst snd].
    destruct (sim_stage_fold (seq 0 (length g)) s1 qd S1 I1 (fun y Hy => proj1 (In_seq_lt y _) Hy)) as (S2 & I2 & E2 & E3).
    set (t1 := fold_left (stage_node_gen g) (seq 0 (length g)) s1) in *.
    set (t2 := fold_left (stage_node_gen g) (seq 0 (length g)) qd) in *.
    assert (Av : available_gen cr t1 = available_gen cd t2).
    { unfold available_gen. rewrite Ht, I2, (sm_ready _ _ S2), (d_inprog g t2 (sm_dry _ _ S2)). reflexivity. }
    rewrite Av.
    assert (G2 : gl t1 = gl t2) by (unfold gl; rewrite E2, E3; exact G1).
    destruct (sim_launch_iter (available_gen cd t2) t1 t2 S2 G2) as [S3 G3].
    set (u1 := Nat.iter (available_gen cd t2) (launch_body_gen cr g) t1) in *.
    set (u2 := Nat.iter (available_gen cd t2) (launch_body_gen cd g) t2) in *.
    splits; auto.
    (* the verdicts *)
    pose proof S3 as [TD TL TR TP TC TF TCa TS TCo TI].
    unfold completion_gen at 1 2. rewrite TC, TF, TCa. cbn [andb is_nil negb app]. rewrite app_nil_r.
    destruct (subset (seq 0 (length g)) (completed u1)) eqn:Sub; [right|left; reflexivity].
    split; [reflexivity|].
    destruct (Dry_completion g u2 TD) as [[R _]|[_ (x & Hx & Hn)]]; [exact R|exfalso].
    apply Hn. apply TCo. left. apply subset_incl in Sub. apply Sub. apply In_seq_lt. exact Hx.
  Qed.
End LockStep.

(** ** the ideal real run as a run, and the run-level comparison *)
Fixpoint ideal_run (c : cfg) (g : graph) (s : st) (n : nat) : list obs :=
  match n with
  | O => []
  | S n' =>
    let '(s1, r) := poll c g s (ipin s) in
    let o := (rev (evs s1), rows_of s1, r) in
    match r with SRUNNING => o :: ideal_run c g s1 n' | _ => [o] end
  end.

(** the poll inputs of the ideal run (each depends on the state reached) *)
Fixpoint ideal_pins (c : cfg) (g : graph) (s : st) (n : nat) : list pin :=
  match n with
  | O => []
  | S n' => ipin s :: (let '(s1, r) := poll c g s (ipin s) in
                       match r with SRUNNING => ideal_pins c g s1 n' | _ => [] end)
  end.

Lemma ideal_run_is_run c g n : forall s, ideal_run c g s n = run c g s (ideal_pins c g s n).
Proof.
  induction n as [|n IH]; intros s; cbn [ideal_run ideal_pins run]; [reflexivity|].
  destruct (poll c g s (ipin s)) as [s1 r]. destruct r; try reflexivity. rewrite IH. reflexivity.
Qed.

Definition gens_all (os : list obs) : list nat := flat_map (fun o : obs => gens (fst (fst o))) os.

Lemma gens_all_cons es rows r os : gens_all ((es, rows, r) :: os) = gens es ++ gens_all os.
Proof. reflexivity. Qed.
Lemma gens_all_nil : gens_all [] = [].
Proof. reflexivity. Qed.

Section LockStepRun.
  Variables (cr cd : cfg) (g : graph).
  Hypothesis W : WF g.
  Hypothesis Hr : dry cr = false.
  Hypothesis Hd : dry cd = true.
  Hypothesis Ht : throttle cd = throttle cr.
  Hypothesis Ha : 0 < attempts cr.

  (** nothing left to launch: every instance has been launched, the queue is empty *)
  Definition Quiescent (s : st) : Prop :=
    ready s = [] /\ (forall x, x < length g -> status (getrec s x) <> INITIALIZED).

  Lemma stage_node_noinit s y : status (getrec s y) <> INITIALIZED -> stage_node_gen g s y = s.
  Proof.
    intros H. unfold stage_node_gen. destruct (mem y (completed s)); [reflexivity|].
    destruct (state_eqb (status (getrec s y)) INITIALIZED) eqn:E; [|reflexivity].
    apply state_eqb_eq in E. contradiction.
  Qed.

  Lemma stage_fold_noinit l : forall s, (forall y, In y l -> status (getrec s y) <> INITIALIZED) ->
    fold_left (stage_node_gen g) l s = s.
  Proof.
    induction l as [|y l IH]; intros s H; cbn [fold_left]; [reflexivity|].
    rewrite stage_node_noinit by (apply H; left; reflexivity). apply IH. intros z Hz. apply H. right. exact Hz.
  Qed.

  Lemma quiescent_poll s : Quiescent s ->
    Quiescent (fst (poll cr g s (ipin s))) /\ gl (fst (poll cr g s (ipin s))) = [].
  Proof.
    intros [Q1 Q2]. rewrite (poll_phases cr g s (ipin s)) by (intros _; discriminate).
    unfold delivered. rewrite Hr. cbn [ipin qcode reports]. rewrite dispatch_finished.
    set (qr := at_query cr s (ipin s)).
    assert (Qr : qr = emit (ECheck (map (lastjob s) (inprog s))) (set_evs (set_subs s []) [])).
    { unfold qr, at_query. rewrite Hr. reflexivity. }
    set (s1 := fold_left (fun s x => fin x s) (inprog s) qr).
    pose proof (fold_fin_props (inprog s) qr) as P. cbv zeta in P. fold s1 in P.
    destruct P as (P1 & _ & _ & _ & _ & _ & P7 & _ & _ & _ & P11 & _).
    assert (N1 : forall x, x < length g -> status (getrec s1 x) <> INITIALIZED).
    { intros x Hx. apply P11. rewrite Qr. change (status (getrec s x) <> INITIALIZED). auto. }
    assert (R1 : ready s1 = []) by (rewrite P1, Qr; exact Q1).
    unfold stage_launch. cbn [fst].
    rewrite stage_fold_noinit by (intros y Hy; apply N1; apply In_seq_lt; exact Hy).
    assert (Av : available_gen cr s1 = 0).
    { unfold available_gen. rewrite R1. cbn [length]. destruct (throttle cr =? 0); [reflexivity|apply Nat.min_0_r]. }
    rewrite Av. cbn [Nat.iter nat_rect]. split; [split; auto|].
    unfold gl. rewrite P7, Qr. reflexivity.
  Qed.

  Lemma quiescent_run n : forall s, Quiescent s -> gens_all (ideal_run cr g s n) = [].
  Proof.
    induction n as [|n IH]; intros s Q; cbn [ideal_run]; [reflexivity|].
    destruct (quiescent_poll s Q) as [Q1 G1].
    destruct (poll cr g s (ipin s)) as [s1 r]. cbn [fst] in Q1, G1. unfold gl in G1.
    destruct r; rewrite gens_all_cons, G1; try reflexivity. cbn [app]. apply IH. exact Q1.
  Qed.

  Lemma sim_done_quiescent sr sd : Sim g sr sd -> all_done g sd -> Quiescent sr.
  Proof.
    intros S A. pose proof S as [SD SL SR SP SC SF SCa SS SCo SI]. split.
    - rewrite SR. destruct (ready sd) as [|y l] eqn:E; auto. exfalso.
      assert (Hy : In y (ready sd)) by (rewrite E; left; reflexivity).
      apply (d_cr g sd SD y); auto. apply A. apply (d_bound g sd SD). auto.
    - intros x Hx H. apply SI in H; auto. rewrite (d_status g sd SD x Hx) in H.
      assert (M : mem x (completed sd) = true) by (apply mem_In; auto). rewrite M in H. discriminate.
  Qed.

  Theorem lockstep_run ps : forall sr sd, Sim g sr sd -> Forall nocancel ps ->
    gens_all (ideal_run cr g sr (length ps)) = gens_all (run cd g sd ps).
  Proof.
    induction ps as [|p ps IH]; intros sr sd S HK; [reflexivity|].
    inversion HK as [|p' ps' Hp HK']; subst.
    cbn [length ideal_run run].
    destruct (sim_poll cr cd g Hr Hd Ht Ha sr sd p S Hp) as (S1 & G1 & V).
    destruct (dry_poll_progress cd g sd p W Hd Hp (sm_dry _ _ _ S)) as (_ & _ & R).
    destruct (poll cr g sr (ipin sr)) as [sr1 rr]. destruct (poll cd g sd p) as [sd1 rd].
    cbn [fst snd] in *. unfold gl in G1.
    destruct V as [-> | [-> ->]].
    - destruct R as [[-> A]|[-> _]].
      + rewrite !gens_all_cons, G1. f_equal. rewrite quiescent_run; [reflexivity|].
        eapply sim_done_quiescent; eauto.
      + rewrite !gens_all_cons, G1. f_equal. apply IH; auto.
    - rewrite !gens_all_cons, G1. reflexivity.
  Qed.

  Lemma Sim_init : Sim g (init g) (init g).
  Proof.
    constructor; try reflexivity; [apply Dry_init | apply map_length |]; intros x; cbn; tauto.
  Qed.

  (** C17_same_scripts: the dry run generates the scripts of the same instances in the same
      order as the real run in which every submission succeeds and every job finishes *)
  Theorem same_scripts ps : Forall nocancel ps ->
    gens_all (run cr g (init g) (ideal_pins cr g (init g) (length ps))) = gens_all (run cd g (init g) ps).
  Proof. intros HK. rewrite <- ideal_run_is_run. apply lockstep_run; [apply Sim_init|exact HK]. Qed.
End LockStepRun.

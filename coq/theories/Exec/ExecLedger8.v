(** Coupling, part 8: code 43 through one poll and over the whole run. *)
From Coq Require Import Lia Relations.
From MWF Require Import Base.Util Base.UtilLemmas Exec.ExecBase Exec.ExecGen Exec.ExecRun Exec.ExecTrace
  Exec.ExecGraph Exec.ExecInv Exec.ExecLedger Exec.ExecLedger2 Exec.ExecLedger3 Exec.ExecLedger4 Exec.ExecLedger5
  Exec.ExecLedger6 Exec.ExecLedger7.

(** * Delivery of the reports: the [dead] and [tdel] fields *)
Lemma deliver_dead m x v : dead (deliver m (x, Some v)) = if deadk v then sadd x (dead m) else dead m.
Proof. destruct v; reflexivity. Qed.
Lemma deliver_tdel m x v : tdel (deliver m (x, Some v)) = if state_eqb v TIMEDOUT then sadd x (tdel m) else tdel m.
Proof. destruct v; reflexivity. Qed.
Lemma deliver_scratch m r : oksub (deliver m r) = oksub m /\ nsub (deliver m r) = nsub m.
Proof. destruct r as [x [v|]]; [destruct v|]; split; reflexivity. Qed.

Lemma deliver_fold2 reps : forall m,
  (forall y, In y (dead (fold_left deliver reps m)) <-> In y (dead m) \/ Pd reps y) /\
  (forall y, In y (tdel (fold_left deliver reps m)) <-> In y (tdel m) \/ Pt reps y) /\
  oksub (fold_left deliver reps m) = oksub m /\ nsub (fold_left deliver reps m) = nsub m.
Proof.
  induction reps as [|r reps IH]; intros m; cbn [fold_left].
  - split; [|split; [|split]]; auto.
    + intros y. split; auto. intros [H|(v & [] & _)]; auto.
    + intros y. split; auto. intros [H|H]; auto. destruct H.
  - destruct (IH (deliver m r)) as (A1 & A2 & A3 & A4). destruct (deliver_scratch m r) as [S1 S2].
    destruct r as [x o]. split; [|split; [|split]]; try congruence.
    + intros y. rewrite A1, Pd_cons. destruct o as [v|]; [rewrite deliver_dead|].
      * destruct (deadk v) eqn:Dv.
        -- rewrite In_sadd. split.
           ++ intros [[E|H]|H]; auto. right. left. split; auto. exists v. auto.
           ++ intros [H|[[E _]|H]]; auto.
        -- split; [tauto|]. intros [H|[(_ & w & E & Dw)|H]]; auto. inversion E; subst. congruence.
      * change (dead (deliver m (x, None))) with (dead m). split; [tauto|].
        intros [H|[(_ & w & E & _)|H]]; auto. discriminate.
    + intros y. rewrite A2, Pt_cons. destruct o as [v|]; [rewrite deliver_tdel|].
      * destruct (state_eqb v TIMEDOUT) eqn:Ev.
        -- apply state_eqb_eq in Ev. subst v. rewrite In_sadd. tauto.
        -- split; [tauto|]. intros [H|[(_ & E)|H]]; auto. inversion E; subst. discriminate.
      * change (tdel (deliver m (x, None))) with (tdel m). split; [tauto|].
        intros [H|[(_ & E)|H]]; auto. discriminate.
Qed.

(** * The boundary form of the coupling *)
Record KB (s : st) (L : base) : Prop := {
  kb_dead : forall x, In x (dead L) -> gone s x;
  kb_prev : prev L = rows_of s;
  kb_tdel : tdel L = [];
  kb_oksub : oksub L = [];
  kb_nsub : forall x, nsubL L x = 0 }.

Lemma resolved_tracked c g s x : Inv g s -> X c s -> R2 nobody s ->
  In x (inprog s) \/ In x (ready s) \/ stat s x = INITIALIZED -> resolved_row (stat s x) = false.
Proof.
  intros I [XA XB] Rs H.
  destruct (resolved_row (stat s x)) eqn:E; [exfalso|reflexivity].
  assert (HH : In x (completed s) \/ In x (failed s) \/ In x (cancelled s)).
  { destruct (stat s x) eqn:Es; try discriminate E.
    - left. apply XA. auto.
    - right. destruct (Rs x) as [?|[?|[]]]; auto. rewrite Es. reflexivity.
    - right. destruct (Rs x) as [?|[?|[]]]; auto. rewrite Es. reflexivity.
    - left. apply XA. auto. }
  destruct H as [H|[H|H]].
  - destruct HH as [HH|HH]; [exact (i_dj_ci g s I x HH H)|]. destruct (i_dj_fc g s I x HH) as (_ & F & _). contradiction.
  - destruct HH as [HH|HH]; [exact (i_dj_cr g s I x HH H)|]. destruct (i_dj_fc g s I x HH) as (_ & _ & F). contradiction.
  - rewrite H in E. discriminate.
Qed.

Lemma KB_K c g s L : Inv g s -> X c s -> R2 nobody s -> KB s L -> K [] s L.
Proof.
  intros I Xs Rs [B1 B2 B3 B4 B5]. constructor.
  - intros x Hx. destruct (B1 x Hx) as (G1 & G2 & G3). split; [auto|]. split; [auto|]. intros H. contradiction.
  - intros x Hx. rewrite B2, row_status_rows. eapply resolved_tracked; eauto.
  - intros x Hx. rewrite B3 in Hx. destruct Hx.
  - intros x Hx. rewrite B5 in Hx. lia.
  - intros x Hx. rewrite B4 in Hx. destruct Hx.
Qed.

(** [K] does not read the cancel flag, the event log, the submission script *)
Lemma K_state rest s s' L : K rest s L -> (forall y, stat s' y = stat s y) ->
  inprog s' = inprog s -> ready s' = ready s -> K rest s' L.
Proof.
  intros [K1 K2 K3 K4 K5] E1 E2 E3.
  constructor; unfold gone in *; intros x; rewrite ?E1, ?E2, ?E3; auto.
Qed.
Lemma K_ledger rest s L L' : K rest s L -> dead L' = dead L -> prev L' = prev L -> tdel L' = tdel L ->
  oksub L' = oksub L -> nsub L' = nsub L -> K rest s L'.
Proof.
  intros [K1 K2 K3 K4 K5] E1 E2 E3 E4 E5.
  constructor; unfold nsubL in *; intros x; rewrite ?E1, ?E2, ?E3, ?E4, ?E5; auto.
Qed.

(** the ECheck event *)
Lemma echeck_K c g p s L js : Inv g s -> K [] s L -> oksub L = [] ->
  (qcode p = QOK -> forall y, In y (map fst (reports p)) -> In y (inprog s)) ->
  K (if qcode_eqb (qcode p) QOK then reports p else []) s (step_base c g p L (ECheck js)).
Proof.
  intros I Kh Ho V. cbn [step_base].
  destruct (qcode p) eqn:Eq; cbn [qcode_eqb]; try (eapply K_ledger; [exact Kh| | | | |]; reflexivity).
  set (L1 := set_check L (map fst (live L)) (sstage L)).
  destruct (deliver_fold2 (reports p) L1) as (A1 & A2 & A3 & A4).
  pose proof (prev_deliver_fold (reports p) L1) as A5.
  set (L2 := fold_left deliver (reports p) L1) in *.
  change (K (reports p) s (set_check L2 (lchk L2) (succ L2))).
  destruct Kh as [K1 K2 K3 K4 K5]. specialize (V eq_refl).
  constructor.
  - intros x Hx. change (In x (dead L2)) in Hx. apply A1 in Hx. destruct Hx as [Hx|Hx].
    + destruct (K1 x Hx) as (B1 & B2 & B3). split; [auto|]. split; [auto|]. intros H. destruct (B3 H) as (v & [] & _).
    + assert (Hi : In x (inprog s)) by (apply V, Pd_fst, Hx).
      split; [apply (i_init g s I); auto|]. split; [exact (i_dj_ir g s I x Hi)|auto].
  - intros x Hx. change (resolved_row (row_status (prev L2) x) = false). rewrite A5. apply K2. exact Hx.
  - intros x Hx. change (In x (tdel L2)) in Hx. apply A2 in Hx. destruct Hx as [Hx|Hx].
    + destruct (K3 x Hx) as (B1 & B2 & B3). split; [auto|]. split; [auto|]. intros H.
      destruct (B3 H) as [[]|Ho']. right. change (In x (oksub L2)). rewrite A3. exact Ho'.
    + assert (Hi : In x (inprog s)) by (apply V, Pt_fst, Hx).
      split; [apply (i_init g s I); auto|]. split; [exact (i_dj_ir g s I x Hi)|auto].
  - intros x Hx. unfold nsubL in Hx. change (nsub (set_check L2 (lchk L2) (succ L2))) with (nsub L2) in Hx.
    rewrite A4 in Hx. destruct (K4 x Hx) as [H|H]; [|right; exact H].
    left. change (In x (oksub L2)). rewrite A3. exact H.
  - intros x Hx. change (In x (oksub L2)) in Hx. rewrite A3 in Hx. change (oksub L1) with (oksub L) in Hx.
    rewrite Ho in Hx. destruct Hx.
Qed.

Section P8.
Variables (c : cfg) (g : graph) (p : pin) (L0 : base).
Notation ledS := (led c g p L0).
Notation cleanS := (clean c g p L0).
Notation cleanBS := (cleanB c g p L0).
Hypothesis W : WF g.

Lemma fold_reports_k : dry c = false -> forall reps s cl ca,
  disp_inv c g p L0 reps s cl ca -> X c s -> R2 (acc cl ca) s -> cleanBS s -> K reps s (ledS s) ->
  let '(s', cl', ca') := fold_left (handle_report_gen c g) reps (s, cl, ca) in
  cleanBS s' /\ K [] s' (ledS s').
Proof.
  intros Hd. induction reps as [|r reps IH]; intros s cl ca D Xs Rs Cl Kh; cbn [fold_left]; [auto|].
  pose proof (handle_report_spec c g p L0 W Hd r reps s cl ca D) as D1.
  pose proof (handle_report_x c g W p L0 r reps s cl ca Hd D Xs Rs) as H1.
  pose proof (handle_report_k c g p L0 W r reps s cl ca Hd D Xs Rs Cl Kh) as K1.
  destruct (handle_report_gen c g (s, cl, ca) r) as [[s1 cl1] ca1].
  destruct H1 as (X1 & R1 & _). destruct K1 as [C1 K1]. apply IH; auto.
Qed.

Lemma sweep_failed_ni l s y : stat s y <> INITIALIZED -> stat (mark_failed_list l s) y <> INITIALIZED.
Proof.
  intros H. destruct (mfl_view l s) as (_ & M2 & M3 & _).
  destruct (in_dec Nat.eq_dec y l) as [Hi|Hi].
  - destruct (M3 y Hi) as [E|E]; rewrite E; auto. discriminate.
  - rewrite M2; auto.
Qed.
Lemma sweep_cancelled_ni l s y : stat s y <> INITIALIZED -> stat (mark_cancelled_list l s) y <> INITIALIZED.
Proof.
  intros H. destruct (mcl_view l s) as (_ & M2 & M3 & _).
  destruct (in_dec Nat.eq_dec y l) as [Hi|Hi].
  - destruct (M3 y Hi) as [E|E]; rewrite E; auto. discriminate.
  - rewrite M2; auto.
Qed.

Lemma dispatch_k reps s :
  dry c = false -> Inv g s -> Thr c s -> cleanS s -> J false (tpend reps) (pfin reps) s (ledS s) ->
  NoDup (map fst reps) -> (forall y, In y (map fst reps) -> In y (inprog s)) ->
  X c s -> R2 nobody s -> cleanBS s -> K reps s (ledS s) ->
  cleanBS (dispatch_gen c g reps s) /\ K [] (dispatch_gen c g reps s) (ledS (dispatch_gen c g reps s)).
Proof.
  intros Hd I T Cl Jh ND RI Xs Rs ClB Kh. unfold dispatch_gen.
  assert (D0 : disp_inv c g p L0 reps s [] []).
  { repeat (split; [assumption|]). intros y [[]|[]]. }
  assert (R0 : R2 (acc [] []) s).
  { intros y Hy. destruct (Rs y Hy) as [?|[?|[]]]; auto. }
  pose proof (fold_reports_k Hd reps s [] [] D0 Xs R0 ClB Kh) as FK.
  destruct (fold_left (handle_report_gen c g) reps (s, [], [])) as [[s1 cl] ca].
  destruct FK as [C1 K1].
  destruct (mark_failed_list_frame cl s1) as (F1 & F2 & F3 & F4 & F5 & F6 & F7 & F8).
  set (s2 := mark_failed_list cl s1) in *.
  destruct (mark_cancelled_list_frame ca s2) as (G1 & G2 & G3 & G4 & G5 & G6 & G7 & G8).
  set (s3 := mark_cancelled_list ca s2) in *.
  assert (E3 : evs s3 = evs s1) by congruence.
  split; [apply (cleanB_frame c g p L0 s1 s3 E3); exact C1|].
  rewrite (led_frame c g p L0 s1 s3 E3).
  apply (K_grow [] s1 s3); auto.
  - intros y Hy. apply sweep_cancelled_ni. apply sweep_failed_ni. exact Hy.
  - intros y. rewrite G2, F2. auto.
  - intros y. rewrite G3, F3. auto.
Qed.

(** staging only queues INITIALIZED steps *)
Lemma stage_node_ready s x y : In y (ready (stage_node_gen g s x)) -> In y (ready s) \/ stat s y = INITIALIZED.
Proof.
  unfold stage_node_gen. destruct (mem x (completed s)); [auto|].
  fold (stat s x). destruct (state_eqb (stat s x) INITIALIZED) eqn:Hs; [|auto].
  destruct (is_nil (getdeps (deps_prune x s) x)); [|auto].
  destruct (mem x (ready (deps_prune x s))); cbn [negb]; [auto|].
  unfold ready_push. cbn [ready set_ready deps_prune set_deps]. rewrite in_app_iff. cbn [In].
  intros [H|[<-|[]]]; auto. right. apply state_eqb_eq. exact Hs.
Qed.

Lemma stage_fold_ready l : forall s y,
  In y (ready (fold_left (stage_node_gen g) l s)) -> In y (ready s) \/ stat s y = INITIALIZED.
Proof.
  induction l as [|a l IH]; intros s y H; cbn [fold_left] in H; [auto|].
  destruct (IH _ _ H) as [H1|H1].
  - apply stage_node_ready in H1. exact H1.
  - right. destruct (stage_node_x g s a) as [(A1 & _) _]. rewrite <- A1. exact H1.
Qed.

End P8.

(** Graph facts used by the execution proofs: well-formedness in Prop form,
    reachability along [children], soundness of [bfs_subtree]. *)
From Coq Require Import Lia Relations.
From MWF Require Import Base.Util Base.UtilLemmas Exec.ExecBase.

Record WF (g : graph) : Prop := {
  wf_par_lt : forall x p, x < length g -> In p (parents (attr g x)) -> p < x;
  wf_par_child : forall x p, x < length g -> In p (parents (attr g x)) -> In x (children (attr g p));
  wf_child_lt : forall x ch, x < length g -> In ch (children (attr g x)) -> ch < length g;
  wf_child_par : forall x ch, x < length g -> In ch (children (attr g x)) -> In x (parents (attr g ch)) }.

Lemma wf_graph_WF g : wf_graph g = true -> WF g.
Proof.
  unfold wf_graph. rewrite forallb_forall. intros H.
  assert (HH : forall x, x < length g ->
     (forall p, In p (parents (attr g x)) -> p < x /\ In x (children (attr g p))) /\
     (forall ch, In ch (children (attr g x)) -> ch < length g /\ In x (parents (attr g ch)))).
  { intros x Hx. specialize (H x). rewrite In_seq_lt in H. specialize (H Hx).
    rewrite !andb_true_iff in H. destruct H as [[[H1 H2] _] _].
    rewrite forallb_forall in H1, H2. split.
    - intros p Hp. specialize (H1 p Hp). rewrite andb_true_iff, Nat.ltb_lt, mem_In in H1. exact H1.
    - intros ch Hc. specialize (H2 ch Hc). rewrite andb_true_iff, Nat.ltb_lt, mem_In in H2. exact H2. }
  constructor; intros x y Hx Hy; destruct (HH x Hx) as [A B].
  - apply A; assumption.
  - apply A; assumption.
  - apply B; assumption.
  - apply B; assumption.
Qed.

(** one step along the children table *)
Definition edge (g : graph) (a b : nat) : Prop := a < length g /\ In b (children (attr g a)).
Definition reach (g : graph) : nat -> nat -> Prop := clos_refl_trans_n1 nat (edge g).

Lemma reach_refl g x : reach g x x.
Proof. constructor. Qed.

Lemma reach_step g x y z : reach g x y -> edge g y z -> reach g x z.
Proof. intros H E. econstructor; eassumption. Qed.

Lemma reach_lt g x y : WF g -> x < length g -> reach g x y -> y < length g.
Proof.
  intros W Hx H. induction H as [|y z E R IH]; auto.
  destruct E as [Hy Hc]. eapply wf_child_lt; eauto.
Qed.

(** bfs_subtree only returns reachable nodes *)
Lemma bfs_visit_fold_sound g x cs q pth :
  (forall y, In y cs -> reach g x y) ->
  (forall y, In y q -> reach g x y) -> (forall y, In y pth -> reach g x y) ->
  let '(q', p') := fold_left bfs_visit cs (q, pth) in
  (forall y, In y q' -> reach g x y) /\ (forall y, In y p' -> reach g x y).
Proof.
  revert q pth. induction cs as [|c cs IH]; intros q pth Hcs Hq Hp; cbn.
  - split; assumption.
  - destruct (mem c pth) eqn:E.
    + apply IH; auto. intros y Hy. apply Hcs. right. exact Hy.
    + apply IH.
      * intros y Hy. apply Hcs. right. exact Hy.
      * intros y Hy. apply in_app_iff in Hy. destruct Hy as [Hy|[<-|[]]]; auto. apply Hcs. left. reflexivity.
      * intros y Hy. apply in_app_iff in Hy. destruct Hy as [Hy|[<-|[]]]; auto. apply Hcs. left. reflexivity.
Qed.

Lemma bfs_go_sound g x fuel : WF g -> x < length g -> forall q pth,
  (forall y, In y q -> reach g x y) -> (forall y, In y pth -> reach g x y) ->
  forall y, In y (bfs_go g fuel q pth) -> reach g x y.
Proof.
  intros W Hx. induction fuel as [|f IH]; intros q pth Hq Hp y Hy; cbn in Hy.
  - auto.
  - destruct q as [|r q]; [auto|].
    pose proof (bfs_visit_fold_sound g x (children (attr g r)) q pth) as HF.
    destruct (fold_left bfs_visit (children (attr g r)) (q, pth)) as [q' p'] eqn:E.
    assert (Hr : reach g x r) by (apply Hq; left; reflexivity).
    assert (A1 : forall z, In z (children (attr g r)) -> reach g x z).
    { intros z Hz. eapply reach_step; [exact Hr|]. split; [eapply reach_lt; eauto | exact Hz]. }
    assert (A2 : forall z, In z q -> reach g x z).
    { intros z Hz. apply Hq. right. exact Hz. }
    specialize (HF A1 A2 Hp). destruct HF as [A B].
    exact (IH q' p' A B y Hy).
Qed.

Lemma bfs_subtree_sound g x y : WF g -> x < length g -> In y (bfs_subtree g x) -> reach g x y.
Proof.
  intros W Hx. unfold bfs_subtree. apply bfs_go_sound; auto.
  - intros z [<-|[]]. apply reach_refl.
  - intros z [<-|[]]. apply reach_refl.
Qed.

Lemma bfs_subtree_lt g x y : WF g -> x < length g -> In y (bfs_subtree g x) -> y < length g.
Proof. intros W Hx Hy. eapply reach_lt; eauto. apply bfs_subtree_sound; auto. Qed.

(** the root is always in its own subtree *)
Lemma bfs_visit_fold_keeps cs : forall q pth y, In y pth -> In y (snd (fold_left bfs_visit cs (q, pth))).
Proof.
  induction cs as [|c cs IH]; intros q pth y Hy; cbn; auto.
  destruct (mem c pth); apply IH; auto. apply in_app_iff. left. exact Hy.
Qed.

Lemma bfs_go_keeps g fuel : forall q pth y, In y pth -> In y (bfs_go g fuel q pth).
Proof.
  induction fuel as [|f IH]; intros q pth y Hy; cbn; auto.
  destruct q as [|r q]; auto.
  pose proof (bfs_visit_fold_keeps (children (attr g r)) q pth y Hy) as K.
  destruct (fold_left bfs_visit (children (attr g r)) (q, pth)) as [q' p']. cbn in K. apply IH. exact K.
Qed.

Lemma bfs_subtree_root g x : In x (bfs_subtree g x).
Proof. unfold bfs_subtree. apply bfs_go_keeps. left. reflexivity. Qed.

(** Coupling, part 10 (extends part 8; self-contained copy): codes 43, 19, 191, 192 through one
    poll and over the whole run. *)
From Coq Require Import Lia Relations.
From MWF Require Import Base.Util Base.UtilLemmas Exec.ExecBase Exec.ExecGen Exec.ExecRun Exec.ExecTrace
  Exec.ExecGraph Exec.ExecInv Exec.ExecLedger Exec.ExecLedger2 Exec.ExecLedger3 Exec.ExecLedger4 Exec.ExecLedger5
  Exec.ExecLedger6 Exec.ExecLedger9.

(** * Delivery of the reports: the [dead] and [tdel] fields *)
Lemma deliver_dead m x v : dead (deliver m (x, Some v)) = if deadk v then sadd x (dead m) else dead m.
Proof. destruct v; reflexivity. Qed.
Lemma deliver_tdel m x v : tdel (deliver m (x, Some v)) = if state_eqb v TIMEDOUT then sadd x (tdel m) else tdel m.
Proof. destruct v; reflexivity. Qed.
Lemma deliver_scratch m r : oksub (deliver m r) = oksub m /\ nsub (deliver m r) = nsub m.
Proof. destruct r as [x [v|]]; [destruct v|]; split; reflexivity. Qed.

Lemma deliver_fold2 reps : forall m,
  (forall y, In y (dead (fold_left deliver reps m)) <-> In y (dead m) \/ Pd reps y) /\
  (forall y, In y (tdel (fold_left deliver reps m)) <-> In y (tdel m) \/ Pt reps y) /\
  oksub (fold_left deliver reps m) = oksub m /\ nsub (fold_left deliver reps m) = nsub m.
Proof.
  induction reps as [|r reps IH]; intros m; cbn [fold_left].
  - split; [|split; [|split]]; auto.
    + intros y. split; auto. intros [H|(v & [] & _)]; auto.
    + intros y. split; auto. intros [H|H]; auto. destruct H.
  - destruct (IH (deliver m r)) as (A1 & A2 & A3 & A4). destruct (deliver_scratch m r) as [S1 S2].
    destruct r as [x o]. split; [|split; [|split]]; try congruence.
    + intros y. rewrite A1, Pd_cons. destruct o as [v|]; [rewrite deliver_dead|].
      * destruct (deadk v) eqn:Dv.
        -- rewrite In_sadd. split.
           ++ intros [[E|H]|H]; auto. right. left. split; auto. exists v. auto.
           ++ intros [H|[[E _]|H]]; auto.
        -- split; [tauto|]. intros [H|[(_ & w & E & Dw)|H]]; auto. inversion E; subst. congruence.
      * change (dead (deliver m (x, None))) with (dead m). split; [tauto|].
        intros [H|[(_ & w & E & _)|H]]; auto. discriminate.
    + intros y. rewrite A2, Pt_cons. destruct o as [v|]; [rewrite deliver_tdel|].
      * destruct (state_eqb v TIMEDOUT) eqn:Ev.
        -- apply state_eqb_eq in Ev. subst v. rewrite In_sadd. tauto.
        -- split; [tauto|]. intros [H|[(_ & E)|H]]; auto. inversion E; subst. discriminate.
      * change (tdel (deliver m (x, None))) with (tdel m). split; [tauto|].
        intros [H|[(_ & E)|H]]; auto. discriminate.
Qed.

(** * The boundary form of the coupling *)
Record KB (s : st) (L : base) : Prop := {
  kb_dead : forall x, In x (dead L) -> gone s x;
  kb_prev : prev L = rows_of s;
  kb_tdel : tdel L = [];
  kb_oksub : oksub L = [];
  kb_nsub : forall x, nsubL L x = 0 }.

Lemma resolved_tracked c g s x : Inv g s -> X c s -> R2 nobody s ->
  In x (inprog s) \/ In x (ready s) \/ stat s x = INITIALIZED -> resolved_row (stat s x) = false.
Proof.
  intros I [XA XB] Rs H.
  destruct (resolved_row (stat s x)) eqn:E; [exfalso|reflexivity].
  assert (HH : In x (completed s) \/ In x (failed s) \/ In x (cancelled s)).
  { destruct (stat s x) eqn:Es; try discriminate E.
    - left. apply XA. auto.
    - right. destruct (Rs x) as [?|[?|[]]]; auto. rewrite Es. reflexivity.
    - right. destruct (Rs x) as [?|[?|[]]]; auto. rewrite Es. reflexivity.
    - left. apply XA. auto. }
  destruct H as [H|[H|H]].
  - destruct HH as [HH|HH]; [exact (i_dj_ci g s I x HH H)|]. destruct (i_dj_fc g s I x HH) as (_ & F & _). contradiction.
  - destruct HH as [HH|HH]; [exact (i_dj_cr g s I x HH H)|]. destruct (i_dj_fc g s I x HH) as (_ & _ & F). contradiction.
  - rewrite H in E. discriminate.
Qed.

Lemma KB_K c g s L : Inv g s -> X c s -> R2 nobody s -> KB s L -> K [] s L.
Proof.
  intros I Xs Rs [B1 B2 B3 B4 B5]. constructor.
  - intros x Hx. destruct (B1 x Hx) as (G1 & G2 & G3). split; [auto|]. split; [auto|]. intros H. contradiction.
  - intros x Hx. rewrite B2, row_status_rows. eapply resolved_tracked; eauto.
  - intros x Hx. rewrite B3 in Hx. destruct Hx.
  - intros x Hx. rewrite B5 in Hx. lia.
  - intros x Hx. rewrite B4 in Hx. destruct Hx.
  - intros x Hx. rewrite B4 in Hx. destruct Hx.
Qed.

(** [K] does not read the cancel flag, the event log, the submission script *)
Lemma K_state rest s s' L : K rest s L -> (forall y, stat s' y = stat s y) ->
  inprog s' = inprog s -> ready s' = ready s -> K rest s' L.
Proof.
  intros [K1 K2 K3 K4 K5 K6] E1 E2 E3.
  constructor; unfold gone in *; intros x; rewrite ?E1, ?E2, ?E3; auto.
Qed.
Lemma K_ledger rest s L L' : K rest s L -> dead L' = dead L -> prev L' = prev L -> tdel L' = tdel L ->
  oksub L' = oksub L -> nsub L' = nsub L -> K rest s L'.
Proof.
  intros [K1 K2 K3 K4 K5 K6] E1 E2 E3 E4 E5.
  constructor; unfold nsubL in *; intros x; rewrite ?E1, ?E2, ?E3, ?E4, ?E5; auto.
Qed.

(** the ECheck event *)
Lemma echeck_K c g p s L js : Inv g s -> K [] s L -> oksub L = [] ->
  (qcode p = QOK -> forall y, In y (map fst (reports p)) -> In y (inprog s)) ->
  K (if qcode_eqb (qcode p) QOK then reports p else []) s (step_base c g p L (ECheck js)).
Proof.
  intros I Kh Ho V. cbn [step_base].
  destruct (qcode p) eqn:Eq; cbn [qcode_eqb]; try (eapply K_ledger; [exact Kh| | | | |]; reflexivity).
  set (L1 := set_check L (map fst (live L)) (sstage L)).
  destruct (deliver_fold2 (reports p) L1) as (A1 & A2 & A3 & A4).
  pose proof (prev_deliver_fold (reports p) L1) as A5.
  set (L2 := fold_left deliver (reports p) L1) in *.
  change (K (reports p) s (set_check L2 (lchk L2) (succ L2))).
  destruct Kh as [K1 K2 K3 K4 K5 K6]. specialize (V eq_refl).
  constructor.
  - intros x Hx. change (In x (dead L2)) in Hx. apply A1 in Hx. destruct Hx as [Hx|Hx].
    + destruct (K1 x Hx) as (B1 & B2 & B3). split; [auto|]. split; [auto|]. intros H. destruct (B3 H) as (v & [] & _).
    + assert (Hi : In x (inprog s)) by (apply V, Pd_fst, Hx).
      split; [apply (i_init g s I); auto|]. split; [exact (i_dj_ir g s I x Hi)|auto].
  - intros x Hx. change (resolved_row (row_status (prev L2) x) = false). rewrite A5. apply K2. exact Hx.
  - intros x Hx. change (In x (tdel L2)) in Hx. apply A2 in Hx. destruct Hx as [Hx|Hx].
    + destruct (K3 x Hx) as (B1 & B2 & B3). split; [auto|]. split; [auto|]. intros H.
      destruct (B3 H) as [[]|Ho']. right. change (In x (oksub L2)). rewrite A3. exact Ho'.
    + assert (Hi : In x (inprog s)) by (apply V, Pt_fst, Hx).
      split; [apply (i_init g s I); auto|]. split; [exact (i_dj_ir g s I x Hi)|auto].
  - intros x Hx. unfold nsubL in Hx. change (nsub (set_check L2 (lchk L2) (succ L2))) with (nsub L2) in Hx.
    rewrite A4 in Hx. destruct (K4 x Hx) as [H|H]; [|right; exact H].
    left. change (In x (oksub L2)). rewrite A3. exact H.
  - intros x Hx. change (In x (oksub L2)) in Hx. rewrite A3 in Hx. change (oksub L1) with (oksub L) in Hx.
    rewrite Ho in Hx. destruct Hx.
  - intros x Hx. change (In x (oksub L2)) in Hx. rewrite A3 in Hx. change (oksub L1) with (oksub L) in Hx.
    rewrite Ho in Hx. destruct Hx.
Qed.

Section P8.
Variables (c : cfg) (g : graph) (p : pin) (L0 : base).
Notation ledS := (led c g p L0).
Notation cleanS := (clean c g p L0).
Notation cleanBS := (cleanB c g p L0).
Hypothesis W : WF g.

Lemma fold_reports_k : dry c = false -> forall reps s cl ca,
  disp_inv c g p L0 reps s cl ca -> X c s -> R2 (acc cl ca) s -> cleanBS s -> K reps s (ledS s) ->
  let '(s', cl', ca') := fold_left (handle_report_gen c g) reps (s, cl, ca) in
  cleanBS s' /\ K [] s' (ledS s').
Proof.
  intros Hd. induction reps as [|r reps IH]; intros s cl ca D Xs Rs Cl Kh; cbn [fold_left]; [auto|].
  pose proof (handle_report_spec c g p L0 W Hd r reps s cl ca D) as D1.
  pose proof (handle_report_x c g W p L0 r reps s cl ca Hd D Xs Rs) as H1.
  pose proof (handle_report_k c g p L0 W r reps s cl ca Hd D Xs Rs Cl Kh) as K1.
  destruct (handle_report_gen c g (s, cl, ca) r) as [[s1 cl1] ca1].
  destruct H1 as (X1 & R1 & _). destruct K1 as [C1 K1]. apply IH; auto.
Qed.

Lemma sweep_failed_ni l s y : stat s y <> INITIALIZED -> stat (mark_failed_list l s) y <> INITIALIZED.
Proof.
  intros H. destruct (mfl_view l s) as (_ & M2 & M3 & _).
  destruct (in_dec Nat.eq_dec y l) as [Hi|Hi].
  - destruct (M3 y Hi) as [E|E]; rewrite E; auto. discriminate.
  - rewrite M2; auto.
Qed.
Lemma sweep_cancelled_ni l s y : stat s y <> INITIALIZED -> stat (mark_cancelled_list l s) y <> INITIALIZED.
Proof.
  intros H. destruct (mcl_view l s) as (_ & M2 & M3 & _).
  destruct (in_dec Nat.eq_dec y l) as [Hi|Hi].
  - destruct (M3 y Hi) as [E|E]; rewrite E; auto. discriminate.
  - rewrite M2; auto.
Qed.

Lemma dispatch_k reps s :
  dry c = false -> Inv g s -> Thr c s -> cleanS s -> J false (tpend reps) (pfin reps) s (ledS s) ->
  NoDup (map fst reps) -> (forall y, In y (map fst reps) -> In y (inprog s)) ->
  X c s -> R2 nobody s -> cleanBS s -> K reps s (ledS s) ->
  cleanBS (dispatch_gen c g reps s) /\ K [] (dispatch_gen c g reps s) (ledS (dispatch_gen c g reps s)).
Proof.
  intros Hd I T Cl Jh ND RI Xs Rs ClB Kh. unfold dispatch_gen.
  assert (D0 : disp_inv c g p L0 reps s [] []).
  { repeat (split; [assumption|]). intros y [[]|[]]. }
  assert (R0 : R2 (acc [] []) s).
  { intros y Hy. destruct (Rs y Hy) as [?|[?|[]]]; auto. }
  pose proof (fold_reports_k Hd reps s [] [] D0 Xs R0 ClB Kh) as FK.
  destruct (fold_left (handle_report_gen c g) reps (s, [], [])) as [[s1 cl] ca].
  destruct FK as [C1 K1].
  destruct (mark_failed_list_frame cl s1) as (F1 & F2 & F3 & F4 & F5 & F6 & F7 & F8).
  set (s2 := mark_failed_list cl s1) in *.
  destruct (mark_cancelled_list_frame ca s2) as (G1 & G2 & G3 & G4 & G5 & G6 & G7 & G8).
  set (s3 := mark_cancelled_list ca s2) in *.
  assert (E3 : evs s3 = evs s1) by congruence.
  split; [apply (cleanB_frame c g p L0 s1 s3 E3); exact C1|].
  rewrite (led_frame c g p L0 s1 s3 E3).
  apply (K_grow [] s1 s3); auto.
  - intros y Hy. apply sweep_cancelled_ni. apply sweep_failed_ni. exact Hy.
  - intros y. rewrite G2, F2. auto.
  - intros y. rewrite G3, F3. auto.
Qed.

(** staging only queues INITIALIZED steps *)
Lemma stage_node_ready s x y : In y (ready (stage_node_gen g s x)) -> In y (ready s) \/ stat s y = INITIALIZED.
Proof.
  unfold stage_node_gen. destruct (mem x (completed s)); [auto|].
  fold (stat s x). destruct (state_eqb (stat s x) INITIALIZED) eqn:Hs; [|auto].
  destruct (is_nil (getdeps (deps_prune x s) x)); [|auto].
  destruct (mem x (ready (deps_prune x s))); cbn [negb]; [auto|].
  unfold ready_push. cbn [ready set_ready deps_prune set_deps]. rewrite in_app_iff. cbn [In].
  intros [H|[<-|[]]]; auto. right. apply state_eqb_eq. exact Hs.
Qed.

Lemma stage_fold_ready l : forall s y,
  In y (ready (fold_left (stage_node_gen g) l s)) -> In y (ready s) \/ stat s y = INITIALIZED.
Proof.
  induction l as [|a l IH]; intros s y H; cbn [fold_left] in H; [auto|].
  destruct (IH _ _ H) as [H1|H1].
  - apply stage_node_ready in H1. exact H1.
  - right. destruct (stage_node_x g s a) as [(A1 & _) _]. rewrite <- A1. exact H1.
Qed.

(** the launch loop *)
Lemma launch_body_k d s : dry c = d -> qinv c g p L0 d s -> X c s -> R2 nobody s ->
  cleanBS s -> K [] s (ledS s) ->
  cleanBS (launch_body_gen c g s) /\ K [] (launch_body_gen c g s) (ledS (launch_body_gen c g s)).
Proof.
  intros Hd (I & _ & _) Xs Rs Cl Kh.
  pose proof (launch_body_x c g W s I Xs Rs) as LB. cbv zeta in LB. destruct LB as (_ & _ & SRs & RD & HD).
  unfold launch_body_gen in *.
  destruct (ready s) as [|x rest] eqn:Er; [auto|].
  assert (Hxr : In x (ready s)) by (rewrite Er; left; reflexivity).
  assert (Hxi : ~ In x (inprog s)) by (intros H; exact (i_dj_ir g s I x H Hxr)).
  assert (Hxn : ~ In x rest).
  { pose proof (i_nd_ready g s I) as N. rewrite Er in N. inversion N; assumption. }
  cbn [tl hd_error] in *.
  set (s1 := set_ready s rest) in *. change (canceled s1) with (canceled s) in *.
  destruct (canceled s).
  - set (s' := cancelled_add x (rec_set_status x CANCELLED s1)) in *.
    split; [apply (cleanB_frame c g p L0 s s'); [reflexivity|exact Cl]|].
    rewrite (led_frame c g p L0 s s') by reflexivity.
    apply (K_grow [] s s'); auto.
    + apply (sr_ni _ _ SRs).
    + intros y Hy. left. rewrite Er. right. exact Hy.
  - assert (C1 : cleanBS s1) by (apply (cleanB_frame c g p L0 s s1); [reflexivity|exact Cl]).
    assert (L1 : ledS s1 = ledS s) by (apply led_frame; reflexivity).
    assert (P1 : pre43 c g p L0 x s1).
    { unfold pre43. rewrite L1. destruct Kh as [K1 K2 K3 K4 K5 K6]. split; [apply K2; auto|]. split.
      - apply mem_false. intros Hdd. destruct (K1 x Hdd) as (_ & B2 & _). contradiction.
      - apply mem_false. intros Ho. destruct (K6 x Ho) as (_ & B2). contradiction. }
    assert (N1 : nsubL (ledS s1) x = 0).
    { rewrite L1. destruct (Nat.eq_dec (nsubL (ledS s) x) 0) as [E|E]; [exact E|exfalso].
      destruct (k_nsub _ _ _ Kh x ltac:(lia)) as [Ho|(_ & _ & Hg)]; [|contradiction].
      destruct (k_oks _ _ _ Kh x Ho) as (_ & B2). contradiction. }
    destruct (execute_record_k c g p L0 x false s1 C1 P1 N1) as (G1 & G2 & G3).
    destruct (on_led c g p L0 x s1 _ G2) as (O1 & O2 & O3 & O4 & O5 & O6). rewrite L1 in *.
    set (s' := execute_record_gen c g x false s1) in *.
    split; [exact G1|].
    apply (K_launch x s s' (ledS s) (ledS s')); auto.
    + apply (sr_ni _ _ SRs).
    + intros y Hn. unfold s'. rewrite execute_record_inprog by auto. reflexivity.
    + intros y Hy. rewrite RD in Hy. split; [rewrite Er; right; exact Hy|]. intros ->. contradiction.
    + assert (GN : ~ In x (inprog s') -> gone s' x).
      { intros H. split; [apply (HD x eq_refl)|]. split; [exact H|]. rewrite RD. exact Hxn. }
      destruct G3 as [G3|[G3|[_ G3]]]; [left; exact G3|right; auto|].
      right. apply GN. rewrite G3. exact Hxi.
Qed.

Lemma launch_iter_k d n s : dry c = d -> qinv c g p L0 d s ->
  (throttle c > 0 -> length (inprog s) + n <= throttle c) -> X c s -> R2 nobody s ->
  cleanBS s -> K [] s (ledS s) ->
  cleanBS (Nat.iter n (launch_body_gen c g) s) /\
  K [] (Nat.iter n (launch_body_gen c g) s) (ledS (Nat.iter n (launch_body_gen c g) s)).
Proof.
  intros Hd Q TB Xs Rs Cl Kh. induction n as [|n IH]; [cbn; auto|].
  change (Nat.iter (S n) (launch_body_gen c g) s) with (launch_body_gen c g (Nat.iter n (launch_body_gen c g) s)).
  assert (TBn : throttle c > 0 -> length (inprog s) + n <= throttle c) by (intros H; specialize (TB H); lia).
  destruct (IH TBn) as [C1 K1].
  destruct (launch_iter_spec c g p L0 W d n s Hd Q TBn) as [Qn _].
  pose proof (launch_iter_x c g W p L0 d n s Hd Q TBn Xs Rs) as LX. cbv zeta in LX. destruct LX as (Xn & Rn & _).
  apply (launch_body_k d); auto.
Qed.

Lemma tail_k d s2 : dry c = d -> qinv c g p L0 d s2 -> Thr c s2 -> X c s2 -> R2 nobody s2 ->
  cleanBS s2 -> K [] s2 (ledS s2) ->
  let s3 := fold_left (stage_node_gen g) (seq 0 (length g)) s2 in
  let s4 := Nat.iter (available_gen c s3) (launch_body_gen c g) s3 in
  cleanBS s4 /\ K [] s4 (ledS s4).
Proof.
  intros Hd Q2 T2 X2 R2' Cl Kh. cbv zeta.
  destruct (stage_fold_spec c g p L0 d (seq 0 (length g)) (fun x Hx => proj1 (In_seq_lt x (length g)) Hx) s2 Q2)
    as (Q3 & E1 & E2 & E3).
  destruct (stage_fold_x g (seq 0 (length g)) s2) as [SR3 _].
  pose proof (stage_fold_ready (seq 0 (length g)) s2) as RD3.
  set (s3 := fold_left (stage_node_gen g) (seq 0 (length g)) s2) in *.
  destruct (stage_rel_SR c s2 s3 SR3 X2 R2') as (X3 & R3 & S3).
  pose proof SR3 as (A1 & A2 & A3 & A4 & A5 & _).
  assert (AV : throttle c > 0 -> length (inprog s3) + available_gen c s3 <= throttle c).
  { intros Ht. unfold available_gen. destruct (throttle c =? 0) eqn:E; [apply Nat.eqb_eq in E; lia|].
    rewrite E1. specialize (T2 Ht). lia. }
  apply (launch_iter_k d); auto.
  - apply (cleanB_frame c g p L0 s2 s3 A5). exact Cl.
  - rewrite (led_frame c g p L0 s2 s3 A5). apply (K_grow [] s2 s3); auto.
    + intros y. rewrite A1. auto.
    + intros y. rewrite E1. auto.
Qed.

Lemma execute_ready_steps_k d s : dry c = d -> qinv c g p L0 d s -> Thr c s -> valid_pin s p = true ->
  X c s -> R2 nobody s -> cleanBS s -> K [] s (ledS s) -> oksub (ledS s) = [] ->
  cleanBS (fst (execute_ready_steps_gen c g p s)) /\
  K [] (fst (execute_ready_steps_gen c g p s)) (ledS (fst (execute_ready_steps_gen c g p s))).
Proof.
  intros Hd Q T V Xs Rs ClB Kh Ho. unfold execute_ready_steps_gen.
  destruct (dry c) eqn:Hdry; cbn [negb]; subst d.
  - cbn [qcode_eqb]. change (dispatch_gen c g [] s) with s. cbn [fst].
    apply (tail_k true); auto.
  - pose proof Q as (I & Cl & Jh).
    set (e := ECheck (map (lastjob s) (inprog s))).
    assert (I1 : Inv g (emit e s)) by (eapply Inv_fields; [| | | | | | |exact I]; reflexivity).
    assert (Cl1 : cleanS (emit e s)).
    { apply clean_emit. split; [exact Cl|]. cbn [evA e]. apply same_jobs_J; [apply (i_nd_inprog g s I)|apply Jh]. }
    pose proof (echeck_J c g p s (ledS s) (map (lastjob s) (inprog s)) Jh) as J1.
    fold e in J1. rewrite <- led_emit in J1.
    assert (J1' : J false (tpend (if qcode_eqb (qcode p) QOK then reports p else []))
                    (pfin (if qcode_eqb (qcode p) QOK then reports p else [])) (emit e s) (ledS (emit e s))).
    { destruct J1 as [Jl Js]. split.
      - eapply JL_frame; [| | | | |exact Jl]; auto; tauto.
      - eapply JS_frame; [| |exact Js]; auto; tauto. }
    clear J1. rename J1' into J1.
    assert (Xa : X c (emit e s)) by (apply (X_quiet c s); auto).
    assert (Ra : R2 nobody (emit e s)) by (apply (R2_quiet nobody s); auto).
    assert (Ca : cleanBS (emit e s)) by (apply cleanB_emit; split; [exact ClB|exact Logic.I]).
    assert (Ka : K (if qcode_eqb (qcode p) QOK then reports p else []) (emit e s) (ledS (emit e s))).
    { rewrite led_emit. apply (K_state _ s); auto.
      apply echeck_K; auto. intros Eq. apply (valid_pin_spec s p V Eq). }
    assert (NONE : J false (tpend []) (pfin []) (emit e s) (ledS (emit e s)) -> J false none none (emit e s) (ledS (emit e s))).
    { intros [Jl Js]. split.
      - eapply JL_ext; [|exact Jl]. intros y _. split; [intros (v & [] & _)|intros []].
      - eapply JS_ext; [|exact Js]. intros y. split; intros []. }
    destruct (qcode p) eqn:Eq; cbn [qcode_eqb] in *.
    + destruct (valid_pin_spec s p V Eq) as [ND RI].
      pose proof (dispatch_spec c g p L0 W Hdry (reports p) (emit e s) I1 T Cl1 J1 ND RI) as DS.
      cbv zeta in DS. destruct DS as (I2 & T2 & Cl2 & J2).
      destruct (dispatch_x c g W p L0 (reports p) (emit e s) Hdry I1 T Cl1 J1 ND RI Xa Ra) as (X2 & R2' & S2).
      destruct (dispatch_k (reports p) (emit e s) Hdry I1 T Cl1 J1 ND RI Xa Ra Ca Ka) as (C2 & K2).
      cbn [fst]. apply (tail_k false); auto. split; [exact I2|split; [exact Cl2|exact J2]].
    + cbn [fst]. apply (tail_k false); auto. split; [exact I1|split; [exact Cl1|exact (NONE J1)]].
    + cbn [fst]. split; [exact Ca|exact Ka].
Qed.

(** one iteration of monitor_study, from the boundary form *)
Lemma poll_k d s : dry c = d -> Inv g s -> Thr c s -> J d none none s L0 -> valid_pin s p = true ->
  X c s -> R2 nobody s -> KB s L0 ->
  cleanBS (fst (poll c g s p)) /\ K [] (fst (poll c g s p)) (ledS (fst (poll c g s p))).
Proof.
  intros Hd I T Jh V Xs Rs Kb. unfold poll.
  set (s0 := set_evs (set_subs s (psubs p)) []).
  assert (Q0 : qinv c g p L0 d s0).
  { split; [eapply Inv_fields; [| | | | | | |exact I]; reflexivity|]. split; [exact Logic.I|].
    change (ledS s0) with L0. destruct Jh as [Jl Js]. split.
    - eapply JL_frame; [| | | | |exact Jl]; auto; tauto.
    - eapply JS_frame; [| |exact Js]; auto; tauto. }
  assert (X0 : X c s0) by (apply (X_quiet c s); auto).
  assert (R0 : R2 nobody s0) by (apply (R2_quiet nobody s); auto).
  assert (K0 : K [] s0 (ledS s0)).
  { change (ledS s0) with L0. apply (K_state [] s); auto. apply (KB_K c g); auto. }
  assert (C0 : cleanBS s0) by exact Logic.I.
  assert (O0 : oksub (ledS s0) = []) by (change (ledS s0) with L0; apply (kb_oksub _ _ Kb)).
  destruct (cancel_req p).
  - destruct (cancel_study_spec c g p L0 d s0 Q0) as [Q1 E1].
    unfold cancel_study_gen in *.
    set (e := ECancel (map (lastjob s0) (inprog s0))) in *.
    set (s0' := set_canceled (emit e s0) true) in *.
    assert (L1 : ledS s0' = set_cseen L0 true).
    { rewrite (led_frame c g p L0 (emit e s0) s0') by reflexivity. rewrite led_emit. reflexivity. }
    assert (X1 : X c s0') by (apply (X_quiet c s0); auto).
    assert (R1 : R2 nobody s0') by (apply (R2_quiet nobody s0); auto).
    assert (C1 : cleanBS s0').
    { apply (cleanB_frame c g p L0 (emit e s0) s0'); [reflexivity|]. apply cleanB_emit. split; [exact C0|exact Logic.I]. }
    assert (K1 : K [] s0' (ledS s0')).
    { rewrite L1. apply (K_state [] s0); auto. eapply K_ledger; [exact K0| | | | |]; reflexivity. }
    assert (O1 : oksub (ledS s0') = []) by (rewrite L1; exact O0).
    apply (execute_ready_steps_k d); assumption.
  - apply (execute_ready_steps_k d); auto.
Qed.

End P8.

(** * The monitor: codes 43, 19, 191, 192 *)
Lemma step_ev_foldB c g p es k : In k famB -> forall m,
  ~ In k (viol m) -> evsB c g p (mb m) es -> ~ In k (viol (fold_left (step_ev c g p) es m)).
Proof.
  intros Hk. induction es as [|e es IH]; intros m Hv; cbn [fold_left evsB]; [auto|].
  intros [E1 E2]. apply IH; auto.
  cbn [step_ev viol]. rewrite in_app_iff. intros [H|H]; [contradiction|].
  exact (evB_flags c g p (mb m) e k E1 Hk H).
Qed.

Lemma flags_end_B c g p m rows stat k : In k famB -> ~ In k (flags_end c g p m rows stat).
Proof.
  intros Hk Hin. unfold flags_end in Hin. cbv zeta in Hin.
  repeat (apply in_app_iff in Hin; destruct Hin as [Hin|Hin];
          [apply ck_codes in Hin; subst k; cbn in Hk; intuition discriminate|]).
  apply ck_codes in Hin. subst k. cbn in Hk. intuition discriminate.
Qed.

Lemma fold_sadd_if (f : nat -> bool) l : forall d y,
  In y (fold_left (fun d x => if f x then sadd x d else d) l d) -> In y d \/ (In y l /\ f y = true).
Proof.
  induction l as [|a l IH]; intros d y H; cbn [fold_left] in H; [auto|].
  apply IH in H. destruct H as [H|[H1 H2]]; [|right; split; [right|]; auto].
  destruct (f a) eqn:E; [|auto]. apply In_sadd in H. destruct H as [->|H]; auto. right. split; [left|]; auto.
Qed.
Lemma fold_sadd_unless (f : nat -> bool) l : forall d y,
  In y (fold_left (fun d x => if f x then d else sadd x d) l d) -> In y d \/ (In y l /\ f y = false).
Proof.
  induction l as [|a l IH]; intros d y H; cbn [fold_left] in H; [auto|].
  apply IH in H. destruct H as [H|[H1 H2]]; [|right; split; [right|]; auto].
  destruct (f a) eqn:E; [auto|]. apply In_sadd in H. destruct H as [->|H]; auto. right. split; [left|]; auto.
Qed.

Lemma dead_end_In g m y : In y (dead_end g m) ->
  In y (dead m) \/ (In y (tdel m) /\ ~ In y (oksub m)) \/ (0 < nsubL m y /\ ~ In y (oksub m)).
Proof.
  unfold dead_end. intros H. apply fold_sadd_if in H. destruct H as [H|[_ H]].
  - apply fold_sadd_unless in H. destruct H as [H|[H1 H2]]; auto. right. left. split; auto. apply mem_false. exact H2.
  - right. right. apply andb_true_iff in H. destruct H as [H1 H2]. apply Nat.ltb_lt in H1.
    apply negb_true_iff, mem_false in H2. auto.
Qed.

Lemma nth_map_zero {A} (l : list A) : forall x, nth x (map (fun _ => 0) l) 0 = 0.
Proof. induction l as [|a l IH]; intros [|x]; cbn; auto. Qed.

Lemma K_KB c g s L rows : K [] s L -> rows = rows_of s -> KB s (end_base c g L rows).
Proof.
  intros [K1 K2 K3 K4 K5 K6] ->. constructor; cbn [end_base dead prev tdel oksub nsub]; auto.
  - intros x Hx. apply dead_end_In in Hx. destruct Hx as [Hx|[[Hx Ho]|[Hx Ho]]].
    + destruct (K1 x Hx) as (B1 & B2 & B3). split; [auto|]. split; [|auto]. intros Hi. destruct (B3 Hi) as (v & [] & _).
    + destruct (K3 x Hx) as (B1 & B2 & B3). split; [auto|]. split; [|auto]. intros Hi. destruct (B3 Hi) as [[]|H]. contradiction.
    + destruct (K4 x Hx) as [H|H]; [contradiction|exact H].
  - intros x. unfold nsubL. cbn [nsub end_base]. apply nth_map_zero.
Qed.

Lemma KB_init g : KB (init g) (base0 g).
Proof.
  constructor; cbn; auto.
  - intros x [].
  - unfold rows_of. cbn [recs init]. rewrite map_map. reflexivity.
  - intros x. unfold nsubL. cbn [nsub base0]. apply nth_map_zero.
Qed.

Lemma KB_req p es s m : KB s (mb m) -> KB (req_state p s) (mb (pre_poll p es m)).
Proof.
  intros [B1 B2 B3 B4 B5]. rewrite pre_poll_mb. unfold req_state. destruct (cancel_req p); constructor; auto.
Qed.

Lemma step_poll_B c g m p s :
  WF g -> B c g s m -> KB s (mb m) -> valid_pin s p = true -> (forall k, In k famB -> ~ In k (viol m)) ->
  let s1 := fst (poll c g s p) in
  let m' := step_poll c g m (p, (rev (evs s1), rows_of s1, snd (poll c g s p))) in
  KB s1 (mb m') /\ (forall k, In k famB -> ~ In k (viol m')).
Proof.
  intros W (I & T & Jh & Xs & Rs & Ds & Pv) Kb V Hv. cbv zeta.
  set (s1 := fst (poll c g s p)). set (r := snd (poll c g s p)).
  destruct (req_state_inv c g (dry c) p (rev (evs s1)) s m I T Jh V) as (I0 & T0 & J0 & V0).
  destruct (req_state_x c g p s Xs Rs Ds) as (X0 & R0 & D0 & _ & _).
  pose proof (KB_req p (rev (evs s1)) s m Kb) as Kb0.
  set (m0 := pre_poll p (rev (evs s1)) m) in *.
  destruct (poll_k c g p (mb m0) W (dry c) (req_state p s) eq_refl I0 T0 J0 V0 X0 R0 Kb0) as [C1 K1].
  rewrite poll_req_state in *. fold s1 in C1, K1.
  assert (Hv0 : forall k, In k famB -> ~ In k (viol m0)).
  { intros k Hk. unfold m0, pre_poll. destruct (cancel_req p); [|exact (Hv k Hk)]. cbn [viol]. rewrite in_app_iff.
    intros [H|H]; [exact (Hv k Hk H)|]. apply ck_codes in H. subst k. cbn in Hk. intuition discriminate. }
  cbn [step_poll]. fold m0.
  destruct (step_ev_fold c g p (rev (evs s1)) m0) as [A _].
  set (mm := fold_left (step_ev c g p) (rev (evs s1)) m0) in *.
  split.
  - cbn [mb]. apply K_KB; [|reflexivity]. rewrite A. exact K1.
  - intros k Hk. cbn [viol]. rewrite in_app_iff. intros [H|H].
    + exact (step_ev_foldB c g p (rev (evs s1)) k Hk m0 (Hv0 k Hk) C1 H).
    + exact (flags_end_B c g p (mb mm) (rows_of s1) r k Hk H).
Qed.

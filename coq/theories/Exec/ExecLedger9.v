(** Coupling, part 9 (extends part 7; self-contained copy): codes 43, 19, 191, 192 --
    no submit call for a resolved / dead step; the scheduler flag of every submit call is the
    step's; fewer than [attempts] calls per step and poll; no call after a successful one.
    Couples the state with the ledger fields [dead], [tdel], [oksub], [nsub], [prev]. *)
From Coq Require Import Lia Relations.
From MWF Require Import Base.Util Base.UtilLemmas Exec.ExecBase Exec.ExecGen Exec.ExecRun Exec.ExecTrace
  Exec.ExecGraph Exec.ExecInv Exec.ExecLedger Exec.ExecLedger2 Exec.ExecLedger3 Exec.ExecLedger4 Exec.ExecLedger5.

Definition deadk (v : State) : bool := match v with FAILED | UNKNOWN | CANCELLED => true | _ => false end.
Definition Pd (rest : list (nat * option State)) (x : nat) : Prop := exists v, In (x, Some v) rest /\ deadk v = true.
Definition Pt (rest : list (nat * option State)) (x : nat) : Prop := In (x, Some TIMEDOUT) rest.
Definition gone (s : st) (x : nat) : Prop := stat s x <> INITIALIZED /\ ~ In x (inprog s) /\ ~ In x (ready s).
Definition nsubL (L : base) (x : nat) : nat := nth x (nsub L) 0.

Record K (rest : list (nat * option State)) (s : st) (L : base) : Prop := {
  k_dead : forall x, In x (dead L) ->
             stat s x <> INITIALIZED /\ ~ In x (ready s) /\ (In x (inprog s) -> Pd rest x);
  k_prev : forall x, In x (inprog s) \/ In x (ready s) \/ stat s x = INITIALIZED ->
             resolved_row (row_status (prev L) x) = false;
  k_tdel : forall x, In x (tdel L) ->
             stat s x <> INITIALIZED /\ ~ In x (ready s) /\ (In x (inprog s) -> Pt rest x \/ In x (oksub L));
  k_nsub : forall x, 0 < nsubL L x -> In x (oksub L) \/ gone s x;
  k_ok : forall x, In x (oksub L) -> ~ In x (map fst rest);
  k_oks : forall x, In x (oksub L) -> stat s x <> INITIALIZED /\ ~ In x (ready s) }.

(** per-event condition for the codes 43, 19, 191, 192 *)
Definition famB : list nat := [43; 19; 191; 192].
Definition evB (c : cfg) (g : graph) (L : base) (e : event) : Prop :=
  match e with
  | ESubmit x _ sched _ =>
      resolved_row (row_status (prev L) x) = false /\ mem x (dead L) = false /\
      sched = scheduled (attr g x) /\ nsubL L x < attempts c /\ mem x (oksub L) = false
  | _ => True
  end.
Fixpoint evsB (c : cfg) (g : graph) (p : pin) (L : base) (es : list event) : Prop :=
  match es with
  | [] => True
  | e :: es' => evB c g L e /\ evsB c g p (step_base c g p L e) es'
  end.
Lemma evsB_app c g p es1 : forall L es2,
  evsB c g p L (es1 ++ es2) <-> evsB c g p L es1 /\ evsB c g p (fold_left (step_base c g p) es1 L) es2.
Proof. induction es1 as [|e es1 IH]; intros L es2; cbn; [tauto|]. rewrite IH. tauto. Qed.

Lemma evB_flags c g p L e k : evB c g L e -> In k famB -> ~ In k (flags_ev c g p L e).
Proof.
  intros H Hk Hin. destruct e as [js|js|x|x kd sched res]; cbn [flags_ev evB] in H, Hin.
  - repeat (apply in_app_iff in Hin; destruct Hin as [Hin|Hin]); apply ck_codes in Hin; subst k;
      cbn in Hk; intuition discriminate.
  - repeat (apply in_app_iff in Hin; destruct Hin as [Hin|Hin]); apply ck_codes in Hin; subst k;
      cbn in Hk; intuition discriminate.
  - apply ck_codes in Hin; subst k; cbn in Hk; intuition discriminate.
  - destruct H as (H1 & H2 & H3 & H4 & H5).
    repeat (apply in_app_iff in Hin; destruct Hin as [Hin|Hin];
            [apply ck_In in Hin; destruct Hin as [A ->]|]).
    all: try (cbn in Hk; intuition discriminate).
    + rewrite H1, H2 in A. discriminate.
    + rewrite H3, Bool.eqb_reflx in A. discriminate.
    + apply Nat.ltb_lt in H4. unfold nsubL in H4. rewrite H4 in A. discriminate.
    + rewrite H5 in A. discriminate.
    + apply in_app_iff in Hin. destruct Hin as [Hin|Hin].
      * destruct kd; repeat (apply in_app_iff in Hin; destruct Hin as [Hin|Hin]);
          apply ck_codes in Hin; subst k; cbn in Hk; intuition discriminate.
      * destruct res as [j|]; [|destruct Hin].
        repeat (apply in_app_iff in Hin; destruct Hin as [Hin|Hin]); apply ck_codes in Hin; subst k;
          cbn in Hk; intuition discriminate.
Qed.

(** events that concern one node only *)
Definition ev_on (x : nat) (e : event) : Prop :=
  match e with EGen y => y = x | ESubmit y _ _ _ => y = x | _ => False end.

Lemma nsubL_upd L x y f : nth y (upd x f (nsub L)) 0 = if Nat.eqb y x then nth y (upd x f (nsub L)) 0 else nsubL L y.
Proof. destruct (Nat.eqb_spec y x) as [->|Hn]; auto. unfold nsubL. apply nth_upd_neq. auto. Qed.

Lemma on_step c g p x L e : ev_on x e ->
  dead (step_base c g p L e) = dead L /\ prev (step_base c g p L e) = prev L /\
  tdel (step_base c g p L e) = tdel L /\
  (forall y, y <> x -> nsubL (step_base c g p L e) y = nsubL L y) /\
  (forall y, In y (oksub (step_base c g p L e)) -> y = x \/ In y (oksub L)) /\
  (forall y, In y (oksub L) -> In y (oksub (step_base c g p L e))).
Proof.
  destruct e as [js|js|y|y k sched res]; cbn [ev_on]; try tauto; intros ->.
  assert (N : forall z, z <> x -> nth z (upd x S (nsub L)) 0 = nth z (nsub L) 0) by (intros z Hz; apply nth_upd_neq; auto).
  destruct res as [j|]; [destruct sched|]; cbn; unfold nsubL; cbn; repeat split; auto;
    intros z Hz; rewrite ?In_sadd in *; auto.
Qed.

Lemma on_fold c g p x l : Forall (ev_on x) l -> forall L,
  dead (fold_left (step_base c g p) l L) = dead L /\ prev (fold_left (step_base c g p) l L) = prev L /\
  tdel (fold_left (step_base c g p) l L) = tdel L /\
  (forall y, y <> x -> nsubL (fold_left (step_base c g p) l L) y = nsubL L y) /\
  (forall y, In y (oksub (fold_left (step_base c g p) l L)) -> y = x \/ In y (oksub L)) /\
  (forall y, In y (oksub L) -> In y (oksub (fold_left (step_base c g p) l L))).
Proof.
  induction 1 as [|e l He Hl IH]; intros L; cbn [fold_left]; [repeat split; auto|].
  destruct (on_step c g p x L e He) as (A1 & A2 & A3 & A4 & A5 & A6).
  destruct (IH (step_base c g p L e)) as (B1 & B2 & B3 & B4 & B5 & B6).
  split; [congruence|]. split; [congruence|]. split; [congruence|].
  split; [intros y Hy; rewrite B4, A4; auto|].
  split; [intros y Hy; destruct (B5 y Hy); auto|auto].
Qed.

Definition ext_on (x : nat) (s s' : st) : Prop := exists l, evs s' = l ++ evs s /\ Forall (ev_on x) l.
Lemma ext_on_refl x s s' : evs s' = evs s -> ext_on x s s'.
Proof. intros E. exists []. split; [exact E|constructor]. Qed.
Lemma ext_on_trans x a b d : ext_on x a b -> ext_on x b d -> ext_on x a d.
Proof.
  intros [l1 [A5 A6]] [l2 [B5 B6]]. exists (l2 ++ l1). split; [rewrite B5, A5, app_assoc; reflexivity|].
  apply Forall_app. auto.
Qed.

Lemma on_led c g p L0 x s s' : ext_on x s s' ->
  let L := led c g p L0 s in let L' := led c g p L0 s' in
  dead L' = dead L /\ prev L' = prev L /\ tdel L' = tdel L /\
  (forall y, y <> x -> nsubL L' y = nsubL L y) /\
  (forall y, In y (oksub L') -> y = x \/ In y (oksub L)) /\
  (forall y, In y (oksub L) -> In y (oksub L')).
Proof.
  intros [l [E Q]]. cbv zeta. rewrite (led_ext c g p L0 s s' l E). apply on_fold. apply Forall_rev. exact Q.
Qed.

Section P7.
Variables (c : cfg) (g : graph) (p : pin) (L0 : base).
Notation ledS := (led c g p L0).
Definition cleanB (s : st) : Prop := evsB c g p L0 (rev (evs s)).

Lemma cleanB_emit e s : cleanB (emit e s) <-> cleanB s /\ evB c g (ledS s) e.
Proof. unfold cleanB, emit, led. cbn. rewrite evsB_app. cbn. tauto. Qed.
Lemma cleanB_frame s s' : evs s' = evs s -> cleanB s' <-> cleanB s.
Proof. unfold cleanB. intros ->. tauto. Qed.

Definition pre43 (x : nat) (s : st) : Prop :=
  resolved_row (row_status (prev (ledS s)) x) = false /\ mem x (dead (ledS s)) = false /\
  mem x (oksub (ledS s)) = false.

Lemma submit_attempts_k x restart n : forall s, cleanB s -> pre43 x s ->
  nsubL (ledS s) x + n <= attempts c ->
  cleanB (snd (submit_attempts g x restart n s)) /\ ext_on x s (snd (submit_attempts g x restart n s)) /\
  (fst (submit_attempts g x restart n s) = true -> In x (oksub (ledS (snd (submit_attempts g x restart n s))))).
Proof.
  induction n as [|n IH]; intros s Cl P43 Hn.
  - cbn. split; [exact Cl|]. split; [apply ext_on_refl; reflexivity|discriminate].
  - rewrite submit_attempts_S. cbv zeta.
    set (s2 := if scheduled (attr g x)
               then if restart then emit (EGen x) s else rec_set_status x PENDING s
               else rec_set_status x RUNNING (if restart then emit (EGen x) s else rec_set_status x PENDING s)).
    assert (S2 : cleanB s2 /\ ext_on x s s2 /\ ledS s2 = ledS s).
    { unfold s2. destruct (scheduled (attr g x)), restart.
      - split; [apply cleanB_emit; split; [exact Cl|exact I]|]. split; [|rewrite led_emit; reflexivity].
        exists [EGen x]. split; [reflexivity|repeat constructor].
      - split; [exact Cl|]. split; [apply ext_on_refl; reflexivity|reflexivity].
      - split; [apply (cleanB_frame (emit (EGen x) s)); [reflexivity|]; apply cleanB_emit; split; [exact Cl|exact I]|].
        split; [exists [EGen x]; split; [reflexivity|repeat constructor]|].
        rewrite (led_frame c g p L0 (emit (EGen x) s)) by reflexivity. rewrite led_emit. reflexivity.
      - split; [exact Cl|]. split; [apply ext_on_refl; reflexivity|reflexivity]. }
    clearbody s2. destruct S2 as (C2 & E2 & L2).
    pose proof (next_sub_frame s2) as NF. destruct (next_sub s2) as [b s3]. destruct NF as (F1 & F2 & F3 & F4).
    assert (L3 : ledS s3 = ledS s) by (rewrite <- L2; apply led_frame; exact F3).
    assert (C3 : cleanB s3) by (apply (cleanB_frame s2 s3 F3); exact C2).
    assert (E3 : ext_on x s s3).
    { eapply ext_on_trans; [exact E2|]. apply ext_on_refl. exact F3. }
    destruct P43 as (P1 & P2 & P3).
    destruct b.
    + cbn [fst snd].
      set (e := ESubmit x (if restart then Restart else Main) (scheduled (attr g x)) (Some (next_job s3))).
      set (s4 := rec_push_job x (next_job s3) (set_next_job s3 (S (next_job s3)))).
      assert (L4 : ledS s4 = ledS s) by (rewrite <- L3; apply led_frame; reflexivity).
      split; [|split].
      * apply cleanB_emit. split; [apply (cleanB_frame s3); [reflexivity|exact C3]|].
        rewrite L4. cbn [evB e]. repeat (split; [assumption|]). split; [reflexivity|]. split; [lia|assumption].
      * eapply ext_on_trans; [exact E3|]. exists [e]. split; [reflexivity|repeat constructor].
      * intros _. rewrite led_emit, L4. unfold e. cbn [step_base].
        destruct (scheduled (attr g x)); cbn; apply In_sadd; auto.
    + set (e := ESubmit x (if restart then Restart else Main) (scheduled (attr g x)) None).
      assert (C4 : cleanB (emit e s3)).
      { apply cleanB_emit. split; [exact C3|]. rewrite L3. cbn [evB e].
        repeat (split; [assumption|]). split; [reflexivity|]. split; [lia|assumption]. }
      assert (E4 : ext_on x s (emit e s3)).
      { eapply ext_on_trans; [exact E3|]. exists [e]. split; [reflexivity|repeat constructor]. }
      assert (P4 : pre43 x (emit e s3)).
      { unfold pre43. rewrite led_emit, L3. unfold e. cbn [step_base]. cbn. repeat split; assumption. }
      assert (N4 : nsubL (ledS (emit e s3)) x + n <= attempts c).
      { rewrite led_emit, L3. unfold e, nsubL. cbn [step_base]. cbn [nsub set_submit].
        assert (E : nth x (upd x S (nsub (ledS s))) 0 <= S (nth x (nsub (ledS s)) 0)).
        { destruct (Nat.lt_ge_cases x (length (nsub (ledS s)))) as [Hl|Hl].
          - rewrite nth_upd_eq by exact Hl. lia.
          - rewrite nth_upd_ge by exact Hl. lia. }
        unfold nsubL in Hn. lia. }
      destruct (IH (emit e s3) C4 P4 N4) as (G1 & G2 & G3).
      split; [exact G1|]. split; [eapply ext_on_trans; eauto|exact G3].
Qed.

Lemma execute_record_k x restart s : cleanB s -> pre43 x s -> nsubL (ledS s) x = 0 ->
  let s' := execute_record_gen c g x restart s in
  cleanB s' /\ ext_on x s s' /\
  (In x (oksub (ledS s')) \/ ~ In x (inprog s') \/ (dry c = true /\ inprog s' = inprog s)).
Proof.
  intros Cl P43 Hn0. unfold execute_record_gen.
  set (s0 := if negb restart then emit (EGen x) s else s).
  assert (S0 : cleanB s0 /\ ext_on x s s0 /\ ledS s0 = ledS s /\ inprog s0 = inprog s).
  { unfold s0. destruct restart; cbn [negb].
    - split; [exact Cl|]. split; [apply ext_on_refl; reflexivity|split; reflexivity].
    - split; [apply cleanB_emit; split; [exact Cl|exact I]|].
      split; [exists [EGen x]; split; [reflexivity|repeat constructor]|]. split; [rewrite led_emit; reflexivity|reflexivity]. }
  clearbody s0. destruct S0 as (C0 & E0 & L0' & I0).
  assert (P0 : pre43 x s0) by (unfold pre43; rewrite L0'; exact P43).
  cbv zeta. destruct (dry c) eqn:Hd.
  - split; [apply (cleanB_frame s0); [reflexivity|exact C0]|].
    split; [eapply ext_on_trans; [exact E0|]; apply ext_on_refl; reflexivity|].
    right. right. split; [reflexivity|exact I0].
  - assert (N0 : nsubL (ledS s0) x + attempts c <= attempts c) by (rewrite L0', Hn0; lia).
    destruct (submit_attempts_k x restart (attempts c) s0 C0 P0 N0) as (G1 & G2 & G3).
    destruct (submit_attempts g x restart (attempts c) s0) as [ok s1]. cbn [fst snd] in *.
    destruct ok.
    + assert (OK : In x (oksub (ledS s1))) by auto.
      destruct (negb (scheduled (attr g x))).
      * split; [apply (cleanB_frame s1); [reflexivity|exact G1]|].
        split; [eapply ext_on_trans; [exact E0|]; eapply ext_on_trans; [exact G2|]; apply ext_on_refl; reflexivity|].
        left. rewrite (led_frame c g p L0 s1) by reflexivity. exact OK.
      * split; [apply (cleanB_frame s1); [reflexivity|exact G1]|].
        split; [eapply ext_on_trans; [exact E0|]; eapply ext_on_trans; [exact G2|]; apply ext_on_refl; reflexivity|].
        left. rewrite (led_frame c g p L0 s1) by reflexivity. exact OK.
    + destruct (mark_failed_list_frame (bfs_subtree g x) (inprog_remove x s1)) as (F1 & F2 & F3 & F4 & F5 & F6 & F7 & F8).
      split; [apply (cleanB_frame s1); [exact F6|exact G1]|].
      split; [eapply ext_on_trans; [exact E0|]; eapply ext_on_trans; [exact G2|]; apply ext_on_refl; exact F6|].
      right. left. rewrite F2. unfold inprog_remove. cbn [inprog set_inprog]. rewrite In_srem. tauto.
Qed.

End P7.

(** one report processed: the generic transition of [K] *)
Lemma Pd_cons x o rest y : Pd ((x, o) :: rest) y <-> (y = x /\ exists v, o = Some v /\ deadk v = true) \/ Pd rest y.
Proof.
  unfold Pd. cbn [In]. split.
  - intros (v & [E|Hi] & T).
    + inversion E; subst. left. split; auto. exists v. auto.
    + right. exists v. auto.
  - intros [(-> & v & -> & T)|(v & Hi & T)]; exists v; auto.
Qed.
Lemma Pt_cons x o rest y : Pt ((x, o) :: rest) y <-> (y = x /\ o = Some TIMEDOUT) \/ Pt rest y.
Proof.
  unfold Pt. cbn [In]. split.
  - intros [E|Hi]; auto. inversion E; subst. auto.
  - intros [(-> & ->)|Hi]; auto.
Qed.
Lemma Pd_fst rest y : Pd rest y -> In y (map fst rest).
Proof. intros (v & Hi & _). apply in_map_iff. exists (y, Some v). auto. Qed.
Lemma Pt_fst rest y : Pt rest y -> In y (map fst rest).
Proof. intros Hi. apply in_map_iff. exists (y, Some TIMEDOUT). auto. Qed.

Lemma K_step x0 o rest s s' L L' :
  K ((x0, o) :: rest) s L -> In x0 (inprog s) -> ~ In x0 (map fst rest) ->
  (forall y, stat s y <> INITIALIZED -> stat s' y <> INITIALIZED) ->
  (forall y, y <> x0 -> (In y (inprog s') <-> In y (inprog s))) ->
  (forall y, y <> x0 -> (In y (ready s') <-> In y (ready s))) ->
  (In x0 (ready s') -> o = Some HWFAILURE) ->
  dead L' = dead L -> prev L' = prev L -> tdel L' = tdel L ->
  (forall y, y <> x0 -> nsubL L' y = nsubL L y) ->
  (forall y, In y (oksub L') -> y = x0 \/ In y (oksub L)) ->
  (forall y, In y (oksub L) -> In y (oksub L')) ->
  (forall v, o = Some v -> deadk v = true -> ~ In x0 (inprog s')) ->
  (o = Some TIMEDOUT -> In x0 (inprog s') -> In x0 (oksub L')) ->
  (nsubL L' x0 = nsubL L x0 \/ In x0 (oksub L') \/ gone s' x0) ->
  stat s x0 <> INITIALIZED -> (In x0 (oksub L') -> ~ In x0 (ready s')) ->
  K rest s' L'.
Proof.
  intros [K1 K2 K3 K4 K5 K6] Hx Hnr NI EI ER RH D1 D2 D3 D4 D5 D6 A1 A2 A3 Hst A4.
  assert (NI' : forall y, stat s' y = INITIALIZED -> stat s y = INITIALIZED).
  { intros y H. destruct (state_eqb (stat s y) INITIALIZED) eqn:E; [apply state_eqb_eq; exact E|].
    exfalso. apply (NI y); auto. intros H'. rewrite H' in E. discriminate. }
  assert (NOK : ~ In x0 (oksub L)).
  { intros H. apply (K5 x0 H). left. reflexivity. }
  constructor.
  - intros y Hy. rewrite D1 in Hy. destruct (K1 y Hy) as (B1 & B2 & B3).
    split; [auto|]. destruct (Nat.eq_dec y x0) as [->|Hn].
    + destruct (B3 Hx) as (v & Hv & Dv). destruct Hv as [E|Hv]; [|exfalso; apply Hnr; apply in_map_iff; exists (x0, Some v); auto].
      inversion E; subst o. split.
      * intros Hr. specialize (RH Hr). inversion RH; subst v. discriminate.
      * intros Hi. exfalso. exact (A1 v eq_refl Dv Hi).
    + split; [rewrite ER by auto; exact B2|]. intros Hi. apply EI in Hi; auto.
      apply B3 in Hi. apply Pd_cons in Hi. destruct Hi as [[E _]|Hi]; [contradiction|exact Hi].
  - intros y Hy. rewrite D2. apply K2. destruct (Nat.eq_dec y x0) as [->|Hn]; [auto|].
    destruct Hy as [Hy|[Hy|Hy]]; [left; apply EI; auto|right; left; apply ER; auto|right; right; auto].
  - intros y Hy. rewrite D3 in Hy. destruct (K3 y Hy) as (B1 & B2 & B3).
    split; [auto|]. destruct (Nat.eq_dec y x0) as [->|Hn].
    + destruct (B3 Hx) as [Hp|Ho]; [|contradiction].
      apply Pt_cons in Hp. destruct Hp as [[_ E]|Hp]; [|exfalso; apply Hnr, Pt_fst, Hp].
      split.
      * intros Hr. specialize (RH Hr). rewrite E in RH. discriminate.
      * intros Hi. right. apply A2; auto.
    + split; [rewrite ER by auto; exact B2|]. intros Hi. apply EI in Hi; auto.
      destruct (B3 Hi) as [Hp|Ho]; [|right; auto].
      apply Pt_cons in Hp. destruct Hp as [[E _]|Hp]; [contradiction|left; exact Hp].
  - intros y Hy. destruct (Nat.eq_dec y x0) as [->|Hn].
    + destruct A3 as [A3|[A3|A3]]; auto.
      rewrite A3 in Hy. destruct (K4 x0 Hy) as [H|(_ & H & _)]; contradiction.
    + rewrite D4 in Hy by auto. destruct (K4 y Hy) as [H|(G1 & G2 & G3)]; [left; auto|].
      right. split; [auto|]. rewrite EI, ER by auto. tauto.
  - intros y Hy Hr. destruct (D5 y Hy) as [->|Ho]; [contradiction|].
    apply (K5 y Ho). right. exact Hr.
  - intros y Hy. destruct (Nat.eq_dec y x0) as [->|Hn]; [split; auto|].
    destruct (D5 y Hy) as [->|Ho]; [contradiction|]. destruct (K6 y Ho) as [B1 B2].
    split; [auto|]. rewrite ER by auto. exact B2.
Qed.

Section P7b.
Variables (c : cfg) (g : graph) (p : pin) (L0 : base).
Notation ledS := (led c g p L0).
Notation cleanBS := (cleanB c g p L0).
Hypothesis W : WF g.

Lemma execute_record_inprog x restart s y : y <> x ->
  (In y (inprog (execute_record_gen c g x restart s)) <-> In y (inprog s)).
Proof.
  intros Hn. unfold execute_record_gen.
  set (s0 := if negb restart then emit (EGen x) s else s).
  assert (E0 : inprog s0 = inprog s) by (unfold s0; destruct restart; reflexivity).
  rewrite <- E0. clearbody s0. cbv zeta. destruct (dry c); [reflexivity|].
  destruct (submit_attempts_stat g x restart (attempts c) s0) as (_ & _ & _ & S4 & _).
  destruct (submit_attempts g x restart (attempts c) s0) as [ok s1]. cbn [snd] in S4.
  destruct S4 as (_ & F2 & _).
  destruct ok.
  - destruct (negb (scheduled (attr g x))); unfold inprog_remove, completed_add, inprog_add, rec_set_status;
      cbn [inprog set_inprog set_completed set_recs]; rewrite ?In_srem, ?In_sadd, F2; tauto.
  - destruct (mark_failed_list_frame (bfs_subtree g x) (inprog_remove x s1)) as (_ & G2 & _).
    rewrite G2. unfold inprog_remove. cbn [inprog set_inprog]. rewrite In_srem, F2. tauto.
Qed.

(** the tactic for a report that triggers no submission: the ledger is unchanged *)
Ltac kcase s Kh Hx Hnr HX Hl Hxr Hst :=
  match goal with |- cleanB _ _ _ _ ?s' /\ _ =>
    split; [apply (cleanB_frame c g p L0 s s'); [reflexivity|assumption]|];
    try (rewrite (led_frame c g p L0 s s') by reflexivity);
    eapply (K_step _ _ _ _ s' _ _ Kh Hx Hnr);
    [ apply (sr_ni _ _ HX)
    | intros y Hn; vw Hl; intuition congruence
    | intros y Hn; vw Hl; intuition congruence
    | vw Hl; try (intros _; reflexivity); intros H; exfalso; tauto
    | reflexivity | reflexivity | reflexivity | auto | auto | auto
    | intros v E Dv; inversion E; subst v; try discriminate Dv; vw Hl; tauto
    | intros E; try discriminate E; vw Hl; tauto
    | left; reflexivity
    | exact Hst
    | let H := fresh in intros H; exfalso; apply (k_ok _ _ _ Kh _ H); left; reflexivity ]
  end.

Lemma handle_report_k r rest s cl ca :
  dry c = false -> disp_inv c g p L0 (r :: rest) s cl ca -> X c s -> R2 (acc cl ca) s ->
  cleanBS s -> K (r :: rest) s (ledS s) ->
  let '(s', cl', ca') := handle_report_gen c g (s, cl, ca) r in
  cleanBS s' /\ K rest s' (ledS s').
Proof.
  intros Hd D Xs Rs Cl Kh. destruct r as [x o].
  pose proof (handle_report_x c g W p L0 (x, o) rest s cl ca Hd D Xs Rs) as HX.
  pose proof D as (I & T & _ & _ & ND & RI & AC).
  assert (Hx : In x (inprog s)) by (apply RI; left; reflexivity).
  assert (Hnr : ~ In x (map fst rest)) by (inversion ND; assumption).
  assert (Hxl : x < length g) by (apply (i_bound g s I); auto).
  assert (Hxr : ~ In x (ready s)) by (exact (i_dj_ir g s I x Hx)).
  assert (Hl := nrecs_lt g s x I Hxl).
  assert (Hst : stat s x <> INITIALIZED) by (apply (i_init g s I); auto).
  unfold handle_report_gen in *; destruct o as [v|]; [destruct v|]; cbn [oeqb state_eqb] in *.
  all: try (destruct HX as (_ & _ & HX); kcase s Kh Hx Hnr HX Hl Hxr Hst).
  (* TIMEDOUT *)
  destruct (has_restart (attr g x) && negb (canceled s)) eqn:Hr.
  - unfold mark_restart_gen in *.
    destruct ((rlimit (attr g x) =? 0) || (restarts (getrec (rec_set_status x TIMEDOUT s) x) <? rlimit (attr g x))).
    + destruct HX as (_ & _ & HX).
      set (s1 := rec_inc_restarts x (rec_set_status x TIMEDOUT s)) in *.
      assert (C1 : cleanBS s1) by (apply (cleanB_frame c g p L0 s s1); [reflexivity|exact Cl]).
      assert (L1 : ledS s1 = ledS s) by (apply led_frame; reflexivity).
      assert (P1 : pre43 c g p L0 x s1).
      { unfold pre43. rewrite L1. destruct Kh as [K1 K2 K3 K4 K5 K6]. split; [apply K2; auto|]. split.
        - apply mem_false. intros Hdd. destruct (K1 x Hdd) as (_ & _ & B3).
          destruct (B3 Hx) as (v & [E|Hv] & Dv); [inversion E; subst v; discriminate|].
          apply Hnr. apply in_map_iff. exists (x, Some v). auto.
        - apply mem_false. intros Ho. apply (K5 x Ho). left. reflexivity. }
      assert (N1 : nsubL (ledS s1) x = 0).
      { rewrite L1. destruct (Nat.eq_dec (nsubL (ledS s) x) 0) as [E|E]; [exact E|exfalso].
        destruct (k_nsub _ _ _ Kh x ltac:(lia)) as [Ho|(_ & Hg & _)]; [|contradiction].
        apply (k_ok _ _ _ Kh x Ho). left. reflexivity. }
      destruct (execute_record_k c g p L0 x true s1 C1 P1 N1) as (G1 & G2 & G3).
      pose proof (execute_record_x c g W (acc cl ca) x true s1) as EX.
      destruct (on_led c g p L0 x s1 _ G2) as (O1 & O2 & O3 & O4 & O5 & O6). rewrite L1 in *.
      set (s' := execute_record_gen c g x true s1) in *.
      assert (RD : ready s' = ready s).
      { assert (I1 : Inv g s1) by (apply Inv_inc_restarts; apply Inv_set_status; [discriminate|exact I]).
        assert (Hxc : ~ In x (completed s)) by (intros Hc; exact (i_dj_ci g s I x Hc Hx)).
        assert (Hxf : ~ In x (failed s) /\ ~ In x (cancelled s)).
        { split; intros Hf; destruct (i_dj_fc g s I x); auto; tauto. }
        assert (X1 : X c s1 /\ R2 (acc cl ca) s1).
        { split; [apply (X_quiet c (rec_set_status x TIMEDOUT s)); auto; [intros y; apply stat_inc|]|].
          - destruct Xs as [XA XB]. unfold fin_of in XB. rewrite Hd in XB.
            constructor; intros y; vw Hl; yx y x; fin Hd.
          - intros y. unfold s1. rewrite stat_inc. pose proof Rs as Rs'. unfold R2, acc in Rs'. unfold acc.
            vw Hl; yx y x; cbn [fc_row]; intros Hfc; try (apply Rs' in Hfc); fin Hd. }
        destruct X1 as [X1 R1].
        destruct (EX I1 Hxl Hxc (proj1 Hxf) (proj2 Hxf) X1 R1) as (_ & _ & _ & _ & E5). exact E5. }
      split; [exact G1|].
      eapply (K_step x (Some TIMEDOUT) rest s s' _ _ Kh Hx Hnr); auto.
      * apply (sr_ni _ _ HX).
      * intros y Hn. unfold s'. rewrite execute_record_inprog by auto. reflexivity.
      * intros y Hn. rewrite RD. tauto.
      * rewrite RD. intros H. contradiction.
      * intros v E Dv. inversion E; subst v. discriminate.
      * intros _ Hi. destruct G3 as [G3|[G3|[G3 _]]]; [exact G3|contradiction|rewrite Hd in G3; discriminate].
      * right. destruct G3 as [G3|[G3|[G3 _]]]; [left; exact G3| |rewrite Hd in G3; discriminate].
        right. split; [|split; [exact G3|rewrite RD; exact Hxr]].
        apply (sr_ni _ _ HX). apply (i_init g s I). auto.
      * intros _. rewrite RD. exact Hxr.
    + destruct HX as (_ & _ & HX). kcase s Kh Hx Hnr HX Hl Hxr Hst.
  - destruct HX as (_ & _ & HX). kcase s Kh Hx Hnr HX Hl Hxr Hst.
Qed.

End P7b.

(** generic transitions of [K] that leave the ledger alone *)
Lemma ni_inv s s' : (forall y, stat s y <> INITIALIZED -> stat s' y <> INITIALIZED) ->
  forall y, stat s' y = INITIALIZED -> stat s y = INITIALIZED.
Proof.
  intros NI y H. destruct (state_eqb (stat s y) INITIALIZED) eqn:E; [apply state_eqb_eq; exact E|].
  exfalso. apply (NI y); auto. intros H'. rewrite H' in E. discriminate.
Qed.

Lemma K_grow rest s s' L :
  K rest s L -> (forall y, stat s y <> INITIALIZED -> stat s' y <> INITIALIZED) ->
  (forall y, In y (inprog s') -> In y (inprog s)) ->
  (forall y, In y (ready s') -> In y (ready s) \/ stat s y = INITIALIZED) ->
  K rest s' L.
Proof.
  intros [K1 K2 K3 K4 K5 K6] NI EI ER. pose proof (ni_inv s s' NI) as NI'.
  constructor; auto.
  - intros y Hy. destruct (K1 y Hy) as (B1 & B2 & B3). split; [auto|]. split; [|auto].
    intros Hr. destruct (ER y Hr); contradiction.
  - intros y Hy. apply K2. destruct Hy as [Hy|[Hy|Hy]]; auto; destruct (ER y Hy); tauto.
  - intros y Hy. destruct (K3 y Hy) as (B1 & B2 & B3). split; [auto|]. split; [|auto].
    intros Hr. destruct (ER y Hr); contradiction.
  - intros y Hy. destruct (K4 y Hy) as [H|(G1 & G2 & G3)]; [left; auto|]. right. split; [auto|]. split; [auto|].
    intros Hr. destruct (ER y Hr); contradiction.
  - intros y Hy. destruct (K6 y Hy) as [B1 B2]. split; [auto|].
    intros Hr. destruct (ER y Hr); contradiction.
Qed.

(** a popped step handed to _execute_record *)
Lemma K_launch x s s' L L' :
  K [] s L -> In x (ready s) -> ~ In x (inprog s) ->
  (forall y, stat s y <> INITIALIZED -> stat s' y <> INITIALIZED) ->
  (forall y, y <> x -> (In y (inprog s') <-> In y (inprog s))) ->
  (forall y, In y (ready s') -> In y (ready s) /\ y <> x) ->
  dead L' = dead L -> prev L' = prev L -> tdel L' = tdel L ->
  (forall y, y <> x -> nsubL L' y = nsubL L y) ->
  (forall y, In y (oksub L') -> y = x \/ In y (oksub L)) ->
  (forall y, In y (oksub L) -> In y (oksub L')) ->
  (In x (oksub L') \/ gone s' x) -> stat s' x <> INITIALIZED ->
  K [] s' L'.
Proof.
  intros [K1 K2 K3 K4 K5 K6] Hx Hni NI EI ER D1 D2 D3 D4 D5 D6 A3 A5. pose proof (ni_inv s s' NI) as NI'.
  constructor.
  - intros y Hy. rewrite D1 in Hy. destruct (K1 y Hy) as (B1 & B2 & B3).
    assert (y <> x) by (intros ->; contradiction).
    split; [auto|]. split; [intros Hr; apply ER in Hr; tauto|]. intros Hi. apply EI in Hi; auto.
  - intros y Hy. rewrite D2. apply K2. destruct (Nat.eq_dec y x) as [->|Hn]; [auto|].
    destruct Hy as [Hy|[Hy|Hy]]; [left; apply EI; auto|right; left; apply ER in Hy; tauto|auto].
  - intros y Hy. rewrite D3 in Hy. destruct (K3 y Hy) as (B1 & B2 & B3).
    assert (y <> x) by (intros ->; contradiction).
    split; [auto|]. split; [intros Hr; apply ER in Hr; tauto|]. intros Hi. apply EI in Hi; auto.
    destruct (B3 Hi) as [[]|Ho]. right. auto.
  - intros y Hy. destruct (Nat.eq_dec y x) as [->|Hn]; [exact A3|].
    rewrite D4 in Hy by auto. destruct (K4 y Hy) as [H|(G1 & G2 & G3)]; [left; auto|].
    right. split; [auto|]. split; [rewrite EI by auto; exact G2|]. intros Hr. apply ER in Hr. tauto.
  - intros y _ [].
  - intros y Hy. destruct (Nat.eq_dec y x) as [->|Hn].
    + split; [exact A5|]. intros Hr. apply ER in Hr. tauto.
    + destruct (D5 y Hy) as [->|Ho]; [contradiction|]. destruct (K6 y Ho) as [B1 B2].
      split; [auto|]. intros Hr. apply ER in Hr. tauto.
Qed.

(** C19 (model side) -- locally executed steps run once per attempt, in order, and the
    exit code decides.  A local step is a node with [scheduled (attr g x) = false]; its
    submission IS its execution (LocalScriptAdapter.submit runs the script synchronously),
    the scripted outcome [true] = exit code 0.

    Part 1: the submission loop -- exact event sequence, outcomes consumed.
    Part 2: one _execute_record call of a local step: attempts, verdict.
    Part 3: order -- a step is only executed when all its parents are completed.
    Part 4: poll level (through the macro-step replay of ExecSteps.v). *)
From Coq Require Import Lia.
From MWF Require Import Base.Util Base.UtilLemmas Exec.ExecBase Exec.ExecGen Exec.ExecRun Exec.ExecTrace
  Exec.ExecGraph Exec.ExecInv Exec.ExecPoll Exec.ExecSteps Exec.ExecFault.

Arguments bfs_subtree : simpl never.
Arguments submit_attempts : simpl never.
Arguments mark_failed_list : simpl never.
Arguments mark_cancelled_list : simpl never.

(** * Part 1: the submission loop *)

(** the adapter calls of one attempt, in call order *)
Definition att_events (x : nat) (restart sch : bool) (res : option nat) : list event :=
  (if restart then [EGen x] else []) ++ [ESubmit x (if restart then Restart else Main) sch res].

Fixpoint fail_events (x : nat) (restart sch : bool) (k : nat) : list event :=
  match k with
  | O => []
  | S k' => att_events x restart sch None ++ fail_events x restart sch k'
  end.

(** [k] failed attempts, then (if [ok]) the successful one with job id [j] *)
Definition loop_events (x : nat) (restart sch : bool) (k : nat) (ok : bool) (j : nat) : list event :=
  fail_events x restart sch k ++ (if ok then att_events x restart sch (Some j) else []).

Definition is_submit_of (x : nat) (e : event) : bool :=
  match e with ESubmit y _ _ _ => Nat.eqb y x | _ => false end.
Definition nsubmits (x : nat) (es : list event) : nat := length (filter (is_submit_of x) es).

Lemma nsubmits_app x a b : nsubmits x (a ++ b) = nsubmits x a + nsubmits x b.
Proof. unfold nsubmits. rewrite filter_app, app_length. reflexivity. Qed.

Lemma nsubmits_att x restart sch res : nsubmits x (att_events x restart sch res) = 1.
Proof. unfold nsubmits, att_events. destruct restart; cbn; rewrite Nat.eqb_refl; reflexivity. Qed.

Lemma nsubmits_fail x restart sch k : nsubmits x (fail_events x restart sch k) = k.
Proof. induction k as [|k IH]; cbn [fail_events]; [reflexivity|]. rewrite nsubmits_app, nsubmits_att, IH. reflexivity. Qed.

Lemma nsubmits_loop x restart sch k ok j :
  nsubmits x (loop_events x restart sch k ok j) = k + (if ok then 1 else 0).
Proof.
  unfold loop_events. rewrite nsubmits_app, nsubmits_fail. destruct ok; [rewrite nsubmits_att|]; reflexivity.
Qed.

(** what one pass through the attempt prologue leaves unchanged *)
Lemma pre_attempt g x (restart : bool) s :
  let s1 := if restart then emit (EGen x) s else rec_set_status x PENDING s in
  let s2 := if scheduled (attr g x) then s1 else rec_set_status x RUNNING s1 in
  evs s2 = (if restart then [EGen x] else []) ++ evs s /\ subs s2 = subs s /\ next_job s2 = next_job s /\
  same_sets s s2 /\ length (recs s2) = length (recs s).
Proof.
  destruct restart, (scheduled (attr g x)); cbn; rewrite ?length_upd; repeat split.
Qed.

Record loop_spec (g : graph) (x : nat) (restart : bool) (n : nat) (s : st) (ok : bool) (s' : st) (k : nat) : Prop := {
  ls_evs : rev (evs s') = rev (evs s) ++ loop_events x restart (scheduled (attr g x)) k ok (next_job s);
  ls_k : if ok then k < n else k = n;
  ls_fails : firstn k (subs s) = repeat false k;
  ls_ok : ok = true -> nth k (subs s) true = true;
  ls_job : next_job s' = if ok then S (next_job s) else next_job s;
  ls_sets : same_sets s s';
  ls_len : length (recs s') = length (recs s) }.

Lemma submit_attempts_loop g x restart n : forall s,
  exists k, loop_spec g x restart n s (fst (submit_attempts g x restart n s)) (snd (submit_attempts g x restart n s)) k.
Proof.
  induction n as [|n IH]; intros s.
  - change (submit_attempts g x restart 0 s) with (false, s).
    exists 0. constructor; cbn; auto using same_sets_refl; try discriminate. rewrite app_nil_r. reflexivity.
  - rewrite submit_attempts_S. cbv zeta.
    pose proof (pre_attempt g x restart s) as P. cbv zeta in P.
    set (s2 := if scheduled (attr g x)
               then (if restart then emit (EGen x) s else rec_set_status x PENDING s)
               else rec_set_status x RUNNING (if restart then emit (EGen x) s else rec_set_status x PENDING s)) in *.
    destruct P as (P1 & P2 & P3 & P4 & P5).
    set (sch := scheduled (attr g x)) in *.
    unfold next_sub. rewrite P2. destruct (subs s) as [|b r] eqn:Es; cbn [fst snd].
    + (* no scripted outcome left: the submission succeeds *)
      exists 0. constructor.
      * cbn [emit evs set_evs rec_push_job set_recs set_next_job]. rewrite P1, P3.
        unfold loop_events, att_events. cbn [fail_events app]. destruct restart; cbn; rewrite <- ?app_assoc; reflexivity.
      * cbn. lia.
      * reflexivity.
      * intros _. rewrite Es. reflexivity.
      * cbn. rewrite P3. reflexivity.
      * eapply same_sets_trans; [exact P4|]. repeat split.
      * cbn. rewrite length_upd. exact P5.
    + destruct b; cbn [fst snd].
      * exists 0. constructor.
        -- cbn [emit evs set_evs rec_push_job set_recs set_next_job set_subs next_job]. rewrite P1, P3.
           unfold loop_events, att_events. cbn [fail_events app]. destruct restart; cbn; rewrite <- ?app_assoc; reflexivity.
        -- cbn. lia.
        -- reflexivity.
        -- intros _. rewrite Es. reflexivity.
        -- cbn. rewrite P3. reflexivity.
        -- eapply same_sets_trans; [exact P4|]. repeat split.
        -- cbn. rewrite length_upd. exact P5.
      * set (s4 := emit (ESubmit x (if restart then Restart else Main) sch None) (set_subs s2 r)).
        destruct (IH s4) as (k & L). destruct L as [L1 L2 L3 L4 L5 L6 L7].
        assert (E4 : next_job s4 = next_job s) by exact P3.
        exists (S k). constructor.
        -- rewrite L1, E4. unfold s4. cbn [emit evs set_evs set_subs rev]. rewrite P1.
           unfold loop_events. cbn [fail_events]. unfold att_events at 3.
           destruct restart; cbn [app rev]; rewrite <- ?app_assoc; reflexivity.
        -- destruct (fst (submit_attempts g x restart n s4)); lia.
        -- rewrite Es. cbn [firstn repeat]. f_equal. exact L3.
        -- intros H. rewrite Es. cbn [nth]. apply L4. exact H.
        -- rewrite L5, E4. reflexivity.
        -- eapply same_sets_trans; [exact P4|]. eapply same_sets_trans; [|exact L6]. repeat split.
        -- rewrite L7. exact P5.
Qed.

(** * Part 2: one _execute_record call *)
Lemma mfl_in_failed l : forall s y, In y l \/ In y (failed s) -> In y (failed (mark_failed_list l s)).
Proof.
  unfold mark_failed_list. induction l as [|a l IH]; intros s y H; cbn [fold_left].
  - destruct H as [[]|H]; exact H.
  - apply IH. unfold failed_add, rec_set_status. cbn. rewrite In_sadd. cbn in H. intuition (subst; auto).
Qed.

Lemma mfl_status_failed l : forall s y, y < length (recs s) ->
  In y l \/ status (getrec s y) = FAILED -> status (getrec (mark_failed_list l s) y) = FAILED.
Proof.
  unfold mark_failed_list. induction l as [|a l IH]; intros s y Hy H; cbn [fold_left].
  - destruct H as [[]|H]; exact H.
  - apply IH; [rewrite len_recs_set_status; exact Hy|].
    destruct (Nat.eq_dec a y) as [->|Hn].
    + right. rewrite getrec_set_status_eq by exact Hy. reflexivity.
    + rewrite getrec_set_status_neq by exact Hn. destruct H as [[H|H]|H]; auto. congruence.
Qed.

Lemma mfl_same l : forall s,
  completed (mark_failed_list l s) = completed s /\ inprog (mark_failed_list l s) = inprog s /\
  evs (mark_failed_list l s) = evs s /\ ready (mark_failed_list l s) = ready s /\
  length (recs (mark_failed_list l s)) = length (recs s).
Proof.
  unfold mark_failed_list. induction l as [|a l IH]; intros s; cbn [fold_left]; [repeat split|].
  destruct (IH (rec_set_status a FAILED (failed_add a s))) as (A & B & C & D & E).
  rewrite A, B, C, D, E. cbn. rewrite length_upd. repeat split.
Qed.

(** The adapter calls of one (non-restart) execution of a step outside a dry run: the
    script is generated, then the step is submitted -- k times without success, then (if
    [ok]) once with success -- never more often than [attempts c]; the loop stops at the
    first success; all attempts are used only if every one of them failed.  The outcomes are
    the next entries of the scripted outcome stream. *)
Theorem execute_record_attempts c g x s : dry c = false ->
  let s' := execute_record_gen c g x false s in
  exists k ok,
    rev (evs s') = rev (evs s) ++ EGen x :: loop_events x false (scheduled (attr g x)) k ok (next_job s) /\
    (if ok then k < attempts c else k = attempts c) /\
    firstn k (subs s) = repeat false k /\ (ok = true -> nth k (subs s) true = true) /\
    nsubmits x (loop_events x false (scheduled (attr g x)) k ok (next_job s)) = k + (if ok then 1 else 0) /\
    k + (if ok then 1 else 0) <= attempts c /\
    (* verdict, part 1: which branch was taken *)
    (if ok then (if scheduled (attr g x) then In x (inprog s') else In x (completed s') /\ ~ In x (inprog s'))
     else ~ In x (inprog s') /\ forall y, In y (bfs_subtree g x) -> In y (failed s')).
Proof.
  intros Hd. unfold execute_record_gen. rewrite Hd. cbn [negb].
  destruct (submit_attempts_loop g x false (attempts c) (emit (EGen x) s)) as (k & L).
  destruct (submit_attempts g x false (attempts c) (emit (EGen x) s)) as [ok s1]. cbn [fst snd] in L.
  destruct L as [L1 L2 L3 L4 L5 L6 L7]. cbn [emit evs set_evs subs next_job rev] in L1, L3, L4.
  destruct L6 as (S1 & S2 & S3 & S4 & S5 & S6 & S7).
  exists k, ok. cbv zeta. splits; auto.
  - destruct ok.
    + destruct (negb (scheduled (attr g x))); cbn; rewrite L1, <- app_assoc; reflexivity.
    + destruct (mfl_same (bfs_subtree g x) (inprog_remove x s1)) as (_ & _ & E & _). rewrite E. cbn.
      rewrite L1, <- app_assoc. reflexivity.
  - apply nsubmits_loop.
  - destruct ok; lia.
  - destruct ok.
    + destruct (scheduled (attr g x)); cbn [negb].
      * unfold inprog_add. sp. apply In_sadd. auto.
      * unfold inprog_remove, completed_add, rec_set_status, inprog_add. sp.
        rewrite In_sadd, In_srem. split; [auto|]. intros [H _]. congruence.
    + destruct (mfl_same (bfs_subtree g x) (inprog_remove x s1)) as (_ & E & _). rewrite E.
      split.
      * unfold inprog_remove. sp. rewrite In_srem. intros [H _]. congruence.
      * intros y Hy. apply mfl_in_failed. auto.
Qed.

(** The verdict for a local step: exit code 0 of some attempt = FINISHED, completed, not
    tracked -- at once; every attempt failing = FAILED together with its whole subtree. *)
Theorem local_execute_verdict c g x s : dry c = false -> scheduled (attr g x) = false -> x < length (recs s) ->
  let s' := execute_record_gen c g x false s in
  exists k ok,
    rev (evs s') = rev (evs s) ++ EGen x :: loop_events x false false k ok (next_job s) /\
    (if ok then k < attempts c else k = attempts c) /\
    firstn k (subs s) = repeat false k /\ (ok = true -> nth k (subs s) true = true) /\
    ~ In x (inprog s') /\
    (if ok
     then status (getrec s' x) = FINISHED /\ In x (completed s') /\ failed s' = failed s
     else completed s' = completed s /\
          forall y, In y (bfs_subtree g x) ->
                    In y (failed s') /\ (y < length (recs s) -> status (getrec s' y) = FAILED)).
Proof.
  intros Hd Hl Hx. unfold execute_record_gen. rewrite Hd, Hl. cbn [negb].
  destruct (submit_attempts_loop g x false (attempts c) (emit (EGen x) s)) as (k & L).
  destruct (submit_attempts g x false (attempts c) (emit (EGen x) s)) as [ok s1]. cbn [fst snd] in L.
  destruct L as [L1 L2 L3 L4 L5 L6 L7]. cbn [emit evs set_evs subs next_job rev recs] in L1, L3, L4, L7.
  rewrite Hl in L1.
  destruct L6 as (S1 & S2 & S3 & S4 & S5 & S6 & S7). cbn in S1, S2, S3, S4, S5.
  exists k, ok. cbv zeta. splits; auto.
  - destruct ok.
    + cbn. rewrite L1, <- app_assoc. reflexivity.
    + destruct (mfl_same (bfs_subtree g x) (inprog_remove x s1)) as (_ & _ & E & _). rewrite E. cbn.
      rewrite L1, <- app_assoc. reflexivity.
  - destruct ok.
    + unfold inprog_remove, completed_add, rec_set_status, inprog_add. sp. rewrite In_srem. intros [H _]. congruence.
    + destruct (mfl_same (bfs_subtree g x) (inprog_remove x s1)) as (_ & E & _). rewrite E.
      unfold inprog_remove. sp. rewrite In_srem. intros [H _]. congruence.
  - destruct ok.
    + splits.
      * unfold inprog_remove, completed_add. unfold getrec. cbn [recs set_inprog set_completed].
        change (status (getrec (rec_set_status x FINISHED (inprog_add x s1)) x) = FINISHED).
        rewrite getrec_set_status_eq; [reflexivity|]. cbn. rewrite L7. exact Hx.
      * unfold inprog_remove, completed_add. sp. apply In_sadd. auto.
      * cbn. exact S4.
    + destruct (mfl_same (bfs_subtree g x) (inprog_remove x s1)) as (E & _). rewrite E. split.
      * cbn. exact S1.
      * intros y Hy. split.
        -- apply mfl_in_failed. auto.
        -- intros Hyl. apply mfl_status_failed; [cbn; rewrite L7; exact Hyl | auto].
Qed.

(** * Part 3: order -- only steps whose parents are all completed are executed *)
Definition ev_node (e : event) : option nat :=
  match e with EGen x => Some x | ESubmit x _ _ _ => Some x | _ => None end.

Lemma loop_events_node x restart sch k ok j e : In e (loop_events x restart sch k ok j) -> ev_node e = Some x.
Proof.
  unfold loop_events. rewrite in_app_iff. intros [H|H].
  - induction k as [|k IH]; cbn [fail_events] in H; [destruct H|].
    apply in_app_iff in H. destruct H as [H|H]; auto.
    unfold att_events in H. destruct restart; cbn in H; intuition (subst; reflexivity).
  - destruct ok; [|destruct H]. unfold att_events in H. destruct restart; cbn in H; intuition (subst; reflexivity).
Qed.

(** the launch step: every adapter call it makes concerns the head of the queue, whose
    parents are all completed (invariant [i_anc]) *)
Theorem launch_order c g s : Inv g s ->
  let s' := launch_body_gen c g s in
  exists new, evs s' = new ++ evs s /\
    forall e, In e new -> exists x, ev_node e = Some x /\ In x (ready s) /\
                                    incl (parents (attr g x)) (completed s) /\ ~ In x (completed s).
Proof.
  intros I. unfold launch_body_gen. destruct (ready s) as [|x rest] eqn:Er.
  { exists []. split; [reflexivity|intros e []]. }
  assert (Hr : In x (ready s)) by (rewrite Er; left; reflexivity).
  assert (Hp : incl (parents (attr g x)) (completed s)) by (apply (i_anc g s I); auto).
  assert (Hc : ~ In x (completed s)) by (intros H; exact (i_dj_cr g s I x H Hr)).
  cbn [canceled set_ready]. destruct (canceled s).
  { exists []. split; [reflexivity|intros e []]. }
  destruct (dry c) eqn:Hd.
  - unfold execute_record_gen. rewrite Hd. cbn. exists [EGen x]. split; [reflexivity|].
    intros e [<-|[]]. exists x. cbn. auto.
  - destruct (execute_record_attempts c g x (set_ready s rest) Hd) as (k & ok & A & _).
    cbv zeta in A. cbn [evs set_ready] in A.
    exists (rev (EGen x :: loop_events x false (scheduled (attr g x)) k ok (next_job s))). split.
    + apply (f_equal (@rev event)) in A. rewrite rev_involutive, rev_app_distr, rev_involutive in A. exact A.
    + intros e He. apply in_rev in He. exists x. splits; auto; [|left; reflexivity].
      destruct He as [<-|He]; [reflexivity|]. eapply loop_events_node; eauto.
Qed.

(** * Part 4: poll level, through the macro-step replay of the poll (ExecSteps.v) *)

Lemma loop_events_some x r sch k ok j0 y kd sc j :
  In (ESubmit y kd sc (Some j)) (loop_events x r sch k ok j0) -> y = x /\ ok = true /\ j = j0.
Proof.
  unfold loop_events. rewrite in_app_iff. intros [H|H].
  - exfalso. induction k as [|k IH]; cbn [fail_events] in H; [destruct H|].
    apply in_app_iff in H. destruct H as [H|H]; auto.
    unfold att_events in H. destruct r; cbn in H; intuition discriminate.
  - destruct ok; [|destruct H]. unfold att_events in H.
    destruct r; cbn in H; repeat (destruct H as [H|H]); try contradiction; try discriminate;
      inversion H; auto.
Qed.

Lemma launch_completed_mono c g s : incl (completed s) (completed (launch_body_gen c g s)).
Proof.
  unfold launch_body_gen. destruct (ready s) as [|x rest]; [apply incl_refl|].
  cbn [canceled set_ready]. destruct (canceled s); [apply incl_refl|].
  intros y Hy. apply (er_c1 _ _ _ _ (execute_record_sets c g x false (set_ready s rest))). exact Hy.
Qed.

Section PollLevel.
  Variables (c : cfg) (g : graph) (p : pin).
  Hypothesis W : WF g.

  (** ** order: every submission recorded in the poll's log is of a step whose parents are completed *)
  Definition Jord (a : conf) : Prop :=
    let '(t, _, _, _) := a in
    forall x k sc res, In (ESubmit x k sc res) (evs t) -> incl (parents (attr g x)) (completed t).

  Lemma Jord_step a b : pstep c g p a b -> Jord a -> Jord b.
  Proof.
    intros St. destruct St; unfold Jord; intros J y k sc res Hin.
    - (* cancel *) cbn in Hin. destruct Hin as [Hin|Hin]; [discriminate|]. exact (J _ _ _ _ Hin).
    - (* check *) cbn in Hin. destruct Hin as [Hin|Hin]; [discriminate|]. exact (J _ _ _ _ Hin).
    - (* report *)
      assert (Hl : x < length (recs t)).
      { rewrite (i_len_recs g t H4). apply (i_bound g t H4). auto. }
      destruct (hr_frame c g t cl ca x o t' cl' ca' Hl H9) as [(Ev & _ & _ & _ & Cm & _)|(_ & _ & _ & Et)].
      + rewrite Ev in Hin. intros q Hq. apply Cm. exact (J _ _ _ _ Hin q Hq).
      + set (t0 := rec_inc_restarts x (rec_set_status x TIMEDOUT t)) in *.
        destruct (execute_record_evs c g x true t0) as (new & V1 & V2 & _). rewrite <- Et in V1.
        pose proof (execute_record_sets c g x true t0) as ES. rewrite <- Et in ES.
        rewrite V1 in Hin. apply in_app_iff in Hin.
        intros q Hq. apply (er_c1 _ _ _ _ ES). change (completed t0) with (completed t).
        destruct Hin as [Hin|Hin]; [|exact (J _ _ _ _ Hin q Hq)].
        destruct (V2 _ Hin) as [A|[r A]]; [discriminate|]. inversion A; subst.
        apply (i_anc g t H4 x); auto.
    - (* sweep failed *) exact (J _ _ _ _ Hin).
    - (* sweep cancelled *) exact (J _ _ _ _ Hin).
    - (* stage *)
      destruct (stage_node_frame g t x) as (A2 & _ & _ & _ & _ & _ & A7 & _).
      rewrite A7 in Hin. rewrite A2. exact (J _ _ _ _ Hin).
    - (* launch *)
      destruct (launch_order c g t H) as (new & E & N). cbv zeta in E. rewrite E in Hin. apply in_app_iff in Hin.
      intros q Hq. apply launch_completed_mono. destruct Hin as [Hin|Hin]; [|exact (J _ _ _ _ Hin q Hq)].
      destruct (N _ Hin) as (z & Ez & _ & Hp & _). cbn in Ez. inversion Ez; subst. apply Hp. exact Hq.
  Qed.

  Theorem poll_order s : Inv g s -> valid_pin s p = true ->
    forall x k sc res, In (ESubmit x k sc res) (evs (fst (poll c g s p))) ->
    incl (parents (attr g x)) (completed (fst (poll c g s p))).
  Proof.
    intros I V. pose proof (poll_reach c g p W s I V) as R.
    apply (psteps_ind_inv c g p Jord Jord_step _ _ R). intros x k sc res [].
  Qed.

  (** ** verdict: a successful local execution recorded in the poll's log means the step is
      FINISHED, completed and untracked -- from that moment to the end of the poll *)
  Definition Jver (a : conf) : Prop :=
    let '(t, _, _, _) := a in
    forall x j, scheduled (attr g x) = false -> In (ESubmit x Main false (Some j)) (evs t) ->
                status (getrec t x) = FINISHED /\ In x (completed t) /\ ~ In x (inprog t).

  (** a completed step is away from whatever is tracked or queued *)
  Lemma completed_away t x y : Inv g t -> In x (completed t) -> In y (inprog t) \/ In y (ready t) -> away g x y.
  Proof.
    intros I Hx Hy.
    assert (Hn : y <> x).
    { intros ->. destruct Hy as [Hy|Hy]; [exact (i_dj_ci g t I x Hx Hy) | exact (i_dj_cr g t I x Hx Hy)]. }
    split; auto. intros Hin.
    assert (Hyl : y < length g) by (apply (i_bound g t I); tauto).
    assert (Hc : In y (completed t)).
    { eapply anc_completed; eauto. apply bfs_subtree_sound; auto. }
    destruct Hy as [Hy|Hy]; [exact (i_dj_ci g t I y Hc Hy) | exact (i_dj_cr g t I y Hc Hy)].
  Qed.

  Lemma Jver_keep t t' x : ok_step g x false t t' ->
    status (getrec t x) = FINISHED /\ In x (completed t) /\ ~ In x (inprog t) ->
    status (getrec t' x) = FINISHED /\ In x (completed t') /\ ~ In x (inprog t').
  Proof. intros [O1 O2 O3 _ _ _ _ _] (A & B & D). rewrite O1, O2, O3. auto. Qed.

  Lemma Jver_step a b : pstep c g p a b -> Jver a -> Jver b.
  Proof.
    intros St. destruct St; unfold Jver; intros J y j Hloc Hin.
    - (* cancel *) cbn in Hin. destruct Hin as [Hin|Hin]; [discriminate|]. exact (J _ _ Hloc Hin).
    - (* check *) cbn in Hin. destruct Hin as [Hin|Hin]; [discriminate|]. exact (J _ _ Hloc Hin).
    - (* report: it emits no Main submission, and leaves completed steps alone *)
      assert (Hl : x < length (recs t)).
      { rewrite (i_len_recs g t H4). apply (i_bound g t H4). auto. }
      assert (Hold : In (ESubmit y Main false (Some j)) (evs t)).
      { destruct (hr_frame c g t cl ca x o t' cl' ca' Hl H9) as [(Ev & _)|(_ & _ & _ & Et)].
        - rewrite <- Ev. exact Hin.
        - destruct (execute_record_evs c g x true (rec_inc_restarts x (rec_set_status x TIMEDOUT t)))
            as (new & V1 & V2 & _). rewrite <- Et in V1. rewrite V1 in Hin. apply in_app_iff in Hin.
          destruct Hin as [Hin|Hin]; auto. destruct (V2 _ Hin) as [A|[r A]]; discriminate. }
      pose proof (J _ _ Hloc Hold) as K. destruct K as (K1 & K2 & K3).
      assert (Aw : away g y x) by (eapply completed_away; eauto).
      assert (Rk : rep_ok g y false (x, o)).
      { destruct Aw as [Aw1 Aw2]. split; cbn [fst snd]; [intros E; congruence | auto]. }
      assert (Ncl : ~ In y cl) by (intros Hc; destruct (H5 y (or_introl Hc)) as (_ & B & _); auto).
      assert (Nca : ~ In y ca) by (intros Hc; destruct (H5 y (or_intror Hc)) as (_ & B & _); auto).
      pose proof (os_handle_report g y false c t cl ca (x, o) Rk Ncl Nca) as O. rewrite H9 in O.
      destruct O as (O & _ & _). eapply Jver_keep; eauto.
    - (* sweep failed *)
      pose proof (J _ _ Hloc Hin) as K. destruct K as (K1 & K2 & K3).
      assert (Hn : a <> y).
      { intros ->. destruct (H0 y) as (_ & B & _); [left; left; reflexivity|]. auto. }
      rewrite getrec_set_status_neq by exact Hn. auto.
    - (* sweep cancelled *)
      pose proof (J _ _ Hloc Hin) as K. destruct K as (K1 & K2 & K3).
      assert (Hn : a <> y).
      { intros ->. destruct (H0 y) as (_ & B & _); [right; left; reflexivity|]. auto. }
      rewrite getrec_set_status_neq by exact Hn. auto.
    - (* stage *)
      destruct (stage_node_frame g t x) as (A2 & A3 & _ & _ & A1 & _ & A7 & _).
      rewrite A7 in Hin. unfold getrec. rewrite A1, A2, A3. exact (J _ _ Hloc Hin).
    - (* launch *)
      unfold launch_body_gen in *. destruct (ready t) as [|z rest] eqn:Er; [exact (J _ _ Hloc Hin)|].
      assert (Hzr : In z (ready t)) by (rewrite Er; left; reflexivity).
      assert (Old : In (ESubmit y Main false (Some j)) (evs t) ->
                    forall t', ok_step g y false (set_ready t rest) t' ->
                    status (getrec t' y) = FINISHED /\ In y (completed t') /\ ~ In y (inprog t')).
      { intros Ho t' O. pose proof (J _ _ Hloc Ho) as K.
        assert (Aw : away g y z) by (destruct K as (_ & K2 & _); eapply completed_away; eauto).
        eapply Jver_keep; [|exact K]. eapply ok_step_trans; [apply (os_pop g y false z rest t Er (proj1 Aw))|exact O]. }
      cbn [canceled set_ready] in *. destruct (canceled t) eqn:Ec.
      + apply (Old Hin). pose proof (J _ _ Hloc Hin) as K. destruct K as (_ & K2 & _).
        assert (Aw : away g y z) by (eapply completed_away; eauto). destruct Aw as [Aw1 _].
        eapply ok_step_trans; [apply os_set_status; exact Aw1 | apply os_cancelled_add; exact Aw1].
      + destruct (dry c) eqn:Hd.
        * unfold execute_record_gen in *. rewrite Hd in *. cbn in Hin. destruct Hin as [Hin|Hin]; [discriminate|].
          apply (Old Hin). pose proof (J _ _ Hloc Hin) as K. destruct K as (_ & K2 & _).
          assert (Aw : away g y z) by (eapply completed_away; eauto). destruct Aw as [Aw1 _].
          eapply ok_step_trans; [|apply os_completed_add; exact Aw1].
          eapply ok_step_trans; [apply os_emit | apply os_set_status; exact Aw1].
        * destruct (execute_record_attempts c g z (set_ready t rest) Hd) as (k & ok & A & _).
          cbv zeta in A. cbn [evs set_ready] in A.
          apply in_rev in Hin. rewrite A in Hin. apply in_app_iff in Hin. destruct Hin as [Hin|Hin].
          -- apply in_rev in Hin. apply (Old Hin). pose proof (J _ _ Hloc Hin) as K. destruct K as (_ & K2 & _).
             apply os_execute_record. eapply completed_away; eauto.
          -- destruct Hin as [Hin|Hin]; [discriminate|].
             destruct (loop_events_some _ _ _ _ _ _ _ _ _ _ Hin) as (-> & -> & _).
             assert (Hzl : z < length (recs (set_ready t rest))).
             { cbn. rewrite (i_len_recs g t H). apply (i_bound g t H). auto. }
             destruct (local_execute_verdict c g z (set_ready t rest) Hd Hloc Hzl) as (k' & ok' & B1 & B2 & _ & _ & B5 & B6).
             cbv zeta in B1, B5, B6. cbn [evs set_ready] in B1.
             assert (ok' = true).
             { rewrite Hloc in A. rewrite B1 in A. apply app_inv_head in A. inversion A as [A'].
               destruct ok'; auto. exfalso.
               match type of A' with _ = loop_events _ _ _ _ _ ?nj =>
                 assert (Hs : In (ESubmit z Main false (Some nj)) (loop_events z false false k true nj))
                   by (unfold loop_events, att_events; apply in_app_iff; right; cbn; auto) end.
               rewrite <- A' in Hs.
               destruct (loop_events_some _ _ _ _ _ _ _ _ _ _ Hs) as (_ & Hf & _). discriminate. }
             subst ok'. destruct B6 as (C1 & C2 & _). auto.
  Qed.

  Theorem poll_local_verdict s : Inv g s -> valid_pin s p = true ->
    forall x j, scheduled (attr g x) = false ->
    In (ESubmit x Main false (Some j)) (evs (fst (poll c g s p))) ->
    status (getrec (fst (poll c g s p)) x) = FINISHED /\ In x (completed (fst (poll c g s p))) /\
    ~ In x (inprog (fst (poll c g s p))).
  Proof.
    intros I V. pose proof (poll_reach c g p W s I V) as R.
    apply (psteps_ind_inv c g p Jver Jver_step _ _ R). intros x j _ [].
  Qed.
End PollLevel.

(** * Part 5: run level -- every executed poll of every run with valid poll inputs
    ([valid_pins]: each answer mentions tracked steps only, each at most once) *)
Lemma run_steps_valid c g ps : WF g -> forall s, Inv g s -> Thr c s -> valid_pins c g s ps = true ->
  forall t, In t (run_steps c g s ps) ->
  Inv g (st_pre t) /\ Thr c (st_pre t) /\ valid_pin (st_pre t) (st_pin t) = true.
Proof.
  intros W. induction ps as [|p ps IH]; intros s I T V t Ht; cbn [run_steps] in Ht; [destruct Ht|].
  cbn [valid_pins] in V. apply andb_true_iff in V. destruct V as [V1 V2].
  pose proof (poll_Inv c g s p W I T V1) as H.
  destruct (poll c g s p) as [s1 r]. cbn [fst] in H. destruct H as [I1 T1].
  destruct r; try (destruct Ht as [<-|[]]; cbn; auto).
  destruct Ht as [<-|Ht]; [cbn; auto|]. eapply IH; eauto.
Qed.

Theorem run_order c g ps t : WF g -> valid_pins c g (init g) ps = true -> In t (run_steps c g (init g) ps) ->
  forall x k sc res, In (ESubmit x k sc res) (evs (st_post t)) ->
  incl (parents (attr g x)) (completed (st_post t)).
Proof.
  intros W V Ht.
  destruct (run_steps_valid c g ps W (init g) (init_Inv g) (init_Thr c g) V t Ht) as (I & _ & Vp).
  destruct (run_steps_poll c g ps _ t Ht) as [E _].
  pose proof (poll_order c g (st_pin t) W (st_pre t) I Vp) as O. rewrite E in O. exact O.
Qed.

Theorem run_local_verdict c g ps t : WF g -> valid_pins c g (init g) ps = true -> In t (run_steps c g (init g) ps) ->
  forall x j, scheduled (attr g x) = false -> In (ESubmit x Main false (Some j)) (evs (st_post t)) ->
  status (getrec (st_post t) x) = FINISHED /\ In x (completed (st_post t)) /\ ~ In x (inprog (st_post t)).
Proof.
  intros W V Ht.
  destruct (run_steps_valid c g ps W (init g) (init_Inv g) (init_Thr c g) V t Ht) as (I & _ & Vp).
  destruct (run_steps_poll c g ps _ t Ht) as [E _].
  pose proof (poll_local_verdict c g (st_pin t) W (st_pre t) I Vp) as O. rewrite E in O. exact O.
Qed.

(** C20: the frame of a quiet report at every executed poll of a run, unconditionally *)
Theorem run_frame_valid c g ps t x : WF g -> valid_pins c g (init g) ps = true -> In t (run_steps c g (init g) ps) ->
  In x (inprog (st_pre t)) ->
  (forall o, In (x, o) (delivered c (st_pin t)) -> quiet o = true) ->
  getrec (st_post t) x = getrec (st_pre t) x /\ In x (inprog (st_post t)) /\
  ~ In x (completed (st_post t)) /\ ~ In x (failed (st_post t)) /\ ~ In x (cancelled (st_post t)).
Proof.
  intros W V Ht Hx Hq.
  destruct (run_steps_valid c g ps W (init g) (init_Inv g) (init_Thr c g) V t Ht) as (I & _ & Vp).
  destruct (run_steps_poll c g ps _ t Ht) as [E _].
  apply valid_pin_spec in Vp. destruct Vp as [_ Vi].
  assert (VR : valid_reports (st_pre t) (st_pin t)) by (intros [y o] Hr; cbn; eapply Vi; eauto).
  pose proof (poll_frame c g (st_pre t) (st_pin t) x W I VR Hx Hq) as F.
  rewrite E in F. cbn [fst] in F. tauto.
Qed.

Lemma execute_record_gen_first' c g z s : exists new, evs (execute_record_gen c g z false s) = new ++ EGen z :: evs s.
Proof.
  unfold execute_record_gen. cbn [negb]. destruct (dry c); [exists []; reflexivity|].
  destruct (submit_attempts_loop g z false (attempts c) (emit (EGen z) s)) as (k & L).
  destruct (submit_attempts g z false (attempts c) (emit (EGen z) s)) as [ok s1]. cbn [fst snd] in L.
  pose proof (ls_evs _ _ _ _ _ _ _ _ L) as E. cbn [emit evs set_evs rev] in E.
  assert (E1 : evs s1 = rev (loop_events z false (scheduled (attr g z)) k ok (next_job (emit (EGen z) s))) ++ EGen z :: evs s).
  { apply (f_equal (@rev event)) in E. rewrite rev_involutive, rev_app_distr, rev_app_distr, rev_involutive in E.
    cbn in E. exact E. }
  eexists. destruct ok.
  - destruct (negb (scheduled (attr g z))); cbn; exact E1.
  - destruct (mfl_same (bfs_subtree g z) (inprog_remove z s1)) as (_ & _ & Ev & _). rewrite Ev. cbn. exact E1.
Qed.

(** * Part 6: the failure verdict at poll level *)

(** a FAILED member of [failed] stays so while another step is executed *)
Lemma execute_record_sticky c g z s y : z <> y -> y < length (recs s) ->
  In y (failed s) -> status (getrec s y) = FAILED ->
  let s' := execute_record_gen c g z false s in
  In y (failed s') /\ status (getrec s' y) = FAILED.
Proof.
  intros Hn Hy Hf Hs. unfold execute_record_gen. cbn [negb].
  assert (Keep : forall s', ok_step g y false s s' -> In y (failed s') /\ status (getrec s' y) = FAILED).
  { intros s' [O1 _ _ O4 _ _ _ _]. rewrite O1, O4. auto. }
  destruct (dry c).
  - apply Keep. eapply ok_step_trans; [|apply os_completed_add; exact Hn].
    eapply ok_step_trans; [apply os_emit | apply os_set_status; exact Hn].
  - pose proof (os_submit_attempts g y false z false (attempts c) Hn (emit (EGen z) s)) as A1.
    destruct (submit_attempts_loop g z false (attempts c) (emit (EGen z) s)) as (k & L).
    destruct (submit_attempts g z false (attempts c) (emit (EGen z) s)) as [ok s1]. cbn [fst snd] in *.
    assert (A : ok_step g y false s s1) by (eapply ok_step_trans; [apply os_emit | exact A1]).
    destruct ok.
    + apply Keep. destruct (negb (scheduled (attr g z))).
      * eapply ok_step_trans; [|apply os_inprog_remove; exact Hn].
        eapply ok_step_trans; [|apply os_completed_add; exact Hn].
        eapply ok_step_trans; [|apply os_set_status; exact Hn].
        eapply ok_step_trans; [exact A | apply os_inprog_add; exact Hn].
      * eapply ok_step_trans; [exact A | apply os_inprog_add; exact Hn].
    + assert (B : ok_step g y false s (inprog_remove z s1))
        by (eapply ok_step_trans; [exact A | apply os_inprog_remove; exact Hn]).
      destruct (Keep _ B) as [K1 K2]. split.
      * apply mfl_in_failed. auto.
      * apply mfl_status_failed; auto. cbn. rewrite (ls_len _ _ _ _ _ _ _ _ L). exact Hy.
Qed.

Section PollFailure.
  Variables (c : cfg) (g : graph) (p : pin).
  Hypothesis W : WF g.

  (** all attempts of the local step x failed (and none succeeded) in this poll's log *)
  Definition all_failed (t : st) (x : nat) : Prop :=
    In (ESubmit x Main false None) (evs t) /\ forall j, ~ In (ESubmit x Main false (Some j)) (evs t).

  Definition Fver (t : st) : Prop :=
    forall x, scheduled (attr g x) = false -> all_failed t x ->
    forall y, In y (bfs_subtree g x) -> In y (failed t) /\ status (getrec t y) = FAILED.

  Definition Jfail (a : conf) : Prop :=
    let '(t, cl, ca, _) := a in no_main t \/ (cl = [] /\ ca = [] /\ Fver t).

  Lemma no_main_Fver t : no_main t -> Fver t.
  Proof. intros N x _ [H _]. exfalso. exact (N _ _ _ H). Qed.

  Lemma Jfail_step a b : pstep c g p a b -> Jfail a -> Jfail b.
  Proof.
    intros St. destruct St; unfold Jfail; intros J.
    - (* cancel *) destruct J as [N|(_ & _ & F)].
      + left. intros y sc res [Hh|Hh]; [discriminate|exact (N _ _ _ Hh)].
      + right. splits; auto. intros x Hl [A1 A2] y Hy.
        cbn in A1. destruct A1 as [A1|A1]; [discriminate|].
        apply (F x Hl); auto. split; auto. intros j Hj. apply (A2 j). right. exact Hj.
    - (* check *) destruct J as [N|(_ & _ & F)].
      + left. intros y sc res [Hh|Hh]; [discriminate|exact (N _ _ _ Hh)].
      + right. splits; auto. intros x Hl [A1 A2] y Hy.
        cbn in A1. destruct A1 as [A1|A1]; [discriminate|].
        apply (F x Hl); auto. split; auto. intros j Hj. apply (A2 j). right. exact Hj.
    - (* report *) left. eapply hr_no_main; eauto.
      rewrite (i_len_recs g t H4). apply (i_bound g t H4). auto.
    - (* sweep failed *) destruct J as [N|(E & _)]; [left; exact N|discriminate].
    - (* sweep cancelled *) destruct J as [N|(_ & E & _)]; [left; exact N|discriminate].
    - (* stage *)
      destruct (stage_node_frame g t x) as (_ & _ & A3 & _ & A1 & _ & A7 & _).
      destruct J as [N|(_ & _ & F)].
      + left. unfold no_main. rewrite A7. exact N.
      + right. splits; auto. unfold Fver, all_failed, getrec. rewrite A7, A3, A1. exact F.
    - (* launch *)
      right. splits; auto.
      assert (F : Fver t) by (destruct J as [N|(_ & _ & F)]; [apply no_main_Fver; exact N | exact F]).
      unfold launch_body_gen. destruct (ready t) as [|z rest] eqn:Er; [exact F|].
      assert (Hzr : In z (ready t)) by (rewrite Er; left; reflexivity).
      assert (Hzl : z < length (recs t)) by (rewrite (i_len_recs g t H); apply (i_bound g t H); auto).
      cbn [canceled set_ready]. destruct (canceled t) eqn:Ec.
      { (* popped after a cancel request: no adapter call, only z's record and the cancelled set change *)
        intros x Hl A y Hy. destruct (F x Hl A y Hy) as [F1 F2].
        assert (Hn : z <> y).
        { intros ->. destruct (i_dj_fc g t H y (or_introl F1)) as (_ & _ & B). auto. }
        split; [exact F1|].
        change (status (getrec (rec_set_status z CANCELLED (set_ready t rest)) y) = FAILED).
        rewrite getrec_set_status_neq by exact Hn. exact F2. }
      intros x Hl [A1 A2] y Hy.
      set (t0 := set_ready t rest) in *.
      assert (Old : In (ESubmit x Main false None) (evs t) ->
                    In y (failed (execute_record_gen c g z false t0)) /\
                    status (getrec (execute_record_gen c g z false t0) y) = FAILED).
      { intros Ho.
        assert (AF : all_failed t x).
        { split; auto. intros j Hj. apply (A2 j).
          destruct (execute_record_gen_first' c g z t0) as (new & En). rewrite En.
          apply in_app_iff. right. right. exact Hj. }
        destruct (F x Hl AF y Hy) as [F1 F2].
        assert (Hn : z <> y).
        { intros ->. destruct (i_dj_fc g t H y (or_introl F1)) as (_ & _ & B). auto. }
        apply execute_record_sticky; auto.
        destruct (Nat.lt_ge_cases y (length (recs t))) as [Hl'|Hl']; [exact Hl'|].
        exfalso. unfold getrec in F2. rewrite nth_overflow in F2 by exact Hl'. discriminate. }
      destruct (dry c) eqn:Hd.
      + unfold execute_record_gen in A1 |- *. rewrite Hd in *. cbn in A1. destruct A1 as [A1|A1]; [discriminate|].
        pose proof (Old A1) as O. unfold execute_record_gen in O. rewrite Hd in O. exact O.
      + destruct (execute_record_attempts c g z t0 Hd) as (k & ok & A & _).
        cbv zeta in A. cbn [evs set_ready t0] in A.
        apply in_rev in A1. rewrite A in A1. apply in_app_iff in A1. destruct A1 as [A1|A1].
        { apply in_rev in A1. exact (Old A1). }
        destruct A1 as [A1|A1]; [discriminate|].
        pose proof (loop_events_node _ _ _ _ _ _ _ A1) as Ez. cbn in Ez. inversion Ez; subst z.
        destruct (local_execute_verdict c g x t0 Hd Hl Hzl) as (k' & ok' & B1 & _ & _ & _ & _ & B6).
        cbv zeta in B1, B6. cbn [evs set_ready t0] in B1.
        destruct ok'.
        * exfalso. apply (A2 (next_job t)). apply in_rev. rewrite B1. apply in_app_iff. right. right.
          unfold loop_events, att_events. apply in_app_iff. right. cbn. auto.
        * destruct B6 as (_ & B6). destruct (B6 y Hy) as [C1 C2]. split; auto.
          apply C2. destruct (Nat.lt_ge_cases y (length (recs t0))) as [Hl'|Hl']; [exact Hl'|].
          exfalso. assert (Hyl : y < length g) by (eapply bfs_subtree_lt; eauto; rewrite <- (i_len_recs g t H); exact Hzl).
          cbn in Hl'. rewrite (i_len_recs g t H) in Hl'. lia.
  Qed.

  Theorem poll_local_failure s : Inv g s -> valid_pin s p = true ->
    forall x, scheduled (attr g x) = false ->
    In (ESubmit x Main false None) (evs (fst (poll c g s p))) ->
    (forall j, ~ In (ESubmit x Main false (Some j)) (evs (fst (poll c g s p)))) ->
    forall y, In y (bfs_subtree g x) ->
    In y (failed (fst (poll c g s p))) /\ status (getrec (fst (poll c g s p)) y) = FAILED.
  Proof.
    intros I V x Hl A1 A2. pose proof (poll_reach c g p W s I V) as R.
    assert (J : Jfail (fst (poll c g s p), [], [],
                       if qcode_eqb (qcode p) QERROR && negb (dry c) then [] else ExecSteps.delivered c p)).
    { apply (psteps_ind_inv c g p Jfail Jfail_step _ _ R). left. intros y sc res []. }
    destruct J as [N|(_ & _ & F)]; [exfalso; exact (N _ _ _ A1)|].
    apply (F x Hl). split; auto.
  Qed.
End PollFailure.

Theorem run_local_failure c g ps t : WF g -> valid_pins c g (init g) ps = true -> In t (run_steps c g (init g) ps) ->
  forall x, scheduled (attr g x) = false ->
  In (ESubmit x Main false None) (evs (st_post t)) ->
  (forall j, ~ In (ESubmit x Main false (Some j)) (evs (st_post t))) ->
  forall y, In y (bfs_subtree g x) -> In y (failed (st_post t)) /\ status (getrec (st_post t) y) = FAILED.
Proof.
  intros W V Ht.
  destruct (run_steps_valid c g ps W (init g) (init_Inv g) (init_Thr c g) V t Ht) as (I & _ & Vp).
  destruct (run_steps_poll c g ps _ t Ht) as [E _].
  pose proof (poll_local_failure c g (st_pin t) W (st_pre t) I Vp) as O. rewrite E in O. exact O.
Qed.

(** * Concrete instances *)
Module LocalEx.
  Definition nd (par ch : list nat) (sched : bool) : sattr :=
    {| parents := par; children := ch; scheduled := sched; has_restart := false; rlimit := 0 |}.
  (** 0 -> 1 -> 2, all local *)
  Definition gl : graph := [nd [] [1] false; nd [0] [2] false; nd [1] [] false].
  Definition c2 : cfg := {| throttle := 0; attempts := 2; dry := false |}.
  Definition pin_subs (l : list bool) : pin := {| cancel_req := false; qcode := QOK; reports := []; psubs := l |}.
  Lemma wf_gl : WF gl.
  Proof. apply wf_graph_WF. vm_compute. reflexivity. Qed.
End LocalEx.

(** C20: RUNNING reports at every executed poll of a run with valid answers *)
Theorem run_running_valid c g ps t x : WF g -> valid_pins c g (init g) ps = true -> In t (run_steps c g (init g) ps) ->
  In x (inprog (st_pre t)) ->
  (forall o, In (x, o) (delivered c (st_pin t)) -> quiet o = true \/ o = Some RUNNING) ->
  In (x, Some RUNNING) (delivered c (st_pin t)) ->
  status (getrec (st_post t) x) = RUNNING /\ jobs (getrec (st_post t) x) = jobs (getrec (st_pre t) x) /\
  restarts (getrec (st_post t) x) = restarts (getrec (st_pre t) x) /\ In x (inprog (st_post t)) /\
  ~ In x (completed (st_post t)) /\ ~ In x (failed (st_post t)) /\ ~ In x (cancelled (st_post t)).
Proof.
  intros W V Ht Hx Hq Hr.
  destruct (run_steps_valid c g ps W (init g) (init_Inv g) (init_Thr c g) V t Ht) as (I & _ & Vp).
  destruct (run_steps_poll c g ps _ t Ht) as [E _].
  apply valid_pin_spec in Vp. destruct Vp as [_ Vi].
  assert (VR : valid_reports (st_pre t) (st_pin t)) by (intros [y o] Hr'; cbn; eapply Vi; eauto).
  pose proof (poll_running c g (st_pre t) (st_pin t) x W I VR Hx Hq Hr) as F.
  rewrite E in F. cbn [fst] in F. tauto.
Qed.

(** C05, safety half: what the verdict of [_check_study_completion] (generated
    text [completion_gen]) says about the state it is computed on, and where
    the status returned by a poll comes from. *)
From Coq Require Import Lia.
From MWF Require Import Base.Util Base.UtilLemmas Exec.ExecBase Exec.ExecGen Exec.ExecRun Exec.ExecTrace
  Exec.ExecGraph Exec.ExecInv.

(** every instance is in one of the three "resolved" sets *)
Definition all_resolved (g : graph) (s : st) : Prop :=
  forall x, x < length g -> In x (completed s) \/ In x (failed s) \/ In x (cancelled s).
(** a cancel request has been processed and nothing is in flight any more *)
Definition cancel_done (s : st) : Prop := canceled s = true /\ inprog s = [].

Lemma is_nil_true {A} (l : list A) : is_nil l = true <-> l = [].
Proof. destruct l; cbn; split; congruence. Qed.
Lemma is_nil_false {A} (l : list A) : is_nil l = false <-> l <> [].
Proof. destruct l; cbn; split; congruence. Qed.

Lemma cancel_done_b s : canceled s && is_nil (inprog s) = true <-> cancel_done s.
Proof. unfold cancel_done. rewrite andb_true_iff, is_nil_true. tauto. Qed.

Lemma all_resolved_b g s :
  subset (seq 0 (length g)) (completed s ++ failed s ++ cancelled s) = true <-> all_resolved g s.
Proof.
  rewrite subset_incl. unfold incl, all_resolved. split; intros H x Hx.
  - specialize (H x). rewrite In_seq_lt, !in_app_iff in H. auto.
  - rewrite In_seq_lt in Hx. rewrite !in_app_iff. auto.
Qed.

Lemma completion_cases g s :
  (cancel_done s /\ completion_gen g s = SCANCELLED) \/
  (~ cancel_done s /\ all_resolved g s /\ cancelled s <> [] /\ completion_gen g s = SCANCELLED) \/
  (~ cancel_done s /\ all_resolved g s /\ cancelled s = [] /\ failed s <> [] /\ completion_gen g s = SFAILURE) \/
  (~ cancel_done s /\ all_resolved g s /\ cancelled s = [] /\ failed s = [] /\ completion_gen g s = SFINISHED) \/
  (~ cancel_done s /\ ~ all_resolved g s /\ completion_gen g s = SRUNNING).
Proof.
  unfold completion_gen.
  destruct (canceled s && is_nil (inprog s)) eqn:E1.
  { left. split; auto. apply cancel_done_b; auto. }
  assert (N1 : ~ cancel_done s) by (rewrite <- cancel_done_b; congruence).
  right.
  destruct (subset (seq 0 (length g)) (completed s ++ failed s ++ cancelled s)) eqn:E2.
  2:{ right. right. right. split; auto. split; auto. rewrite <- all_resolved_b. congruence. }
  apply all_resolved_b in E2.
  destruct (is_nil (cancelled s)) eqn:E3; cbn [negb].
  2:{ left. apply is_nil_false in E3. auto. }
  apply is_nil_true in E3. right.
  destruct (is_nil (failed s)) eqn:E4; cbn [negb].
  - apply is_nil_true in E4. right. left. auto.
  - apply is_nil_false in E4. left. auto.
Qed.

Theorem verdict_cancelled g s :
  completion_gen g s = SCANCELLED <-> cancel_done s \/ (all_resolved g s /\ cancelled s <> []).
Proof.
  destruct (completion_cases g s) as [H|[H|[H|[H|H]]]]; split; intros K; try tauto;
    try (exfalso; intuition congruence).
Qed.

Theorem verdict_failure g s :
  completion_gen g s = SFAILURE <->
  all_resolved g s /\ cancelled s = [] /\ failed s <> [] /\ ~ cancel_done s.
Proof.
  destruct (completion_cases g s) as [H|[H|[H|[H|H]]]]; split; intros K; try tauto;
    try (exfalso; intuition congruence).
Qed.

Theorem verdict_finished_raw g s :
  completion_gen g s = SFINISHED <->
  all_resolved g s /\ cancelled s = [] /\ failed s = [] /\ ~ cancel_done s.
Proof.
  destruct (completion_cases g s) as [H|[H|[H|[H|H]]]]; split; intros K; try tauto;
    try (exfalso; intuition congruence).
Qed.

Theorem verdict_running g s :
  completion_gen g s = SRUNNING <-> ~ cancel_done s /\ ~ all_resolved g s.
Proof.
  destruct (completion_cases g s) as [H|[H|[H|[H|H]]]]; split; intros K; try tauto;
    try (exfalso; intuition congruence).
Qed.

Theorem verdict_never_abort g s : completion_gen g s <> SABORT.
Proof.
  destruct (completion_cases g s) as [H|[H|[H|[H|H]]]]; intuition congruence.
Qed.

(** With the state invariant the sets are disjoint, so FINISHED says: no cancel
    request was ever processed and every instance is in [completed]. *)
Definition all_completed (g : graph) (s : st) : Prop := forall x, x < length g -> In x (completed s).

Lemma nil_of_notin {A} (l : list A) : (forall x, ~ In x l) -> l = [].
Proof. destruct l as [|a l]; auto. intros H. exfalso. apply (H a). left. reflexivity. Qed.

Theorem verdict_finished g s : Inv g s ->
  (completion_gen g s = SFINISHED <-> canceled s = false /\ all_completed g s).
Proof.
  intros I. rewrite verdict_finished_raw. split.
  - intros (A & C & F & N).
    assert (AC : all_completed g s).
    { intros x Hx. destruct (A x Hx) as [H|[H|H]]; auto; [rewrite F in H | rewrite C in H]; destruct H. }
    split; auto.
    destruct (canceled s) eqn:E; auto. exfalso. apply N. split; auto.
    apply nil_of_notin. intros x Hx.
    apply (i_dj_ci g s I x); auto. apply AC. apply (i_bound g s I). auto.
  - intros [E AC].
    assert (F : failed s = []).
    { apply nil_of_notin. intros x Hx. destruct (i_dj_fc g s I x (or_introl Hx)) as [H _].
      apply H. apply AC. apply (i_bound g s I). auto 6. }
    assert (C : cancelled s = []).
    { apply nil_of_notin. intros x Hx. destruct (i_dj_fc g s I x (or_intror Hx)) as [H _].
      apply H. apply AC. apply (i_bound g s I). auto 6. }
    splits; auto.
    + intros x Hx. left. auto.
    + intros [K _]. congruence.
Qed.

(** FINISHED and FAILURE are only returned when nothing is in flight
    (all instances resolved and the resolved sets are disjoint from [inprog]). *)
Lemma all_resolved_inprog_nil g s : Inv g s -> all_resolved g s -> inprog s = [].
Proof.
  intros I A. apply nil_of_notin. intros x Hx.
  assert (Hl : x < length g) by (apply (i_bound g s I); auto).
  destruct (A x Hl) as [H|[H|H]].
  - exact (i_dj_ci g s I x H Hx).
  - destruct (i_dj_fc g s I x (or_introl H)) as (_ & K & _). auto.
  - destruct (i_dj_fc g s I x (or_intror H)) as (_ & K & _). auto.
Qed.

Theorem verdict_final_idle g s : Inv g s ->
  completion_gen g s <> SRUNNING -> inprog s = [].
Proof.
  intros I H. destruct (completion_cases g s) as [K|[K|[K|[K|K]]]].
  - destruct K as [[_ K] _]. exact K.
  - eapply all_resolved_inprog_nil; eauto. tauto.
  - eapply all_resolved_inprog_nil; eauto. tauto.
  - eapply all_resolved_inprog_nil; eauto. tauto.
  - tauto.
Qed.

(** * Where the status returned by a poll comes from *)
Definition aborts (c : cfg) (p : pin) : bool := negb (dry c) && qcode_eqb (qcode p) QERROR.

Lemma poll_status c g s p :
  snd (poll c g s p) = if aborts c p then SABORT else completion_gen g (fst (poll c g s p)).
Proof.
  unfold poll, execute_ready_steps_gen, aborts.
  destruct (dry c); cbn [negb andb].
  - cbn [qcode_eqb]. reflexivity.
  - destruct (qcode_eqb (qcode p) QERROR); reflexivity.
Qed.

Lemma poll_abort_iff c g s p : Inv g (fst (poll c g s p)) ->
  (snd (poll c g s p) = SABORT <-> aborts c p = true).
Proof.
  intros _. rewrite poll_status. destruct (aborts c p); split; try congruence.
  intros H. exfalso. eapply verdict_never_abort; eauto.
Qed.

(** * Exit codes (generated table [Gen/ExitCodes.v]) *)
From Coq Require Import ZArith.
From MWF Require Import Gen.ExitCodes.

Theorem exit_code_zero_iff r :
  (exit_code_conductor r = 0%Z <-> r = SFINISHED) /\ (exit_code_maestro_fg r = 0%Z <-> r = SFINISHED).
Proof. destruct r; vm_compute; split; split; congruence. Qed.

Theorem exit_code_paths_agree r : exit_code_conductor r = exit_code_maestro_fg r.
Proof. destruct r; vm_compute; reflexivity. Qed.

Theorem exit_code_distinct :
  exit_code SFAILURE <> 0%Z /\ exit_code SCANCELLED <> 0%Z /\ exit_code SFAILURE <> exit_code SCANCELLED /\
  exit_code SABORT <> 0%Z.
Proof. vm_compute. repeat split; congruence. Qed.

Theorem exit_code_values :
  exit_code SFINISHED = 0%Z /\ exit_code SFAILURE = 2%Z /\ exit_code SCANCELLED = 3%Z.
Proof. vm_compute. repeat split. Qed.

(** everything the verdict says, in one statement *)
Theorem verdict_all g s : Inv g s ->
  (completion_gen g s = SFINISHED <-> canceled s = false /\ all_completed g s) /\
  (completion_gen g s = SCANCELLED <-> cancel_done s \/ (all_resolved g s /\ cancelled s <> [])) /\
  (completion_gen g s = SFAILURE <-> all_resolved g s /\ cancelled s = [] /\ failed s <> [] /\ ~ cancel_done s) /\
  (completion_gen g s = SRUNNING <-> ~ cancel_done s /\ ~ all_resolved g s) /\
  completion_gen g s <> SABORT /\
  (completion_gen g s <> SRUNNING -> inprog s = []).
Proof.
  intros I. splits.
  - apply verdict_finished; auto.
  - apply verdict_cancelled.
  - apply verdict_failure.
  - apply verdict_running.
  - apply verdict_never_abort.
  - apply verdict_final_idle; auto.
Qed.

Theorem exit_code_all :
  (forall r, exit_code r = 0%Z <-> r = SFINISHED) /\
  (forall r, exit_code_conductor r = exit_code_maestro_fg r) /\
  exit_code SFAILURE <> 0%Z /\ exit_code SCANCELLED <> 0%Z /\ exit_code SFAILURE <> exit_code SCANCELLED /\
  exit_code SABORT <> 0%Z /\
  exit_code SFINISHED = 0%Z /\ exit_code SFAILURE = 2%Z /\ exit_code SCANCELLED = 3%Z.
Proof.
  split; [intros r; apply exit_code_zero_iff|]. split; [apply exit_code_paths_agree|].
  vm_compute. repeat split; congruence.
Qed.

(** Entry points evaluated by the correspondence runner on generated cases. *)
From MWF Require Import Exec.ExecBase Exec.ExecGen Exec.ExecRun Exec.ExecTrace.

Record ecase := { e_cfg : cfg; e_g : graph; e_pins : list pin; e_obs : list obs }.

Definition model_obs (e : ecase) : list obs := run (e_cfg e) (e_g e) (init (e_g e)) (e_pins e).

(** model and implementation produce the same observations *)
Definition corr_ok (e : ecase) : bool := list_eqb obs_eqb (model_obs e) (e_obs e).

(** the property monitor on the IMPLEMENTATION's observations *)
Definition impl_ok (pid : nat) (e : ecase) : bool := prop_ok pid (e_cfg e) (e_g e) (e_pins e) (e_obs e).
Definition impl_viol (e : ecase) : list nat := viol_of (e_cfg e) (e_g e) (e_pins e) (e_obs e).

(** the same monitor on the MODEL's own observations (tested form of the theorems) *)
Definition model_viol (e : ecase) : list nat := viol_of (e_cfg e) (e_g e) (e_pins e) (model_obs e).

Definition both_ok (pid : nat) (e : ecase) : bool :=
  wf_graph (e_g e) && corr_ok e && impl_ok pid e && is_nil (model_viol e).
